import Morlock.Proofs.FenRoundtrip
/-!
# `Encode ∘ Decode = id` on the standard grammar

`Canonical s`: `s` is a FEN line in the standard grammar — six fields joined by single spaces, no
surrounding blanks; eight `/`-separated ranks each describing exactly eight squares with digits `1`–`8`
and piece letters, no two digits adjacent; `w` or `b`; `-` or a non-empty subsequence of `KQkq`; `-` or
a square `a1`…`h8` other than `h1` (see `h1_not_roundtrip`; the standard only has ranks 3 and 6 here);
two decimal numerals without sign or leading zeros.
-/
namespace Morlock.Proofs.Fen
open Morlock Morlock.Model Morlock.Model.Fen Morlock.Proofs

/-! ## Grammar -/

/-- Number of squares a rank string describes. -/
def rankWidth : List Char → Nat
  | [] => 0
  | r :: rs => (if '1' ≤ r && r ≤ '8' then r.toNat - '0'.toNat else 1) + rankWidth rs

theorem rankWidth_eq (rk : List Char) : rankWidth rk = (cellsOf rk).length := by
  induction rk with
  | nil => rfl
  | cons r rs ih =>
    unfold rankWidth cellsOf
    split <;> simp [ih, Nat.add_comm]

/-- Side to move: `w` or `b`. -/
def CanonColor (p1 : List Char) : Prop := p1 = ['w'] ∨ p1 = ['b']

/-- Castling rights: `-`, or a non-empty subsequence of `KQkq`. -/
def CanonCastling (p2 : List Char) : Prop := p2 = ['-'] ∨ (p2 ≠ [] ∧ List.Sublist p2 ['K', 'Q', 'k', 'q'])

/-- En-passant target: `-`, or a lower-case square name other than `h1`. -/
def CanonEp (p3 : List Char) : Prop :=
  p3 = ['-'] ∨ ∃ f r, p3 = [f, r] ∧ ('a' ≤ f ∧ f ≤ 'h') ∧ ('1' ≤ r ∧ r ≤ '8') ∧ p3 ≠ ['h', '1']

/-- Decimal numeral: non-empty, digits only, no leading zero (except `0` itself). -/
def CanonNum (ds : List Char) : Prop :=
  ds ≠ [] ∧ (∀ c ∈ ds, c.isDigit = true) ∧ (ds.head? = some '0' → ds = ['0'])

/-- The six fields of a FEN line in the standard grammar (`rks` are the eight rank strings). -/
def CanonFields (rks : List (List Char)) (p1 p2 p3 p4 p5 : List Char) : Prop :=
  rks.length = 8 ∧ (∀ rk ∈ rks, canonRank rk = true ∧ rankWidth rk = 8) ∧
    CanonColor p1 ∧ CanonCastling p2 ∧ CanonEp p3 ∧ CanonNum p4 ∧ CanonNum p5

/-- A FEN line in the standard grammar. -/
def Canonical (s : List Char) : Prop :=
  ∃ rks p1 p2 p3 p4 p5,
    s = join6 (List.intercalate ['/'] rks) p1 p2 p3 p4 p5 ∧ CanonFields rks p1 p2 p3 p4 p5

/-! ## Numerals -/

theorem digitChar_of_isDigit {c : Char} (h : c.isDigit = true) : Nat.digitChar (c.toNat - '0'.toNat) = c := by
  rw [isDigit_iff] at h
  have : c.toNat = 48 ∨ c.toNat = 49 ∨ c.toNat = 50 ∨ c.toNat = 51 ∨ c.toNat = 52 ∨ c.toNat = 53 ∨
      c.toNat = 54 ∨ c.toNat = 55 ∨ c.toNat = 56 ∨ c.toNat = 57 := by omega
  rcases this with e | e | e | e | e | e | e | e | e | e <;>
    (rw [char_eq_ofNat e]; decide)

theorem digit_val_lt {c : Char} (h : c.isDigit = true) : c.toNat - '0'.toNat < 10 := by
  rw [isDigit_iff] at h
  have : '0'.toNat = 48 := rfl
  omega

theorem toDigits_ofDigitChars_pos (ds : List Char) (init : Nat) (hpos : 0 < init)
    (hd : ∀ c ∈ ds, c.isDigit = true) :
    Nat.toDigits 10 (Nat.ofDigitChars 10 ds init) = Nat.toDigits 10 init ++ ds := by
  induction ds generalizing init with
  | nil => simp
  | cons d ds ih =>
    have hdd := hd d (List.mem_cons_self ..)
    rw [Nat.ofDigitChars_cons, ih _ (by omega) (fun c hc => hd c (List.mem_cons_of_mem _ hc)),
      ← Nat.toDigits_append_toDigits (by decide) hpos (digit_val_lt hdd),
      Nat.toDigits_of_lt_base (digit_val_lt hdd), digitChar_of_isDigit hdd]
    simp

/-- `Itoa(Atoi(s)) = s` on canonical numerals. -/
theorem toDigits_ofDigitChars {ds : List Char} (h : CanonNum ds) :
    Nat.toDigits 10 (Nat.ofDigitChars 10 ds 0) = ds := by
  obtain ⟨hne, hd, hz⟩ := h
  cases ds with
  | nil => exact absurd rfl hne
  | cons d rest =>
    have hdd := hd d (List.mem_cons_self ..)
    by_cases h0 : d = '0'
    · have := hz (by rw [h0]; rfl)
      rw [this]; decide
    · have hpos : 0 < d.toNat - '0'.toNat := by
        have := (isDigit_iff d).mp hdd
        have hne : d.toNat ≠ '0'.toNat := fun e => h0 (Char.toNat_inj.mp e)
        have : '0'.toNat = 48 := rfl
        omega
      rw [Nat.ofDigitChars_cons, Nat.mul_zero, Nat.zero_add,
        toDigits_ofDigitChars_pos rest _ hpos (fun c hc => hd c (List.mem_cons_of_mem _ hc)),
        Nat.toDigits_of_lt_base (digit_val_lt hdd), digitChar_of_isDigit hdd]
      rfl

/-- On a canonical numeral `atoi` succeeds only with the value whose `itoa` is the numeral. -/
theorem itoa_atoi {ds : List Char} {v : Int} (h : CanonNum ds) (ha : atoi ds = some v) :
    (itoa v).toList = ds := by
  rw [atoi_digits ds h.1 h.2.1] at ha
  split at ha
  · cases ha
    rw [itoa_natCast, toDigits_ofDigitChars h]
  · cases ha

theorem CanonNum.NS {ds : List Char} (h : CanonNum ds) : NS ds := fun c hc => isSpace_digit (h.2.1 c hc)

/-! ## Side, rights, target -/

theorem color_print_parse {p1 : List Char} {c : Color} (h : CanonColor p1) (hp : parseColor p1 = some c) :
    (printColor c).toList = p1 := by
  rcases h with rfl | rfl
  · have : c = .white := by
      have : parseColor ['w'] = some Color.white := by decide
      rw [this] at hp; cases hp; rfl
    rw [this]; decide
  · have : c = .black := by
      have : parseColor ['b'] = some Color.black := by decide
      rw [this] at hp; cases hp; rfl
    rw [this]; decide

theorem CanonColor.NS {p1 : List Char} (h : CanonColor p1) : NS p1 := by
  rcases h with rfl | rfl <;> exact NS_of_nsb (by decide)

/-- The sixteen canonical castling fields. -/
def castlingFields : List (List Char) :=
  [['-'], ['K', 'Q', 'k', 'q'], ['K', 'Q', 'k'], ['K', 'Q', 'q'], ['K', 'Q'], ['K', 'k', 'q'], ['K', 'k'],
   ['K', 'q'], ['K'], ['Q', 'k', 'q'], ['Q', 'k'], ['Q', 'q'], ['Q'], ['k', 'q'], ['k'], ['q']]

theorem sublist_nil_iff' {l : List Char} (h : List.Sublist l []) : l = [] := by
  cases h; rfl

theorem canonCastling_mem {p2 : List Char} (h : CanonCastling p2) : p2 ∈ castlingFields := by
  rcases h with rfl | ⟨hne, hs⟩
  · decide
  · rcases List.sublist_cons_iff.mp hs with h1 | ⟨l1, e1, h1⟩ <;>
    rcases List.sublist_cons_iff.mp h1 with h2 | ⟨l2, e2, h2⟩ <;>
    rcases List.sublist_cons_iff.mp h2 with h3 | ⟨l3, e3, h3⟩ <;>
    rcases List.sublist_cons_iff.mp h3 with h4 | ⟨l4, e4, h4⟩ <;>
    (have e5 := sublist_nil_iff' h4; subst_vars; first | exact absurd rfl hne | decide)

theorem castlingFields_spec : ∀ l ∈ castlingFields,
    nsb l = true ∧ (parseCastling l).map (fun cr => (printCastling cr).toList) = some l := by decide

theorem castling_print_parse {p2 : List Char} {cr : Nat} (h : CanonCastling p2)
    (hp : parseCastling p2 = some cr) : (printCastling cr).toList = p2 := by
  have := (castlingFields_spec p2 (canonCastling_mem h)).2
  rw [hp] at this
  simpa using this

theorem CanonCastling.NS {p2 : List Char} (h : CanonCastling p2) : NS p2 :=
  NS_of_nsb (castlingFields_spec p2 (canonCastling_mem h)).1

/-- All canonical en-passant fields. -/
def epFields : List (List Char) :=
  ['-'] :: (['a', 'b', 'c', 'd', 'e', 'f', 'g', 'h'].flatMap fun f =>
    ['1', '2', '3', '4', '5', '6', '7', '8'].map fun r => [f, r]).filter (· ≠ ['h', '1'])

theorem file_cases {f : Char} (h : 'a' ≤ f ∧ f ≤ 'h') :
    f ∈ ['a', 'b', 'c', 'd', 'e', 'f', 'g', 'h'] := by
  rw [char_le_iff, char_le_iff] at h
  have h1 : 'a'.toNat = 97 := rfl
  have h2 : 'h'.toNat = 104 := rfl
  have : f.toNat = 97 ∨ f.toNat = 98 ∨ f.toNat = 99 ∨ f.toNat = 100 ∨ f.toNat = 101 ∨ f.toNat = 102 ∨
      f.toNat = 103 ∨ f.toNat = 104 := by omega
  rcases this with e | e | e | e | e | e | e | e <;>
    (rw [char_eq_ofNat e]; decide)

theorem rank_cases {r : Char} (h : '1' ≤ r ∧ r ≤ '8') :
    r ∈ ['1', '2', '3', '4', '5', '6', '7', '8'] := by
  rw [char_le_iff, char_le_iff] at h
  have h1 : '1'.toNat = 49 := rfl
  have h2 : '8'.toNat = 56 := rfl
  have : r.toNat = 49 ∨ r.toNat = 50 ∨ r.toNat = 51 ∨ r.toNat = 52 ∨ r.toNat = 53 ∨ r.toNat = 54 ∨
      r.toNat = 55 ∨ r.toNat = 56 := by omega
  rcases this with e | e | e | e | e | e | e | e <;>
    (rw [char_eq_ofNat e]; decide)

theorem canonEp_mem {p3 : List Char} (h : CanonEp p3) : p3 ∈ epFields := by
  rcases h with rfl | ⟨f, r, rfl, hf, hr, hne⟩
  · decide
  · unfold epFields
    refine List.mem_cons_of_mem _ (List.mem_filter.mpr ⟨?_, decide_eq_true hne⟩)
    exact List.mem_flatMap.mpr ⟨f, file_cases hf, List.mem_map.mpr ⟨r, rank_cases hr, rfl⟩⟩

theorem epFields_spec : ∀ l ∈ epFields,
    nsb l = true ∧
      (if l = ['-'] then some 0 else parseSquareStr l).map (fun e => (epStr e).toList) = some l := by
  decide

theorem ep_print_parse {p3 : List Char} {ep : Nat} (h : CanonEp p3)
    (hp : (if p3 = ['-'] then some 0 else parseSquareStr p3) = some ep) : (epStr ep).toList = p3 := by
  have := (epFields_spec p3 (canonEp_mem h)).2
  rw [hp] at this
  simpa using this

theorem CanonEp.NS {p3 : List Char} (h : CanonEp p3) : NS p3 :=
  NS_of_nsb (epFields_spec p3 (canonEp_mem h)).1

/-- Why `h1` is excluded: it parses to square 0, which `Encode` prints as "no target". -/
theorem h1_not_roundtrip :
    (decode "8/8/8/8/8/8/8/8 w - h1 0 1".toList).map (fun d => encode d.pos d.turn d.noprogress d.fullmoves) =
      some "8/8/8/8/8/8/8/8 w - - 0 1" := by decide

/-! ## The theorem -/

theorem canonical_ranksOK {rks : List (List Char)}
    (h : ∀ rk ∈ rks, canonRank rk = true ∧ rankWidth rk = 8) : RanksOK rks := by
  intro rk hrk
  obtain ⟨h1, h2⟩ := h rk hrk
  exact ⟨canonRank_chars h1, by rw [← rankWidth_eq]; exact h2⟩

/-- The placement field of the board of a grid decoded from canonical rank strings is those strings. -/
theorem boardStr_of_canonical {rks : List (List Char)} (hlen : rks.length = 8)
    (h : ∀ rk ∈ rks, canonRank rk = true ∧ rankWidth rk = 8) :
    (boardStr (boardOf (rks.map cellsOf))).toList = List.intercalate ['/'] rks := by
  obtain ⟨hg, _⟩ := grid_of_ranks hlen (canonical_ranksOK h)
  rw [boardStr_toList, rowsOf_boardOf hg, List.map_map]
  congr 1
  conv => rhs; rw [← List.map_id rks]
  apply List.map_congr_left
  intro rk hrk
  exact enc_cellsOf rk (h rk hrk).1

/-- **`Encode (Decode s) = s`** for every line `s` of the standard grammar that `Decode` accepts. -/
theorem encode_decode_canonical {s : List Char} {x : Decoded} (hc : Canonical s) (hd : decode s = some x) :
    encode x.pos x.turn x.noprogress x.fullmoves = String.ofList s := by
  obtain ⟨rks, p1, p2, p3, p4, p5, rfl, hlen, hrk, c1, c2, c3, c4, c5⟩ := hc
  have hok := canonical_ranksOK hrk
  have n0 : NS (List.intercalate ['/'] rks) := board_NS fun rk h => (hok rk h).1
  have hsplit := decode_split n0 c1.NS c2.NS c3.NS c4.NS c5.NS (board_ne_nil hlen) c5.1
  obtain ⟨q0, q1, q2, q3, q4, q5, pl, cr, ep, hs, h0, h1, h2, h3, h4, _, h5, _, h6⟩ := decode_inv hd
  rw [hsplit] at hs
  simp only [List.cons.injEq, and_true] at hs
  obtain ⟨rfl, rfl, rfl, rfl, rfl, rfl⟩ := hs
  rw [placements_board rks hlen hok] at h0
  simp only [Option.some.injEq, Prod.mk.injEq, true_and] at h0
  subst h0
  obtain ⟨hg, _⟩ := grid_of_ranks hlen hok
  obtain ⟨hv, hnd⟩ := placements_valid (placements_board rks hlen hok)
  obtain ⟨hr, hcr, hep⟩ := newPosition_rep hv h6
  rw [placeAll_plRows hg hnd] at hr
  rw [← String.toList_inj, encode_toList, String.toList_ofList, hr.board_eq.symm, hcr, hep,
    boardStr_of_canonical hlen hrk, color_print_parse c1 h1, castling_print_parse c2 h2,
    ep_print_parse c3 h3, itoa_atoi c4 h4, itoa_atoi c5 h5]

/-! ## Every line of the grammar with clocks in range is accepted -/

theorem canonical_accepted {rks : List (List Char)} {p1 p2 p3 p4 p5 : List Char}
    (hc : CanonFields rks p1 p2 p3 p4 p5)
    (h4 : Nat.ofDigitChars 10 p4 0 ≤ 9223372036854775807) (h5 : Nat.ofDigitChars 10 p5 0 ≤ 9223372036854775807) :
    ∃ x, decode (join6 (List.intercalate ['/'] rks) p1 p2 p3 p4 p5) = some x := by
  obtain ⟨hlen, hrk, c1, c2, c3, c4, c5⟩ := hc
  have hok := canonical_ranksOK hrk
  have n0 : NS (List.intercalate ['/'] rks) := board_NS fun rk h => (hok rk h).1
  have hsplit := decode_split n0 c1.NS c2.NS c3.NS c4.NS c5.NS (board_ne_nil hlen) c5.1
  have h0 := placements_board rks hlen hok
  obtain ⟨hv, hnd⟩ := placements_valid h0
  obtain ⟨c, hc⟩ : ∃ c, parseColor p1 = some c := by
    rcases c1 with rfl | rfl
    · exact ⟨.white, by decide⟩
    · exact ⟨.black, by decide⟩
  obtain ⟨cr, hcr⟩ : ∃ cr, parseCastling p2 = some cr := by
    have := (castlingFields_spec p2 (canonCastling_mem c2)).2
    cases hp : parseCastling p2 with
    | none => rw [hp] at this; cases this
    | some cr => exact ⟨cr, rfl⟩
  obtain ⟨ep, hep⟩ : ∃ ep, (if p3 = ['-'] then some 0 else parseSquareStr p3) = some ep := by
    have := (epFields_spec p3 (canonEp_mem c3)).2
    cases hp : (if p3 = ['-'] then some 0 else parseSquareStr p3) with
    | none => rw [hp] at this; cases this
    | some ep => exact ⟨ep, rfl⟩
  obtain ⟨pos, hpos⟩ := Option.isSome_iff_exists.mp ((newPosition_isSome_iff cr ep hv).mpr hnd)
  exact ⟨_, decode_of_fields hsplit h0 hc hcr hep
    (by rw [atoi_digits p4 c4.1 c4.2.1, if_pos h4]) (Int.natCast_nonneg _)
    (by rw [atoi_digits p5 c5.1 c5.2.1, if_pos h5]) (Int.natCast_nonneg _) hpos⟩

/-! ## `Encode` writes the standard grammar -/

theorem canonRank_enc (cells : List Cell) (n : Nat) (hwf : CellsWF cells) (hlen : n + cells.length ≤ 8) :
    canonRank (enc n cells) = true := by
  induction cells generalizing n with
  | nil =>
    by_cases h0 : n = 0
    · subst h0; rfl
    · rw [enc, runChars_of_pos h0 (by simpa using hlen)]
      unfold canonRank
      rw [if_pos (run_spec n (by simp at hlen; omega) h0).2.1]; rfl
  | cons cell cs ih =>
    cases cell with
    | none => rw [enc]; exact ih (n + 1) hwf.tail (by simp at hlen ⊢; omega)
    | some x =>
      obtain ⟨c, k⟩ := x
      have hk : k ≠ .none := hwf c k (List.mem_cons_self ..)
      have ih0 := ih 0 hwf.tail (by simp at hlen ⊢; omega)
      have hpp : canonRank (printPiece c k :: enc 0 cs) = true := by
        unfold canonRank
        rw [printPiece_not_rank18, parsePiece_printPiece c hk, ih0]; rfl
      rw [enc]
      by_cases h0 : n = 0
      · subst h0; exact hpp
      · rw [runChars_of_pos h0 (by omega), List.singleton_append]
        unfold canonRank
        rw [if_pos (run_spec n (by omega) h0).2.1]
        simp only [parsePiece_printPiece c hk, Option.isSome_some, Bool.true_and]
        exact hpp

theorem digitChar_ne_zero : ∀ m, m < 10 → 0 < m → Nat.digitChar m ≠ '0' := by decide

theorem toDigits_head (n : Nat) (hn : 0 < n) : (Nat.toDigits 10 n).head? ≠ some '0' := by
  induction n using Nat.base_induction 10 (by decide) with
  | single m hm =>
    rw [Nat.toDigits_of_lt_base hm]
    intro e
    simp only [List.head?_cons, Option.some.injEq] at e
    exact digitChar_ne_zero m hm hn e
  | digit m k hk hm ih =>
    rw [← Nat.toDigits_append_toDigits (by decide) hm hk, List.head?_append]
    cases hd : (Nat.toDigits 10 m).head? with
    | none =>
      rw [List.head?_eq_none_iff] at hd
      exact absurd hd Nat.toDigits_ne_nil
    | some x =>
      have := ih hm
      rw [hd] at this
      simpa using this

theorem toDigits_canonNum (n : Nat) : CanonNum (Nat.toDigits 10 n) := by
  refine ⟨Nat.toDigits_ne_nil, toDigits_isDigit n, ?_⟩
  intro h
  by_cases hn : n = 0
  · subst hn; rfl
  · exact absurd h (toDigits_head n (by omega))

theorem printColor_canon (c : Color) : CanonColor (printColor c).toList := by
  cases c
  · exact Or.inl rfl
  · exact Or.inr rfl

theorem printCastling_canon : ∀ c, c < 16 →
    ((printCastling c).toList = ['-'] ∨
      ((printCastling c).toList ≠ [] ∧ List.Sublist (printCastling c).toList ['K', 'Q', 'k', 'q'])) := by
  decide

/-- Boolean form of `CanonEp`. -/
def canonEpB (l : List Char) : Bool :=
  match l with
  | ['-'] => true
  | [f, r] => 'a' ≤ f && f ≤ 'h' && ('1' ≤ r && r ≤ '8') && l != ['h', '1']
  | _ => false

theorem canonEp_of_B {l : List Char} (h : canonEpB l = true) : CanonEp l := by
  unfold canonEpB at h
  split at h
  · exact Or.inl rfl
  · rename_i f r
    simp only [Bool.and_eq_true, decide_eq_true_eq, bne_iff_ne] at h
    exact Or.inr ⟨f, r, rfl, h.1.1, h.1.2, h.2⟩
  · cases h

theorem epStr_canonB : ∀ e, e < 64 → canonEpB (epStr e).toList = true := by decide

/-- `Encode` of a represented position writes a line of the standard grammar. -/
theorem encode_canonical {p : Position} {b : Board} (h : Rep p b) (hc : p.castling < 16)
    (he : p.enpassant < 64) (c : Color) (np fm : Nat) : Canonical (encode p c np fm).toList := by
  have hg := rowsOf_grid b
  have hwf := rowsOf_wf h.wf
  rw [encode_toList, h.board_eq.symm, boardStr_toList, itoa_natCast, itoa_natCast]
  refine ⟨_, _, _, _, _, _, rfl, by simp [hg.1], ?_, printColor_canon c, printCastling_canon _ hc,
    canonEp_of_B (epStr_canonB _ he), toDigits_canonNum np, toDigits_canonNum fm⟩
  intro rk hrk
  obtain ⟨row, hrow, e⟩ := List.mem_map.mp hrk
  subst e
  have h8 : 0 + row.length ≤ 8 := by rw [hg.2 row hrow]; omega
  refine ⟨canonRank_enc row 0 (hwf row hrow) h8, ?_⟩
  rw [rankWidth_eq, cellsOf_enc row 0 (hwf row hrow) h8]
  simpa using hg.2 row hrow

end Morlock.Proofs.Fen
