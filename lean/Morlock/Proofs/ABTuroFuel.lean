import Morlock.Proofs.ABChessFuel
import Morlock.Model.EngineExplore
/-!
# The fuel of TUROCHAMP's quiescence search is enough (helper for C13 on the engines)

`turochamp.ConsiderableMovesOnly` is not captures-only: `IsConsiderableMove(m, b)` (asked about the board *after* the
move) starts from `considerable := b.Position().IsCheckMate(b.Turn())`, and only a capture (`m.IsCapture()`) can turn it
on otherwise. So a picked move is a capture, or a non-capture after which the opponent is checkmated
(`turochamp_pick_capture_or_mate`). A checkmated world has no legal move, hence no explored child: `QDone … 1`
(`qdone_mated`). A capture removes exactly one man (`menP_capture`). Hence with at most `k + 1` men the explored tree
is exhausted within `k + 2` plies (`captureOrMate_qdone_men`): 65 in general, 33 (so the 64 of the driver and of the
`c03` stream) on a board with at most 32 men.

Everything is proved for `boardGameW z ev` with any evaluation `ev : World → Int` (`boardGame z ev'` is such a game by
`rfl`, `turochampGame z` by definition) and any exploration satisfying `CaptureOrMate z ex`.
-/
namespace Morlock.Proofs.AB
open Morlock Morlock.Model Morlock.Model.World Morlock.Model.Score
open Morlock.Proofs Morlock.Proofs.Arena Morlock.Proofs.Gen Morlock.Proofs.Chain Morlock.Proofs.Draw

/-- an exploration that only picks captures and moves that checkmate -/
def CaptureOrMate (z : ZTable) (ex : World → Explore) : Prop :=
  ∀ w m, (ex w).pick m = true →
    m.isCapture = true ∨
    ∃ w', w.pushMove z 0 m = some w' ∧ (w'.cur 0).pos.isCheckMate (w'.board 0).turn = true

/-- a captures-only exploration is one -/
theorem captureOrMate_of_capturesOnly (z : ZTable) {ex : World → Explore} (h : CapturesOnly ex) : CaptureOrMate z ex :=
  fun w m hp => Or.inl (h w m hp)

/-! ## what TUROCHAMP's predicate picks -/

/-- `IsConsiderableMove` answers `true` only for a capture or on a board whose side to move is checkmated. -/
theorem isConsiderableCore_true {m : Move} {pos : Position} {turn : Color} {s : Option Move}
    (h : Turochamp.isConsiderableCore m pos turn s = some true) :
    m.isCapture = true ∨ pos.isCheckMate turn = true := by
  cases hc : m.isCapture with
  | true => exact Or.inl rfl
  | false =>
    right
    unfold Turochamp.isConsiderableCore at h
    simp only [hc, Bool.false_eq_true, if_false] at h
    exact Option.some.inj h

/-- **A move picked by TUROCHAMP's quiescence exploration is a capture, or it checkmates** (the board after the move
    exists and its side to move is mated). -/
theorem turochamp_pick_capture_or_mate (z : ZTable) (w : World) (m : Move)
    (h : (turochampExplore z w).pick m = true) :
    m.isCapture = true ∨
    ∃ w', w.pushMove z 0 m = some w' ∧ (w'.cur 0).pos.isCheckMate (w'.board 0).turn = true := by
  have h' : (match w.pushMove z 0 m with
      | some w' => Turochamp.considerablePick 0 w' m == some true
      | none => false) = true := h
  cases hp : w.pushMove z 0 m with
  | none => rw [hp] at h'; cases h'
  | some w' =>
    rw [hp] at h'
    have hc : Turochamp.isConsiderableCore m (w'.cur 0).pos (w'.board 0).turn (w'.secondToLastMove 0) = some true :=
      eq_of_beq h'
    rcases isConsiderableCore_true hc with h1 | h1
    · exact Or.inl h1
    · exact Or.inr ⟨w', rfl, h1⟩

theorem captureOrMate_turochamp (z : ZTable) : CaptureOrMate z (turochampExplore z) :=
  turochamp_pick_capture_or_mate z

/-! ## a checkmated world has no child -/

/-- On a checkmated position `Position.move` rejects every generated move. -/
theorem move_none_of_mated {p : Position} {turn : Color} (h : p.isCheckMate turn = true) {m : Move}
    (hm : m ∈ p.pseudoLegalMoves turn) : p.move m = none := by
  unfold Position.isCheckMate at h
  simp only [Bool.and_eq_true, List.isEmpty_iff] at h
  cases hq : p.move m with
  | none => rfl
  | some q =>
    exfalso
    have : m ∈ p.legalMoves turn := by
      unfold Position.legalMoves
      exact List.mem_filter.2 ⟨hm, by rw [hq]; rfl⟩
    rw [h.2] at this
    cases this

/-- **`PushMove` fails for every generated move of a world whose side to move is checkmated.** -/
theorem push_none_of_mated {z : ZTable} {w : World} (hw : Inv w)
    (h : (w.cur 0).pos.isCheckMate (w.board 0).turn = true) {m : Move}
    (hm : m ∈ (w.cur 0).pos.pseudoLegalMoves (w.board 0).turn) : w.pushMove z 0 m = none := by
  cases hp : w.pushMove z 0 m with
  | none => rfl
  | some c =>
    exfalso
    obtain ⟨_, _, _, hmv, _⟩ := push_line hw.1 hw.2.1 hp
    rw [move_none_of_mated h hm] at hmv
    cases hmv

/-- **One ply of fuel is enough below a checkmated world** (there is no child at all), for every evaluation and
    every exploration. -/
theorem qdone_mated (z : ZTable) (ev : World → Int) (ex : World → Explore) {w : World} (hw : Inv w)
    (h : (w.cur 0).pos.isCheckMate (w.board 0).turn = true) : QDone (boardGameW z ev) ex 1 w := by
  simp only [QDone]
  refine Or.inr fun m c hm _ hpush => ?_
  have hm' : m ∈ (w.cur 0).pos.pseudoLegalMoves (w.board 0).turn := hm
  have hpush' : w.pushMove z 0 m = some c := hpush
  rw [push_none_of_mated hw h hm'] at hpush'
  cases hpush'

/-! ## the fuel is enough -/

/-- the explored children: one man fewer (capture), or mated (one more ply) -/
theorem captureOrMate_step (z : ZTable) (ev : World → Int) (ex : World → Explore) (hex : CaptureOrMate z ex)
    {w c : World} {m : Move} (h : Inv w) (hm : m ∈ (w.cur 0).pos.pseudoLegalMoves (w.board 0).turn)
    (hp : (ex w).pick m = true) (hpush : w.pushMove z 0 m = some c) :
    Inv c ∧ ((menP (c.cur 0).pos + 1 = menP (w.cur 0).pos ∧ 1 ≤ menP (c.cur 0).pos) ∨
      QDone (boardGameW z ev) ex 1 c) := by
  have hc : Inv c := inv_push h hm hpush
  refine ⟨hc, ?_⟩
  rcases hex w m hp with hcap | ⟨w', hw', hmate⟩
  · obtain ⟨_, _, _, hmv, _⟩ := push_line h.1 h.2.1 hpush
    exact Or.inl (menP_capture h.2.2 hm hcap hmv)
  · rw [hpush] at hw'
    cases hw'
    exact Or.inr (qdone_mated z ev ex hc hmate)

/-- With at most `k + 1` men on the board, `k + 2` plies of fuel exhaust the tree of an exploration that picks only
    captures and checkmating moves. -/
theorem captureOrMate_qdone_men (z : ZTable) (ev : World → Int) (ex : World → Explore) (hex : CaptureOrMate z ex) :
    ∀ k w, Inv w → menP (w.cur 0).pos ≤ k + 1 → QDone (boardGameW z ev) ex (k + 2) w := by
  intro k
  induction k with
  | zero =>
    intro w h hk
    simp only [QDone]
    refine Or.inr fun m c hm hp hpush => ?_
    rcases (captureOrMate_step z ev ex hex h hm hp hpush).2 with hmen | hq
    · exfalso; omega
    · simpa only [QDone] using hq
  | succ k ih =>
    intro w h hk
    simp only [QDone]
    refine Or.inr fun m c hm hp hpush => ?_
    obtain ⟨hc, hmen | hq⟩ := captureOrMate_step z ev ex hex h hm hp hpush
    · have := ih c hc (by omega)
      simpa only [QDone] using this
    · have := QDone_mono (boardGameW z ev) ex 1 (k + 2) c (by omega) hq
      simpa only [QDone] using this

/-- Any fuel `≥ 2` that exceeds the number of men is enough. -/
theorem captureOrMate_qdone_of_men_lt (z : ZTable) (ev : World → Int) (ex : World → Explore) (hex : CaptureOrMate z ex)
    (w : World) (h : Inv w) (fuel : Nat) (h2 : 2 ≤ fuel) (hmen : menP (w.cur 0).pos < fuel) :
    QDone (boardGameW z ev) ex fuel w := by
  obtain ⟨k, rfl⟩ : ∃ k, fuel = k + 2 := ⟨fuel - 2, by omega⟩
  exact captureOrMate_qdone_men z ev ex hex k w h (by omega)

/-- The same with the population count of `Position.All`. -/
theorem captureOrMate_qdone_popCount (z : ZTable) (ev : World → Int) (ex : World → Explore) (hex : CaptureOrMate z ex)
    (w : World) (h : Inv w) (fuel : Nat) (h2 : 2 ≤ fuel) (hmen : popCount (w.cur 0).pos.all < fuel) :
    QDone (boardGameW z ev) ex fuel w :=
  captureOrMate_qdone_of_men_lt z ev ex hex w h fuel h2 (by rw [menP_eq_popCount h.2.2.1.rep]; exact hmen)

/-- 65 plies exhaust the tree at every world satisfying `Inv`. -/
theorem captureOrMate_qdone (z : ZTable) (ev : World → Int) (ex : World → Explore) (hex : CaptureOrMate z ex)
    (w : World) (h : Inv w) : QDone (boardGameW z ev) ex 65 w :=
  captureOrMate_qdone_of_men_lt z ev ex hex w h 65 (by decide) (by have := menP_le (w.cur 0).pos; omega)

/-- On a board with at most 32 men, 33 plies are enough. -/
theorem captureOrMate_qdone_33 (z : ZTable) (ev : World → Int) (ex : World → Explore) (hex : CaptureOrMate z ex)
    (w : World) (h : Inv w) (h32 : popCount (w.cur 0).pos.all ≤ 32) : QDone (boardGameW z ev) ex 33 w :=
  captureOrMate_qdone_popCount z ev ex hex w h 33 (by decide) (by omega)

/-! ## TUROCHAMP -/

/-- With at most `k + 1` men on the board, `k + 2` plies of fuel exhaust TUROCHAMP's considerable-moves tree. -/
theorem turochamp_qdone_men (z : ZTable) :
    ∀ k w, Inv w → menP (w.cur 0).pos ≤ k + 1 → QDone (turochampGame z) (turochampExplore z) (k + 2) w :=
  captureOrMate_qdone_men z turochampKey (turochampExplore z) (captureOrMate_turochamp z)

/-- **65 plies exhaust TUROCHAMP's quiescence tree at every world satisfying `Inv`.** -/
theorem turochamp_qdone (z : ZTable) (w : World) (h : Inv w) :
    QDone (turochampGame z) (turochampExplore z) 65 w :=
  captureOrMate_qdone z turochampKey (turochampExplore z) (captureOrMate_turochamp z) w h

/-- On a board with at most 32 men already 33 plies are enough. -/
theorem turochamp_qdone_33 (z : ZTable) (w : World) (h : Inv w) (h32 : popCount (w.cur 0).pos.all ≤ 32) :
    QDone (turochampGame z) (turochampExplore z) 33 w :=
  captureOrMate_qdone_33 z turochampKey (turochampExplore z) (captureOrMate_turochamp z) w h h32

/-- **The fuel of the driver and of the `c03` stream (64) exhausts TUROCHAMP's quiescence tree on every board with at
    most 32 men** (every position of a real game). -/
theorem turochamp_qdone_32 (z : ZTable) (w : World) (h : Inv w) (h32 : popCount (w.cur 0).pos.all ≤ 32) :
    QDone (turochampGame z) (turochampExplore z) 64 w :=
  QDone_mono _ _ 33 64 w (by decide) (turochamp_qdone_33 z w h h32)

/-- **TUROCHAMP's quiescence search: more fuel than 65 does not change the reference value, and `quiesce` with fuel
    65 never runs out of fuel.** -/
theorem turochamp_enough_fuel (z : ZTable) (w : World) (h : Inv w) :
    (∀ fuel', 65 ≤ fuel' →
      Q (turochampGame z) (turochampExplore z) fuel' w = Q (turochampGame z) (turochampExplore z) 65 w) ∧
    ∀ a b st, (quiesce (turochampGame z) (turochampExplore z) 65 w a b st).2.fuelOut = st.fuelOut :=
  ⟨Q_stable _ _ 65 w (turochamp_qdone z w h), quiesce_fuelOut _ _ 65 w (turochamp_qdone z w h)⟩

/-- **The same for fuel 64 on a board with at most 32 men.** -/
theorem turochamp_enough_fuel_32 (z : ZTable) (w : World) (h : Inv w) (h32 : popCount (w.cur 0).pos.all ≤ 32) :
    (∀ fuel', 64 ≤ fuel' →
      Q (turochampGame z) (turochampExplore z) fuel' w = Q (turochampGame z) (turochampExplore z) 64 w) ∧
    ∀ a b st, (quiesce (turochampGame z) (turochampExplore z) 64 w a b st).2.fuelOut = st.fuelOut :=
  ⟨Q_stable _ _ 64 w (turochamp_qdone_32 z w h h32), quiesce_fuelOut _ _ 64 w (turochamp_qdone_32 z w h h32)⟩

/-! ## the main search: the fuel of the quiescence leaves is immaterial -/

/-- The explored children of a world satisfying the play invariant satisfy it (`boardGameW`). -/
theorem inv_kidsW {z : ZTable} {ev : World → Int} {ex : World → Explore} {w c : World} (h : Inv w)
    (hc : c ∈ kids (boardGameW z ev) ex w ((boardGameW z ev).moves w)) : Inv c := by
  obtain ⟨m, hm, _, hpush⟩ := mem_kids hc
  exact inv_push h hm hpush

/-- **The reference value of TUROCHAMP's main search does not depend on the fuel of its quiescence leaves** (from 65
    on), at every world satisfying the play invariant, for every exploration of the main search. -/
theorem turochamp_V_fuel_irrelevant (z : ZTable) (ex : World → Explore) (rootPly : Int) (fuel : Nat) (hf : 65 ≤ fuel) :
    ∀ d w, Inv w → V (turochampGame z) ex (turochampLeaf z fuel) rootPly d w =
      V (turochampGame z) ex (turochampLeaf z 65) rootPly d w := by
  intro d
  induction d with
  | zero =>
    intro w hw
    simp only [turochampLeaf, V, leafV]
    rw [Q_stable _ (turochampExplore z) 65 w (turochamp_qdone z w hw) fuel hf]
  | succ d ih =>
    intro w hw
    simp only [V]
    have : (kids (turochampGame z) ex w ((turochampGame z).moves w)).map
          (fun c => lift (V (turochampGame z) ex (turochampLeaf z fuel) rootPly d c)) =
        (kids (turochampGame z) ex w ((turochampGame z).moves w)).map
          (fun c => lift (V (turochampGame z) ex (turochampLeaf z 65) rootPly d c)) := by
      apply List.map_congr_left
      intro c hc
      rw [ih c (inv_kidsW hw hc)]
    rw [this]

-- #print axioms turochamp_pick_capture_or_mate   -- [propext]
-- #print axioms qdone_mated   -- [propext, Classical.choice, Quot.sound]
-- #print axioms turochamp_qdone_men   -- [propext, Classical.choice, Quot.sound]
-- #print axioms turochamp_qdone   -- [propext, Classical.choice, Quot.sound]
-- #print axioms turochamp_qdone_32   -- [propext, Classical.choice, Quot.sound]
-- #print axioms turochamp_enough_fuel   -- [propext, Classical.choice, Quot.sound]
-- #print axioms turochamp_enough_fuel_32   -- [propext, Classical.choice, Quot.sound]
-- #print axioms turochamp_V_fuel_irrelevant   -- [propext, Classical.choice, Quot.sound]

end Morlock.Proofs.AB
