import Morlock.Proofs.SargonStack
/-!
# SARGON, part 2: `FindAttackers` is total on every represented position

`addAttackerStack` never exhausts its budget (`stackFuel`), `Attackboard` is only called with officers, so
`findAttackers` returns `ok l`; `l` has at most 384 stacks, each at most `stackFuel` deep.
-/
namespace Morlock.Proofs.Sargon
open Morlock Morlock.Model Morlock.Model.Sargon Morlock.Proofs.Attack Morlock.Proofs.Gen

/-! ## `mapE` -/

theorem mapE_ok {α β : Type} (f : α → Except SErr β) :
    ∀ l : List α, (∀ a ∈ l, ∃ b, f a = .ok b) →
      ∃ bs, mapE f l = .ok bs ∧ bs.length = l.length ∧ (∀ b ∈ bs, ∃ a ∈ l, f a = .ok b) ∧
        (∀ a ∈ l, ∃ b ∈ bs, f a = .ok b) := by
  intro l
  induction l with
  | nil => intro _; exact ⟨[], rfl, rfl, by simp, by simp⟩
  | cons a l ih =>
    intro h
    obtain ⟨b, hb⟩ := h a (List.mem_cons_self ..)
    obtain ⟨bs, hbs, hlen, hmem, hmem'⟩ := ih (fun x hx => h x (List.mem_cons_of_mem _ hx))
    refine ⟨b :: bs, ?_, by simp [hlen], ?_, ?_⟩
    · simp [mapE, hb, hbs]
    · intro y hy
      rcases List.mem_cons.mp hy with rfl | hy
      · exact ⟨a, List.mem_cons_self .., hb⟩
      · obtain ⟨x, hx, hfx⟩ := hmem y hy
        exact ⟨x, List.mem_cons_of_mem _ hx, hfx⟩
    · intro x hx
      rcases List.mem_cons.mp hx with rfl | hx
      · exact ⟨b, List.mem_cons_self .., hb⟩
      · obtain ⟨y, hy, hfx⟩ := hmem' x hx
        exact ⟨y, List.mem_cons_of_mem _ hy, hfx⟩

theorem toSquaresAux_length : ∀ fuel b, (toSquaresAux fuel b).length ≤ fuel := by
  intro fuel
  induction fuel with
  | zero => intro b; simp [toSquaresAux]
  | succ n ih =>
    intro b
    unfold toSquaresAux
    by_cases h : b = 0
    · simp [h]
    · simp only [h, if_false, List.length_cons]
      have := ih (b ^^^ bitMask (lastPopSquare b))
      omega

theorem toSquares_length (b : Nat) : (toSquares b).length ≤ 64 := toSquaresAux_length 64 b

/-! ## facts read off `Rep` -/

theorem occupied_of_piece {p : Position} {b : Board} (h : Rep p b) (c : Color) {k : Piece} (hk : k ≠ .none) {s : Nat}
    (hs : (p.pieces c k).testBit s = true) : s < 64 ∧ p.rotated.rot.testBit s = true ∧ b s = some (c, k) := by
  have hlt : s < 64 := lt_of_testBit (h.piecesLt c k) hs
  rw [h.one c k s hk hlt] at hs
  have hb : b s = some (c, k) := by simpa using hs
  refine ⟨hlt, ?_, hb⟩
  rw [h.rot s hlt, hb]; rfl

theorem qrb_testBit (p : Position) (side : Color) (s : Nat) :
    (qrb p side).testBit s = ((p.pieces side .queen).testBit s || (p.pieces side .rook).testBit s ||
      (p.pieces side .bishop).testBit s) := by
  unfold qrb; rw [Nat.testBit_or, Nat.testBit_or]

theorem qrb_false {p : Position} {b : Board} (h : Rep p b) (side : Color) {k : Piece} {s : Nat}
    (hb : b s = some (side, k)) (hs : s < 64) (hq : k ≠ .queen) (hr : k ≠ .rook) (hbi : k ≠ .bishop) :
    (qrb p side).testBit s = false := by
  rw [qrb_testBit, h.one _ _ s (by decide) hs, h.one _ _ s (by decide) hs, h.one _ _ s (by decide) hs, hb]
  simp [hq, hr, hbi]

/-! ## unfolding `addAttackerStack` -/

/-- the `bb` of `addAttackerStack` -/
def stackBB (pos : Position) (side : Color) (target : Nat) (r : Rotated) («from» : Nat) : Bitboard :=
  if isSameRankOrFile «from» target then
    andNot (rookAttackboard (r.xor «from») target) (rookAttackboard r target) &&&
      (pos.pieces side .queen ||| pos.pieces side .rook)
  else if isSameDiagonal «from» target then
    andNot (bishopAttackboard (r.xor «from») target) (bishopAttackboard r target) &&&
      (pos.pieces side .queen ||| pos.pieces side .bishop)
  else 0

theorem addAttackerStack_succ (pos : Position) (pins : Pins) (side : Color) (target fuel : Nat) (r : Rotated)
    (piece : Piece) (f : Nat) :
    addAttackerStack pos pins side target (fuel + 1) r piece f =
      if isPinnedFor pins f target then .ok none else
      if piece = .king then .ok (some { front := { piece := piece, color := side, square := f } }) else
      if stackBB pos side target r f != 0 then
        match addAttackerStack pos pins side target fuel (r.xor f)
            (pieceAt pos (lastPopSquare (stackBB pos side target r f))) (lastPopSquare (stackBB pos side target r f)) with
        | .error e => .error e
        | .ok none => .ok (some { front := { piece := piece, color := side, square := f } })
        | .ok (some b) => .ok (some { front := { piece := piece, color := side, square := f }, behind := b.front :: b.behind })
      else .ok (some { front := { piece := piece, color := side, square := f } }) := rfl

/-- the depth of a stack is bounded by the budget, whatever the position -/
theorem addAttackerStack_depth (pos : Position) (pins : Pins) (side : Color) (target : Nat) :
    ∀ fuel r piece f a, addAttackerStack pos pins side target fuel r piece f = .ok (some a) → a.behind.length < fuel := by
  intro fuel
  induction fuel with
  | zero => intro r piece f a h; simp [addAttackerStack] at h
  | succ n ih =>
    intro r piece f a h
    rw [addAttackerStack_succ] at h
    split at h
    · cases h
    · split at h
      · cases h; simp
      · split at h
        · split at h
          · cases h
          · cases h; simp
          · rename_i b hb
            cases h
            have := ih _ _ _ _ hb
            simp; omega
        · cases h; simp

/-- what the non-zero `bb` delivers: a newly visible queen/rook/bishop of `side` -/
theorem stackBB_spec {p : Position} {b : Board} (hrep : Rep p b) {side : Color} {t occ : Nat} {r : Rotated} {f : Nat}
    (h : StackInv p side t occ r f) (ht : t < 64) (hne : stackBB p side t r f ≠ 0) :
    ∃ k, IsLine k ∧ lastPopSquare (stackBB p side t r f) < 64 ∧
      lastPopSquare (stackBB p side t r f) ∈ Spec.officerTargets (fun x => (occ ^^^ bitMask f).testBit x) k t ∧
      lastPopSquare (stackBB p side t r f) ∉ Spec.officerTargets (fun x => occ.testBit x) k t ∧
      (qrb p side).testBit (lastPopSquare (stackBB p side t r f)) = true ∧
      p.rotated.rot.testBit (lastPopSquare (stackBB p side t r f)) = true ∧
      ((p.pieces side .queen).testBit (lastPopSquare (stackBB p side t r f)) = true ∨
       (p.pieces side (if k = .rook then Piece.rook else Piece.bishop)).testBit (lastPopSquare (stackBB p side t r f)) = true) := by
  have hinv' := xor_inv h.from_lt h.inv
  have hQ := hrep.piecesLt side .queen
  have hR := hrep.piecesLt side .rook
  have hB := hrep.piecesLt side .bishop
  unfold stackBB at hne ⊢
  split at hne
  · -- rook lines
    rename_i hline
    simp only [hline, if_true] at hne ⊢
    have hlt : andNot (rookAttackboard (r.xor f) t) (rookAttackboard r t) &&& (p.pieces side .queen ||| p.pieces side .rook) < 2 ^ 64 :=
      and_lt_right _ (Nat.or_lt_two_pow hQ hR)
    obtain ⟨h64, hbit, _⟩ := lastPopSquare_spec hne hlt
    generalize lastPopSquare (andNot (rookAttackboard (r.xor f) t) (rookAttackboard r t) &&&
      (p.pieces side .queen ||| p.pieces side .rook)) = F at h64 hbit ⊢
    rw [Nat.testBit_and, andNot_testBit, Nat.testBit_or, rook_of_inv hinv' ht, rook_of_inv h.inv ht] at hbit
    simp only [Bool.and_eq_true, Bool.not_eq_true', Bool.or_eq_true] at hbit
    obtain ⟨⟨hin, hout⟩, hqr⟩ := hbit
    refine ⟨.rook, Or.inl rfl, h64, (testBit_toBB _ _).mp hin, ?_, ?_, ?_, ?_⟩
    · intro c; rw [(testBit_toBB _ _).mpr c] at hout; cases hout
    · rw [qrb_testBit]; rcases hqr with hq | hq <;> simp [hq]
    · rcases hqr with hq | hq
      · exact (occupied_of_piece hrep side (by decide) hq).2.1
      · exact (occupied_of_piece hrep side (by decide) hq).2.1
    · simpa using hqr
  · split at hne
    · rename_i hline hdiag
      simp only [hline, hdiag, if_true] at hne ⊢
      simp only [Bool.false_eq_true, if_false] at hne ⊢
      have hlt : andNot (bishopAttackboard (r.xor f) t) (bishopAttackboard r t) &&& (p.pieces side .queen ||| p.pieces side .bishop) < 2 ^ 64 :=
        and_lt_right _ (Nat.or_lt_two_pow hQ hB)
      obtain ⟨h64, hbit, _⟩ := lastPopSquare_spec hne hlt
      generalize lastPopSquare (andNot (bishopAttackboard (r.xor f) t) (bishopAttackboard r t) &&&
        (p.pieces side .queen ||| p.pieces side .bishop)) = F at h64 hbit ⊢
      rw [Nat.testBit_and, andNot_testBit, Nat.testBit_or, bishop_of_inv hinv' ht, bishop_of_inv h.inv ht] at hbit
      simp only [Bool.and_eq_true, Bool.not_eq_true', Bool.or_eq_true] at hbit
      obtain ⟨⟨hin, hout⟩, hqr⟩ := hbit
      refine ⟨.bishop, Or.inr rfl, h64, (testBit_toBB _ _).mp hin, ?_, ?_, ?_, ?_⟩
      · intro c; rw [(testBit_toBB _ _).mpr c] at hout; cases hout
      · rw [qrb_testBit]; rcases hqr with hq | hq <;> simp [hq]
      · rcases hqr with hq | hq
        · exact (occupied_of_piece hrep side (by decide) hq).2.1
        · exact (occupied_of_piece hrep side (by decide) hq).2.1
      · simpa using hqr
    · exact absurd rfl hne

/-- **`addAttackerStack` does not run out of budget** when the budget exceeds `μ − 101`. -/
theorem addAttackerStack_ok {p : Position} {b : Board} (hrep : Rep p b) (pins : Pins) (side : Color) {t : Nat} (ht : t < 64) :
    ∀ fuel occ r piece f, StackInv p side t occ r f → mu (fun x => occ.testBit x) t < fuel + 101 →
      ∃ res, addAttackerStack p pins side t fuel r piece f = .ok res := by
  intro fuel
  induction fuel with
  | zero =>
    intro occ r piece f _ hmu
    have := mu_ge (fun x => occ.testBit x) ht
    omega
  | succ n ih =>
    intro occ r piece f hinv hmu
    rw [addAttackerStack_succ]
    split
    · exact ⟨_, rfl⟩
    · split
      · exact ⟨_, rfl⟩
      · split
        · rename_i hbb
          have hne : stackBB p side t r f ≠ 0 := by simpa using hbb
          obtain ⟨k, hk, h64, hnew, hold, hq, hocc, _⟩ := stackBB_spec hrep hinv ht hne
          obtain ⟨hinv', hlt⟩ := hinv.step ht hk h64 hnew hold hq hocc
          obtain ⟨res, hres⟩ := ih _ _ (pieceAt p (lastPopSquare (stackBB p side t r f))) _ hinv' (by omega)
          rw [hres]
          cases res with
          | none => exact ⟨_, rfl⟩
          | some a => exact ⟨_, rfl⟩
        · exact ⟨_, rfl⟩

/-! ## the top level -/

theorem stackInv_top {p : Position} {b : Board} (hrep : Rep p b) (side : Color) (t : Nat) {piece : Piece} (hk : piece ≠ .none)
    {f : Nat} (hf : (p.pieces side piece).testBit f = true)
    (hvis : piece = .queen ∨ piece = .rook ∨ piece = .bishop → Vis p.rotated.rot t f) :
    StackInv p side t p.rotated.rot p.rotated f := by
  obtain ⟨h64, hocc, hb⟩ := occupied_of_piece hrep side hk hf
  refine ⟨hrep.rotInv, h64, hocc, fun _ hs => hs, ?_, ?_⟩
  · intro s hs ho; rw [hs] at ho; cases ho
  · by_cases hq : piece = .queen ∨ piece = .rook ∨ piece = .bishop
    · exact Or.inl (hvis hq)
    · exact Or.inr (qrb_false hrep side hb h64 (fun c => hq (Or.inl c)) (fun c => hq (Or.inr (Or.inl c)))
        (fun c => hq (Or.inr (Or.inr c))))

/-- depth bound shared by all results below -/
def DepthOK (l : List Attacker) : Prop := ∀ a ∈ l, a.behind.length < stackFuel

theorem stacksOn_ok {p : Position} {b : Board} (hrep : Rep p b) (pins : Pins) (side : Color) {piece : Piece}
    (hk : piece ≠ .none) {t : Nat} (ht : t < 64) (bb : Nat)
    (hbb : ∀ f, f ∈ toSquares bb → (p.pieces side piece).testBit f = true ∧
      (piece = .queen ∨ piece = .rook ∨ piece = .bishop → Vis p.rotated.rot t f)) :
    ∃ l, stacksOn p pins side piece t bb = .ok l ∧ l.length ≤ 64 ∧ DepthOK l := by
  unfold stacksOn
  have hall : ∀ f ∈ toSquares bb, ∃ res, addAttackerStack p pins side t stackFuel p.rotated piece f = .ok res := by
    intro f hf
    obtain ⟨h1, h2⟩ := hbb f hf
    apply addAttackerStack_ok hrep pins side ht stackFuel _ _ piece f (stackInv_top hrep side t hk h1 h2)
    have := mu_le (fun x => p.rotated.rot.testBit x) t
    unfold stackFuel; omega
  obtain ⟨bs, hbs, hlen, hmem, _⟩ := mapE_ok _ _ hall
  rw [hbs]
  refine ⟨_, rfl, ?_, ?_⟩
  · have h1 : (bs.filterMap id).length ≤ bs.length := List.length_filterMap_le _ _
    have h2 := toSquares_length bb
    omega
  · intro a ha
    rw [List.mem_filterMap] at ha
    obtain ⟨oa, hoa, hid⟩ := ha
    simp only [id] at hid
    subst hid
    obtain ⟨f, _, hf⟩ := hmem _ hoa
    exact addAttackerStack_depth _ _ _ _ _ _ _ _ _ hf

theorem kqrnb_eq : kqrnb = [.king, .queen, .rook, .knight, .bishop] := by decide

/-- **`FindAttackers` is total**: no panic in `Attackboard`, no runaway recursion; at most 384 stacks. -/
theorem findAttackers_ok {p : Position} {b : Board} (hrep : Rep p b) (pins : Pins) {t : Nat} (ht : t < 64) (side : Color) :
    ∃ l, findAttackers p pins t side = .ok l ∧ l.length ≤ 384 ∧ DepthOK l := by
  have hinv := hrep.rotInv
  -- the three sliders: the attack board is made of visible squares
  have hrook : ∀ f, (rookAttackboard p.rotated t).testBit f = true → Vis p.rotated.rot t f := by
    intro f hf; rw [rook_of_inv hinv ht] at hf; exact Or.inl ((testBit_toBB _ _).mp hf)
  have hbish : ∀ f, (bishopAttackboard p.rotated t).testBit f = true → Vis p.rotated.rot t f := by
    intro f hf; rw [bishop_of_inv hinv ht] at hf; exact Or.inr ((testBit_toBB _ _).mp hf)
  have hqueen : ∀ f, (queenAttackboard p.rotated t).testBit f = true → Vis p.rotated.rot t f := by
    intro f hf
    unfold queenAttackboard at hf
    rw [Nat.testBit_or, Bool.or_eq_true] at hf
    rcases hf with hf | hf
    · exact hrook f hf
    · exact hbish f hf
  have mk : ∀ (piece : Piece) (hk : piece ≠ .none) (ab : Nat),
      (piece = .queen ∨ piece = .rook ∨ piece = .bishop → ∀ f, ab.testBit f = true → Vis p.rotated.rot t f) →
      ∃ l, stacksOn p pins side piece t (ab &&& p.pieces side piece) = .ok l ∧ l.length ≤ 64 ∧ DepthOK l := by
    intro piece hk ab hab
    apply stacksOn_ok hrep pins side hk ht
    intro f hf
    have hlt : ab &&& p.pieces side piece < 2 ^ 64 := and_lt_right _ (hrep.piecesLt side piece)
    have hbit := (mem_toSquares hlt f).mp hf
    rw [Nat.testBit_and, Bool.and_eq_true] at hbit
    exact ⟨hbit.2, fun hq => hab hq f hbit.1⟩
  obtain ⟨lk, hlk, nk, dk⟩ := mk .king (by decide) (kingAttackboard t) (by intro h; rcases h with h | h | h <;> cases h)
  obtain ⟨lq, hlq, nq, dq⟩ := mk .queen (by decide) (queenAttackboard p.rotated t) (fun _ => hqueen)
  obtain ⟨lr, hlr, nr, dr⟩ := mk .rook (by decide) (rookAttackboard p.rotated t) (fun _ => hrook)
  obtain ⟨ln, hln, nn, dn⟩ := mk .knight (by decide) (knightAttackboard t) (by intro h; rcases h with h | h | h <;> cases h)
  obtain ⟨lb, hlb, nb, db⟩ := mk .bishop (by decide) (bishopAttackboard p.rotated t) (fun _ => hbish)
  obtain ⟨lp, hlp, np, dp⟩ := mk .pawn (by decide) (pawnCaptureboard side.opp (bitMask t))
    (by intro h; rcases h with h | h | h <;> cases h)
  refine ⟨(lk ++ (lq ++ (lr ++ (ln ++ (lb ++ [])))) ) ++ lp, ?_, ?_, ?_⟩
  · unfold findAttackers
    rw [kqrnb_eq]
    simp only [mapE, attackboard, hlk, hlq, hlr, hln, hlb, hlp, List.flatten_cons, List.flatten_nil]
  · simp only [List.length_append, List.length_nil]; omega
  · intro a ha
    simp only [List.mem_append, List.append_nil] at ha
    rcases ha with (ha | ha | ha | ha | ha) | ha
    · exact dk a ha
    · exact dq a ha
    · exact dr a ha
    · exact dn a ha
    · exact db a ha
    · exact dp a ha

end Morlock.Proofs.Sargon
