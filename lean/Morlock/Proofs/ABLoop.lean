import Morlock.Proofs.ABScore
/-!
# The move loop of `runAlphaBeta.search` / `runQuiescence.search` (helper for C13 / C03)

`abLoop_spec` is the loop invariant of `Model.abLoop` over an *arbitrary* move list, for an arbitrary
recursive searcher `rec` that satisfies the node contract `RecOK` (state stays quiet, result is a graded
valid score, `Clip` on proper windows, "exact or ≥ alpha" on every window, PV is a path).
`quiesceLoop` is shown to be a projection of `abLoop`.
-/
namespace Morlock.Proofs.AB
open Morlock Morlock.Model Morlock.Model.Score Morlock.Spec
open Morlock.Props.C09
variable {P : Type}

/-- No transposition table and no cancellation. -/
def Quiet (st : SState) : Prop := st.tt.slots.size = 0 ∧ st.cancelAt = none

theorem poll_quiet {st : SState} (h : Quiet st) : (poll st).1 = false ∧ Quiet (poll st).2 := by
  obtain ⟨h1, h2⟩ := h
  simp [poll, Quiet, h1, h2]

theorem read_quiet {st : SState} (h : Quiet st) (k : Nat) : st.tt.read k = none := by
  simp [TTState.read, h.1]

theorem write_quiet {st : SState} (h : Quiet st) (k b : Nat) (ply depth : Int) (s : Score) (m : Move) :
    (st.tt.write k b ply depth s m).1 = st.tt := by
  simp [TTState.write, h.1]

/-- Some move of the list is legal. -/
def legalAny (g : Game P) (p : P) (l : List Move) : Bool := l.any fun m => (g.push p m).isSome

/-- The explored legal children, in list order. -/
def kids (g : Game P) (ex : P → Explore) (p : P) (l : List Move) : List P :=
  l.filterMap fun m => if (ex p).pick m then g.push p m else none

def maxR (x : Int) (l : List Int) : Int := l.foldl Max.max x

/-- Ranks of the lifted child values. -/
def kidsR (g : Game P) (ex : P → Explore) (p : P) (vc : P → Score) (l : List Move) : List Int :=
  (kids g ex p l).map fun c => rank (lift (vc c))

theorem maxR_ge (l : List Int) (x : Int) : x ≤ maxR x l := by
  unfold maxR
  induction l generalizing x with
  | nil => simp
  | cons y ys ih => simp only [List.foldl]; have := ih (Max.max x y); omega

theorem maxR_cons (x y : Int) (l : List Int) : maxR x (y :: l) = maxR (Max.max x y) l := rfl

theorem maxR_max (l : List Int) (x a : Int) : maxR (Max.max a x) l = Max.max a (maxR x l) := by
  unfold maxR
  induction l generalizing x with
  | nil => simp
  | cons y ys ih => simp only [List.foldl]; rw [← ih]; congr 1; omega

theorem kidsR_none {g : Game P} {ex : P → Explore} {p : P} {vc : P → Score} {m : Move} {rest : List Move}
    (h : g.push p m = none) : kidsR g ex p vc (m :: rest) = kidsR g ex p vc rest := by
  simp [kidsR, kids, h]

theorem kidsR_skip {g : Game P} {ex : P → Explore} {p : P} {vc : P → Score} {m : Move} {rest : List Move}
    (h : (ex p).pick m = false) : kidsR g ex p vc (m :: rest) = kidsR g ex p vc rest := by
  simp [kidsR, kids, h]

theorem kidsR_pick {g : Game P} {ex : P → Explore} {p : P} {vc : P → Score} {m : Move} {rest : List Move} {c : P}
    (h : g.push p m = some c) (hp : (ex p).pick m = true) :
    kidsR g ex p vc (m :: rest) = rank (lift (vc c)) :: kidsR g ex p vc rest := by
  simp [kidsR, kids, h, hp]

theorem legalAny_cons (g : Game P) (p : P) (m : Move) (rest : List Move) :
    legalAny g p (m :: rest) = ((g.push p m).isSome || legalAny g p rest) := by
  simp [legalAny]

/-! ## equations of `abLoop` -/

theorem abLoop_none {g : Game P} {ex : P → Explore} {rec} {p : P} {b : Score} {m : Move} {rest : List Move}
    {a : Score} {pv : List Move} {hl : Bool} {st : SState} (h : g.push p m = none) :
    abLoop g ex rec p b (m :: rest) a pv hl st = abLoop g ex rec p b rest a pv hl st := by
  simp [abLoop, childOf, h]

theorem abLoop_skip {g : Game P} {ex : P → Explore} {rec} {p : P} {b : Score} {m : Move} {rest : List Move}
    {a : Score} {pv : List Move} {hl : Bool} {st : SState} {c : P} (h : g.push p m = some c) (hp : (ex p).pick m = false) :
    abLoop g ex rec p b (m :: rest) a pv hl st =
      if cutoff a b then (a, pv, true, true, st) else abLoop g ex rec p b rest a pv true st := by
  simp [abLoop, childOf, h, hp]

theorem abLoop_pick {g : Game P} {ex : P → Explore} {rec} {p : P} {b : Score} {m : Move} {rest : List Move}
    {a : Score} {pv : List Move} {hl : Bool} {st : SState} {c : P} (h : g.push p m = some c) (hp : (ex p).pick m = true) :
    abLoop g ex rec p b (m :: rest) a pv hl st =
      (let r := rec c (childBound b) (childBound a) st
       let s := lift r.1
       let a' := if a.less s then s else a
       let pv' := if a.less s then m :: r.2.1 else pv
       if cutoff a' b then (a', pv', true, true, r.2.2) else abLoop g ex rec p b rest a' pv' true r.2.2) := by
  simp only [abLoop, childOf, h, hp, if_true, lift]
  split <;> simp [*]

/-- The contract a recursive searcher has to satisfy for the loop lemma: at grade `n`, against reference
    values `vc` and a PV predicate `pathc`. -/
structure RecOK (n : Nat) (vc : P → Score) (pathc : P → Score → List Move → Prop)
    (rec : P → Score → Score → SState → Score × List Move × SState) : Prop where
  vok : ∀ c, okN n (vc c)
  spec : ∀ c a b st, Quiet st → okN n a → okN n b →
    Quiet (rec c a b st).2.2 ∧ okN n (rec c a b st).1 ∧
    ((rec c a b st).1 = vc c ∨ rank a ≤ rank (rec c a b st).1) ∧
    (rank a < rank b → Clip (rank a) (rank b) (rank (vc c)) (rank (rec c a b st).1)) ∧
    pathc c (rec c a b st).1 (rec c a b st).2.1

/-- One explored legal child: everything the loop needs to know about the child's result, in rank space. -/
theorem step_pick {rec : P → Score → Score → SState → Score × List Move × SState} {n : Nat} {vc : P → Score}
    {pathc : P → Score → List Move → Prop} (H : RecOK n vc pathc rec) (hn : n ≤ 126) {a b : Score}
    (ha : okN (n + 1) a) (hb : okN (n + 1) b) {st : SState} (hst : Quiet st) (c : P)
    (r : Score × List Move × SState) (hr : rec c (childBound b) (childBound a) st = r) :
    Quiet r.2.2 ∧ okN n r.1 ∧ pathc c r.1 r.2.1 ∧
    okN (n + 1) (if a.less (lift r.1) then lift r.1 else a) ∧
    rank (if a.less (lift r.1) then lift r.1 else a) = Max.max (rank a) (rank (lift r.1)) ∧
    (a.less (lift r.1) = true ↔ rank a < rank (lift r.1)) ∧
    (rank a < rank b →
      (rank a < rank (lift (vc c)) ∧ rank (lift (vc c)) < rank b → rank (lift r.1) = rank (lift (vc c))) ∧
      (rank (lift (vc c)) ≤ rank a → rank (lift r.1) ≤ rank a) ∧
      (rank b ≤ rank (lift (vc c)) → rank b ≤ rank (lift r.1) ∧ rank (lift r.1) ≤ rank (lift (vc c)))) ∧
    (rank b ≤ rank a → rank b ≠ -1099511627776 →
      rank (lift r.1) ≤ rank a ∨ rank (lift r.1) = rank (lift (vc c))) ∧
    (rank a < rank (lift r.1) → rank (lift r.1) ≤ rank (lift (vc c))) := by
  have hcbok : okN n (childBound b) := okN_cw hb (by omega)
  have hcaok : okN n (childBound a) := okN_cw ha (by omega)
  obtain ⟨hq, hrok, hweak, hclip, hpath⟩ := H.spec c (childBound b) (childBound a) st hst hcbok hcaok
  rw [hr] at hq hrok hweak hclip hpath
  have hsok : okN (n + 1) (lift r.1) := okN_lift hrok hn
  have rs : rank (lift r.1) = fR (rank r.1) := rank_lift hrok hn
  have rF : rank (lift (vc c)) = fR (rank (vc c)) := rank_lift (H.vok c) hn
  have rcb : rank (childBound b) = cwR (rank b) := rank_cw hb (by omega)
  have rca : rank (childBound a) = cwR (rank a) := rank_cw ha (by omega)
  obtain ⟨hless, ha'ok, ha'r⟩ := raise_spec ha hsok
  have Na : rankN 127 (rank a) := rankN_mono (okN_rankN ha) (by omega)
  have Nb : rankN 127 (rank b) := rankN_mono (okN_rankN hb) (by omega)
  have Nv : rankN 126 (rank (vc c)) := rankN_mono (okN_rankN (H.vok c)) hn
  have Nr : rankN 126 (rank r.1) := rankN_mono (okN_rankN hrok) hn
  have hweak' : rank r.1 = rank (vc c) ∨ cwR (rank b) ≤ rank r.1 := by
    rcases hweak with e | e
    · left; rw [e]
    · right; rw [← rcb]; exact e
  have hclip' : cwR (rank b) < cwR (rank a) → Clip (cwR (rank b)) (cwR (rank a)) (rank (vc c)) (rank r.1) := by
    rw [← rcb, ← rca]; exact hclip
  have kp := fun hab => key_proper Na Nb Nv Nr hab hclip' hweak'
  have ki := fun hba hbot => key_improper (a := rank a) (v := rank (vc c)) Nb Nr hba hbot hweak'
  have kr := key_raise Na Nb Nv Nr hclip' hweak'
  rw [← rs, ← rF] at kp ki kr
  exact ⟨hq, hrok, hpath, ha'ok, ha'r, hless, kp, ki, kr⟩

/-- Loop invariant of `abLoop` for an arbitrary move list. -/
theorem abLoop_spec {g : Game P} {ex : P → Explore} {rec} {p : P} {n : Nat} {vc : P → Score}
    {pathc : P → Score → List Move → Prop} (H : RecOK n vc pathc rec) (hn : n ≤ 126) {b : Score} (hb : okN (n + 1) b) :
    ∀ (l : List Move) (a : Score) (pv : List Move) (hl : Bool) (st : SState), okN (n + 1) a → Quiet st →
    ∀ res, abLoop g ex rec p b l a pv hl st = res →
      Quiet res.2.2.2.2 ∧ okN (n + 1) res.1 ∧ rank a ≤ rank res.1 ∧ res.2.2.1 = (hl || legalAny g p l) ∧
      (rank a < rank b →
        (maxR (rank a) (kidsR g ex p vc l) < rank b → rank res.1 = maxR (rank a) (kidsR g ex p vc l)) ∧
        (rank b ≤ maxR (rank a) (kidsR g ex p vc l) →
          rank b ≤ rank res.1 ∧ rank res.1 ≤ maxR (rank a) (kidsR g ex p vc l))) ∧
      (rank b ≤ rank a → rank b ≠ -1099511627776 → rank res.1 ≤ maxR (rank a) (kidsR g ex p vc l)) ∧
      ((res.2.1 = pv ∧ res.1 = a) ∨
        ∃ m c s rem, res.2.1 = m :: rem ∧ m ∈ l ∧ g.push p m = some c ∧ (ex p).pick m = true ∧ pathc c s rem ∧
          okN n s ∧ res.1 = lift s ∧ rank res.1 ≤ rank (lift (vc c))) := by
  intro l
  induction l with
  | nil =>
    intro a pv hl st ha hst res hres
    subst hres
    simp [abLoop, kidsR, kids, maxR, legalAny, ha, hst]
  | cons m rest ih =>
    intro a pv hl st ha hst res hres
    cases hpush : g.push p m with
    | none =>
      rw [abLoop_none hpush] at hres
      obtain ⟨h1, h2, h3, h4, h5, h6, h7⟩ := ih a pv hl st ha hst res hres
      rw [kidsR_none hpush, legalAny_cons, hpush]
      refine ⟨h1, h2, h3, by simpa using h4, h5, h6, ?_⟩
      rcases h7 with h7 | ⟨m', c, s, rem, e1, e2, e3⟩
      · left; exact h7
      · right; exact ⟨m', c, s, rem, e1, List.mem_cons_of_mem _ e2, e3⟩
    | some c =>
      rw [legalAny_cons, hpush]
      simp only [Option.isSome_some, Bool.true_or, Bool.or_true]
      cases hp : (ex p).pick m with
      | false =>
        rw [abLoop_skip hpush hp] at hres
        rw [kidsR_skip hp]
        by_cases hcut : cutoff a b = true
        · rw [if_pos hcut] at hres
          subst hres
          have hba := (cutoff_iff ha.1 hb.1).1 hcut
          have hM := maxR_ge (kidsR g ex p vc rest) (rank a)
          refine ⟨hst, ha, Int.le_refl _, rfl, ?_, ?_, Or.inl ⟨rfl, rfl⟩⟩
          · intro hab; omega
          · intro _ _; exact hM
        · rw [if_neg hcut] at hres
          obtain ⟨h1, h2, h3, h4, h5, h6, h7⟩ := ih a pv true st ha hst res hres
          refine ⟨h1, h2, h3, by simpa using h4, h5, h6, ?_⟩
          rcases h7 with h7 | ⟨m', c', s, rem, e1, e2, e3⟩
          · left; exact h7
          · right; exact ⟨m', c', s, rem, e1, List.mem_cons_of_mem _ e2, e3⟩
      | true =>
        rw [abLoop_pick hpush hp] at hres
        rw [kidsR_pick hpush hp, maxR_cons]
        generalize hr : rec c (childBound b) (childBound a) st = r at hres
        obtain ⟨hq, hrok, hpath, ha'ok, ha'r, hless, kp, ki, kr⟩ := step_pick H hn ha hb hst c r hr
        clear hr
        have hM := maxR_ge (kidsR g ex p vc rest) (Max.max (rank a) (rank (lift (vc c))))
        dsimp only at hres
        by_cases hcut : cutoff (if a.less (lift r.1) then lift r.1 else a) b = true
        · rw [if_pos hcut] at hres
          subst hres
          have hba := (cutoff_iff ha'ok.1 hb.1).1 hcut
          refine ⟨hq, ha'ok, by rw [ha'r]; omega, rfl, ?_, ?_, ?_⟩
          · intro hab
            obtain ⟨q1, q2, q3⟩ := kp hab
            dsimp only
            rw [ha'r] at hba ⊢
            omega
          · intro hba' hbot
            have := ki hba' hbot
            dsimp only
            rw [ha'r]
            omega
          · dsimp only
            by_cases hl' : a.less (lift r.1) = true
            · right
              refine ⟨m, c, r.1, r.2.1, by simp [hl'], List.mem_cons_self, hpush, hp, hpath, hrok, by simp [hl'], ?_⟩
              have := kr (hless.1 hl')
              simp only [hl', if_true]
              exact this
            · left
              simp [hl']
        · rw [if_neg hcut] at hres
          have hnb : rank (if a.less (lift r.1) then lift r.1 else a) < rank b := by
            have : ¬ rank b ≤ rank (if a.less (lift r.1) then lift r.1 else a) :=
              fun h => hcut ((cutoff_iff ha'ok.1 hb.1).2 h)
            omega
          have hab : rank a < rank b := by rw [ha'r] at hnb; omega
          obtain ⟨q1, q2, q3⟩ := kp hab
          have hMeq : Max.max (rank a) (rank (lift (vc c))) = rank (if a.less (lift r.1) then lift r.1 else a) := by
            rw [ha'r] at hnb ⊢; omega
          obtain ⟨h1, h2, h3, h4, h5, h6, h7⟩ := ih _ _ true r.2.2 ha'ok hq res hres
          rw [hMeq]
          refine ⟨h1, h2, by rw [ha'r] at h3; omega, by simpa using h4, fun _ => h5 hnb, fun hba _ => by omega, ?_⟩
          rcases h7 with ⟨e1, e2⟩ | ⟨m', c', s, rem, e1, e2, e3⟩
          · by_cases hl' : a.less (lift r.1) = true
            · right
              refine ⟨m, c, r.1, r.2.1, by simp [e1, hl'], List.mem_cons_self, hpush, hp, hpath, hrok,
                by simp [e2, hl'], ?_⟩
              have := kr (hless.1 hl')
              rw [e2]
              simp only [hl', if_true]
              exact this
            · left
              simp [e1, e2, hl']
          · right
            exact ⟨m', c', s, rem, e1, List.mem_cons_of_mem _ e2, e3⟩

end Morlock.Proofs.AB
