import Morlock.Proofs.TuroMirrorGen
import Morlock.Proofs.TurochampMirror3
/-!
# `MirrorGap` closed for BOTH colours, whatever the en-passant target and whoever is in check

The terms of TUROCHAMP's `PositionPlay` that read the legal moves (mobility, "may castle", "may give mate") are computed by
the Go code for the side NOT to move with the en-passant target and check status of the actual position: that side gets
"en-passant captures" onto its own target (they remove a phantom pawn), and may capture the king of a side in check. None of
this is a position of the reference semantics, so the proof goes through the bitboards (`MP`, `Proofs/TuroMirror{Bits,Pos,Gen}`):
`Position.Move` maps mirror images to mirror images (`move_mirror`), hence the legal moves (`legal_mirror`), hence
`IsCheckMate` one ply further (`isCheckMate_mirror`) and the three terms (`mirrorGap_bits`).
-/
namespace Morlock.Proofs.TuroMirror
open Morlock Morlock.Model Morlock.Model.Turochamp Morlock.Proofs.Gen Morlock.Proofs.Attack Morlock.Proofs.Mirror
open Morlock.Proofs.Turochamp

local notation "ms" => Spec.mirrorSq

/-! ## single bits -/

theorem one_zero : One 0 := fun u _ hu _ => by simp at hu

theorem one_xor_clear {x a : Nat} (ho : One x) (ha : x.testBit a = true) (h64 : a < 64) : x ^^^ bitMask a = 0 := by
  apply eq_zero_of_no_bits
  intro i
  rw [Nat.testBit_xor, bitMask_testBit h64]
  by_cases e : i = a
  · subst e; simp [ha]
  · cases hi : x.testBit i
    · simp [e]
    · exact absurd (ho _ _ hi ha) e

theorem one_bitMask (b : Nat) : One (0 ^^^ bitMask b) := by
  intro u v hu hv
  rw [Nat.zero_xor, bitMask_testBit'] at hu hv
  simp only [Bool.and_eq_true, decide_eq_true_eq] at hu hv
  rw [hu.2, hv.2]

/-! ## the king bitboards after `moveRaw` -/

theorem step4_king (a : Position) (turn : Color) (m : Move) (d : Color) :
    (step4 a turn m).pieces d .king = a.pieces d .king := by
  unfold step4
  split <;> simp [pieces_xor_king]

theorem rawCore_king (p : Position) (turn : Color) (pc : Piece) (m : Move) (d : Color) :
    (rawCore p turn pc m).pieces d .king =
      (if d = turn ∧ movedPiece m pc = .king then
        (if m.isCapture = true ∧ d = turn.opp ∧ m.capture = .king then
          (if d = turn ∧ pc = .king then p.pieces d .king ^^^ bitMask m.from else p.pieces d .king) ^^^ bitMask m.to
         else (if d = turn ∧ pc = .king then p.pieces d .king ^^^ bitMask m.from else p.pieces d .king)) ^^^ bitMask m.to
       else
        (if m.isCapture = true ∧ d = turn.opp ∧ m.capture = .king then
          (if d = turn ∧ pc = .king then p.pieces d .king ^^^ bitMask m.from else p.pieces d .king) ^^^ bitMask m.to
         else (if d = turn ∧ pc = .king then p.pieces d .king ^^^ bitMask m.from else p.pieces d .king))) := by
  unfold rawCore
  rw [step4_king, pieces_xor_king]
  by_cases hc : m.isCapture = true
  · simp only [hc, if_true, true_and, pieces_xor_king]
  · simp only [hc, if_false, false_and, pieces_xor_king, Bool.false_eq_true]

/-- the mover keeps at most one king -/
theorem moveRaw_king_mover {p : Position} {turn : Color} {pc : Piece} {m : Move}
    (ho : One (p.pieces turn .king)) (hf : m.from < 64)
    (hbit : pc = .king → (p.pieces turn .king).testBit m.from = true)
    (hpr : m.isPromotion = true → m.promotion ≠ .king) :
    One ((moveRaw p turn pc m).pieces turn .king) := by
  rw [moveRaw_pieces, rawCore_king]
  have hne : ¬ turn = turn.opp := fun e => Color.opp_ne turn e.symm
  simp only [true_and, hne, false_and, and_false, if_false]
  by_cases hk : pc = .king
  · rw [if_pos hk, one_xor_clear ho (hbit hk) hf]
    split
    · exact one_bitMask _
    · exact one_zero
  · rw [if_neg hk]
    have : movedPiece m pc ≠ .king := by
      unfold movedPiece
      split
      · rename_i hp; exact hpr hp
      · exact hk
    rw [if_neg this]
    exact ho

/-- the opponent keeps at most one king -/
theorem moveRaw_king_opp {p : Position} {turn : Color} {pc : Piece} {m : Move}
    (ho : One (p.pieces turn.opp .king)) (ht : m.to < 64)
    (hbit : m.isCapture = true → m.capture = .king → (p.pieces turn.opp .king).testBit m.to = true) :
    One ((moveRaw p turn pc m).pieces turn.opp .king) := by
  rw [moveRaw_pieces, rawCore_king]
  have hne : ¬ turn.opp = turn := Color.opp_ne turn
  simp only [hne, false_and, if_false, true_and]
  split
  · rename_i hh
    rw [one_xor_clear ho (hbit hh.1 hh.2) ht]
    exact one_zero
  · exact ho

/-! ## `Tri` after `moveRaw` -/

theorem step4_tri {a : Position} (h : Tri a) (turn : Color) (m : Move) : Tri (step4 a turn m) := by
  unfold step4
  split
  · exact h.xor _ _ (by decide)
  · exact (h.xor _ _ (by decide)).xor _ _ (by decide)
  · exact (h.xor _ _ (by decide)).xor _ _ (by decide)
  · exact h

theorem moveRaw_tri {p : Position} (h : Tri p) {turn : Color} {pc : Piece} {m : Move} (hpc : pc ≠ .none)
    (hcap : m.isCapture = true → m.capture ≠ .none) (hmp : movedPiece m pc ≠ .none) :
    Tri (moveRaw p turn pc m) := by
  have hc : Tri (rawCore p turn pc m) := by
    unfold rawCore
    apply step4_tri
    apply Tri.xor _ _ _ hmp
    by_cases hcc : m.isCapture = true
    · rw [if_pos hcc]; exact (h.xor _ _ hpc).xor _ _ (hcap hcc)
    · rw [if_neg hcc]; exact h.xor _ _ hpc
  intro u hu
  rw [moveRaw_rotated, moveRaw_pieces, moveRaw_pieces]
  exact hc u hu

/-! ## what `square` returns -/

theorem squareF_some {r w b : Bool} {fw fb : Option Piece} {c : Color} {k : Piece}
    (h : squareF r w b fw fb = some (c, k)) : (c = .white ∧ fw = some k) ∨ (c = .black ∧ fb = some k) := by
  unfold squareF at h
  cases r <;> cases w <;> cases b <;> cases fw <;> cases fb <;> simp at h <;>
    (try (obtain ⟨rfl, rfl⟩ := h)) <;> simp

/-- the piece `square` reports has its bit set -/
theorem square_some_bit {p : Position} {sq : Nat} {c : Color} {k : Piece} (h : p.square sq = some (c, k)) :
    isSet (p.pieces c k) sq = true ∧ k ≠ .none := by
  rw [square_eq_F] at h
  have hn : ∀ k', k' ∈ Position.piecesInOrder → k' ≠ Piece.none := by decide
  rcases squareF_some h with ⟨rfl, hf⟩ | ⟨rfl, hf⟩
  · have h1 := List.find?_some hf
    exact ⟨h1, hn _ (List.mem_of_find?_eq_some hf)⟩
  · have h1 := List.find?_some hf
    exact ⟨h1, hn _ (List.mem_of_find?_eq_some hf)⟩

/-! ## `Position.Move` and the legal moves -/

/-- **`Position.Move` commutes with the mirror**: rejected on both sides, or accepted on both with mirror-image results -/
theorem move_mirror {p q : Position} (h : MP p q) (ht : Tri p) (hk : ∀ d, One (p.pieces d .king)) {m : Move}
    (ok : MoveOK m) (hpr : m.isPromotion = true → m.promotion ≠ .king) :
    (p.move m = none ∧ q.move (mm m) = none) ∨
    ∃ turn pc, p.square m.from = some (turn, pc) ∧ p.move m = some (moveRaw p turn pc m) ∧
      q.move (mm m) = some (moveRaw q turn.opp pc (mm m)) := by
  have hsq := square_mirror h ht ok.f
  cases hs : p.square m.from with
  | none =>
    rw [hs] at hsq
    exact Or.inl ⟨move_none hs, move_none hsq⟩
  | some x =>
    obtain ⟨turn, pc⟩ := x
    rw [hs] at hsq
    have hb := square_some_bit hs
    have hking : One ((moveRaw p turn pc m).pieces turn .king) :=
      moveRaw_king_mover (hk turn) ok.f (fun e => by rw [← isSet_lt _ ok.f, ← e]; exact hb.1) hpr
    have e := moveTest_mirror h ok turn pc hking
    have hq : q.move (mm m) = if moveTest q turn.opp pc (mm m) then some (moveRaw q turn.opp pc (mm m)) else none :=
      move_eq_test (m := mm m) hsq
    rw [move_eq_test hs, hq, e]
    by_cases htest : moveTest p turn pc m = true
    · right
      exact ⟨turn, pc, rfl, by rw [if_pos htest], by rw [if_pos htest]⟩
    · left
      exact ⟨by rw [if_neg htest], by rw [if_neg htest]⟩

theorem promo_ne_king {p : Position} {c : Color} {m : Move} (g : GenOK p c m) :
    m.isPromotion = true → m.promotion ≠ .king := by
  intro hp e
  have := g.promo hp
  rw [e, mem_promoPieces] at this
  simp at this

/-- **the legal moves of the other colour on the mirror image are the mirror images of the legal moves** -/
theorem legal_mirror {p q : Position} (h : MP p q) (ht : Tri p) (hk : ∀ d, One (p.pieces d .king)) (c : Color) :
    (q.legalMoves c.opp).Perm ((p.legalMoves c).map mm) := by
  unfold Position.legalMoves
  have hp := (pseudo_mirror h c (hk c)).filter (fun m => (q.move m).isSome)
  refine hp.trans (List.Perm.of_eq ?_)
  rw [List.filter_map]
  congr 1
  apply List.filter_congr
  intro m hm
  have g := pseudo_ok h.sized hm
  show (q.move (mm m)).isSome = (p.move m).isSome
  rcases move_mirror h ht hk g.ok (promo_ne_king g) with ⟨a, b⟩ | ⟨_, _, _, a, b⟩ <;> rw [a, b] <;> rfl

/-- `IsCheckMate` commutes with the mirror -/
theorem isCheckMate_mirror {p q : Position} (h : MP p q) (ht : Tri p) (hk : ∀ d, One (p.pieces d .king)) (d : Color) :
    q.isCheckMate d.opp = p.isCheckMate d := by
  unfold Position.isCheckMate
  rw [isChecked_mirror h d (hk d), (legal_mirror h ht hk d).isEmpty_eq, List.isEmpty_map]

/-! ## one ply from a position that represents a board -/

theorem one_king_of_wfb {p : Position} {b : Board} (hr : Rep p b) {cs ep : Nat} {t : Color} (hw : WFb b cs ep t)
    (d : Color) : One (p.pieces d .king) := by
  intro u v hu hv
  have hu64 := lt_of_testBit (hr.piecesLt d .king) hu
  have hv64 := lt_of_testBit (hr.piecesLt d .king) hv
  rw [hr.one d .king u (by decide) hu64, decide_eq_true_eq] at hu
  rw [hr.one d .king v (by decide) hv64, decide_eq_true_eq] at hv
  exact hw.king_unique d u v hu hv

/-- after a generated move of colour `c` from a position representing a board: origin square, `Tri`, one king a side -/
theorem next_facts {p : Position} {b : Board} (hr : Rep p b) (hk : ∀ d, One (p.pieces d .king)) {c : Color} {m : Move}
    (g : GenOK p c m) :
    p.square m.from = some (c, m.piece) ∧ Tri (moveRaw p c m.piece m) ∧
      ∀ d, One ((moveRaw p c m.piece m).pieces d .king) := by
  have hsq : p.square m.from = some (c, m.piece) := by
    rw [hr.square_eq]
    have := g.fromBit
    rw [hr.one c m.piece m.from g.pne g.ok.f, decide_eq_true_eq] at this
    exact this
  have hcapK : m.isCapture = true → ∃ k, b m.to = some (c.opp, k) ∧ m.capture = k := by
    intro hc
    obtain ⟨e, hb⟩ := g.cap hc
    rw [hr.all c.opp m.to g.ok.t, colAt_enemy_iff] at hb
    obtain ⟨k, hk'⟩ := hb
    exact ⟨k, hk', by rw [e, captureAt_of_rep hr, capAt_enemy hk']⟩
  have hmp : movedPiece m m.piece ≠ .none := by
    unfold movedPiece
    split
    · rename_i hp; exact ne_none_of_mem_promoPieces (g.promo hp)
    · exact g.pne
  refine ⟨hsq, ?_, ?_⟩
  · apply moveRaw_tri (Tri.of_rep hr) g.pne _ hmp
    intro hc
    obtain ⟨k, hk', e⟩ := hcapK hc
    rw [e]
    exact hr.ne_none_of_some hk'
  · intro d
    by_cases hd : d = c
    · subst hd
      apply moveRaw_king_mover (hk d) g.ok.f _ (promo_ne_king g)
      intro e
      rw [← e]; exact g.fromBit
    · have hd' : d = c.opp := by cases d <;> cases c <;> simp_all [Color.opp]
      subst hd'
      apply moveRaw_king_opp (hk c.opp) g.ok.t
      intro hc hkg
      obtain ⟨k, hk', e⟩ := hcapK hc
      rw [hr.one c.opp .king m.to (by decide) g.ok.t, decide_eq_true_eq, hk', ← e, hkg]

/-! ## the three terms -/

theorem mayCastle_bits {p q : Position} (h : MP p q) (ht : Tri p) (hk : ∀ d, One (p.pieces d .king)) (c : Color) :
    mayCastle q c.opp = mayCastle p c := by
  unfold mayCastle
  rw [(legal_mirror h ht hk c).any_eq, List.any_map]
  rfl

theorem mayCheckMate_bits {p q : Position} {b : Board} (h : MP p q) (hr : Rep p b) (hk : ∀ d, One (p.pieces d .king))
    (c : Color) : mayCheckMate q c.opp = mayCheckMate p c := by
  have ht := Tri.of_rep hr
  unfold mayCheckMate
  rw [(legal_mirror h ht hk c).any_eq, List.any_map]
  apply any_congr_mem
  intro m hm
  have hml : m ∈ p.pseudoLegalMoves c := by
    unfold Position.legalMoves at hm
    exact (List.mem_filter.mp hm).1
  have g := pseudo_ok h.sized hml
  obtain ⟨hsq, htn, hkn⟩ := next_facts hr hk g
  simp only [Function.comp]
  rcases move_mirror h ht hk g.ok (promo_ne_king g) with ⟨a, b'⟩ | ⟨turn, pc, hs, a, b'⟩
  · rw [a, b']
  · rw [hsq] at hs
    obtain ⟨rfl, rfl⟩ := Prod.mk.inj (Option.some.inj hs)
    rw [a, b']
    exact isCheckMate_mirror (moveRaw_MP h g.ok c m.piece) htn hkn c.opp

theorem weight_mm (m : Move) : weight (mm m) = weight m := rfl

theorem wsum_bits {p q : Position} (h : MP p q) (ht : Tri p) (hk : ∀ d, One (p.pieces d .king)) (c : Color) (k : Nat) :
    wsum (q.legalMoves c.opp) (ms k) = wsum (p.legalMoves c) k := by
  unfold wsum
  rw [nsum_perm ((legal_mirror h ht hk c).map _), List.map_map]
  congr 1
  apply List.map_congr_left
  intro m _
  simp only [Function.comp, mm_from, weight_mm]
  have : (ms m.from = ms k) = (m.from = k) := propext ⟨fun e => Spec.mirrorSq_inj e, fun e => by rw [e]⟩
  simp only [this]

/-- the mobility maps are mirror images of each other, up to the order of the entries -/
theorem mobility_bits {p q : Position} (h : MP p q) (ht : Tri p) (hk : ∀ d, One (p.pieces d .king)) (c : Color) :
    (mobility q c.opp).Perm ((mobility p c).map fun e => (ms e.1, e.2)) := by
  obtain ⟨ndq, memq⟩ := mobility_exact q c.opp
  obtain ⟨ndp, memp⟩ := mobility_exact p c
  apply (List.perm_ext_iff_of_nodup (nodup_of_map_fst ndq) ?_).mpr
  · intro e
    obtain ⟨k, n⟩ := e
    rw [memq k n]
    constructor
    · rintro ⟨hw, hn⟩
      refine List.mem_map.mpr ⟨(ms k, n), ?_, by simp⟩
      rw [memp]
      refine ⟨?_, hn⟩
      rw [← wsum_bits h ht hk c, Spec.mirrorSq_mirrorSq]
      exact hw
    · intro hm
      obtain ⟨e0, he0, heq⟩ := List.mem_map.mp hm
      obtain ⟨k0, n0⟩ := e0
      simp only [Prod.mk.injEq] at heq
      obtain ⟨hk', hn⟩ := heq
      subst hn
      rw [memp] at he0
      rw [← hk', wsum_bits h ht hk c]
      exact he0
  · have : ((mobility p c).map fun e => (ms e.1, e.2)).map (·.1) = ((mobility p c).map (·.1)).map Spec.mirrorSq := by
      rw [List.map_map, List.map_map]; rfl
    apply nodup_of_map_fst
    rw [this]
    exact nodup_map_of_inj ndp (fun a _ b _ e => Spec.mirrorSq_inj e)

theorem mob10_bits {p q : Position} (h : MP p q) (ht : Tri p) (hk : ∀ d, One (p.pieces d .king)) (c : Color) :
    mob10 (mobility q c.opp) = mob10 (mobility p c) := by
  rw [mob10_perm (mobility_bits h ht hk c)]
  unfold mob10
  rw [List.map_map]
  rfl

/-- **`MirrorGap` holds for every colour** when `q` is the bit-level mirror image of a position `p` that represents a
board with at most one king a side. -/
theorem mirrorGap_bits {p q : Position} {b : Board} (h : MP p q) (hr : Rep p b) (hk : ∀ d, One (p.pieces d .king))
    (c : Color) : MirrorGap p q c :=
  ⟨mayCheckMate_bits h hr hk c, mayCastle_bits h (Tri.of_rep hr) hk c, mob10_bits h (Tri.of_rep hr) hk c⟩

/-! ## `MP` from `Rep` -/

theorem sqRank_of_div {s r : Nat} (hs : s < 64) (h : s / 8 = r) : sqRank s = r := by
  rw [sqRank_eq]; omega

/-- a `WF` position and a position representing the mirrored board, with exchanged castling rights and mirrored
en-passant target, are bit-level mirror images -/
theorem MP.of_rep {p q : Position} {t : Color} {b : Board} (hw : WF p t) (hp : Rep p b) (hq : Rep q (mirrorBoard b))
    (hwk : (q.castling &&& wK != 0) = (p.castling &&& bK != 0))
    (hwq : (q.castling &&& wQ != 0) = (p.castling &&& bQ != 0))
    (hbk : (q.castling &&& bK != 0) = (p.castling &&& wK != 0))
    (hbq : (q.castling &&& bQ != 0) = (p.castling &&& wQ != 0))
    (hep0 : p.enpassant = 0 → q.enpassant = 0)
    (hep1 : p.enpassant ≠ 0 → q.enpassant = ms p.enpassant ∧ q.enpassant ≠ 0) : MP p q where
  pc := fun c k => ⟨hp.piecesLt c k, hq.piecesLt c.opp k, fun _ hu => pieces_mirror hp hq c k hu⟩
  rp := hp.rotInv
  rq := hq.rotInv
  occ := ⟨hp.rotLt, hq.rotLt, fun u hu => by
    rw [hq.rot u hu, hp.rot _ (Spec.mirrorSq_lt hu)]
    have := occB_mirrorBoard b (ms u)
    rw [Spec.mirrorSq_mirrorSq] at this
    exact this⟩
  wk := hwk
  wq := hwq
  bk := hbk
  bq := hbq
  epl := by
    by_cases h0 : p.enpassant = 0
    · rw [h0]; decide
    · exact (hw.wfb.ep_ok h0).1
  ep0 := hep0
  ep1 := by
    intro h0
    obtain ⟨a, b'⟩ := hep1 h0
    obtain ⟨l, _, r, _⟩ := hw.wfb.ep_ok h0
    refine ⟨a, b', ?_⟩
    cases t
    · right; exact sqRank_of_div l r
    · left; exact sqRank_of_div l r

end Morlock.Proofs.TuroMirror
