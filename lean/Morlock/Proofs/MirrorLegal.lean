import Morlock.Proofs.MirrorApply
/-!
# C20: the legal moves of the colour-swapped mirror image are the mirror images of the legal moves

Hypotheses: a 64-cell board, and at most one king of the side to move (`kingSquare?` takes the first king
in square order, and the mirror reverses the order of the ranks — with two kings of the mover on different
ranks the reference itself is not mirror-symmetric).
-/
namespace Morlock.Spec
open Morlock.Proofs.Attack Morlock.Proofs.Gen

/-! ## a move leaves at most one king of the mover -/

theorem apply_at {p : Pos} {m : SMove} {c : Color} {k : Kind} (hat : p.at m.from = some (c, k)) (s : Nat) :
    (apply p m).at s =
      if m.to = s ∧ s < (baseBoard p m c).size then some (c, match m.promo with | some pk => pk | none => k)
      else (baseBoard p m c).getD s none := by
  unfold Pos.at
  rw [apply_board_eq hat, getD_setCell]
  rfl

theorem king_of_setCell {b : Array (Option (Color × Kind))} {sq s : Nat} {v : Option (Color × Kind)} {c' : Color}
    (hv : v ≠ some (c', .king)) (h : (setCell b sq v).getD s none = some (c', .king)) :
    b.getD s none = some (c', .king) := by
  rw [getD_setCell] at h
  by_cases hc : sq = s ∧ s < b.size
  · rw [if_pos hc] at h; exact absurd h hv
  · rw [if_neg hc] at h; exact h

/-- A king on the intermediate board was there before. -/
theorem baseBoard_king {p : Pos} {m : SMove} {c c' : Color} {s : Nat}
    (h : (baseBoard p m c).getD s none = some (c', .king)) : p.at s = some (c', .king) := by
  unfold baseBoard at h
  simp only [] at h
  have hn : (none : Option (Color × Kind)) ≠ some (c', .king) := by simp
  have hr : (some (c, Kind.rook) : Option (Color × Kind)) ≠ some (c', .king) := by simp
  have h := king_of_setCell hn h
  have e1 : (if isEnPassant p m = true then setCell p.board (mkSq (fileOf m.to) (rankOf m.from)) none
      else p.board).getD s none = some (c', .king) → p.at s = some (c', .king) := by
    intro hb
    by_cases he : isEnPassant p m = true
    · rw [if_pos he] at hb; exact king_of_setCell hn hb
    · rw [if_neg he] at hb; exact hb
  by_cases hc : isCastle p m = true
  · rw [if_pos hc] at h
    by_cases hg : fileOf m.to = fG
    · rw [if_pos hg] at h
      exact e1 (king_of_setCell hn (king_of_setCell hr h))
    · rw [if_neg hg] at h
      exact e1 (king_of_setCell hn (king_of_setCell hr h))
  · rw [if_neg hc] at h
    exact e1 h

/-- The origin square is empty on the intermediate board. -/
theorem baseBoard_from (p : Pos) (m : SMove) (c : Color) : (baseBoard p m c).getD m.from none = none := by
  by_cases hlt : m.from < (baseBoard p m c).size
  · unfold baseBoard at hlt ⊢
    simp only [] at hlt ⊢
    rw [size_setCell] at hlt
    rw [getD_setCell, if_pos ⟨rfl, hlt⟩]
  · rw [Array.getD, dif_neg hlt]

theorem oneKing_apply {p : Pos} {m : SMove} (hm : m ∈ pseudoMoves p) (hu : OneKing p p.turn) :
    OneKing (apply p m) p.turn := by
  obtain ⟨hlt, hmf⟩ := mem_pseudoMoves.mp hm
  obtain ⟨k, hat⟩ := at_of_mem_movesFrom hmf
  -- the man put on the destination
  have hkk : ∀ pk, m.promo = some pk → k = .pawn ∧ pk ≠ .king := by
    intro pk hpk
    obtain ⟨h1, h2, _⟩ := pseudo_promo hm hpk
    rw [hat] at h1
    simp only [Option.some.injEq, Prod.mk.injEq, true_and] at h1
    exact ⟨h1, ne_king_of_mem_promoKinds h2⟩
  -- a king of the mover after the move: the moved king on the destination, or an old king elsewhere
  have key : ∀ s, s < 64 → (apply p m).at s = some (p.turn, .king) →
      (k = .king ∧ s = m.to) ∨ (k ≠ .king ∧ p.at s = some (p.turn, .king)) := by
    intro s hs ha
    rw [apply_at hat] at ha
    split at ha
    · rename_i hcond
      simp only [Option.some.injEq, Prod.mk.injEq, true_and] at ha
      cases hp : m.promo with
      | none => rw [hp] at ha; exact Or.inl ⟨ha, hcond.1.symm⟩
      | some pk => rw [hp] at ha; exact absurd ha (hkk pk hp).2
    · have hold := baseBoard_king ha
      by_cases hk : k = .king
      · exfalso
        subst hk
        have : s = m.from := hu s m.from hs hlt hold hat
        rw [this, baseBoard_from] at ha
        cases ha
      · exact Or.inr ⟨hk, hold⟩
  intro s1 s2 h1 h2 a1 a2
  rcases key s1 h1 a1 with ⟨hk1, e1⟩ | ⟨n1, o1⟩
  · rcases key s2 h2 a2 with ⟨_, e2⟩ | ⟨n2, _⟩
    · rw [e1, e2]
    · exact absurd hk1 n2
  · rcases key s2 h2 a2 with ⟨hk, _⟩ | ⟨_, o2⟩
    · exact absurd hk n1
    · exact hu s1 s2 h1 h2 o1 o2

/-! ## legality -/

/-- **Legality is mirror-symmetric** on pseudo-legal moves. -/
theorem isLegal_mirror {p : Pos} (hsz : p.board.size = 64) (hu : OneKing p p.turn) {m : SMove}
    (hm : m ∈ pseudoMoves p) : isLegal (mirror p) (mirrorMove m) = isLegal p m := by
  obtain ⟨hf, ht⟩ := to_lt_of_pseudo hm
  have hM := Mir.of_mirror p
  have hmid : (fileOf m.from + fileOf m.to) / 2 < 8 := by
    have := fileOf_lt m.from; have := fileOf_lt m.to; omega
  have hatt : attackedBy (mirror p) p.turn.opp.opp
      (mkSq ((fileOf (mirrorMove m).from + fileOf (mirrorMove m).to) / 2) (rankOf (mirrorMove m).from)) =
      attackedBy p p.turn.opp (mkSq ((fileOf m.from + fileOf m.to) / 2) (rankOf m.from)) := by
    show attackedBy (mirror p) p.turn.opp.opp
      (mkSq ((fileOf (mirrorSq m.from) + fileOf (mirrorSq m.to)) / 2) (rankOf (mirrorSq m.from))) = _
    rw [fileOf_mirrorSq hf, fileOf_mirrorSq ht, rankOf_mirrorSq hf, ← mirrorSq_mkSq hmid (rankOf_lt hf),
      attackedBy_mirror]
  unfold isLegal
  simp only [mirror_turn, isCastle_mir hM hf ht, apply_mirror hsz hf ht, inCheck_mirror hu,
    inCheck_mirror (oneKing_apply hm hu), hatt]

/-- A move is legal in the mirror image iff its mirror image is legal in the original. -/
theorem mem_legalMoves_mirror {p : Pos} (hsz : p.board.size = 64) (hu : OneKing p p.turn) {m : SMove} :
    m ∈ legalMoves (mirror p) ↔ mirrorMove m ∈ legalMoves p := by
  unfold legalMoves
  rw [List.mem_filter, List.mem_filter, pseudoMoves_mir (Mir.of_mirror p)]
  constructor
  · rintro ⟨h1, h2⟩
    refine ⟨h1, ?_⟩
    rw [← isLegal_mirror hsz hu h1, mirrorMove_mirrorMove]
    exact h2
  · rintro ⟨h1, h2⟩
    refine ⟨h1, ?_⟩
    have := isLegal_mirror hsz hu h1
    rw [mirrorMove_mirrorMove] at this
    rw [this]; exact h2

theorem nodup_map_mirrorMove {l : List SMove} (h : l.Nodup) : (l.map mirrorMove).Nodup := by
  induction l with
  | nil => exact List.nodup_nil
  | cons a r ih =>
    rw [List.nodup_cons] at h
    rw [List.map_cons, List.nodup_cons]
    refine ⟨?_, ih h.2⟩
    intro hmem
    rw [List.mem_map] at hmem
    obtain ⟨b, hb, e⟩ := hmem
    exact h.1 (mirrorMove_inj e ▸ hb)

/-- **legalMoves_mirror.** -/
theorem legalMoves_mirror {p : Pos} (hsz : p.board.size = 64) (hu : OneKing p p.turn) :
    (legalMoves (mirror p)).Perm ((legalMoves p).map mirrorMove) := by
  rw [List.perm_ext_iff_of_nodup (legalMoves_nodup _) (nodup_map_mirrorMove (legalMoves_nodup _))]
  intro m
  rw [mem_legalMoves_mirror hsz hu, List.mem_map]
  constructor
  · intro h; exact ⟨mirrorMove m, h, mirrorMove_mirrorMove m⟩
  · rintro ⟨a, ha, rfl⟩; rwa [mirrorMove_mirrorMove]

/-- The pseudo-legal moves likewise (no condition on kings or on the board array). -/
theorem pseudoMoves_mirror (p : Pos) : (pseudoMoves (mirror p)).Perm ((pseudoMoves p).map mirrorMove) := by
  rw [List.perm_ext_iff_of_nodup (pseudoMoves_nodup _) (nodup_map_mirrorMove (pseudoMoves_nodup _))]
  intro m
  rw [pseudoMoves_mir (Mir.of_mirror p), List.mem_map]
  constructor
  · intro h; exact ⟨mirrorMove m, h, mirrorMove_mirrorMove m⟩
  · rintro ⟨a, ha, rfl⟩; rwa [mirrorMove_mirrorMove]

/-- The hypotheses carry over to the mirror image and along pseudo-legal moves. -/
theorem oneKing_mirror {p : Pos} {c : Color} (hu : OneKing p c) : OneKing (mirror p) c.opp :=
  hu.mir (Mir.of_mirror p)

theorem apply_board_size {p : Pos} (m : SMove) : (apply p m).board.size = p.board.size := by
  cases hat : p.at m.from with
  | none => rw [apply_none hat]
  | some v =>
    obtain ⟨c, k⟩ := v
    rw [apply_board_eq hat, size_setCell, baseBoard_size]

end Morlock.Spec

namespace Morlock.Spec
open Morlock.Proofs.Attack Morlock.Proofs.Gen

/-! ## the whole game tree: `perft` is mirror-symmetric -/

/-- The invariant under which the reference is mirror-symmetric: 64 cells, at most one king a side. -/
structure Sym (p : Pos) : Prop where
  size : p.board.size = 64
  kings : ∀ c, OneKing p c

theorem oneKing_apply_opp {p : Pos} {m : SMove} (hm : m ∈ pseudoMoves p) (hu : OneKing p p.turn.opp) :
    OneKing (apply p m) p.turn.opp := by
  obtain ⟨_, hmf⟩ := mem_pseudoMoves.mp hm
  obtain ⟨k, hat⟩ := at_of_mem_movesFrom hmf
  have key : ∀ s, (apply p m).at s = some (p.turn.opp, .king) → p.at s = some (p.turn.opp, .king) := by
    intro s ha
    rw [apply_at hat] at ha
    split at ha
    · simp only [Option.some.injEq, Prod.mk.injEq] at ha
      exact absurd ha.1.symm (Color.opp_ne _)
    · exact baseBoard_king ha
  intro s1 s2 h1 h2 a1 a2
  exact hu s1 s2 h1 h2 (key s1 a1) (key s2 a2)

theorem Sym.apply {p : Pos} (h : Sym p) {m : SMove} (hm : m ∈ pseudoMoves p) : Sym (apply p m) where
  size := by rw [apply_board_size]; exact h.size
  kings := by
    intro c
    by_cases hc : c = p.turn
    · subst hc; exact oneKing_apply hm (h.kings _)
    · have : c = p.turn.opp := Color.ne_iff_eq_opp.mp hc
      subst this; exact oneKing_apply_opp hm (h.kings _)

theorem Sym.mirror {p : Pos} (h : Sym p) : Sym (mirror p) where
  size := mirror_board_size p
  kings := by
    intro c
    have := oneKing_mirror (h.kings c.opp)
    rwa [Color.opp_opp] at this

theorem foldl_add_congr {α : Type} {f g : α → Nat} {l : List α} (h : ∀ a ∈ l, f a = g a) (init : Nat) :
    l.foldl (fun acc a => acc + f a) init = l.foldl (fun acc a => acc + g a) init := by
  induction l generalizing init with
  | nil => rfl
  | cons a r ih =>
    rw [List.foldl_cons, List.foldl_cons, h a List.mem_cons_self]
    exact ih (fun x hx => h x (List.mem_cons_of_mem _ hx)) _

/-- **perft_mirror.** The number of legal move sequences of every length is the same in the
    colour-swapped mirror image. -/
theorem perft_mirror : ∀ (d : Nat) {p : Pos}, Sym p → perft d (mirror p) = perft d p := by
  intro d
  induction d with
  | zero => intro p _; rfl
  | succ d ih =>
    intro p hs
    unfold perft
    have hperm := legalMoves_mirror hs.size (hs.kings p.turn)
    rw [hperm.foldl_eq' (by intro x _ y _ z; omega), List.foldl_map]
    apply foldl_add_congr
    intro m hm
    have hpm : m ∈ pseudoMoves p := by
      unfold legalMoves at hm; exact (List.mem_filter.mp hm).1
    obtain ⟨hf, ht⟩ := to_lt_of_pseudo hpm
    rw [apply_mirror hs.size hf ht]
    exact ih (hs.apply hpm)

end Morlock.Spec
