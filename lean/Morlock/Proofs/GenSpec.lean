import Morlock.Spec.Chess
import Morlock.Proofs.AttackBounds
/-!
# The reference `Spec.pseudoMoves`, taken apart (pure reference-side lemmas for C01)

`pseudoMoves` is the concatenation over the 64 squares of `movesFrom`; the moves of one square are
split into pawn pushes, pawn captures, officer steps and castles, each with a membership lemma.
-/
namespace Morlock.Proofs.Gen
open Morlock Morlock.Spec

/-- A pawn move to `t`, expanded into the four promotions when `t` is on the last rank. -/
def withPromo (c : Spec.Color) (s t : Sq) : List SMove :=
  if rankOf t = lastRank c then promoKinds.map fun k => ⟨s, t, some k⟩ else [⟨s, t, none⟩]

/-- Single and double pawn pushes from `s`. -/
def pawnPushes (p : Pos) (c : Spec.Color) (s : Sq) : List SMove :=
  match step s 0 (fwd c) with
  | some t =>
    if p.occ t then [] else
      withPromo c s t ++
      (if rankOf s = startRank c then
        match step t 0 (fwd c) with
        | some t2 => if p.occ t2 then [] else [⟨s, t2, none⟩]
        | none => []
       else [])
  | none => []

/-- Pawn captures (including en passant) from `s`. -/
def pawnCaps (p : Pos) (c : Spec.Color) (s : Sq) : List SMove :=
  (pawnTargets c s).flatMap fun t =>
    match p.at t with
    | some (c2, _) => if c2 = c.opp then withPromo c s t else []
    | none => if p.ep = some t then [⟨s, t, none⟩] else []

/-- Officer (and king) steps from `s`. -/
def officerNormal (p : Pos) (c : Spec.Color) (k : Kind) (s : Sq) : List SMove :=
  (officerTargets p.occ k s).filterMap fun t =>
    match p.at t with
    | some (c2, _) => if c2 = c then none else some ⟨s, t, none⟩
    | none => some ⟨s, t, none⟩

/-- Castling moves from `s`. -/
def castlesFrom (p : Pos) (c : Spec.Color) (k : Kind) (s : Sq) : List SMove :=
  if k = .king ∧ s = mkSq fE (homeRank c) then
    (if p.right c true ∧ p.at (mkSq fH (homeRank c)) = some (c, .rook) ∧
        ¬ p.occ (mkSq fF (homeRank c)) ∧ ¬ p.occ (mkSq fG (homeRank c))
      then [⟨s, mkSq fG (homeRank c), none⟩] else []) ++
    (if p.right c false ∧ p.at (mkSq fA (homeRank c)) = some (c, .rook) ∧
        ¬ p.occ (mkSq fD (homeRank c)) ∧ ¬ p.occ (mkSq fC (homeRank c)) ∧ ¬ p.occ (mkSq fB (homeRank c))
      then [⟨s, mkSq fC (homeRank c), none⟩] else [])
  else []

/-- All pseudo-legal moves leaving square `s`. -/
def movesFrom (p : Pos) (s : Sq) : List SMove :=
  match p.at s with
  | some (c', k) =>
    if c' ≠ p.turn then [] else
    match k with
    | .pawn => pawnPushes p p.turn s ++ pawnCaps p p.turn s
    | k => officerNormal p p.turn k s ++ castlesFrom p p.turn k s
  | none => []

theorem pseudoMoves_eq (p : Pos) : pseudoMoves p = allSquares.flatMap (movesFrom p) := by
  unfold pseudoMoves
  show List.flatMap _ allSquares = List.flatMap _ allSquares
  congr 1
  funext s
  unfold movesFrom pawnPushes pawnCaps officerNormal castlesFrom withPromo
  cases p.at s with
  | none => rfl
  | some x =>
    obtain ⟨c', k⟩ := x
    cases k <;> rfl

theorem mem_withPromo {c : Spec.Color} {s t : Sq} {sm : SMove} :
    sm ∈ withPromo c s t ↔ sm.from = s ∧ sm.to = t ∧
      ((rankOf t = lastRank c ∧ ∃ k ∈ promoKinds, sm.promo = some k) ∨
       (rankOf t ≠ lastRank c ∧ sm.promo = none)) := by
  unfold withPromo
  split
  · rename_i hr
    simp only [List.mem_map]
    constructor
    · rintro ⟨k, hk, rfl⟩; exact ⟨rfl, rfl, Or.inl ⟨hr, k, hk, rfl⟩⟩
    · rintro ⟨h1, h2, h3 | h3⟩
      · obtain ⟨_, k, hk, hp⟩ := h3
        refine ⟨k, hk, ?_⟩
        cases sm; simp only at h1 h2 hp; subst h1 h2 hp; rfl
      · exact absurd hr h3.1
  · rename_i hr
    simp only [List.mem_singleton]
    constructor
    · rintro rfl; exact ⟨rfl, rfl, Or.inr ⟨hr, rfl⟩⟩
    · rintro ⟨h1, h2, h3 | h3⟩
      · exact absurd h3.1 hr
      · cases sm; simp only at h1 h2 h3; subst h1 h2; rw [h3.2]

theorem from_of_mem_pawnPushes {p : Pos} {c : Spec.Color} {s : Sq} {sm : SMove}
    (h : sm ∈ pawnPushes p c s) : sm.from = s := by
  unfold pawnPushes at h
  split at h
  · split at h
    · cases h
    · rw [List.mem_append] at h
      rcases h with h | h
      · exact (mem_withPromo.mp h).1
      · split at h
        · split at h
          · split at h
            · cases h
            · simp only [List.mem_singleton] at h; subst h; rfl
          · cases h
        · cases h
  · cases h

theorem from_of_mem_pawnCaps {p : Pos} {c : Spec.Color} {s : Sq} {sm : SMove}
    (h : sm ∈ pawnCaps p c s) : sm.from = s := by
  unfold pawnCaps at h
  rw [List.mem_flatMap] at h
  obtain ⟨t, _, h⟩ := h
  split at h
  · split at h
    · exact (mem_withPromo.mp h).1
    · cases h
  · split at h
    · simp only [List.mem_singleton] at h; subst h; rfl
    · cases h

/-- Officer steps: to a reference target that does not hold an own piece, no promotion. -/
theorem mem_officerNormal {p : Pos} {c : Spec.Color} {k : Kind} {s : Sq} {sm : SMove} :
    sm ∈ officerNormal p c k s ↔
      sm.from = s ∧ sm.promo = none ∧ sm.to ∈ officerTargets p.occ k s ∧
      ∀ k2, p.at sm.to ≠ some (c, k2) := by
  unfold officerNormal
  simp only [List.mem_filterMap]
  constructor
  · rintro ⟨t, ht, hm⟩
    split at hm
    · rename_i c2 k2 hat
      split at hm
      · cases hm
      · rename_i hne
        simp only [Option.some.injEq] at hm; subst hm
        refine ⟨rfl, rfl, ht, fun k3 hk3 => ?_⟩
        simp only at hk3
        rw [hat] at hk3
        simp only [Option.some.injEq, Prod.mk.injEq] at hk3
        exact hne hk3.1
    · rename_i hat
      simp only [Option.some.injEq] at hm; subst hm
      refine ⟨rfl, rfl, ht, fun k3 hk3 => ?_⟩
      simp only at hk3
      rw [hat] at hk3; cases hk3
  · rintro ⟨h1, h2, h3, h4⟩
    refine ⟨sm.to, h3, ?_⟩
    have e : sm = ⟨s, sm.to, none⟩ := by
      cases sm; simp only at h1 h2; subst h1 h2; rfl
    split
    · rename_i c2 k2 hat
      split
      · rename_i hc; subst hc; exact absurd hat (h4 k2)
      · rw [e]
    · rw [e]

theorem from_of_mem_castlesFrom {p : Pos} {c : Spec.Color} {k : Kind} {s : Sq} {sm : SMove}
    (h : sm ∈ castlesFrom p c k s) : sm.from = s := by
  unfold castlesFrom at h
  split at h
  · rw [List.mem_append] at h
    rcases h with h | h <;> split at h <;>
      first | (simp only [List.mem_singleton] at h; subst h; rfl) | cases h
  · cases h

theorem from_of_mem_movesFrom {p : Pos} {s : Sq} {sm : SMove} (h : sm ∈ movesFrom p s) : sm.from = s := by
  unfold movesFrom at h
  split at h
  · split at h
    · cases h
    · split at h
      · rw [List.mem_append] at h
        rcases h with h | h
        · exact from_of_mem_pawnPushes h
        · exact from_of_mem_pawnCaps h
      · rw [List.mem_append] at h
        rcases h with h | h
        · exact (mem_officerNormal.mp h).1
        · exact from_of_mem_castlesFrom h
  · cases h

/-- A move is pseudo-legal iff it leaves a real square and is one of that square's moves. -/
theorem mem_pseudoMoves {p : Pos} {sm : SMove} :
    sm ∈ pseudoMoves p ↔ sm.from < 64 ∧ sm ∈ movesFrom p sm.from := by
  rw [pseudoMoves_eq]
  simp only [List.mem_flatMap, allSquares, List.mem_range]
  constructor
  · rintro ⟨s, hs, hm⟩
    have := from_of_mem_movesFrom hm
    subst this
    exact ⟨hs, hm⟩
  · rintro ⟨hs, hm⟩
    exact ⟨sm.from, hs, hm⟩

/-- The moves of a non-pawn piece. -/
theorem movesFrom_officer {p : Pos} {s : Sq} {k : Kind} (hat : p.at s = some (p.turn, k)) (hk : k ≠ .pawn) :
    movesFrom p s = officerNormal p p.turn k s ++ castlesFrom p p.turn k s := by
  unfold movesFrom
  rw [hat]
  cases k <;> simp at hk ⊢

/-- The moves of a pawn. -/
theorem movesFrom_pawn {p : Pos} {s : Sq} (hat : p.at s = some (p.turn, .pawn)) :
    movesFrom p s = pawnPushes p p.turn s ++ pawnCaps p p.turn s := by
  unfold movesFrom
  rw [hat]
  simp

/-- Only squares holding a piece of the side to move have moves. -/
theorem at_of_mem_movesFrom {p : Pos} {s : Sq} {sm : SMove} (h : sm ∈ movesFrom p s) :
    ∃ k, p.at s = some (p.turn, k) := by
  unfold movesFrom at h
  split at h
  · rename_i c' k hat
    split at h
    · cases h
    · rename_i hc
      have : c' = p.turn := Classical.byContradiction hc
      exact ⟨k, by rw [hat, this]⟩
  · cases h


/-- Pawn pushes: one step to an empty square (with promotion expansion), or two steps from the
    start rank over two empty squares. -/
theorem mem_pawnPushes {p : Pos} {c : Spec.Color} {s : Sq} {sm : SMove} :
    sm ∈ pawnPushes p c s ↔
      ∃ t, step s 0 (fwd c) = some t ∧ p.occ t = false ∧
        (sm ∈ withPromo c s t ∨
         (rankOf s = startRank c ∧ ∃ t2, step t 0 (fwd c) = some t2 ∧ p.occ t2 = false ∧ sm = ⟨s, t2, none⟩)) := by
  unfold pawnPushes
  cases hst : step s 0 (fwd c) with
  | none => simp
  | some t =>
    simp only [Option.some.injEq, exists_eq_left']
    by_cases ho : p.occ t = true
    · simp [ho]
    · have ho' : p.occ t = false := by simpa using ho
      rw [if_neg ho, List.mem_append]
      simp only [ho', true_and]
      apply or_congr Iff.rfl
      by_cases hr : rankOf s = startRank c
      · rw [if_pos hr]
        simp only [hr, true_and]
        cases hst2 : step t 0 (fwd c) with
        | none => simp
        | some t2 =>
          simp only [Option.some.injEq, exists_eq_left']
          by_cases ho2 : p.occ t2 = true
          · simp [ho2]
          · have ho2' : p.occ t2 = false := by simpa using ho2
            rw [if_neg ho2]
            simp [ho2']
      · rw [if_neg hr]; simp [hr]

/-- Pawn captures: an enemy piece on a pawn target (with promotion expansion), or the empty
    en-passant target. -/
theorem mem_pawnCaps {p : Pos} {c : Spec.Color} {s : Sq} {sm : SMove} :
    sm ∈ pawnCaps p c s ↔
      ∃ t, t ∈ pawnTargets c s ∧
        (((∃ k, p.at t = some (c.opp, k)) ∧ sm ∈ withPromo c s t) ∨
         (p.at t = none ∧ p.ep = some t ∧ sm = ⟨s, t, none⟩)) := by
  unfold pawnCaps
  simp only [List.mem_flatMap]
  apply exists_congr
  intro t
  apply and_congr Iff.rfl
  cases hat : p.at t with
  | none =>
    by_cases he : p.ep = some t
    · simp [he]
    · simp [he]
  | some x =>
    obtain ⟨c2, k⟩ := x
    by_cases hc : c2 = c.opp
    · subst hc; simp
    · simp [hc]

end Morlock.Proofs.Gen
