import Morlock.Proofs.FltMono
/-! # `rnd` is monotone, preserves the sign, and keeps representable bounds -/
namespace Morlock.Model.Flt

theorem rnd_sign (f : Fmt) {x y : Q} (h : rnd f x = some y) :
    (0 ≤ x.num → 0 ≤ y.num) ∧ (x.num ≤ 0 → y.num ≤ 0) := by
  by_cases h0 : x.num = 0
  · rw [rnd_of_num_eq_zero f h0] at h
    have : y = ⟨0, 1⟩ := by simpa using h.symm
    subst this; simp
  · obtain ⟨m, e, _, hy⟩ := rnd_eq_some f h0 h
    by_cases hneg : x.num < 0
    · have hd : decide (x.num < 0) = true := by simp [hneg]
      rw [hd] at hy; subst hy
      obtain ⟨_, _, hs, hz⟩ := ofME_spec true m e
      refine ⟨fun _ => by omega, fun _ => ?_⟩
      rcases Nat.eq_zero_or_pos m with hm | hm
      · have := hz.mpr hm; omega
      · have := hs.mpr ⟨rfl, hm⟩; omega
    · have hd : decide (x.num < 0) = false := by simp [hneg]
      rw [hd] at hy; subst hy
      obtain ⟨_, _, hs, hz⟩ := ofME_spec false m e
      simp only [Bool.false_eq_true, false_and, iff_false] at hs
      exact ⟨fun _ => by omega, fun _ => by omega⟩

/-- the value of positive pairs, compared -/
theorem ofME_le_of_ple {m m' : Nat} {e e' : Int} (h : m * pn e * pd e' ≤ m' * pn e' * pd e) :
    Q.Le (ofME false m e) (ofME false m' e') := by
  obtain ⟨hc, hv, hs, _⟩ := ofME_spec false m e
  obtain ⟨hc', hv', hs', _⟩ := ofME_spec false m' e'
  generalize ofME false m e = v at *
  generalize ofME false m' e' = v' at *
  have hn : 0 ≤ v.num := by simp at hs; exact hs
  have hn' : 0 ≤ v'.num := by simp at hs'; exact hs'
  have key : v.num.natAbs * v'.den ≤ v'.num.natAbs * v.den := by
    have : v.num.natAbs * v'.den * (pd e * pd e') ≤ v'.num.natAbs * v.den * (pd e * pd e') := by
      calc v.num.natAbs * v'.den * (pd e * pd e') = v.num.natAbs * pd e * v'.den * pd e' := by grind
        _ = m * pn e * v.den * v'.den * pd e' := by rw [hv]
        _ = m * pn e * pd e' * (v.den * v'.den) := by grind
        _ ≤ m' * pn e' * pd e * (v.den * v'.den) := Nat.mul_le_mul_right _ h
        _ = m' * pn e' * v'.den * v.den * pd e := by grind
        _ = v'.num.natAbs * pd e' * v.den * pd e := by rw [hv']
        _ = v'.num.natAbs * v.den * (pd e * pd e') := by grind
    exact Nat.le_of_mul_le_mul_right this (Nat.mul_pos (pd_pos _) (pd_pos _))
  unfold Q.Le
  have e1 : (v.num.natAbs : Int) = v.num := Int.natAbs_of_nonneg hn
  have e2 : (v'.num.natAbs : Int) = v'.num := Int.natAbs_of_nonneg hn'
  have : ((v.num.natAbs * v'.den : Nat) : Int) ≤ ((v'.num.natAbs * v.den : Nat) : Int) := Int.ofNat_le.mpr key
  simpa [Int.natCast_mul, e1, e2] using this

theorem rnd_mono_pos (f : Fmt) (wf : f.WF) {x y x' y' : Q} (hx : 0 < x.den) (hy : 0 < y.den) (hpos : 0 < x.num)
    (hle : Q.Le x y) (h : rnd f x = some x') (h' : rnd f y = some y') : Q.Le x' y' := by
  unfold Q.Le at hle
  have hxd : (0 : Int) < x.den := by omega
  have hyd : (0 : Int) < y.den := by omega
  have hypos : 0 < y.num := by
    rcases Int.lt_or_le 0 y.num with h0 | h0
    · exact h0
    · have := Int.mul_pos hpos hyd
      have := Int.mul_nonpos_of_nonpos_of_nonneg h0 (Int.le_of_lt hxd)
      omega
  obtain ⟨m, e, hr, rfl⟩ := rnd_eq_some f (by omega) h
  obtain ⟨m', e', hr', rfl⟩ := rnd_eq_some f (by omega) h'
  have s1 : ¬ (x.num < 0) := by omega
  have s2 : ¬ (y.num < 0) := by omega
  simp only [s1, s2, decide_false]
  apply ofME_le_of_ple
  apply rndPos_mono f wf.p_pos (a := x.num.natAbs) (b := x.den) (a' := y.num.natAbs) (b' := y.den)
    (by omega) hx (by omega) hy ?_ hr hr'
  have e1 : (x.num.natAbs : Int) = x.num := by omega
  have e2 : (y.num.natAbs : Int) = y.num := by omega
  have : ((x.num.natAbs * y.den : Nat) : Int) ≤ ((y.num.natAbs * x.den : Nat) : Int) := by
    simp only [Int.natCast_mul, e1, e2]; exact hle
  exact Int.ofNat_le.mp this

/-- `rnd` is monotone -/
theorem rnd_mono (f : Fmt) (wf : f.WF) {x y x' y' : Q} (hx : 0 < x.den) (hy : 0 < y.den)
    (hle : Q.Le x y) (h : rnd f x = some x') (h' : rnd f y = some y') : Q.Le x' y' := by
  have hxd : (0 : Int) < x.den := by omega
  have hyd : (0 : Int) < y.den := by omega
  have hcx := (rnd_canon f h).1
  have hcy := (rnd_canon f h').1
  rcases Int.lt_trichotomy x.num 0 with hneg | hzero | hpos
  · rcases Int.lt_or_le y.num 0 with hyneg | hynn
    · -- both negative: mirror
      have h1 : rnd f y.neg = some y'.neg := by rw [rnd_neg, h']; rfl
      have h2 : rnd f x.neg = some x'.neg := by rw [rnd_neg, h]; rfl
      have := rnd_mono_pos f wf (x := y.neg) (y := x.neg) hy hx (by simp [Q.neg]; omega) hle.neg h1 h2
      have := this.neg
      rwa [Q.neg_neg, Q.neg_neg] at this
    · have s1 := (rnd_sign f h).2 (by omega)
      have s2 := (rnd_sign f h').1 hynn
      unfold Q.Le
      have a1 : x'.num * y'.den ≤ 0 := Int.mul_nonpos_of_nonpos_of_nonneg s1 (Int.natCast_nonneg _)
      have a2 : 0 ≤ y'.num * x'.den := Int.mul_nonneg s2 (Int.natCast_nonneg _)
      omega
  · have hy0 : 0 ≤ y.num := by
      unfold Q.Le at hle
      rw [hzero] at hle
      simp only [Int.zero_mul] at hle
      rcases Int.lt_or_le y.num 0 with h0 | h0
      · have := Int.mul_neg_of_neg_of_pos h0 hxd; omega
      · exact h0
    have s1 := (rnd_sign f h).2 (by omega)
    have s2 := (rnd_sign f h').1 hy0
    unfold Q.Le
    have a1 : x'.num * y'.den ≤ 0 := Int.mul_nonpos_of_nonpos_of_nonneg s1 (Int.natCast_nonneg _)
    have a2 : 0 ≤ y'.num * x'.den := Int.mul_nonneg s2 (Int.natCast_nonneg _)
    omega
  · exact rnd_mono_pos f wf hx hy hpos hle h h'

/-- below (in absolute value) a number that rounds to a finite value, everything rounds to a finite value -/
theorem rnd_isSome_of_abs_le (f : Fmt) (wf : f.WF) {x B : Q} (hx : 0 < x.den) (hB : 0 < B.den)
    (hle : x.num.natAbs * B.den ≤ B.num.natAbs * x.den) (h : (rnd f B).isSome) : (rnd f x).isSome := by
  by_cases h0 : x.num = 0
  · rw [rnd_of_num_eq_zero f h0]; rfl
  · have hB0 : B.num ≠ 0 := by
      intro c
      rw [c] at hle
      simp only [Int.natAbs_zero, Nat.zero_mul, Nat.le_zero_eq] at hle
      rcases Nat.mul_eq_zero.mp hle with h1 | h1 <;> omega
    rw [rnd_of_num_ne_zero f hB0] at h
    rw [rnd_of_num_ne_zero f h0]
    have h : (rndPos f B.num.natAbs B.den).isSome := by simpa using h
    have := rndPos_isSome_mono f wf.p_pos (a := x.num.natAbs) (b := x.den) (a' := B.num.natAbs) (b' := B.den)
      (by omega) hx (by omega) hB hle h
    simpa using this

/-- a representable bound survives rounding: `−B ≤ x ≤ B`, `B` a number of the format ⟹ `rnd x` is finite and `−B ≤ rnd x ≤ B` -/
theorem rnd_abs_le (f : Fmt) (wf : f.WF) {x B : Q} (hx : 0 < x.den) (hB : 0 < B.den) (hrep : Rep f B)
    (hlo : Q.Le B.neg x) (hhi : Q.Le x B) :
    ∃ x', rnd f x = some x' ∧ Q.Le B.neg x' ∧ Q.Le x' B := by
  obtain ⟨B', hB', heq, hcan⟩ := rnd_exact f wf hB hrep
  have hnegB : rnd f B.neg = some B'.neg := by rw [rnd_neg, hB']; rfl
  -- |x| ≤ |B|
  have habs : x.num.natAbs * B.den ≤ B.num.natAbs * x.den := by
    simp only [Q.Le, Q.neg, Int.neg_mul] at hlo hhi
    have : ((x.num.natAbs * B.den : Nat) : Int) ≤ ((B.num.natAbs * x.den : Nat) : Int) := by
      simp only [Int.natCast_mul]
      have hxd : (0 : Int) ≤ x.den := Int.natCast_nonneg _
      have hBd : (0 : Int) ≤ B.den := Int.natCast_nonneg _
      rcases Int.lt_or_le x.num 0 with hn | hn
      · have e1 : (x.num.natAbs : Int) = -x.num := by omega
        rw [e1, Int.neg_mul]
        have : B.num * x.den ≤ (B.num.natAbs : Int) * x.den :=
          Int.mul_le_mul_of_nonneg_right (by omega) hxd
        omega
      · have e1 : (x.num.natAbs : Int) = x.num := by omega
        rw [e1]
        have : B.num * x.den ≤ (B.num.natAbs : Int) * x.den :=
          Int.mul_le_mul_of_nonneg_right (by omega) hxd
        omega
    exact Int.ofNat_le.mp this
  have hsome := rnd_isSome_of_abs_le f wf hx hB habs (by rw [hB']; rfl)
  obtain ⟨x', hx'⟩ := Option.isSome_iff_exists.mp hsome
  refine ⟨x', hx', ?_, ?_⟩
  · have h1 := rnd_mono f wf (x := B.neg) (y := x) hB hx hlo hnegB hx'
    exact Q.Le.trans (y := B'.neg) hcan.1 (heq.neg.ge) h1
  · have h1 := rnd_mono f wf hx hB hhi hx' hB'
    exact Q.Le.trans hcan.1 h1 heq.le

end Morlock.Model.Flt
