import Morlock.Model.Search
import Morlock.Proofs.ABHeap
/-!
# C18: the search is a function of what the game lets it observe (congruence under simulations)

`SimN g1 g2 R`: a (depth-indexed) simulation between two abstract games. Positions related by `R n`
agree on everything the search reads (`isDraw`, `ply`, `moves`, `inCheck`, `eval`); a position related at
index `n + 1` has, for every generated move, either no child on both sides or children related at index `n`.
(`Sim` is the un-indexed special case.) The hash is *not* part of the observations.

`TTInv g1 g2 R I`: what is needed of the transposition table: under the invariant `I` of the table, related
positions read the same entry and write the same table. Two instances:
* `ttInv_empty`: `I t := t.slots.size = 0` ("no table") - nothing at all is asked of the hashes;
* `ttInv_hash`: `I t := True` - the games agree on the hashes of related positions.

`alphabeta_congr` / `quiesce_congr` / `quietSearch_congr` / `alphaBetaSearch_congr`: under a simulation the
two searches return literally the same triple (score, PV, final state) - by induction on the depth with the
loop lemmas `abLoop_congr`, `quiesceLoop_congr`.
-/
namespace Morlock.Proofs.Det
open Morlock Morlock.Model Morlock.Model.Score

/-- Both `none`, or both `some` and related. -/
def ORel {α β : Type} (R : α → β → Prop) : Option α → Option β → Prop
  | none, none => True
  | some a, some b => R a b
  | _, _ => False

theorem ORel.imp {α β : Type} {R S : α → β → Prop} {o1 : Option α} {o2 : Option β} (h : ORel R o1 o2)
    (hi : ∀ a b, o1 = some a → o2 = some b → R a b → S a b) : ORel S o1 o2 := by
  cases o1 <;> cases o2 <;> simp only [ORel] at h ⊢
  exact hi _ _ rfl rfl h

variable {P1 P2 : Type}

/-- A depth-indexed simulation: `R n` relates positions from which `n` more plies may be explored. -/
structure SimN (g1 : Game P1) (g2 : Game P2) (R : Nat → P1 → P2 → Prop) : Prop where
  isDraw : ∀ {n p1 p2}, R n p1 p2 → g1.isDraw p1 = g2.isDraw p2
  ply : ∀ {n p1 p2}, R n p1 p2 → g1.ply p1 = g2.ply p2
  moves : ∀ {n p1 p2}, R n p1 p2 → g1.moves p1 = g2.moves p2
  inCheck : ∀ {n p1 p2}, R n p1 p2 → g1.inCheck p1 = g2.inCheck p2
  eval : ∀ {n p1 p2}, R n p1 p2 → g1.eval p1 = g2.eval p2
  push : ∀ {n p1 p2} (m : Move), R (n + 1) p1 p2 → m ∈ g1.moves p1 → ORel (R n) (g1.push p1 m) (g2.push p2 m)

/-- A simulation: related positions agree on what the search observes, and every generated move leads to
related positions (or is refused on both sides). -/
structure Sim (g1 : Game P1) (g2 : Game P2) (R : P1 → P2 → Prop) : Prop where
  isDraw : ∀ {p1 p2}, R p1 p2 → g1.isDraw p1 = g2.isDraw p2
  ply : ∀ {p1 p2}, R p1 p2 → g1.ply p1 = g2.ply p2
  moves : ∀ {p1 p2}, R p1 p2 → g1.moves p1 = g2.moves p2
  inCheck : ∀ {p1 p2}, R p1 p2 → g1.inCheck p1 = g2.inCheck p2
  eval : ∀ {p1 p2}, R p1 p2 → g1.eval p1 = g2.eval p2
  push : ∀ {p1 p2} (m : Move), R p1 p2 → m ∈ g1.moves p1 → ORel R (g1.push p1 m) (g2.push p2 m)

theorem Sim.simN {g1 : Game P1} {g2 : Game P2} {R : P1 → P2 → Prop} (h : Sim g1 g2 R) :
    SimN g1 g2 (fun _ => R) :=
  ⟨h.isDraw, h.ply, h.moves, h.inCheck, h.eval, h.push⟩

/-- What the congruence needs of the table: under the table invariant `I`, related positions read the same
entry and write the same table, and writing keeps `I`. -/
structure TTInv (g1 : Game P1) (g2 : Game P2) (R : Nat → P1 → P2 → Prop) (I : TTState → Prop) : Prop where
  read : ∀ {n p1 p2 t}, R n p1 p2 → I t → t.read (g1.hash p1) = t.read (g2.hash p2)
  write : ∀ {n p1 p2 t} (bound : Nat) (ply depth : Int) (score : Score) (m : Move), R n p1 p2 → I t →
    (t.write (g1.hash p1) bound ply depth score m).1 = (t.write (g2.hash p2) bound ply depth score m).1
  keep : ∀ {t} (h bound : Nat) (ply depth : Int) (score : Score) (m : Move), I t →
    I (t.write h bound ply depth score m).1

theorem write_size (t : TTState) (h bound : Nat) (ply depth : Int) (score : Score) (m : Move) :
    (t.write h bound ply depth score m).1.slots.size = t.slots.size := by
  unfold TTState.write
  split
  · rfl
  · split
    · rfl
    · simp only
      split
      · rfl
      · simp

theorem write_empty {t : TTState} (ht : t.slots.size = 0) (h bound : Nat) (ply depth : Int) (score : Score)
    (m : Move) : (t.write h bound ply depth score m).1 = t := by
  unfold TTState.write
  rw [if_pos ht]

theorem read_empty {t : TTState} (ht : t.slots.size = 0) (h : Nat) : t.read h = none := by
  unfold TTState.read
  rw [if_pos ht]

/-- No table: the hashes are never used for anything observable. -/
theorem ttInv_empty (g1 : Game P1) (g2 : Game P2) (R : Nat → P1 → P2 → Prop) :
    TTInv g1 g2 R (fun t => t.slots.size = 0) :=
  ⟨fun _ ht => by rw [read_empty ht, read_empty ht],
   fun _ _ _ _ _ _ ht => by rw [write_empty ht, write_empty ht],
   fun _ _ _ _ _ _ ht => by rw [write_size]; exact ht⟩

/-- Any table, if related positions carry the same hash. -/
theorem ttInv_hash {g1 : Game P1} {g2 : Game P2} {R : Nat → P1 → P2 → Prop}
    (hh : ∀ {n p1 p2}, R n p1 p2 → g1.hash p1 = g2.hash p2) : TTInv g1 g2 R (fun _ => True) :=
  ⟨fun h _ => by rw [hh h], fun _ _ _ _ _ h _ => by rw [hh h], fun _ _ _ _ _ _ _ => trivial⟩

/-- Depth of the tree below a leaf of the main search. -/
def leafDepth {P : Type} : LeafEval P → Nat
  | .static => 0
  | .quiescence _ fuel => fuel

/-- The explorations agree on related positions. -/
def ExRel (R : Nat → P1 → P2 → Prop) (ex1 : P1 → Explore) (ex2 : P2 → Explore) : Prop :=
  ∀ n p1 p2, R n p1 p2 → ex1 p1 = ex2 p2

/-- A board-independent exploration agrees with itself on all positions. -/
theorem ExRel.const (R : Nat → P1 → P2 → Prop) (e : Explore) : ExRel R (constEx e) (constEx e) := fun _ _ _ _ => rfl

/-- Every exploration agrees with itself on equal positions. -/
theorem ExRel.eq (ex : P1 → Explore) : ExRel (fun _ p q => p = q) ex ex := fun _ _ _ h => h ▸ rfl

/-- The leaf evaluations are of the same kind, with the same fuel and explorations that agree on related positions. -/
inductive LeRel (R : Nat → P1 → P2 → Prop) : LeafEval P1 → LeafEval P2 → Prop
  | static : LeRel R .static .static
  | quiescence {ex1 : P1 → Explore} {ex2 : P2 → Explore} (fuel : Nat) (h : ExRel R ex1 ex2) :
      LeRel R (.quiescence ex1 fuel) (.quiescence ex2 fuel)

theorem LeRel.leafDepth_eq {R : Nat → P1 → P2 → Prop} {le1 : LeafEval P1} {le2 : LeafEval P2} (h : LeRel R le1 le2) :
    leafDepth le1 = leafDepth le2 := by
  cases h <;> rfl

theorem LeRel.eq (le : LeafEval P1) : LeRel (fun _ p q => p = q) le le := by
  cases le with
  | static => exact .static
  | quiescence ex fuel => exact .quiescence fuel (ExRel.eq ex)

/-- A leaf evaluation whose exploration (if any) does not depend on the board - the old move-determined case. -/
inductive LeafEvalC
  | static
  | quiescence (ex : Explore) (fuel : Nat)

/-- … as a leaf evaluation of any game. -/
def LeafEvalC.at {P : Type} : LeafEvalC → LeafEval P
  | .static => .static
  | .quiescence ex fuel => .quiescence (constEx ex) fuel

theorem LeRel.at (R : Nat → P1 → P2 → Prop) (le : LeafEvalC) : LeRel R (le.at (P := P1)) (le.at (P := P2)) := by
  cases le with
  | static => exact .static
  | quiescence ex fuel => exact .quiescence fuel (ExRel.const R ex)

/-- What one poll reports / the state after one poll. -/
def pollC (st : SState) : Bool := (poll st).1
def pollS (st : SState) : SState := { st with polls := st.polls + 1 }

theorem poll_eq (st : SState) : poll st = (pollC st, pollS st) := rfl
@[simp] theorem pollS_tt (st : SState) : (pollS st).tt = st.tt := rfl

/-! ## quiescence -/

theorem quiesceLoop_congr (g1 : Game P1) (g2 : Game P2) (ex1 : P1 → Explore) (ex2 : P2 → Explore)
    {R' : P1 → P2 → Prop}
    (rec1 : P1 → Score → Score → SState → Score × SState) (rec2 : P2 → Score → Score → SState → Score × SState)
    (hrec : ∀ c1 c2, R' c1 c2 → ∀ a b st, rec1 c1 a b st = rec2 c2 a b st) (p1 : P1) (p2 : P2)
    (hex : ex1 p1 = ex2 p2) (beta : Score) :
    ∀ (l : List Move), (∀ m ∈ l, ORel R' (g1.push p1 m) (g2.push p2 m)) →
      ∀ (alpha : Score) (hl : Bool) (st : SState),
        quiesceLoop g1 ex1 rec1 p1 beta l alpha hl st = quiesceLoop g2 ex2 rec2 p2 beta l alpha hl st := by
  intro l
  induction l with
  | nil => intro _ alpha hl st; rfl
  | cons m rest ih =>
    intro hp alpha hl st
    have hm := hp m List.mem_cons_self
    have ih' := ih (fun x hx => hp x (List.mem_cons_of_mem _ hx))
    simp only [quiesceLoop, childOf]
    cases h1 : g1.push p1 m <;> cases h2 : g2.push p2 m <;> rw [h1, h2] at hm <;> simp only [ORel] at hm
    · exact ih' alpha hl st
    · rename_i c1 c2
      simp only [hrec c1 c2 hm, ih', hex]

theorem quiesce_congr {g1 : Game P1} {g2 : Game P2} {R : Nat → P1 → P2 → Prop} (hs : SimN g1 g2 R)
    (ex1 : P1 → Explore) (ex2 : P2 → Explore) (hex : ExRel R ex1 ex2) :
    ∀ (fuel n : Nat) (p1 : P1) (p2 : P2), R n p1 p2 → fuel ≤ n → ∀ (a b : Score) (st : SState),
      quiesce g1 ex1 fuel p1 a b st = quiesce g2 ex2 fuel p2 a b st := by
  intro fuel
  induction fuel with
  | zero => intro n p1 p2 _ _ a b st; rfl
  | succ fuel ih =>
    intro n p1 p2 h hn a b st
    obtain ⟨n', rfl⟩ : ∃ n', n = n' + 1 := ⟨n - 1, by omega⟩
    have hloop : ∀ (alpha : Score) (hl : Bool) (st : SState),
        quiesceLoop g1 ex1 (quiesce g1 ex1 fuel) p1 b (heapOrder (g1.moves p1) (ex1 p1).prio) alpha hl st =
        quiesceLoop g2 ex2 (quiesce g2 ex2 fuel) p2 b (heapOrder (g2.moves p2) (ex2 p2).prio) alpha hl st := by
      rw [← hs.moves h, ← hex _ _ _ h]
      apply quiesceLoop_congr g1 g2 ex1 ex2 (R' := R n') _ _
        (fun c1 c2 hc a b st => ih n' c1 c2 hc (by omega) a b st) p1 p2 (hex _ _ _ h)
      intro m hm
      exact hs.push m h ((ABHeap.heapOrder_perm _ _).mem_iff.mp hm)
    simp only [quiesce, hloop, hs.isDraw h, hs.eval h, hs.inCheck h]

theorem quiesceLoop_tt (g : Game P1) (ex : P1 → Explore) (rec : P1 → Score → Score → SState → Score × SState)
    (hrec : ∀ c a b st, (rec c a b st).2.tt = st.tt) (p : P1) (beta : Score) :
    ∀ (l : List Move) (alpha : Score) (hl : Bool) (st : SState),
      (quiesceLoop g ex rec p beta l alpha hl st).2.2.tt = st.tt := by
  intro l
  induction l with
  | nil => intro alpha hl st; rfl
  | cons m rest ih =>
    intro alpha hl st
    simp only [quiesceLoop, childOf]
    cases g.push p m with
    | none => exact ih alpha hl st
    | some c =>
      simp only
      split
      · split
        · exact hrec _ _ _ _
        · rw [ih]; exact hrec _ _ _ _
      · split
        · rfl
        · rw [ih]

/-- Quiescence never touches the table. -/
theorem quiesce_tt (g : Game P1) (ex : P1 → Explore) :
    ∀ (fuel : Nat) (p : P1) (a b : Score) (st : SState), (quiesce g ex fuel p a b st).2.tt = st.tt := by
  intro fuel
  induction fuel with
  | zero => intro p a b st; rfl
  | succ fuel ih =>
    intro p a b st
    have hps : (poll st).2.tt = st.tt := rfl
    simp only [quiesce]
    generalize poll st = ps at hps ⊢
    obtain ⟨c, st'⟩ := ps
    simp only at hps ⊢
    cases c with
    | true => exact hps
    | false =>
      simp only [Bool.false_eq_true, if_false]
      split
      · exact hps
      · have := quiesceLoop_tt g ex (quiesce g ex fuel) ih p b (heapOrder (g.moves p) (ex p).prio)
          (Score.max a (heuristicScore (g.eval p))) false { st' with nodes := st'.nodes + 1 }
        split <;> exact this.trans hps

theorem quietSearch_congr {g1 : Game P1} {g2 : Game P2} {R : Nat → P1 → P2 → Prop} (hs : SimN g1 g2 R)
    {le1 : LeafEval P1} {le2 : LeafEval P2} (hle : LeRel R le1 le2) {n : Nat} {p1 : P1} {p2 : P2} (h : R n p1 p2)
    (hn : leafDepth le1 ≤ n) (a b : Score)
    (st : SState) : quietSearch g1 le1 p1 a b st = quietSearch g2 le2 p2 a b st := by
  cases hle with
  | static => simp only [quietSearch, hs.eval h]
  | quiescence fuel hex => exact quiesce_congr hs _ _ hex fuel n p1 p2 h hn a b st

theorem quietSearch_tt (g : Game P1) (le : LeafEval P1) (p : P1) (a b : Score) (st : SState) :
    (quietSearch g le p a b st).2.tt = st.tt := by
  cases le with
  | static => rfl
  | quiescence ex fuel => exact quiesce_tt g ex fuel p a b st

/-! ## the main search -/

/-- The state `abEnter` hands on (either way). -/
def enterSt : Sum (Score × List Move × SState) (Move × SState) → SState
  | .inl r => r.2.2
  | .inr r => r.2

/-- `abEnter` leaves the table alone. -/
theorem abEnter_tt (g : Game P1) (rootPly : Int) (depth : Nat) (p : P1) (st : SState) :
    (enterSt (abEnter g rootPly depth p st)).tt = st.tt := by
  have hps : (poll st).2.tt = st.tt := rfl
  simp only [abEnter]
  generalize poll st = ps at hps ⊢
  obtain ⟨c, st'⟩ := ps
  simp only at hps ⊢
  cases c with
  | true => exact hps
  | false =>
    simp only [Bool.false_eq_true, if_false]
    split
    · exact hps
    · split
      · split
        · exact hps
        · exact hps
      · exact hps

theorem abEnter_congr {g1 : Game P1} {g2 : Game P2} {R : Nat → P1 → P2 → Prop} {I : TTState → Prop}
    (hs : SimN g1 g2 R) (hI : TTInv g1 g2 R I) (rootPly : Int) (depth : Nat) {n : Nat} {p1 : P1} {p2 : P2}
    (h : R n p1 p2) (st : SState) (hst : I st.tt) :
    abEnter g1 rootPly depth p1 st = abEnter g2 rootPly depth p2 st := by
  have hps : (poll st).2.tt = st.tt := rfl
  simp only [abEnter, hs.ply h, hs.isDraw h]
  generalize poll st = ps at hps ⊢
  obtain ⟨c, st'⟩ := ps
  simp only at hps ⊢
  rw [hI.read h (by rw [hps]; exact hst)]

/-- How one explored child updates `alpha` and the PV. -/
def abStep (m : Move) (alpha : Score) (pv : List Move) (r : Score × List Move × SState) : Score × List Move :=
  if alpha.less (incMate r.1).negate then ((incMate r.1).negate, m :: r.2.1) else (alpha, pv)

section eqns
variable (g : Game P1) (ex : P1 → Explore) (rec : P1 → Score → Score → SState → Score × List Move × SState)
  (p : P1) (beta : Score)

theorem abLoop_cons_none {m : Move} (h : g.push p m = none) (rest : List Move) (alpha : Score) (pv : List Move)
    (hl : Bool) (st : SState) :
    abLoop g ex rec p beta (m :: rest) alpha pv hl st = abLoop g ex rec p beta rest alpha pv hl st := by
  simp only [abLoop, childOf, h]

theorem abLoop_cons_skip {m : Move} {c : P1} (h : g.push p m = some c) (hp : (ex p).pick m = false) (rest : List Move)
    (alpha : Score) (pv : List Move) (hl : Bool) (st : SState) :
    abLoop g ex rec p beta (m :: rest) alpha pv hl st =
      if cutoff alpha beta then (alpha, pv, true, true, st) else abLoop g ex rec p beta rest alpha pv true st := by
  simp only [abLoop, childOf, h, hp, Bool.false_eq_true, if_false]

theorem abLoop_cons_pick {m : Move} {c : P1} (h : g.push p m = some c) (hp : (ex p).pick m = true) (rest : List Move)
    (alpha : Score) (pv : List Move) (hl : Bool) (st : SState) :
    abLoop g ex rec p beta (m :: rest) alpha pv hl st =
      if cutoff (abStep m alpha pv (rec c (childBound beta) (childBound alpha) st)).1 beta then
        ((abStep m alpha pv (rec c (childBound beta) (childBound alpha) st)).1,
         (abStep m alpha pv (rec c (childBound beta) (childBound alpha) st)).2, true, true,
         (rec c (childBound beta) (childBound alpha) st).2.2)
      else abLoop g ex rec p beta rest (abStep m alpha pv (rec c (childBound beta) (childBound alpha) st)).1
        (abStep m alpha pv (rec c (childBound beta) (childBound alpha) st)).2 true
        (rec c (childBound beta) (childBound alpha) st).2.2 := by
  simp only [abLoop, childOf, h, hp, if_true, abStep]
  generalize rec c (childBound beta) (childBound alpha) st = r
  obtain ⟨s, rem, st'⟩ := r
  simp only
  split <;> rfl

end eqns

theorem abLoop_inv (g : Game P1) (ex : P1 → Explore) (rec : P1 → Score → Score → SState → Score × List Move × SState)
    (I : TTState → Prop) (hrec : ∀ c a b st, I st.tt → I (rec c a b st).2.2.tt) (p : P1) (beta : Score) :
    ∀ (l : List Move) (alpha : Score) (pv : List Move) (hl : Bool) (st : SState), I st.tt →
      I (abLoop g ex rec p beta l alpha pv hl st).2.2.2.2.tt := by
  intro l
  induction l with
  | nil => intro alpha pv hl st hst; exact hst
  | cons m rest ih =>
    intro alpha pv hl st hst
    cases h : g.push p m with
    | none => rw [abLoop_cons_none g ex rec p beta h]; exact ih alpha pv hl st hst
    | some c =>
      cases hp : (ex p).pick m with
      | false =>
        rw [abLoop_cons_skip g ex rec p beta h hp]
        split
        · exact hst
        · exact ih _ _ _ _ hst
      | true =>
        rw [abLoop_cons_pick g ex rec p beta h hp]
        have hr := hrec c (childBound beta) (childBound alpha) st hst
        split
        · exact hr
        · exact ih _ _ _ _ hr

theorem abLoop_congr (g1 : Game P1) (g2 : Game P2) (ex1 : P1 → Explore) (ex2 : P2 → Explore) {R' : P1 → P2 → Prop}
    {I : TTState → Prop}
    (rec1 : P1 → Score → Score → SState → Score × List Move × SState)
    (rec2 : P2 → Score → Score → SState → Score × List Move × SState)
    (hrec : ∀ c1 c2, R' c1 c2 → ∀ a b st, I st.tt → rec1 c1 a b st = rec2 c2 a b st)
    (hinv : ∀ c a b st, I st.tt → I (rec1 c a b st).2.2.tt) (p1 : P1) (p2 : P2) (hex : ex1 p1 = ex2 p2)
    (beta : Score) :
    ∀ (l : List Move), (∀ m ∈ l, ORel R' (g1.push p1 m) (g2.push p2 m)) →
      ∀ (alpha : Score) (pv : List Move) (hl : Bool) (st : SState), I st.tt →
        abLoop g1 ex1 rec1 p1 beta l alpha pv hl st = abLoop g2 ex2 rec2 p2 beta l alpha pv hl st := by
  intro l
  induction l with
  | nil => intro _ alpha pv hl st _; rfl
  | cons m rest ih =>
    intro hp alpha pv hl st hst
    have hm := hp m List.mem_cons_self
    have ih' := ih (fun x hx => hp x (List.mem_cons_of_mem _ hx))
    cases h1 : g1.push p1 m <;> cases h2 : g2.push p2 m <;> rw [h1, h2] at hm <;> simp only [ORel] at hm
    · rw [abLoop_cons_none g1 ex1 rec1 p1 beta h1, abLoop_cons_none g2 ex2 rec2 p2 beta h2]
      exact ih' alpha pv hl st hst
    · rename_i c1 c2
      cases hpick : (ex1 p1).pick m with
      | false =>
        rw [abLoop_cons_skip g1 ex1 rec1 p1 beta h1 hpick, abLoop_cons_skip g2 ex2 rec2 p2 beta h2 (hex ▸ hpick),
          ih' _ _ _ _ hst]
      | true =>
        rw [abLoop_cons_pick g1 ex1 rec1 p1 beta h1 hpick, abLoop_cons_pick g2 ex2 rec2 p2 beta h2 (hex ▸ hpick),
          ← hrec c1 c2 hm (childBound beta) (childBound alpha) st hst,
          ih' _ _ _ _ (hinv c1 (childBound beta) (childBound alpha) st hst)]

/-- A table invariant that writing keeps is kept by the whole search. -/
theorem alphabeta_inv (g : Game P1) (ex : P1 → Explore) (le : LeafEval P1) (rootPly : Int) (I : TTState → Prop)
    (hkeep : ∀ {t} (h bound : Nat) (ply depth : Int) (score : Score) (m : Move), I t →
      I (t.write h bound ply depth score m).1) :
    ∀ (d : Nat) (p : P1) (a b : Score) (st : SState), I st.tt → I (alphabeta g ex le rootPly d p a b st).2.2.tt := by
  intro d
  induction d with
  | zero =>
    intro p a b st hst
    have htt := abEnter_tt g rootPly 0 p st
    simp only [alphabeta]
    generalize abEnter g rootPly 0 p st = e at htt ⊢
    cases e with
    | inl r => simp only [enterSt] at htt ⊢; rw [htt]; exact hst
    | inr r =>
      obtain ⟨best, st'⟩ := r
      simp only [enterSt] at htt ⊢
      have hq := quietSearch_tt g le p a b st'
      generalize quietSearch g le p a b st' = q at hq ⊢
      obtain ⟨score, st2⟩ := q
      have hps : (poll st2).2.tt = st2.tt := rfl
      generalize poll st2 = ps at hps ⊢
      obtain ⟨c, st3⟩ := ps
      simp only at hq hps ⊢
      have h3 : I st3.tt := by rw [hps, hq, htt]; exact hst
      split
      · exact h3
      · split
        · exact hkeep _ _ _ _ _ _ h3
        · exact h3
  | succ d ih =>
    intro p a b st hst
    have htt := abEnter_tt g rootPly (d + 1) p st
    simp only [alphabeta]
    generalize abEnter g rootPly (d + 1) p st = e at htt ⊢
    cases e with
    | inl r => simp only [enterSt] at htt ⊢; rw [htt]; exact hst
    | inr r =>
      obtain ⟨best, st'⟩ := r
      simp only [enterSt] at htt ⊢
      have hL := abLoop_inv g ex (alphabeta g ex le rootPly d) I ih p b
        (heapOrder (g.moves p) (firstPrio best (ex p).prio)) a [] false { st' with nodes := st'.nodes + 1 }
        (by show I st'.tt; rw [htt]; exact hst)
      generalize abLoop g ex (alphabeta g ex le rootPly d) p b (heapOrder (g.moves p) (firstPrio best (ex p).prio)) a []
        false { st' with nodes := st'.nodes + 1 } = L at hL ⊢
      obtain ⟨alpha, pv, hasLegal, wasCut, st2⟩ := L
      have hps : (poll st2).2.tt = st2.tt := rfl
      generalize poll st2 = ps at hps ⊢
      obtain ⟨c, st3⟩ := ps
      simp only at hL hps ⊢
      have h3 : I st3.tt := by rw [hps]; exact hL
      split
      · exact h3
      · split
        · exact h3
        · split
          · exact hkeep _ _ _ _ _ _ h3
          · exact h3

/-- **Congruence of the main search.** -/
theorem alphabeta_congr {g1 : Game P1} {g2 : Game P2} {R : Nat → P1 → P2 → Prop} {I : TTState → Prop}
    (hs : SimN g1 g2 R) (hI : TTInv g1 g2 R I) {ex1 : P1 → Explore} {ex2 : P2 → Explore} (hex : ExRel R ex1 ex2)
    {le1 : LeafEval P1} {le2 : LeafEval P2} (hle : LeRel R le1 le2) (rootPly : Int) :
    ∀ (d n : Nat) (p1 : P1) (p2 : P2), R n p1 p2 → d + leafDepth le1 ≤ n → ∀ (a b : Score) (st : SState), I st.tt →
      alphabeta g1 ex1 le1 rootPly d p1 a b st = alphabeta g2 ex2 le2 rootPly d p2 a b st := by
  intro d
  induction d with
  | zero =>
    intro n p1 p2 h hn a b st hst
    have htt := abEnter_tt g2 rootPly 0 p2 st
    simp only [alphabeta]
    rw [abEnter_congr hs hI rootPly 0 h st hst]
    generalize abEnter g2 rootPly 0 p2 st = e at htt ⊢
    cases e with
    | inl r => rfl
    | inr r =>
      obtain ⟨best, st'⟩ := r
      simp only [enterSt] at htt ⊢
      rw [quietSearch_congr hs hle h (by omega) a b st', hs.ply h]
      have hq := quietSearch_tt g2 le2 p2 a b st'
      generalize quietSearch g2 le2 p2 a b st' = q at hq ⊢
      obtain ⟨score, st2⟩ := q
      have hps : (poll st2).2.tt = st2.tt := rfl
      generalize poll st2 = ps at hps ⊢
      obtain ⟨c, st3⟩ := ps
      simp only at hq hps ⊢
      have h3 : I st3.tt := by rw [hps, hq, htt]; exact hst
      rw [hI.write _ _ _ _ _ h h3]
  | succ d ih =>
    intro n p1 p2 h hn a b st hst
    obtain ⟨n', rfl⟩ : ∃ n', n = n' + 1 := ⟨n - 1, by omega⟩
    have htt := abEnter_tt g2 rootPly (d + 1) p2 st
    have hloop : ∀ (prio : Move → Int) (alpha : Score) (pv : List Move) (hl : Bool) (st : SState), I st.tt →
        abLoop g1 ex1 (alphabeta g1 ex1 le1 rootPly d) p1 b (heapOrder (g1.moves p1) prio) alpha pv hl st =
        abLoop g2 ex2 (alphabeta g2 ex2 le2 rootPly d) p2 b (heapOrder (g2.moves p2) prio) alpha pv hl st := by
      intro prio
      rw [← hs.moves h]
      apply abLoop_congr g1 g2 ex1 ex2 (R' := R n') _ _
        (fun c1 c2 hc a b st hst => ih n' c1 c2 hc (by omega) a b st hst)
        (alphabeta_inv g1 ex1 le1 rootPly I hI.keep d) p1 p2 (hex _ _ _ h)
      intro m hm
      exact hs.push m h ((ABHeap.heapOrder_perm _ _).mem_iff.mp hm)
    simp only [alphabeta]
    rw [abEnter_congr hs hI rootPly (d + 1) h st hst]
    generalize abEnter g2 rootPly (d + 1) p2 st = e at htt ⊢
    cases e with
    | inl r => rfl
    | inr r =>
      obtain ⟨best, st'⟩ := r
      simp only [enterSt] at htt ⊢
      have h1 : I ({ st' with nodes := st'.nodes + 1 } : SState).tt := by show I st'.tt; rw [htt]; exact hst
      rw [hloop _ _ _ _ _ h1, hs.inCheck h, hs.ply h, hex _ _ _ h]
      have hL := abLoop_inv g2 ex2 (alphabeta g2 ex2 le2 rootPly d) I (alphabeta_inv g2 ex2 le2 rootPly I hI.keep d) p2 b
        (heapOrder (g2.moves p2) (firstPrio best (ex2 p2).prio)) a [] false { st' with nodes := st'.nodes + 1 } h1
      generalize abLoop g2 ex2 (alphabeta g2 ex2 le2 rootPly d) p2 b (heapOrder (g2.moves p2) (firstPrio best (ex2 p2).prio)) a []
        false { st' with nodes := st'.nodes + 1 } = L at hL ⊢
      obtain ⟨alpha, pv, hasLegal, wasCut, st2⟩ := L
      have hps : (poll st2).2.tt = st2.tt := rfl
      generalize poll st2 = ps at hps ⊢
      obtain ⟨c, st3⟩ := ps
      simp only at hL hps ⊢
      have h3 : I st3.tt := by rw [hps]; exact hL
      rw [hI.write _ _ _ _ _ h h3]

/-- **Congruence of `AlphaBeta.Search`.** -/
theorem alphaBetaSearch_congr {g1 : Game P1} {g2 : Game P2} {R : Nat → P1 → P2 → Prop} {I : TTState → Prop}
    (hs : SimN g1 g2 R) (hI : TTInv g1 g2 R I) {ex1 : P1 → Explore} {ex2 : P2 → Explore} (hex : ExRel R ex1 ex2)
    {le1 : LeafEval P1} {le2 : LeafEval P2} (hle : LeRel R le1 le2) {n : Nat} {p1 : P1} {p2 : P2}
    (h : R n p1 p2) (d : Nat) (hn : d + leafDepth le1 ≤ n) (a b : Score) (st : SState) (hst : I st.tt) :
    alphaBetaSearch g1 ex1 le1 p1 d a b st = alphaBetaSearch g2 ex2 le2 p2 d a b st := by
  have := alphabeta_congr hs hI hex hle (g2.ply p2) d n p1 p2 h hn (if a.isInvalid then negInfScore else a)
    (if b.isInvalid then infScore else b) { st with nodes := 0 } hst
  simp only [alphaBetaSearch, hs.ply h, this]

end Morlock.Proofs.Det
