import Morlock.Proofs.AttackScan
/-!
# The rotated-bitboard invariant

`RotInv occ r`: `r.rot` is the occupancy itself and each rotated board has bit `T[sq]` set iff
bit `sq` of the occupancy is set (`T` the generated table), with nothing set at or above bit 64.
`newRotated` establishes it; `Rotated.xor` preserves it (the tables are injective into `0..63`).
-/
namespace Morlock.Proofs.Attack
open Morlock Morlock.Model

/-- `tbl` maps `0..63` injectively into `0..63`. -/
def tblOK (tbl : Nat → Nat) : Bool :=
  allBelow 64 fun a => decide (tbl a < 64) && allBelow 64 fun b => decide (tbl a = tbl b → a = b)

theorem tblOK_lt {tbl : Nat → Nat} (h : tblOK tbl = true) {a : Nat} (ha : a < 64) : tbl a < 64 := by
  have := allBelow_spec h a ha
  simp only [Bool.and_eq_true, decide_eq_true_eq] at this
  exact this.1

theorem tblOK_inj {tbl : Nat → Nat} (h : tblOK tbl = true) {a b : Nat} (ha : a < 64) (hb : b < 64)
    (e : tbl a = tbl b) : a = b := by
  have := allBelow_spec h a ha
  simp only [Bool.and_eq_true, decide_eq_true_eq] at this
  have := allBelow_spec this.2 b hb
  simp only [decide_eq_true_eq] at this
  exact this e

theorem tblOK_id : tblOK id = true := by decide +kernel
/-- `Gen.rot90` is an injective map `0..63 → 0..63`. -/
theorem tblOK_90 : tblOK t90 = true := by decide +kernel
/-- `Gen.rot45L` is an injective map `0..63 → 0..63`. -/
theorem tblOK_45L : tblOK t45L = true := by decide +kernel
/-- `Gen.rot45R` is an injective map `0..63 → 0..63`. -/
theorem tblOK_45R : tblOK t45R = true := by decide +kernel

/-- One rotated board `x` mirrors the first `n` squares of `occ` through `tbl`. -/
def Mirror (tbl : Nat → Nat) (n occ x : Nat) : Prop :=
  x < 2 ^ 64 ∧ ∀ s, s < 64 → x.testBit (tbl s) = (decide (s < n) && occ.testBit s)

theorem mirror_zero (tbl : Nat → Nat) (occ : Nat) : Mirror tbl 0 occ 0 := by
  refine ⟨by decide, ?_⟩
  intro s _; simp

/-- One step of the `NewRotatedBitboard` loop on one board. -/
theorem mirror_step {tbl : Nat → Nat} (ht : tblOK tbl = true) {n occ x : Nat} (hn : n < 64)
    (h : Mirror tbl n occ x) :
    Mirror tbl (n + 1) occ (if occ.testBit n then x ^^^ bitMask (tbl n) else x) := by
  obtain ⟨hlt, hb⟩ := h
  have htn : tbl n < 64 := tblOK_lt ht hn
  by_cases ho : occ.testBit n = true
  · rw [if_pos ho]
    refine ⟨Nat.xor_lt_two_pow hlt (bitMask_lt htn), ?_⟩
    intro s hs
    rw [xor_bitMask_testBit _ _ htn, hb s hs]
    by_cases e : s = n
    · subst e; simp [ho]
    · have : tbl s ≠ tbl n := fun c => e (tblOK_inj ht hs hn c)
      have h1 : decide (s < n + 1) = decide (s < n) := by
        apply decide_eq_decide.mpr; omega
      simp [this, h1]
  · rw [if_neg ho]
    refine ⟨hlt, ?_⟩
    intro s hs
    rw [hb s hs]
    by_cases e : s = n
    · subst e; simp [ho]
    · have h1 : decide (s < n + 1) = decide (s < n) := by
        apply decide_eq_decide.mpr; omega
      rw [h1]

/-- Flipping square `sq` of the occupancy and bit `tbl sq` of the rotated board keeps them mirrored. -/
theorem mirror_xor {tbl : Nat → Nat} (ht : tblOK tbl = true) {occ x sq : Nat} (hsq : sq < 64)
    (h : Mirror tbl 64 occ x) : Mirror tbl 64 (occ ^^^ bitMask sq) (x ^^^ bitMask (tbl sq)) := by
  obtain ⟨hlt, hb⟩ := h
  have htn : tbl sq < 64 := tblOK_lt ht hsq
  refine ⟨Nat.xor_lt_two_pow hlt (bitMask_lt htn), ?_⟩
  intro s hs
  rw [xor_bitMask_testBit _ _ htn, xor_bitMask_testBit _ _ hsq, hb s hs]
  have hd : decide (s < 64) = true := by simp [hs]
  by_cases e : s = sq
  · subst e; simp [hd]
  · have : tbl s ≠ tbl sq := fun c => e (tblOK_inj ht hs hsq c)
    simp [this, e, hd]

/-- The rotated-bitboard invariant relative to the plain occupancy `occ`. -/
structure RotInv (occ : Nat) (r : Rotated) : Prop where
  occ_lt : occ < 2 ^ 64
  rot : r.rot = occ
  lt90 : r.rot90 < 2 ^ 64
  lt45L : r.rot45L < 2 ^ 64
  lt45R : r.rot45R < 2 ^ 64
  bit90 : ∀ s, s < 64 → r.rot90.testBit (Gen.rot90[s]!) = occ.testBit s
  bit45L : ∀ s, s < 64 → r.rot45L.testBit (Gen.rot45L[s]!) = occ.testBit s
  bit45R : ∀ s, s < 64 → r.rot45R.testBit (Gen.rot45R[s]!) = occ.testBit s

/-- All four boards mirror the first `n` squares. -/
def Mirror4 (n occ : Nat) (r : Rotated) : Prop :=
  Mirror id n occ r.rot ∧ Mirror t90 n occ r.rot90 ∧ Mirror t45L n occ r.rot45L ∧ Mirror t45R n occ r.rot45R

theorem mirror_full {tbl : Nat → Nat} {occ x : Nat} (h : Mirror tbl 64 occ x) :
    ∀ s, s < 64 → x.testBit (tbl s) = occ.testBit s := by
  intro s hs
  rw [h.2 s hs]; simp [hs]

theorem mirror_of_full {tbl : Nat → Nat} {occ x : Nat} (hx : x < 2 ^ 64)
    (h : ∀ s, s < 64 → x.testBit (tbl s) = occ.testBit s) : Mirror tbl 64 occ x := by
  refine ⟨hx, ?_⟩
  intro s hs
  rw [h s hs]; simp [hs]

theorem eq_of_mirror_id {occ x : Nat} (hocc : occ < 2 ^ 64) (h : Mirror id 64 occ x) : x = occ := by
  apply Nat.eq_of_testBit_eq
  intro i
  by_cases hi : i < 64
  · exact mirror_full h i hi
  · have h64 : (2 : Nat) ^ 64 ≤ 2 ^ i := Nat.pow_le_pow_right (by decide) (by omega)
    rw [Nat.testBit_lt_two_pow (Nat.lt_of_lt_of_le h.1 h64),
      Nat.testBit_lt_two_pow (Nat.lt_of_lt_of_le hocc h64)]

theorem rotInv_of_mirror4 {occ : Nat} {r : Rotated} (hocc : occ < 2 ^ 64) (h : Mirror4 64 occ r) :
    RotInv occ r :=
  { occ_lt := hocc
    rot := eq_of_mirror_id hocc h.1
    lt90 := h.2.1.1
    lt45L := h.2.2.1.1
    lt45R := h.2.2.2.1
    bit90 := mirror_full h.2.1
    bit45L := mirror_full h.2.2.1
    bit45R := mirror_full h.2.2.2 }

theorem mirror4_of_rotInv {occ : Nat} {r : Rotated} (h : RotInv occ r) : Mirror4 64 occ r := by
  refine ⟨mirror_of_full (h.rot ▸ h.occ_lt) ?_, mirror_of_full h.lt90 h.bit90,
    mirror_of_full h.lt45L h.bit45L, mirror_of_full h.lt45R h.bit45R⟩
  intro s _; rw [h.rot]; rfl

theorem newRotatedAux_mirror (occ : Nat) :
    ∀ fuel n r, n + fuel = 64 → Mirror4 n occ r → Mirror4 64 occ (newRotatedAux occ fuel n r) := by
  intro fuel
  induction fuel with
  | zero => intro n r hn h; have : n = 64 := by omega
            subst this; exact h
  | succ fuel ih =>
    intro n r hn h
    unfold newRotatedAux
    apply ih (n + 1) _ (by omega)
    have hn64 : n < 64 := by omega
    rw [isSet_eq _ hn64]
    obtain ⟨h0, h1, h2, h3⟩ := h
    have k0 := mirror_step tblOK_id hn64 h0
    have k1 := mirror_step tblOK_90 hn64 h1
    have k2 := mirror_step tblOK_45L hn64 h2
    have k3 := mirror_step tblOK_45R hn64 h3
    by_cases ho : occ.testBit n = true
    · simp only [ho, if_true] at k0 k1 k2 k3 ⊢
      exact ⟨k0, k1, k2, k3⟩
    · simp only [ho] at k0 k1 k2 k3 ⊢
      exact ⟨k0, k1, k2, k3⟩

/-- `NewRotatedBitboard` establishes the invariant. -/
theorem newRotated_inv (occ : Nat) (hocc : occ < 2 ^ 64) : RotInv occ (newRotated occ) := by
  apply rotInv_of_mirror4 hocc
  apply newRotatedAux_mirror occ 64 0 _ rfl
  exact ⟨mirror_zero _ _, mirror_zero _ _, mirror_zero _ _, mirror_zero _ _⟩

/-- `RotatedBitboard.Xor` preserves the invariant (the occupancy has square `sq` flipped). -/
theorem xor_inv {occ : Nat} {r : Rotated} {sq : Nat} (hsq : sq < 64) (h : RotInv occ r) :
    RotInv (occ ^^^ bitMask sq) (r.xor sq) := by
  have hocc' : occ ^^^ bitMask sq < 2 ^ 64 := Nat.xor_lt_two_pow h.occ_lt (bitMask_lt hsq)
  apply rotInv_of_mirror4 hocc'
  obtain ⟨h0, h1, h2, h3⟩ := mirror4_of_rotInv h
  exact ⟨mirror_xor tblOK_id hsq h0, mirror_xor tblOK_90 hsq h1, mirror_xor tblOK_45L hsq h2,
    mirror_xor tblOK_45R hsq h3⟩

end Morlock.Proofs.Attack
