import Morlock.Proofs.SargonSound
import Morlock.Spec.Pins
/-!
# SARGON, part 9: `FindPins` and the fronts of `FindAttackers` are the executable references of `Spec/Pins.lean`
-/
namespace Morlock.Proofs.Sargon
open Morlock Morlock.Model Morlock.Model.Sargon Morlock.Proofs.Attack Morlock.Proofs.Gen

theorem without_eq_lifted (o : Nat → Bool) (f : Nat) : without o f = Spec.lifted o f := rfl

theorem firstPiece_eq_some {o : Nat → Bool} {sq s : Nat} {df dr : Int} :
    Spec.firstPiece o sq df dr = some s ↔ (∃ pre, Spec.ray o sq df dr 8 = pre ++ [s]) ∧ o s = true := by
  unfold Spec.firstPiece
  cases h : (Spec.ray o sq df dr 8).getLast? with
  | none =>
    simp only [reduceCtorEq, false_iff, not_and]
    rintro ⟨pre, hp⟩
    rw [hp] at h; simp at h
  | some x =>
    obtain ⟨ys, hys⟩ := List.getLast?_eq_some_iff.mp h
    simp only []
    constructor
    · intro hx
      split at hx
      · cases hx; exact ⟨⟨ys, hys⟩, by assumption⟩
      · cases hx
    · rintro ⟨⟨pre, hp⟩, hos⟩
      have : x = s := by
        have := hys.symm.trans hp
        have := congrArg List.getLast? this
        simpa using this
      subst this
      simp [hos]

/-- **`PinLine` is "first man, then — with it lifted — first man again".** -/
theorem pinLine_iff_firstPiece {o : Nat → Bool} {t : Nat} (ht : t < 64) {d : Int × Int} (hd : d ∈ Spec.rookDirs ++ Spec.bishopDirs)
    {f a : Nat} :
    PinLine o t d f a ↔
      Spec.firstPiece o t d.1 d.2 = some f ∧ Spec.firstPiece (Spec.lifted o f) t d.1 d.2 = some a := by
  rw [firstPiece_eq_some, firstPiece_eq_some, ← without_eq_lifted]
  have hnd := ray_nodup (without o f) ht hd
  constructor
  · rintro ⟨pre, mid, h1, h2, _, _, hof, hoa⟩
    refine ⟨⟨⟨pre, h2⟩, hof⟩, ⟨pre ++ f :: mid, by rw [h1]; simp⟩, ?_⟩
    rw [h1] at hnd
    have hne : a ≠ f := by
      intro c
      have h3 := (List.nodup_cons.mp (List.nodup_append.mp hnd).2.1).1
      exact h3 (by rw [c]; simp)
    simp [without, hoa, hne]
  · rintro ⟨⟨⟨pre0, h2⟩, hof⟩, ⟨ys, hL⟩, hoa'⟩
    have hf : f ∈ Spec.ray o t d.1 d.2 8 := by rw [h2]; simp
    obtain ⟨pre, m, h1, hpre, h3⟩ := ray_without_mem o f hof d.1 d.2 8 t hf
    have hoa : o a = true ∧ a ≠ f := by simpa [without] using hoa'
    have haL : a ∈ Spec.ray (without o f) t d.1 d.2 8 := by rw [hL]; simp
    have hapre : a ∉ pre := fun c => by have := hpre a c; rw [hoa.1] at this; cases this
    have harest : a ∈ Spec.ray (without o f) f d.1 d.2 m := by
      rw [h3] at haL
      rcases List.mem_append.mp haL with h | h
      · exact absurd h hapre
      · rcases List.mem_cons.mp h with h | h
        · exact absurd h hoa.2
        · exact h
    obtain ⟨mid, hm1, hm2⟩ := ray_split (without o f) d.1 d.2 m f a harest hoa'
    have hfull : Spec.ray (without o f) t d.1 d.2 8 = pre ++ f :: (mid ++ [a]) := by rw [h3, hm1]
    rw [hfull] at hnd
    have hfmid : f ∉ mid := by
      have h4 := (List.nodup_cons.mp (List.nodup_append.mp hnd).2.1).1
      exact fun c => h4 (List.mem_append_left _ c)
    refine ⟨pre, mid, hfull, h1, hpre, ?_, hof, hoa.1⟩
    intro x hx
    have := hm2 x hx
    have hxf : x ≠ f := fun c => hfmid (c ▸ hx)
    simpa [without, hxf] using this

/-- the reference pin of one ray, spelled out -/
theorem pinOnRay_eq_some {q : Spec.Pos} {side : Spec.Color} {slider : Spec.Kind} {t : Nat} {d : Int × Int} {a f t' : Nat} :
    Spec.pinOnRay q side slider t d = some (a, f, t') ↔
      t' = t ∧ Spec.firstPiece q.occ t d.1 d.2 = some f ∧ (∃ k, q.at f = some (side, k)) ∧
      Spec.firstPiece (Spec.lifted q.occ f) t d.1 d.2 = some a ∧
      (q.at a = some (side.opp, .queen) ∨ q.at a = some (side.opp, slider)) := by
  unfold Spec.pinOnRay
  cases h1 : Spec.firstPiece q.occ t d.1 d.2 with
  | none => simp
  | some f0 =>
    simp only []
    cases h2 : q.at f0 with
    | none =>
      simp only [reduceCtorEq, false_iff, Option.some.injEq]
      rintro ⟨_, rfl, ⟨k, hk⟩, _⟩
      rw [h2] at hk; cases hk
    | some ck =>
      obtain ⟨c, k0⟩ := ck
      simp only []
      by_cases hc : c = side
      · subst hc
        simp only [if_true]
        cases h3 : Spec.firstPiece (Spec.lifted q.occ f0) t d.1 d.2 with
        | none =>
          simp only [reduceCtorEq, false_iff, Option.some.injEq]
          rintro ⟨_, rfl, _, h, _⟩
          rw [h3] at h; cases h
        | some a0 =>
          simp only []
          cases h4 : q.at a0 with
          | none =>
            simp only [reduceCtorEq, false_iff, Option.some.injEq]
            rintro ⟨_, rfl, _, h, h5⟩
            rw [h3] at h; cases h
            rw [h4] at h5; rcases h5 with h5 | h5 <;> cases h5
          | some ck' =>
            obtain ⟨c', k'⟩ := ck'
            simp only []
            by_cases hcond : c' = c.opp ∧ (k' = .queen ∨ k' = slider)
            · rw [if_pos hcond]
              simp only [Option.some.injEq, Prod.mk.injEq]
              constructor
              · rintro ⟨rfl, rfl, rfl⟩
                refine ⟨rfl, rfl, ⟨k0, h2⟩, h3, ?_⟩
                rw [h4, hcond.1]
                rcases hcond.2 with h | h
                · left; rw [h]
                · right; rw [h]
              · rintro ⟨rfl, hf, _, ha, _⟩
                cases hf
                rw [h3] at ha; cases ha
                exact ⟨rfl, rfl, rfl⟩
            · rw [if_neg hcond]
              simp only [reduceCtorEq, false_iff, Option.some.injEq]
              rintro ⟨_, hf, _, ha, h5⟩
              cases hf
              rw [h3] at ha; cases ha
              rw [h4] at h5
              apply hcond
              rcases h5 with h5 | h5
              · cases h5; exact ⟨rfl, Or.inl rfl⟩
              · cases h5; exact ⟨rfl, Or.inr rfl⟩
      · simp only [hc, if_false, reduceCtorEq, false_iff, Option.some.injEq]
        rintro ⟨_, hf, ⟨k, hk⟩, _⟩
        cases hf
        rw [h2] at hk; cases hk; exact hc rfl

theorem kindOf_sliderOf {line : Spec.Kind} (h : IsLine line) : kindOf (sliderOf line) = line := by
  rcases h with rfl | rfl <;> rfl

theorem kindPiece_line {line : Spec.Kind} (h : IsLine line) : kindPiece line = sliderOf line := by
  rcases h with rfl | rfl <;> rfl

/-- **`findPins_eq_specPins`.** On every represented position `FindPins(pos, side, piece)` returns exactly the pins of the
    reference: the same set of `(attacker, pinned, target)` triples. -/
theorem findPins_eq_specPins {p : Position} {b : Board} (hrep : Rep p b) (turn side : Color) {piece : Piece} (hk : piece ≠ .none)
    (a f t : Nat) :
    ({ attacker := a, pinned := f, target := t } : Pin) ∈ findPins p side piece ↔
      (a, f, t) ∈ Spec.specPins (abs p turn) (absColor side) (kindOf piece) := by
  have hocc : (abs p turn).occ = occB b := hrep.abs_occ turn
  have hat : ∀ s c K, (abs p turn).at s = some (absColor c, K) ↔ b s = some (c, kindPiece K) := hrep.abs_at_iff turn
  -- the reference, unfolded
  have hspec : (a, f, t) ∈ Spec.specPins (abs p turn) (absColor side) (kindOf piece) ↔
      t < 64 ∧ b t = some (side, piece) ∧ ∃ line, IsLine line ∧ ∃ d ∈ dirsOf line,
        Spec.pinOnRay (abs p turn) (absColor side) line t d = some (a, f, t) := by
    unfold Spec.specPins
    simp only [List.mem_flatMap, Spec.allSquares, List.mem_range]
    constructor
    · rintro ⟨t0, ht0, hmem⟩
      split at hmem
      · rename_i htk
        have hbt := (hat t0 side (kindOf piece)).mp htk
        rw [kindPiece_kindOf hk] at hbt
        rcases List.mem_append.mp hmem with h | h
        · obtain ⟨d, hd, hp⟩ := List.mem_filterMap.mp h
          have : t = t0 := (pinOnRay_eq_some.mp hp).1
          subst this
          exact ⟨ht0, hbt, .rook, Or.inl rfl, d, hd, hp⟩
        · obtain ⟨d, hd, hp⟩ := List.mem_filterMap.mp h
          have : t = t0 := (pinOnRay_eq_some.mp hp).1
          subst this
          exact ⟨ht0, hbt, .bishop, Or.inr rfl, d, hd, hp⟩
      · cases hmem
    · rintro ⟨ht, hbt, line, hline, d, hd, hp⟩
      refine ⟨t, ht, ?_⟩
      have htk : (abs p turn).at t = some (absColor side, kindOf piece) := (hat t side _).mpr (by rw [kindPiece_kindOf hk]; exact hbt)
      rw [if_pos htk]
      rcases hline with rfl | rfl
      · exact List.mem_append_left _ (List.mem_filterMap.mpr ⟨d, hd, hp⟩)
      · exact List.mem_append_right _ (List.mem_filterMap.mpr ⟨d, hd, hp⟩)
  rw [hspec]
  constructor
  · intro hpin
    obtain ⟨hbt, ⟨kp, hbp⟩, line, hline, hba, d, hd, hpl⟩ := findPins_sound hrep side hk hpin
    have ht : t < 64 := hrep.lt_of_some hbt
    refine ⟨ht, hbt, line, hline, d, hd, ?_⟩
    obtain ⟨h1, h2⟩ := (pinLine_iff_firstPiece ht (dirsOf_sub hline hd)).mp hpl
    rw [pinOnRay_eq_some, hocc]
    refine ⟨rfl, h1, ⟨kindOf kp, (hat f side _).mpr (by rw [kindPiece_kindOf (hrep.ne_none_of_some hbp)]; exact hbp)⟩, h2, ?_⟩
    rw [← Mirror.absColor_opp']
    rcases hba with h | h
    · left; exact (hat a side.opp .queen).mpr h
    · right; exact (hat a side.opp line).mpr (by rw [kindPiece_line hline]; exact h)
  · rintro ⟨ht, hbt, line, hline, d, hd, hp⟩
    rw [pinOnRay_eq_some, hocc] at hp
    obtain ⟨_, h1, ⟨kf, hkf⟩, h2, hqa⟩ := hp
    have hbp := (hat f side kf).mp hkf
    have hpl := (pinLine_iff_firstPiece ht (dirsOf_sub hline hd)).mpr ⟨h1, h2⟩
    rw [← Mirror.absColor_opp'] at hqa
    have hba : b a = some (side.opp, .queen) ∨ b a = some (side.opp, sliderOf line) := by
      rcases hqa with h | h
      · left; exact (hat a side.opp .queen).mp h
      · right; have := (hat a side.opp line).mp h; rw [kindPiece_line hline] at this; exact this
    exact findPins_complete hrep side hk hbt hbp hline hba hd hpl

/-! ## the direct attackers -/

/-- **`findAttackers_fronts_eq_specDirect`.** The squares heading the stacks of `FindAttackers(pos, pins, t, side)` are exactly
    the reference's direct attackers of `t`: the men of `side` attacking `t` by the rules and not pinned away from `t`. -/
theorem findAttackers_fronts_eq_specDirect {p : Position} {b : Board} (hrep : Rep p b) (turn : Color) (pins : Pins) {t : Nat}
    (ht : t < 64) (side : Color) {l : List Attacker} (hl : findAttackers p pins t side = .ok l) (s : Nat) :
    (∃ a ∈ l, a.front.square = s) ↔
      s ∈ Spec.specDirect (abs p turn) (fun s => isPinnedFor pins s t) t (absColor side) := by
  have hocc : (abs p turn).occ = occB b := hrep.abs_occ turn
  obtain ⟨hsound, hcomplete⟩ := findAttackers_sound hrep pins ht side hl
  unfold Spec.specDirect
  simp only [List.mem_filter, Spec.allSquares, List.mem_range]
  constructor
  · rintro ⟨a, ha, rfl⟩
    obtain ⟨hcol, hb, hatt, hpin, _⟩ := hsound a ha
    have hs := hrep.lt_of_some hb
    have hne := hrep.ne_none_of_some hb
    have hcell : (abs p turn).at a.front.square = some (absColor side, kindOf a.front.piece) :=
      (hrep.abs_at_iff turn _ side _).mpr (by rw [kindPiece_kindOf hne]; exact hb)
    refine ⟨hs, ?_⟩
    rw [hcell]
    simp only [decide_true, Bool.true_and, hpin, Bool.not_false]
    unfold Spec.attacksSq
    rcases hatt with ⟨hp, hin⟩ | ⟨hp, _, hin⟩
    · rw [hp]; simp [kindOf, hin]
    · have : kindOf a.front.piece ≠ .pawn := kindOf_ne_pawn hne hp
      rw [if_neg this, hocc]; simpa using hin
  · rintro ⟨hs, hcond⟩
    cases hcell : (abs p turn).at s with
    | none => rw [hcell] at hcond; cases hcond
    | some ck =>
      obtain ⟨c, K⟩ := ck
      rw [hcell] at hcond
      simp only [Bool.and_eq_true, decide_eq_true_eq, Bool.not_eq_true'] at hcond
      obtain ⟨⟨hc, hpin⟩, hatt⟩ := hcond
      subst hc
      have hb := (hrep.abs_at_iff turn s side K).mp hcell
      apply hcomplete s (kindPiece K) hb _ hpin
      unfold Spec.attacksSq at hatt
      by_cases hK : K = .pawn
      · subst hK
        left; exact ⟨rfl, by simpa using hatt⟩
      · right
        rw [if_neg hK, hocc] at hatt
        refine ⟨?_, ?_, ?_⟩
        · intro c; apply hK; rw [← kindOf_kindPiece K, c]; rfl
        · cases K <;> simp [kindPiece]
        · rw [kindOf_kindPiece]; simpa using hatt

end Morlock.Proofs.Sargon
