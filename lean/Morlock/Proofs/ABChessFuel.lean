import Morlock.Proofs.ABFuel
import Morlock.Proofs.ABChess
import Morlock.Proofs.ChainArena
import Morlock.Props.C05
/-!
# The fuel of the quiescence search is enough on the chess game (helper for C13)

The Go quiescence search has no fuel; `Model.quiesce` has (64 in the driver). For an exploration that picks only
captures (`Move.isCapture`: types `Capture` and `CapturePromotion`, not en passant) every explored move removes exactly
one man from the board (`menP_capture`), so from a world with `k` men the explored tree is exhausted within `k` plies
(`boardGame_qdone_men`), and `k ≤ 64` (`boardGame_qdone`).

The invariant `Inv w`: the arena is well formed (`WFWorld`), board 0 exists, and the current position of board 0
satisfies the play invariant `Chain.WFplay` (C01: all views agree, at most one king per side, rights imply king home,
en-passant target sane, the side not to move is not in check) for the side to move of board 0. It holds for a new board
on a `WFplay` position (`inv_newBoard`) and is preserved by `pushMove` of every generated move (`inv_push`) - hence at
every world the searches visit.
-/
namespace Morlock.Proofs.AB
open Morlock Morlock.Model Morlock.Model.World Morlock.Model.Score
open Morlock.Proofs Morlock.Proofs.Arena Morlock.Proofs.Gen Morlock.Proofs.Chain Morlock.Proofs.Draw

/-- an exploration that only picks captures -/
def CapturesOnly {P : Type} (ex : P → Explore) : Prop := ∀ p m, (ex p).pick m = true → m.isCapture = true

/-- The driver's quiescence exploration picks only captures. -/
theorem capturesOnly_driver {P : Type} (prio : Move → Int) :
    CapturesOnly (constEx (P := P) { prio := prio, pick := fun m => m.isCapture }) :=
  fun _ _ h => h

/-! ## `QDone` is monotone in the fuel -/

theorem QDone_mono {P : Type} (g : Game P) (ex : P → Explore) :
    ∀ fuel fuel' p, fuel ≤ fuel' → QDone g ex fuel p → QDone g ex fuel' p := by
  intro fuel
  induction fuel with
  | zero => intro fuel' p _ h; simp [QDone] at h
  | succ fuel ih =>
    intro fuel' p hle h
    obtain ⟨f', rfl⟩ : ∃ f', fuel' = f' + 1 := ⟨fuel' - 1, by omega⟩
    simp only [QDone] at h ⊢
    rcases h with h | h
    · exact Or.inl h
    · exact Or.inr fun m c hm hp hpush => ih f' c (by omega) (h m c hm hp hpush)

/-! ## the number of men on a mailbox board -/

/-- 1 for an occupied cell. -/
def occ (v : Option (Color × Piece)) : Nat := if v.isSome then 1 else 0

/-- The number of occupied squares of a mailbox board. -/
def men (b : Proofs.Board) : Nat := sumTo 64 (fun sq => occ (b sq))

theorem occ_none : occ none = 0 := rfl
theorem occ_some (x : Color × Piece) : occ (some x) = 1 := rfl

theorem sumTo_le_of_le_one (n : Nat) (f : Nat → Nat) (h : ∀ i, f i ≤ 1) : sumTo n f ≤ n := by
  induction n with
  | zero => simp [sumTo]
  | succ n ih => simp only [sumTo]; have := h n; omega

theorem men_le (b : Proofs.Board) : men b ≤ 64 :=
  sumTo_le_of_le_one 64 _ fun i => by unfold occ; split <;> omega

theorem men_upd (b : Proofs.Board) {sq : Nat} (hsq : sq < 64) (v : Option (Color × Piece)) :
    men (upd b sq v) + occ (b sq) = men b + occ v := by
  unfold men
  have := sumTo_update (n := 64) (f := fun s => occ (b s)) (g := fun s => occ (upd b sq v s)) hsq
    (fun i hi => by simp only [upd_other b v hi])
  simpa using this

theorem men_pos {b : Proofs.Board} {sq : Nat} (hsq : sq < 64) {x : Color × Piece} (h : b sq = some x) :
    1 ≤ men b := by
  have := men_upd b hsq none
  rw [h, occ_some, occ_none] at this
  omega

/-- **A capture removes exactly one man** (and leaves at least the capturing one). -/
theorem men_boardAfter_capture {b : Proofs.Board} {m : Move} (hout : ∀ sq, 64 ≤ sq → b sq = none)
    (hok : MetaOKb b m = true) (hc : m.isCapture = true) :
    men (boardAfter b m) + 1 = men b ∧ 1 ≤ men (boardAfter b m) := by
  cases hsq : b m.from with
  | none => unfold MetaOKb at hok; rw [hsq] at hok; cases hok
  | some x =>
    obtain ⟨turn, pc⟩ := x
    have hfr : m.from < 64 := by
      apply Classical.byContradiction; intro hn
      have := hout m.from (by omega); rw [hsq] at this; cases this
    unfold MetaOKb at hok; rw [hsq] at hok
    simp only [Bool.and_eq_true, beq_iff_eq, decide_eq_true_eq] at hok
    obtain ⟨⟨_, hto⟩, hty⟩ := hok
    have key : ∀ k, b m.to = some (turn.opp, k) →
        men (upd (upd b m.from none) m.to (some (turn, movedPiece m pc))) + 1 = men b ∧
        1 ≤ men (upd (upd b m.from none) m.to (some (turn, movedPiece m pc))) := by
      intro k hk
      have hne : m.to ≠ m.from := by
        intro e; rw [e, hsq] at hk
        exact Color.opp_ne turn (Prod.mk.inj (Option.some.inj hk)).1.symm
      have h1 := men_upd b hfr none
      have h2 := men_upd (upd b m.from none) hto (some (turn, movedPiece m pc))
      rw [upd_other _ _ hne, hk, occ_some, occ_some] at h2
      rw [hsq, occ_some, occ_none] at h1
      exact ⟨by omega, men_pos hto (upd_same _ _ _)⟩
    unfold boardAfter; rw [hsq]; simp only
    cases ety : m.ty <;> rw [ety] at hty <;>
      simp only [Bool.and_eq_true, beq_iff_eq, bne_iff_ne, ne_eq] at hty <;>
      simp only []
    case capture => exact key _ hty
    case capturePromotion => exact key _ hty.1
    all_goals simp [Move.isCapture, ety] at hc

/-! ## on positions -/

/-- The number of men of a position: that of the board it reads back. -/
def menP (p : Position) : Nat := men p.square

theorem menP_le (p : Position) : menP p ≤ 64 := men_le _

theorem sumTo_eq_countP (n : Nat) (f : Nat → Bool) :
    sumTo n (fun i => if f i then 1 else 0) = (List.range n).countP f := by
  induction n with
  | zero => rfl
  | succ n ih =>
    simp only [sumTo, List.range_succ, List.countP_append, List.countP_cons, List.countP_nil, ih]
    omega

/-- On a position whose views agree, `menP` is the population count of `Position.All`. -/
theorem menP_eq_popCount {p : Position} (h : Rep p p.square) : menP p = popCount p.all := by
  unfold Position.all
  rw [Material.rot_count h]
  exact sumTo_eq_countP 64 fun sq => (p.square sq).isSome

/-- **An accepted generated capture of a `WFplay` position removes exactly one man.** -/
theorem menP_capture {p q : Position} {turn : Color} {m : Move} (hw : WFplay p turn)
    (hm : m ∈ p.pseudoLegalMoves turn) (hc : m.isCapture = true) (hq : p.move m = some q) :
    menP q + 1 = menP p ∧ 1 ≤ menP q := by
  have hps := (mem_pseudoLegalMoves hw.1.rep hw.1.wfb m).mp hm
  obtain ⟨hok, _⟩ := hps.metaOK_classOK hw.1.rep hw.1.wfb
  have hrep := (move_rep hw.1.rep hok hq).1
  have hb : q.square = boardAfter p.square m := hrep.board_eq.symm
  unfold menP
  rw [hb]
  exact men_boardAfter_capture hw.1.rep.out (by rw [← hw.1.rep.metaOK_iff]; exact hok) hc

/-! ## the invariant of worlds -/

/-- Well-formed arena, board 0 exists, and its current position satisfies the play invariant for its side to move. -/
def Inv (w : World) : Prop :=
  WFWorld w ∧ 0 < w.boards.size ∧ WFplay (w.cur 0).pos (w.board 0).turn

/-- `Inv` is preserved by pushing a generated move on board 0. -/
theorem inv_push {z : ZTable} {w w' : World} {m : Move} (h : Inv w)
    (hm : m ∈ (w.cur 0).pos.pseudoLegalMoves (w.board 0).turn) (hp : w.pushMove z 0 m = some w') : Inv w' :=
  ⟨wf_push h.1 h.2.1 hp, by rw [boards_size_push hp]; exact h.2.1, (push_wfplay h.1 h.2.1 h.2.2 hm hp).2⟩

/-- `Inv` holds for a fresh world with one board on a `WFplay` position. -/
theorem inv_newBoard (z : ZTable) {pos : Position} {turn : Color} (np fm : Int) (h : WFplay pos turn) :
    Inv (({} : World).newBoard z pos turn np fm).1 := by
  have hc := newBoard_cur ({} : World) z pos turn np fm
  have h2 : (({} : World).newBoard z pos turn np fm).2 = 0 := rfl
  rw [h2] at hc
  refine ⟨wf_newBoard wf_empty z pos turn np fm, by simp [World.newBoard], ?_⟩
  rw [hc.1, hc.2.1]
  exact h

/-- `Inv` along any sequence of generated moves pushed on board 0 (every world a search visits). -/
theorem inv_pushAll {z : ZTable} (ms : List Move) :
    ∀ {w w' : World}, Inv w → GenPlay (w.cur 0).pos (w.board 0).turn ms → pushAll z 0 w ms = some w' → Inv w' := by
  induction ms with
  | nil => intro w w' h _ hp; cases hp; exact h
  | cons m r ih =>
    intro w w' h hgen hp
    simp only [pushAll] at hp
    cases hpm : w.pushMove z 0 m with
    | none => rw [hpm] at hp; cases hp
    | some w2 =>
      rw [hpm] at hp
      simp only [Option.bind_some] at hp
      obtain ⟨_, ht, _, hmv, _⟩ := push_line h.1 h.2.1 hpm
      refine ih (inv_push h hgen.1 hpm) ?_ hp
      rw [ht]; exact hgen.2 _ hmv

/-! ## the fuel is enough -/

/-- With at most `k + 1` men on the board, `k + 1` plies of fuel exhaust the captures-only tree. -/
theorem boardGame_qdone_men (z : ZTable) (ev : Position → Color → Int) (ex : World → Explore) (hex : CapturesOnly ex) :
    ∀ k w, Inv w → menP (w.cur 0).pos ≤ k + 1 → QDone (boardGame z ev) ex (k + 1) w := by
  intro k
  induction k with
  | zero =>
    intro w h hk
    simp only [QDone]
    refine Or.inr fun m c hm hp hpush => ?_
    have hm' : m ∈ (w.cur 0).pos.pseudoLegalMoves (w.board 0).turn := hm
    have hpush' : w.pushMove z 0 m = some c := hpush
    obtain ⟨_, _, _, hmv, _⟩ := push_line h.1 h.2.1 hpush'
    have := menP_capture h.2.2 hm' (hex _ m hp) hmv
    exfalso; omega
  | succ k ih =>
    intro w h hk
    simp only [QDone]
    refine Or.inr fun m c hm hp hpush => ?_
    have hm' : m ∈ (w.cur 0).pos.pseudoLegalMoves (w.board 0).turn := hm
    have hpush' : w.pushMove z 0 m = some c := hpush
    obtain ⟨_, _, _, hmv, _⟩ := push_line h.1 h.2.1 hpush'
    have := menP_capture h.2.2 hm' (hex _ m hp) hmv
    exact ih c (inv_push h hm' hpush') (by omega)

/-- Any fuel `≥ 1` that is at least the number of men is enough. -/
theorem boardGame_qdone_of_men_le (z : ZTable) (ev : Position → Color → Int) (ex : World → Explore) (hex : CapturesOnly ex)
    (w : World) (h : Inv w) (fuel : Nat) (h1 : 1 ≤ fuel) (hmen : menP (w.cur 0).pos ≤ fuel) :
    QDone (boardGame z ev) ex fuel w := by
  obtain ⟨k, rfl⟩ : ∃ k, fuel = k + 1 := ⟨fuel - 1, by omega⟩
  exact boardGame_qdone_men z ev ex hex k w h hmen

/-- The same with the population count of `Position.All`. -/
theorem boardGame_qdone_popCount (z : ZTable) (ev : Position → Color → Int) (ex : World → Explore) (hex : CapturesOnly ex)
    (w : World) (h : Inv w) (fuel : Nat) (h1 : 1 ≤ fuel) (hmen : popCount (w.cur 0).pos.all ≤ fuel) :
    QDone (boardGame z ev) ex fuel w :=
  boardGame_qdone_of_men_le z ev ex hex w h fuel h1 (by rw [menP_eq_popCount h.2.2.1.rep]; exact hmen)

/-- **The driver's fuel (64) exhausts the captures-only quiescence tree of every world satisfying `Inv`.** -/
theorem boardGame_qdone (z : ZTable) (ev : Position → Color → Int) (ex : World → Explore) (hex : CapturesOnly ex)
    (w : World) (h : Inv w) : QDone (boardGame z ev) ex 64 w :=
  boardGame_qdone_of_men_le z ev ex hex w h 64 (by decide) (menP_le _)

/-- On a board with at most 32 men, 32 plies are enough. -/
theorem boardGame_qdone_32 (z : ZTable) (ev : Position → Color → Int) (ex : World → Explore) (hex : CapturesOnly ex)
    (w : World) (h : Inv w) (h32 : popCount (w.cur 0).pos.all ≤ 32) : QDone (boardGame z ev) ex 32 w :=
  boardGame_qdone_popCount z ev ex hex w h 32 (by decide) h32

/-- For every evaluation: more fuel than 64 does not change the reference value, and `quiesce` with fuel 64 never
runs out of fuel. -/
theorem boardGame_enough_fuel (z : ZTable) (ev : Position → Color → Int) (ex : World → Explore) (hex : CapturesOnly ex)
    (w : World) (h : Inv w) :
    (∀ fuel', 64 ≤ fuel' → Q (boardGame z ev) ex fuel' w = Q (boardGame z ev) ex 64 w) ∧
    ∀ a b st, (quiesce (boardGame z ev) ex 64 w a b st).2.fuelOut = st.fuelOut :=
  ⟨Q_stable _ ex 64 w (boardGame_qdone z ev ex hex w h), quiesce_fuelOut _ ex 64 w (boardGame_qdone z ev ex hex w h)⟩

theorem materialGame_enough_fuel (z : ZTable) (ex : World → Explore) (hex : CapturesOnly ex) (w : World) (h : Inv w) :
    (∀ fuel', 64 ≤ fuel' → Q (materialGame z) ex fuel' w = Q (materialGame z) ex 64 w) ∧
    ∀ a b st, (quiesce (materialGame z) ex 64 w a b st).2.fuelOut = st.fuelOut :=
  boardGame_enough_fuel z _ ex hex w h

/-! ## the hypotheses are satisfiable -/

/-- K + N v K + N (C05 `exPos`), White to move, satisfies the play invariant. -/
theorem c05_exPos_wfplay : WFplay Props.C05.exPos .white :=
  ⟨⟨Props.C05.exPos_ok.rep, by decide +kernel⟩, by decide +kernel⟩

theorem c05_wS_inv : Inv Props.C05.wS := inv_newBoard exZ 0 1 c05_exPos_wfplay

/-- On the concrete world `C05.wS` the driver's exploration with fuel 64 never runs out of fuel, and - four men on the
board - already 4 plies exhaust its tree. -/
example :
    (∀ fuel', 64 ≤ fuel' →
      Q (materialGame exZ) (constEx { prio := mvvlva, pick := fun m => m.isCapture }) fuel' Props.C05.wS =
        Q (materialGame exZ) (constEx { prio := mvvlva, pick := fun m => m.isCapture }) 64 Props.C05.wS) ∧
    (∀ a b st, (quiesce (materialGame exZ) (constEx { prio := mvvlva, pick := fun m => m.isCapture }) 64 Props.C05.wS a b st).2.fuelOut
        = st.fuelOut) ∧
    QDone (materialGame exZ) (constEx { prio := mvvlva, pick := fun m => m.isCapture }) 4 Props.C05.wS :=
  ⟨(materialGame_enough_fuel exZ _ (capturesOnly_driver mvvlva) _ c05_wS_inv).1,
   (materialGame_enough_fuel exZ _ (capturesOnly_driver mvvlva) _ c05_wS_inv).2,
   boardGame_qdone_popCount exZ _ _ (capturesOnly_driver mvvlva) _ c05_wS_inv 4 (by decide) (by decide +kernel)⟩

/-- The hypothesis `CapturesOnly` cannot be dropped in general: `QDone … 0` is false, and an exploration that picks
every move keeps finding children on `wS` (the knights can shuffle), so one ply is not enough there. -/
example : ¬ QDone (materialGame exZ) (constEx fullExploration) 1 Props.C05.wS := by
  simp only [QDone]
  intro h
  rcases h with h | h
  · revert h; decide +kernel
  · cases hp : Props.C05.wS.pushMove exZ 0 Props.C05.nf3 with
    | none => revert hp; decide +kernel
    | some c => exact h Props.C05.nf3 c (by decide +kernel) rfl hp

-- #print axioms boardGame_qdone   -- [propext, Classical.choice, Quot.sound]
-- #print axioms materialGame_enough_fuel   -- [propext, Classical.choice, Quot.sound]
-- #print axioms inv_push   -- [propext, Classical.choice, Quot.sound]
-- #print axioms inv_newBoard   -- [propext, Classical.choice, Quot.sound]
-- #print axioms QDone_mono   -- [propext, Quot.sound]
-- #print axioms c05_wS_inv   -- [propext, Classical.choice, Quot.sound]

end Morlock.Proofs.AB
