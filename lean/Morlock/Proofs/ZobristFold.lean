import Morlock.Proofs.RepMove
import Morlock.Model.Zobrist
/-!
# The Zobrist hash as a fold of xors (helpers for C07)
-/
namespace Morlock.Proofs
open Morlock Morlock.Model

theorem xor_cancel_left' (a b : Nat) : a ^^^ (a ^^^ b) = b := by
  rw [← Nat.xor_assoc, Nat.xor_self, Nat.zero_xor]

theorem xor_left_comm' (a b c : Nat) : a ^^^ (b ^^^ c) = b ^^^ (a ^^^ c) := by
  rw [← Nat.xor_assoc, ← Nat.xor_assoc, Nat.xor_comm a b]

/-- Normalise an equation between xor-expressions (AC + `x ^^^ x = 0`). -/
macro "xor_ac" : tactic =>
  `(tactic| simp only [Nat.xor_assoc, Nat.xor_comm, xor_left_comm', Nat.xor_self, Nat.xor_zero,
      Nat.zero_xor, xor_cancel_left'])

/-- Key of a square's content (empty = 0). -/
def cellKey (z : ZTable) (v : Option (Color × Piece)) (sq : Nat) : Nat :=
  match v with
  | some (c, k) => z.pieces c k sq
  | none => 0

/-- The piece part of the hash, over squares `0 .. n-1`. -/
def boardHash (z : ZTable) (b : Board) : Nat → Nat
  | 0 => 0
  | n + 1 => boardHash z b n ^^^ cellKey z (b n) n

/-- The en-passant part of the hash. -/
def epKey (z : ZTable) (e : Nat) : Nat := if e != 0 then z.enpassant e else 0

theorem ite_ep (z : ZTable) (h e : Nat) :
    (if e != 0 then h ^^^ z.enpassant e else h) = h ^^^ epKey z e := by
  unfold epKey; split <;> simp

theorem foldl_boardHash (z : ZTable) (p : Position) (n : Nat) :
    (List.range n).foldl (fun h sq =>
      match p.square sq with
      | some (c, k) => h ^^^ z.pieces c k sq
      | none => h) 0 = boardHash z p.square n := by
  induction n with
  | zero => rfl
  | succ n ih =>
    rw [List.range_succ, List.foldl_append, ih]
    simp only [List.foldl_cons, List.foldl_nil, boardHash, cellKey]
    cases p.square n with
    | none => simp
    | some x => rfl

/-- `ZobristTable.Hash` is the xor of the four independent parts. -/
theorem hash_eq (z : ZTable) (p : Position) (turn : Color) :
    z.hash p turn =
      boardHash z p.square 64 ^^^ z.castling p.castling ^^^ epKey z p.enpassant ^^^ z.turn turn := by
  unfold ZTable.hash
  simp only [ite_ep]
  exact congrArg (fun x => x ^^^ z.castling p.castling ^^^ epKey z p.enpassant ^^^ z.turn turn)
    (foldl_boardHash z p 64)

/-- Updating one square changes the fold by `old ^^^ new`. -/
theorem boardHash_upd (z : ZTable) (b : Board) (sq : Nat) (v : Option (Color × Piece)) (n : Nat) :
    boardHash z (upd b sq v) n =
      if sq < n then boardHash z b n ^^^ cellKey z (b sq) sq ^^^ cellKey z v sq else boardHash z b n := by
  induction n with
  | zero => simp [boardHash]
  | succ n ih =>
    simp only [boardHash, ih]
    by_cases h1 : sq < n
    · have h2 : sq < n + 1 := by omega
      have hne : n ≠ sq := by omega
      rw [if_pos h1, if_pos h2, upd_other _ _ hne]
      xor_ac
    · by_cases h2 : sq = n
      · subst h2
        rw [if_neg h1, if_pos (Nat.lt_succ_self _), upd_same]
        xor_ac
      · have h3 : ¬ sq < n + 1 := by omega
        have hne : n ≠ sq := fun e => h2 e.symm
        rw [if_neg h1, if_neg h3, upd_other _ _ hne]

theorem boardHash_upd64 (z : ZTable) (b : Board) {sq : Nat} (hsq : sq < 64) (v : Option (Color × Piece)) :
    boardHash z (upd b sq v) 64 = boardHash z b 64 ^^^ cellKey z (b sq) sq ^^^ cellKey z v sq := by
  rw [boardHash_upd, if_pos hsq]

theorem hash_steps123 (z : ZTable) {b : Board} {fr to : Nat} {turn : Color}
    {pc mp cap : Piece} (hsq : b fr = some (turn, pc)) (hfr : fr < 64) (hto : to < 64)
    (isCap : Bool)
    (hdest : (isCap = true ∧ b to = some (turn.opp, cap)) ∨ (isCap = false ∧ b to = none)) :
    boardHash z (upd (upd b fr none) to (some (turn, mp))) 64 =
      boardHash z b 64 ^^^ z.pieces turn pc fr ^^^
        (if isCap then z.pieces turn.opp cap to else 0) ^^^ z.pieces turn mp to := by
  rw [boardHash_upd64 z _ hto, boardHash_upd64 z _ hfr, hsq]
  rcases hdest with ⟨hc, hb⟩ | ⟨hc, hb⟩
  · subst hc
    have hne : to ≠ fr := by
      intro e; rw [e, hsq] at hb
      exact Color.opp_ne turn (Prod.mk.inj (Option.some.inj hb)).1.symm
    rw [upd_other _ _ hne, hb]; simp [cellKey]
  · subst hc
    have he : upd b fr none to = none := by
      by_cases e : to = fr
      · rw [e, upd_same]
      · rw [upd_other _ _ e, hb]
    rw [he]; simp [cellKey]

/-- The keys `ZobristTable.Move` xors in for the pieces it believes are moved. -/
def specialKeys (z : ZTable) (turn : Color) (m : Move) : Nat :=
  match m.ty with
  | .enPassant => z.pieces turn.opp .pawn m.enPassantCapture
  | .kingSideCastle | .queenSideCastle =>
    z.pieces turn .rook m.castlingRookMove.1 ^^^ z.pieces turn .rook m.castlingRookMove.2
  | _ => 0

/-- The piece part of the hash of the prescribed board, relative to the old one. -/
theorem boardHash_after (z : ZTable) {p : Position} {b : Board} {m : Move} {turn : Color} {pc : Piece}
    (h : Rep p b) (hok : MetaOKb b m = true) (hsq : b m.from = some (turn, pc)) :
    boardHash z (boardAfter b m) 64 =
      boardHash z b 64 ^^^ z.pieces turn pc m.from ^^^
        (if m.isCapture then z.pieces turn.opp m.capture m.to else 0) ^^^
        z.pieces turn (movedPiece m pc) m.to ^^^ specialKeys z turn m := by
  unfold MetaOKb at hok; rw [hsq] at hok
  simp only [Bool.and_eq_true, beq_iff_eq, decide_eq_true_eq] at hok
  obtain ⟨⟨hpc, hto⟩, hty⟩ := hok
  have hfr : m.from < 64 := h.lt_of_some hsq
  unfold boardAfter specialKeys; rw [hsq]; simp only
  cases ety : m.ty <;> rw [ety] at hty <;>
    simp only [Bool.and_eq_true, beq_iff_eq, bne_iff_ne, ne_eq] at hty <;>
    simp only [Move.isCapture, ety, reduceCtorEq, decide_false,
      decide_true, Bool.or_false, Bool.or_true, Bool.false_eq_true, if_false, if_true, Nat.xor_zero]
  case invalid => simpa using hash_steps123 (cap := .none) z hsq hfr hto false (Or.inr ⟨rfl, hty⟩)
  case normal => simpa using hash_steps123 (cap := .none) z hsq hfr hto false (Or.inr ⟨rfl, hty⟩)
  case push => simpa using hash_steps123 (cap := .none) z hsq hfr hto false (Or.inr ⟨rfl, hty⟩)
  case jump => simpa using hash_steps123 (cap := .none) z hsq hfr hto false (Or.inr ⟨rfl, hty⟩)
  case capture => simpa using hash_steps123 z hsq hfr hto true (Or.inl ⟨rfl, hty⟩)
  case promotion => simpa using hash_steps123 (cap := .none) z hsq hfr hto false (Or.inr ⟨rfl, hty.1⟩)
  case capturePromotion => simpa using hash_steps123 z hsq hfr hto true (Or.inl ⟨rfl, hty.1⟩)
  case enPassant =>
    have h3 := hash_steps123 (cap := .none) (mp := movedPiece m pc) z hsq hfr hto false (Or.inr ⟨rfl, hty.1⟩)
    have hne1 : m.enPassantCapture ≠ m.to := by
      intro e; rw [e, hty.1] at hty; cases hty.2
    have hne2 : m.enPassantCapture ≠ m.from := by
      intro e; rw [e, hsq] at hty
      exact Color.opp_ne turn (Prod.mk.inj (Option.some.inj hty.2)).1.symm
    have hlt : m.enPassantCapture < 64 := h.lt_of_some hty.2
    rw [boardHash_upd64 z _ hlt, h3, upd_other _ _ hne1, upd_other _ _ hne2, hty.2]
    simp [cellKey]
  all_goals
    obtain ⟨⟨⟨hto0, hrf⟩, hrt⟩, hne⟩ := hty
    have h3 := hash_steps123 (cap := .none) (mp := movedPiece m pc) z hsq hfr hto false (Or.inr ⟨rfl, hto0⟩)
    have hrr : m.castlingRookMove.1 ≠ m.castlingRookMove.2 := by
      intro e; rw [e, hrt] at hrf; cases hrf
    obtain ⟨f1, f2, f3, f4⟩ := castlingRookMove_facts m hrr
    have hne1 : m.castlingRookMove.1 ≠ m.to := by
      intro e; rw [e, hto0] at hrf; cases hrf
    rw [boardHash_upd64 z _ f4, boardHash_upd64 z _ f3, h3,
      upd_other _ _ (Ne.symm hrr), upd_other _ _ hne, upd_other _ _ f2, hrt,
      upd_other _ _ hne1, upd_other _ _ f1, hrf]
    simp [cellKey]
    xor_ac

theorem epKey_of_zero (z : ZTable) (hz : z.enpassant 0 = 0) (e : Nat) : epKey z e = z.enpassant e := by
  unfold epKey; by_cases h : e = 0
  · subst h; simp [hz]
  · simp [h]

/-- Incremental hash = hash from scratch. -/
theorem zmove_eq_hash (z : ZTable) (hz : z.enpassant 0 = 0) {p p' : Position} {b : Board} {m : Move}
    {turn : Color} {pc : Piece}
    (h : Rep p b) (hok : MetaOK p m = true) (hsq : p.square m.from = some (turn, pc))
    (hm : p.move m = some p') :
    z.move (z.hash p turn) p m = z.hash p' turn.opp := by
  obtain ⟨hrep', hc', he'⟩ := move_rep h hok hm
  rw [h.metaOK_iff] at hok
  have hsqb : b m.from = some (turn, pc) := by rw [← h.square_eq]; exact hsq
  have hpc : pc = m.piece := by
    unfold MetaOKb at hok; rw [hsqb] at hok
    simp only [Bool.and_eq_true, beq_iff_eq, decide_eq_true_eq] at hok
    exact hok.1.1
  rw [hash_eq z p', ← hrep'.board_eq, boardHash_after z h hok hsqb, hc', he', epKey_of_zero z hz]
  unfold ZTable.move
  rw [hsq]
  simp only [ite_ep, hash_eq z p, ← h.board_eq]
  subst hpc
  unfold specialKeys movedPiece
  cases ety : m.ty <;>
    simp only [Move.isCapture, Move.isPromotion, ety, reduceCtorEq, decide_false,
      decide_true, Bool.or_false, Bool.or_true, Bool.false_eq_true, if_false, if_true] <;>
    xor_ac

theorem eq_of_xor_eq_zero {c d : Nat} (h : c ^^^ d = 0) : c = d := by
  have := xor_cancel_left' c d
  rw [h, Nat.xor_zero] at this; exact this

/-- If two values differ by the xor of two distinct keys, they are distinct. -/
theorem ne_of_xor_eq {a b c d : Nat} (h : a ^^^ b = c ^^^ d) (hne : c ≠ d) : a ≠ b := by
  intro e; subst e; rw [Nat.xor_self] at h; exact hne (eq_of_xor_eq_zero h.symm)

theorem hash_diff_square (z : ZTable) {p q : Position} {b : Board} {sq : Nat} {v : Option (Color × Piece)}
    (hp : Rep p b) (hq : Rep q (upd b sq v)) (hsq : sq < 64)
    (hc : p.castling = q.castling) (he : p.enpassant = q.enpassant) (t : Color) :
    z.hash p t ^^^ z.hash q t = cellKey z (b sq) sq ^^^ cellKey z v sq := by
  rw [hash_eq, hash_eq, ← hp.board_eq, ← hq.board_eq, boardHash_upd64 z b hsq, hc, he]
  xor_ac

theorem hash_diff_castling (z : ZTable) {p q : Position} {b : Board}
    (hp : Rep p b) (hq : Rep q b) (he : p.enpassant = q.enpassant) (t : Color) :
    z.hash p t ^^^ z.hash q t = z.castling p.castling ^^^ z.castling q.castling := by
  rw [hash_eq, hash_eq, ← hp.board_eq, ← hq.board_eq, he]
  xor_ac

theorem hash_diff_enpassant (z : ZTable) {p q : Position} {b : Board}
    (hp : Rep p b) (hq : Rep q b) (hc : p.castling = q.castling) (t : Color) :
    z.hash p t ^^^ z.hash q t = epKey z p.enpassant ^^^ epKey z q.enpassant := by
  rw [hash_eq, hash_eq, ← hp.board_eq, ← hq.board_eq, hc]
  xor_ac

theorem hash_diff_turn (z : ZTable) (p : Position) (t t' : Color) :
    z.hash p t ^^^ z.hash p t' = z.turn t ^^^ z.turn t' := by
  rw [hash_eq, hash_eq]
  xor_ac

end Morlock.Proofs
