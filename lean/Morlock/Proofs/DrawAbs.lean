import Morlock.Proofs.DrawMeasure
import Morlock.Proofs.DrawMaterial
import Morlock.Proofs.RepAbs
/-!
# C05: the abstraction `abs` identifies positions, and what a sound move does to kings, clock and material

* `abs_inj` - on positions whose views agree and whose castling field has only the four rights bits,
  `abs p t = abs q t'` iff `p = q ∧ t = t'`: reference positions are equal exactly when the model positions
  and sides are (placement, rights, target, side);
* `PosOK` / `FullStep` - the invariants of positions and the hypotheses on moves used for the link to
  `Spec.Game`, and their preservation;
* `reset_eq` - `Spec.isPawnMoveOrCapture` on the abstraction is `isReset` of a sound move;
* `material_flag_eq` - the reference's material test after a move is the model's.
-/
namespace Morlock.Proofs.Draw
open Morlock Morlock.Model Morlock.Proofs Morlock.Proofs.Material

/-! ## `abs` is injective -/

theorem absCellB_inj {v v' : Option (Color × Piece)} (hv : ∀ c, v ≠ some (c, .none))
    (hv' : ∀ c, v' ≠ some (c, .none)) (h : absCellB v = absCellB v') : v = v' := by
  cases v with
  | none =>
    cases v' with
    | none => rfl
    | some x =>
      obtain ⟨c', k'⟩ := x
      have := hv' c'
      cases k' <;> simp [absCellB, absKind] at h this
  | some x =>
    obtain ⟨c, k⟩ := x
    have h1 := hv c
    cases v' with
    | none => cases k <;> simp [absCellB, absKind] at h h1
    | some x' =>
      obtain ⟨c', k'⟩ := x'
      have h2 := hv' c'
      cases c <;> cases c' <;> cases k <;> cases k' <;> simp [absCellB, absKind, absColor] at h h1 h2 ⊢

theorem castling_eq_of_bits {c d : Nat} (hc : c < 16) (hd : d < 16)
    (h0 : (c &&& wK != 0) = (d &&& wK != 0)) (h1 : (c &&& wQ != 0) = (d &&& wQ != 0))
    (h2 : (c &&& bK != 0) = (d &&& bK != 0)) (h3 : (c &&& bQ != 0) = (d &&& bQ != 0)) : c = d := by
  have e0 : wK = 2 ^ 0 := rfl
  have e1 : wQ = 2 ^ 1 := rfl
  have e2 : bK = 2 ^ 2 := rfl
  have e3 : bQ = 2 ^ 3 := rfl
  rw [e0, and_two_pow_ne_zero, and_two_pow_ne_zero] at h0
  rw [e1, and_two_pow_ne_zero, and_two_pow_ne_zero] at h1
  rw [e2, and_two_pow_ne_zero, and_two_pow_ne_zero] at h2
  rw [e3, and_two_pow_ne_zero, and_two_pow_ne_zero] at h3
  apply Nat.eq_of_testBit_eq
  intro i
  by_cases hi : i < 4
  · have : i = 0 ∨ i = 1 ∨ i = 2 ∨ i = 3 := by omega
    rcases this with rfl | rfl | rfl | rfl <;> assumption
  · have hp : (16 : Nat) ≤ 2 ^ i := by
      have : (2 : Nat) ^ 4 ≤ 2 ^ i := Nat.pow_le_pow_right (by decide) (by omega)
      simpa using this
    rw [Nat.testBit_lt_two_pow (by omega), Nat.testBit_lt_two_pow (by omega)]

/-- **`abs` identifies positions.** -/
theorem abs_inj {p q : Position} {t t' : Color} (hp : Rep p p.square) (hq : Rep q q.square)
    (hpc : p.castling < 16) (hqc : q.castling < 16) (h : abs p t = abs q t') : p = q ∧ t = t' := by
  have hb : absBoard p.square = absBoard q.square := by
    rw [← abs_board p t, ← abs_board q t', h]
  have hsq : p.square = q.square := by
    funext i
    apply absCellB_inj (fun c => hp.wf i c) (fun c => hq.wf i c)
    rw [← absBoard_getD _ hp.out, ← absBoard_getD _ hq.out, hb]
  have hq' : Rep q p.square := by rw [hsq]; exact hq
  obtain ⟨v1, v2, v3⟩ := hp.views_eq hq'
  have ht : t = t' := by
    have := congrArg Spec.Pos.turn h
    cases t <;> cases t' <;> simp [abs, absColor] at this ⊢
  have hc : p.castling = q.castling :=
    castling_eq_of_bits hpc hqc (congrArg Spec.Pos.wk h) (congrArg Spec.Pos.wq h)
      (congrArg Spec.Pos.bk h) (congrArg Spec.Pos.bq h)
  have he : p.enpassant = q.enpassant := by
    have := congrArg Spec.Pos.ep h
    simp only [abs] at this
    by_cases h1 : p.enpassant = 0 <;> by_cases h2 : q.enpassant = 0 <;> simp [h1, h2] at this ⊢
    exact this
  refine ⟨?_, ht⟩
  cases p; cases q
  simp only [Position.mk.injEq]
  exact ⟨v1, v2, v3, hc, he⟩

theorem abs_beq {p q : Position} {t t' : Color} (hp : Rep p p.square) (hq : Rep q q.square)
    (hpc : p.castling < 16) (hqc : q.castling < 16) :
    (abs p t == abs q t') = (p == q && t == t') := by
  by_cases h : abs p t = abs q t'
  · obtain ⟨rfl, rfl⟩ := abs_inj hp hq hpc hqc h
    simp
  · have : ¬ (p = q ∧ t = t') := fun ⟨a, b⟩ => h (by rw [a, b])
    simp only [beq_eq_false_iff_ne.mpr h]
    by_cases hpq : p = q
    · have htt : ¬ t = t' := fun c => this ⟨hpq, c⟩
      simp [hpq, htt]
    · simp [hpq]

theorem andNot_lt_16 {c : Nat} (hc : c < 16) (y : Nat) : andNot c y < 16 := by
  have : andNot c y < 2 ^ 4 := by
    apply Nat.lt_pow_two_of_testBit
    intro i hi
    rw [testBit_andNot]
    have hp : (16 : Nat) ≤ 2 ^ i := by
      have : (2 : Nat) ^ 4 ≤ 2 ^ i := Nat.pow_le_pow_right (by decide) hi
      simpa using this
    rw [Nat.testBit_lt_two_pow (by omega)]
    rfl
  simpa using this

/-! ## sums of a weight after a move -/

/-- Σ of a weight over the 64 squares. -/
def sumW (W : Option (Color × Piece) → Nat → Nat) (b : Proofs.Board) : Nat := sumTo 64 (fun sq => W (b sq) sq)

theorem sumW_upd (W : Option (Color × Piece) → Nat → Nat) (b : Proofs.Board) {sq : Nat} (hsq : sq < 64)
    (v : Option (Color × Piece)) : sumW W (upd b sq v) + W (b sq) sq = sumW W b + W v sq := by
  unfold sumW
  have := sumTo_update (n := 64) (f := fun s => W (b s) s) (g := fun s => W (upd b sq v s) s) hsq
    (fun i hi => by simp only [upd_other b v hi])
  simpa using this

/-- Bookkeeping of any weight (zero on empty squares) across `boardAfter`. -/
theorem sumW_boardAfter (W : Option (Color × Piece) → Nat → Nat) (hW : ∀ sq, W none sq = 0)
    {b : Proofs.Board} {m : Move} {turn : Color} {pc : Piece} (hout : ∀ sq, 64 ≤ sq → b sq = none)
    (hok : MetaOKb b m = true) (hsq : b m.from = some (turn, pc)) :
    sumW W (boardAfter b m) + W (some (turn, pc)) m.from + W (b m.to) m.to +
        (if m.ty = .enPassant then W (some (turn.opp, Piece.pawn)) m.enPassantCapture else 0) +
        (if m.isCastle = true then W (some (turn, Piece.rook)) m.castlingRookMove.1 else 0) =
      sumW W b + W (some (turn, movedPiece m pc)) m.to +
        (if m.isCastle = true then W (some (turn, Piece.rook)) m.castlingRookMove.2 else 0) := by
  have hfr : m.from < 64 := by
    apply Classical.byContradiction; intro hn
    have := hout m.from (by omega); rw [hsq] at this; cases this
  unfold MetaOKb at hok; rw [hsq] at hok
  simp only [Bool.and_eq_true, beq_iff_eq, decide_eq_true_eq] at hok
  obtain ⟨⟨hpc, hto⟩, hty⟩ := hok
  have hcommon : ∀ (hne : m.to ≠ m.from),
      sumW W (upd (upd b m.from none) m.to (some (turn, movedPiece m pc))) + W (b m.to) m.to +
        W (some (turn, pc)) m.from = sumW W b + W (some (turn, movedPiece m pc)) m.to := by
    intro hne
    have h1 := sumW_upd W b hfr none
    have h2 := sumW_upd W (upd b m.from none) hto (some (turn, movedPiece m pc))
    rw [upd_other _ _ hne] at h2
    rw [hsq, hW] at h1
    omega
  have hne_of : (b m.to = none ∨ ∃ k, b m.to = some (turn.opp, k)) → m.to ≠ m.from := by
    intro hh e; rw [e, hsq] at hh
    rcases hh with hh | ⟨k, hh⟩
    · cases hh
    · exact Color.opp_ne turn (Prod.mk.inj (Option.some.inj hh)).1.symm
  unfold boardAfter; rw [hsq]; simp only
  cases ety : m.ty <;> rw [ety] at hty <;>
    simp only [Bool.and_eq_true, beq_iff_eq, bne_iff_ne, ne_eq] at hty <;>
    simp only [Move.isCastle, ety, reduceCtorEq, decide_false, decide_true, Bool.or_false, Bool.or_true,
      Bool.false_eq_true, if_false, if_true, Nat.add_zero]
  case enPassant =>
    obtain ⟨hto0, hvic⟩ := hty
    have hc := hcommon (hne_of (Or.inl hto0))
    have hlt : m.enPassantCapture < 64 := by
      apply Classical.byContradiction; intro hn
      have := hout m.enPassantCapture (by omega); rw [hvic] at this; cases this
    have hne1 : m.enPassantCapture ≠ m.to := by
      intro e; rw [e, hto0] at hvic; cases hvic
    have hne2 : m.enPassantCapture ≠ m.from := by
      intro e; rw [e, hsq] at hvic
      exact Color.opp_ne turn (Prod.mk.inj (Option.some.inj hvic)).1.symm
    have h3 := sumW_upd W (upd (upd b m.from none) m.to (some (turn, movedPiece m pc))) hlt none
    rw [upd_other _ _ hne1, upd_other _ _ hne2, hvic, hW] at h3
    omega
  case kingSideCastle | queenSideCastle =>
    obtain ⟨⟨⟨hto0, hrf⟩, hrt⟩, hne2⟩ := hty
    have hc := hcommon (hne_of (Or.inl hto0))
    have hrr : m.castlingRookMove.1 ≠ m.castlingRookMove.2 := by
      intro e; rw [e, hrt] at hrf; cases hrf
    obtain ⟨f1, f2, f3, f4⟩ := castlingRookMove_facts m hrr
    have hne1 : m.castlingRookMove.1 ≠ m.to := by
      intro e; rw [e, hto0] at hrf; cases hrf
    have h3 := sumW_upd W (upd (upd b m.from none) m.to (some (turn, movedPiece m pc))) f3 none
    rw [upd_other _ _ hne1, upd_other _ _ f1, hrf, hW] at h3
    have h4 := sumW_upd W (upd (upd (upd b m.from none) m.to (some (turn, movedPiece m pc))) m.castlingRookMove.1 none)
      f4 (some (turn, Piece.rook))
    rw [upd_other _ _ (Ne.symm hrr), upd_other _ _ hne2, upd_other _ _ f2, hrt, hW] at h4
    omega
  case capture => have hc := hcommon (hne_of (Or.inr ⟨_, hty⟩)); omega
  case capturePromotion => have hc := hcommon (hne_of (Or.inr ⟨_, hty.1⟩)); omega
  case promotion => have hc := hcommon (hne_of (Or.inl hty.1)); omega
  all_goals (have hc := hcommon (hne_of (Or.inl hty)); omega)

/-! ## kings -/

def kingW (v : Option (Color × Piece)) (_ : Nat) : Nat :=
  match v with
  | some (_, k) => if k = .king then 1 else 0
  | none => 0

theorem countP_range_sumTo (f : Nat → Bool) : ∀ n, (List.range n).countP f = sumTo n (fun i => if f i then 1 else 0)
  | 0 => rfl
  | n + 1 => by
    rw [List.range_succ, List.countP_append, countP_range_sumTo f n]
    simp [sumTo]

theorem kingCount_eq (b : Proofs.Board) : kingCount b = sumW kingW b := by
  unfold kingCount sumW
  rw [countP_range_sumTo]
  apply sumTo_congr
  intro i _
  cases hb : b i with
  | none => simp [kingW]
  | some v => obtain ⟨c, k⟩ := v; by_cases hk : k = .king <;> simp [kingW, hk]

/-- A sound move that does not capture a king keeps the number of kings. -/
theorem kingCount_boardAfter {b : Proofs.Board} {m : Move} (hout : ∀ sq, 64 ≤ sq → b sq = none)
    (hok : MetaOKb b m = true) (hs : MoveSound b m = true) (hcap : m.capture ≠ .king) :
    kingCount (boardAfter b m) = kingCount b := by
  cases hsq : b m.from with
  | none => unfold MetaOKb at hok; rw [hsq] at hok; cases hok
  | some x =>
    obtain ⟨turn, pc⟩ := x
    have hsum := sumW_boardAfter kingW (fun _ => rfl) hout hok hsq
    rw [kingCount_eq, kingCount_eq]
    unfold MoveSound at hs; rw [hsq] at hs
    simp only [Bool.and_eq_true, beq_iff_eq, Bool.or_eq_true, bne_iff_ne, ne_eq, Bool.not_eq_true'] at hs
    obtain ⟨_, hprom⟩ := hs
    unfold MetaOKb at hok; rw [hsq] at hok
    simp only [Bool.and_eq_true, beq_iff_eq, decide_eq_true_eq] at hok
    obtain ⟨_, hty⟩ := hok
    have hrook : ∀ sq, kingW (some (turn, Piece.rook)) sq = 0 := fun _ => rfl
    have hpawn : ∀ sq, kingW (some (turn.opp, Piece.pawn)) sq = 0 := fun _ => rfl
    simp only [hrook, hpawn, ite_self, Nat.add_zero] at hsum
    -- the captured piece is no king, the moved piece is a king iff it was
    have hto : kingW (b m.to) m.to = 0 := by
      cases ety : m.ty <;> rw [ety] at hty <;>
        simp only [Bool.and_eq_true, beq_iff_eq, bne_iff_ne, ne_eq] at hty
      case capture => rw [hty]; simp [kingW, hcap]
      case capturePromotion => rw [hty.1]; simp [kingW, hcap]
      case promotion => rw [hty.1]; rfl
      case enPassant => rw [hty.1]; rfl
      case kingSideCastle => rw [hty.1.1.1]; rfl
      case queenSideCastle => rw [hty.1.1.1]; rfl
      all_goals (rw [hty]; rfl)
    have hmoved : kingW (some (turn, movedPiece m pc)) m.to = kingW (some (turn, pc)) m.from := by
      unfold movedPiece
      by_cases hp : m.isPromotion = true
      · rw [if_pos hp]
        have hpc : pc = .pawn := by
          rcases hprom with h | h
          · rw [hp] at h; cases h
          · exact h
        have hpr : m.promotion ≠ .king := by
          cases ety : m.ty <;> rw [ety] at hty <;>
            simp only [Bool.and_eq_true, beq_iff_eq, bne_iff_ne, ne_eq] at hty <;>
            simp [Move.isPromotion, ety] at hp
          · intro e; have := hty.2; simp [promoOK, e] at this
          · intro e; have := hty.2; simp [promoOK, e] at this
        subst hpc
        simp [kingW, hpr]
      · rw [if_neg hp]; rfl
    omega

/-! ## positions and steps of a well-played game -/

/-- What the link to the reference needs of a position: views agree, a side with a castling right has its
king at home, the castling field holds only the four rights bits, and there are exactly two kings. -/
structure PosOK (p : Position) : Prop where
  rep : Rep p p.square
  kingHome : KingHome p = true
  castling : p.castling < 16
  kings : kingCount p.square = 2

/-- A sound, accurate move that does not capture a king keeps `PosOK`. -/
theorem posOK_move {p q : Position} {m : Move} (h : PosOK p) (hok : MetaOK p m = true)
    (hs : MoveSound p.square m = true) (hcap : m.capture ≠ .king) (hm : p.move m = some q) : PosOK q := by
  obtain ⟨hrep', hc', _⟩ := move_rep h.rep hok hm
  refine ⟨hrep'.self, kingHome_move h.rep hok h.kingHome hcap hm, ?_, ?_⟩
  · rw [hc']; exact andNot_lt_16 h.castling _
  · rw [← hrep'.board_eq]
    rw [kingCount_boardAfter h.rep.out (by rw [← h.rep.metaOK_iff]; exact hok) hs hcap]
    exact h.kings

theorem absCellB_isSome {v : Option (Color × Piece)} (hv : ∀ c, v ≠ some (c, .none)) :
    (absCellB v).isSome = v.isSome := by
  cases v with
  | none => rfl
  | some x =>
    obtain ⟨c, k⟩ := x
    have := hv c
    cases k <;> simp [absCellB, absKind] at this ⊢

/-- **The reference resets its clock exactly when the model does** (for sound moves). -/
theorem reset_eq {p : Position} {b : Proofs.Board} {m : Move} {t : Color} {pc : Piece} (h : Rep p b)
    (hsq : b m.from = some (t, pc)) (hs : MoveSound b m = true) :
    Spec.isPawnMoveOrCapture (abs p t) (absMove m) = isReset m := by
  have hpcne : pc ≠ .none := h.ne_none_of_some hsq
  unfold MoveSound at hs; rw [hsq] at hs
  simp only [Bool.and_eq_true, beq_iff_eq] at hs
  obtain ⟨⟨hreset, _⟩, _⟩ := hs
  rw [hreset]
  unfold Spec.isPawnMoveOrCapture Spec.Pos.occ
  simp only [absMove]
  rw [h.abs_at, h.abs_at, hsq, absCellB_some _ hpcne, absCellB_isSome (fun c => h.wf m.to c)]
  cases pc <;> simp [kindOf] at hpcne ⊢

/-- A rook or queen on the board is sufficient material. -/
theorem insufficientB_false_of_major {b : Proofs.Board} {sq : Nat} {c : Color} {k : Piece} (hsq : sq < 64)
    (hb : b sq = some (c, k)) (hk : k = .rook ∨ k = .queen) : insufficientB b = false := by
  have hmem : (sq, c, k) ∈ others b := by
    unfold others
    rw [List.mem_filterMap]
    refine ⟨sq, List.mem_range.mpr hsq, ?_⟩
    rw [hb]
    rcases hk with rfl | rfl <;> simp
  unfold insufficientB
  generalize others b = o at hmem
  match o, hmem with
  | [], hmem => cases hmem
  | [(s1, c1, k1)], hmem =>
    simp only [List.mem_cons, List.not_mem_nil, or_false, Prod.mk.injEq] at hmem
    obtain ⟨_, _, rfl⟩ := hmem
    rcases hk with rfl | rfl <;> simp
  | [(s1, c1, k1), (s2, c2, k2)], hmem =>
    simp only [List.mem_cons, List.not_mem_nil, or_false, Prod.mk.injEq] at hmem
    rcases hmem with ⟨_, _, rfl⟩ | ⟨_, _, rfl⟩ <;> rcases hk with rfl | rfl <;> simp
  | _ :: _ :: _ :: _, _ => rfl

/-- **The reference's material test after a move is the model's**: the reference tests the material after
every capture and every under-promotion (rook included), the model only after `capture`-typed moves and
(capture-)promotions to bishop or knight; the difference (promotions to queen or rook with capture, to rook
without) leaves a queen or rook on the board, hence sufficient material. -/
theorem material_flag_eq {p q : Position} {m : Move} {t : Color} {pc : Piece} (h : PosOK p)
    (hok : MetaOK p m = true) (hsq : p.square m.from = some (t, pc)) (hcl : ClassOK (abs p t) m = true)
    (hs : MoveSound p.square m = true) (hcap : m.capture ≠ .king) (hm : p.move m = some q) :
    (((abs p t).occ (absMove m).to || ((absMove m).promo.isSome && decide ((absMove m).promo ≠ some Spec.Kind.queen))) &&
        Spec.insufficientMaterial (abs q t.opp)) =
      (materialTrigger m && q.hasInsufficientMaterial) := by
  have hq := posOK_move h hok hs hcap hm
  have hI : Spec.insufficientMaterial (abs q t.opp) = q.hasInsufficientMaterial := by
    rw [spec_insufficient hq.rep, material_eq hq.rep hq.kings]
  rw [hI]
  cases hIq : q.hasInsufficientMaterial with
  | false => simp
  | true =>
    simp only [Bool.and_true]
    have hokb : MetaOKb p.square m = true := by rw [← h.rep.metaOK_iff]; exact hok
    have hafter := boardAfter_spec hokb hsq
    have hqb : q.square = boardAfter p.square m := ((move_rep h.rep hok hm).1.board_eq).symm
    have hInB : insufficientB q.square = true := by rw [← material_eq hq.rep hq.kings]; exact hIq
    have hocc : (abs p t).occ m.to = (p.square m.to).isSome := by
      unfold Spec.Pos.occ
      rw [h.rep.abs_at, absCellB_isSome (fun c => h.rep.wf m.to c)]
    unfold ClassOK at hcl
    simp only [Bool.and_eq_true, beq_iff_eq] at hcl
    obtain ⟨⟨⟨⟨_, hP⟩, _⟩, _⟩, _⟩ := hcl
    unfold MetaOKb at hokb; rw [hsq] at hokb
    simp only [Bool.and_eq_true, beq_iff_eq, decide_eq_true_eq] at hokb
    obtain ⟨⟨_, hto⟩, hty⟩ := hokb
    simp only [absMove, hocc]
    -- a queen or rook that has just appeared on `to` contradicts insufficiency
    have hmajor : m.isPromotion = true → (m.promotion = .rook ∨ m.promotion = .queen) → False := by
      intro hp hk
      have hto' : q.square m.to = some (t, m.promotion) := by
        rw [hqb, hafter.2.1]; unfold movedPiece; rw [if_pos hp]
      have := insufficientB_false_of_major hto hto' hk
      rw [this] at hInB; cases hInB
    unfold materialTrigger
    cases ety : m.ty <;> rw [ety] at hty <;>
      simp only [Bool.and_eq_true, beq_iff_eq, bne_iff_ne, ne_eq] at hty <;>
      simp only [Move.isPromotion, ety, reduceCtorEq, decide_false, decide_true, Bool.or_false, Bool.or_true,
        Bool.false_or, Bool.false_and, Bool.true_and] at hP hmajor ⊢
    case capture => rw [hty]; rfl
    case capturePromotion =>
      rw [hty.1]
      have hpo := hty.2
      unfold promoOK at hpo
      simp only [Bool.or_eq_true, beq_iff_eq] at hpo
      rcases hpo with ((hq' | hr) | hn) | hb'
      · exact absurd (Or.inr hq') (hmajor trivial)
      · exact absurd (Or.inl hr) (hmajor trivial)
      · simp [hn]
      · simp [hb']
    case promotion =>
      rw [hty.1]
      have hpo := hty.2
      unfold promoOK at hpo
      simp only [Bool.or_eq_true, beq_iff_eq] at hpo
      rcases hpo with ((hq' | hr) | hn) | hb'
      · simp [hq', absKind]
      · exact absurd (Or.inl hr) (hmajor trivial)
      · simp [hn, absKind]
      · simp [hb', absKind]
    case enPassant =>
      have hnone : m.promotion = .none := by simpa using hP.symm
      simp [hty.1, hnone, absKind]
    case kingSideCastle =>
      have hnone : m.promotion = .none := by simpa using hP.symm
      simp [hty.1.1.1, hnone, absKind]
    case queenSideCastle =>
      have hnone : m.promotion = .none := by simpa using hP.symm
      simp [hty.1.1.1, hnone, absKind]
    all_goals
      have hnone : m.promotion = .none := by simpa using hP.symm
      simp [hty, hnone, absKind]

end Morlock.Proofs.Draw
