import Morlock.Proofs.ChainReach
import Morlock.Proofs.GenExample
/-!
# Chain: the initial position satisfies `WFplay`; plain `WF` is not preserved
-/
namespace Morlock.Proofs.Chain
open Morlock Morlock.Model Morlock.Proofs Morlock.Proofs.Gen

/-- The initial position (White to move) satisfies the play invariant. -/
theorem startPos_wfplay : WFplay startPos .white := ⟨startPos_wf, by decide +kernel⟩

/-- "Kiwipete" satisfies the play invariant for either side to move. -/
theorem kiwiPos_wfplay : WFplay kiwiPos .white ∧ WFplay kiwiPos .black :=
  ⟨⟨kiwiPos_wf.1, by decide +kernel⟩, ⟨kiwiPos_wf.2, by decide +kernel⟩⟩

/-- White king e1, black king e8 with both black castling rights, white queen e7 — White to move while Black
is in check. It satisfies `WF` (C01), but not `WFplay`. -/
def badPl : List (Nat × Color × Piece) := [(3, .white, .king), (59, .black, .king), (51, .white, .queen)]
def badPos : Position := (Position.newPosition badPl 12 0).getD {}
/-- Qe7xe8, capturing the king. -/
def badMove : Move := { ty := .capture, «from» := 51, to := 59, piece := .queen, capture := .king }

theorem badPos_eq : Position.newPosition badPl 12 0 = some badPos := by decide +kernel

theorem badPos_wf : WF badPos .white := by
  have hv : ValidPlacements badPl := by
    intro x hx
    simp only [badPl, List.mem_cons, List.not_mem_nil, or_false] at hx
    rcases hx with rfl | rfl | rfl <;> simp
  exact ⟨(newPosition_rep hv badPos_eq).1.self, by decide +kernel⟩

/-- **`WF` alone is not preserved** by generated moves that `Position.move` accepts: in `badPos` the generator
emits Qxe8 (the capture of the king), `Position.move` accepts it, and the result violates `WF` — Black keeps
its castling rights with a white queen on e8 (`KingHome` fails). The extra clause of `WFplay` ("the side not
to move is not in check") is what excludes this. -/
theorem wf_not_preserved : ∃ (p q : Position) (m : Move),
    WF p .white ∧ m ∈ p.pseudoLegalMoves .white ∧ p.move m = some q ∧ ¬ WF q .black ∧
      p.isChecked .black = true := by
  have hq : (badPos.move badMove).isSome = true := by decide +kernel
  obtain ⟨q, hq'⟩ := Option.isSome_iff_exists.mp hq
  refine ⟨badPos, q, badMove, badPos_wf, by decide +kernel, hq', ?_, by decide +kernel⟩
  intro hw
  have h2 := hw.2
  have hcomp : ((badPos.move badMove).map fun r => WFc r .black) = some false := by decide +kernel
  rw [hq'] at hcomp
  simp only [Option.map_some, Option.some.injEq] at hcomp
  rw [hcomp] at h2
  cases h2

end Morlock.Proofs.Chain
