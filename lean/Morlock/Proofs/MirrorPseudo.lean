import Morlock.Proofs.MirrorAttack
import Morlock.Proofs.GenSpec
/-!
# C20: the pseudo-legal moves of a mirror image are the mirror images of the pseudo-legal moves
-/
namespace Morlock.Spec
open Morlock.Proofs.Attack Morlock.Proofs.Gen

theorem mirrorSq_home {f : Nat} (hf : f < 8) (c : Color) :
    mirrorSq (mkSq f (homeRank c)) = mkSq f (homeRank c.opp) := by
  rw [mirrorSq_mkSq hf (homeRank_lt c), homeRank_opp]

theorem mkSq_lt {f r : Nat} (hf : f < 8) (hr : r < 8) : mkSq f r < 64 := by
  show (8 * r + f : Nat) < 64
  omega

theorem Mir.home_at {p q : Pos} (h : Mir p q) {f : Nat} (hf : f < 8) (c : Color) :
    q.at (mkSq f (homeRank c.opp)) = mirrorCell (p.at (mkSq f (homeRank c))) := by
  rw [← mirrorSq_home hf c, h.cell _ (mkSq_lt hf (homeRank_lt c))]

theorem Mir.home_occ {p q : Pos} (h : Mir p q) {f : Nat} (hf : f < 8) (c : Color) :
    q.occ (mkSq f (homeRank c.opp)) = p.occ (mkSq f (homeRank c)) := by
  rw [← mirrorSq_home hf c, h.occ _ (mkSq_lt hf (homeRank_lt c))]

theorem withPromo_mir {c : Color} {s t : Nat} (ht : t < 64) {m : SMove} (hm : m ∈ withPromo c s t) :
    mirrorMove m ∈ withPromo c.opp (mirrorSq s) (mirrorSq t) := by
  obtain ⟨h1, h2, h3⟩ := mem_withPromo.mp hm
  have hr : rankOf t < 8 := by unfold rankOf; omega
  have hl := lastRank_lt c
  refine mem_withPromo.mpr ⟨by simp [mirrorMove, h1], by simp [mirrorMove, h2], ?_⟩
  rw [rankOf_mirrorSq ht, lastRank_opp]
  rcases h3 with ⟨h3, h4⟩ | ⟨h3, h4⟩
  · exact Or.inl ⟨by omega, h4⟩
  · exact Or.inr ⟨by omega, h4⟩

theorem pawnPushes_mir {p q : Pos} (h : Mir p q) (c : Color) {s : Nat} (hs : s < 64) {m : SMove}
    (hm : m ∈ pawnPushes p c s) : mirrorMove m ∈ pawnPushes q c.opp (mirrorSq s) := by
  obtain ⟨t, hst, hocc, hrest⟩ := mem_pawnPushes.mp hm
  have ht : t < 64 := step_lt hst
  have hst' : step (mirrorSq s) 0 (fwd c.opp) = some (mirrorSq t) := by
    rw [fwd_opp, step_mirror hs, hst]; rfl
  refine mem_pawnPushes.mpr ⟨mirrorSq t, hst', by rw [h.occ t ht]; exact hocc, ?_⟩
  rcases hrest with hw | ⟨hr, t2, hst2, hocc2, he⟩
  · exact Or.inl (withPromo_mir ht hw)
  · right
    have ht2 : t2 < 64 := step_lt hst2
    have hrs : rankOf s < 8 := by unfold rankOf; omega
    refine ⟨by rw [rankOf_mirrorSq hs, startRank_opp, hr], mirrorSq t2, ?_, by rw [h.occ t2 ht2]; exact hocc2, ?_⟩
    · rw [fwd_opp, step_mirror ht, hst2]; rfl
    · rw [he]; rfl

theorem pawnCaps_mir {p q : Pos} (h : Mir p q) (c : Color) {s : Nat} (hs : s < 64) {m : SMove}
    (hm : m ∈ pawnCaps p c s) : mirrorMove m ∈ pawnCaps q c.opp (mirrorSq s) := by
  obtain ⟨t, htm, hrest⟩ := mem_pawnCaps.mp hm
  have ht : t < 64 := pawnTargets_lt _ _ _ htm
  refine mem_pawnCaps.mpr ⟨mirrorSq t, mem_pawnTargets_mirror c hs htm, ?_⟩
  rcases hrest with ⟨⟨k, hk⟩, hw⟩ | ⟨hn, hep, he⟩
  · exact Or.inl ⟨⟨k, h.at_some ht hk⟩, withPromo_mir ht hw⟩
  · refine Or.inr ⟨h.at_none ht hn, by rw [h.ep, hep]; rfl, by rw [he]; rfl⟩

theorem officerNormal_mir {p q : Pos} (h : Mir p q) (c : Color) (k : Kind) {s : Nat} (hs : s < 64) {m : SMove}
    (hm : m ∈ officerNormal p c k s) : mirrorMove m ∈ officerNormal q c.opp k (mirrorSq s) := by
  obtain ⟨h1, h2, h3, h4⟩ := mem_officerNormal.mp hm
  have ht : m.to < 64 := officerTargets_lt _ _ _ _ h3
  refine mem_officerNormal.mpr ⟨by simp [mirrorMove, h1], h2, mem_officerTargets_mirror h.occ k hs h3, ?_⟩
  intro k2 hat
  have : q.at (mirrorSq m.to) = some (c.opp, k2) := hat
  rw [h.cell _ ht, mirrorCell_eq_some, Color.opp_opp] at this
  exact h4 k2 this

theorem fE_lt : fE < 8 := by decide
theorem fA_lt : fA < 8 := by decide
theorem fB_lt : fB < 8 := by decide
theorem fC_lt : fC < 8 := by decide
theorem fD_lt : fD < 8 := by decide
theorem fF_lt : fF < 8 := by decide
theorem fG_lt : fG < 8 := by decide
theorem fH_lt : fH < 8 := by decide

theorem castlesFrom_mir {p q : Pos} (h : Mir p q) (c : Color) (k : Kind) {s : Nat} {m : SMove}
    (hm : m ∈ castlesFrom p c k s) : mirrorMove m ∈ castlesFrom q c.opp k (mirrorSq s) := by
  unfold castlesFrom at hm ⊢
  split at hm
  · rename_i hc
    obtain ⟨hk, hse⟩ := hc
    have hse' : mirrorSq s = mkSq fE (homeRank c.opp) := by rw [hse, mirrorSq_home fE_lt]
    rw [if_pos ⟨hk, hse'⟩]
    rw [List.mem_append] at hm ⊢
    rcases hm with hm | hm
    · left
      split at hm
      · rename_i hcond
        obtain ⟨c1, c2, c3, c4⟩ := hcond
        rw [List.mem_singleton] at hm
        rw [if_pos ⟨by rw [h.right]; exact c1, by rw [h.home_at fH_lt, c2]; rfl,
          by rw [h.home_occ fF_lt]; exact c3, by rw [h.home_occ fG_lt]; exact c4⟩]
        rw [List.mem_singleton, hm]
        show (⟨mirrorSq s, mirrorSq (mkSq fG (homeRank c)), none⟩ : SMove) = _
        rw [mirrorSq_home fG_lt]
      · cases hm
    · right
      split at hm
      · rename_i hcond
        obtain ⟨c1, c2, c3, c4, c5⟩ := hcond
        rw [List.mem_singleton] at hm
        rw [if_pos ⟨by rw [h.right]; exact c1, by rw [h.home_at fA_lt, c2]; rfl,
          by rw [h.home_occ fD_lt]; exact c3, by rw [h.home_occ fC_lt]; exact c4,
          by rw [h.home_occ fB_lt]; exact c5⟩]
        rw [List.mem_singleton, hm]
        show (⟨mirrorSq s, mirrorSq (mkSq fC (homeRank c)), none⟩ : SMove) = _
        rw [mirrorSq_home fC_lt]
      · cases hm
  · cases hm

theorem movesFrom_mir {p q : Pos} (h : Mir p q) {s : Nat} (hs : s < 64) {m : SMove}
    (hm : m ∈ movesFrom p s) : mirrorMove m ∈ movesFrom q (mirrorSq s) := by
  obtain ⟨k, hat⟩ := at_of_mem_movesFrom hm
  have hat' : q.at (mirrorSq s) = some (q.turn, k) := by rw [h.turn]; exact h.at_some hs hat
  by_cases hk : k = .pawn
  · subst hk
    rw [movesFrom_pawn hat, List.mem_append] at hm
    rw [movesFrom_pawn hat', List.mem_append, h.turn]
    rcases hm with hm | hm
    · exact Or.inl (pawnPushes_mir h _ hs hm)
    · exact Or.inr (pawnCaps_mir h _ hs hm)
  · rw [movesFrom_officer hat hk, List.mem_append] at hm
    rw [movesFrom_officer hat' hk, List.mem_append, h.turn]
    rcases hm with hm | hm
    · exact Or.inl (officerNormal_mir h _ k hs hm)
    · exact Or.inr (castlesFrom_mir h _ k hm)

theorem pseudoMoves_mir_imp {p q : Pos} (h : Mir p q) {m : SMove} (hm : m ∈ pseudoMoves p) :
    mirrorMove m ∈ pseudoMoves q := by
  obtain ⟨hlt, hmf⟩ := mem_pseudoMoves.mp hm
  exact mem_pseudoMoves.mpr ⟨mirrorSq_lt hlt, movesFrom_mir h hlt hmf⟩

/-- A move is pseudo-legal in a mirror image iff its mirror image is pseudo-legal in the original. -/
theorem pseudoMoves_mir {p q : Pos} (h : Mir p q) {m : SMove} :
    m ∈ pseudoMoves q ↔ mirrorMove m ∈ pseudoMoves p := by
  constructor
  · exact pseudoMoves_mir_imp h.symm
  · intro hm
    have := pseudoMoves_mir_imp h hm
    rwa [mirrorMove_mirrorMove] at this

theorem to_lt_of_pseudo {p : Pos} {m : SMove} (hm : m ∈ pseudoMoves p) : m.from < 64 ∧ m.to < 64 := by
  obtain ⟨hlt, hmf⟩ := mem_pseudoMoves.mp hm
  refine ⟨hlt, ?_⟩
  obtain ⟨k, hat⟩ := at_of_mem_movesFrom hmf
  by_cases hk : k = .pawn
  · subst hk
    rw [movesFrom_pawn hat, List.mem_append] at hmf
    rcases hmf with hmf | hmf
    · obtain ⟨t, hst, _, hw | ⟨_, t2, hst2, _, he⟩⟩ := mem_pawnPushes.mp hmf
      · rw [(mem_withPromo.mp hw).2.1]; exact step_lt hst
      · rw [he]; exact step_lt hst2
    · obtain ⟨t, ht, ⟨_, hw⟩ | ⟨_, _, he⟩⟩ := mem_pawnCaps.mp hmf
      · rw [(mem_withPromo.mp hw).2.1]; exact pawnTargets_lt _ _ _ ht
      · rw [he]; exact pawnTargets_lt _ _ _ ht
  · rw [movesFrom_officer hat hk, List.mem_append] at hmf
    rcases hmf with hmf | hmf
    · exact officerTargets_lt _ _ _ _ (mem_officerNormal.mp hmf).2.2.1
    · unfold castlesFrom at hmf
      split at hmf
      · rw [List.mem_append] at hmf
        rcases hmf with hmf | hmf <;> split at hmf <;>
          first
          | (rw [List.mem_singleton] at hmf; rw [hmf]
             exact mkSq_lt (by decide) (homeRank_lt _))
          | cases hmf
      · cases hmf

end Morlock.Spec
