import Morlock.Proofs.AttackBits
/-!
# Reference targets are squares of the board (`< 64`), so their bitboards fit in 64 bits
-/
namespace Morlock.Proofs.Attack
open Morlock Morlock.Spec

theorem step_lt {sq t : Nat} {df dr : Int} (h : step sq df dr = some t) : t < 64 := by
  unfold step at h
  simp only [] at h
  split at h
  · injection h with h
    subst h
    unfold mkSq
    omega
  · contradiction

theorem ray_lt (o : Nat → Bool) (df dr : Int) : ∀ fuel sq t, t ∈ ray o sq df dr fuel → t < 64 := by
  intro fuel
  induction fuel with
  | zero => intro sq t h; simp [ray] at h
  | succ fuel ih =>
    intro sq t h
    unfold ray at h
    split at h
    · simp at h
    · rename_i s hs
      split at h
      · simp only [List.mem_singleton] at h; subst h; exact step_lt hs
      · simp only [List.mem_cons] at h
        rcases h with h | h
        · subst h; exact step_lt hs
        · exact ih s t h

theorem officerTargets_lt (o : Nat → Bool) (k : Kind) (sq t : Nat) (h : t ∈ officerTargets o k sq) : t < 64 := by
  cases k <;> simp only [officerTargets, List.mem_flatMap, List.mem_filterMap] at h
  · simp at h
  · obtain ⟨⟨df, dr⟩, _, h⟩ := h; exact ray_lt _ _ _ _ _ _ h
  · obtain ⟨⟨df, dr⟩, _, h⟩ := h; exact step_lt h
  · obtain ⟨⟨df, dr⟩, _, h⟩ := h; exact ray_lt _ _ _ _ _ _ h
  · obtain ⟨⟨df, dr⟩, _, h⟩ := h; exact ray_lt _ _ _ _ _ _ h
  · obtain ⟨⟨df, dr⟩, _, h⟩ := h; exact step_lt h

theorem pawnTargets_lt (c : Color) (sq t : Nat) (h : t ∈ pawnTargets c sq) : t < 64 := by
  simp only [pawnTargets, List.mem_filterMap, List.mem_cons, List.not_mem_nil, or_false, id] at h
  obtain ⟨a, ha, e⟩ := h
  rcases ha with ha | ha <;> exact step_lt (ha ▸ e)

end Morlock.Proofs.Attack
