import Morlock.Proofs.ChainSound
import Morlock.Proofs.ChainExample
/-!
# Chain (→ C05): generated plays on the arena board

* `push_wfplay` — one generated move on a board whose current position satisfies `WFplay` is a `FullStep` and
  keeps `WFplay`;
* `play_invariant` — playing generated moves from such a board with a good history keeps both;
* `fullPlay_of_genPlay` — hence `FullPlay` (the hypothesis of C05 `game_link`).
-/
namespace Morlock.Proofs.Chain
open Morlock Morlock.Model Morlock.Model.World Morlock.Proofs Morlock.Proofs.Arena Morlock.Proofs.Gen
  Morlock.Proofs.Draw Morlock.Proofs.Material

/-! ## on the arena board -/

/-- **One generated move on the arena board**: the step is fully sound and the new current position satisfies
`WFplay` for the new side to move. -/
theorem push_wfplay {z : ZTable} {w w' : World} {b : Nat} {m : Move} (hw : WFWorld w) (hb : b < w.boards.size)
    (hwf : WFplay (w.cur b).pos (w.board b).turn) (hm : m ∈ (w.cur b).pos.pseudoLegalMoves (w.board b).turn)
    (h : w.pushMove z b m = some w') :
    FullStep (w.cur b).pos (w.board b).turn m (w'.cur b).pos ∧ WFplay (w'.cur b).pos (w'.board b).turn := by
  obtain ⟨_, ht, _, hmv, _⟩ := push_line hw hb h
  obtain ⟨h1, h2⟩ := step_wfplay hwf hm hmv
  exact ⟨h1, by rw [ht]; exact h2⟩

/-- **The invariant along a generated play on the arena board.** -/
theorem play_invariant {z : ZTable} {b : Nat} (hz : z.enpassant 0 = 0) (ms rest : List Move) :
    ∀ {w w1 : World}, WFWorld w → b < w.boards.size → GoodHistory z w b →
      WFplay (w.cur b).pos (w.board b).turn → GenPlay (w.cur b).pos (w.board b).turn (ms ++ rest) →
      pushAll z b w ms = some w1 →
      WFWorld w1 ∧ b < w1.boards.size ∧ GoodHistory z w1 b ∧
        WFplay (w1.cur b).pos (w1.board b).turn ∧ GenPlay (w1.cur b).pos (w1.board b).turn rest := by
  induction ms with
  | nil =>
    intro w w1 hw hb hg hwf hgen h
    cases h
    exact ⟨hw, hb, hg, hwf, hgen⟩
  | cons m r ih =>
    intro w w1 hw hb hg hwf hgen h
    simp only [pushAll] at h
    cases hpm : w.pushMove z b m with
    | none => rw [hpm] at h; cases h
    | some w2 =>
      rw [hpm] at h
      simp only [Option.bind_some] at h
      obtain ⟨_, ht, _, hmv, _⟩ := push_line hw hb hpm
      obtain ⟨hfull, hwf2⟩ := push_wfplay hw hb hwf hgen.1 hpm
      have hb2 : b < w2.boards.size := by rw [boards_size_push hpm]; exact hb
      have hgen2 : GenPlay (w2.cur b).pos (w2.board b).turn (r ++ rest) := by
        rw [ht]; exact hgen.2 _ hmv
      exact ih (wf_push hw hb hpm) hb2 (goodHistory_push hz hw hb hpm hg hfull.good) hwf2 hgen2 h

/-- **`FullPlay` from the start conditions**: on a board whose current position satisfies `WFplay`, every
generated play is a `FullPlay` (every accepted move is a fully sound step). -/
theorem fullPlay_of_genPlay {z : ZTable} {b : Nat} (ms : List Move) :
    ∀ {w : World}, WFWorld w → b < w.boards.size → WFplay (w.cur b).pos (w.board b).turn →
      GenPlay (w.cur b).pos (w.board b).turn ms → FullPlay z b w ms := by
  induction ms with
  | nil => intro w _ _ _ _; trivial
  | cons m r ih =>
    intro w hw hb hwf hgen w' hpm
    obtain ⟨_, ht, _, hmv, _⟩ := push_line hw hb hpm
    obtain ⟨hfull, hwf2⟩ := push_wfplay hw hb hwf hgen.1 hpm
    have hb' : b < w'.boards.size := by rw [boards_size_push hpm]; exact hb
    refine ⟨hfull, ih (wf_push hw hb hpm) hb' hwf2 ?_⟩
    rw [ht]; exact hgen.2 _ hmv

/-- The board set up by `newBoard`: well-formed world, valid index, good history (clock `≥ 0`), and the
position / side given. -/
theorem newBoard_facts {w : World} (hw : WFWorld w) (z : ZTable) (pos : Position) (turn : Color) {np : Int}
    (hnp : 0 ≤ np) (fm : Int) :
    WFWorld (w.newBoard z pos turn np fm).1 ∧
    (w.newBoard z pos turn np fm).2 < (w.newBoard z pos turn np fm).1.boards.size ∧
    GoodHistory z (w.newBoard z pos turn np fm).1 (w.newBoard z pos turn np fm).2 ∧
    ((w.newBoard z pos turn np fm).1.cur (w.newBoard z pos turn np fm).2).pos = pos ∧
    ((w.newBoard z pos turn np fm).1.board (w.newBoard z pos turn np fm).2).turn = turn := by
  have hc := newBoard_cur w z pos turn np fm
  refine ⟨wf_newBoard hw z pos turn np fm, by simp [World.newBoard], goodHistory_newBoard w z pos turn fm hnp, ?_,
    hc.2.1⟩
  rw [hc.1]


/-- The initial position meets the extra start conditions of C05 `game_link`: only the four rights bits, two kings. -/
theorem startPos_posOK : PosOK startPos :=
  posOK_of_wfplay startPos_wfplay (by decide +kernel) (by decide +kernel)

end Morlock.Proofs.Chain
