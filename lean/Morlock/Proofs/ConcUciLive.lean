import Morlock.Proofs.ConcUciQuiet
/-!
# UCI driver model: the request the GUI is waiting on, and why it gets answered (C04)
-/
namespace Morlock.Model.UciConc

/-- commands that make the result of an earlier `go` unwanted (the loop calls `ensureInactive` for them) -/
def Cmd.supersedes : Cmd → Bool
  | .ucinewgame | .position | .go _ | .goMalformed | .quit | .eof => true
  | _ => false

/-- (log newest first) the arguments of the latest well-formed `go`, unless a later command superseded it -/
def cur : List Ev → Option GoArgs
  | [] => none
  | .consume (.go g) :: _ => some g
  | .consume c :: es => if c.supersedes then none else cur es
  | _ :: es => cur es

/-- (log newest first) a `stop` was consumed after the latest well-formed `go` -/
def stopped : List Ev → Bool
  | [] => false
  | .consume (.go _) :: _ => false
  | .consume .stop :: _ => true
  | _ :: es => stopped es

/-- loop states in which the latest `go` (if not superseded) has been numbered and stored into `d.active` -/
def LPc.live : LPc → Bool
  | .goSpawn _ _ _ | .goTimer _ | .select | .ready | .ponderChk _ | .ponderSend _ | .stopLoad | .stopChk _
  | .haltLock (.stop _) | .haltAwait (.stop _) _ | .haltQuit (.stop _) _ | .haltRead (.stop _) _
  | .haltUnlock (.stop _) _ | .complete _ _ | .sendInfo _ _ | .sendBest _ _ => true
  | _ => false

/-- after `d.searches++`, before the forwarder of this `go` exists -/
def LPc.preSpawn : LPc → Bool
  | .bookStore _ | .analyze _ _ | .goStore _ _ _ | .goSpawn _ _ _ => true
  | _ => false

/-- what the loop's program counter implies about the current request `c = cur log`, `K = d.searches` and
`st = stopped log` -/
def PcOk (pc : LPc) (c : Option GoArgs) (K : Nat) (st : Bool) : Prop :=
  match pc with
  | .ensureStore (.go g) | .haltLock (.ensure (.go g)) | .haltAwait (.ensure (.go g)) _
  | .haltQuit (.ensure (.go g)) _ | .haltRead (.ensure (.go g)) _ | .haltUnlock (.ensure (.go g)) _
  | .goStart g => c = some g ∧ st = false
  | .analyze g _ | .goStore g _ _ => c = some g ∧ g.book = .miss ∧ st = false ∧ 1 ≤ K
  | .goSpawn g id _ => c = some g ∧ g.book = .miss ∧ st = false ∧ id = K ∧ 1 ≤ K
  | .bookStore _ => (∃ g, c = some g ∧ g.book = .hit) ∧ st = false ∧ 1 ≤ K
  | .goTimer id => (∃ g, c = some g ∧ g.book = .miss ∧ g.movetime = true) ∧ st = false ∧ id = K ∧ 1 ≤ K
  | .ensureStore _ | .haltLock (.ensure _) | .haltAwait (.ensure _) _ | .haltQuit (.ensure _) _
  | .haltRead (.ensure _) _ | .haltUnlock (.ensure _) _
  | .waitFwd | .closeOut | .closeDriver | .finished => c = none
  | .haltLock (.stop id) | .haltAwait (.stop id) _ | .haltQuit (.stop id) _ | .haltRead (.stop id) _
  | .haltUnlock (.stop id) _ => id = K ∧ id ≠ 0
  | _ => True

/-- the loop is executing `stop(K)` for the current go number `K`: it will either find the work done or reach
`searchCompleted(K, _)` -/
def LPc.stopping (K : Nat) : LPc → Bool
  | .stopChk id => id == K
  | .haltLock (.stop id) | .haltAwait (.stop id) _ | .haltQuit (.stop id) _ | .haltRead (.stop id) _ => id == K
  | .haltUnlock (.stop id) (some _) => id == K
  | .complete id _ => id == K
  | _ => false

/-- `searchCompleted(K, _)` is about to run its CAS in the loop -/
def LPc.completing (K : Nat) : LPc → Bool
  | .complete id _ => id == K
  | _ => false

/-- `e.Halt` found no active search (for a `stop`) -/
def LPc.haltFailed : LPc → Bool
  | .haltUnlock (.stop _) none => true
  | _ => false

/-- live, and the forwarder of the current go has been spawned -/
def LPc.spawned : LPc → Bool
  | .goSpawn _ _ _ => false
  | pc => pc.live

/-- live, and the timer of the current go (if any) has been started -/
def LPc.timed : LPc → Bool
  | .goSpawn _ _ _ | .goTimer _ => false
  | pc => pc.live

def FPc.past : FPc → Bool
  | .wgDone | .finished => true
  | _ => false

/-- a timer for go `K` has not fired yet -/
def TimerPending (s : State) : Prop := ∃ t ∈ s.timers, t.id = s.searches ∧ t.fired = false

/-- the current go number has been committed (its `bestmove` is decided) -/
def Committed (s : State) : Prop := 1 ≤ commitCount s.searches s.log

end Morlock.Model.UciConc

namespace Morlock.Proofs.ConcUci
open Morlock.Model.UciConc

structure ReqInv (s : State) : Prop where
  pc : PcOk s.loop (cur s.log) s.searches (stopped s.log)
  fid : ∀ f ∈ s.fwds, f.id ≠ 0 ∧ f.id ≤ s.searches
  fidLt : s.loop.preSpawn = true → ∀ f ∈ s.fwds, f.id < s.searches
  fmiss : s.loop.live = true → ∀ f ∈ s.fwds, f.id = s.searches → ∀ g, cur s.log = some g → g.book = .miss

theorem reqInv_init (cmds : List Cmd) (pcap : Nat) : ReqInv (init cmds pcap) := by
  refine ⟨?_, ?_, ?_, ?_⟩ <;> simp [init, PcOk, LPc.preSpawn]

@[simp] theorem cur_send (l : Line) (es : List Ev) : cur (.send l :: es) = cur es := rfl
@[simp] theorem cur_sendClosed (l : Line) (es : List Ev) : cur (.sendClosed l :: es) = cur es := rfl
@[simp] theorem cur_commit (i l : Nat) (es : List Ev) : cur (.commit i l :: es) = cur es := rfl
@[simp] theorem cur_sendOut (s : State) (l : Line) : cur (sendOut s l).log = cur s.log := by
  unfold sendOut; split <;> rfl
@[simp] theorem stopped_send (l : Line) (es : List Ev) : stopped (.send l :: es) = stopped es := rfl
@[simp] theorem stopped_sendClosed (l : Line) (es : List Ev) : stopped (.sendClosed l :: es) = stopped es := rfl
@[simp] theorem stopped_commit (i l : Nat) (es : List Ev) : stopped (.commit i l :: es) = stopped es := rfl
@[simp] theorem stopped_sendOut (s : State) (l : Line) : stopped (sendOut s l).log = stopped s.log := by
  unfold sendOut; split <;> rfl

/-- transitions that keep `searches` and the forwarders: only the fact about the loop pc has to be re-proved -/
theorem reqInv_of {s s' : State} (h : ReqInv s) (hn : s'.searches = s.searches) (hf : s'.fwds = s.fwds)
    (hp : s'.loop.preSpawn = true → s.loop.preSpawn = true)
    (hm : s'.loop.live = true →
      (s.loop.live = true ∧ cur s'.log = cur s.log) ∨ s.loop.preSpawn = true ∨ cur s'.log = none)
    (hpc : PcOk s'.loop (cur s'.log) s'.searches (stopped s'.log)) : ReqInv s' := by
  obtain ⟨h1, h2, h3, h4⟩ := h
  refine ⟨hpc, by rw [hf, hn]; exact h2, fun hh => by rw [hf, hn]; exact h3 (hp hh), ?_⟩
  intro hl f hfm hid g hg
  rw [hf] at hfm; rw [hn] at hid
  rcases hm hl with ⟨a, b⟩ | a | a
  · exact h4 a f hfm hid g (b ▸ hg)
  · exact absurd hid (Nat.ne_of_lt (h3 a f hfm))
  · rw [a] at hg; cases hg

@[simp] theorem dispatch_preSpawn (c : Cmd) : (dispatch c).preSpawn = false := by cases c <;> rfl
@[simp] theorem afterHalt_preSpawn (k : HaltK) (res : Option Nat) :
    (afterHalt .repaired k res).preSpawn = false := by
  cases k with
  | ensure a => cases a <;> rfl
  | stop i => cases res <;> rfl

set_option linter.unusedSimpArgs false in
theorem reqInv_loop (s : State) (c : Sel) (ha : ActiveInv s) (h : ReqInv s) : ReqInv (stepLoop .repaired s c) := by
  have h1 := h.pc
  have hact := ha.act
  have hpend := ha.pend
  unfold stepLoop
  cases hpc : s.loop <;> simp only [hpc] at h1 hpend ⊢
  all_goals (repeat' split)
  all_goals (first
    | exact h
    | skip)
  all_goals (
    (try cases ‹Cmd›) <;> (try cases ‹HaltK›) <;> (try cases ‹After›) <;> (try cases ‹Option Nat›) <;>
    first
    | (refine reqInv_of h rfl rfl ?_ ?_ ?_ <;>
        simp_all [PcOk, LPc.preSpawn, LPc.live, LPc.pendingId, dispatch, afterHalt, Cfg.repaired, cur, stopped,
          Cmd.supersedes]; done)
    | (refine reqInv_of h ?_ ?_ ?_ ?_ ?_ <;>
        simp_all [PcOk, LPc.preSpawn, LPc.live, LPc.pendingId, dispatch, afterHalt, Cfg.repaired, cur, stopped,
          Cmd.supersedes]; done)
    | skip)
  all_goals (try (refine reqInv_of h rfl rfl ?_ ?_ ?_ <;>
        simp_all [PcOk, LPc.preSpawn, LPc.live, LPc.pendingId, afterHalt, Cfg.repaired, cur, stopped,
          Cmd.supersedes, av] <;> omega))
  · -- goStart, book error: numbered, back to select; every forwarder has a smaller id
    simp only [PcOk] at h1
    refine ⟨by simp [PcOk], fun f hf => ⟨(h.fid f hf).1, Nat.le_succ_of_le (h.fid f hf).2⟩,
      fun _ f hf => Nat.lt_succ_of_le (h.fid f hf).2, ?_⟩
    intro _ f hf hid; have := (h.fid f hf).2; simp at hid; omega
  · -- goStart, book hit
    simp only [PcOk] at h1
    refine ⟨?_, fun f hf => ⟨(h.fid f hf).1, Nat.le_succ_of_le (h.fid f hf).2⟩,
      fun _ f hf => Nat.lt_succ_of_le (h.fid f hf).2, ?_⟩
    · simp only [PcOk]; exact ⟨⟨_, h1.1, by assumption⟩, h1.2, by omega⟩
    · intro hl; simp [LPc.live] at hl
  · -- goStart, book miss
    simp only [PcOk] at h1
    refine ⟨?_, fun f hf => ⟨(h.fid f hf).1, Nat.le_succ_of_le (h.fid f hf).2⟩,
      fun _ f hf => Nat.lt_succ_of_le (h.fid f hf).2, ?_⟩
    · simp only [PcOk]; exact ⟨h1.1, by assumption, h1.2, by omega⟩
    · intro hl; simp [LPc.live] at hl
  all_goals
    -- goSpawn: the forwarder of go `K` appears
    simp only [PcOk] at h1
    obtain ⟨c1, c2, c3, c4, c5⟩ := h1
    have hlt := h.fidLt (by rw [hpc]; rfl)
    refine ⟨?_, ?_, ?_, ?_⟩
    · first
        | (simp only [PcOk]; exact ⟨⟨_, c1, c2, by assumption⟩, c3, c4, c5⟩)
        | simp [PcOk]
    · intro f hf; simp at hf
      rcases hf with hf | hf
      · exact h.fid f hf
      · subst hf; simp only; omega
    · intro hp; simp [LPc.preSpawn] at hp
    · intro _ f hf hid g hg
      simp only at hg; rw [c1] at hg; cases hg; exact c2

/-- steps of other threads: the loop, `searches`, the request and the forwarders' ids are untouched -/
theorem reqInv_other {s s' : State} (h : ReqInv s) (hn : s'.searches = s.searches) (hl : s'.loop = s.loop)
    (hc : cur s'.log = cur s.log) (hs : stopped s'.log = stopped s.log)
    (hf : ∀ f' ∈ s'.fwds, ∃ f ∈ s.fwds, f'.id = f.id) : ReqInv s' := by
  obtain ⟨h1, h2, h3, h4⟩ := h
  refine ⟨by rw [hl, hc, hn, hs]; exact h1, ?_, ?_, ?_⟩
  · intro f' hf'; obtain ⟨f, hfm, he⟩ := hf f' hf'; rw [he, hn]; exact h2 f hfm
  · intro hp f' hf'; obtain ⟨f, hfm, he⟩ := hf f' hf'; rw [he, hn]; exact h3 (hl ▸ hp) f hfm
  · intro hp f' hf' hid g hg; obtain ⟨f, hfm, he⟩ := hf f' hf'
    exact h4 (hl ▸ hp) f hfm (by rw [← he, hid, hn]) g (hc ▸ hg)

theorem ids_same {s s' : State} (h : s'.fwds = s.fwds) : ∀ f' ∈ s'.fwds, ∃ f ∈ s.fwds, f'.id = f.id := by
  intro f hf; exact ⟨f, h ▸ hf, rfl⟩

theorem ids_set {l : List Fwd} {j : Nat} {f : Fwd} (hj : l[j]? = some f) (f' : Fwd) (hs : f'.id = f.id) :
    ∀ g ∈ l.set j f', ∃ g' ∈ l, g.id = g'.id := by
  intro g hg
  rcases List.mem_or_eq_of_mem_set hg with hg | hg
  · exact ⟨g, hg, rfl⟩
  · exact ⟨f, List.mem_of_getElem? hj, by rw [hg, hs]⟩

theorem reqInv_step (s : State) (a : Act) (ha : ActiveInv s) (h : ReqInv s) : ReqInv (step s a) := by
  cases a with
  | loop c => exact reqInv_loop s c ha h
  | fwd j =>
    simp only [step, stepWith, stepFwd]
    cases hj : s.fwds[j]? with
    | none => exact h
    | some f =>
      simp only
      cases hpc : f.pc <;> simp only
      all_goals (repeat' split)
      all_goals (first
        | exact h
        | (refine reqInv_other h ?_ ?_ ?_ ?_ (ids_set hj _ rfl) <;> simp))
  | timerSend j =>
    simp only [step, stepWith, stepTimerSend]
    repeat' split
    all_goals first | exact h | exact reqInv_other h rfl rfl rfl rfl (ids_same rfl)
  | timerDrop j =>
    simp only [step, stepWith, stepTimerDrop]
    repeat' split
    all_goals first | exact h | exact reqInv_other h rfl rfl rfl rfl (ids_same rfl)
  | searchIter j =>
    simp only [step, stepWith, stepIter]
    repeat' split
    all_goals first | exact h | exact reqInv_other h rfl rfl rfl rfl (ids_same rfl)
  | searchExit j =>
    simp only [step, stepWith, stepExit]
    repeat' split
    all_goals first | exact h | exact reqInv_other h rfl rfl rfl rfl (ids_same rfl)

end Morlock.Proofs.ConcUci
