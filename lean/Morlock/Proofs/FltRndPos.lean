import Morlock.Proofs.FltExpo
/-! # `rndPos`: specification, totality below the overflow threshold, exactness, monotonicity -/
namespace Morlock.Model.Flt

/-- `|a/b − m·2^e| ≤ 2^e / 2` -/
def HalfUlp (a b m : Nat) (e : Int) : Prop :=
  2 * m * (b * pn e) ≤ 2 * (a * pd e) + b * pn e ∧ 2 * (a * pd e) ≤ 2 * m * (b * pn e) + b * pn e

/-- `|a/b − m·2^e| = 2^e / 2` -/
def IsTie (a b m : Nat) (e : Int) : Prop :=
  2 * m * (b * pn e) = 2 * (a * pd e) + b * pn e ∨ 2 * (a * pd e) = 2 * m * (b * pn e) + b * pn e

/-- the significand before renormalisation -/
def sig0 (f : Fmt) (a b : Nat) : Nat := roundHalfEven (a * pd (expo f a b)) (b * pn (expo f a b))

theorem rndPos_eq' (f : Fmt) (a b : Nat) :
    rndPos f a b = if (carry f (sig0 f a b) (expo f a b)).2 + ((f.p : Int) - 1) > f.emax then none
      else some (carry f (sig0 f a b) (expo f a b)) := rndPos_eq f a b

theorem sig0_le (f : Fmt) (hp : 1 ≤ f.p) {a b : Nat} (ha : 0 < a) (hb : 0 < b) : sig0 f a b ≤ 2 ^ f.p := by
  have h := (expo_spec f hp ha hb).upper
  apply rhe_le (Nat.mul_pos hb (pn_pos _))
  rw [← Nat.mul_assoc]; exact Nat.le_of_lt h

theorem sig0_ge (f : Fmt) {a b : Nat} (hb : 0 < b)
    (h : 2 ^ (f.p - 1) * b * pn (expo f a b) ≤ a * pd (expo f a b)) : 2 ^ (f.p - 1) ≤ sig0 f a b := by
  apply le_rhe (Nat.mul_pos hb (pn_pos _))
  rw [← Nat.mul_assoc]; exact h

theorem sig0_normal (f : Fmt) (hp : 1 ≤ f.p) {a b : Nat} (ha : 0 < a) (hb : 0 < b) :
    2 ^ (f.p - 1) ≤ sig0 f a b ∨ expo f a b = f.emin := by
  rcases (expo_spec f hp ha hb).lower with h | h
  · exact Or.inr h
  · exact Or.inl (sig0_ge f hb h)

/-- relation between the scalings at `e` and `e + 1` -/
theorem scale_succ (a b : Nat) (e : Int) : a * pd e * (b * pn (e + 1)) = 2 * (a * pd (e + 1)) * (b * pn e) := by
  have := pn_pd_shift e 1
  simp only [Int.natCast_one, Nat.pow_one] at this
  calc a * pd e * (b * pn (e + 1)) = a * b * (pn (e + 1) * pd e) := by grind
    _ = a * b * (2 * pn e * pd (e + 1)) := by rw [this]
    _ = 2 * (a * pd (e + 1)) * (b * pn e) := by grind

theorem carry_half {s1 s2 t1 t2 P : Nat} (hs2 : 0 < s2) (ht2 : 0 < t2) (hrel : s1 * t2 = 2 * t1 * s2)
    (h1 : 2 * P * s2 ≤ 2 * s1 + s2) (hup : s1 < P * s2) : 2 * t1 < P * t2 ∧ 2 * (P * t2) ≤ 4 * t1 + t2 := by
  constructor
  · have : s1 * t2 < P * s2 * t2 := (Nat.mul_lt_mul_right ht2).mpr hup
    have : 2 * t1 * s2 < P * t2 * s2 := by grind
    exact Nat.lt_of_mul_lt_mul_right this
  · have := Nat.mul_le_mul_right t2 h1
    have : 2 * (P * t2) * s2 ≤ (4 * t1 + t2) * s2 := by grind
    exact Nat.le_of_mul_le_mul_right this hs2

theorem rndPos_spec (f : Fmt) (hp : 1 ≤ f.p) {a b m : Nat} {e : Int} (ha : 0 < a) (hb : 0 < b)
    (h : rndPos f a b = some (m, e)) :
    m < 2 ^ f.p ∧ f.emin ≤ e ∧ e + ((f.p : Int) - 1) ≤ f.emax ∧ (2 ^ (f.p - 1) ≤ m ∨ e = f.emin) ∧
    HalfUlp a b m e ∧ (IsTie a b m e → m % 2 = 0) := by
  rw [rndPos_eq'] at h
  split at h
  · exact absurd h (by simp)
  rename_i hov
  have hme : carry f (sig0 f a b) (expo f a b) = (m, e) := by simpa using h
  rw [hme] at hov
  simp only [] at hov
  have hE := expo_spec f hp ha hb
  have hle := sig0_le f hp ha hb
  have hnorm := sig0_normal f hp ha hb
  have hs2 : 0 < b * pn (expo f a b) := Nat.mul_pos hb (pn_pos _)
  have hspec : HalfUlp a b (sig0 f a b) (expo f a b) := rhe_spec (a * pd (expo f a b)) (b * pn (expo f a b)) hs2
  have htie : IsTie a b (sig0 f a b) (expo f a b) → sig0 f a b % 2 = 0 :=
    rhe_tie (a * pd (expo f a b)) (b * pn (expo f a b)) hs2
  have hP := two_pow_pred hp
  have hPpos := Nat.two_pow_pos (f.p - 1)
  unfold carry at hme
  split at hme
  · -- carry
    rename_i hc
    have hc : sig0 f a b = 2 ^ f.p := by simpa using hc
    obtain ⟨rfl, rfl⟩ : 2 ^ (f.p - 1) = m ∧ expo f a b + 1 = e := by simpa using hme
    refine ⟨by omega, by have := hE.ge; omega, by omega, Or.inl (Nat.le_refl _), ?_⟩
    -- half ulp at the next exponent, strictly
    rw [hc] at hspec
    have hup : a * pd (expo f a b) < 2 ^ f.p * (b * pn (expo f a b)) := by
      rw [← Nat.mul_assoc]; exact hE.upper
    have ht2 : 0 < b * pn (expo f a b + 1) := Nat.mul_pos hb (pn_pos _)
    have ⟨hB, hA⟩ := carry_half hs2 ht2 (scale_succ a b (expo f a b)) hspec.1 hup
    unfold HalfUlp IsTie
    rw [hP]
    refine ⟨⟨by omega, by omega⟩, ?_⟩
    intro ht; exfalso; omega
  · rename_i hc
    have hc : sig0 f a b ≠ 2 ^ f.p := by simpa using hc
    obtain ⟨rfl, rfl⟩ : sig0 f a b = m ∧ expo f a b = e := by simpa using hme
    refine ⟨by omega, hE.ge, by omega, hnorm, hspec, htie⟩


/-- the grid exponent is at most any format exponent `e` with `a/b < 2^(e+p)` -/
theorem isExpo_le {f : Fmt} (hp : 1 ≤ f.p) {a b : Nat} {e e' : Int}
    (h : IsExpo f a b e) (hge : f.emin ≤ e') (hup : a * pd e' < 2 ^ f.p * b * pn e') : e ≤ e' := by
  rcases Int.lt_or_le e' e with hlt | hle
  case inr => exact hle
  exfalso
  have hl : 2 ^ (f.p - 1) * b * pn e ≤ a * pd e := by
    rcases h.lower with h0 | h0
    · omega
    · exact h0
  have h1 : a * pd (e - 1) < 2 ^ f.p * b * pn (e - 1) := lt_mono_exp (by omega) hup
  have h2 : a * pd e < 2 ^ (f.p - 1) * b * pn e := by
    have := (lt_shift a (2 ^ (f.p - 1) * b) (e - 1) 1).mp (by
      calc a * pd (e - 1) < 2 ^ f.p * b * pn (e - 1) := h1
        _ = 2 ^ 1 * (2 ^ (f.p - 1) * b) * pn (e - 1) := by rw [← two_pow_pred hp]; grind)
    have he : e - 1 + (1 : Nat) = e := by omega
    rwa [he] at this
  omega

/-- no overflow up to the largest finite value `(2^p − 1)·2^(emax − p + 1)` -/
theorem rndPos_isSome (f : Fmt) (wf : f.WF) {a b : Nat} (ha : 0 < a) (hb : 0 < b)
    (h : a * pd (f.emax - ((f.p : Int) - 1)) ≤ (2 ^ f.p - 1) * b * pn (f.emax - ((f.p : Int) - 1))) :
    (rndPos f a b).isSome := by
  have hp := wf.p_pos
  have hE := expo_spec f hp ha hb
  have hPpos := Nat.two_pow_pos f.p
  generalize hEE : f.emax - ((f.p : Int) - 1) = E at h
  have hEmin : f.emin ≤ E := by have := wf.range; omega
  have hup : a * pd E < 2 ^ f.p * b * pn E := by
    have : (2 ^ f.p - 1) * b * pn E < 2 ^ f.p * b * pn E := by
      apply (Nat.mul_lt_mul_right (pn_pos _)).mpr
      apply (Nat.mul_lt_mul_right hb).mpr
      omega
    omega
  have hle := isExpo_le hp hE hEmin hup
  obtain ⟨K, hK⟩ : ∃ K : Nat, E = expo f a b + K := ⟨(E - expo f a b).toNat, by omega⟩
  rw [hK] at h
  have h' := (le_shift a ((2 ^ f.p - 1) * b) (expo f a b) K).mpr h
  have hs2 : 0 < b * pn (expo f a b) := Nat.mul_pos hb (pn_pos _)
  have hm : sig0 f a b ≤ 2 ^ K * (2 ^ f.p - 1) := by
    apply rhe_le hs2
    calc a * pd (expo f a b) ≤ 2 ^ K * ((2 ^ f.p - 1) * b) * pn (expo f a b) := h'
      _ = 2 ^ K * (2 ^ f.p - 1) * (b * pn (expo f a b)) := by grind
  rw [rndPos_eq']
  have hcarry : (carry f (sig0 f a b) (expo f a b)).2 ≤ expo f a b + 1 := by
    unfold carry; split <;> simp <;> omega
  rcases Nat.eq_zero_or_pos K with hK0 | hK0
  · subst hK0
    have : sig0 f a b ≠ 2 ^ f.p := by simp at hm; omega
    have : carry f (sig0 f a b) (expo f a b) = (sig0 f a b, expo f a b) := by
      unfold carry; simp [this]
    rw [this]
    simp only []
    have : ¬ (expo f a b + ((f.p : Int) - 1) > f.emax) := by omega
    simp [this]
  · have : ¬ ((carry f (sig0 f a b) (expo f a b)).2 + ((f.p : Int) - 1) > f.emax) := by omega
    simp [this]

/-- the simpler sufficient bound `a/b ≤ 2^emax` -/
theorem rndPos_isSome_of_le_two_pow (f : Fmt) (wf : f.WF) {a b : Nat} (ha : 0 < a) (hb : 0 < b)
    (h : a * pd f.emax ≤ b * pn f.emax) : (rndPos f a b).isSome := by
  apply rndPos_isSome f wf ha hb
  have hp := wf.p_pos
  -- 2^emax = 2^(p-1) · 2^(emax-(p-1)) ≤ (2^p - 1) · 2^(emax-(p-1))
  have hk : f.emax = (f.emax - ((f.p : Int) - 1)) + ((f.p - 1 : Nat) : Int) := by omega
  rw [hk] at h
  have h' := (le_shift a b (f.emax - ((f.p : Int) - 1)) (f.p - 1)).mpr h
  have hP := two_pow_pred hp
  have hPpos := Nat.two_pow_pos (f.p - 1)
  have hle : 2 ^ (f.p - 1) ≤ 2 ^ f.p - 1 := by omega
  calc a * pd (f.emax - ((f.p : Int) - 1)) ≤ 2 ^ (f.p - 1) * b * pn (f.emax - ((f.p : Int) - 1)) := h'
    _ ≤ (2 ^ f.p - 1) * b * pn (f.emax - ((f.p : Int) - 1)) :=
      Nat.mul_le_mul_right _ (Nat.mul_le_mul_right _ hle)

/-- representable values are fixed points: if `a/b = m·2^e` with `m < 2^p`, `emin ≤ e`, `e + p − 1 ≤ emax` then
`rndPos` returns a pair with exactly the value `a/b` -/
theorem rndPos_exact (f : Fmt) (hp : 1 ≤ f.p) {a b m : Nat} {e : Int} (ha : 0 < a) (hb : 0 < b)
    (hv : a * pd e = m * b * pn e) (hm : m < 2 ^ f.p) (he : f.emin ≤ e) (hmax : e + ((f.p : Int) - 1) ≤ f.emax) :
    ∃ m' e', rndPos f a b = some (m', e') ∧ a * pd e' = m' * b * pn e' := by
  have hE := expo_spec f hp ha hb
  have hup : a * pd e < 2 ^ f.p * b * pn e := by
    rw [hv]
    apply (Nat.mul_lt_mul_right (pn_pos _)).mpr
    exact (Nat.mul_lt_mul_right hb).mpr hm
  have hle := isExpo_le hp hE he hup
  obtain ⟨K, hK⟩ : ∃ K : Nat, e = expo f a b + K := ⟨(e - expo f a b).toNat, by omega⟩
  rw [hK] at hv
  have hv' := (eq_shift a (m * b) (expo f a b) K).mpr hv
  have hs2 : 0 < b * pn (expo f a b) := Nat.mul_pos hb (pn_pos _)
  have hv'' : a * pd (expo f a b) = 2 ^ K * m * (b * pn (expo f a b)) := by rw [hv']; grind
  have hm0 : sig0 f a b = 2 ^ K * m := by
    unfold sig0; rw [hv'']; exact rhe_exact _ _ hs2
  have hlt : sig0 f a b < 2 ^ f.p := by
    rw [hm0]
    have h1 := hE.upper
    rw [hv''] at h1
    have : 2 ^ K * m * (b * pn (expo f a b)) < 2 ^ f.p * (b * pn (expo f a b)) := by
      rw [← Nat.mul_assoc (2 ^ f.p)]; exact h1
    exact Nat.lt_of_mul_lt_mul_right this
  have hc : carry f (sig0 f a b) (expo f a b) = (sig0 f a b, expo f a b) := by
    unfold carry
    have : sig0 f a b ≠ 2 ^ f.p := by omega
    simp [this]
  refine ⟨sig0 f a b, expo f a b, ?_, ?_⟩
  · rw [rndPos_eq', hc]
    have : ¬ (expo f a b + ((f.p : Int) - 1) > f.emax) := by omega
    simp [this]
  · rw [hm0, hv'']; grind

/-- `rndPos` depends on the ratio only -/
theorem rndPos_congr (f : Fmt) (hp : 1 ≤ f.p) {a b a' b' : Nat} (ha : 0 < a) (hb : 0 < b) (ha' : 0 < a') (hb' : 0 < b')
    (hr : a * b' = a' * b) : rndPos f a b = rndPos f a' b' := by
  have he := expo_congr (f := f) hp ha hb ha' hb' hr
  have hm : sig0 f a b = sig0 f a' b' := by
    unfold sig0
    rw [← he]
    apply rhe_congr (Nat.mul_pos hb (pn_pos _)) (Nat.mul_pos hb' (pn_pos _))
    calc a * pd (expo f a b) * (b' * pn (expo f a b)) = a * b' * (pd (expo f a b) * pn (expo f a b)) := by grind
      _ = a' * b * (pd (expo f a b) * pn (expo f a b)) := by rw [hr]
      _ = a' * pd (expo f a b) * (b * pn (expo f a b)) := by grind
  rw [rndPos_eq', rndPos_eq', he, hm]

end Morlock.Model.Flt
