import Morlock.Proofs.MirrorLegal
import Morlock.Proofs.MirrorModel
import Morlock.Props.C01
/-!
# C20: mirror symmetry of the engine's legal moves (through C01)

The abstraction of a `WF` position satisfies the hypotheses of `Spec.legalMoves_mirror` (64 cells, at most
one king a side). Hence, if `q` is a `WF` position whose abstraction is the mirror image of that of `p`,
the engine's legal moves in `q` are, read through `absMove`, the mirror images of its legal moves in `p`.
-/
namespace Morlock.Proofs.Mirror
open Morlock Morlock.Model Morlock.Proofs Morlock.Proofs.Gen

theorem abs_size (p : Position) (turn : Color) : (abs p turn).board.size = 64 := by
  rw [abs_board]; exact absBoard_size _

theorem absCellB_eq_king {v : Option (Color × Piece)} {c : Color}
    (h : absCellB v = some (absColor c, Spec.Kind.king)) : v = some (c, .king) := by
  cases v with
  | none => cases h
  | some x =>
    obtain ⟨c', k⟩ := x
    cases k <;> simp [absCellB, absKind] at h
    rw [absColor_inj.mp h]

theorem specColor_eq_absColor (c : Spec.Color) : ∃ c0 : Color, c = absColor c0 := by
  cases c
  · exact ⟨.white, rfl⟩
  · exact ⟨.black, rfl⟩

/-- The abstraction of a `WF` position has 64 cells and at most one king a side. -/
theorem sym_abs {p : Position} {turn : Color} (hw : WF p turn) : Spec.Sym (abs p turn) where
  size := abs_size p turn
  kings := by
    intro c s1 s2 _ _ a1 a2
    obtain ⟨c0, rfl⟩ := specColor_eq_absColor c
    rw [hw.rep.abs_at] at a1 a2
    exact hw.wfb.king_unique c0 s1 s2 (absCellB_eq_king a1) (absCellB_eq_king a2)

/-- `Spec.legalMoves_mirror` applies to the abstraction of every `WF` position. -/
theorem legalMoves_mirror_abs {p : Position} {turn : Color} (hw : WF p turn) :
    (Spec.legalMoves (Spec.mirror (abs p turn))).Perm ((Spec.legalMoves (abs p turn)).map Spec.mirrorMove) :=
  Spec.legalMoves_mirror (sym_abs hw).size ((sym_abs hw).kings _)

/-- **Mirror symmetry of the engine's move generation**: the legal moves of a `WF` position `q` whose
    abstraction is the mirror image of that of `p` are the mirror images of the legal moves of `p`. -/
theorem model_legalMoves_mirror {p q : Position} {turn : Color} (hp : WF p turn) (hq : WF q turn.opp)
    (habs : abs q turn.opp = Spec.mirror (abs p turn)) :
    ((q.legalMoves turn.opp).map absMove).Perm (((p.legalMoves turn).map absMove).map Spec.mirrorMove) := by
  have h1 := Props.C01.legal_perm hq
  rw [habs] at h1
  exact h1.trans ((legalMoves_mirror_abs hp).trans ((Props.C01.legal_perm hp).symm.map _))

/-- When the abstraction of `q` is the mirror image of the abstraction of `p`: `q` represents the mirrored
    board, its castling rights are those of `p` with the colours exchanged, and its en-passant target is
    the mirror image of that of `p`. -/
theorem abs_eq_mirror {p q : Position} {b : Board} (hp : Rep p b) (hq : Rep q (mirrorBoard b)) (turn : Color)
    (hwk : (q.castling &&& wK != 0) = (p.castling &&& bK != 0))
    (hwq : (q.castling &&& wQ != 0) = (p.castling &&& bQ != 0))
    (hbk : (q.castling &&& bK != 0) = (p.castling &&& wK != 0))
    (hbq : (q.castling &&& bQ != 0) = (p.castling &&& wQ != 0))
    (hep0 : p.enpassant = 0 → q.enpassant = 0)
    (hep1 : p.enpassant ≠ 0 → q.enpassant = Spec.mirrorSq p.enpassant ∧ q.enpassant ≠ 0) :
    abs q turn.opp = Spec.mirror (abs p turn) := by
  apply Spec.Pos.ext'
  · apply Spec.arr_ext64 (abs_size _ _) (Spec.mirror_board_size _)
    intro i hi
    exact abs_at_mirror hp hq turn hi
  · exact absColor_opp' turn
  · exact hwk
  · exact hwq
  · exact hbk
  · exact hbq
  · show (if q.enpassant = 0 then none else some q.enpassant) =
      (if p.enpassant = 0 then none else some p.enpassant).map Spec.mirrorSq
    by_cases h0 : p.enpassant = 0
    · rw [if_pos h0, if_pos (hep0 h0)]; rfl
    · obtain ⟨h1, h2⟩ := hep1 h0
      rw [if_neg h0, if_neg h2, h1]; rfl

end Morlock.Proofs.Mirror
