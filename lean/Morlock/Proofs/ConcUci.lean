import Morlock.Model.UciConc
/-!
# Helper lemmas for the UCI driver model (`Model/UciConc.lean`): safety invariants
-/
namespace Morlock.Model.UciConc

def FPc.live : FPc → Bool
  | .finished => false
  | _ => true

def LPc.exiting : LPc → Bool
  | .closeOut | .closeDriver | .finished => true
  | _ => false

def LPc.afterClose : LPc → Bool
  | .closeDriver | .finished => true
  | _ => false

def Ev.isSendClosed : Ev → Bool
  | .sendClosed _ => true
  | _ => false

/-- loop states in which `d.active` must be 0: between `ensureInactive`'s store and the next
`d.active.Store(id)`, and on the exit path -/
def LPc.zeroRegion : LPc → Bool
  | .haltLock (.ensure _) | .haltAwait (.ensure _) _ | .haltQuit (.ensure _) _ | .haltRead (.ensure _) _
  | .haltUnlock (.ensure _) _ => true
  | .goStart _ | .bookStore _ | .analyze _ _ | .goStore _ _ _ => true
  | .waitFwd | .closeOut | .closeDriver | .finished => true
  | _ => false

/-- the id the loop has assigned to the current `go` and not yet stored into `d.active` -/
def LPc.pendingId : LPc → Option Nat
  | .bookStore id | .analyze _ id | .goStore _ id _ => some id
  | _ => none

/-- the `(id, latest)` pairs of the commit events of a log -/
def commits : List Ev → List (Nat × Nat)
  | [] => []
  | .commit id l :: es => (id, l) :: commits es
  | _ :: es => commits es

def Line.bestFor (id : Nat) : Line → Bool
  | .bestmove i _ => i == id
  | _ => false

/-- the event is a `bestmove` line for go `id` put on `out` (or attempted on the closed `out`) -/
def Ev.bestFor (id : Nat) : Ev → Bool
  | .send l => l.bestFor id
  | .sendClosed l => l.bestFor id
  | _ => false

def Ev.commitFor (id : Nat) : Ev → Bool
  | .commit i _ => i == id
  | _ => false

/-- number of `bestmove` lines for go `id` in the log -/
def bestCount (id : Nat) (log : List Ev) : Nat := log.countP (Ev.bestFor id)
/-- number of successful `searchCompleted(id, _)` CASes in the log -/
def commitCount (id : Nat) (log : List Ev) : Nat := log.countP (Ev.commitFor id)

/-- the loop has won the CAS for `id` and not yet sent the `bestmove` -/
def LPc.owes (id : Nat) : LPc → Bool
  | .sendInfo i _ => i == id
  | .sendBest i _ => i == id
  | _ => false

def FPc.sending : FPc → Bool
  | .sendInfo | .sendBest => true
  | _ => false

def Fwd.owes (id : Nat) (f : Fwd) : Bool := f.id == id && f.pc.sending

end Morlock.Model.UciConc

namespace Morlock.Proofs.ConcUci
open Morlock.Model.UciConc

/-! ## basics -/

theorem run_nil (s : State) : run s [] = s := rfl
theorem run_cons (s : State) (a : Act) (as : List Act) : run s (a :: as) = run (step s a) as := rfl
theorem run_append (s : State) (a b : List Act) : run s (a ++ b) = run (run s a) b := by
  simp [run, List.foldl_append]

/-- lift a one-step invariant to every schedule -/
theorem run_induction {I : State → Prop} (hstep : ∀ s a, I s → I (step s a)) (sched : List Act) (s : State)
    (h : I s) : I (run s sched) := by
  induction sched generalizing s with
  | nil => exact h
  | cons a as ih => exact ih _ (hstep s a h)

theorem countP_set' {α : Type} (p : α → Bool) {l : List α} {i : Nat} {a : α} (b : α) (h : l[i]? = some a) :
    (l.set i b).countP p + (if p a then 1 else 0) = l.countP p + (if p b then 1 else 0) := by
  induction l generalizing i with
  | nil => simp at h
  | cons x xs ih =>
    cases i with
    | zero =>
      simp at h; subst h
      simp [List.countP_cons]; omega
    | succ j =>
      simp at h
      have := ih h
      simp [List.countP_cons]; omega

@[simp] theorem av_repaired (id : Nat) : av .repaired id = id := rfl

section sendOut
variable (s : State) (l : Line)
@[simp] theorem sendOut_cmds : (sendOut s l).cmds = s.cmds := by unfold sendOut; split <;> rfl
@[simp] theorem sendOut_loop : (sendOut s l).loop = s.loop := by unfold sendOut; split <;> rfl
@[simp] theorem sendOut_searches : (sendOut s l).searches = s.searches := by unfold sendOut; split <;> rfl
@[simp] theorem sendOut_active : (sendOut s l).active = s.active := by unfold sendOut; split <;> rfl
@[simp] theorem sendOut_outClosed : (sendOut s l).outClosed = s.outClosed := by unfold sendOut; split <;> rfl
@[simp] theorem sendOut_closed : (sendOut s l).closed = s.closed := by unfold sendOut; split <;> rfl
@[simp] theorem sendOut_ponder : (sendOut s l).ponder = s.ponder := by unfold sendOut; split <;> rfl
@[simp] theorem sendOut_pcap : (sendOut s l).pcap = s.pcap := by unfold sendOut; split <;> rfl
@[simp] theorem sendOut_timeouts : (sendOut s l).timeouts = s.timeouts := by unfold sendOut; split <;> rfl
@[simp] theorem sendOut_wg : (sendOut s l).wg = s.wg := by unfold sendOut; split <;> rfl
@[simp] theorem sendOut_emu : (sendOut s l).emu = s.emu := by unfold sendOut; split <;> rfl
@[simp] theorem sendOut_eactive : (sendOut s l).eactive = s.eactive := by unfold sendOut; split <;> rfl
@[simp] theorem sendOut_srch : (sendOut s l).srch = s.srch := by unfold sendOut; split <;> rfl
@[simp] theorem sendOut_fwds : (sendOut s l).fwds = s.fwds := by unfold sendOut; split <;> rfl
@[simp] theorem sendOut_timers : (sendOut s l).timers = s.timers := by unfold sendOut; split <;> rfl
theorem sendOut_log : (sendOut s l).log = (if s.outClosed then Ev.sendClosed l else Ev.send l) :: s.log := by
  unfold sendOut; split <;> simp [*]
end sendOut

/-! ## `out` is closed only after every forwarder is done, and nobody sends after that -/

structure CloseInv (s : State) : Prop where
  wg : s.wg = s.fwds.countP (fun f => f.pc.live)
  closed : s.outClosed = true → s.loop.afterClose = true
  exiting : s.loop.exiting = true → s.wg = 0
  nosend : ∀ ev ∈ s.log, ev.isSendClosed = false

theorem closeInv_init (cmds : List Cmd) (pcap : Nat) : CloseInv (init cmds pcap) := by
  refine ⟨rfl, ?_, ?_, ?_⟩ <;> simp [init, LPc.exiting]

@[simp] theorem dispatch_exiting (c : Cmd) : (dispatch c).exiting = false := by cases c <;> rfl
@[simp] theorem dispatch_afterClose (c : Cmd) : (dispatch c).afterClose = false := by cases c <;> rfl
@[simp] theorem afterHalt_exiting (k : HaltK) (res : Option Nat) : (afterHalt .repaired k res).exiting = false := by
  cases k with
  | ensure a => cases a <;> rfl
  | stop id => cases res <;> rfl
@[simp] theorem afterHalt_afterClose (k : HaltK) (res : Option Nat) :
    (afterHalt .repaired k res).afterClose = false := by
  cases k with
  | ensure a => cases a <;> rfl
  | stop id => cases res <;> rfl

theorem closeInv_loop (s : State) (c : Sel) (h : CloseInv s) : CloseInv (stepLoop .repaired s c) := by
  obtain ⟨h1, h2, h3, h4⟩ := h
  have hopen : s.loop.afterClose = false → s.outClosed = false := by
    intro hl; cases ho : s.outClosed with
    | false => rfl
    | true => rw [h2 ho] at hl; cases hl
  unfold stepLoop
  cases hpc : s.loop <;> simp only [hpc] at h2 h3 hopen ⊢
  all_goals (repeat' split)
  all_goals (first | exact ⟨h1, h2, h3, h4⟩ | skip)
  all_goals (refine ⟨?_, ?_, ?_, ?_⟩)
  all_goals (first
    | (simp [*]; done)
    | (simp_all [LPc.exiting, LPc.afterClose, sendOut_log, Ev.isSendClosed, FPc.live]; done)
    | (simp [LPc.exiting, LPc.afterClose, sendOut_log, Ev.isSendClosed, FPc.live, *]; done)
    | skip)

@[simp] theorem live_recv : FPc.recv.live = true := rfl
@[simp] theorem live_pond (pv : Nat) : (FPc.pond pv).live = true := rfl
@[simp] theorem live_complete : FPc.complete.live = true := rfl
@[simp] theorem live_sendInfo : FPc.sendInfo.live = true := rfl
@[simp] theorem live_sendBest : FPc.sendBest.live = true := rfl
@[simp] theorem live_wgDone : FPc.wgDone.live = true := rfl
@[simp] theorem live_finished : FPc.finished.live = false := rfl

theorem countP_pos_of_getElem? {α : Type} (p : α → Bool) {l : List α} {i : Nat} {a : α}
    (h : l[i]? = some a) (hp : p a = true) : 0 < l.countP p :=
  List.countP_pos_iff.2 ⟨a, List.mem_of_getElem? h, hp⟩

theorem afterClose_exiting {pc : LPc} (h : pc.afterClose = true) : pc.exiting = true := by
  cases pc <;> simp_all [LPc.afterClose, LPc.exiting]

theorem closeInv_fwd (s : State) (j : Nat) (h : CloseInv s) : CloseInv (stepFwd .repaired s j) := by
  obtain ⟨h1, h2, h3, h4⟩ := h
  unfold stepFwd
  cases hj : s.fwds[j]? with
  | none => exact ⟨h1, h2, h3, h4⟩
  | some f =>
    have hcnt := fun b => countP_set' (fun f : Fwd => f.pc.live) b hj
    have hopen : f.pc.live = true → s.outClosed = false := by
      intro hl
      cases ho : s.outClosed with
      | false => rfl
      | true =>
        have := h3 (afterClose_exiting (h2 ho))
        have hp := countP_pos_of_getElem? (fun f : Fwd => f.pc.live) hj hl
        omega
    simp only
    cases hpc : f.pc <;> simp only [hpc] at hopen ⊢
    case recv =>
      split
      · have := hcnt { f with last := ‹Nat›, pc := .pond ‹Nat› }
        refine ⟨?_, h2, h3, h4⟩
        simp [hpc] at this ⊢; omega
      · split
        · have := hcnt { f with pc := if f.infinite then .wgDone else .complete }
          refine ⟨?_, h2, h3, h4⟩
          by_cases hinf : f.infinite = true <;> simp [hpc, hinf] at this ⊢ <;> omega
        · exact ⟨h1, h2, h3, h4⟩
    case pond pv =>
      have := hcnt { f with pc := .recv }
      refine ⟨?_, h2, h3, h4⟩
      simp [hpc] at this ⊢; omega
    case complete =>
      split
      · have := hcnt { f with pc := if f.last ≠ 0 then .sendInfo else .sendBest }
        refine ⟨?_, h2, h3, ?_⟩
        · by_cases hl : f.last = 0 <;> simp [hpc, hl] at this ⊢ <;> omega
        · intro ev hev; simp at hev; rcases hev with rfl | hev
          · rfl
          · exact h4 ev hev
      · have := hcnt { f with pc := .wgDone }
        refine ⟨?_, h2, h3, h4⟩
        simp [hpc] at this ⊢; omega
    case sendInfo =>
      have := hcnt { f with pc := .sendBest }
      have ho := hopen rfl
      refine ⟨?_, ?_, ?_, ?_⟩
      · simp [hpc] at this ⊢; omega
      · simpa using h2
      · simpa using h3
      · intro ev hev; simp [sendOut_log, ho] at hev; rcases hev with rfl | hev
        · rfl
        · exact h4 ev hev
    case sendBest =>
      have := hcnt { f with pc := .wgDone }
      have ho := hopen rfl
      refine ⟨?_, ?_, ?_, ?_⟩
      · simp [hpc] at this ⊢; omega
      · simpa using h2
      · simpa using h3
      · intro ev hev; simp [sendOut_log, ho] at hev; rcases hev with rfl | hev
        · rfl
        · exact h4 ev hev
    case wgDone =>
      have := hcnt { f with pc := .finished }
      refine ⟨?_, h2, ?_, h4⟩
      · simp [hpc] at this ⊢; omega
      · intro he; have := h3 he; simp only; omega
    case finished => exact ⟨h1, h2, h3, h4⟩

theorem closeInv_step (s : State) (a : Act) (h : CloseInv s) : CloseInv (step s a) := by
  cases a with
  | loop c => exact closeInv_loop s c h
  | fwd j => exact closeInv_fwd s j h
  | timerSend j =>
    obtain ⟨h1, h2, h3, h4⟩ := h
    simp only [step, stepWith, stepTimerSend]
    repeat' split
    all_goals exact ⟨h1, h2, h3, h4⟩
  | timerDrop j =>
    obtain ⟨h1, h2, h3, h4⟩ := h
    simp only [step, stepWith, stepTimerDrop]
    repeat' split
    all_goals exact ⟨h1, h2, h3, h4⟩
  | searchIter j =>
    obtain ⟨h1, h2, h3, h4⟩ := h
    simp only [step, stepWith, stepIter]
    repeat' split
    all_goals exact ⟨h1, h2, h3, h4⟩
  | searchExit j =>
    obtain ⟨h1, h2, h3, h4⟩ := h
    simp only [step, stepWith, stepExit]
    repeat' split
    all_goals exact ⟨h1, h2, h3, h4⟩

/-! ## `active` is 0 or the id of the latest go; each id is committed at most once -/

@[simp] theorem commits_consume (c : Cmd) (es : List Ev) : commits (.consume c :: es) = commits es := rfl
@[simp] theorem commits_send (l : Line) (es : List Ev) : commits (.send l :: es) = commits es := rfl
@[simp] theorem commits_sendClosed (l : Line) (es : List Ev) : commits (.sendClosed l :: es) = commits es := rfl
@[simp] theorem commits_commit (id l : Nat) (es : List Ev) : commits (.commit id l :: es) = (id, l) :: commits es := rfl
@[simp] theorem commits_sendOut (s : State) (l : Line) : commits (sendOut s l).log = commits s.log := by
  unfold sendOut; split <;> rfl

structure ActiveInv (s : State) : Prop where
  act : s.active = 0 ∨ s.active = s.searches
  zero : s.loop.zeroRegion = true → s.active = 0
  pend : ∀ id, s.loop.pendingId = some id → id = s.searches
  bound : ∀ c ∈ commits s.log, c.1 ≤ s.searches ∧ c.2 = c.1 ∧ c.1 ≠ 0
  fresh : (s.active ≠ 0 ∨ s.loop.pendingId.isSome = true) → ∀ c ∈ commits s.log, c.1 < s.searches
  once : ((commits s.log).map (·.1)).Nodup

theorem activeInv_init (cmds : List Cmd) (pcap : Nat) : ActiveInv (init cmds pcap) := by
  refine ⟨?_, ?_, ?_, ?_, ?_, ?_⟩ <;> simp [init, commits, LPc.pendingId]

@[simp] theorem dispatch_zero (c : Cmd) : (dispatch c).zeroRegion = false := by cases c <;> rfl
@[simp] theorem dispatch_pending (c : Cmd) : (dispatch c).pendingId = none := by cases c <;> rfl
@[simp] theorem afterHalt_pending (k : HaltK) (res : Option Nat) : (afterHalt .repaired k res).pendingId = none := by
  cases k with
  | ensure a => cases a <;> rfl
  | stop id => cases res <;> rfl
theorem afterHalt_zero (k : HaltK) (res : Option Nat) (h : (afterHalt .repaired k res).zeroRegion = true) :
    (LPc.haltUnlock k res).zeroRegion = true := by
  cases k with
  | ensure a => rfl
  | stop id => cases res <;> simp [afterHalt, LPc.zeroRegion] at h

/-- steps that touch neither `active`, `searches` nor the commits, and do not enter the zero region or the
pending region, preserve the invariant -/
theorem activeInv_frame {s s' : State} (h : ActiveInv s) (ha : s'.active = s.active)
    (hn : s'.searches = s.searches) (hc : commits s'.log = commits s.log)
    (hz : s'.loop.zeroRegion = true → s.loop.zeroRegion = true)
    (hp : ∀ id, s'.loop.pendingId = some id → s.loop.pendingId = some id) : ActiveInv s' := by
  obtain ⟨h1, h2, h3, h4, h5, h6⟩ := h
  refine ⟨by rw [ha, hn]; exact h1, fun hz' => by rw [ha]; exact h2 (hz hz'),
    fun id hid => by rw [hn]; exact h3 id (hp id hid), by rw [hc, hn]; exact h4, ?_, by rw [hc]; exact h6⟩
  rw [ha, hc, hn]
  intro hor
  apply h5
  rcases hor with hor | hor
  · exact .inl hor
  · right
    cases hpi : s'.loop.pendingId with
    | none => rw [hpi] at hor; cases hor
    | some id => rw [hp id hpi]; rfl

/-- `d.active.Store(0)` -/
theorem activeInv_store0 {s s' : State} (h : ActiveInv s) (ha : s'.active = 0)
    (hn : s'.searches = s.searches) (hc : commits s'.log = commits s.log)
    (hp : s'.loop.pendingId = none) : ActiveInv s' := by
  obtain ⟨h1, h2, h3, h4, h5, h6⟩ := h
  refine ⟨.inl ha, fun _ => ha, by simp [hp], by rw [hc, hn]; exact h4, ?_, by rw [hc]; exact h6⟩
  simp [ha, hp]

/-- a successful `CAS(active, id, 0)` with its commit event -/
theorem activeInv_commit {s s' : State} (h : ActiveInv s) (hid : s.active ≠ 0) (ha : s'.active = 0)
    (hn : s'.searches = s.searches) (hc : commits s'.log = (s.active, s.searches) :: commits s.log)
    (hp : s'.loop.pendingId = none) : ActiveInv s' := by
  obtain ⟨h1, h2, h3, h4, h5, h6⟩ := h
  have hact : s.active = s.searches := by
    rcases h1 with h1 | h1
    · exact absurd h1 hid
    · exact h1
  have hlt := h5 (.inl hid)
  refine ⟨.inl ha, fun _ => ha, by simp [hp], ?_, ?_, ?_⟩
  · rw [hc, hn]; intro c hc'
    rcases List.mem_cons.1 hc' with rfl | hc'
    · exact ⟨by simp [hact], by simp [hact], hid⟩
    · exact h4 c hc'
  · simp [ha, hp]
  · rw [hc]; simp only [List.map_cons, List.nodup_cons]
    refine ⟨?_, h6⟩
    intro hm
    obtain ⟨c, hc', hc2⟩ := List.mem_map.1 hm
    have := hlt c hc'
    omega

/-- `d.searches++` in the zero region -/
theorem activeInv_incr {s s' : State} (h : ActiveInv s) (hz : s.loop.zeroRegion = true)
    (ha : s'.active = s.active) (hn : s'.searches = s.searches + 1) (hc : commits s'.log = commits s.log)
    (hp : ∀ id, s'.loop.pendingId = some id → id = s.searches + 1) : ActiveInv s' := by
  obtain ⟨h1, h2, h3, h4, h5, h6⟩ := h
  have h0 : s'.active = 0 := by rw [ha]; exact h2 hz
  refine ⟨.inl h0, fun _ => h0, fun id hid => by rw [hn]; exact hp id hid, ?_, ?_, by rw [hc]; exact h6⟩
  · rw [hc, hn]; intro c hc'; have := h4 c hc'; exact ⟨by omega, this.2⟩
  · rw [hc, hn]; intro _ c hc'; have := h4 c hc'; omega

/-- `d.active.Store(id)` for the pending id -/
theorem activeInv_store {s s' : State} (h : ActiveInv s) {id : Nat} (hpend : s.loop.pendingId = some id)
    (ha : s'.active = id) (hn : s'.searches = s.searches) (hc : commits s'.log = commits s.log)
    (hz : s'.loop.zeroRegion = false) (hp : s'.loop.pendingId = none) : ActiveInv s' := by
  obtain ⟨h1, h2, h3, h4, h5, h6⟩ := h
  have hid := h3 id hpend
  refine ⟨.inr (by rw [ha, hn, hid]), by simp [hz], by simp [hp], by rw [hc, hn]; exact h4, ?_,
    by rw [hc]; exact h6⟩
  rw [hc, hn]; intro _
  exact h5 (.inr (by rw [hpend]; rfl))

set_option linter.unusedSimpArgs false in
theorem activeInv_loop (s : State) (c : Sel) (h : ActiveInv s) : ActiveInv (stepLoop .repaired s c) := by
  unfold stepLoop
  cases hpc : s.loop <;> simp only
  all_goals (repeat' split)
  all_goals (first
    | exact h
    | (refine activeInv_frame h ?_ ?_ ?_ ?_ ?_ <;>
        first
          | (simp [hpc]; done)
          | (simp [hpc, LPc.zeroRegion, LPc.pendingId]; done)
          | (cases ‹HaltK› <;> simp [hpc, LPc.zeroRegion, LPc.pendingId]; done)
          | (rw [hpc]; exact afterHalt_zero _ _))
    | (refine activeInv_store0 h ?_ ?_ ?_ ?_ <;> simp [LPc.pendingId]; done)
    | (refine activeInv_incr h ?_ ?_ ?_ ?_ ?_ <;> simp [hpc, LPc.zeroRegion, LPc.pendingId]; done)
    | (refine activeInv_store h (by rw [hpc]; rfl) ?_ ?_ ?_ ?_ ?_ <;> simp [LPc.zeroRegion, LPc.pendingId]; done)
    | (refine activeInv_commit h ?_ ?_ ?_ ?_ ?_ <;> simp_all [LPc.pendingId]; done)
    | skip)

theorem pending_zero {pc : LPc} (h : pc.pendingId.isSome = true) : pc.zeroRegion = true := by
  cases pc <;> simp_all [LPc.pendingId, LPc.zeroRegion]

theorem activeInv_fwd (s : State) (j : Nat) (h : ActiveInv s) : ActiveInv (stepFwd .repaired s j) := by
  unfold stepFwd
  cases hj : s.fwds[j]? with
  | none => exact h
  | some f =>
    simp only
    cases hpc : f.pc <;> simp only
    all_goals (repeat' split)
    all_goals (first
      | exact h
      | (refine activeInv_frame h ?_ ?_ ?_ ?_ ?_ <;> simp; done)
      | skip)
    -- the successful CAS
    all_goals
      have hcas : f.id ≠ 0 ∧ s.active = av .repaired f.id := by assumption
      obtain ⟨hne, hact⟩ := hcas
      simp only [av_repaired] at hact
      have hid : s.active ≠ 0 := by rw [hact]; exact hne
      refine activeInv_commit h hid rfl rfl ?_ ?_
      · simp [hact]
      · show s.loop.pendingId = none
        cases hp : s.loop.pendingId with
        | none => rfl
        | some id => exact absurd (h.zero (pending_zero (by rw [hp]; rfl))) hid

theorem activeInv_step (s : State) (a : Act) (h : ActiveInv s) : ActiveInv (step s a) := by
  cases a with
  | loop c => exact activeInv_loop s c h
  | fwd j => exact activeInv_fwd s j h
  | timerSend j =>
    simp only [step, stepWith, stepTimerSend]
    repeat' split
    all_goals first | exact h | exact activeInv_frame h rfl rfl rfl id (fun _ => id)
  | timerDrop j =>
    simp only [step, stepWith, stepTimerDrop]
    repeat' split
    all_goals first | exact h | exact activeInv_frame h rfl rfl rfl id (fun _ => id)
  | searchIter j =>
    simp only [step, stepWith, stepIter]
    repeat' split
    all_goals first | exact h | exact activeInv_frame h rfl rfl rfl id (fun _ => id)
  | searchExit j =>
    simp only [step, stepWith, stepExit]
    repeat' split
    all_goals first | exact h | exact activeInv_frame h rfl rfl rfl id (fun _ => id)

theorem activeInv_run (sched : List Act) (s : State) (h : ActiveInv s) : ActiveInv (run s sched) :=
  run_induction activeInv_step sched s h

theorem closeInv_run (sched : List Act) (s : State) (h : CloseInv s) : CloseInv (run s sched) :=
  run_induction closeInv_step sched s h

/-! ## every commit is followed by exactly one `bestmove` send, by the thread that won the CAS -/

/-- per id: bestmoves sent + threads that still owe one = commits -/
def OweInv (s : State) : Prop :=
  ∀ id, bestCount id s.log + (if s.loop.owes id then 1 else 0) + s.fwds.countP (Fwd.owes id) = commitCount id s.log

@[simp] theorem bestCount_nil (id : Nat) : bestCount id [] = 0 := rfl
@[simp] theorem bestCount_consume (id : Nat) (c : Cmd) (es : List Ev) :
    bestCount id (.consume c :: es) = bestCount id es := by simp [bestCount, Ev.bestFor]
@[simp] theorem bestCount_commit (id i l : Nat) (es : List Ev) :
    bestCount id (.commit i l :: es) = bestCount id es := by simp [bestCount, Ev.bestFor]
@[simp] theorem bestCount_send (id : Nat) (l : Line) (es : List Ev) :
    bestCount id (.send l :: es) = bestCount id es + (if l.bestFor id then 1 else 0) := by
  unfold bestCount; rw [List.countP_cons]; rfl
@[simp] theorem bestCount_sendClosed (id : Nat) (l : Line) (es : List Ev) :
    bestCount id (.sendClosed l :: es) = bestCount id es + (if l.bestFor id then 1 else 0) := by
  unfold bestCount; rw [List.countP_cons]; rfl
@[simp] theorem bestCount_sendOut (id : Nat) (s : State) (l : Line) :
    bestCount id (sendOut s l).log = bestCount id s.log + (if l.bestFor id then 1 else 0) := by
  unfold sendOut; split <;> simp
@[simp] theorem commitCount_nil (id : Nat) : commitCount id [] = 0 := rfl
@[simp] theorem commitCount_consume (id : Nat) (c : Cmd) (es : List Ev) :
    commitCount id (.consume c :: es) = commitCount id es := by simp [commitCount, Ev.commitFor]
@[simp] theorem commitCount_send (id : Nat) (l : Line) (es : List Ev) :
    commitCount id (.send l :: es) = commitCount id es := by simp [commitCount, Ev.commitFor]
@[simp] theorem commitCount_sendClosed (id : Nat) (l : Line) (es : List Ev) :
    commitCount id (.sendClosed l :: es) = commitCount id es := by simp [commitCount, Ev.commitFor]
@[simp] theorem commitCount_commit (id i l : Nat) (es : List Ev) :
    commitCount id (.commit i l :: es) = commitCount id es + (if i == id then 1 else 0) := by
  simp [commitCount, Ev.commitFor, List.countP_cons]
@[simp] theorem commitCount_sendOut (id : Nat) (s : State) (l : Line) :
    commitCount id (sendOut s l).log = commitCount id s.log := by
  unfold sendOut; split <;> simp
@[simp] theorem bestFor_readyok (id : Nat) : Line.readyok.bestFor id = false := rfl
@[simp] theorem bestFor_info (id pv : Nat) : (Line.info pv).bestFor id = false := rfl
@[simp] theorem bestFor_bestmove (id i pv : Nat) : (Line.bestmove i pv).bestFor id = (i == id) := rfl
@[simp] theorem dispatch_owes (id : Nat) (c : Cmd) : (dispatch c).owes id = false := by cases c <;> rfl
@[simp] theorem afterHalt_owes (id : Nat) (k : HaltK) (res : Option Nat) :
    (afterHalt .repaired k res).owes id = false := by
  cases k with
  | ensure a => cases a <;> rfl
  | stop i => cases res <;> rfl

theorem oweInv_init (cmds : List Cmd) (pcap : Nat) : OweInv (init cmds pcap) := by
  intro id; simp [init, LPc.owes]

theorem oweInv_loop (s : State) (c : Sel) (h : OweInv s) : OweInv (stepLoop .repaired s c) := by
  unfold stepLoop
  cases hpc : s.loop <;> simp only
  all_goals (repeat' split)
  all_goals (first
    | exact h
    | (intro id; have hh := h id; simp only [hpc] at hh; try simp [LPc.owes] at hh;
       first
        | (simp at hh ⊢; omega)
        | (simp at ⊢; omega)
        | (simp [LPc.owes] at hh ⊢; omega)
        | (simp [LPc.owes] at ⊢; omega)
        | (simp [LPc.owes, Fwd.owes, FPc.sending] at ⊢; omega)
        | skip)
    | skip)

theorem countP_set_eq {α : Type} (p : α → Bool) {l : List α} {i : Nat} {a : α} (h : l[i]? = some a) :
    (∀ b, (l.set i b).countP p = l.countP p + (if p b then 1 else 0) - (if p a then 1 else 0)) ∧
    (if p a then 1 else 0) ≤ l.countP p := by
  have hpos : (if p a then 1 else 0) ≤ l.countP p := by
    by_cases hp : p a = true
    · have := countP_pos_of_getElem? p h hp; rw [if_pos hp]; omega
    · simp [hp]
  refine ⟨fun b => ?_, hpos⟩
  have := countP_set' p b h
  omega

theorem oweInv_fwd (s : State) (j : Nat) (h : OweInv s) : OweInv (stepFwd .repaired s j) := by
  unfold stepFwd
  cases hj : s.fwds[j]? with
  | none => exact h
  | some f =>
    simp only
    cases hpc : f.pc <;> simp only
    all_goals (repeat' split)
    all_goals (first
      | exact h
      | (intro id; have hh := h id
         obtain ⟨hset, hge⟩ := countP_set_eq (Fwd.owes id) hj
         first
          | (simp [hset, Fwd.owes, FPc.sending, hpc] at hge hh ⊢; omega)
          | (simp [hset, Fwd.owes, FPc.sending, hpc] at hh ⊢; omega)
          | (by_cases hl : f.last = 0 <;> simp [hset, Fwd.owes, FPc.sending, hpc, hl] at hge hh ⊢ <;> omega)
          | (by_cases hl : f.last = 0 <;> simp [hset, Fwd.owes, FPc.sending, hpc, hl] at hh ⊢ <;> omega)
          | skip)
      | skip)

theorem oweInv_step (s : State) (a : Act) (h : OweInv s) : OweInv (step s a) := by
  cases a with
  | loop c => exact oweInv_loop s c h
  | fwd j => exact oweInv_fwd s j h
  | timerSend j =>
    simp only [step, stepWith, stepTimerSend]
    repeat' split
    all_goals exact h
  | timerDrop j =>
    simp only [step, stepWith, stepTimerDrop]
    repeat' split
    all_goals exact h
  | searchIter j =>
    simp only [step, stepWith, stepIter]
    repeat' split
    all_goals exact h
  | searchExit j =>
    simp only [step, stepWith, stepExit]
    repeat' split
    all_goals exact h

theorem oweInv_run (sched : List Act) (s : State) (h : OweInv s) : OweInv (run s sched) :=
  run_induction oweInv_step sched s h

/-! ## reading the invariants off the log -/

theorem mem_commits {id l : Nat} {log : List Ev} : (id, l) ∈ commits log ↔ Ev.commit id l ∈ log := by
  induction log with
  | nil => simp [commits]
  | cons e es ih =>
    cases e <;> simp [commits, ih]

theorem commitCount_eq (id : Nat) (log : List Ev) :
    commitCount id log = ((commits log).map (·.1)).count id := by
  induction log with
  | nil => rfl
  | cons e es ih =>
    cases e <;> simp [commits, ih, List.count_cons]

theorem commitCount_le_one {s : State} (h : ActiveInv s) (id : Nat) : commitCount id s.log ≤ 1 := by
  rw [commitCount_eq]; exact List.nodup_iff_count.1 h.once id

theorem bestCount_le_commitCount {s : State} (h : OweInv s) (id : Nat) :
    bestCount id s.log ≤ commitCount id s.log := by
  have := h id; omega

end Morlock.Proofs.ConcUci
