import Morlock.Proofs.MirrorPseudo
import Morlock.Proofs.PromoLegal
/-!
# C20: making a move commutes with the colour-swapping mirror

For a position with a 64-cell board and a move between squares of the board,
`apply (mirror p) (mirrorMove m) = mirror (apply p m)`.
-/
namespace Morlock.Spec
open Morlock.Proofs.Attack Morlock.Proofs.Gen

/-! ## mirroring a cell array -/

/-- The board array of `mirror`. -/
def mirrorArr (b : Array (Option (Color × Kind))) : Array (Option (Color × Kind)) :=
  ((List.range 64).map fun i => mirrorCell (b.getD (mirrorSq i) none)).toArray

theorem mirror_board (p : Pos) : (mirror p).board = mirrorArr p.board := rfl

@[simp] theorem mirrorArr_size (b : Array (Option (Color × Kind))) : (mirrorArr b).size = 64 := by
  simp [mirrorArr]

theorem getD_mirrorArr (b : Array (Option (Color × Kind))) {i : Nat} (hi : i < 64) :
    (mirrorArr b).getD i none = mirrorCell (b.getD (mirrorSq i) none) := by
  rw [Array.getD, dif_pos (by simpa using hi)]
  simp [mirrorArr]

theorem arr_ext64 {a b : Array (Option (Color × Kind))} (ha : a.size = 64) (hb : b.size = 64)
    (h : ∀ i, i < 64 → a.getD i none = b.getD i none) : a = b := by
  apply Array.ext
  · rw [ha, hb]
  · intro i h1 h2
    have := h i (by omega)
    rw [Array.getD, dif_pos h1, Array.getD, dif_pos h2] at this
    exact this

theorem mirrorArr_setCell {b : Array (Option (Color × Kind))} (hb : b.size = 64) {sq : Nat} (_hsq : sq < 64)
    (v : Option (Color × Kind)) :
    mirrorArr (setCell b sq v) = setCell (mirrorArr b) (mirrorSq sq) (mirrorCell v) := by
  apply arr_ext64 (by simp) (by simp)
  intro i hi
  rw [getD_mirrorArr _ hi, getD_setCell, getD_setCell, getD_mirrorArr _ hi, mirrorArr_size, hb]
  have hm := mirrorSq_lt hi
  by_cases e : sq = mirrorSq i
  · have e' : mirrorSq sq = i := by rw [e, mirrorSq_mirrorSq]
    rw [if_pos ⟨e, hm⟩, if_pos ⟨e', hi⟩]
  · have e' : ¬ mirrorSq sq = i := fun c => e (by rw [← c, mirrorSq_mirrorSq])
    rw [if_neg (fun c => e c.1), if_neg (fun c => e' c.1)]

/-! ## the move classifiers -/

theorem isCastle_mir {p q : Pos} (h : Mir p q) {m : SMove} (hf : m.from < 64) (ht : m.to < 64) :
    isCastle q (mirrorMove m) = isCastle p m := by
  unfold isCastle
  show (match q.at (mirrorSq m.from) with
    | some (_, .king) => (fileOf (mirrorSq m.from) = fE) && (fileOf (mirrorSq m.to) = fG || fileOf (mirrorSq m.to) = fC) &&
        rankOf (mirrorSq m.from) = rankOf (mirrorSq m.to)
    | _ => false) = _
  rw [h.cell _ hf, fileOf_mirrorSq hf, fileOf_mirrorSq ht, rankOf_mirrorSq hf, rankOf_mirrorSq ht]
  have h1 : rankOf m.from < 8 := rankOf_lt hf
  have h2 : rankOf m.to < 8 := rankOf_lt ht
  have e : (7 - rankOf m.from = 7 - rankOf m.to) = (rankOf m.from = rankOf m.to) := by
    apply propext; omega
  cases p.at m.from with
  | none => rfl
  | some v =>
    obtain ⟨c, k⟩ := v
    cases k <;> simp only [mirrorCell_some, e]

theorem isEnPassant_mir {p q : Pos} (h : Mir p q) {m : SMove} (hf : m.from < 64) (ht : m.to < 64) :
    isEnPassant q (mirrorMove m) = isEnPassant p m := by
  unfold isEnPassant
  show (match q.at (mirrorSq m.from) with
    | some (_, .pawn) => fileOf (mirrorSq m.from) ≠ fileOf (mirrorSq m.to) && !(q.occ (mirrorSq m.to))
    | _ => false) = _
  rw [h.cell _ hf, fileOf_mirrorSq hf, fileOf_mirrorSq ht, h.occ _ ht]
  cases p.at m.from with
  | none => rfl
  | some v =>
    obtain ⟨c, k⟩ := v
    cases k <;> simp only [mirrorCell_some]

theorem isDoubleStep_mir {p q : Pos} (h : Mir p q) {m : SMove} (hf : m.from < 64) (ht : m.to < 64) :
    isDoubleStep q (mirrorMove m) = isDoubleStep p m := by
  unfold isDoubleStep
  show (match q.at (mirrorSq m.from) with
    | some (_, .pawn) => (rankOf (mirrorSq m.from) + 2 = rankOf (mirrorSq m.to)) ||
        (rankOf (mirrorSq m.to) + 2 = rankOf (mirrorSq m.from))
    | _ => false) = _
  rw [h.cell _ hf, rankOf_mirrorSq hf, rankOf_mirrorSq ht]
  have h1 : rankOf m.from < 8 := rankOf_lt hf
  have h2 : rankOf m.to < 8 := rankOf_lt ht
  have e1 : (7 - rankOf m.from + 2 = 7 - rankOf m.to) = (rankOf m.to + 2 = rankOf m.from) := by
    apply propext; omega
  have e2 : (7 - rankOf m.to + 2 = 7 - rankOf m.from) = (rankOf m.from + 2 = rankOf m.to) := by
    apply propext; omega
  cases p.at m.from with
  | none => rfl
  | some v =>
    obtain ⟨c, k⟩ := v
    cases k <;> simp only [mirrorCell_some, e1, e2]
    rw [Bool.or_comm]

theorem isDoubleStep_ranks {p : Pos} {m : SMove} (h : isDoubleStep p m = true) :
    rankOf m.from + 2 = rankOf m.to ∨ rankOf m.to + 2 = rankOf m.from := by
  unfold isDoubleStep at h
  split at h
  · simpa using h
  · cases h

/-! ## `apply`, field by field -/

theorem apply_none {p : Pos} {m : SMove} (hat : p.at m.from = none) : apply p m = p := by
  unfold apply; simp only [hat]

theorem apply_some {p : Pos} {m : SMove} {c : Color} {k : Kind} (hat : p.at m.from = some (c, k)) :
    apply p m =
      { board := setCell (baseBoard p m c) m.to (some (c, match m.promo with | some pk => pk | none => k))
        turn := c.opp
        wk := p.wk && !(decide (m.from = mkSq fE 0) || decide (m.to = mkSq fE 0)) &&
                !(decide (m.from = mkSq fH 0) || decide (m.to = mkSq fH 0))
        wq := p.wq && !(decide (m.from = mkSq fE 0) || decide (m.to = mkSq fE 0)) &&
                !(decide (m.from = mkSq fA 0) || decide (m.to = mkSq fA 0))
        bk := p.bk && !(decide (m.from = mkSq fE 7) || decide (m.to = mkSq fE 7)) &&
                !(decide (m.from = mkSq fH 7) || decide (m.to = mkSq fH 7))
        bq := p.bq && !(decide (m.from = mkSq fE 7) || decide (m.to = mkSq fE 7)) &&
                !(decide (m.from = mkSq fA 7) || decide (m.to = mkSq fA 7))
        ep := if isDoubleStep p m then some (mkSq (fileOf m.from) ((rankOf m.from + rankOf m.to) / 2)) else none } := by
  unfold apply
  simp only [hat]
  rfl

theorem baseBoard_size (p : Pos) (m : SMove) (c : Color) : (baseBoard p m c).size = p.board.size := by
  unfold baseBoard
  simp only []
  split <;> split <;> (try split) <;> simp

theorem touch_mir (x : Nat) {f r : Nat} (hf : f < 8) (hr : r < 8) :
    decide (mirrorSq x = mkSq f r) = decide (x = mkSq f (7 - r)) := by
  apply decide_eq_decide.mpr
  constructor
  · intro e
    rw [← mirrorSq_mirrorSq x, e, mirrorSq_mkSq hf hr]
  · intro e
    rw [e, mirrorSq_mkSq hf (by omega)]
    congr 1; omega

/-- The intermediate board commutes with the mirror. -/
theorem baseBoard_mirror {p : Pos} (hsz : p.board.size = 64) {m : SMove} (hf : m.from < 64) (ht : m.to < 64)
    (c : Color) :
    baseBoard (mirror p) (mirrorMove m) c.opp = mirrorArr (baseBoard p m c) := by
  have hM := Mir.of_mirror p
  have hr : rankOf m.from < 8 := rankOf_lt hf
  have hfl : fileOf m.to < 8 := fileOf_lt _
  unfold baseBoard
  simp only [isEnPassant_mir hM hf ht, isCastle_mir hM hf ht]
  show setCell
      (if isCastle p m = true then
        if fileOf (mirrorSq m.to) = fG then
          setCell (setCell (if isEnPassant p m = true then
              setCell (mirror p).board (mkSq (fileOf (mirrorSq m.to)) (rankOf (mirrorSq m.from))) none
            else (mirror p).board) (mkSq fH (rankOf (mirrorSq m.from))) none)
            (mkSq fF (rankOf (mirrorSq m.from))) (some (c.opp, .rook))
        else
          setCell (setCell (if isEnPassant p m = true then
              setCell (mirror p).board (mkSq (fileOf (mirrorSq m.to)) (rankOf (mirrorSq m.from))) none
            else (mirror p).board) (mkSq fA (rankOf (mirrorSq m.from))) none)
            (mkSq fD (rankOf (mirrorSq m.from))) (some (c.opp, .rook))
      else
        if isEnPassant p m = true then
          setCell (mirror p).board (mkSq (fileOf (mirrorSq m.to)) (rankOf (mirrorSq m.from))) none
        else (mirror p).board) (mirrorSq m.from) none = _
  rw [fileOf_mirrorSq ht, rankOf_mirrorSq hf, mirror_board]
  have sq : ∀ f, f < 8 → mkSq f (7 - rankOf m.from) = mirrorSq (mkSq f (rankOf m.from)) :=
    fun f hf' => (mirrorSq_mkSq hf' hr).symm
  have lt : ∀ f, f < 8 → mkSq f (rankOf m.from) < 64 := fun f hf' => mkSq_lt hf' hr
  rw [sq _ hfl, sq _ fH_lt, sq _ fF_lt, sq _ fA_lt, sq _ fD_lt]
  -- the en-passant stage
  have e1 : (if isEnPassant p m = true then
        setCell (mirrorArr p.board) (mirrorSq (mkSq (fileOf m.to) (rankOf m.from))) none
      else mirrorArr p.board) =
      mirrorArr (if isEnPassant p m = true then setCell p.board (mkSq (fileOf m.to) (rankOf m.from)) none
        else p.board) := by
    split
    · rw [mirrorArr_setCell hsz (lt _ hfl)]; rfl
    · rfl
  rw [e1]
  have hsz1 : (if isEnPassant p m = true then setCell p.board (mkSq (fileOf m.to) (rankOf m.from)) none
        else p.board).size = 64 := by
    split
    · rw [size_setCell]; exact hsz
    · exact hsz
  generalize (if isEnPassant p m = true then setCell p.board (mkSq (fileOf m.to) (rankOf m.from)) none
        else p.board) = b1 at hsz1 ⊢
  -- the castling stage
  by_cases hc : isCastle p m = true
  · rw [if_pos hc, if_pos hc]
    by_cases hg : fileOf m.to = fG
    · rw [if_pos hg, if_pos hg, mirrorArr_setCell (by simp [hsz1]) hf,
        mirrorArr_setCell (by simp [hsz1]) (lt _ fF_lt), mirrorArr_setCell hsz1 (lt _ fH_lt)]
      rfl
    · rw [if_neg hg, if_neg hg, mirrorArr_setCell (by simp [hsz1]) hf,
        mirrorArr_setCell (by simp [hsz1]) (lt _ fD_lt), mirrorArr_setCell hsz1 (lt _ fA_lt)]
      rfl
  · rw [if_neg hc, if_neg hc, mirrorArr_setCell hsz1 hf]
    rfl

/-- **Making a move commutes with the mirror** (64-cell board, move between squares of the board). -/
theorem apply_mirror {p : Pos} (hsz : p.board.size = 64) {m : SMove} (hf : m.from < 64) (ht : m.to < 64) :
    apply (mirror p) (mirrorMove m) = mirror (apply p m) := by
  have hM := Mir.of_mirror p
  cases hat : p.at m.from with
  | none =>
    rw [apply_none hat, apply_none (m := mirrorMove m) (hM.at_none hf hat)]
  | some v =>
    obtain ⟨c, k⟩ := v
    have hat' : (mirror p).at (mirrorMove m).from = some (c.opp, k) := hM.at_some hf hat
    rw [apply_some hat, apply_some hat']
    have hr1 : rankOf m.from < 8 := rankOf_lt hf
    have hr2 : rankOf m.to < 8 := rankOf_lt ht
    have hfl : fileOf m.from < 8 := fileOf_lt _
    apply Pos.ext'
    · -- board
      show setCell (baseBoard (mirror p) (mirrorMove m) c.opp) (mirrorSq m.to) _ = mirrorArr _
      rw [baseBoard_mirror hsz hf ht, mirrorArr_setCell (by rw [baseBoard_size]; exact hsz) ht]
      rfl
    · rfl
    · show (p.bk && !(decide (mirrorSq m.from = mkSq fE 0) || decide (mirrorSq m.to = mkSq fE 0)) &&
          !(decide (mirrorSq m.from = mkSq fH 0) || decide (mirrorSq m.to = mkSq fH 0))) = _
      rw [touch_mir _ fE_lt (by decide), touch_mir _ fE_lt (by decide), touch_mir _ fH_lt (by decide),
        touch_mir _ fH_lt (by decide)]
      rfl
    · show (p.bq && !(decide (mirrorSq m.from = mkSq fE 0) || decide (mirrorSq m.to = mkSq fE 0)) &&
          !(decide (mirrorSq m.from = mkSq fA 0) || decide (mirrorSq m.to = mkSq fA 0))) = _
      rw [touch_mir _ fE_lt (by decide), touch_mir _ fE_lt (by decide), touch_mir _ fA_lt (by decide),
        touch_mir _ fA_lt (by decide)]
      rfl
    · show (p.wk && !(decide (mirrorSq m.from = mkSq fE 7) || decide (mirrorSq m.to = mkSq fE 7)) &&
          !(decide (mirrorSq m.from = mkSq fH 7) || decide (mirrorSq m.to = mkSq fH 7))) = _
      rw [touch_mir _ fE_lt (by decide), touch_mir _ fE_lt (by decide), touch_mir _ fH_lt (by decide),
        touch_mir _ fH_lt (by decide)]
      rfl
    · show (p.wq && !(decide (mirrorSq m.from = mkSq fE 7) || decide (mirrorSq m.to = mkSq fE 7)) &&
          !(decide (mirrorSq m.from = mkSq fA 7) || decide (mirrorSq m.to = mkSq fA 7))) = _
      rw [touch_mir _ fE_lt (by decide), touch_mir _ fE_lt (by decide), touch_mir _ fA_lt (by decide),
        touch_mir _ fA_lt (by decide)]
      rfl
    · -- en-passant target
      show (if isDoubleStep (mirror p) (mirrorMove m) = true then
          some (mkSq (fileOf (mirrorSq m.from)) ((rankOf (mirrorSq m.from) + rankOf (mirrorSq m.to)) / 2))
        else none) = Option.map mirrorSq (if isDoubleStep p m = true then
          some (mkSq (fileOf m.from) ((rankOf m.from + rankOf m.to) / 2)) else none)
      rw [isDoubleStep_mir hM hf ht]
      by_cases hd : isDoubleStep p m = true
      · rw [if_pos hd, if_pos hd, Option.map_some]
        congr 1
        have hrk := isDoubleStep_ranks hd
        have hmid : (rankOf m.from + rankOf m.to) / 2 < 8 := by omega
        rw [fileOf_mirrorSq hf, rankOf_mirrorSq hf, rankOf_mirrorSq ht, mirrorSq_mkSq hfl hmid]
        congr 1
        omega
      · rw [if_neg hd, if_neg hd, Option.map_none]

end Morlock.Spec
