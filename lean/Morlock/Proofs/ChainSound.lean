import Morlock.Proofs.ChainReach
import Morlock.Proofs.DrawSync
/-!
# Chain (C01 → C05): every generated move is `MoveSound`; the C05 step conditions from `WFplay`

`MoveSound b m` (`Proofs/DrawMeasure.lean`) asks that the move type resets the clock iff a pawn moves or the
destination is occupied, that a pawn moves towards promotion, and that only pawns carry a promotion type.
Here it is *derived* from the per-kind characterisations of the generator output (C01 stages B, C, D):
`StepMove`, `PawnMove`, `CastleMove` (`pseudo_moveSound`). Together with `Proofs/ChainWF.lean` (mover colour, no
king capture, preservation of `WFplay`) this gives `step_wfplay`: every accepted generated move of a `WFplay`
position is a `FullStep` of C05.
-/
namespace Morlock.Proofs.Chain
open Morlock Morlock.Model Morlock.Proofs Morlock.Proofs.Gen Morlock.Proofs.Draw Morlock.Proofs.Attack

/-- An officer or king step: type `normal` onto an empty square, `capture` onto an occupied one. -/
theorem stepMove_moveSound {b : Board} {turn : Color} {pc : Piece} {m : Move} (hpw : pc ≠ .pawn)
    (hm : StepMove b turn pc m) : MoveSound b m = true := by
  obtain ⟨hsq, _, _, _, hd⟩ := hm
  unfold MoveSound
  rw [hsq]
  rcases hd with ⟨hn, hty, _⟩ | ⟨k, hk, hty, _⟩
  · simp [isReset, Move.isCastle, Move.isPromotion, hty, hn, hpw]
  · simp [isReset, Move.isCastle, Move.isPromotion, hty, hk, hpw]

/-- One step of a pawn (straight or diagonal) goes towards its promotion rank. -/
theorem forward_of_step {turn : Color} {s t : Nat} {df : Int}
    (h : Spec.step s df (Spec.fwd (absColor turn)) = some t) : forward turn s t = true := by
  obtain ⟨_, c2⟩ := step_coords h
  cases turn <;> simp only [Spec.fwd, absColor] at c2 <;> simp only [forward, decide_eq_true_eq] <;> omega

theorem forward_of_pawnTarget {turn : Color} {s t : Nat} (h : t ∈ Spec.pawnTargets (absColor turn) s) :
    forward turn s t = true := by
  rcases mem_pawnTargets_iff.mp h with h | h <;> exact forward_of_step h

theorem forward_trans {turn : Color} {s t u : Nat} (h1 : forward turn s t = true) (h2 : forward turn t u = true) :
    forward turn s u = true := by
  cases turn <;> simp only [forward, decide_eq_true_eq] at h1 h2 ⊢ <;> omega

/-- Every pawn move has a clock-resetting type and goes forward. -/
theorem pawnMove_moveSound {b : Board} {ep : Nat} {turn : Color} {m : Move} (hm : PawnMove b ep turn m) :
    MoveSound b m = true := by
  obtain ⟨hsq, _, hk⟩ := hm
  unfold MoveSound
  rw [hsq]
  rcases hk with ⟨hst, _, _, hr⟩ | ⟨t1, hst1, hst2, _, _, _, hty, _, _⟩ | ⟨ht, k, _, _, hr⟩ |
    ⟨_, _, ht, _, hty, _, _⟩
  · have hf := forward_of_step hst
    rcases hr with ⟨_, hty, _⟩ | ⟨_, hty, _⟩ <;> simp [isReset, Move.isCastle, Move.isPromotion, hty, hf]
  · have hf := forward_trans (forward_of_step hst1) (forward_of_step hst2)
    simp [isReset, Move.isCastle, Move.isPromotion, hty, hf]
  · have hf := forward_of_pawnTarget ht
    rcases hr with ⟨_, hty, _⟩ | ⟨_, hty, _⟩ <;> simp [isReset, Move.isCastle, Move.isPromotion, hty, hf]
  · have hf := forward_of_pawnTarget ht
    simp [isReset, Move.isCastle, Move.isPromotion, hty, hf]

/-- The destination of a castling move is one of the squares the generator found empty. -/
theorem castleMove_to_empty {b : Board} {castling : Nat} {turn : Color} {m : Move}
    (hm : CastleMove b castling turn m) : b m.to = none := by
  obtain ⟨cs, hcs, _, hempty, _, _, _, hto, _, _⟩ := hm
  rw [hto]
  apply hempty
  cases turn <;> simp only [castleParams, List.mem_cons, List.not_mem_nil, or_false] at hcs <;>
    rcases hcs with rfl | rfl <;> decide

/-- A castling move (king on its home square) does not reset the clock, lands on an empty square. -/
theorem castleMove_moveSound {b : Board} {castling ep : Nat} {turn t : Color} (hw : WFb b castling ep t)
    {m : Move} (hm : CastleMove b castling turn m) (hfr : m.from = kingHomeSq turn) : MoveSound b m = true := by
  have hk := hm.kingHome hw
  have hto := castleMove_to_empty hm
  have hc := castleMove_isCastle hm
  have hp : m.isPromotion = false := by
    unfold Move.isCastle at hc
    unfold Move.isPromotion
    cases hty : m.ty <;> simp [hty] at hc ⊢
  unfold MoveSound
  rw [hfr, hk]
  simp [isReset, hc, hp, hto]

/-- **Every pseudo-legal move with metadata is `MoveSound`.** -/
theorem pseudoMove_moveSound {b : Board} {castling ep : Nat} {turn : Color} (hw : WFb b castling ep turn)
    {m : Move} (hm : PseudoMove b castling ep turn m) : MoveSound b m = true := by
  rcases hm with ⟨pc, hpc, hs⟩ | hp | hs | ⟨hf, hc⟩
  · have hpw : pc ≠ .pawn := by
      rcases (mem_promoPieces pc).mp hpc with rfl | rfl | rfl | rfl <;> simp
    exact stepMove_moveSound hpw hs
  · exact pawnMove_moveSound hp
  · exact stepMove_moveSound (by simp) hs
  · exact castleMove_moveSound hw hc hf

/-- **`pseudo_moveSound`.** On a well-formed position every generated move is `MoveSound` on the mailbox
board: its type resets the clock iff a pawn moves or the destination is occupied, a pawn moves towards its
promotion rank, only pawns carry a promotion type. -/
theorem pseudo_moveSound {p : Position} {turn : Color} (hw : WF p turn) :
    ∀ m ∈ p.pseudoLegalMoves turn, MoveSound p.square m = true :=
  fun m hm => pseudoMove_moveSound hw.wfb ((mem_pseudoLegalMoves hw.rep hw.wfb m).mp hm)

/-! ## the step conditions of C05 -/

/-- **Every accepted generated move of a `WFplay` position is a fully sound step** (`FullStep`: `GoodStep` — views
agree, accurate metadata, moved by the side to move, `MoveSound`, `Position.move` gives `q` — plus `ClassOK` and
no king capture), and the new position satisfies `WFplay` with the other side to move. -/
theorem step_wfplay {p q : Position} {turn : Color} {m : Move} (hw : WFplay p turn)
    (hm : m ∈ p.pseudoLegalMoves turn) (hq : p.move m = some q) :
    FullStep p turn m q ∧ WFplay q turn.opp := by
  have hps := (mem_pseudoLegalMoves hw.1.rep hw.1.wfb m).mp hm
  obtain ⟨hok, hcl⟩ := hps.metaOK_classOK hw.1.rep hw.1.wfb
  exact ⟨⟨⟨hw.1.rep, hok, ⟨_, pseudo_mover hw.1 m hm⟩, pseudo_moveSound hw.1 m hm, hq⟩, hcl,
    pseudo_noKingCapture hw m hm⟩, wf_preserved hw hm hq⟩

/-- The step is fully sound: everything C05 (`GoodStep`, `FullStep`) asks of a move. -/
theorem fullStep_of_wfplay {p q : Position} {turn : Color} {m : Move} (hw : WFplay p turn)
    (hm : m ∈ p.pseudoLegalMoves turn) (hq : p.move m = some q) : FullStep p turn m q :=
  (step_wfplay hw hm hq).1

/-- The decidable criterion of C05 holds for every generated move of a `WFplay` position. -/
theorem stepCheck_of_wfplay {p : Position} {turn : Color} (hw : WFplay p turn) :
    ∀ m ∈ p.pseudoLegalMoves turn, stepCheck p turn m = true := by
  intro m hm
  have hps := (mem_pseudoLegalMoves hw.1.rep hw.1.wfb m).mp hm
  obtain ⟨hok, hcl⟩ := hps.metaOK_classOK hw.1.rep hw.1.wfb
  unfold stepCheck StepOK
  rw [hok, hcl, pseudo_moveSound hw.1 m hm, pseudo_mover hw.1 m hm]
  simp [pseudo_noKingCapture hw m hm]

/-- `PosOK` (what C05 `game_link` asks of the start position) from `WFplay`, the castling field holding only
the four rights bits, and two kings on the board. -/
theorem posOK_of_wfplay {p : Position} {t : Color} (hw : WFplay p t) (hc : p.castling < 16)
    (hk : Material.kingCount p.square = 2) : PosOK p :=
  ⟨hw.1.rep, kingHome_of_wf hw.1, hc, hk⟩

end Morlock.Proofs.Chain
