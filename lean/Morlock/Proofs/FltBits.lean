import Morlock.Proofs.FltOrder
/-! # IEEE bit patterns: `ofBits (bits x) = rnd x`; equal patterns ⟺ equal values -/
namespace Morlock.Model.Flt

/-- the interchange formats: bias `2^(ebits-1) − 1 = emax`, `emin = 2 − p − emax` -/
structure Fmt.IEEE (f : Fmt) : Prop where
  p_pos : 1 ≤ f.p
  ebits_ge : 2 ≤ f.ebits
  emax_eq : f.emax = ((2 ^ (f.ebits - 1) - 1 : Nat) : Int)
  emin_eq : f.emin = 2 - (f.p : Int) - f.emax

theorem f32_ieee : f32.IEEE := ⟨by decide, by decide, by decide, by decide⟩
theorem f64_ieee : f64.IEEE := ⟨by decide, by decide, by decide, by decide⟩

theorem Fmt.IEEE.wf {f : Fmt} (h : f.IEEE) : f.WF := by
  refine ⟨h.p_pos, ?_⟩
  have h1 := h.emax_eq
  have h2 := h.emin_eq
  have : 2 ≤ 2 ^ (f.ebits - 1) := by
    calc 2 = 2 ^ 1 := rfl
      _ ≤ 2 ^ (f.ebits - 1) := Nat.pow_le_pow_right (by decide) (by have := h.ebits_ge; omega)
  omega

/-- decoding of `sign | field | fraction` -/
theorem decode_fields (s F r A T : Nat) (hT : 0 < T) (hA : 0 < A) (hr : r < T) (hF : F < A) (hs : s < 2) :
    (s * (A * T) + F * T + r) / (A * T) % 2 = s ∧ (s * (A * T) + F * T + r) / T % A = F ∧
      (s * (A * T) + F * T + r) % T = r := by
  have e0 : s * (A * T) + F * T + r = r + (s * A + F) * T := by grind
  have e1 : (s * (A * T) + F * T + r) / T = s * A + F := by
    rw [e0, Nat.add_mul_div_right _ _ hT, Nat.div_eq_of_lt hr]; simp
  refine ⟨?_, ?_, ?_⟩
  · have : (s * (A * T) + F * T + r) / (A * T) = (s * (A * T) + F * T + r) / T / A := by
      rw [Nat.div_div_eq_div_mul, Nat.mul_comm T A]
    rw [this, e1]
    have : (s * A + F) / A = s := by
      rw [Nat.add_comm, Nat.add_mul_div_right _ _ hA, Nat.div_eq_of_lt hF]; simp
    rw [this]; exact Nat.mod_eq_of_lt hs
  · rw [e1, Nat.add_comm, Nat.add_mul_mod_self_right]; exact Nat.mod_eq_of_lt hF
  · rw [e0, Nat.add_mul_mod_self_right]; exact Nat.mod_eq_of_lt hr

theorem ofME_zero (neg : Bool) (e : Int) : ofME neg 0 e = ⟨0, 1⟩ := by
  obtain ⟨hc, _, _, hz⟩ := ofME_spec neg 0 e
  have h0 := hz.mpr rfl
  generalize ofME neg 0 e = v at *
  obtain ⟨n, d⟩ := v
  simp only [] at h0
  subst h0
  unfold Q.Canon at hc
  simp at hc
  rw [hc.2]

theorem ofBits_eq (f : Fmt) (hp : 1 ≤ f.p) (he : 1 ≤ f.ebits) (neg : Bool) (F r : Nat) (hr : r < 2 ^ (f.p - 1))
    (hF : F < 2 ^ f.ebits - 1) :
    ofBits f ((if neg then 2 ^ (f.ebits + f.p - 1) else 0) + F * 2 ^ (f.p - 1) + r) =
      if F = 0 then some (ofME neg r f.emin)
      else some (ofME neg (r + 2 ^ (f.p - 1)) ((F : Int) - (2 ^ (f.ebits - 1) - 1 : Nat) - ((f.p : Int) - 1))) := by
  have hA : 0 < 2 ^ f.ebits := Nat.two_pow_pos _
  have hT : 0 < 2 ^ (f.p - 1) := Nat.two_pow_pos _
  have hpow : 2 ^ (f.ebits + f.p - 1) = 2 ^ f.ebits * 2 ^ (f.p - 1) := by
    rw [← Nat.pow_add]; congr 1; omega
  have hsign : (if neg then 2 ^ (f.ebits + f.p - 1) else 0) = (if neg then 1 else 0) * (2 ^ f.ebits * 2 ^ (f.p - 1)) := by
    cases neg <;> simp [hpow]
  obtain ⟨d1, d2, d3⟩ := decode_fields (if neg then 1 else 0) F r (2 ^ f.ebits) (2 ^ (f.p - 1)) hT hA hr (by omega)
    (by cases neg <;> simp)
  unfold ofBits
  simp only []
  rw [hsign, hpow, d1, d2, d3]
  have hne : (F == 2 ^ f.ebits - 1) = false := by simp; omega
  rw [hne]
  have hneg : ((if neg = true then 1 else 0) == 1) = neg := by cases neg <;> simp
  rw [hneg]
  by_cases h0 : F = 0
  · simp [h0]
  · simp [h0]

theorem bits_of_num_ne_zero (f : Fmt) {x : Q} (h0 : x.num ≠ 0) :
    bits f x = (rndPos f x.num.natAbs x.den).bind fun me =>
        (let sign := if x.num < 0 then 2 ^ (f.ebits + f.p - 1) else 0
         if me.1 == 0 then some 0
         else if me.1 < 2 ^ (f.p - 1) then some (sign + me.1)
         else
           let field : Int := me.2 + ((f.p : Int) - 1) + (2 ^ (f.ebits - 1) - 1 : Nat)
           some (sign + field.toNat * 2 ^ (f.p - 1) + (me.1 - 2 ^ (f.p - 1)))) := by
  unfold bits
  have : (x.num == 0) = false := by simpa using h0
  rw [this]
  simp only [Bool.false_eq_true, if_false]
  cases rndPos f x.num.natAbs x.den with
  | none => rfl
  | some me => rfl

theorem ofBits_zero (f : Fmt) (hp : 1 ≤ f.p) (he : 1 ≤ f.ebits) : ofBits f 0 = some ⟨0, 1⟩ := by
  have hT : 0 < 2 ^ (f.p - 1) := Nat.two_pow_pos _
  have h2 : 2 ≤ 2 ^ f.ebits := by
    calc 2 = 2 ^ 1 := rfl
      _ ≤ 2 ^ f.ebits := Nat.pow_le_pow_right (by decide) he
  have := ofBits_eq f hp he false 0 0 hT (by omega)
  simp only [Bool.false_eq_true, if_false, Nat.zero_mul, Nat.add_zero, if_true] at this
  rw [this, ofME_zero]

/-- decoding the bit pattern of (the rounding of) `x` gives the rounding of `x` -/
theorem ofBits_bits (f : Fmt) (ieee : f.IEEE) (x : Q) (hd : 0 < x.den) : (bits f x).bind (ofBits f) = rnd f x := by
  have wf := ieee.wf
  have hp := ieee.p_pos
  have hT : 0 < 2 ^ (f.p - 1) := Nat.two_pow_pos _
  have h2e : 2 * 2 ^ (f.ebits - 1) = 2 ^ f.ebits := two_pow_pred (by have := ieee.ebits_ge; omega)
  have hEpos : 2 ≤ 2 ^ (f.ebits - 1) := by
    calc 2 = 2 ^ 1 := rfl
      _ ≤ 2 ^ (f.ebits - 1) := Nat.pow_le_pow_right (by decide) (by have := ieee.ebits_ge; omega)
  by_cases h0 : x.num = 0
  · rw [rnd_of_num_eq_zero f h0]
    have : bits f x = some 0 := by simp [bits, h0]
    rw [this]
    simp only [Option.bind_some]
    exact ofBits_zero f hp (by have := ieee.ebits_ge; omega)
  · rw [rnd_of_num_ne_zero f h0]
    have hb := bits_of_num_ne_zero f h0
    rw [hb]
    cases hr : rndPos f x.num.natAbs x.den with
    | none => rfl
    | some me =>
      obtain ⟨m, e⟩ := me
      obtain ⟨hm, hemin, hemax, hnorm, _, _⟩ := rndPos_spec f hp (by omega) hd hr
      simp only [Option.bind_some, Option.map_some]
      have hsg : (if x.num < 0 then 2 ^ (f.ebits + f.p - 1) else 0) =
          (if decide (x.num < 0) = true then 2 ^ (f.ebits + f.p - 1) else 0) := by simp
      rw [hsg]
      by_cases hm0 : m = 0
      · subst hm0
        simp only [beq_self_eq_true, if_true, Option.bind_some]
        rw [ofBits_zero f hp (by have := ieee.ebits_ge; omega), ofME_zero]
      have hm0' : (m == 0) = false := by simpa using hm0
      simp only [hm0', Bool.false_eq_true, if_false]
      by_cases hsub : m < 2 ^ (f.p - 1)
      · have he : e = f.emin := by
          rcases hnorm with h1 | h1
          · omega
          · exact h1
        simp only [hsub, if_true, Option.bind_some]
        have := ofBits_eq f hp (by have := ieee.ebits_ge; omega) (decide (x.num < 0)) 0 m hsub (by omega)
        simp only [Nat.zero_mul, Nat.add_zero, if_true] at this
        rw [this, he]
      · simp only [hsub, if_false, Option.bind_some]
        have h1 := ieee.emax_eq
        have h2 := ieee.emin_eq
        generalize hF : (e + ((f.p : Int) - 1) + ((2 ^ (f.ebits - 1) - 1 : Nat) : Int)).toNat = F
        have hP := two_pow_pred hp
        have := ofBits_eq f hp (by have := ieee.ebits_ge; omega) (decide (x.num < 0)) F (m - 2 ^ (f.p - 1))
          (by omega) (by omega)
        rw [this]
        have hF0 : F ≠ 0 := by omega
        simp only [hF0, if_false]
        have e1 : m - 2 ^ (f.p - 1) + 2 ^ (f.p - 1) = m := by omega
        have e2 : (F : Int) - ((2 ^ (f.ebits - 1) - 1 : Nat) : Int) - ((f.p : Int) - 1) = e := by omega
        rw [e1, e2]

/-- equal values have equal bit patterns -/
theorem bits_congr (f : Fmt) (wf : f.WF) {x y : Q} (hx : 0 < x.den) (hy : 0 < y.den) (h : Q.Eqv x y) :
    bits f x = bits f y := by
  obtain ⟨hs, hz, ha⟩ := Q.abs_of_eqv hy hx h
  unfold bits
  by_cases h0 : x.num = 0
  · have h0' := hz.mp h0
    simp [h0, h0']
  · have h0' : y.num ≠ 0 := fun c => h0 (hz.mpr c)
    have b1 : (x.num == 0) = false := by simpa using h0
    have b2 : (y.num == 0) = false := by simpa using h0'
    rw [b1, b2]
    simp only [Bool.false_eq_true, if_false]
    rw [rndPos_congr f wf.p_pos (a := x.num.natAbs) (b := x.den) (a' := y.num.natAbs) (b' := y.den)
      (by omega) hx (by omega) hy ha]
    have : (x.num < 0) = (y.num < 0) := propext hs
    simp only [this]

/-- on numbers of the format, equal bit patterns mean equal values -/
theorem bits_inj (f : Fmt) (ieee : f.IEEE) {x y : Q} (hx : 0 < x.den) (hy : 0 < y.den) (rx : Rep f x) (ry : Rep f y)
    (h : bits f x = bits f y) : Q.Eqv x y := by
  have wf := ieee.wf
  obtain ⟨x', hx', ex, cx⟩ := rnd_exact f wf hx rx
  obtain ⟨y', hy', ey, cy⟩ := rnd_exact f wf hy ry
  have : rnd f x = rnd f y := by rw [← ofBits_bits f ieee x hx, ← ofBits_bits f ieee y hy, h]
  rw [hx', hy'] at this
  have : x' = y' := by simpa using this
  subst this
  exact Q.Eqv.trans cx.1 ex.symm ey


/-- a normalised pair is determined by its value -/
theorem pair_unique (f : Fmt) (hp : 1 ≤ f.p) {m m' : Nat} {e e' : Int} (hm : m < 2 ^ f.p) (hm' : m' < 2 ^ f.p)
    (he : f.emin ≤ e) (he' : f.emin ≤ e') (hn : 2 ^ (f.p - 1) ≤ m ∨ e = f.emin) (hn' : 2 ^ (f.p - 1) ≤ m' ∨ e' = f.emin)
    (h : m * pn e * pd e' = m' * pn e' * pd e) : m = m' ∧ e = e' := by
  have h1 := exp_le_of_ple f hp hn hm' he' (Nat.le_of_eq h)
  have h2 := exp_le_of_ple f hp hn' hm he (Nat.le_of_eq h.symm)
  have hee : e = e' := by omega
  subst hee
  refine ⟨?_, rfl⟩
  have : m * (pn e * pd e) = m' * (pn e * pd e) := by
    calc m * (pn e * pd e) = m * pn e * pd e := by grind
      _ = m' * pn e * pd e := h
      _ = m' * (pn e * pd e) := by grind
  exact Nat.eq_of_mul_eq_mul_right (Nat.mul_pos (pn_pos _) (pd_pos _)) this

/-- rounding the value of a result pair gives the same pair -/
theorem rndPos_idem (f : Fmt) (hp : 1 ≤ f.p) {a b a' b' m : Nat} {e : Int} (ha : 0 < a) (hb : 0 < b)
    (h : rndPos f a b = some (m, e)) (ha' : 0 < a') (hb' : 0 < b') (hv : a' * pd e = m * b' * pn e) :
    rndPos f a' b' = some (m, e) := by
  obtain ⟨hm, he, hmax, hn, _, _⟩ := rndPos_spec f hp ha hb h
  obtain ⟨m2, e2, h2, hv2⟩ := rndPos_exact f hp ha' hb' hv hm he hmax
  obtain ⟨hm2, he2, _, hn2, _, _⟩ := rndPos_spec f hp ha' hb' h2
  have : m * pn e * pd e2 = m2 * pn e2 * pd e := by
    have : m * pn e * pd e2 * b' = m2 * pn e2 * pd e * b' := by
      calc m * pn e * pd e2 * b' = m * b' * pn e * pd e2 := by grind
        _ = a' * pd e * pd e2 := by rw [hv]
        _ = a' * pd e2 * pd e := by grind
        _ = m2 * b' * pn e2 * pd e := by rw [hv2]
        _ = m2 * pn e2 * pd e * b' := by grind
    exact Nat.eq_of_mul_eq_mul_right hb' this
  obtain ⟨rfl, rfl⟩ := pair_unique f hp hm hm2 he he2 hn hn2 this
  exact h2

/-- the bit pattern of the rounded value is the bit pattern computed from `x` itself -/
theorem bits_rnd (f : Fmt) (wf : f.WF) {x y : Q} (hd : 0 < x.den) (h : rnd f x = some y) : bits f y = bits f x := by
  have hp := wf.p_pos
  by_cases h0 : x.num = 0
  · rw [rnd_of_num_eq_zero f h0] at h
    have : y = ⟨0, 1⟩ := by simpa using h.symm
    subst this
    simp [bits, h0]
  · obtain ⟨m, e, hr, hy⟩ := rnd_eq_some f h0 h
    obtain ⟨hc, hv, hs, hzero⟩ := ofME_spec (decide (x.num < 0)) m e
    rw [← hy] at hc hv hs hzero
    rcases Nat.eq_zero_or_pos m with hm | hm
    · have hy0 := hzero.mpr hm
      rw [bits_of_num_ne_zero f h0, hr]
      subst hm
      simp [bits, hy0]
    · have hy0 : y.num ≠ 0 := fun c => by have := hzero.mp c; omega
      have hsy : (y.num < 0) = (x.num < 0) := by
        apply propext; rw [hs]; simp [hm]
      have hr' : rndPos f y.num.natAbs y.den = some (m, e) := by
        apply rndPos_idem f hp (a := x.num.natAbs) (b := x.den) (by omega) hd hr (by omega) hc.1
        rw [hv]; grind
      rw [bits_of_num_ne_zero f h0, bits_of_num_ne_zero f hy0, hr, hr']
      simp only [hsy]

end Morlock.Model.Flt
