import Morlock.Proofs.ArenaObs
/-!
# C05, list level: lines, sides, occurrence counts, the loop `identicalPositionCount`, the clock

Everything here is about plain lists of nodes (`nearest first`); `Morlock/Proofs/DrawWorld.lean` ties the
lists to the arena.

* `key n` - position, hash and clock of a node, links (`next`, `prev`) erased;
* `sided t l` - pairs the nodes of a line with the side to move there (`t` at the head, alternating);
* `occOf pos turn t l` - how many entries of the line have position `pos` with `turn` to move;
* `ipcList_spec` - what the loop of `identicalPositionCount` computes: it looks at the first `limit`
  strict ancestors only and counts those with equal hash, side and position;
* `ipcList_exact` - under hash faithfulness and irreversibility that is the whole-line count;
* `ClockChain` / `clockChain_exact` - the half-move clock along a line.
-/
namespace Morlock.Proofs.Draw
open Morlock Morlock.Model Morlock.Model.World Morlock.Proofs.Arena

/-! ## keys and sides -/

/-- Position, hash and clock of a node; the links `next` / `prev` are erased. -/
def key (n : Node) : Node := { pos := n.pos, hash := n.hash, noprogress := n.noprogress }

@[simp] theorem key_pos (n : Node) : (key n).pos = n.pos := rfl
@[simp] theorem key_hash (n : Node) : (key n).hash = n.hash := rfl
@[simp] theorem key_noprogress (n : Node) : (key n).noprogress = n.noprogress := rfl
@[simp] theorem key_key (n : Node) : key (key n) = key n := rfl
@[simp] theorem key_eraseNode (n : Node) : key (eraseNode n) = key n := rfl

/-- Pairs every node of a line (nearest first) with the side to move there: `t` at the head, then
alternating. -/
def sided : Color → List Node → List (Node × Color)
  | _, [] => []
  | t, n :: r => (n, t) :: sided t.opp r

@[simp] theorem sided_nil (t : Color) : sided t [] = [] := rfl
@[simp] theorem sided_cons (t : Color) (n : Node) (r : List Node) : sided t (n :: r) = (n, t) :: sided t.opp r := rfl

theorem sided_map_fst : ∀ (t : Color) (l : List Node), (sided t l).map Prod.fst = l
  | _, [] => rfl
  | t, n :: r => by simp [sided_map_fst t.opp r]

theorem sided_length : ∀ (t : Color) (l : List Node), (sided t l).length = l.length
  | _, [] => rfl
  | t, n :: r => by simp [sided_length t.opp r]

theorem sided_map (f : Node → Node) : ∀ (t : Color) (l : List Node),
    sided t (l.map f) = (sided t l).map (fun e => (f e.1, e.2))
  | _, [] => rfl
  | t, n :: r => by simp [sided_map f t.opp r]

theorem mem_sided_fst {t : Color} {l : List Node} {e : Node × Color} (h : e ∈ sided t l) : e.1 ∈ l := by
  rw [← sided_map_fst t l]
  exact List.mem_map_of_mem h

/-- "same position (placement, castling rights, en-passant target) and same side to move". -/
def samePos (pos : Position) (turn : Color) (e : Node × Color) : Bool := e.1.pos == pos && e.2 == turn

/-- The test of the loop in `identicalPositionCount`: same hash, same side, same position. -/
def sameKey (hash : Nat) (pos : Position) (turn : Color) (e : Node × Color) : Bool :=
  e.1.hash == hash && turn == e.2 && e.1.pos == pos

theorem samePos_iff {pos : Position} {turn : Color} {e : Node × Color} :
    samePos pos turn e = true ↔ e.1.pos = pos ∧ e.2 = turn := by
  simp [samePos]

theorem sameKey_iff {hash : Nat} {pos : Position} {turn : Color} {e : Node × Color} :
    sameKey hash pos turn e = true ↔ e.1.hash = hash ∧ e.2 = turn ∧ e.1.pos = pos := by
  simp only [sameKey, Bool.and_eq_true, beq_iff_eq]
  constructor
  · rintro ⟨⟨h1, h2⟩, h3⟩; exact ⟨h1, h2.symm, h3⟩
  · rintro ⟨h1, h2, h3⟩; exact ⟨⟨h1, h2.symm⟩, h3⟩

/-- Number of entries of the line `l` (head has `t` to move) with position `pos` and `turn` to move. -/
def occOf (pos : Position) (turn : Color) (t : Color) (l : List Node) : Nat :=
  (sided t l).countP (samePos pos turn)

/-- Number of nodes of the line with hash `h`. -/
def hashCount (h : Nat) (l : List Node) : Nat := l.countP (fun n => n.hash == h)

theorem occOf_map_key (pos : Position) (turn t : Color) (l : List Node) :
    occOf pos turn t (l.map key) = occOf pos turn t l := by
  unfold occOf
  rw [sided_map, List.countP_map]
  rfl

theorem hashCount_map_key (h : Nat) (l : List Node) : hashCount h (l.map key) = hashCount h l := by
  unfold hashCount
  rw [List.countP_map]
  rfl

theorem occOf_cons (pos : Position) (turn t : Color) (n : Node) (r : List Node) :
    occOf pos turn t (n :: r) = occOf pos turn t.opp r + if n.pos = pos ∧ t = turn then 1 else 0 := by
  unfold occOf
  rw [sided_cons, List.countP_cons]
  congr 1
  simp [samePos]

theorem hashCount_cons (h : Nat) (n : Node) (r : List Node) :
    hashCount h (n :: r) = hashCount h r + if n.hash = h then 1 else 0 := by
  unfold hashCount
  rw [List.countP_cons]
  simp

/-- Entries with the same position and side as an entry whose hash is faithful have that hash; so the
occurrence count is bounded by the hash count. -/
theorem occOf_le_hashCount {pos : Position} {turn t : Color} {l : List Node} {h : Nat}
    (hf : ∀ e ∈ sided t l, samePos pos turn e = true → e.1.hash = h) :
    occOf pos turn t l ≤ hashCount h l := by
  unfold occOf hashCount
  have : List.countP (fun n => n.hash == h) l = List.countP ((fun n => n.hash == h) ∘ Prod.fst) (sided t l) := by
    rw [← List.countP_map, sided_map_fst]
  rw [this]
  apply List.countP_mono_left
  intro e he hs
  simp only [Function.comp, beq_iff_eq]
  exact hf e he hs

/-! ## the loop of `identicalPositionCount` -/

theorem ipcList_map_key (hash : Nat) (pos : Position) (turn : Color) (limit : Int) (l : List Node) :
    ∀ (i : Int) (t : Color) (ret : Int),
      ipcList hash pos turn limit (l.map key) i t ret = ipcList hash pos turn limit l i t ret := by
  induction l with
  | nil => intro i t ret; rfl
  | cons n r ih =>
    intro i t ret
    simp only [List.map_cons, ipcList]
    rw [ih]
    rfl

/-- **What the loop computes.** Started at distance `k ≥ 1` it inspects the entries at distances
`k … limit` (so `limit + 1 - k` of them, none if `limit < k`) and adds one for each with the same hash,
side and position. The entry exactly `limit` plies back *is* inspected (`i ≤ limit`). -/
theorem ipcList_spec (hash : Nat) (pos : Position) (turn : Color) (limit : Int) :
    ∀ (l : List Node) (k : Nat) (t : Color) (ret : Int), 1 ≤ k →
      ipcList hash pos turn limit l (k : Int) t ret =
        ret + (((sided t l).take (limit.toNat + 1 - k)).countP (sameKey hash pos turn) : Nat) := by
  intro l
  induction l with
  | nil => intro k t ret _; simp [ipcList]
  | cons n r ih =>
    intro k t ret hk
    unfold ipcList
    by_cases hle : (k : Int) ≤ limit
    · rw [if_pos hle]
      have hk1 : ((k : Int) + 1) = ((k + 1 : Nat) : Int) := by omega
      rw [hk1, ih (k + 1) t.opp _ (by omega)]
      have hsplit : limit.toNat + 1 - k = (limit.toNat + 1 - (k + 1)) + 1 := by omega
      rw [hsplit, sided_cons, List.take_succ_cons, List.countP_cons]
      have hkey : (n.hash == hash && turn == t && n.pos == pos) = sameKey hash pos turn (n, t) := rfl
      rw [hkey]
      by_cases hs : sameKey hash pos turn (n, t) = true
      · simp only [hs, if_true]; omega
      · simp only [hs, Bool.false_eq_true, if_false]; omega
    · rw [if_neg hle]
      have hz : limit.toNat + 1 - k = 0 := by omega
      rw [hz]
      simp

/-- The loop as `identicalPositionCount` calls it: start at distance 1 with result 1 (the current node). -/
theorem ipcList_start (hash : Nat) (pos : Position) (turn t0 : Color) (limit : Int) (l : List Node) :
    ipcList hash pos turn limit l 1 t0 1 =
      1 + (((sided t0 l).take limit.toNat).countP (sameKey hash pos turn) : Nat) := by
  have := ipcList_spec hash pos turn limit l 1 t0 1 (Nat.le_refl 1)
  simpa using this

/-- **The loop counts the whole line** when (1) on the line, entries with the current position and side
carry the current hash (hash faithfulness), and (2) no entry more than `limit` plies back has the current
position and side (irreversibility). -/
theorem ipcList_exact {hash : Nat} {pos : Position} {turn t0 : Color} {limit : Int} {l : List Node}
    (hf : ∀ e ∈ sided t0 l, samePos pos turn e = true → e.1.hash = hash)
    (hirr : ∀ e ∈ (sided t0 l).drop limit.toNat, samePos pos turn e = false) :
    ipcList hash pos turn limit l 1 t0 1 = 1 + (occOf pos turn t0 l : Nat) := by
  rw [ipcList_start]
  congr 2
  unfold occOf
  have h1 : ((sided t0 l).take limit.toNat).countP (sameKey hash pos turn) =
      ((sided t0 l).take limit.toNat).countP (samePos pos turn) := by
    apply List.countP_congr
    intro e he
    rw [sameKey_iff, samePos_iff]
    constructor
    · rintro ⟨_, h2, h3⟩; exact ⟨h3, h2⟩
    · rintro ⟨h3, h2⟩
      exact ⟨hf e (List.mem_of_mem_take he) (samePos_iff.mpr ⟨h3, h2⟩), h2, h3⟩
  have h2 : ((sided t0 l).drop limit.toNat).countP (samePos pos turn) = 0 := by
    rw [List.countP_eq_zero]
    intro e he
    rw [hirr e he]
    exact Bool.false_ne_true
  have h3 := List.countP_append (p := samePos pos turn) (l₁ := (sided t0 l).take limit.toNat)
    (l₂ := (sided t0 l).drop limit.toNat)
  rw [List.take_append_drop] at h3
  omega

/-- Without any hypothesis the loop never over-counts: it is at most the whole-line count. -/
theorem ipcList_le (hash : Nat) (pos : Position) (turn t0 : Color) (limit : Int) (l : List Node) :
    ipcList hash pos turn limit l 1 t0 1 ≤ 1 + (occOf pos turn t0 l : Nat) := by
  rw [ipcList_start]
  unfold occOf
  have h1 : ((sided t0 l).take limit.toNat).countP (sameKey hash pos turn) ≤
      ((sided t0 l).take limit.toNat).countP (samePos pos turn) := by
    apply List.countP_mono_left
    intro e _ he
    rw [sameKey_iff] at he
    exact samePos_iff.mpr ⟨he.2.2, he.2.1⟩
  have h3 := List.countP_append (p := samePos pos turn) (l₁ := (sided t0 l).take limit.toNat)
    (l₂ := (sided t0 l).drop limit.toNat)
  rw [List.take_append_drop] at h3
  omega

/-! ## the clock -/

/-- The kind of move after which `pushMove` tests the material: a capture, or an under-promotion to a
bishop or knight (with or without capture). -/
def materialTrigger (m : Move) : Bool :=
  m.ty = .capture || ((m.ty = .capturePromotion || m.ty = .promotion) && (m.promotion = .bishop || m.promotion = .knight))

/-- A move that resets the half-move clock in `updateNoProgress`: its type is neither `normal` nor a
castling type (so: pawn push / jump, en passant, capture, promotion, capture-promotion - and `invalid`). -/
def isReset (m : Move) : Bool := m.ty != .normal && !m.isCastle

theorem updateNoProgress_eq (old : Int) (m : Move) :
    updateNoProgress old m = if isReset m = true then 0 else old + 1 := rfl

/-- Along a line (`np` = clock of the current node, `past` = its strict ancestors with the moves played
from them in `next`) every clock is `updateNoProgress` of the previous clock and the move played. -/
def ClockChain : Int → List Node → Prop
  | _, [] => True
  | np, p :: r => np = updateNoProgress p.noprogress p.next ∧ ClockChain p.noprogress r

/-- The clock the line started with (that of its oldest node). -/
def rootClock (np : Int) (past : List Node) : Int := (past.getLast?.map (·.noprogress)).getD np

theorem rootClock_cons (np : Int) (p : Node) (r : List Node) : rootClock np (p :: r) = rootClock p.noprogress r := by
  cases r with
  | nil => rfl
  | cons q s =>
    unfold rootClock
    rw [List.getLast?_cons_cons]
    cases h : (q :: s).getLast? with
    | none => simp at h
    | some x => rfl

theorem clockChain_erase : ∀ (np : Int) (l : List Node), ClockChain np (l.map eraseNode) ↔ ClockChain np l
  | _, [] => Iff.rfl
  | np, p :: r => by
    simp only [List.map_cons, ClockChain, eraseNode_noprogress, eraseNode_next]
    rw [clockChain_erase p.noprogress r]

/-- **The clock is exact**: it is the number of moves since the last resetting move, counting on from
the root clock when there was none. (`past.map next` = the moves of the line, latest first.) -/
theorem clockChain_exact : ∀ (np : Int) (past : List Node), ClockChain np past →
    np = (if (past.map (·.next)).any isReset then 0 else rootClock np past) +
      (((past.map (·.next)).takeWhile (fun m => !isReset m)).length : Nat)
  | np, [] => by intro _; simp [rootClock]
  | np, p :: r => by
    intro h
    obtain ⟨h1, h2⟩ := h
    have ih := clockChain_exact p.noprogress r h2
    rw [updateNoProgress_eq] at h1
    simp only [List.map_cons, List.any_cons, List.takeWhile_cons, rootClock_cons]
    by_cases hr : isReset p.next = true
    · simp [hr, h1]
    · simp only [hr, Bool.false_eq_true, if_false] at h1
      simp only [hr, Bool.false_or, Bool.not_false, if_true, List.length_cons]
      rw [h1]
      omega

/-- The same for a list of moves played in order (oldest first) from a clock `np`. -/
theorem foldl_updateNoProgress (np : Int) (ms : List Move) :
    ms.foldl updateNoProgress np =
      (if ms.any isReset then 0 else np) + ((ms.reverse.takeWhile (fun m => !isReset m)).length : Nat) := by
  rw [List.foldl_eq_foldr_reverse]
  have hany : ms.any isReset = ms.reverse.any isReset := by simp
  rw [hany]
  generalize ms.reverse = r
  induction r with
  | nil => simp
  | cons m r ih =>
    simp only [List.foldr_cons, List.any_cons, List.takeWhile_cons]
    rw [updateNoProgress_eq]
    by_cases hr : isReset m = true
    · simp [hr]
    · simp only [hr, Bool.false_eq_true, if_false, Bool.false_or, Bool.not_false, if_true, List.length_cons]
      rw [ih]
      omega

end Morlock.Proofs.Draw
