import Morlock.Proofs.ArenaSim
/-!
# Pure reasoning on views: take-back is the inverse of a move, play only depends on the view

* `viewPop_viewPush`: popping a pushed move restores the view except for the result (`undecided`),
  provided the mover's has-castled flag was not already set when he castles;
* `viewPopN_viewPushAll`: the same at any depth;
* `Sim` / `SimW`: views that agree up to the result (class) stay so under every operation
  (`viewStep_sim`, `viewRun_sim`), so play continues identically;
* `run_view`: sequences of arena operations commute with `view`.
-/
namespace Morlock.Proofs.Arena
open Morlock Morlock.Model Morlock.Model.World

/-! ## one move and its take-back -/

/-- The mover does not castle with his has-castled flag already set. Chess guarantees it (castling
forfeits the castling rights), the board does not check it, and `popMove` relies on it: it *clears* the
flag of the side whose castling is taken back. -/
def CastleFreshV (v : View) (m : Move) : Prop :=
  m.isCastle = true → (v.turn = .white → v.castledW = false) ∧ (v.turn = .black → v.castledB = false)

def View.setResult (v : View) (r : Result) : View := { v with result := r }

theorem viewPop_setResult (v : View) (r : Result) : viewPop (v.setResult r) = viewPop v := rfl

theorem opp_opp (c : Color) : c.opp.opp = c := by cases c <;> rfl

theorem viewPop_viewPush {z : ZTable} {v v' : View} {m : Move} (h : viewPush z v m = some v')
    (hc : CastleFreshV v m) : viewPop v' = some (v.setResult { outcome := .undecided }, m) := by
  unfold viewPush at h
  split at h
  · cases h
  · split at h
    · cases h
    · rename_i next hnext
      cases h
      obtain ⟨pos, hash, np, past, turn, ply, moves, cw, cb, reps, result⟩ := v
      simp only [viewPop, View.setResult, opp_opp, Option.some.injEq, Prod.mk.injEq, and_true, View.mk.injEq, true_and]
      simp only [CastleFreshV] at hc
      refine ⟨by omega, ?_, ?_, ?_, ?_⟩
      · cases turn <;> simp [Color.opp] <;> omega
      · cases hm : m.isCastle <;> cases turn <;> simp_all
      · cases hm : m.isCastle <;> cases turn <;> simp_all
      · funext h
        by_cases hh : h = z.move hash pos m
        · subst hh; simp
        · simp [hh]

/-! ## sequences -/

inductive Op
  | push (m : Move)
  | pop
deriving DecidableEq, Repr

def viewStep (z : ZTable) (v : View) : Op → Option View
  | .push m => viewPush z v m
  | .pop => (viewPop v).map (·.1)

def viewRun (z : ZTable) : View → List Op → Option View
  | v, [] => some v
  | v, o :: r => (viewStep z v o).bind (viewRun z · r)

def viewPushAll (z : ZTable) : View → List Move → Option View
  | v, [] => some v
  | v, m :: ms => (viewPush z v m).bind (viewPushAll z · ms)

/-- `n` take-backs; also returns the moves taken back, in that order. -/
def viewPopN : View → Nat → Option (View × List Move)
  | v, 0 => some (v, [])
  | v, n + 1 => (viewPop v).bind fun r => (viewPopN r.1 n).map fun s => (s.1, r.2 :: s.2)

/-- Along the line `ms` played from `v`, nobody castles with his has-castled flag already set. -/
def CastleOnceV (z : ZTable) : View → List Move → Prop
  | _, [] => True
  | v, m :: ms => CastleFreshV v m ∧ ∀ v', viewPush z v m = some v' → CastleOnceV z v' ms

theorem viewPopN_succ' (v : View) (n : Nat) :
    viewPopN v (n + 1) =
      (viewPopN v n).bind fun s => (viewPop s.1).map fun r => (r.1, s.2 ++ [r.2]) := by
  induction n generalizing v with
  | zero =>
    simp only [viewPopN, Option.bind_some]
    cases viewPop v <;> simp
  | succ n ih =>
    rw [viewPopN]
    cases hp : viewPop v with
    | none => simp [viewPopN, hp]
    | some r =>
      simp only [Option.bind_some]
      rw [ih r.1]
      conv => rhs; rw [viewPopN, hp]
      simp only [Option.bind_some]
      cases viewPopN r.1 n with
      | none => simp
      | some s =>
        simp only [Option.bind_some, Option.map_some]
        cases viewPop s.1 <;> simp

/-- After `ms` the view with only the result reset (when at least one move was played). -/
def View.afterDetour (v : View) (ms : List Move) : View :=
  if ms = [] then v else v.setResult { outcome := .undecided }

theorem viewPopN_viewPushAll {z : ZTable} {ms : List Move} :
    ∀ {v v' : View}, viewPushAll z v ms = some v' → CastleOnceV z v ms →
      viewPopN v' ms.length = some (v.afterDetour ms, ms.reverse) := by
  induction ms with
  | nil =>
    intro v v' h _
    simp only [viewPushAll, Option.some.injEq] at h
    subst h
    rfl
  | cons m r ih =>
    intro v v' h hc
    simp only [viewPushAll] at h
    cases hp : viewPush z v m with
    | none => rw [hp] at h; cases h
    | some v1 =>
      rw [hp] at h
      simp only [Option.bind_some] at h
      have ih' := ih h (hc.2 v1 hp)
      rw [List.length_cons, viewPopN_succ', ih']
      simp only [Option.bind_some]
      have hpop : viewPop (v1.afterDetour r) = some (v.setResult { outcome := .undecided }, m) := by
        unfold View.afterDetour
        split
        · exact viewPop_viewPush hp hc.1
        · rw [viewPop_setResult]; exact viewPop_viewPush hp hc.1
      rw [hpop]
      simp [View.afterDetour]

/-! ## play only depends on the view (up to the result class) -/

/-- Same view except possibly the result, and the same "terminal" class (so the same moves are accepted). -/
def SimW (v1 v2 : View) : Prop :=
  v1.setResult {} = v2.setResult {} ∧ blockedR v1.result = blockedR v2.result

/-- `SimW` and the same "drawn" class. -/
def Sim (v1 v2 : View) : Prop := SimW v1 v2 ∧ drawnR v1.result = drawnR v2.result

def OptRel {α : Type} (R : α → α → Prop) : Option α → Option α → Prop
  | none, none => True
  | some a, some b => R a b
  | _, _ => False

theorem OptRel.of_eq {α : Type} {R : α → α → Prop} {a b : Option α} (h : OptRel (fun x y => x = y) a b)
    (hr : ∀ x, R x x) : OptRel R a b := by
  cases a <;> cases b <;> simp only [OptRel] at h ⊢
  · rw [h]; exact hr _

theorem SimW.refl (v : View) : SimW v v := ⟨rfl, rfl⟩
theorem Sim.refl (v : View) : Sim v v := ⟨SimW.refl v, rfl⟩
theorem SimW.symm {v1 v2 : View} (h : SimW v1 v2) : SimW v2 v1 := ⟨h.1.symm, h.2.symm⟩
theorem Sim.symm {v1 v2 : View} (h : Sim v1 v2) : Sim v2 v1 := ⟨h.1.symm, h.2.symm⟩

/-- The result after a move is never "terminal". -/
theorem pushResult_not_blocked (rep actual np : Int) (pos : Position) (m : Move) :
    blockedR (pushResult rep actual np pos m) = false := by
  unfold pushResult
  dsimp only
  split
  · rfl
  · split
    · rfl
    · split
      · split
        · rfl
        · split <;> rfl
      · rfl

/-- After a move the result is recomputed from scratch, so views that agreed up to the result agree
completely. -/
theorem viewPush_simW {z : ZTable} {v1 v2 : View} (m : Move) (h : SimW v1 v2) :
    OptRel (fun a b => a = b) (viewPush z v1 m) (viewPush z v2 m) := by
  obtain ⟨pos, hash, np, past, turn, ply, moves, cw, cb, reps, r1⟩ := v1
  obtain ⟨pos2, hash2, np2, past2, turn2, ply2, moves2, cw2, cb2, reps2, r2⟩ := v2
  obtain ⟨he, hb⟩ := h
  simp only [View.setResult, View.mk.injEq, and_true] at he
  obtain ⟨rfl, rfl, rfl, rfl, rfl, rfl, rfl, rfl, rfl, rfl⟩ := he
  simp only at hb
  unfold viewPush
  simp only [hb]
  split
  · trivial
  · split
    · trivial
    · rfl

theorem viewPop_simW {v1 v2 : View} (h : SimW v1 v2) :
    OptRel (fun a b => a.1 = b.1 ∧ a.2 = b.2) (viewPop v1) (viewPop v2) := by
  obtain ⟨pos, hash, np, past, turn, ply, moves, cw, cb, reps, r1⟩ := v1
  obtain ⟨pos2, hash2, np2, past2, turn2, ply2, moves2, cw2, cb2, reps2, r2⟩ := v2
  obtain ⟨he, hb⟩ := h
  simp only [View.setResult, View.mk.injEq, and_true] at he
  obtain ⟨rfl, rfl, rfl, rfl, rfl, rfl, rfl, rfl, rfl, rfl⟩ := he
  unfold viewPop
  cases past with
  | nil => trivial
  | cons p r => exact ⟨rfl, rfl⟩

theorem viewStep_simW {z : ZTable} {v1 v2 : View} (o : Op) (h : SimW v1 v2) :
    OptRel SimW (viewStep z v1 o) (viewStep z v2 o) := by
  cases o with
  | push m =>
    have := viewPush_simW (z := z) m h
    exact OptRel.of_eq this SimW.refl
  | pop =>
    have := viewPop_simW h
    unfold viewStep
    cases h1 : viewPop v1 <;> cases h2 : viewPop v2 <;> rw [h1, h2] at this <;> simp only [OptRel] at this
    · trivial
    · simp only [Option.map_some, OptRel]
      rw [this.1]; exact SimW.refl _

theorem viewStep_sim {z : ZTable} {v1 v2 : View} (o : Op) (h : Sim v1 v2) :
    OptRel Sim (viewStep z v1 o) (viewStep z v2 o) := by
  cases o with
  | push m =>
    have := viewPush_simW (z := z) m h.1
    exact OptRel.of_eq this Sim.refl
  | pop =>
    have := viewPop_simW h.1
    unfold viewStep
    cases h1 : viewPop v1 <;> cases h2 : viewPop v2 <;> rw [h1, h2] at this <;> simp only [OptRel] at this
    · trivial
    · simp only [Option.map_some, OptRel]
      rw [this.1]; exact Sim.refl _

theorem viewRun_simW {z : ZTable} (ops : List Op) :
    ∀ {v1 v2 : View}, SimW v1 v2 → OptRel SimW (viewRun z v1 ops) (viewRun z v2 ops) := by
  induction ops with
  | nil => intro v1 v2 h; exact h
  | cons o r ih =>
    intro v1 v2 h
    have hs := viewStep_simW (z := z) o h
    simp only [viewRun]
    cases h1 : viewStep z v1 o <;> cases h2 : viewStep z v2 o <;> rw [h1, h2] at hs <;> simp only [OptRel] at hs
    · trivial
    · simp only [Option.bind_some]; exact ih hs

theorem viewRun_sim {z : ZTable} (ops : List Op) :
    ∀ {v1 v2 : View}, Sim v1 v2 → OptRel Sim (viewRun z v1 ops) (viewRun z v2 ops) := by
  induction ops with
  | nil => intro v1 v2 h; exact h
  | cons o r ih =>
    intro v1 v2 h
    have hs := viewStep_sim (z := z) o h
    simp only [viewRun]
    cases h1 : viewStep z v1 o <;> cases h2 : viewStep z v2 o <;> rw [h1, h2] at hs <;> simp only [OptRel] at hs
    · trivial
    · simp only [Option.bind_some]; exact ih hs

theorem obsOfView_setResult (v : View) (r : Result) : obsOfView (v.setResult r) = obsOfView v := rfl

theorem SimW.obs {v1 v2 : View} (h : SimW v1 v2) : obsOfView v1 = obsOfView v2 := by
  rw [← obsOfView_setResult v1 {}, ← obsOfView_setResult v2 {}, h.1]

/-! ## sequences on the arena -/

def step (z : ZTable) (b : Nat) (w : World) : Op → Option World
  | .push m => w.pushMove z b m
  | .pop => (w.popMove b).map (·.1)

def run (z : ZTable) (b : Nat) : World → List Op → Option World
  | w, [] => some w
  | w, o :: r => (step z b w o).bind (run z b · r)

def pushAll (z : ZTable) (b : Nat) : World → List Move → Option World
  | w, [] => some w
  | w, m :: ms => (w.pushMove z b m).bind (pushAll z b · ms)

/-- `n` take-backs; also returns the moves taken back, in that order. -/
def popN (b : Nat) : World → Nat → Option (World × List Move)
  | w, 0 => some (w, [])
  | w, n + 1 => (w.popMove b).bind fun r => (popN b r.1 n).map fun s => (s.1, r.2 :: s.2)

theorem boards_size_push {w w' : World} {z : ZTable} {b : Nat} {m : Move} (h : w.pushMove z b m = some w') :
    w'.boards.size = w.boards.size := by
  obtain ⟨_, next, _, rfl⟩ := pushMove_some h
  simp

theorem boards_size_pop {w w' : World} {b : Nat} {m : Move} (h : w.popMove b = some (w', m)) :
    w'.boards.size = w.boards.size := by
  obtain ⟨pi, _, _, rfl⟩ := popMove_some h
  simp

theorem nodes_size_push {w w' : World} {z : ZTable} {b : Nat} {m : Move} (h : w.pushMove z b m = some w') :
    w'.nodes.size = w.nodes.size + 1 := by
  obtain ⟨_, next, _, rfl⟩ := pushMove_some h
  simp

theorem nodes_size_pop {w w' : World} {b : Nat} {m : Move} (h : w.popMove b = some (w', m)) :
    w'.nodes.size = w.nodes.size := by
  obtain ⟨pi, _, _, rfl⟩ := popMove_some h
  simp

theorem step_wf {w w' : World} {z : ZTable} {b : Nat} (hw : WFWorld w) (hb : b < w.boards.size) {o : Op}
    (h : step z b w o = some w') : WFWorld w' ∧ w'.boards.size = w.boards.size := by
  cases o with
  | push m => exact ⟨wf_push hw hb h, boards_size_push h⟩
  | pop =>
    simp only [step] at h
    cases hp : w.popMove b with
    | none => rw [hp] at h; cases h
    | some r =>
      obtain ⟨w1, m⟩ := r
      rw [hp] at h
      simp only [Option.map_some, Option.some.injEq] at h
      subst h
      exact ⟨wf_pop hw hp, boards_size_pop hp⟩

theorem step_view {w : World} (hw : WFWorld w) {z : ZTable} {b : Nat} (hb : b < w.boards.size) (o : Op) :
    (step z b w o).map (fun w' => view w' b) = viewStep z (view w b) o := by
  cases o with
  | push m => exact push_view hw hb m
  | pop =>
    simp only [step, viewStep, ← pop_view hw hb, Option.map_map]
    rfl

theorem run_wf {z : ZTable} {b : Nat} (ops : List Op) :
    ∀ {w w' : World}, WFWorld w → b < w.boards.size → run z b w ops = some w' →
      WFWorld w' ∧ w'.boards.size = w.boards.size := by
  induction ops with
  | nil => intro w w' hw _ h; cases h; exact ⟨hw, rfl⟩
  | cons o r ih =>
    intro w w' hw hb h
    simp only [run] at h
    cases hs : step z b w o with
    | none => rw [hs] at h; cases h
    | some w1 =>
      rw [hs] at h
      have h1 := step_wf hw hb hs
      have h2 := ih h1.1 (by omega) h
      exact ⟨h2.1, by omega⟩

/-- Sequences of arena operations commute with `view`. -/
theorem run_view {z : ZTable} {b : Nat} (ops : List Op) :
    ∀ {w : World}, WFWorld w → b < w.boards.size →
      (run z b w ops).map (fun w' => view w' b) = viewRun z (view w b) ops := by
  induction ops with
  | nil => intro w _ _; rfl
  | cons o r ih =>
    intro w hw hb
    simp only [run, viewRun]
    rw [← step_view hw hb o]
    cases hs : step z b w o with
    | none => rfl
    | some w1 =>
      have h1 := step_wf hw hb hs
      simp only [Option.bind_some, Option.map_some]
      exact ih h1.1 (by omega)

theorem pushAll_view {z : ZTable} {b : Nat} (ms : List Move) :
    ∀ {w : World}, WFWorld w → b < w.boards.size →
      (pushAll z b w ms).map (fun w' => view w' b) = viewPushAll z (view w b) ms := by
  induction ms with
  | nil => intro w _ _; rfl
  | cons m r ih =>
    intro w hw hb
    simp only [pushAll, viewPushAll]
    rw [← push_view hw hb m]
    cases hs : w.pushMove z b m with
    | none => rfl
    | some w1 =>
      simp only [Option.bind_some, Option.map_some]
      exact ih (wf_push hw hb hs) (by rw [boards_size_push hs]; exact hb)

theorem pushAll_wf {z : ZTable} {b : Nat} (ms : List Move) :
    ∀ {w w' : World}, WFWorld w → b < w.boards.size → pushAll z b w ms = some w' →
      WFWorld w' ∧ w'.boards.size = w.boards.size := by
  induction ms with
  | nil => intro w w' hw _ h; cases h; exact ⟨hw, rfl⟩
  | cons m r ih =>
    intro w w' hw hb h
    simp only [pushAll] at h
    cases hs : w.pushMove z b m with
    | none => rw [hs] at h; cases h
    | some w1 =>
      rw [hs] at h
      have hb1 : b < w1.boards.size := by rw [boards_size_push hs]; exact hb
      have h2 := ih (wf_push hw hb hs) hb1 h
      exact ⟨h2.1, by rw [h2.2, boards_size_push hs]⟩

theorem popN_view {b : Nat} (n : Nat) :
    ∀ {w : World}, WFWorld w → b < w.boards.size →
      (popN b w n).map (fun r => (view r.1 b, r.2)) = viewPopN (view w b) n := by
  induction n with
  | zero => intro w _ _; rfl
  | succ n ih =>
    intro w hw hb
    simp only [popN, viewPopN]
    rw [← pop_view hw hb]
    cases hs : w.popMove b with
    | none => rfl
    | some r =>
      obtain ⟨w1, m⟩ := r
      simp only [Option.bind_some, Option.map_some]
      rw [← ih (wf_pop hw hs) (by rw [boards_size_pop hs]; exact hb)]
      cases popN b w1 n <;> rfl

theorem popN_wf {b : Nat} (n : Nat) :
    ∀ {w w' : World} {l : List Move}, WFWorld w → popN b w n = some (w', l) → WFWorld w' := by
  induction n with
  | zero =>
    intro w w' l hw h
    simp only [popN, Option.some.injEq, Prod.mk.injEq] at h
    rw [← h.1]; exact hw
  | succ n ih =>
    intro w w' l hw h
    simp only [popN] at h
    cases hq : w.popMove b with
    | none => rw [hq] at h; cases h
    | some q =>
      obtain ⟨w1, m1⟩ := q
      rw [hq] at h
      simp only [Option.bind_some] at h
      cases hr : popN b w1 n with
      | none => rw [hr] at h; cases h
      | some s =>
        obtain ⟨w2, l2⟩ := s
        rw [hr] at h
        simp only [Option.map_some, Option.some.injEq, Prod.mk.injEq] at h
        rw [← h.1]
        exact ih (wf_pop hw hq) hr

end Morlock.Proofs.Arena
