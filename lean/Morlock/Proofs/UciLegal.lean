import Morlock.Proofs.ABTTNode
import Morlock.Props.C03
/-!
# What the head of the PV of `AlphaBeta.Search` is (helper for `Props/C04Legal.lean`)

The UCI driver prints `bestmove <pv.Moves[0]>`, or `bestmove 0000` when the PV is empty (`searchCompleted` in
`pkg/engine/uci/uci.go`). This file proves, directly on `Model.abLoop` / `Model.alphabeta` / `Model.alphaBetaSearch`
and for **every** search state (any transposition table, sound or not; any cancellation point), every leaf evaluation,
every depth and every abstract game:

* `alphabeta_head`: the head of a returned PV is a generated move (`m ∈ g.moves p`) that the game accepts
  (`g.push p m = some _`) and that the exploration picked (`Playable`);
* `alphabeta_root_nonempty`: at the root of a search (`g.ply p = rootPly`) of depth `d + 1`, with lower bound `-inf`
  and an upper bound that is not `-inf`, a search that was not cancelled returns a non-empty PV as soon as one
  playable move exists. The reason is purely structural: `(incMate s).negate` is never of type `negInf`, so the first
  explored legal child always raises `alpha` from `-inf` and installs its move as the PV; later children only replace
  a non-empty PV by a non-empty one. No hypothesis on the table is needed because the root is never answered from
  the table (`!root && …` in `abEnter`).
* `alphaBetaSearch_pv`: both, for `AlphaBeta.Search` when it returns a result (`some r`, i.e. not `ErrHalted`): two
  consecutive polls are monotone, so a result means that the last poll of the root node was not cancelled either.
-/
namespace Morlock.Proofs.UciLegal
open Morlock Morlock.Model Morlock.Model.Score Morlock.Spec Morlock.Proofs.AB
variable {P : Type}

/-- `m` can be the head of a PV at `p`: the game accepts it and the exploration of `p` picks it. -/
def Playable (g : Game P) (ex : P → Explore) (p : P) (m : Move) : Prop :=
  ∃ c, g.push p m = some c ∧ (ex p).pick m = true

/-! ## scores -/

/-- `IncrementMateDistance(s).Negate()` is never `-inf` (nor `+inf`): `incMate` turns both infinities into mates. -/
theorem lift_ty (s : Score) : (lift s).ty ≠ .negInf := by
  obtain ⟨ty, mate, pawns⟩ := s
  by_cases hm : mate < 0 <;>
  cases ty <;> simp [lift, incMate, negate, heuristicScore, mateInXScore, invalidScore, hm]

/-- `-inf` (whatever its payload) is below every score that is not of type `-inf`. -/
theorem less_of_negInf {a s : Score} (ha : a.ty = .negInf) (hs : s.ty ≠ .negInf) : a.less s = true := by
  have hne : a ≠ s := fun e => hs (e ▸ ha)
  simp [Score.less, hne, ha, hs]

/-- no cutoff while `alpha` is `-inf` and `beta` is not. -/
theorem cutoff_negInf {a b : Score} (ha : a.ty = .negInf) (hb : b.ty ≠ .negInf) : cutoff a b = false := by
  have hne : a ≠ b := fun e => hb (e ▸ ha)
  simp [cutoff, Score.less, hne, ha]

/-! ## the move loop -/

theorem abLoop_nil {g : Game P} {ex : P → Explore} {rec} {p : P} {b : Score}
    {a : Score} {pv : List Move} {hl : Bool} {st : SState} :
    abLoop g ex rec p b [] a pv hl st = (a, pv, hl, false, st) := rfl

/-- The head of the PV the loop returns is the head of the PV it was given or a playable move of the list. -/
theorem abLoop_head (g : Game P) (ex : P → Explore) (rec : P → Score → Score → SState → Score × List Move × SState)
    (p : P) (b : Score) (Good : Move → Prop) :
    ∀ (l : List Move) (a : Score) (pv : List Move) (hl : Bool) (st : SState),
      (∀ m ∈ l, Playable g ex p m → Good m) →
      (∀ m rest, pv = m :: rest → Good m) →
      ∀ m rest, (abLoop g ex rec p b l a pv hl st).2.1 = m :: rest → Good m := by
  intro l
  induction l with
  | nil => intro a pv hl st _ hpv m rest h; rw [abLoop_nil] at h; exact hpv m rest h
  | cons x xs ih =>
    intro a pv hl st hL hpv m rest h
    have hxs : ∀ m ∈ xs, Playable g ex p m → Good m := fun m hm => hL m (List.mem_cons_of_mem _ hm)
    cases hpush : g.push p x with
    | none => rw [abLoop_none hpush] at h; exact ih a pv hl st hxs hpv m rest h
    | some c =>
      cases hpick : (ex p).pick x with
      | false =>
        rw [abLoop_skip hpush hpick] at h
        split at h
        · exact hpv m rest h
        · exact ih a pv true st hxs hpv m rest h
      | true =>
        rw [abLoop_pick hpush hpick] at h
        have hx : Good x := hL x (List.mem_cons_self ..) ⟨c, hpush, hpick⟩
        generalize rec c (childBound b) (childBound a) st = r at h
        dsimp only at h
        have hpv' : ∀ m rest, (if a.less (lift r.1) = true then x :: r.2.1 else pv) = m :: rest → Good m := by
          intro m rest e
          split at e
          · cases e; exact hx
          · exact hpv m rest e
        generalize (if a.less (lift r.1) = true then x :: r.2.1 else pv) = pv' at h hpv'
        generalize (if a.less (lift r.1) = true then lift r.1 else a) = a' at h
        split at h
        · exact hpv' m rest h
        · exact ih _ _ true _ hxs hpv' m rest h

/-- The loop returns a non-empty PV if it was given one, or if it starts from `alpha = -inf`, `beta ≠ -inf` and the
    list contains a playable move. -/
theorem abLoop_nonempty (g : Game P) (ex : P → Explore) (rec : P → Score → Score → SState → Score × List Move × SState)
    (p : P) (b : Score) (hb : b.ty ≠ .negInf) :
    ∀ (l : List Move) (a : Score) (pv : List Move) (hl : Bool) (st : SState),
      (pv ≠ [] ∨ (a.ty = .negInf ∧ ∃ m ∈ l, Playable g ex p m)) →
      (abLoop g ex rec p b l a pv hl st).2.1 ≠ [] := by
  intro l
  induction l with
  | nil =>
    intro a pv hl st h
    rw [abLoop_nil]
    rcases h with h | ⟨_, m, hm, _⟩
    · exact h
    · cases hm
  | cons x xs ih =>
    intro a pv hl st h
    cases hpush : g.push p x with
    | none =>
      rw [abLoop_none hpush]
      apply ih
      rcases h with h | ⟨ha, m, hm, c, hc, hp⟩
      · exact Or.inl h
      · rcases List.mem_cons.1 hm with e | hm'
        · subst e; rw [hpush] at hc; cases hc
        · exact Or.inr ⟨ha, m, hm', c, hc, hp⟩
    | some c =>
      cases hpick : (ex p).pick x with
      | false =>
        rw [abLoop_skip hpush hpick]
        rcases h with h | ⟨ha, m, hm, c', hc, hp⟩
        · split
          · exact h
          · exact ih _ _ _ _ (Or.inl h)
        · rw [cutoff_negInf ha hb]
          simp only [Bool.false_eq_true, if_false]
          apply ih
          rcases List.mem_cons.1 hm with e | hm'
          · subst e; rw [hpick] at hp; cases hp
          · exact Or.inr ⟨ha, m, hm', c', hc, hp⟩
      | true =>
        rw [abLoop_pick hpush hpick]
        generalize rec c (childBound b) (childBound a) st = r
        dsimp only
        have hpv' : (if a.less (lift r.1) = true then x :: r.2.1 else pv) ≠ [] := by
          rcases h with h | ⟨ha, _⟩
          · split
            · simp
            · exact h
          · rw [less_of_negInf ha (lift_ty _)]; simp
        generalize (if a.less (lift r.1) = true then x :: r.2.1 else pv) = pv' at hpv'
        generalize (if a.less (lift r.1) = true then lift r.1 else a) = a'
        split
        · exact hpv'
        · exact ih _ _ _ _ (Or.inl hpv')

/-- The loop reports a legal move if it was told so or if the list contains one. -/
theorem abLoop_hasLegal (g : Game P) (ex : P → Explore) (rec : P → Score → Score → SState → Score × List Move × SState)
    (p : P) (b : Score) :
    ∀ (l : List Move) (a : Score) (pv : List Move) (hl : Bool) (st : SState),
      (hl = true ∨ ∃ m ∈ l, (g.push p m).isSome = true) →
      (abLoop g ex rec p b l a pv hl st).2.2.1 = true := by
  intro l
  induction l with
  | nil =>
    intro a pv hl st h
    rw [abLoop_nil]
    rcases h with h | ⟨m, hm, _⟩
    · exact h
    · cases hm
  | cons x xs ih =>
    intro a pv hl st h
    cases hpush : g.push p x with
    | none =>
      rw [abLoop_none hpush]
      apply ih
      rcases h with h | ⟨m, hm, hc⟩
      · exact Or.inl h
      · rcases List.mem_cons.1 hm with e | hm'
        · subst e; rw [hpush] at hc; cases hc
        · exact Or.inr ⟨m, hm', hc⟩
    | some c =>
      cases hpick : (ex p).pick x with
      | false =>
        rw [abLoop_skip hpush hpick]
        split
        · rfl
        · exact ih _ _ _ _ (Or.inl rfl)
      | true =>
        rw [abLoop_pick hpush hpick]
        generalize rec c (childBound b) (childBound a) st = r
        dsimp only
        generalize (if a.less (lift r.1) = true then x :: r.2.1 else pv) = pv'
        generalize (if a.less (lift r.1) = true then lift r.1 else a) = a'
        split
        · rfl
        · exact ih _ _ _ _ (Or.inl rfl)

/-! ## the node -/

/-- `abEnter` answers at once only with an empty PV. -/
theorem abEnter_inl {g : Game P} {rootPly : Int} {depth : Nat} {p : P} {st : SState} {r : Score × List Move × SState}
    (h : abEnter g rootPly depth p st = .inl r) : r.2.1 = [] := by
  unfold abEnter at h
  generalize poll st = ps at h
  obtain ⟨c, st1⟩ := ps
  cases c
  · simp only [Bool.false_eq_true, if_false] at h
    split at h
    · cases h; rfl
    · split at h
      · split at h
        · cases h; rfl
        · cases h
      · cases h
  · simp only [if_true] at h; cases h; rfl

/-- At the root of the search `abEnter` answers at once only if the poll says "cancelled". -/
theorem abEnter_root {g : Game P} {depth : Nat} {p : P} {st : SState} (hc : (poll st).1 = false) :
    ∃ best, abEnter g (g.ply p) depth p st = .inr (best, (poll st).2) := by
  simp only [poll] at hc
  simp only [abEnter, poll, hc, Bool.false_eq_true, if_false, beq_self_eq_true, Bool.not_true, Bool.false_and]
  split
  · exact ⟨_, rfl⟩
  · exact ⟨_, rfl⟩

/-- **The head of a PV is a generated, accepted, explored move** — any table, any cancellation, any window, any depth. -/
theorem alphabeta_head (g : Game P) (ex : P → Explore) (le : LeafEval P) (rootPly : Int) (d : Nat) (p : P)
    (a b : Score) (st : SState) (m : Move) (rest : List Move)
    (h : (alphabeta g ex le rootPly d p a b st).2.1 = m :: rest) : m ∈ g.moves p ∧ Playable g ex p m := by
  cases d with
  | zero =>
    rw [alphabeta_zero_eq] at h
    cases he : abEnter g rootPly 0 p st with
    | inl r => rw [he] at h; dsimp only at h; rw [abEnter_inl he] at h; cases h
    | inr x =>
      obtain ⟨best, st1⟩ := x
      rw [he] at h
      simp only [leafBody] at h
      split at h <;> cases h
  | succ d =>
    rw [alphabeta_succ_eq] at h
    cases he : abEnter g rootPly (d + 1) p st with
    | inl r => rw [he] at h; dsimp only at h; rw [abEnter_inl he] at h; cases h
    | inr x =>
      obtain ⟨best, st1⟩ := x
      rw [he] at h
      simp only [abBody] at h
      have hperm := ABHeap.heapOrder_perm (g.moves p) (firstPrio best (ex p).prio)
      have key := abLoop_head g ex (alphabeta g ex le rootPly d) p b (fun m => m ∈ g.moves p ∧ Playable g ex p m)
        (heapOrder (g.moves p) (firstPrio best (ex p).prio)) a [] false { st1 with nodes := st1.nodes + 1 }
        (fun m hm hp => ⟨hperm.mem_iff.1 hm, hp⟩) (fun m rest e => by cases e)
      split at h
      · cases h
      · split at h
        · cases h
        · exact key m rest h

/-- once a poll reports "cancelled", the next one does too -/
theorem poll_poll {st : SState} (h : (poll st).1 = true) : (poll (poll st).2).1 = true := by
  obtain ⟨tt, nodes, polls, cancelAt, fo⟩ := st
  cases cancelAt with
  | none => simp [poll] at h
  | some k =>
    simp only [poll, decide_eq_true_eq] at h ⊢
    apply decide_eq_true
    omega

/-- **A root search returns a move whenever one is playable, unless it was cancelled.** Depth `d + 1`, lower bound of
    type `-inf`, upper bound not of type `-inf`, any table: the PV is non-empty, or the search was cancelled — and then
    the next poll (the one `AlphaBeta.Search` makes) reports it. -/
theorem alphabeta_root_nonempty (g : Game P) (ex : P → Explore) (le : LeafEval P) (d : Nat) (p : P)
    (a b : Score) (st : SState) (ha : a.ty = .negInf) (hb : b.ty ≠ .negInf)
    (hm : ∃ m ∈ g.moves p, Playable g ex p m) :
    (alphabeta g ex le (g.ply p) (d + 1) p a b st).2.1 ≠ [] ∨
    (poll (alphabeta g ex le (g.ply p) (d + 1) p a b st).2.2).1 = true := by
  rw [alphabeta_succ_eq]
  cases hc : (poll st).1 with
  | true =>
    right
    have : abEnter g (g.ply p) (d + 1) p st = .inl (invalidScore, [], (poll st).2) := by
      have hc' := hc
      simp only [poll] at hc'
      simp only [abEnter, poll, hc', if_true]
    rw [this]
    exact poll_poll hc
  | false =>
    obtain ⟨best, he⟩ := abEnter_root (g := g) (depth := d + 1) (p := p) hc
    rw [he]
    simp only [abBody]
    have hperm := ABHeap.heapOrder_perm (g.moves p) (firstPrio best (ex p).prio)
    obtain ⟨m, hmem, hplay⟩ := hm
    have hmem' := hperm.mem_iff.2 hmem
    have hne := abLoop_nonempty g ex (alphabeta g ex le (g.ply p) d) p b hb
      (heapOrder (g.moves p) (firstPrio best (ex p).prio)) a [] false
      { (poll st).2 with nodes := (poll st).2.nodes + 1 } (Or.inr ⟨ha, m, hmem', hplay⟩)
    have hleg := abLoop_hasLegal g ex (alphabeta g ex le (g.ply p) d) p b
      (heapOrder (g.moves p) (firstPrio best (ex p).prio)) a [] false
      { (poll st).2 with nodes := (poll st).2.nodes + 1 }
      (Or.inr ⟨m, hmem', by obtain ⟨c, hc, _⟩ := hplay; rw [hc]; rfl⟩)
    generalize abLoop g ex (alphabeta g ex le (g.ply p) d) p b
      (heapOrder (g.moves p) (firstPrio best (ex p).prio)) a [] false
      { (poll st).2 with nodes := (poll st).2.nodes + 1 } = res at hne hleg
    obtain ⟨al, pv, hl, wc, st2⟩ := res
    dsimp only at hne hleg ⊢
    subst hleg
    cases hc2 : (poll st2).1 with
    | true =>
      right
      simp only [if_true]
      exact poll_poll hc2
    | false =>
      left
      simp only [Bool.false_eq_true, if_false, Bool.not_true]
      exact hne

/-! ## `AlphaBeta.Search` -/

/-- **What `AlphaBeta.Search` returns as PV** when it returns a result (not `ErrHalted`), for every table, every
    cancellation point, every leaf evaluation and depth:
    1. the head of the PV is a generated move the game accepts and the exploration picked;
    2. at depth `≥ 1`, without lower bound in the search context (or `-inf`) and with an upper bound other than `-inf`,
       the PV is empty **iff** no generated move is accepted and picked. -/
theorem alphaBetaSearch_pv (g : Game P) (ex : P → Explore) (le : LeafEval P) (p : P) (d : Nat) (a b : Score)
    (st st' : SState) (r : SearchResult) (h : alphaBetaSearch g ex le p d a b st = (some r, st')) :
    (∀ m rest, r.pv = m :: rest → m ∈ g.moves p ∧ Playable g ex p m) ∧
    (1 ≤ d → (a.isInvalid = true ∨ a.ty = .negInf) → b.ty ≠ .negInf →
      (r.pv = [] ↔ ¬ ∃ m ∈ g.moves p, Playable g ex p m)) := by
  unfold alphaBetaSearch at h
  dsimp only at h
  generalize hlow : (if a.isInvalid = true then negInfScore else a) = low at h
  generalize hhigh : (if b.isInvalid = true then infScore else b) = high at h
  have head := alphabeta_head g ex le (g.ply p) d p low high { st with nodes := 0 }
  have key : 1 ≤ d → low.ty = .negInf → high.ty ≠ .negInf → (∃ m ∈ g.moves p, Playable g ex p m) →
      (alphabeta g ex le (g.ply p) d p low high { st with nodes := 0 }).2.1 ≠ [] ∨
      (poll (alphabeta g ex le (g.ply p) d p low high { st with nodes := 0 }).2.2).1 = true := by
    intro hd h1 h2 h3
    obtain ⟨d', rfl⟩ : ∃ d', d = d' + 1 := ⟨d - 1, by omega⟩
    exact alphabeta_root_nonempty g ex le d' p low high _ h1 h2 h3
  generalize alphabeta g ex le (g.ply p) d p low high { st with nodes := 0 } = res at h head key
  obtain ⟨score, pv, st1⟩ := res
  dsimp only at h head
  cases hc : (poll st1).1 with
  | true => simp only [hc, if_true] at h; cases h
  | false =>
    simp only [hc, Bool.false_eq_true, if_false] at h
    cases h
    refine ⟨fun m rest e => head m rest e, ?_⟩
    intro hd ha hb
    constructor
    · rintro e ⟨m, hm, hp⟩
      have hlo : low.ty = .negInf := by
        rw [← hlow]
        rcases ha with ha | ha
        · simp [ha, negInfScore]
        · split
          · rfl
          · exact ha
      have hhi : high.ty ≠ .negInf := by
        rw [← hhigh]
        split
        · simp [infScore]
        · exact hb
      rcases key hd hlo hhi ⟨m, hm, hp⟩ with k | k
      · exact k e
      · dsimp only at k; rw [hc] at k; cases k
    · intro hno
      cases hpv : pv with
      | nil => rfl
      | cons m rest => exact absurd ⟨m, (head m rest hpv).1, (head m rest hpv).2⟩ hno

end Morlock.Proofs.UciLegal
