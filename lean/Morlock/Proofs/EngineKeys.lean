import Morlock.Proofs.FltLemmas
import Morlock.Model.EngineExplore
import Morlock.Proofs.ABRef
/-!
# The engines' evaluation keys are keys of (non-NaN) `float32`s: `EvalOk` for the games the engines search

`f32keyOfQ q` is computed from `Flt.bits32 q = Flt.bits f32 q`, the IEEE bit pattern of the `float32` nearest to `q`.
Every pattern that `bits f32` returns is below `2^32` (`bits32_lt`); its magnitude part is below `2^31`
(`bits32_magnitude_lt`), so the key lies strictly between `-2^31` and `2^31`. No hypothesis on `q` is needed: for a zero
denominator (which no operation of `Model/Flt.lean` produces, `rnd_den_pos`, but which the type `Q` allows) `rndPos`
returns a significand `≤ 1`, and the bound holds as well. Hence `bernsteinKeyF`, `turochampKey` are bounded on *every*
input, and the games `bernsteinGame z factor`, `turochampGame z` satisfy `EvalOk` outright.
-/
namespace Morlock.Model.Flt

theorem roundHalfEven_zero_le (a : Nat) : roundHalfEven a 0 ≤ 1 := by
  unfold roundHalfEven
  simp only [Nat.div_zero, Nat.mod_zero]
  split
  · omega
  · split
    · omega
    · split <;> omega

/-- the exponent chosen by `rndPos` is never below `emin` (no hypothesis on `a`, `b`) -/
theorem expo_ge_emin (f : Fmt) (a b : Nat) : f.emin ≤ expo f a b := by
  unfold expo
  simp only []
  split <;> omega

/-- a result of `rndPos`, whatever the denominator: significand below `2^p`, exponent in the range of the format -/
theorem rndPos_bounds (f : Fmt) (hp : 1 ≤ f.p) {a b m : Nat} {e : Int} (ha : 0 < a) (h : rndPos f a b = some (m, e)) :
    m < 2 ^ f.p ∧ f.emin ≤ e ∧ e + ((f.p : Int) - 1) ≤ f.emax := by
  rcases Nat.eq_zero_or_pos b with hb | hb
  · subst hb
    rw [rndPos_eq'] at h
    split at h
    · exact absurd h (by simp)
    rename_i hov
    have hme : carry f (sig0 f a 0) (expo f a 0) = (m, e) := by simpa using h
    rw [hme] at hov
    simp only [] at hov
    have hs : sig0 f a 0 ≤ 1 := by
      unfold sig0
      rw [Nat.zero_mul]
      exact roundHalfEven_zero_le _
    have h2 : 2 ≤ 2 ^ f.p := by
      calc 2 = 2 ^ 1 := rfl
        _ ≤ 2 ^ f.p := Nat.pow_le_pow_right (by decide) hp
    have hge := expo_ge_emin f a 0
    unfold carry at hme
    split at hme
    · rename_i hc
      have hc : sig0 f a 0 = 2 ^ f.p := by simpa using hc
      omega
    · obtain ⟨rfl, rfl⟩ : sig0 f a 0 = m ∧ expo f a 0 = e := by simpa using hme
      exact ⟨by omega, hge, by omega⟩
  · obtain ⟨h1, h2, h3, _, _, _⟩ := rndPos_spec f hp ha hb h
    exact ⟨h1, h2, h3⟩

/-- the value produced by `ofME` has a positive denominator -/
theorem ofME_den_pos (neg : Bool) (m : Nat) (e : Int) : 0 < (ofME neg m e).den := (ofME_spec neg m e).1.1

/-- every result of `rnd` (hence of `Flt.add/sub/mul/div`) has a positive denominator -/
theorem rnd_den_pos {f : Fmt} {x y : Q} (h : rnd f x = some y) : 0 < y.den := by
  by_cases h0 : x.num = 0
  · rw [rnd_of_num_eq_zero f h0] at h
    have : y = ⟨0, 1⟩ := by simpa using h.symm
    subst this
    decide
  · obtain ⟨m, e, _, rfl⟩ := rnd_eq_some f h0 h
    exact ofME_den_pos _ m e

theorem add_den_pos {f : Fmt} {x y r : Q} (h : add f x y = some r) : 0 < r.den := rnd_den_pos h
theorem sub_den_pos {f : Fmt} {x y r : Q} (h : sub f x y = some r) : 0 < r.den := rnd_den_pos h
theorem mul_den_pos {f : Fmt} {x y r : Q} (h : mul f x y = some r) : 0 < r.den := rnd_den_pos h
theorem div_den_pos {f : Fmt} {x y r : Q} (h : div f x y = some r) : 0 < r.den := by
  unfold div at h
  split at h
  · exact absurd h (by simp)
  · exact rnd_den_pos h

/-- the magnitude part (everything but the sign bit) of a `float32` bit pattern produced by `bits32`:
    `b < 2^31`, or `2^31 ≤ b < 2^32` -/
theorem bits32_cases {q : Q} {b : Nat} (h : bits32 q = some b) :
    b < 2147483648 ∨ (2147483648 ≤ b ∧ b < 4294967296) := by
  unfold bits32 at h
  by_cases h0 : q.num = 0
  · have : b = 0 := by simpa [bits, h0] using h.symm
    omega
  · rw [bits_of_num_ne_zero f32 h0] at h
    cases hr : rndPos f32 q.num.natAbs q.den with
    | none => rw [hr] at h; simp at h
    | some me =>
      obtain ⟨m, e⟩ := me
      rw [hr] at h
      obtain ⟨hm, he1, he2⟩ := rndPos_bounds f32 (by decide) (by omega) hr
      have hp : f32.p = 24 := rfl
      have heb : f32.ebits = 8 := rfl
      have hemin : f32.emin = -149 := rfl
      have hemax : f32.emax = 127 := rfl
      rw [hp] at hm he2
      rw [hemin] at he1
      rw [hemax] at he2
      simp only [Option.bind_some, hp, heb] at h
      have e31 : (2 : Nat) ^ (8 + 24 - 1) = 2147483648 := by decide
      have e23 : (2 : Nat) ^ (24 - 1) = 8388608 := by decide
      have e7 : (2 : Nat) ^ (8 - 1) - 1 = 127 := by decide
      have e24 : (2 : Nat) ^ 24 = 16777216 := by decide
      rw [e31, e23, e7] at h
      rw [e24] at hm
      generalize hsg : (if q.num < 0 then 2147483648 else 0 : Nat) = sign at h
      have hsign : sign = 0 ∨ sign = 2147483648 := by
        rw [← hsg]; split <;> simp
      split at h
      · have : b = 0 := by simpa using h.symm
        omega
      · split at h
        · have : b = sign + m := by simpa using h.symm
          omega
        · generalize hF : (e + (((24 : Nat) : Int) - 1) + ((127 : Nat) : Int)).toNat = F at h
          have hFle : F ≤ 254 := by omega
          have : b = sign + F * 8388608 + (m - 8388608) := by simpa using h.symm
          omega

/-- **every `float32` bit pattern of the model fits in 32 bits** (for every `q`, including a zero denominator) -/
theorem bits32_lt {q : Q} {b : Nat} (h : bits32 q = some b) : b < 2 ^ 32 := by
  have : (2 : Nat) ^ 32 = 4294967296 := by decide
  rcases bits32_cases h with h1 | h1 <;> omega

-- non-vacuity: a negative value uses the sign bit (-3.5 = 0xC0600000); a zero denominator still gives a 32-bit pattern
example : bits32 ⟨-7, 2⟩ = some 3227516928 := by decide +kernel
example : bits32 ⟨-7, 0⟩ = some 2147483649 := by decide +kernel

end Morlock.Model.Flt

namespace Morlock.Model
open Morlock Morlock.Proofs.AB

/-- **the key of a `float32` lies strictly between `-2^31` and `2^31`** (no hypothesis on `q`) -/
theorem f32keyOfQ_bound (q : Flt.Q) : -2147483648 < f32keyOfQ q ∧ f32keyOfQ q < 2147483648 := by
  unfold f32keyOfQ
  cases h : Flt.bits32 q with
  | none => simp
  | some b =>
    simp only []
    rcases Flt.bits32_cases h with h1 | h1
    · split <;> omega
    · split <;> omega

example : f32keyOfQ ⟨-7, 2⟩ = -1080033280 := by decide +kernel
example : f32keyOfQ ⟨7, 2⟩ = 1080033280 := by decide +kernel

/-- BERNSTEIN's evaluation key is the key of a (non-NaN) `float32`, on every position -/
theorem bernsteinKeyF_bound (factor : Int) (pos : Position) (turn : Color) :
    -2147483648 < bernsteinKeyF factor pos turn ∧ bernsteinKeyF factor pos turn < 2147483648 := by
  unfold bernsteinKeyF
  cases Bernstein.evalEvaluate pos factor turn with
  | none => simp
  | some q => exact f32keyOfQ_bound q

/-- TUROCHAMP's evaluation key is the key of a (non-NaN) `float32`, on every board -/
theorem turochampKey_bound (w : World) : -2147483648 < turochampKey w ∧ turochampKey w < 2147483648 := by
  unfold turochampKey
  cases Turochamp.evaluate w 0 with
  | none => simp
  | some q => exact f32keyOfQ_bound q

/-- **the game the BERNSTEIN engine searches has a `float32` evaluation** -/
theorem bernsteinGame_evalOk (z : ZTable) (factor : Int) : EvalOk (bernsteinGame z factor) := by
  intro w
  dsimp only [bernsteinGame, boardGame]
  exact bernsteinKeyF_bound factor _ _

/-- **the game the TUROCHAMP engine searches has a `float32` evaluation** -/
theorem turochampGame_evalOk (z : ZTable) : EvalOk (turochampGame z) := by
  intro w
  dsimp only [turochampGame, boardGameW]
  exact turochampKey_bound w

end Morlock.Model
