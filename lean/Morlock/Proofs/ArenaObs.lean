import Morlock.Proofs.ArenaFork
/-!
# From views back to observations on the arena

Transfer lemmas used by `Morlock.Props.C08`: equal (or result-equivalent) views give equal observations,
runs from result-equivalent views stay in lock-step, single-board runs as special interleaved runs.
-/
namespace Morlock.Proofs.Arena
open Morlock Morlock.Model Morlock.Model.World

theorem obs_of_view_eq {w1 w2 : World} {a b : Nat} (h1 : WFWorld w1) (h2 : WFWorld w2)
    (h : view w1 a = view w2 b) : obs w1 a = obs w2 b := by
  rw [obs_eq h1, obs_eq h2, h]

theorem obsNoResult_of_simW {w1 w2 : World} {a b : Nat} (h1 : WFWorld w1) (h2 : WFWorld w2)
    (h : SimW (view w1 a) (view w2 b)) : obsNoResult w1 a = obsNoResult w2 b ∧ blocked w1 a = blocked w2 b := by
  rw [obsNoResult_eq h1, obsNoResult_eq h2]
  exact ⟨h.obs, h.2⟩

theorem viewPush_some_not_blocked {z : ZTable} {v v' : View} {m : Move} (h : viewPush z v m = some v') :
    blockedR v.result = false := by
  unfold viewPush at h
  split at h
  · cases h
  · rename_i hb; simpa using hb

/-- One operation on views that agree up to the result makes them agree completely. -/
theorem viewStep_simW_eq {z : ZTable} {v1 v2 : View} (o : Op) (h : SimW v1 v2) :
    OptRel (fun a b => a = b) (viewStep z v1 o) (viewStep z v2 o) := by
  cases o with
  | push m => exact viewPush_simW m h
  | pop =>
    have := viewPop_simW h
    unfold viewStep
    cases h1 : viewPop v1 <;> cases h2 : viewPop v2 <;> rw [h1, h2] at this <;> simp only [OptRel] at this
    · trivial
    · simp only [Option.map_some, OptRel]
      exact this.1

theorem viewRun_simW_eq {z : ZTable} {v1 v2 : View} {ops : List Op} (h : SimW v1 v2) (hne : ops ≠ []) :
    OptRel (fun a b => a = b) (viewRun z v1 ops) (viewRun z v2 ops) := by
  cases ops with
  | nil => exact absurd rfl hne
  | cons o r =>
    have hs := viewStep_simW_eq (z := z) o h
    simp only [viewRun]
    cases h1 : viewStep z v1 o <;> cases h2 : viewStep z v2 o <;> rw [h1, h2] at hs <;> simp only [OptRel] at hs
    · trivial
    · simp only [Option.bind_some]
      rw [hs]
      cases viewRun z _ r <;> simp [OptRel]

theorem OptRel.map_view {R : View → View → Prop} {o1 o2 : Option World} {a b : Nat}
    (h : OptRel R (o1.map (fun w => view w a)) (o2.map (fun w => view w b))) :
    OptRel (fun wa wb => R (view wa a) (view wb b)) o1 o2 := by
  cases o1 <;> cases o2
  · trivial
  · exact h
  · exact h
  · exact h

theorem OptRel.imp {α : Type} {R S : α → α → Prop} {o1 o2 : Option α} (h : OptRel R o1 o2)
    (hi : ∀ a b, o1 = some a → o2 = some b → R a b → S a b) : OptRel S o1 o2 := by
  cases o1 <;> cases o2 <;> simp only [OptRel] at h ⊢
  exact hi _ _ rfl rfl h

/-- Runs from result-equivalent views (possibly different boards in different worlds) stay in lock-step:
same success, same observations; after at least one operation also the same result. -/
theorem run_sim {z : ZTable} {w1 w2 : World} {a b : Nat} (h1 : WFWorld w1) (h2 : WFWorld w2)
    (ha : a < w1.boards.size) (hb : b < w2.boards.size) (h : SimW (view w1 a) (view w2 b)) (ops : List Op) :
    OptRel (fun wa wb => obsNoResult wa a = obsNoResult wb b ∧ blocked wa a = blocked wb b ∧
        (ops ≠ [] → obs wa a = obs wb b ∧ (wa.board a).result = (wb.board b).result))
      (run z a w1 ops) (run z b w2 ops) := by
  have hsw : OptRel (fun wa wb => SimW (view wa a) (view wb b)) (run z a w1 ops) (run z b w2 ops) := by
    apply OptRel.map_view
    rw [run_view ops h1 ha, run_view ops h2 hb]
    exact viewRun_simW ops h
  have hse : ops ≠ [] → OptRel (fun wa wb => view wa a = view wb b) (run z a w1 ops) (run z b w2 ops) := by
    intro hne
    apply OptRel.map_view (R := fun x y => x = y)
    rw [run_view ops h1 ha, run_view ops h2 hb]
    exact viewRun_simW_eq h hne
  apply hsw.imp
  intro wa wb ea eb hs
  have hwa := (run_wf ops h1 ha ea).1
  have hwb := (run_wf ops h2 hb eb).1
  refine ⟨(obsNoResult_of_simW hwa hwb hs).1, (obsNoResult_of_simW hwa hwb hs).2, ?_⟩
  intro hne
  have := hse hne
  rw [ea, eb] at this
  simp only [OptRel] at this
  exact ⟨obs_of_view_eq hwa hwb this, congrArg View.result this⟩

/-! ## the castle hypothesis on the arena -/

/-- The mover does not castle with his has-castled flag already set (see `CastleFreshV`). -/
def CastleFresh (w : World) (b : Nat) (m : Move) : Prop :=
  m.isCastle = true →
    ((w.board b).turn = .white → (w.board b).castledW = false) ∧
    ((w.board b).turn = .black → (w.board b).castledB = false)

/-- Along the line `ms` played on board `b` from `w`, nobody castles with his has-castled flag already set. -/
def CastleOnce (z : ZTable) (b : Nat) : World → List Move → Prop
  | _, [] => True
  | w, m :: ms => CastleFresh w b m ∧ ∀ w', w.pushMove z b m = some w' → CastleOnce z b w' ms

theorem castleOnceV_of {z : ZTable} {b : Nat} (ms : List Move) :
    ∀ {w : World}, WFWorld w → b < w.boards.size → CastleOnce z b w ms → CastleOnceV z (view w b) ms := by
  induction ms with
  | nil => intro w _ _ _; trivial
  | cons m r ih =>
    intro w hw hb hc
    refine ⟨hc.1, ?_⟩
    intro v' hv'
    obtain ⟨w', hp, rfl⟩ := push_of_view hw hb hv'
    exact ih (wf_push hw hb hp) (by rw [boards_size_push hp]; exact hb) (hc.2 w' hp)

/-! ## single-board runs as interleaved runs -/

/-- The board is never taken back below the point where it started (`d`: current height). -/
def above : Nat → List Op → Bool
  | _, [] => true
  | d, o :: r =>
    match o.depth d with
    | none => false
    | some d' => above d' r

theorem run2_snd {z : ZTable} {a b : Nat} (ops : List Op) :
    ∀ (w : World), run2 z a b w (ops.map fun o => (false, o)) = run z b w ops := by
  induction ops with
  | nil => intro w; rfl
  | cons o r ih =>
    intro w
    simp only [List.map_cons, run2, run, Bool.false_eq_true, if_false]
    cases step z b w o with
    | none => rfl
    | some w1 => simp only [Option.bind_some]; exact ih w1

theorem run2_fst {z : ZTable} {a b : Nat} (ops : List Op) :
    ∀ (w : World), run2 z a b w (ops.map fun o => (true, o)) = run z a w ops := by
  induction ops with
  | nil => intro w; rfl
  | cons o r ih =>
    intro w
    simp only [List.map_cons, run2, run, if_true]
    cases step z a w o with
    | none => rfl
    | some w1 => simp only [Option.bind_some]; exact ih w1

theorem above2_snd (ops : List Op) : ∀ (da d : Nat), above2 da d (ops.map fun o => (false, o)) = above d ops := by
  induction ops with
  | nil => intro _ _; rfl
  | cons o r ih =>
    intro da d
    simp only [List.map_cons, above2, above]
    cases o.depth d with
    | none => rfl
    | some d' => exact ih da d'

theorem above2_fst (ops : List Op) : ∀ (d db : Nat), above2 d db (ops.map fun o => (true, o)) = above d ops := by
  induction ops with
  | nil => intro _ _; rfl
  | cons o r ih =>
    intro d db
    simp only [List.map_cons, above2, above]
    cases o.depth d with
    | none => rfl
    | some d' => exact ih d' db

theorem proj_map_same (s : Bool) (ops : List Op) : proj s (ops.map fun o => (s, o)) = ops := by
  induction ops with
  | nil => rfl
  | cons o r ih => simp only [List.map_cons, proj, if_true, ih]

theorem proj_map_other {s t : Bool} (h : t ≠ s) (ops : List Op) : proj s (ops.map fun o => (t, o)) = [] := by
  induction ops with
  | nil => rfl
  | cons o r ih => simp only [List.map_cons, proj, if_neg h, ih]

end Morlock.Proofs.Arena
