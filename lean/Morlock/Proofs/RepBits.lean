import Morlock.Model.Position
/-!
# Bit-level lemmas about `bitMask`, `isSet` and single-bit xor (helpers for `Rep`)
-/
namespace Morlock.Proofs
open Morlock Morlock.Model

theorem M64_eq : M64 = 2 ^ 64 := by decide

theorem two_pow_lt_M64 {sq : Nat} (h : sq < 64) : 2 ^ sq < 2 ^ 64 :=
  Nat.pow_lt_pow_right (by decide) h

theorem bitMask_lt {sq : Nat} (h : sq < 64) : bitMask sq = 2 ^ sq := by
  unfold bitMask shl64 u64
  rw [Nat.one_shiftLeft, M64_eq, Nat.mod_eq_of_lt (two_pow_lt_M64 h)]

theorem bitMask_ge {sq : Nat} (h : 64 ≤ sq) : bitMask sq = 0 := by
  unfold bitMask shl64 u64
  rw [Nat.one_shiftLeft, M64_eq]
  have : sq = 64 + (sq - 64) := by omega
  rw [this, Nat.pow_add]
  exact Nat.mul_mod_right _ _

theorem bitMask_lt_M64 (sq : Nat) : bitMask sq < 2 ^ 64 := by
  unfold bitMask shl64 u64
  rw [M64_eq]; exact Nat.mod_lt _ (by decide)

theorem and_two_pow_ne_zero (b sq : Nat) : ((b &&& 2 ^ sq) != 0) = b.testBit sq := by
  cases h : b.testBit sq
  · have : b &&& 2 ^ sq = 0 := by
      apply Nat.eq_of_testBit_eq
      intro i
      rw [Nat.testBit_and, Nat.testBit_two_pow, Nat.zero_testBit]
      by_cases e : sq = i
      · subst e; simp [h]
      · simp [e]
    simp [this]
  · have : b &&& 2 ^ sq ≠ 0 := by
      intro e
      have := congrArg (fun x => x.testBit sq) e
      simp [Nat.testBit_and, h] at this
    simp [this]

theorem isSet_lt (b : Nat) {sq : Nat} (h : sq < 64) : isSet b sq = b.testBit sq := by
  unfold isSet; rw [bitMask_lt h]; exact and_two_pow_ne_zero b sq

theorem isSet_ge (b : Nat) {sq : Nat} (h : 64 ≤ sq) : isSet b sq = false := by
  unfold isSet; rw [bitMask_ge h]; simp

/-- xor with a single-square mask flips exactly that bit. -/
theorem testBit_xor_bitMask (a : Nat) {k : Nat} (hk : k < 64) (j : Nat) :
    (a ^^^ bitMask k).testBit j = (a.testBit j != decide (j = k)) := by
  rw [bitMask_lt hk, Nat.testBit_xor, Nat.testBit_two_pow]
  cases a.testBit j <;> by_cases h : k = j <;> simp [h, eq_comm]

theorem xor_bitMask_lt {a : Nat} (ha : a < 2 ^ 64) (k : Nat) : a ^^^ bitMask k < 2 ^ 64 :=
  Nat.xor_lt_two_pow ha (bitMask_lt_M64 k)

end Morlock.Proofs
