import Morlock.Proofs.AttackBits
/-!
# The transcribed `scan` loop walks exactly the reference `ray` (symbolic, all line states)

`scan_ray` is a lock-step simulation: the Go loop index `i` and the reference ray's current square
advance together. Its geometric side conditions are decidable per (square, index) and are bundled
in `geoOK`, which the `AttackGeo*` files discharge by kernel evaluation over all 64 squares; the
occupancy side condition comes from the rotated-bitboard invariant (`AttackRot`).
-/
namespace Morlock.Proofs.Attack
open Morlock Morlock.Model Morlock.Spec

/-- Lock-step simulation of the Go loop and the reference ray. `pos i` is the square the ray stands
    on when the loop is about to handle index `i`; indices below `start` are never visited. -/
theorem scan_ray (occ : Nat → Bool) (df dr : Int) (hi start : Nat) (cell bit pos : Nat → Nat) (state : Nat)
    (hgeo : ∀ i, start ≤ i → i < hi → step (pos i) df dr = some (cell i) ∧ pos (i + 1) = cell i ∧
      cell i < 64 ∧ occ (cell i) = (bitMask (bit i) &&& state != 0))
    (hend : step (pos hi) df dr = none) :
    ∀ fuel i tmp, start ≤ i → i ≤ hi →
      scan hi cell bit state fuel i tmp = tmp ||| toBB (ray occ (pos i) df dr fuel) := by
  intro fuel
  induction fuel with
  | zero => intro i tmp _ _; simp [scan, ray]
  | succ fuel ih =>
    intro i tmp hs hle
    unfold scan ray
    by_cases h : i < hi
    · obtain ⟨h1, h2, h3, h4⟩ := hgeo i hs h
      simp only [h, if_true, h1, h4]
      by_cases hb : (bitMask (bit i) &&& state != 0) = true
      · simp only [hb, if_true]
        rw [toBB_singleton, bitMask_eq' h3]
      · simp only [hb]
        rw [ih (i + 1) _ (by omega) (by omega), h2]
        simp only [Bool.false_eq_true, if_false]
        rw [toBB_cons, bitMask_eq' h3, Nat.or_assoc]
    · have e : i = hi := by omega
      subst e
      simp [h, hend]

/-- Table lookups as functions. -/
def t90 (s : Nat) : Nat := Gen.rot90[s]!
def t45L (s : Nat) : Nat := Gen.rot45L[s]!
def t45R (s : Nat) : Nat := Gen.rot45R[s]!

/-- One transcribed loop together with the reference direction it is meant to walk. -/
structure ScanSpec where
  hi : Nat
  cell : Nat → Nat
  bit : Nat → Nat
  start : Nat
  df : Int
  dr : Int

/-- Square the reference ray stands on before the loop handles index `i`. -/
def ScanSpec.pos (S : ScanSpec) (sq : Nat) (i : Nat) : Nat := if i ≤ S.start then sq else S.cell (i - 1)

/-- The decidable geometric side conditions for one loop on one square: every loop index below `hi`
    is one reference step further, lies on the board, and sits at bit `off + bit i` of the rotated
    board through table `tbl` and inside `mask`; at `hi` the reference ray leaves the board. -/
def geoOK (S : ScanSpec) (sq : Nat) (tbl : Nat → Nat) (off mask : Nat) : Bool :=
  decide (S.start ≤ S.hi) &&
  decide (step (S.pos sq S.hi) S.df S.dr = none) &&
  allBelow S.hi fun i =>
    decide (i < S.start) ||
      (decide (step (S.pos sq i) S.df S.dr = some (S.cell i)) && decide (S.cell i < 64) &&
        decide (S.bit i < 64) && decide (tbl (S.cell i) = off + S.bit i) && mask.testBit (S.bit i))

/-- A loop whose geometric side conditions hold computes the reference ray, for every board whose
    rotated copy `rotX` mirrors the occupancy `occ` through `tbl`. -/
theorem scan_eq_ray (S : ScanSpec) (sq : Nat) (tbl : Nat → Nat) (off mask occ rotX : Nat)
    (hgeo : geoOK S sq tbl off mask = true)
    (hinv : ∀ s, s < 64 → rotX.testBit (tbl s) = occ.testBit s) (tmp : Nat) :
    scan S.hi S.cell S.bit ((rotX >>> off) &&& mask) 8 S.start tmp =
      tmp ||| toBB (ray (fun s => occ.testBit s) sq S.df S.dr 8) := by
  simp only [geoOK, Bool.and_eq_true, decide_eq_true_eq] at hgeo
  obtain ⟨⟨hstart, hend⟩, hall⟩ := hgeo
  have hall := allBelow_spec hall
  have key := scan_ray (fun s => occ.testBit s) S.df S.dr S.hi S.start S.cell S.bit
    (S.pos sq) ((rotX >>> off) &&& mask) ?_ hend 8 S.start tmp (Nat.le_refl _) hstart
  · simpa [ScanSpec.pos] using key
  · intro i hs hi
    have h := hall i hi
    simp only [Bool.or_eq_true, Bool.and_eq_true, decide_eq_true_eq] at h
    rcases h with h | ⟨⟨⟨⟨h1, h2⟩, h3⟩, h4⟩, h5⟩
    · omega
    · refine ⟨h1, ?_, h2, ?_⟩
      · simp only [ScanSpec.pos]; rw [if_neg (by omega)]; rfl
      · rw [bitMask_and_ne_zero _ h3, lineState_testBit, h5, Bool.and_true, ← h4, hinv _ h2]

end Morlock.Proofs.Attack
