import Morlock.Proofs.AttackBits
import Morlock.Model.Abs
/-!
# King, knight and pawn attack boards equal the reference step sets (all 64 squares, by evaluation)
-/
namespace Morlock.Proofs.Attack
open Morlock Morlock.Model Morlock.Spec

theorem king_all : allBelow 64 (fun sq =>
    decide (kingAttackboard sq = toBB (officerTargets (fun _ => false) .king sq))) = true := by
  decide +kernel

theorem knight_all : allBelow 64 (fun sq =>
    decide (knightAttackboard sq = toBB (officerTargets (fun _ => false) .knight sq))) = true := by
  decide +kernel

theorem pawn_all : allBelow 64 (fun sq =>
    decide (pawnCaptureboard .white (bitMask sq) = toBB (pawnTargets .white sq)) &&
    decide (pawnCaptureboard .black (bitMask sq) = toBB (pawnTargets .black sq))) = true := by
  decide +kernel

theorem king_of_lt (o : Nat → Bool) {sq : Nat} (hs : sq < 64) :
    kingAttackboard sq = toBB (officerTargets o .king sq) := by
  have := allBelow_spec king_all sq hs
  simp only [decide_eq_true_eq] at this
  exact this

theorem knight_of_lt (o : Nat → Bool) {sq : Nat} (hs : sq < 64) :
    knightAttackboard sq = toBB (officerTargets o .knight sq) := by
  have := allBelow_spec knight_all sq hs
  simp only [decide_eq_true_eq] at this
  exact this

theorem pawn_of_lt (c : Model.Color) {sq : Nat} (hs : sq < 64) :
    pawnCaptureboard c (bitMask sq) = toBB (pawnTargets (absColor c) sq) := by
  have := allBelow_spec pawn_all sq hs
  simp only [Bool.and_eq_true, decide_eq_true_eq] at this
  cases c
  · exact this.1
  · exact this.2

end Morlock.Proofs.Attack
