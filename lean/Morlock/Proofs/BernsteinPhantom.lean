import Morlock.Proofs.BernsteinBitMir
import Morlock.Proofs.GenLegal
/-!
# The legal moves of the side NOT to move, when an en-passant target is set

`Eval.Evaluate` asks for `Mobility(pos, turn.Opponent())`. With an en-passant target set, `PseudoLegalMoves(opponent)` contains, besides the
moves the opponent would have without the target, one "phantom" en-passant capture for each of its pawns that attacks the target square.
This file splits the count accordingly (`legalMoves_length_split`), describes the phantoms (`epPart_eq`) and shows that their number is
the same in the colour-swapped mirror image (`phantomCount_mirror`), using the bit-level mirror for the legality test.
-/
namespace Morlock.Proofs.Bernstein
open Morlock Morlock.Model Morlock.Model.Bernstein Morlock.Proofs.Gen Morlock.Proofs.Attack Morlock.Proofs.Mirror

/-- the position with the en-passant target cleared -/
def clearEp (p : Position) : Position := { p with enpassant := 0, castling := p.castling }

/-- the en-passant part of `genPawn` -/
def epPart (p : Position) (d : Color) (fr : Nat) : List Move :=
  if p.enpassant != 0 then
    p.emitMove d .enPassant .pawn fr
      (pawnCaptureboard d (bitMask fr) &&& not64 (p.pieces d .none) &&& bitMask p.enpassant)
  else []

/-- the phantom move -/
def epMove (fr ep : Nat) : Move := { ty := .enPassant, «from» := fr, to := ep, piece := .pawn }

/-! ## splitting the generator -/

theorem genOfficers_clearEp (p : Position) (d : Color) : genOfficers (clearEp p) d = genOfficers p d := rfl
theorem genKing_clearEp (p : Position) (d : Color) : genKing (clearEp p) d = genKing p d := rfl

theorem genPawn_split (p : Position) (d : Color) (fr : Nat) :
    genPawn p d fr = genPawn (clearEp p) d fr ++ epPart p d fr := by
  unfold genPawn epPart clearEp
  simp only [bne_self_eq_false, Bool.false_eq_true, if_false, List.append_nil]
  rfl

theorem length_filter_flatMap_append {α β : Type} (f : β → Bool) (A E : α → List β) : ∀ l : List α,
    ((l.flatMap fun x => A x ++ E x).filter f).length =
      ((l.flatMap A).filter f).length + ((l.flatMap E).filter f).length
  | [] => rfl
  | x :: xs => by
    simp only [List.flatMap_cons, List.filter_append, List.length_append]
    rw [length_filter_flatMap_append f A E xs]
    omega

/-! ## `Position.Move` does not read the en-passant target -/

theorem xor_clearEp (p : Position) (sq : Nat) (c : Color) (k : Piece) :
    (clearEp p).xor sq c k = clearEp (p.xor sq c k) := by
  cases c <;> rfl

theorem moveRaw_clearEp (p : Position) (t : Color) (pc : Piece) (m : Move) :
    moveRaw (clearEp p) t pc m = moveRaw p t pc m := by
  unfold moveRaw
  have hif : ∀ (c : Bool) (A B : Position),
      (if c = true then clearEp A else clearEp B) = clearEp (if c = true then A else B) := by
    intro c A B; cases c <;> rfl
  simp only [xor_clearEp, hif]
  cases m.ty <;> rfl

theorem move_isSome_clearEp (p : Position) (m : Move) : ((clearEp p).move m).isSome = (p.move m).isSome := by
  have hsq : (clearEp p).square m.from = p.square m.from := rfl
  cases h : p.square m.from with
  | none =>
    have h' : (clearEp p).square m.from = none := by rw [hsq, h]
    unfold Position.move
    rw [h, h']
  | some v =>
    obtain ⟨t, pc⟩ := v
    have h' : (clearEp p).square m.from = some (t, pc) := by rw [hsq, h]
    rw [move_isSome_eq h, move_isSome_eq h', moveRaw_clearEp]
    rfl

/-- **the opponent's legal moves = its legal moves without the target + the accepted phantom captures** -/
theorem legalMoves_length_split (p : Position) (d : Color) :
    (p.legalMoves d).length = ((clearEp p).legalMoves d).length +
      (((toSquares (p.pieces d .pawn)).flatMap (epPart p d)).filter fun m => (p.move m).isSome).length := by
  unfold Position.legalMoves
  rw [pseudoLegalMoves_eq, pseudoLegalMoves_eq, genOfficers_clearEp, genKing_clearEp]
  have hf : (fun m => ((clearEp p).move m).isSome) = (fun m => (p.move m).isSome) := by
    funext m; exact move_isSome_clearEp p m
  rw [hf]
  have hpawns : genPawns p d = (toSquares (p.pieces d .pawn)).flatMap fun fr => genPawn (clearEp p) d fr ++ epPart p d fr := by
    unfold genPawns
    congr 1
    funext fr
    exact genPawn_split p d fr
  have hpawns0 : genPawns (clearEp p) d = (toSquares (p.pieces d .pawn)).flatMap (genPawn (clearEp p) d) := rfl
  have key := length_filter_flatMap_append (fun m => (p.move m).isSome) (genPawn (clearEp p) d) (epPart p d)
    (toSquares (p.pieces d .pawn))
  simp only [List.filter_append, List.length_append]
  rw [hpawns, hpawns0, key]
  omega

/-! ## the phantoms -/

theorem toSquares_and_bitMask (x : Nat) {e : Nat} (he : e < 64) :
    toSquares (x &&& bitMask e) = if x.testBit e then [e] else [] := by
  have hlt : x &&& bitMask e < 2 ^ 64 := and_lt_right _ (Attack.bitMask_lt he)
  have hmem : ∀ a, a ∈ toSquares (x &&& bitMask e) ↔ (x.testBit e = true ∧ a = e) := by
    intro a
    rw [mem_toSquares hlt, Nat.testBit_and, bitMask_testBit he, Bool.and_eq_true, decide_eq_true_eq]
    constructor
    · rintro ⟨h1, rfl⟩; exact ⟨h1, rfl⟩
    · rintro ⟨h1, rfl⟩; exact ⟨h1, rfl⟩
  have hnd := toSquares_nodup hlt
  cases hx : x.testBit e with
  | false =>
    simp only [Bool.false_eq_true, if_false]
    apply List.eq_nil_iff_forall_not_mem.mpr
    intro a ha
    have := (hmem a).mp ha
    rw [hx] at this
    cases this.1
  | true =>
    simp only [if_true]
    have hperm : (toSquares (x &&& bitMask e)).Perm [e] := by
      rw [List.perm_ext_iff_of_nodup hnd (by simp)]
      intro a
      rw [hmem a, hx]
      simp
    exact List.perm_singleton.mp hperm

/-- on a represented position with an empty target square `ep`, the en-passant part generated for a pawn of `d` on `fr` is the one phantom
move exactly when `ep` is a capture square of that pawn -/
theorem epPart_eq {p : Position} {b : Board} (hp : Rep p b) (d : Color) {fr : Nat} (hfr : fr < 64)
    (hep0 : p.enpassant ≠ 0) (hep : p.enpassant < 64) (hempty : b p.enpassant = none) :
    epPart p d fr =
      if p.enpassant ∈ Spec.pawnTargets (absColor d) fr then [epMove fr p.enpassant] else [] := by
  unfold epPart
  have hne : (p.enpassant != 0) = true := by rw [bne_iff_ne]; exact hep0
  rw [if_pos hne]
  unfold Position.emitMove
  rw [toSquares_and_bitMask _ hep]
  have hbit : (pawnCaptureboard d (bitMask fr) &&& not64 (p.pieces d .none)).testBit p.enpassant = true ↔
      p.enpassant ∈ Spec.pawnTargets (absColor d) fr := by
    rw [Nat.testBit_and, Bool.and_eq_true, pawnSet_testBit d _ _ (Attack.bitMask_lt hfr), not64_testBit,
      hp.all d _ hep]
    have hcol : colAt b p.enpassant d = false := by unfold colAt; rw [hempty]
    rw [hcol]
    simp only [Bool.not_false, Bool.and_true, decide_eq_true_eq]
    constructor
    · rintro ⟨⟨s, hs, hb, hm⟩, _⟩
      rw [bitMask_testBit hfr, decide_eq_true_eq] at hb
      subst hb
      exact hm
    · intro hm
      exact ⟨⟨fr, hfr, by rw [bitMask_testBit hfr]; simp, hm⟩, hep⟩
  by_cases hm : p.enpassant ∈ Spec.pawnTargets (absColor d) fr
  · rw [if_pos hm, hbit.mpr hm]
    simp [epMove]
  · rw [if_neg hm]
    have : (pawnCaptureboard d (bitMask fr) &&& not64 (p.pieces d .none)).testBit p.enpassant = false := by
      rw [← Bool.not_eq_true]; exact fun h => hm (hbit.mp h)
    rw [this]
    simp

/-- the number of phantom captures `Position.Move` accepts -/
def phantomCount (p : Position) (d : Color) : Nat :=
  (toSquares (p.pieces d .pawn)).countP fun fr =>
    decide (p.enpassant ∈ Spec.pawnTargets (absColor d) fr) && (p.move (epMove fr p.enpassant)).isSome

theorem phantoms_length {p : Position} {b : Board} (hp : Rep p b) (d : Color)
    (hep0 : p.enpassant ≠ 0) (hep : p.enpassant < 64) (hempty : b p.enpassant = none) :
    (((toSquares (p.pieces d .pawn)).flatMap (epPart p d)).filter fun m => (p.move m).isSome).length =
      phantomCount p d := by
  unfold phantomCount
  have hl : ∀ fr ∈ toSquares (p.pieces d .pawn), fr < 64 := fun fr h => toSquares_lt (hp.piecesLt d .pawn) h
  generalize toSquares (p.pieces d .pawn) = l at hl
  induction l with
  | nil => rfl
  | cons x xs ih =>
    rw [List.flatMap_cons, List.filter_append, List.length_append, List.countP_cons,
      ih (fun fr h => hl fr (List.mem_cons_of_mem _ h)), epPart_eq hp d (hl x (List.mem_cons_self ..)) hep0 hep hempty]
    by_cases hm : p.enpassant ∈ Spec.pawnTargets (absColor d) x
    · rw [if_pos hm]
      cases hok : (p.move (epMove x p.enpassant)).isSome <;> simp [hm, hok] <;> omega
    · rw [if_neg hm]
      simp [hm]

/-- without a target there are no phantoms -/
theorem phantoms_nil {p : Position} (d : Color) (hep0 : p.enpassant = 0) :
    (toSquares (p.pieces d .pawn)).flatMap (epPart p d) = [] := by
  apply List.flatMap_eq_nil_iff.mpr
  intro fr _
  unfold epPart
  rw [hep0]
  rfl

/-! ## the phantoms of the mirror image -/

theorem toSquares_mirror_perm {x x' : Nat} (hx : x < 2 ^ 64) (hx' : x' < 2 ^ 64)
    (h : ∀ s, s < 64 → x'.testBit (Spec.mirrorSq s) = x.testBit s) :
    (toSquares x').Perm ((toSquares x).map Spec.mirrorSq) := by
  have hn1 := toSquares_nodup hx'
  have hn2 : ((toSquares x).map Spec.mirrorSq).Nodup := by
    have hn : (toSquares x).Pairwise (· ≠ ·) := toSquares_nodup hx
    exact List.Pairwise.map _ (fun a c hne e => hne (Spec.mirrorSq_inj e)) hn
  rw [List.perm_ext_iff_of_nodup hn1 hn2]
  intro t
  rw [mem_toSquares hx', Spec.mem_map_mirrorSq, mem_toSquares hx]
  by_cases ht : t < 64
  · have := h (Spec.mirrorSq t) (Spec.mirrorSq_lt ht)
    rw [Spec.mirrorSq_mirrorSq] at this
    rw [this]
  · rw [testBit_high hx' (by omega), Spec.mirrorSq_of_ge (by omega), testBit_high hx (by omega)]

theorem pawnTargets_mirror_iff (c : Spec.Color) {s : Nat} (hs : s < 64) (t : Nat) :
    Spec.mirrorSq t ∈ Spec.pawnTargets c.opp (Spec.mirrorSq s) ↔ t ∈ Spec.pawnTargets c s := by
  rw [Spec.pawnTargets_mirror c hs, Spec.mem_map_mirrorSq, Spec.mirrorSq_mirrorSq]

/-- the square of the pawn a (phantom) en-passant capture onto `ep` removes -/
def epCap (ep : Nat) : Nat := (epMove 0 ep).enPassantCapture

theorem epCap_mirror_all : allBelow 64 (fun ep =>
    !(decide (ep / 8 = 2) || decide (ep / 8 = 5)) ||
      (decide (epCap ep < 64) && decide (epCap (Spec.mirrorSq ep) = Spec.mirrorSq (epCap ep)))) = true := by
  decide +kernel

theorem epCap_mirror {ep : Nat} (hep : ep < 64) (hr : ep / 8 = 2 ∨ ep / 8 = 5) :
    epCap ep < 64 ∧ epCap (Spec.mirrorSq ep) = Spec.mirrorSq (epCap ep) := by
  have := allBelow_spec epCap_mirror_all ep hep
  simp only [Bool.or_eq_true, Bool.not_eq_true', Bool.and_eq_true, decide_eq_true_eq] at this
  rcases this with h | h
  · exfalso
    rcases hr with hr | hr <;> simp [hr] at h
  · exact h

theorem moveRaw_epMove (p : Position) (d : Color) (fr ep : Nat) :
    moveRaw p d .pawn (epMove fr ep) =
      { (((p.xor fr d .pawn).xor ep d .pawn).xor (epCap ep) d.opp .pawn) with
        enpassant := (epMove fr ep).enPassantTarget,
        castling := andNot (((p.xor fr d .pawn).xor ep d .pawn).xor (epCap ep) d.opp .pawn).castling
          (epMove fr ep).castlingRightsLost } := rfl

theorem pieces_king_xor_pawn (p : Position) (sq : Nat) (c c' : Color) :
    (p.xor sq c .pawn).pieces c' .king = p.pieces c' .king := by
  rw [pieces_xor _ _ _ _ (by simp)]
  simp

theorem moveRaw_epMove_king (p : Position) (d c' : Color) (fr ep : Nat) :
    (moveRaw p d .pawn (epMove fr ep)).pieces c' .king = p.pieces c' .king := by
  rw [moveRaw_epMove]
  have : ∀ (Y : Position) (e c : Nat), ({ Y with enpassant := e, castling := c } : Position).pieces c' .king = Y.pieces c' .king := by
    intro Y e c; cases c' <;> rfl
  rw [this, pieces_king_xor_pawn, pieces_king_xor_pawn, pieces_king_xor_pawn]

/-- legality of a phantom capture is the same in the mirror image -/
theorem phantom_legal_mirror {p q : Position} {b : Board} (hp : Rep p b) (hq : Rep q (mirrorBoard b)) (d : Color)
    {fr ep : Nat} (hfr : fr < 64) (hep : ep < 64) (hr : ep / 8 = 2 ∨ ep / 8 = 5)
    (hb : b fr = some (d, .pawn)) (hu : OneKingB b d) :
    (q.move (epMove (Spec.mirrorSq fr) (Spec.mirrorSq ep))).isSome = (p.move (epMove fr ep)).isSome := by
  have hsq : p.square (epMove fr ep).from = some (d, .pawn) := by rw [hp.square_eq]; exact hb
  have hsq' : q.square (epMove (Spec.mirrorSq fr) (Spec.mirrorSq ep)).from = some (d.opp, .pawn) := by
    rw [hq.square_eq]
    show mirrorBoard b (Spec.mirrorSq fr) = _
    rw [mirrorBoard_mirrorSq, hb]; rfl
  rw [move_isSome_eq hsq, move_isSome_eq hsq']
  have hc : ∀ a e, (epMove a e).isCastle = false := fun _ _ => rfl
  rw [hc, hc]
  simp only [Bool.false_and, Bool.not_false, Bool.true_and]
  congr 1
  obtain ⟨hv, hvm⟩ := epCap_mirror hep hr
  have h3 := (((BitMir.of_rep hp hq).xor hfr d (k := .pawn) (by simp)).xor hep d (k := .pawn) (by simp)).xor hv d.opp
    (k := .pawn) (by simp)
  have hX : BitMir (moveRaw p d .pawn (epMove fr ep)) (moveRaw q d.opp .pawn (epMove (Spec.mirrorSq fr) (Spec.mirrorSq ep))) := by
    rw [moveRaw_epMove, moveRaw_epMove, hvm]
    exact h3.with_meta _ _ _ _
  have huX : OneKingBit (moveRaw p d .pawn (epMove fr ep)) d := by
    intro s1 s2 h1 h2
    rw [moveRaw_epMove_king] at h1 h2
    have l1 := lt_of_testBit (hp.piecesLt d .king) h1
    have l2 := lt_of_testBit (hp.piecesLt d .king) h2
    rw [hp.one d .king s1 (by simp) l1, decide_eq_true_eq] at h1
    rw [hp.one d .king s2 (by simp) l2, decide_eq_true_eq] at h2
    exact hu s1 s2 h1 h2
  exact isChecked_bitMir hX huX

/-- **the number of accepted phantom captures is colour-blind** -/
theorem phantomCount_mirror {p q : Position} {b : Board} (hp : Rep p b) (hq : Rep q (mirrorBoard b)) (d : Color)
    (hep : p.enpassant < 64) (hr : p.enpassant / 8 = 2 ∨ p.enpassant / 8 = 5)
    (hqep : q.enpassant = Spec.mirrorSq p.enpassant) (hu : OneKingB b d) :
    phantomCount q d.opp = phantomCount p d := by
  unfold phantomCount
  rw [List.countP_eq_length_filter, List.countP_eq_length_filter]
  apply countP_mirror
  · apply toSquares_mirror_perm (hp.piecesLt d .pawn) (hq.piecesLt d.opp .pawn)
    intro s hs
    exact (BitMir.of_rep hp hq).pcs d .pawn s hs
  · intro fr hfr
    have hfr64 := toSquares_lt (hp.piecesLt d .pawn) hfr
    have hb : b fr = some (d, .pawn) := by
      have := (mem_toSquares (hp.piecesLt d .pawn) fr).mp hfr
      rw [hp.one d .pawn fr (by simp) hfr64, decide_eq_true_eq] at this
      exact this
    rw [hqep, phantom_legal_mirror hp hq d hfr64 hep hr hb hu, absColor_opp]
    congr 1
    apply decide_eq_decide.mpr
    exact pawnTargets_mirror_iff (absColor d) hfr64 p.enpassant

/-! ## the opponent's mobility is colour-blind -/

theorem wf_clearEp {p : Position} {c : Color} (hw : WF p c) (d : Color) : WF (clearEp p) d := by
  refine ⟨hw.1.with_meta 0 p.castling, ?_⟩
  have h := hw.2
  unfold WFc at h ⊢
  simp only [Bool.and_eq_true] at h ⊢
  exact ⟨h.1, by simp [clearEp]⟩

/-- **`Mobility` of the side NOT to move is colour-blind**, en-passant target or not. -/
theorem mobility_mirror_opp {p q : Position} {c : Color} (hp : WF p c) (hq : WF q c.opp)
    (habs : abs q c.opp = Spec.mirror (abs p c)) : mobility q c = mobility p c.opp := by
  have hbq := mirrorBoard_of_abs hp.1 hq.1 habs
  have hq' : Rep q (mirrorBoard p.square) := hbq ▸ hq.1
  have wfb := wfb_of_wfc hp.1 hp.2
  have wfbq := wfb_of_wfc hq.1 hq.2
  -- status fields of the mirror image
  have hwk : (q.castling &&& wK != 0) = (p.castling &&& bK != 0) := congrArg Spec.Pos.wk habs
  have hwq : (q.castling &&& wQ != 0) = (p.castling &&& bQ != 0) := congrArg Spec.Pos.wq habs
  have hbk : (q.castling &&& bK != 0) = (p.castling &&& wK != 0) := congrArg Spec.Pos.bk habs
  have hbq' : (q.castling &&& bQ != 0) = (p.castling &&& wQ != 0) := congrArg Spec.Pos.bq habs
  have hepf : (if q.enpassant = 0 then none else some q.enpassant) =
      (if p.enpassant = 0 then none else some p.enpassant).map Spec.mirrorSq := congrArg Spec.Pos.ep habs
  -- the part without the target
  have hclear : mobility (clearEp q) c = mobility (clearEp p) c.opp := by
    have hA := Mirror.abs_eq_mirror (p := clearEp p) (q := clearEp q) (hp.1.with_meta 0 p.castling)
      (hq'.with_meta 0 q.castling) c.opp hwk hwq hbk hbq' (fun _ => rfl) (fun h => absurd rfl h)
    have := Bernstein.mobility_mirror (c := c.opp) (wf_clearEp hp c.opp) (wf_clearEp hq c.opp.opp) hA
    rw [opp_opp] at this
    exact this
  unfold mobility at hclear ⊢
  rw [legalMoves_length_split p c.opp, legalMoves_length_split q c]
  by_cases h0 : p.enpassant = 0
  · have h0' : q.enpassant = 0 := by
      rw [if_pos h0] at hepf
      by_cases hq0 : q.enpassant = 0
      · exact hq0
      · rw [if_neg hq0] at hepf; cases hepf
    rw [phantoms_nil c.opp h0, phantoms_nil c h0']
    simp only [List.filter_nil, List.length_nil, Nat.add_zero]
    exact hclear
  · have hq0 : q.enpassant ≠ 0 := by
      intro e
      rw [if_neg h0, if_pos e] at hepf; cases hepf
    have hqe : q.enpassant = Spec.mirrorSq p.enpassant := by
      rw [if_neg h0, if_neg hq0] at hepf
      simpa using hepf
    obtain ⟨hlt, hempty, hrank, _⟩ := wfb.ep_ok h0
    obtain ⟨hltq, hemptyq, _, _⟩ := wfbq.ep_ok hq0
    rw [hbq] at hemptyq
    have hr : p.enpassant / 8 = 2 ∨ p.enpassant / 8 = 5 := by
      cases c
      · right; exact hrank
      · left; exact hrank
    rw [phantoms_length hp.1 c.opp h0 hlt hempty, phantoms_length hq' c hq0 hltq hemptyq]
    have hu : OneKingB p.square c.opp := fun s1 s2 h1 h2 => wfb.king_unique c.opp s1 s2 h1 h2
    have hpc := phantomCount_mirror hp.1 hq' c.opp hlt hr hqe hu
    rw [opp_opp] at hpc
    rw [hpc]
    have := hclear
    omega

/-- **`Evaluate` of the side NOT to move is colour-blind.** -/
theorem evaluate_mirror_opp {p q : Position} {c : Color} (hp : WF p c) (hq : WF q c.opp)
    (habs : abs q c.opp = Spec.mirror (abs p c)) (factor : Int) :
    evaluate q factor c = evaluate p factor c.opp := by
  have hb := mirrorBoard_of_abs hp.1 hq.1 habs
  have hq' : Rep q (mirrorBoard p.square) := hb ▸ hq.1
  have hu : OneKingB p.square c.opp := fun s1 s2 h1 h2 => (wfb_of_wfc hp.1 hp.2).king_unique c.opp s1 s2 h1 h2
  have h1 := control_mirror hp.1 hq' c.opp
  have h2 := kingDefense_mirror hp.1 hq' hu
  have h3 := material_mirror hp.1 hq' c.opp
  rw [opp_opp] at h1 h2 h3
  unfold evaluate
  rw [mobility_mirror_opp hp hq habs, h1, h2, h3]

/-- **`Eval.Evaluate` is colour-blind** on every well-formed position, en-passant target or not. -/
theorem evalEvaluate_mirror_full {p q : Position} {c : Color} (hp : WF p c) (hq : WF q c.opp)
    (habs : abs q c.opp = Spec.mirror (abs p c)) (factor : Int) :
    evalEvaluate q factor c.opp = evalEvaluate p factor c := by
  unfold evalEvaluate
  rw [Bernstein.evaluate_mirror hp hq habs factor, opp_opp, evaluate_mirror_opp hp hq habs factor]

end Morlock.Proofs.Bernstein
