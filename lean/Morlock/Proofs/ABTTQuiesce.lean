import Morlock.Proofs.ABTTLoop
/-!
# Quiescence under a table invariant and cancellation (helper for C11 / C12)

`quiesce` never touches the table; with cancellation it returns the clipped quiescence value whenever it is
still live at the end.
-/
namespace Morlock.Proofs.AB
open Morlock Morlock.Model Morlock.Model.Score Morlock.Spec
open Morlock.Props.C09
variable {P : Type}

/-- Table untouched, cancellation instant fixed, poll counter grown. -/
def Same (st st' : SState) : Prop := st'.tt = st.tt ∧ Mono st st'

theorem Same.refl (st : SState) : Same st st := ⟨rfl, Mono.refl _⟩
theorem Same.trans {s1 s2 s3 : SState} (h1 : Same s1 s2) (h2 : Same s2 s3) : Same s1 s3 :=
  ⟨h2.1.trans h1.1, h1.2.trans h2.2⟩

theorem quiesceLoop_same {g : Game P} {ex : P → Explore} {rec : P → Score → Score → SState → Score × SState} {p : P}
    {b : Score} (hrec : ∀ c a b st, Same st (rec c a b st).2) :
    ∀ (l : List Move) (a : Score) (hl : Bool) (st : SState), Same st (quiesceLoop g ex rec p b l a hl st).2.2 := by
  intro l
  induction l with
  | nil => intro a hl st; exact Same.refl _
  | cons m rest ih =>
    intro a hl st
    cases hpush : g.push p m with
    | none => simp only [quiesceLoop, childOf, hpush]; exact ih _ _ _
    | some c =>
      cases hp : (ex p).pick m with
      | false =>
        simp only [quiesceLoop, childOf, hpush, hp, Bool.false_eq_true, if_false]
        split
        · exact Same.refl _
        · exact ih _ _ _
      | true =>
        have := hrec c (childBound b) (childBound a) st
        simp only [quiesceLoop, childOf, hpush, hp, if_true]
        split
        · exact this
        · exact this.trans (ih _ _ _)

theorem quiesce_succ_eq {g : Game P} {ex : P → Explore} {fuel : Nat} {p : P} {a b : Score} {st : SState} :
    quiesce g ex (fuel + 1) p a b st =
      if cancelled st then (zeroScore, tick st) else
      if g.isDraw p then (zeroScore, tick st) else
      (let r := quiesceLoop g ex (quiesce g ex fuel) p b (heapOrder (g.moves p) (ex p).prio)
          (Score.max a (heuristicScore (g.eval p))) false { tick st with nodes := (tick st).nodes + 1 }
       if !r.2.1 then (terminal g p, r.2.2) else (r.1, r.2.2)) := by
  simp only [quiesce, poll_eq, terminal]
  rfl

theorem quiesce_same (g : Game P) (ex : P → Explore) :
    ∀ fuel p a b st, Same st (quiesce g ex fuel p a b st).2 := by
  intro fuel
  induction fuel with
  | zero => intro p a b st; exact ⟨rfl, rfl, Nat.le_refl _⟩
  | succ fuel ih =>
    intro p a b st
    have ht : Same st (tick st) := ⟨rfl, mono_tick st⟩
    rw [quiesce_succ_eq]
    by_cases hc : cancelled st = true
    · simp only [hc, if_true]; exact ht
    · by_cases hd : g.isDraw p = true
      · simp only [hc, hd, if_true, Bool.false_eq_true, if_false]; exact ht
      · simp only [hc, hd, Bool.false_eq_true, if_false]
        have hl := quiesceLoop_same (g := g) (ex := ex) (p := p) (b := b) (ih) (heapOrder (g.moves p) (ex p).prio)
          (Score.max a (heuristicScore (g.eval p))) false { tick st with nodes := (tick st).nodes + 1 }
        have h2 : Same st { tick st with nodes := (tick st).nodes + 1 } := ⟨rfl, mono_tick st⟩
        by_cases hh : (!(quiesceLoop g ex (quiesce g ex fuel) p b (heapOrder (g.moves p) (ex p).prio)
          (Score.max a (heuristicScore (g.eval p))) false { tick st with nodes := (tick st).nodes + 1 }).2.1) = true
        · simp only [hh, if_true]; exact h2.trans hl
        · simp only [hh, Bool.false_eq_true, if_false]; exact h2.trans hl

/-- One node of `quiesce` with fuel left that stayed live, given the contract one level down. -/
theorem quiesce_succ_tt {g : Game P} (hev : EvalOk g) (ex : P → Explore) {Inv : TTState → Prop} (K fuel : Nat)
    (hf : K + fuel + 1 ≤ 127)
    (IH : RecTT Inv (fun _ => True) (K + fuel) (Q g ex fuel) (fun _ _ _ => True) (wrapQ (quiesce g ex fuel)))
    (p : P) (a b : Score) (st : SState) (hinv : Inv st.tt) (ha : okN (K + fuel + 1) a) (hb : okN (K + fuel + 1) b) :
    ∀ r, quiesce g ex (fuel + 1) p a b st = r → Live r.2 →
      okN (K + fuel + 1) r.1 ∧
      (r.1 = Q g ex (fuel + 1) p ∨ rank a ≤ rank r.1) ∧
      (rank a < rank b → Clip (rank a) (rank b) (rank (Q g ex (fuel + 1) p)) (rank r.1)) := by
  intro r hr hlive
  have hsame := quiesce_same g ex (fuel + 1) p a b st
  rw [hr] at hsame
  have hlt : Live (tick st) := by
    have h1 := quiesce_same g ex (fuel + 1) p a b st
    rw [quiesce_succ_eq] at h1
    rw [quiesce_succ_eq] at hr
    by_cases hc : cancelled st = true
    · simp only [hc, if_true] at hr; subst hr; exact hlive
    · exact (cancelled_false_iff st).1 (by simpa using hc)
  have hc : cancelled st = false := (cancelled_false_iff st).2 hlt
  rw [quiesce_succ_eq] at hr
  simp only [hc, Bool.false_eq_true, if_false] at hr
  by_cases hd : g.isDraw p = true
  · simp only [hd, if_true] at hr
    subst hr
    have hQ : Q g ex (fuel + 1) p = zeroScore := by simp only [Q, hd, if_true]
    rw [hQ]
    exact ⟨okN_mono okN_zero (by omega), Or.inl rfl, fun _ => clip_self _ _ _⟩
  · have hd' : g.isDraw p = false := by simpa using hd
    simp only [hd', Bool.false_eq_true, if_false] at hr
    have hsc : okN (K + fuel + 1) (heuristicScore (g.eval p)) :=
      okN_mono (okN_heuristic (hev p).1 (hev p).2) (by omega)
    obtain ⟨_, ha1, ra1⟩ := raise_spec ha hsc
    rw [← scoreMax_eq] at ha1 ra1
    have hperm := ABHeap.heapOrder_perm (g.moves p) (ex p).prio
    rw [quiesceLoop_eq g ex _ p b _ _ []] at hr
    obtain ⟨hm, _, hpost⟩ := abLoop_tt (g := g) (ex := ex) (p := p) IH (by omega) (b := b)
      (heapOrder (g.moves p) (ex p).prio) (fun _ _ _ _ _ => trivial)
      (Score.max a (heuristicScore (g.eval p))) [] false
      { tick st with nodes := (tick st).nodes + 1 } hinv (fun _ => ⟨ha1, hb⟩) _ rfl
    generalize abLoop g ex (wrapQ (quiesce g ex fuel)) p b (heapOrder (g.moves p) (ex p).prio)
      (Score.max a (heuristicScore (g.eval p))) [] false
      { tick st with nodes := (tick st).nodes + 1 } = res at hr hm hpost
    simp only [projQ] at hr
    have hlres : Live res.2.2.2.2 := by
      by_cases hh : (!res.2.2.1) = true
      · simp only [hh, if_true] at hr; subst hr; exact hlive
      · simp only [hh, Bool.false_eq_true, if_false] at hr; subst hr; exact hlive
    obtain ⟨h2, h3, h4, h5, h6, _, _⟩ := hpost hlres
    rw [legalAny_perm g p hperm, Bool.false_or] at h4
    rw [maxR_perm (kidsR_perm g ex p (Q g ex fuel) hperm)] at h5 h6
    by_cases hl : legalAny g p (g.moves p) = true
    · rw [hl] at h4
      simp only [h4, Bool.not_true, Bool.false_eq_true, if_false] at hr
      subst hr
      have rQ := rank_Q_succ hev ex fuel p (by omega) hd' hl
      rw [ra1, maxR_max, ← rQ] at h5 h6
      have hge := maxR_ge (kidsR g ex p (Q g ex fuel) (g.moves p)) (rank (heuristicScore (g.eval p)))
      rw [← rQ] at hge
      rw [ra1] at h3
      refine ⟨h2, Or.inr (by dsimp only; omega), ?_⟩
      intro hab
      have Nb := okN_rankN hb
      have Na := okN_rankN ha
      unfold rankN at Na Nb
      dsimp only
      by_cases hp : Max.max (rank a) (rank (heuristicScore (g.eval p))) < rank b
      · have := h5 hp
        unfold Clip; omega
      · have := h6 (by omega) (by omega)
        unfold Clip; omega
    · have hl' : legalAny g p (g.moves p) = false := by simpa using hl
      rw [hl'] at h4
      simp only [h4, Bool.not_false, if_true] at hr
      subst hr
      have : Q g ex (fuel + 1) p = terminal g p := by simp [Q, hd', hl']
      rw [this]
      exact ⟨okN_mono (okN_terminal g p) (by omega), Or.inl rfl, fun _ => clip_self _ _ _⟩

/-- Node contract of `quiesce` under any table invariant and with cancellation. -/
theorem quiesce_recTT {g : Game P} (hev : EvalOk g) (ex : P → Explore) (Inv : TTState → Prop) (K : Nat) :
    ∀ fuel, K + fuel ≤ 127 →
      RecTT Inv (fun _ => True) (K + fuel) (Q g ex fuel) (fun _ _ _ => True) (wrapQ (quiesce g ex fuel)) := by
  intro fuel
  induction fuel with
  | zero =>
    intro _
    refine ⟨fun c => okN_mono okN_zero (by omega), ?_⟩
    intro c a b st _ hinv _
    have hs := quiesce_same g ex 0 c a b st
    refine ⟨hs.2, by simp only [wrapQ]; rw [hs.1]; exact hinv, fun _ => ?_⟩
    simp only [wrapQ, quiesce, Q]
    exact ⟨okN_mono okN_zero (by omega), Or.inl trivial, fun _ => clip_self _ _ _, trivial⟩
  | succ fuel ih =>
    intro hf
    have IH := ih (by omega)
    refine ⟨fun c => okN_mono (Q_ok hev ex (fuel + 1) c (by omega)) (by omega), ?_⟩
    intro p a b st _ hinv hab
    have hs := quiesce_same g ex (fuel + 1) p a b st
    refine ⟨hs.2, by simp only [wrapQ]; rw [hs.1]; exact hinv, fun hlive => ?_⟩
    simp only [wrapQ] at hlive ⊢
    obtain ⟨ha, hb⟩ := hab (hs.2.live hlive)
    obtain ⟨h1, h2, h3⟩ := quiesce_succ_tt hev ex K fuel (by omega) IH p a b st hinv ha hb _ rfl hlive
    exact ⟨h1, h2, h3, trivial⟩

end Morlock.Proofs.AB
