import Morlock.Model.Minimax
import Morlock.Proofs.ABTTSearch
import Morlock.Proofs.DetState
/-!
# Halting, the rest (helper for `Props/C12More.lean`): `Minimax`, and the follow-up search on an untouched table

## `runMinimax.search` (`Model.minimax`, `Model.mmLoop`) and `Minimax.Search` (`Model.minimaxSearch`)

The Go code polls the context exactly ONCE per visited node (at node entry, right after `nodes++`); a node that sees
"cancelled" answers `ZeroScore, nil` at once, its ancestors keep iterating over their remaining moves (each of those
children polls once and answers at once) - so a cancelled run still *returns a score* from `search`; it is the extra
poll in `Minimax.Search` that turns it into `ErrHalted`. There is no table.

`mmNodes g ex d p` is the number of nodes an undisturbed run visits. `minimax_spec`: by induction on the depth, for
every exploration `ex` that picks every move (`V'` depends on `ex` only through `pick`),
* whatever the cancellation instant: `cancelAt`, the table and the fuel flag are untouched, the number of polls made
  equals the number of nodes counted, it is at least 1 and at most `mmNodes`;
* if the run is live at its end (no poll reported "cancelled"): exactly `mmNodes` polls, the score is the plain
  negamax value `V'` (no root exception for draws: `runMinimax.search` tests the draw at the root as well) with the
  static leaf, and the PV is principal for `V'` (`Principal'`).
-/
namespace Morlock.Proofs.AB
open Morlock Morlock.Model Morlock.Model.Score Morlock.Spec
open Morlock.Props.C09
variable {P : Type}

/-! ## state bookkeeping -/

/-- What a run of `minimax` (a node, or a move loop) does to the search state, whatever the cancellation instant;
    `N` bounds the number of polls. -/
structure MMFrame (st st' : SState) (N : Nat) : Prop where
  cancelAt : st'.cancelAt = st.cancelAt
  tt : st'.tt = st.tt
  fuelOut : st'.fuelOut = st.fuelOut
  /-- one poll per node counted -/
  count : st'.polls + st.nodes = st'.nodes + st.polls
  lo : st.polls ≤ st'.polls
  hi : st'.polls ≤ st.polls + N

theorem MMFrame.refl (st : SState) : MMFrame st st 0 :=
  ⟨rfl, rfl, rfl, Nat.add_comm _ _, Nat.le_refl _, Nat.le_refl _⟩

theorem MMFrame.trans {s1 s2 s3 : SState} {N1 N2 : Nat} (h1 : MMFrame s1 s2 N1) (h2 : MMFrame s2 s3 N2) :
    MMFrame s1 s3 (N1 + N2) := by
  obtain ⟨a1, a2, a3, a4, a5, a6⟩ := h1
  obtain ⟨b1, b2, b3, b4, b5, b6⟩ := h2
  exact ⟨b1.trans a1, b2.trans a2, b3.trans a3, by omega, by omega, by omega⟩

theorem MMFrame.weaken {s1 s2 : SState} {N N' : Nat} (h : MMFrame s1 s2 N) (hN : N ≤ N') : MMFrame s1 s2 N' :=
  ⟨h.cancelAt, h.tt, h.fuelOut, h.count, h.lo, Nat.le_trans h.hi (by omega)⟩

theorem MMFrame.mono {s1 s2 : SState} {N : Nat} (h : MMFrame s1 s2 N) : Mono s1 s2 := ⟨h.cancelAt, h.lo⟩

/-- The state after `nodes++` and the poll at node entry. -/
def enter (st : SState) : SState := tick { st with nodes := st.nodes + 1 }

theorem frame_enter (st : SState) : MMFrame st (enter st) 1 := by
  refine ⟨rfl, rfl, rfl, ?_, ?_, ?_⟩ <;> simp only [enter, tick] <;> omega

theorem enter_polls (st : SState) : (enter st).polls = st.polls + 1 := rfl

/-! ## equations -/

theorem minimax_zero (g : Game P) (p : P) (st : SState) :
    minimax g 0 p st =
      if cancelled { st with nodes := st.nodes + 1 } then (zeroScore, [], enter st)
      else if g.isDraw p then (zeroScore, [], enter st)
      else (heuristicScore (g.eval p), [], enter st) := by
  simp only [minimax, poll_eq, enter]
  rfl

theorem minimax_succ (g : Game P) (d : Nat) (p : P) (st : SState) :
    minimax g (d + 1) p st =
      if cancelled { st with nodes := st.nodes + 1 } then (zeroScore, [], enter st)
      else if g.isDraw p then (zeroScore, [], enter st)
      else
        let r := mmLoop g (minimax g d) p (g.moves p) negInfScore [] false (enter st)
        if !r.2.2.1 then (terminal g p, [], r.2.2.2) else (r.1, r.2.1, r.2.2.2) := by
  simp only [minimax, poll_eq, enter, terminal]
  rfl

theorem mmLoop_nil {g : Game P} {rec : P → SState → Score × List Move × SState} {p : P} {s : Score}
    {pv : List Move} {hl : Bool} {st : SState} : mmLoop g rec p [] s pv hl st = (s, pv, hl, st) := rfl

theorem mmLoop_none {g : Game P} {rec : P → SState → Score × List Move × SState} {p : P} {m : Move}
    {rest : List Move} {s : Score} {pv : List Move} {hl : Bool} {st : SState} (h : g.push p m = none) :
    mmLoop g rec p (m :: rest) s pv hl st = mmLoop g rec p rest s pv hl st := by
  simp only [mmLoop, h]

theorem mmLoop_some {g : Game P} {rec : P → SState → Score × List Move × SState} {p : P} {m : Move}
    {rest : List Move} {s : Score} {pv : List Move} {hl : Bool} {st : SState} {c : P} (h : g.push p m = some c) :
    mmLoop g rec p (m :: rest) s pv hl st =
      mmLoop g rec p rest (Score.max s (lift (rec c st).1))
        (if s.less (lift (rec c st).1) then m :: (rec c st).2.1 else pv) true (rec c st).2.2 := by
  simp only [mmLoop, h, lift, scoreMax_eq]
  split <;> simp [*]

/-! ## reference: node count, principal variations for `V'` -/

/-- Number of nodes an undisturbed `runMinimax.search` visits: 1 at depth 0 and at a drawn position, otherwise
    1 + the nodes below the legal children. (= the number of times the context is polled.) -/
def mmNodes (g : Game P) (ex : P → Explore) : Nat → P → Nat
  | 0, _ => 1
  | d + 1, p => if g.isDraw p then 1 else 1 + ((kids g ex p (g.moves p)).map (mmNodes g ex d)).sum

theorem mmNodes_pos (g : Game P) (ex : P → Explore) (d : Nat) (p : P) : 1 ≤ mmNodes g ex d p := by
  cases d with
  | zero => simp [mmNodes]
  | succ d => simp only [mmNodes]; split <;> omega

/-- `Principal` for the position-determined value `V'` (no root exception); the moves are generated moves. -/
def Principal' (g : Game P) (ex : P → Explore) (le : LeafEval P) : Nat → P → List Move → Prop
  | _, _, [] => True
  | 0, _, _ :: _ => False
  | n + 1, p, m :: rest => ∃ c, g.push p m = some c ∧ (ex p).pick m = true ∧ m ∈ g.moves p ∧
      lift (V' g ex le n c) = V' g ex le (n + 1) p ∧ Principal' g ex le n c rest

/-- On a region without a drawn position at the root ply, `V = V'`, so `Principal'` is `Principal`. -/
theorem principal_of_principal' {g : Game P} {ex : P → Explore} {le : LeafEval P} {R : Nat → P → Prop} {r : Int}
    (hcl : Closed g ex R) (hrf : RootFreeOn g R r) :
    ∀ (pv : List Move) (n : Nat) (p : P), R n p → Principal' g ex le n p pv → Principal g ex le r n p pv := by
  intro pv
  induction pv with
  | nil => intro n p _ _; cases n <;> trivial
  | cons m rest ih =>
    intro n p hp h
    cases n with
    | zero => exact h.elim
    | succ n =>
      obtain ⟨c, hpush, hpick, hmem, heq, hrest⟩ := h
      have hc : R n c := hcl n p m c hp hmem hpick hpush
      refine ⟨c, hpush, hpick, ?_, ih n c hc hrest⟩
      rw [V_eq_V'_on ex le hcl hrf n c hc, V_eq_V'_on ex le hcl hrf (n + 1) p hp]
      exact heq

theorem kids_full_none {g : Game P} {ex : P → Explore} {p : P} {m : Move} {rest : List Move}
    (h : g.push p m = none) : kids g ex p (m :: rest) = kids g ex p rest := by
  simp [kids, h]

theorem kids_full_some {g : Game P} {ex : P → Explore} (hfull : ∀ p m, (ex p).pick m = true) {p : P} {m : Move}
    {rest : List Move} {c : P} (h : g.push p m = some c) : kids g ex p (m :: rest) = c :: kids g ex p rest := by
  simp [kids, h, hfull]

/-! ## the move loop -/

/-- The contract of the recursive call: `N c` nodes below `c`, value `vc c`, PV predicate `pvc c`. -/
structure MMRecOK (N : P → Nat) (vc : P → Score) (pvc : P → List Move → Prop)
    (rec : P → SState → Score × List Move × SState) : Prop where
  frame : ∀ c st, MMFrame st (rec c st).2.2 (N c)
  live : ∀ c st, Live (rec c st).2.2 →
    (rec c st).2.2.polls = st.polls + N c ∧ (rec c st).1 = vc c ∧ pvc c (rec c st).2.1

/-- Loop invariant of `mmLoop` over an arbitrary move list. -/
theorem mmLoop_spec {g : Game P} {ex : P → Explore} (hfull : ∀ p m, (ex p).pick m = true) {N : P → Nat}
    {vc : P → Score} {pvc : P → List Move → Prop} {rec : P → SState → Score × List Move × SState}
    (H : MMRecOK N vc pvc rec) (p : P) :
    ∀ (l : List Move) (s : Score) (pv : List Move) (hl : Bool) (st : SState),
    ∀ res, mmLoop g rec p l s pv hl st = res →
      MMFrame st res.2.2.2 (((kids g ex p l).map N).sum) ∧
      res.2.2.1 = (hl || legalAny g p l) ∧
      (Live res.2.2.2 →
        res.2.2.2.polls = st.polls + ((kids g ex p l).map N).sum ∧
        res.1 = ((kids g ex p l).map fun c => lift (vc c)).foldl Score.max s ∧
        ((res.2.1 = pv ∧ res.1 = s) ∨
          ∃ m c rem, m ∈ l ∧ g.push p m = some c ∧ res.2.1 = m :: rem ∧ res.1 = lift (vc c) ∧ pvc c rem)) := by
  intro l
  induction l with
  | nil =>
    intro s pv hl st res hres
    rw [mmLoop_nil] at hres
    subst hres
    simp [kids, legalAny, MMFrame.refl]
  | cons m rest ih =>
    intro s pv hl st res hres
    cases hpush : g.push p m with
    | none =>
      rw [mmLoop_none hpush] at hres
      obtain ⟨h1, h2, h3⟩ := ih s pv hl st res hres
      rw [kids_full_none hpush, legalAny_cons, hpush]
      refine ⟨h1, by simpa using h2, fun hlive => ?_⟩
      obtain ⟨q1, q2, q3⟩ := h3 hlive
      refine ⟨q1, q2, ?_⟩
      rcases q3 with q3 | ⟨m', c, rem, e1, e2⟩
      · exact Or.inl q3
      · exact Or.inr ⟨m', c, rem, List.mem_cons_of_mem _ e1, e2⟩
    | some c =>
      rw [mmLoop_some hpush] at hres
      have hf := H.frame c st
      have hlv := H.live c st
      generalize rec c st = r at hres hf hlv
      obtain ⟨h1, h2, h3⟩ := ih _ _ true r.2.2 res hres
      rw [kids_full_some hfull hpush, legalAny_cons, hpush]
      simp only [List.map_cons, List.sum_cons, List.foldl_cons, Option.isSome_some, Bool.true_or, Bool.or_true]
      refine ⟨hf.trans h1, by simpa using h2, fun hlive => ?_⟩
      obtain ⟨r1, r2, r3⟩ := hlv (h1.mono.live hlive)
      obtain ⟨q1, q2, q3⟩ := h3 hlive
      rw [r2] at q2 q3
      refine ⟨by omega, q2, ?_⟩
      rcases q3 with ⟨e1, e2⟩ | ⟨m', c', rem, e1, e2⟩
      · by_cases hless : s.less (lift (vc c)) = true
        · right
          refine ⟨m, c, r.2.1, List.mem_cons_self, hpush, ?_, ?_, r3⟩
          · rw [e1, if_pos hless]
          · rw [e2, scoreMax_eq, if_pos hless]
        · left
          refine ⟨?_, ?_⟩
          · rw [e1, if_neg hless]
          · rw [e2, scoreMax_eq, if_neg hless]
      · exact Or.inr ⟨m', c', rem, List.mem_cons_of_mem _ e1, e2⟩

/-! ## the node -/

/-- What `minimax` promises at one node (see the header). -/
def MMNodeOK (g : Game P) (ex : P → Explore) (d : Nat) (p : P) (st : SState) (r : Score × List Move × SState) : Prop :=
  MMFrame st r.2.2 (mmNodes g ex d p) ∧ st.polls + 1 ≤ r.2.2.polls ∧
  (Live r.2.2 →
    r.2.2.polls = st.polls + mmNodes g ex d p ∧
    r.1 = V' g ex .static d p ∧
    Principal' g ex .static d p r.2.1 ∧
    (r.2.1 = [] → ∀ d', d = d' + 1 → g.isDraw p = false → legalAny g p (g.moves p) = true → r.1 = negInfScore))

theorem principal'_nil (g : Game P) (ex : P → Explore) (le : LeafEval P) (n : Nat) (p : P) :
    Principal' g ex le n p [] := by cases n <;> trivial

/-- A node that answers at once: cancelled at entry, drawn, or a leaf. -/
theorem mmNodeOK_enter {g : Game P} {ex : P → Explore} {d : Nat} {p : P} {st : SState} {s : Score}
    (hN : g.isDraw p = true ∨ d = 0 ∨ cancelled { st with nodes := st.nodes + 1 } = true)
    (hs : cancelled { st with nodes := st.nodes + 1 } = false → s = V' g ex .static d p) :
    MMNodeOK g ex d p st (s, [], enter st) := by
  refine ⟨(frame_enter st).weaken (mmNodes_pos g ex d p), Nat.le_of_eq (enter_polls st).symm, fun hlive => ?_⟩
  have hc : cancelled { st with nodes := st.nodes + 1 } = false := (cancelled_false_iff _).2 hlive
  have hn : mmNodes g ex d p = 1 := by
    rcases hN with h | h | h
    · cases d with
      | zero => rfl
      | succ d => simp [mmNodes, h]
    · subst h; rfl
    · rw [hc] at h; cases h
  refine ⟨by rw [enter_polls, hn], hs hc, principal'_nil _ _ _ _ _, ?_⟩
  intro _ d' hd hdraw hl
  rcases hN with h | h | h
  · rw [hdraw] at h; cases h
  · omega
  · rw [hc] at h; cases h

/-- **`runMinimax.search`, by induction on the depth.** -/
theorem minimax_spec (g : Game P) (ex : P → Explore) (hfull : ∀ p m, (ex p).pick m = true) :
    ∀ (d : Nat) (p : P) (st : SState), MMNodeOK g ex d p st (minimax g d p st) := by
  intro d
  induction d with
  | zero =>
    intro p st
    rw [minimax_zero]
    by_cases hc : cancelled { st with nodes := st.nodes + 1 } = true
    · rw [if_pos hc]
      exact mmNodeOK_enter (Or.inr (Or.inr hc)) (fun h => by rw [hc] at h; cases h)
    · rw [if_neg hc]
      by_cases hd : g.isDraw p = true
      · rw [if_pos hd]
        exact mmNodeOK_enter (Or.inl hd) (fun _ => by simp [V', hd])
      · rw [if_neg hd]
        exact mmNodeOK_enter (Or.inr (Or.inl rfl)) (fun _ => by simp [V', hd, leafV])
  | succ d ih =>
    intro p st
    rw [minimax_succ]
    by_cases hc : cancelled { st with nodes := st.nodes + 1 } = true
    · rw [if_pos hc]
      exact mmNodeOK_enter (Or.inr (Or.inr hc)) (fun h => by rw [hc] at h; cases h)
    · rw [if_neg hc]
      by_cases hd : g.isDraw p = true
      · rw [if_pos hd]
        exact mmNodeOK_enter (Or.inl hd) (fun _ => by simp [V', hd])
      · rw [if_neg hd]
        have hd' : g.isDraw p = false := by simpa using hd
        have H : MMRecOK (mmNodes g ex d) (V' g ex .static d) (Principal' g ex .static d) (minimax g d) :=
          ⟨fun c st => (ih c st).1, fun c st hl => ⟨((ih c st).2.2 hl).1, ((ih c st).2.2 hl).2.1, ((ih c st).2.2 hl).2.2.1⟩⟩
        obtain ⟨h1, h2, h3⟩ := mmLoop_spec (g := g) hfull H p (g.moves p) negInfScore [] false (enter st) _ rfl
        generalize mmLoop g (minimax g d) p (g.moves p) negInfScore [] false (enter st) = r at h1 h2 h3
        have hN : mmNodes g ex (d + 1) p = 1 + ((kids g ex p (g.moves p)).map (mmNodes g ex d)).sum := by
          simp [mmNodes, hd']
        have hframe : MMFrame st r.2.2.2 (mmNodes g ex (d + 1) p) := by
          rw [hN]; exact (frame_enter st).trans h1
        have hlo : st.polls + 1 ≤ r.2.2.2.polls := by have := h1.lo; rw [enter_polls] at this; exact this
        rw [Bool.false_or] at h2
        dsimp only
        by_cases hl : r.2.2.1 = true
        · have hif : (!r.2.2.1) = false := by rw [hl]; rfl
          rw [hif]
          simp only [Bool.false_eq_true, if_false]
          refine ⟨hframe, hlo, fun hlive => ?_⟩
          obtain ⟨q1, q2, q3⟩ := h3 hlive
          have hla : legalAny g p (g.moves p) = true := by rw [← h2]; exact hl
          have hV : V' g ex .static (d + 1) p =
              ((kids g ex p (g.moves p)).map fun c => lift (V' g ex .static d c)).foldl Score.max negInfScore := by
            simp [V', hd', hla]
          refine ⟨by rw [q1, hN, enter_polls]; omega, by rw [q2, hV], ?_, ?_⟩
          · rcases q3 with ⟨e1, _⟩ | ⟨m, c, rem, e1, e2, e3, e4, e5⟩
            · rw [e1]; exact principal'_nil _ _ _ _ _
            · rw [e3]
              exact ⟨c, e2, hfull p m, e1, by rw [← e4, q2, hV], e5⟩
          · intro hnil _ _ _ _
            rcases q3 with ⟨_, e2⟩ | ⟨m, c, rem, _, _, e3, _⟩
            · exact e2
            · rw [e3] at hnil; cases hnil
        · have hl' : r.2.2.1 = false := by simpa using hl
          have hif : (!r.2.2.1) = true := by rw [hl']; rfl
          rw [hif]
          simp only [if_true]
          refine ⟨hframe, hlo, fun hlive => ?_⟩
          obtain ⟨q1, _, _⟩ := h3 hlive
          have hla : legalAny g p (g.moves p) = false := by rw [← h2]; exact hl'
          refine ⟨by rw [q1, hN, enter_polls]; omega, by simp [V', hd', hla], principal'_nil _ _ _ _ _, ?_⟩
          intro _ _ _ _ h
          rw [hla] at h; cases h

/-! ## `Minimax.Search` -/

theorem minimaxSearch_eq (g : Game P) (p : P) (d : Nat) (st : SState) :
    minimaxSearch g p d st =
      if cancelled (minimax g d p { st with nodes := 0 }).2.2 then
        (none, tick (minimax g d p { st with nodes := 0 }).2.2)
      else (some ⟨(minimax g d p { st with nodes := 0 }).2.2.nodes, (minimax g d p { st with nodes := 0 }).1,
          (minimax g d p { st with nodes := 0 }).2.1⟩, tick (minimax g d p { st with nodes := 0 }).2.2) := by
  simp only [minimaxSearch, poll_eq]
  rfl

/-- `Minimax.Search`, with any cancellation. -/
theorem minimaxSearch_spec (g : Game P) (ex : P → Explore) (hfull : ∀ p m, (ex p).pick m = true) (p : P) (d : Nat)
    (st : SState) :
    (minimaxSearch g p d st).2.cancelAt = st.cancelAt ∧ (minimaxSearch g p d st).2.tt = st.tt ∧
    (minimaxSearch g p d st).2.fuelOut = st.fuelOut ∧
    (minimaxSearch g p d st).2.polls = (minimaxSearch g p d st).2.nodes + st.polls + 1 ∧
    st.polls + 2 ≤ (minimaxSearch g p d st).2.polls ∧
    (minimaxSearch g p d st).2.polls ≤ st.polls + mmNodes g ex d p + 1 ∧
    ((minimaxSearch g p d st).1 = none ↔ ¬ Live (minimaxSearch g p d st).2) ∧
    (Live (minimaxSearch g p d st).2 →
      (minimaxSearch g p d st).2.polls = st.polls + mmNodes g ex d p + 1 ∧
      ∃ pv, (minimaxSearch g p d st).1 = some ⟨mmNodes g ex d p, V' g ex .static d p, pv⟩ ∧
        Principal' g ex .static d p pv ∧
        (∀ d', d = d' + 1 → g.isDraw p = false → legalAny g p (g.moves p) = true →
          V' g ex .static d p ≠ negInfScore → pv ≠ [])) := by
  obtain ⟨h1, h2, h3⟩ := minimax_spec g ex hfull d p { st with nodes := 0 }
  rw [minimaxSearch_eq]
  generalize minimax g d p { st with nodes := 0 } = r at h1 h2 h3
  obtain ⟨a1, a2, a3, a4, a5, a6⟩ := h1
  simp only at a1 a2 a3 a4 a5 a6 h2
  by_cases hc : cancelled r.2.2 = true
  · rw [if_pos hc]
    have hnl := not_live_of_cancelled hc
    refine ⟨a1, a2, a3, ?_, ?_, ?_, ⟨fun _ => hnl, fun _ => rfl⟩, fun hl => absurd hl hnl⟩ <;>
      simp only [tick] <;> omega
  · rw [if_neg hc]
    have hc' : cancelled r.2.2 = false := by simpa using hc
    have hlive : Live (tick r.2.2) := (cancelled_false_iff _).1 hc'
    obtain ⟨q1, q2, q3, q4⟩ := h3 ((mono_tick _).live hlive)
    simp only at q1
    refine ⟨a1, a2, a3, ?_, ?_, ?_, ⟨fun h => (by cases h), fun h => absurd hlive h⟩, fun _ => ⟨?_, r.2.1, ?_, q3, ?_⟩⟩
    · simp only [tick]; omega
    · simp only [tick]; omega
    · simp only [tick]; omega
    · simp only [tick]; omega
    · have : r.2.2.nodes = mmNodes g ex d p := by omega
      rw [this, q2]
    · intro d' hd hdraw hl hne hnil
      exact hne (by rw [← q2]; exact q4 hnil d' hd hdraw hl)

/-! ## The follow-up search when the halted search left the table as it was -/

/-- A search whose very first poll reports "cancelled" does nothing but poll. -/
theorem alphabeta_cancelled_at_once (g : Game P) (ex : P → Explore) (le : LeafEval P) (rootPly : Int) (d : Nat) (p : P)
    (a b : Score) (st : SState) (hc : cancelled st = true) :
    alphabeta g ex le rootPly d p a b st = (invalidScore, [], tick st) := by
  cases d with
  | zero => rw [alphabeta_zero_eq]; simp only [abEnter, poll_eq, hc, if_true]
  | succ d => rw [alphabeta_succ_eq]; simp only [abEnter, poll_eq, hc, if_true]

/-- `AlphaBeta.Search` on a context that is already cancelled leaves the table exactly as it was. -/
theorem alphaBetaSearch_cancelled_at_once_tt (g : Game P) (ex : P → Explore) (le : LeafEval P) (p : P) (d : Nat)
    (st : SState) (k : Nat) (hk : st.cancelAt = some k) (hle : k ≤ st.polls + 1) :
    (alphaBetaSearch g ex le p d invalidScore invalidScore st).2.tt = st.tt := by
  have hc : cancelled ({ st with nodes := 0 } : SState) = true := by
    simp only [cancelled, poll, hk, decide_eq_true_eq]; exact hle
  rw [alphaBetaSearch_state, alphabeta_cancelled_at_once g ex le _ d p _ _ _ hc]
  rfl

/-- The result of a search without cancellation depends on the incoming state through the table only. -/
theorem alphaBetaSearch_of_tt_eq (g : Game P) (ex : P → Explore) (le : LeafEval P) (p : P) (d : Nat) (a b : Score)
    (s1 s2 : SState) (h1 : s1.cancelAt = none) (h2 : s2.cancelAt = none) (htt : s1.tt = s2.tt) :
    (alphaBetaSearch g ex le p d a b s1).1 = (alphaBetaSearch g ex le p d a b s2).1 := by
  rw [Det.alphaBetaSearch_fresh g ex le p d a b s1 h1, Det.alphaBetaSearch_fresh g ex le p d a b s2 h2, htt]

end Morlock.Proofs.AB
