import Morlock.Model.Fen
/-!
# `fen.Decode` field by field

`decode_of_fields` / `decode_inv`: `decode s = some d` holds exactly when the trimmed line splits into
six fields each of which its reader accepts, the placement cursor ends on `-1`, both clocks are
non-negative and `NewPosition` accepts the placements. Plus the ranges of the values the field
readers can return.
-/
namespace Morlock.Proofs.Fen
open Morlock Morlock.Model Morlock.Model.Fen

theorem decode_of_fields {s p0 p1 p2 p3 p4 p5 : List Char} {pl c cr ep np fm pos}
    (hs : splitSpaces (trimSpace s) = [p0, p1, p2, p3, p4, p5])
    (h0 : placements p0 63 [] = some (-1, pl))
    (h1 : parseColor p1 = some c)
    (h2 : parseCastling p2 = some cr)
    (h3 : (if p3 = ['-'] then some 0 else parseSquareStr p3) = some ep)
    (h4 : atoi p4 = some np) (h4' : 0 ≤ np)
    (h5 : atoi p5 = some fm) (h5' : 0 ≤ fm)
    (h6 : Position.newPosition pl cr ep = some pos) :
    decode s = some ⟨pos, c, np, fm⟩ := by
  unfold decode
  rw [hs]
  have h4'' : ¬ np < 0 := by omega
  have h5'' : ¬ fm < 0 := by omega
  simp only [h0, h1, h2,  h4, h5, Option.bind_eq_bind, Option.bind_some, h4'', h5'', if_false]
  split at h3
  · cases h3; simp [*]
  · simp [*]

theorem decode_inv {s : List Char} {d : Decoded} (h : decode s = some d) :
    ∃ p0 p1 p2 p3 p4 p5 pl cr ep,
      splitSpaces (trimSpace s) = [p0, p1, p2, p3, p4, p5] ∧
      placements p0 63 [] = some (-1, pl) ∧
      parseColor p1 = some d.turn ∧
      parseCastling p2 = some cr ∧
      (if p3 = ['-'] then some 0 else parseSquareStr p3) = some ep ∧
      atoi p4 = some d.noprogress ∧ 0 ≤ d.noprogress ∧
      atoi p5 = some d.fullmoves ∧ 0 ≤ d.fullmoves ∧
      Position.newPosition pl cr ep = some d.pos := by
  unfold decode at h
  split at h
  · rename_i p0 p1 p2 p3 p4 p5 hs
    refine ⟨p0, p1, p2, p3, p4, p5, ?_⟩
    simp only [Option.bind_eq_bind, Option.bind_eq_some_iff] at h
    obtain ⟨⟨sq, pl⟩, h0, h⟩ := h
    split at h
    · simp at h
    · rename_i hsq
      have hsq' : sq = -1 := by simp only [ne_eq, Decidable.not_not] at hsq; omega
      subst hsq'
      simp only [Option.bind_eq_some_iff] at h
      obtain ⟨c, h1, cr, h2, h⟩ := h
      have key : ∀ ep, (if p3 = ['-'] then some 0 else parseSquareStr p3) = some ep →
          ((atoi p4).bind fun np =>
            if np < 0 then
              none.bind fun (__r : PUnit) =>
                (atoi p5).bind fun fm =>
                  if fm < 0 then
                    none.bind fun (__r : PUnit) =>
                      (Position.newPosition pl cr ep).bind fun pos =>
                        pure { pos := pos, turn := c, noprogress := np, fullmoves := fm }
                  else
                    (Position.newPosition pl cr ep).bind fun pos =>
                      pure { pos := pos, turn := c, noprogress := np, fullmoves := fm }
            else
              (atoi p5).bind fun fm =>
                if fm < 0 then
                  none.bind fun (__r : PUnit) =>
                    (Position.newPosition pl cr ep).bind fun pos =>
                      pure { pos := pos, turn := c, noprogress := np, fullmoves := fm }
                else
                  (Position.newPosition pl cr ep).bind fun pos =>
                    pure { pos := pos, turn := c, noprogress := np, fullmoves := fm }) = some d →
          ∃ pl' cr ep,
            splitSpaces (trimSpace s) = [p0, p1, p2, p3, p4, p5] ∧
            placements p0 63 [] = some (-1, pl') ∧
            parseColor p1 = some d.turn ∧
            parseCastling p2 = some cr ∧
            (if p3 = ['-'] then some 0 else parseSquareStr p3) = some ep ∧
            atoi p4 = some d.noprogress ∧ 0 ≤ d.noprogress ∧
            atoi p5 = some d.fullmoves ∧ 0 ≤ d.fullmoves ∧
            Position.newPosition pl' cr ep = some d.pos := by
        intro ep h3 h
        simp only [Option.bind_eq_some_iff] at h
        obtain ⟨np, h4, h⟩ := h
        split at h
        · simp at h
        · rename_i hnp
          simp only [Option.bind_eq_some_iff] at h
          obtain ⟨fm, h5, h⟩ := h
          split at h
          · simp at h
          · rename_i hfm
            simp only [Option.bind_eq_some_iff] at h
            obtain ⟨pos, h6, h⟩ := h
            cases h
            exact ⟨pl, cr, ep, hs, h0, h1, h2, h3, h4, Int.not_lt.mp hnp, h5, Int.not_lt.mp hfm, h6⟩
      split at h
      · rename_i hp3
        simp only [Option.bind_some] at h
        exact key 0 (by rw [if_pos hp3]) h
      · rename_i hp3
        simp only [Option.bind_eq_some_iff] at h
        obtain ⟨ep, h3, h⟩ := h
        exact key ep (by rw [if_neg hp3]; exact h3) (by simpa only [Option.bind_eq_some_iff] using h)
  · cases h

/-! ## Ranges of the parsed values -/

theorem atoi_range {p : List Char} {v : Int} (h : atoi p = some v) :
    -9223372036854775808 ≤ v ∧ v ≤ 9223372036854775807 := by
  unfold atoi at h
  split at h
  rename_i x neg ds heq
  split at h
  · cases h
  · simp only at h
    split at h
    · split at h
      · cases h; omega
      · cases h
    · split at h
      · cases h; omega
      · cases h

theorem castling_step_lt {acc r : Nat} {c : Char} (hacc : acc < 16)
    (h : (match c with
      | 'K' => some (acc ||| wK) | 'Q' => some (acc ||| wQ) | 'k' => some (acc ||| bK) | 'q' => some (acc ||| bQ)
      | _ => none) = some r) : r < 16 := by
  have h16 : ∀ x, x < 16 → acc ||| x < 16 := fun x hx => Nat.or_lt_two_pow (n := 4) hacc hx
  split at h
  · cases h; exact h16 _ (by decide)
  · cases h; exact h16 _ (by decide)
  · cases h; exact h16 _ (by decide)
  · cases h; exact h16 _ (by decide)
  · cases h

theorem castling_foldlM_lt (s : List Char) (acc r : Nat) (hacc : acc < 16)
    (h : s.foldlM (fun acc c =>
      match c with
      | 'K' => some (acc ||| wK) | 'Q' => some (acc ||| wQ) | 'k' => some (acc ||| bK) | 'q' => some (acc ||| bQ)
      | _ => none) acc = some r) : r < 16 := by
  induction s generalizing acc with
  | nil => simp only [List.foldlM_nil] at h; cases h; exact hacc
  | cons c cs ih =>
    simp only [List.foldlM_cons, Option.bind_eq_bind, Option.bind_eq_some_iff] at h
    obtain ⟨a, ha, h⟩ := h
    exact ih a (castling_step_lt hacc ha) h

/-- `parseCastling` only returns sets of the four rights. -/
theorem parseCastling_lt {s : List Char} {r : Nat} (h : parseCastling s = some r) : r < 16 := by
  unfold parseCastling at h
  split at h
  · cases h; decide
  · exact castling_foldlM_lt s 0 r (by decide) h

theorem newSquare_lt (f r : Nat) : newSquare f r < 64 := by
  unfold newSquare
  have h1 : (r &&& 7) <<< 3 < 2 ^ 6 := by
    have : r &&& 7 ≤ 7 := Nat.and_le_right
    rw [Nat.shiftLeft_eq]; omega
  have h2 : f &&& 7 < 2 ^ 6 := by
    have : f &&& 7 ≤ 7 := Nat.and_le_right
    omega
  have := Nat.or_lt_two_pow h1 h2
  omega

theorem parseSquareStr_lt {s : List Char} {sq : Nat} (h : parseSquareStr s = some sq) : sq < 64 := by
  unfold parseSquareStr at h
  split at h
  · unfold parseSquare at h
    simp only [Option.bind_eq_bind, Option.bind_eq_some_iff] at h
    obtain ⟨f, _, r, _, h⟩ := h
    cases h
    exact newSquare_lt f r
  · cases h

theorem epField_lt {p3 : List Char} {ep : Nat}
    (h : (if p3 = ['-'] then some 0 else parseSquareStr p3) = some ep) : ep < 64 := by
  split at h
  · cases h; decide
  · exact parseSquareStr_lt h

end Morlock.Proofs.Fen
