import Morlock.Proofs.GenOfficers
import Morlock.Proofs.GenSym
import Morlock.Proofs.AttackPawns
/-!
# Stage F of C01: `IsAttacked` / `IsChecked` against the reference `attackedBy` / `inCheck`
-/
namespace Morlock.Proofs.Gen
open Morlock Morlock.Model Morlock.Proofs.Attack

/-- Square `sq` is attacked by a piece of colour `opp` standing somewhere on the mailbox board. -/
def Att (b : Board) (opp : Color) (sq : Nat) : Prop :=
  ∃ s k, b s = some (opp, k) ∧
    ((k = .pawn ∧ sq ∈ Spec.pawnTargets (absColor opp) s) ∨
     (k ≠ .pawn ∧ sq ∈ Spec.officerTargets (occB b) (kindOf k) s))

theorem allPiecesList_eq : Position.allPiecesList = [.king, .queen, .rook, .knight, .bishop, .pawn] := by
  decide

/-- The pawn test of `IsAttackedBy`. -/
theorem pawnAttack_iff {p : Position} {b : Board} (h : Rep p b) (opp : Color) {sq : Nat} (hsq : sq < 64) :
    ((pawnCaptureboard opp (p.pieces opp .pawn) &&& bitMask sq) != 0) = true ↔
      ∃ s, b s = some (opp, .pawn) ∧ sq ∈ Spec.pawnTargets (absColor opp) s := by
  rw [bitMask_lt hsq, and_two_pow_ne_zero, pawnSet_testBit opp _ sq (h.piecesLt opp .pawn)]
  constructor
  · rintro ⟨s, hs, hbit, hm⟩
    rw [h.one opp .pawn s (by simp) hs, decide_eq_true_eq] at hbit
    exact ⟨s, hbit, hm⟩
  · rintro ⟨s, hb, hm⟩
    have hs := h.lt_of_some hb
    exact ⟨s, hs, by rw [h.one opp .pawn s (by simp) hs, decide_eq_true_eq]; exact hb, hm⟩

/-- The officer test of `IsAttackedBy`: look from the target square, then use symmetry. -/
theorem officerAttack_iff {p : Position} {b : Board} (h : Rep p b) (opp : Color) {sq : Nat} (hsq : sq < 64)
    {piece : Piece} (hp : piece ≠ .none) (hpw : piece ≠ .pawn) :
    (p.pieces opp piece != 0 && ((attackboard p.rotated sq piece).getD 0 &&& p.pieces opp piece) != 0) = true ↔
      ∃ s, b s = some (opp, piece) ∧ sq ∈ Spec.officerTargets (occB b) (kindOf piece) s := by
  rw [attackboard_of_rep h hsq hp hpw, Option.getD_some, Bool.and_eq_true, and_ne_zero_iff]
  simp only [testBit_toBB]
  constructor
  · rintro ⟨_, t, ht, hbit⟩
    have ht64 := officerTargets_lt _ _ _ _ ht
    rw [h.one opp piece t hp ht64, decide_eq_true_eq] at hbit
    exact ⟨t, hbit, officerTargets_symm hsq ht⟩
  · rintro ⟨s, hb, hm⟩
    have hs := h.lt_of_some hb
    have hbit : (p.pieces opp piece).testBit s = true := by
      rw [h.one opp piece s hp hs, decide_eq_true_eq]; exact hb
    refine ⟨?_, s, officerTargets_symm hs hm, hbit⟩
    rw [bne_iff_ne]
    intro e; rw [e] at hbit; simp at hbit

/-- The model's `IsAttacked`, on the mailbox board. -/
theorem isAttacked_iff_att {p : Position} {b : Board} (h : Rep p b) (c : Color) {sq : Nat} (hsq : sq < 64) :
    p.isAttacked c sq = true ↔ Att b c.opp sq := by
  unfold Position.isAttacked Position.isAttackedBy Att
  rw [allPiecesList_eq]
  simp only [List.any_cons, List.any_nil, Bool.or_false, Bool.or_eq_true, reduceCtorEq, if_false, if_true]
  rw [officerAttack_iff h c.opp hsq (by simp) (by simp), officerAttack_iff h c.opp hsq (by simp) (by simp),
    officerAttack_iff h c.opp hsq (by simp) (by simp), officerAttack_iff h c.opp hsq (by simp) (by simp),
    officerAttack_iff h c.opp hsq (by simp) (by simp), pawnAttack_iff h c.opp hsq]
  constructor
  · rintro (⟨s, hb, hm⟩ | ⟨s, hb, hm⟩ | ⟨s, hb, hm⟩ | ⟨s, hb, hm⟩ | ⟨s, hb, hm⟩ | ⟨s, hb, hm⟩)
    · exact ⟨s, _, hb, Or.inr ⟨by simp, hm⟩⟩
    · exact ⟨s, _, hb, Or.inr ⟨by simp, hm⟩⟩
    · exact ⟨s, _, hb, Or.inr ⟨by simp, hm⟩⟩
    · exact ⟨s, _, hb, Or.inr ⟨by simp, hm⟩⟩
    · exact ⟨s, _, hb, Or.inr ⟨by simp, hm⟩⟩
    · exact ⟨s, _, hb, Or.inl ⟨rfl, hm⟩⟩
  · rintro ⟨s, k, hb, hk⟩
    have hne := h.ne_none_of_some hb
    rcases hk with ⟨rfl, hm⟩ | ⟨hpw, hm⟩
    · exact Or.inr (Or.inr (Or.inr (Or.inr (Or.inr ⟨s, hb, hm⟩))))
    · cases k
      · exact absurd rfl hne
      · exact absurd rfl hpw
      · exact Or.inr (Or.inr (Or.inr (Or.inr (Or.inl ⟨s, hb, hm⟩))))
      · exact Or.inr (Or.inr (Or.inr (Or.inl ⟨s, hb, hm⟩)))
      · exact Or.inr (Or.inr (Or.inl ⟨s, hb, hm⟩))
      · exact Or.inr (Or.inl ⟨s, hb, hm⟩)
      · exact Or.inl ⟨s, hb, hm⟩

/-- The reference `attackedBy`, on the mailbox board. -/
theorem attackedBy_iff_att {p : Position} {b : Board} (h : Rep p b) (turn opp : Color) (sq : Nat) :
    Spec.attackedBy (abs p turn) (absColor opp) sq = true ↔ Att b opp sq := by
  unfold Spec.attackedBy Att
  simp only [List.any_eq_true, Spec.allSquares, List.mem_range]
  constructor
  · rintro ⟨s, hs, hm⟩
    cases hat : (abs p turn).at s with
    | none => rw [hat] at hm; cases hm
    | some x =>
      obtain ⟨c', K⟩ := x
      rw [hat] at hm
      simp only [Bool.and_eq_true, decide_eq_true_eq] at hm
      obtain ⟨hc, hm⟩ := hm
      subst hc
      have hb := (h.abs_at_iff turn s opp K).mp hat
      refine ⟨s, kindPiece K, hb, ?_⟩
      by_cases hK : K = .pawn
      · subst hK
        left
        refine ⟨rfl, ?_⟩
        simpa using hm
      · right
        rw [if_neg hK, h.abs_occ] at hm
        refine ⟨by cases K <;> simp [kindPiece] at hK ⊢, ?_⟩
        rw [kindOf_kindPiece]
        simpa using hm
  · rintro ⟨s, k, hb, hk⟩
    have hne := h.ne_none_of_some hb
    have hs := h.lt_of_some hb
    have hat : (abs p turn).at s = some (absColor opp, kindOf k) :=
      (h.abs_at_iff turn s opp (kindOf k)).mpr (by rw [kindPiece_kindOf hne]; exact hb)
    refine ⟨s, hs, ?_⟩
    rw [hat]
    simp only [decide_true, Bool.true_and]
    rcases hk with ⟨rfl, hm⟩ | ⟨hpw, hm⟩
    · simpa [kindOf] using hm
    · have : kindOf k ≠ .pawn := by cases k <;> simp [kindOf] at hne hpw ⊢
      rw [if_neg this, h.abs_occ]
      simpa using hm

/-- **Stage F.** `IsAttacked(c, sq)` is the reference "`sq` is attacked by the opponent of `c`". -/
theorem isAttacked_eq {p : Position} {b : Board} (h : Rep p b) (turn c : Color) {sq : Nat} (hsq : sq < 64) :
    p.isAttacked c sq = Spec.attackedBy (abs p turn) (absColor c.opp) sq := by
  rw [Bool.eq_iff_iff, isAttacked_iff_att h c hsq, attackedBy_iff_att h turn c.opp sq]

/-- The reference finds the same king square as `lastPopSquare` on the king bitboard. -/
theorem kingSquare?_eq {p : Position} {b : Board} (h : Rep p b) (turn c : Color) :
    Spec.kingSquare? (abs p turn) (absColor c) =
      if p.pieces c .king = 0 then none else some (lastPopSquare (p.pieces c .king)) := by
  unfold Spec.kingSquare?
  have hpred : ∀ s, decide ((abs p turn).at s = some (absColor c, Spec.Kind.king)) =
      decide (b s = some (c, Piece.king)) := by
    intro s
    have := h.abs_at_iff turn s c .king
    simp only [kindPiece] at this
    exact decide_eq_decide.mpr this
  simp only [hpred]
  by_cases h0 : p.pieces c .king = 0
  · rw [if_pos h0, List.find?_eq_none]
    intro s _
    simpa using (king_zero_iff h c).mp h0 s
  · rw [if_neg h0]
    obtain ⟨hk, hlow⟩ := kingSquare_spec h c h0
    have h64 := h.lt_of_some hk
    rw [List.find?_eq_some_iff_append]
    refine ⟨by simpa using hk, List.range (lastPopSquare (p.pieces c .king)),
      (List.range' (lastPopSquare (p.pieces c .king) + 1) (63 - lastPopSquare (p.pieces c .king))), ?_, ?_⟩
    · unfold Spec.allSquares
      have e : 64 = lastPopSquare (p.pieces c .king) + ((63 - lastPopSquare (p.pieces c .king)) + 1) := by omega
      rw [List.range_eq_range', List.range_eq_range']
      conv => lhs; rw [e]
      rw [List.range'_append_1 |>.symm]
      congr 1
      rw [Nat.zero_add, List.range'_succ]
    · intro s hs
      simp only [List.mem_range] at hs
      simpa using hlow s hs

/-- **Stage F.** `IsChecked(c)` is the reference `inCheck`. -/
theorem isChecked_eq {p : Position} {b : Board} (h : Rep p b) (turn c : Color) :
    p.isChecked c = Spec.inCheck (abs p turn) (absColor c) := by
  unfold Position.isChecked Spec.inCheck
  rw [kingSquare?_eq h turn c]
  by_cases h0 : p.pieces c .king = 0
  · rw [if_pos h0]
    simp [h0, lastPopSquare]
  · rw [if_neg h0]
    obtain ⟨h64, _, _⟩ := lastPopSquare_spec h0 (h.piecesLt c .king)
    have hne : (lastPopSquare (p.pieces c .king) != 64) = true := by
      rw [bne_iff_ne]; omega
    simp only [hne, if_true]
    rw [isAttacked_eq h turn c h64, absColor_opp]

end Morlock.Proofs.Gen
