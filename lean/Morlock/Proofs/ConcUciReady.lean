import Morlock.Proofs.ConcUci
/-!
# UCI driver model: every `isready` is answered before the next command is consumed
-/
namespace Morlock.Model.UciConc

/-- (log newest first) the most recent command consumed is `isready` and no `readyok` was sent since -/
def openReady : List Ev → Bool
  | [] => false
  | .consume c :: _ => c == .isready
  | .send .readyok :: _ => false
  | _ :: es => openReady es

/-- (log newest first) whenever a command was consumed, no `isready` was waiting for its `readyok` -/
def ReadyAnswered : List Ev → Prop
  | [] => True
  | .consume _ :: es => openReady es = false ∧ ReadyAnswered es
  | _ :: es => ReadyAnswered es

def Ev.isGo : Ev → Bool
  | .consume (.go _) => true
  | _ => false

/-- number of well-formed `go` commands consumed so far -/
def goConsumed (log : List Ev) : Nat := log.countP Ev.isGo

/-- the loop has consumed a well-formed `go` and not yet numbered it (`d.searches++`): it is inside that
`go`'s `ensureInactive` -/
def LPc.goPending : LPc → Bool
  | .ensureStore (.go _) => true
  | .haltLock (.ensure (.go _)) | .haltAwait (.ensure (.go _)) _ | .haltQuit (.ensure (.go _)) _
  | .haltRead (.ensure (.go _)) _ | .haltUnlock (.ensure (.go _)) _ => true
  | .goStart _ => true
  | _ => false

end Morlock.Model.UciConc

namespace Morlock.Proofs.ConcUci
open Morlock.Model.UciConc

structure ReadyInv (s : State) : Prop where
  pending : openReady s.log = true ↔ s.loop = .ready
  answered : ReadyAnswered s.log

theorem readyInv_init (cmds : List Cmd) (pcap : Nat) : ReadyInv (init cmds pcap) := by
  constructor <;> simp [init, openReady, ReadyAnswered]

@[simp] theorem openReady_commit (i l : Nat) (es : List Ev) : openReady (.commit i l :: es) = openReady es := rfl
@[simp] theorem openReady_info (pv : Nat) (es : List Ev) : openReady (.send (.info pv) :: es) = openReady es := rfl
@[simp] theorem openReady_best (i pv : Nat) (es : List Ev) :
    openReady (.send (.bestmove i pv) :: es) = openReady es := rfl
@[simp] theorem openReady_sendClosed (l : Line) (es : List Ev) : openReady (.sendClosed l :: es) = openReady es := rfl
@[simp] theorem openReady_readyok (es : List Ev) : openReady (.send .readyok :: es) = false := rfl
@[simp] theorem openReady_consume (c : Cmd) (es : List Ev) : openReady (.consume c :: es) = (c == .isready) := rfl
@[simp] theorem readyAnswered_commit (i l : Nat) (es : List Ev) :
    ReadyAnswered (.commit i l :: es) = ReadyAnswered es := rfl
@[simp] theorem readyAnswered_send (l : Line) (es : List Ev) : ReadyAnswered (.send l :: es) = ReadyAnswered es := rfl
@[simp] theorem readyAnswered_sendClosed (l : Line) (es : List Ev) :
    ReadyAnswered (.sendClosed l :: es) = ReadyAnswered es := rfl
@[simp] theorem readyAnswered_consume (c : Cmd) (es : List Ev) :
    ReadyAnswered (.consume c :: es) = (openReady es = false ∧ ReadyAnswered es) := rfl

theorem dispatch_ready (c : Cmd) : dispatch c = LPc.ready ↔ c = Cmd.isready := by
  cases c <;> simp [dispatch]

@[simp] theorem afterHalt_ready (k : HaltK) (res : Option Nat) : afterHalt .repaired k res ≠ LPc.ready := by
  cases k with
  | ensure a => cases a <;> simp [afterHalt, Cfg.repaired]
  | stop i => cases res <;> simp [afterHalt]

/-- steps that neither start nor end at `ready` and leave the two log predicates alone -/
theorem readyInv_frame {s s' : State} (h : ReadyInv s) (ho : openReady s'.log = openReady s.log)
    (ha : ReadyAnswered s'.log = ReadyAnswered s.log) (hpc : s.loop ≠ .ready) (hpc' : s'.loop ≠ .ready) :
    ReadyInv s' := by
  refine ⟨?_, by rw [ha]; exact h.answered⟩
  rw [ho]
  constructor
  · intro hop; exact absurd (h.pending.1 hop) hpc
  · intro hl; exact absurd hl hpc'

/-- a non-`readyok` line put on the (possibly closed) `out` does not change the two predicates -/
theorem ready_sendOut (s : State) (l : Line) (hl : l ≠ .readyok) :
    openReady (sendOut s l).log = openReady s.log ∧ ReadyAnswered (sendOut s l).log = ReadyAnswered s.log := by
  unfold sendOut
  split
  · exact ⟨rfl, rfl⟩
  · cases l with
    | readyok => exact absurd rfl hl
    | info pv => exact ⟨rfl, rfl⟩
    | bestmove i pv => exact ⟨rfl, rfl⟩

theorem readyInv_loop (s : State) (c : Sel) (hc : CloseInv s) (h : ReadyInv s) :
    ReadyInv (stepLoop .repaired s c) := by
  unfold stepLoop
  cases hpc : s.loop <;> simp only
  all_goals (repeat' split)
  all_goals (first
    | exact h
    | (refine readyInv_frame h ?_ ?_ ?_ ?_ <;> simp [hpc, ready_sendOut]; done)
    | skip)
  · -- a command is consumed at `select`: no `isready` is open
    rename_i cmd rest _
    have hno : openReady s.log = false := by
      cases ho : openReady s.log with
      | false => rfl
      | true => have := h.pending.1 ho; rw [hpc] at this; cases this
    refine ⟨?_, ?_⟩
    · simp only [openReady_consume, dispatch_ready]
      cases cmd <;> simp
    · simp only [readyAnswered_consume]; exact ⟨hno, h.answered⟩
  · -- `d.out <- "readyok"`: `out` is still open
    have hopen : s.outClosed = false := by
      cases ho : s.outClosed with
      | false => rfl
      | true => have := hc.closed ho; rw [hpc] at this; cases this
    have hlog : (sendOut { s with loop := LPc.select } Line.readyok).log = Ev.send .readyok :: s.log := by
      simp [sendOut_log, hopen]
    refine ⟨?_, ?_⟩
    · rw [hlog]; simp
    · rw [hlog]; simpa using h.answered

theorem readyInv_fwd (s : State) (j : Nat) (h : ReadyInv s) : ReadyInv (stepFwd .repaired s j) := by
  have hkeep : ∀ s' : State, s'.loop = s.loop → openReady s'.log = openReady s.log →
      ReadyAnswered s'.log = ReadyAnswered s.log → ReadyInv s' := by
    intro s' h1 h2 h3
    exact ⟨by rw [h1, h2]; exact h.pending, by rw [h3]; exact h.answered⟩
  unfold stepFwd
  cases hj : s.fwds[j]? with
  | none => exact h
  | some f =>
    simp only
    cases hpc : f.pc <;> simp only
    all_goals (repeat' split)
    all_goals (first
      | exact h
      | (refine hkeep _ ?_ ?_ ?_ <;> simp [ready_sendOut]; done))

theorem readyInv_step (s : State) (a : Act) (h : CloseInv s ∧ ReadyInv s) : CloseInv (step s a) ∧ ReadyInv (step s a) := by
  refine ⟨closeInv_step s a h.1, ?_⟩
  obtain ⟨hc, h⟩ := h
  cases a with
  | loop c => exact readyInv_loop s c hc h
  | fwd j => exact readyInv_fwd s j h
  | timerSend j =>
    simp only [step, stepWith, stepTimerSend]
    repeat' split
    all_goals first | exact h | exact ⟨h.pending, h.answered⟩
  | timerDrop j =>
    simp only [step, stepWith, stepTimerDrop]
    repeat' split
    all_goals first | exact h | exact ⟨h.pending, h.answered⟩
  | searchIter j =>
    simp only [step, stepWith, stepIter]
    repeat' split
    all_goals first | exact h | exact ⟨h.pending, h.answered⟩
  | searchExit j =>
    simp only [step, stepWith, stepExit]
    repeat' split
    all_goals first | exact h | exact ⟨h.pending, h.answered⟩

theorem readyInv_run (sched : List Act) (s : State) (h : CloseInv s ∧ ReadyInv s) :
    CloseInv (run s sched) ∧ ReadyInv (run s sched) :=
  run_induction (I := fun s => CloseInv s ∧ ReadyInv s) readyInv_step sched s h

/-- unfolding of `ReadyAnswered`: between an `isready` and the next command consumed there is a `readyok` -/
theorem readyAnswered_between {log : List Ev} (h : ReadyAnswered log) (post mid pre : List Ev) (c : Cmd)
    (hlog : log = post ++ .consume c :: (mid ++ .consume .isready :: pre))
    (hmid : ∀ c', Ev.consume c' ∉ mid) : Ev.send .readyok ∈ mid := by
  subst hlog
  have h1 : ∀ (post : List Ev) (l : List Ev), ReadyAnswered (post ++ l) → ReadyAnswered l := by
    intro post l
    induction post with
    | nil => exact id
    | cons e es ih =>
      intro hh
      apply ih
      cases e <;> first | exact hh.2 | exact hh
  have h2 := (h1 post _ h).1
  clear h h1
  induction mid with
  | nil => simp at h2
  | cons e es ih =>
    cases e with
    | consume c' => exact absurd List.mem_cons_self (hmid c')
    | send l =>
      cases l with
      | readyok => exact List.mem_cons_self
      | info pv => exact List.mem_cons_of_mem _ (ih (fun c' hc' => hmid c' (List.mem_cons_of_mem _ hc')) h2)
      | bestmove i pv => exact List.mem_cons_of_mem _ (ih (fun c' hc' => hmid c' (List.mem_cons_of_mem _ hc')) h2)
    | sendClosed l => exact List.mem_cons_of_mem _ (ih (fun c' hc' => hmid c' (List.mem_cons_of_mem _ hc')) h2)
    | commit i l => exact List.mem_cons_of_mem _ (ih (fun c' hc' => hmid c' (List.mem_cons_of_mem _ hc')) h2)

/-! ## `d.searches` counts the `go` commands consumed -/

/-- `searches` is the number of well-formed `go`s consumed, minus the one being prepared -/
def GoCountInv (s : State) : Prop := goConsumed s.log = s.searches + (if s.loop.goPending then 1 else 0)

@[simp] theorem goConsumed_nil : goConsumed [] = 0 := rfl
@[simp] theorem goConsumed_send (l : Line) (es : List Ev) : goConsumed (.send l :: es) = goConsumed es := by
  simp [goConsumed, Ev.isGo]
@[simp] theorem goConsumed_sendClosed (l : Line) (es : List Ev) :
    goConsumed (.sendClosed l :: es) = goConsumed es := by simp [goConsumed, Ev.isGo]
@[simp] theorem goConsumed_commit (i l : Nat) (es : List Ev) : goConsumed (.commit i l :: es) = goConsumed es := by
  simp [goConsumed, Ev.isGo]
@[simp] theorem goConsumed_sendOut (s : State) (l : Line) : goConsumed (sendOut s l).log = goConsumed s.log := by
  unfold sendOut; split <;> simp
theorem goConsumed_consume (c : Cmd) (es : List Ev) :
    goConsumed (.consume c :: es) = goConsumed es + (if (dispatch c).goPending then 1 else 0) := by
  cases c <;> simp [goConsumed, Ev.isGo, dispatch, LPc.goPending, List.countP_cons]

@[simp] theorem afterHalt_goPending_stop (i : Nat) (res : Option Nat) :
    (afterHalt .repaired (.stop i) res).goPending = false := by cases res <;> rfl

theorem goCountInv_init (cmds : List Cmd) (pcap : Nat) : GoCountInv (init cmds pcap) := by
  simp [GoCountInv, init, LPc.goPending]

theorem goCount_frame {s s' : State} (h : GoCountInv s) (hl : goConsumed s'.log = goConsumed s.log)
    (hn : s'.searches = s.searches) (hp : s'.loop.goPending = s.loop.goPending) : GoCountInv s' := by
  unfold GoCountInv at h ⊢; rw [hl, hn, hp]; exact h

theorem goCountInv_loop (s : State) (c : Sel) (h : GoCountInv s) : GoCountInv (stepLoop .repaired s c) := by
  unfold stepLoop
  cases hpc : s.loop <;> simp only
  all_goals (repeat' split)
  all_goals (first
    | exact h
    | (refine goCount_frame h ?_ ?_ ?_ <;> simp [hpc, LPc.goPending]; done)
    | (refine goCount_frame h ?_ ?_ ?_ <;>
        first
        | (simp; done)
        | (rw [hpc]; cases ‹HaltK› <;> (try cases ‹After›) <;> (try cases ‹Option Nat›) <;>
            simp [LPc.goPending, afterHalt, Cfg.repaired]; done))
    | skip)
  · -- a command is consumed
    unfold GoCountInv at h ⊢
    simp only [goConsumed_consume, hpc] at h ⊢
    simp [LPc.goPending] at h; omega
  · -- ensureStore a → haltLock (ensure a)
    refine goCount_frame h rfl rfl ?_
    rw [hpc]; cases ‹After› <;> rfl
  all_goals
    unfold GoCountInv at h ⊢
    simp only [hpc] at h
    simp [LPc.goPending] at h ⊢
    omega

theorem goCountInv_step (s : State) (a : Act) (h : GoCountInv s) : GoCountInv (step s a) := by
  cases a with
  | loop c => exact goCountInv_loop s c h
  | fwd j =>
    simp only [step, stepWith, stepFwd]
    repeat' split
    all_goals first | exact h | (refine goCount_frame h ?_ ?_ ?_ <;> simp)
  | timerSend j =>
    simp only [step, stepWith, stepTimerSend]
    repeat' split
    all_goals first | exact h | exact goCount_frame h rfl rfl rfl
  | timerDrop j =>
    simp only [step, stepWith, stepTimerDrop]
    repeat' split
    all_goals first | exact h | exact goCount_frame h rfl rfl rfl
  | searchIter j =>
    simp only [step, stepWith, stepIter]
    repeat' split
    all_goals first | exact h | exact goCount_frame h rfl rfl rfl
  | searchExit j =>
    simp only [step, stepWith, stepExit]
    repeat' split
    all_goals first | exact h | exact goCount_frame h rfl rfl rfl

theorem goCountInv_run (sched : List Act) (s : State) (h : GoCountInv s) : GoCountInv (run s sched) :=
  run_induction goCountInv_step sched s h

end Morlock.Proofs.ConcUci
