import Morlock.Proofs.FenRoundtrip
import Morlock.Spec.Fen
import Morlock.Model.Abs
/-!
# `fen.Encode` prints what the reference printer prints

`Model.Fen.encode p turn np fm` (the transcription of Go's `fen.Encode`) and the reference printer
`Spec.printFen` applied to the abstraction `abs p turn` of the position and the two clocks as natural numbers are
the same `String`. Field by field:

* placement (`placement_eq`): the run-length loops of both printers are the same fold over the same eight files,
  and the step functions agree cell by cell (`rankStep_agree`): a square is blank in `abs p turn` iff
  `Position.square` finds nothing there, and the letter written for a piece is the same (`printPiece_cellChar`).
  `Position.square` never returns `NoPiece` (`square_ne_none`: it searches `piecesInOrder`), so no hypothesis
  on the position is needed here;
* side letter (`color_eq`);
* castling letters (`castling_eq`: 16 cases; the bound `< 16` is necessary, `castling_bound_needed`);
* en-passant square (`ep_eq`: 64 cases; the bound `< 64` is necessary, `ep_bound_needed`: `Square.String` reduces
  the rank modulo 8, the reference does not);
* the two numbers (`itoa_toNat`: `Itoa` of a non-negative `Int` is `toString` of its `toNat`).

No `Rep`/well-formedness hypothesis is needed for the string equality itself.
-/
namespace Morlock.Proofs.FenPrint
open Morlock Morlock.Model Morlock.Model.Fen Morlock.Proofs Morlock.Proofs.Fen

/-! ## The shape of the two printers -/

theorem printFen_eq (g : Spec.FenGame) :
    Spec.printFen g =
      Spec.printPlacement g.pos ++ " " ++ (match g.pos.turn with | .white => "w" | .black => "b") ++ " " ++
        Spec.printRights g.pos ++ " " ++ (match g.pos.ep with | some s => Spec.sqName s | none => "-") ++ " " ++
        toString g.halfmove ++ " " ++ toString g.fullmove := rfl

/-! ## Cells -/

/-- `Position.Square` never reports `NoPiece`: the piece comes out of the search through `piecesInOrder`. -/
theorem square_ne_none {p : Position} {sq : Nat} {c : Color} {k : Piece} (h : p.square sq = some (c, k)) :
    k ≠ .none := by
  have hmem : ∀ (c' : Color) (x : Color × Piece),
      (if !isSet (p.pieces c' .none) sq then none
       else (Position.piecesInOrder.find? fun k => isSet (p.pieces c' k) sq).map fun k => (c', k)) = some x →
      x.2 ∈ Position.piecesInOrder := by
    intro c' x hx
    split at hx
    · cases hx
    · cases hf : Position.piecesInOrder.find? fun k => isSet (p.pieces c' k) sq with
      | none => rw [hf] at hx; cases hx
      | some k' =>
        rw [hf] at hx
        simp only [Option.map_some, Option.some.injEq] at hx
        rw [← hx]
        exact List.mem_of_find?_eq_some hf
  have hk : k ∈ Position.piecesInOrder := by
    unfold Position.square at h
    split at h
    · cases h
    · simp only at h
      split at h
      · rename_i x hx
        cases h
        exact hmem .white _ hx
      · exact hmem .black _ h
  intro e
  subst e
  revert hk
  decide

/-- The letter `fen.Encode` writes for a piece is the letter the reference writes for its abstraction. -/
theorem printPiece_cellChar (c : Color) {k : Piece} {K : Spec.Kind} (h : absKind k = some K) :
    printPiece c k = Spec.cellChar (absColor c, K) := by
  cases c <;> cases k <;> simp only [absKind, Option.some.injEq, reduceCtorEq] at h <;> subst h <;> decide

theorem absKind_isSome {k : Piece} (h : k ≠ .none) : ∃ K, absKind k = some K := by
  cases k <;> first | exact absurd rfl h | exact ⟨_, rfl⟩

/-- A cell of `abs p turn` is the abstraction of what `Position.Square` reports there. -/
theorem abs_at (p : Position) (turn : Color) {sq : Nat} (h : sq < 64) : (abs p turn).at sq = absCell p sq := by
  unfold Spec.Pos.at abs
  simp [Array.getD, h]

/-- The two rank loops take the same step on every square: blank iff blank, same letter otherwise. -/
theorem rankStep_agree (p : Position) (turn : Color) {sq : Nat} (h : sq < 64) (acc : String × Nat) :
    (match p.square sq with
      | none => (acc.1, acc.2 + 1)
      | some (color, piece) =>
        ((if acc.2 > 0 then acc.1 ++ toString acc.2 else acc.1).push (printPiece color piece), 0)) =
    (match (abs p turn).at sq with
      | none => (acc.1, acc.2 + 1)
      | some x => ((if acc.2 > 0 then acc.1 ++ toString acc.2 else acc.1).push (Spec.cellChar x), 0)) := by
  rw [abs_at p turn h]
  unfold absCell
  cases hs : p.square sq with
  | none => rfl
  | some x =>
    obtain ⟨c, k⟩ := x
    obtain ⟨K, hK⟩ := absKind_isSome (square_ne_none hs)
    simp only [hK, Option.map_some]
    rw [printPiece_cellChar c hK]

theorem foldl_congr_mem {α β : Type} {f g : β → α → β} {l : List α} (b : β)
    (h : ∀ x ∈ l, ∀ a, f a x = g a x) : l.foldl f b = l.foldl g b := by
  induction l generalizing b with
  | nil => rfl
  | cons x xs ih =>
    rw [List.foldl_cons, List.foldl_cons, h x (List.mem_cons_self ..) b]
    exact ih _ fun y hy a => h y (List.mem_cons_of_mem _ hy) a

/-- `Encode`'s square for rank row `i`, column `f` is the reference's square for the same row and column. -/
theorem square_grid : ∀ i, i < 8 → ∀ f, f < 8 →
    newSquare (8 - f - 1) (8 - i - 1) = Spec.mkSq (7 - f) (7 - i) ∧ Spec.mkSq (7 - f) (7 - i) < 64 := by
  decide

/-! ## The fields -/

/-- **Placement field.** For every position (no hypothesis), `Encode`'s placement field is the reference's. -/
theorem placement_eq (p : Position) (turn : Color) :
    boardStr p.square = Spec.printPlacement (abs p turn) := by
  unfold boardStr Spec.printPlacement
  congr 1
  apply List.map_congr_left
  intro i hi
  have hi8 : i < 8 := List.mem_range.mp hi
  unfold rankStrOf rankFlush rowOf
  rw [List.foldl_map]
  have hfold :
      (List.range 8).foldl (fun (acc : String × Nat) f => rankStep acc (p.square (newSquare (8 - f - 1) (8 - i - 1))))
        ("", 0) =
      (List.range 8).foldl (fun (acc : String × Nat) f =>
        match (abs p turn).at (Spec.mkSq (7 - f) (7 - i)) with
        | none => (acc.1, acc.2 + 1)
        | some x => ((if acc.2 > 0 then acc.1 ++ toString acc.2 else acc.1).push (Spec.cellChar x), 0)) ("", 0) := by
    apply foldl_congr_mem
    intro f hf acc
    have hf8 : f < 8 := List.mem_range.mp hf
    obtain ⟨e, hlt⟩ := square_grid i hi8 f hf8
    rw [e, ← rankStep_agree p turn hlt acc]
    unfold rankStep
    cases p.square (Spec.mkSq (7 - f) (7 - i)) with
    | none => rfl
    | some x => rfl
  rw [hfold]
  rfl

/-- **Side letter.** -/
theorem color_eq (turn : Color) :
    printColor turn = (match (absColor turn) with | .white => "w" | .black => "b") := by
  cases turn <;> rfl

/-- The rights field of the reference as a function of the four bits. -/
def rightsOfBits (c : Nat) : String :=
  Spec.printRights { board := #[], turn := .white, wk := c &&& wK != 0, wq := c &&& wQ != 0, bk := c &&& bK != 0,
                     bq := c &&& bQ != 0, ep := none }

theorem castling_cases : ∀ c, c < 16 → printCastling c = rightsOfBits c := by decide

/-- **Castling letters** (16 cases). -/
theorem castling_eq (p : Position) (turn : Color) (hc : p.castling < 16) :
    printCastling p.castling = Spec.printRights (abs p turn) :=
  castling_cases _ hc

/-- The bound on the rights is necessary: with a fifth bit set and none of the four, `Encode` writes the empty
    string, the reference `-`. -/
theorem castling_bound_needed : printCastling 16 = "" ∧ rightsOfBits 16 = "-" := by decide

theorem ep_cases : ∀ e, e < 64 → e ≠ 0 → squareString e = Spec.sqName e := by decide

/-- **En-passant square** (64 cases). -/
theorem ep_eq (p : Position) (turn : Color) (he : p.enpassant < 64) :
    epStr p.enpassant = (match (abs p turn).ep with | some s => Spec.sqName s | none => "-") := by
  unfold epStr abs
  by_cases h0 : p.enpassant = 0
  · simp [h0]
  · simp only [h0, if_false]
    rw [if_pos (by simpa using h0)]
    exact ep_cases _ he h0

/-- The bound on the target is necessary: `Square.String` reduces the rank modulo 8. -/
theorem ep_bound_needed : squareString 64 = "h1" ∧ Spec.sqName 64 = "h9" := by decide

/-- **The numbers.** `Itoa` of a non-negative `int` is the decimal numeral of the natural number. -/
theorem itoa_toNat {n : Int} (h : 0 ≤ n) : itoa n = toString n.toNat := by
  obtain ⟨m, rfl⟩ := Int.eq_ofNat_of_zero_le h
  apply String.toList_injective
  rw [itoa_natCast, Int.toNat_natCast]
  show _ = (Nat.repr m).toList
  simp

/-! ## The theorem -/

/-- **`encode_eq_printFen`.** For every position with rights among the four bits and an en-passant target on the
    board, every side to move and all non-negative clocks, `fen.Encode` writes exactly the string the reference
    printer writes for the abstraction of the position and the same two numbers. -/
theorem encode_eq_printFen (p : Position) (turn : Color) (np fm : Int) (hc : p.castling < 16)
    (he : p.enpassant < 64) (hnp : 0 ≤ np) (hfm : 0 ≤ fm) :
    encode p turn np fm =
      Spec.printFen { pos := abs p turn, halfmove := np.toNat, fullmove := fm.toNat } := by
  rw [encode_eq, printFen_eq, placement_eq p turn, castling_eq p turn hc, ep_eq p turn he, itoa_toNat hnp,
    itoa_toNat hfm, color_eq turn]
  rfl

end Morlock.Proofs.FenPrint
