import Morlock.Proofs.FltLemmas
/-! # The three facts about `rnd f32` used as hypotheses (`RndFacts`) by the totality proofs of the evaluators -/
namespace Morlock.Model.Flt

theorem rnd32_facts_isSome (x : Q) : 0 < x.den → x.num.natAbs ≤ 2 ^ 127 * x.den → (rnd f32 x).isSome = true :=
  fun hd h => rnd32_isSome_of_le x hd h

theorem rnd32_facts_int (n : Int) : n.natAbs ≤ 2 ^ 24 → ∃ a, rnd f32 (Q.ofInt n) = some a ∧ a.num = n * (a.den : Int) := by
  intro h
  exact ⟨Q.ofInt n, rnd32_int n h, by simp [Q.ofInt]⟩

/-- `2^k` (`emin ≤ k − (p−1)`, `k ≤ emax`) is a number of the format -/
theorem rep_two_pow (f : Fmt) (wf : f.WF) (k : Nat) (hlo : f.emin ≤ (k : Int) - ((f.p : Int) - 1)) (hhi : (k : Int) ≤ f.emax) :
    Rep f (Q.ofInt ((2 ^ k : Nat) : Int)) := by
  have hp := wf.p_pos
  refine ⟨2 ^ (f.p - 1), (k : Int) - ((f.p : Int) - 1), ?_, hlo, by omega, ?_⟩
  · have := two_pow_pred hp; have := Nat.two_pow_pos (f.p - 1); omega
  · simp only [Q.ofInt, Int.natAbs_natCast, Nat.mul_one, pd, pn]
    rw [← Nat.pow_add, ← Nat.pow_add]
    congr 1; omega

/-- a bound `|x| ≤ B` by a natural number `B` that is a number of the format survives rounding -/
theorem rnd_absLe_of_rep (f : Fmt) (wf : f.WF) {x x' : Q} {B : Nat} (hrep : Rep f (Q.ofInt B))
    (hd : 0 < x.den) (hb : x.AbsLe B) (h : rnd f x = some x') : x'.AbsLe B := by
  have hxd : (0 : Int) ≤ x.den := Int.natCast_nonneg _
  have hbI : (x.num.natAbs : Int) ≤ (B : Int) * x.den := by
    have : ((x.num.natAbs : Nat) : Int) ≤ ((B * x.den : Nat) : Int) := Int.ofNat_le.mpr hb
    simpa [Int.natCast_mul] using this
  have hlo : Q.Le (Q.ofInt B).neg x := by
    simp only [Q.Le, Q.neg, Q.ofInt, Int.neg_mul]
    omega
  have hhi : Q.Le x (Q.ofInt B) := by
    simp only [Q.Le, Q.ofInt]
    omega
  obtain ⟨y, hy, h1, h2⟩ := rnd_abs_le f wf hd (by simp [Q.ofInt]) hrep hlo hhi
  rw [h] at hy
  have : x' = y := by simpa using hy
  subst this
  simp only [Q.Le, Q.neg, Q.ofInt, Int.neg_mul] at h1 h2
  unfold Q.AbsLe
  have : ((x'.num.natAbs : Nat) : Int) ≤ ((B * x'.den : Nat) : Int) := by
    simp only [Int.natCast_mul]; omega
  exact Int.ofNat_le.mp this

theorem rnd32_facts_abs_le (x y : Q) (k : Nat) : k ≤ 127 → 0 < x.den → x.num.natAbs ≤ 2 ^ k * x.den →
    rnd f32 x = some y → y.num.natAbs ≤ 2 ^ k * y.den := by
  intro hk hd hb h
  have hrep : Rep f32 (Q.ofInt ((2 ^ k : Nat) : Int)) :=
    rep_two_pow f32 f32_wf k (by simp only [f32]; omega) (by simp only [f32]; omega)
  exact rnd_absLe_of_rep f32 f32_wf hrep hd hb h

end Morlock.Model.Flt
