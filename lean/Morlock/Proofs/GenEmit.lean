import Morlock.Proofs.GenBits
import Morlock.Proofs.RepAbs
/-!
# Stage A of C01 (continued): `emitMove` / `emitPromo` membership, `captureAt` under `Rep`
-/
namespace Morlock.Proofs.Gen
open Morlock Morlock.Model

/-- **Stage A.** A move is emitted by `emitMove` iff its destination is a set bit of the target
    board and its other fields are the ones `emitMove` fills in. -/
theorem mem_emitMove {p : Position} {turn : Color} {t : MoveType} {piece : Piece} {fr ab : Nat}
    (hab : ab < 2 ^ 64) (m : Move) :
    m ∈ p.emitMove turn t piece fr ab ↔
      ab.testBit m.to = true ∧ m.ty = t ∧ m.piece = piece ∧ m.from = fr ∧ m.promotion = .none ∧
      m.capture = (if t = .capture then p.captureAt m.to turn else .none) := by
  unfold Position.emitMove
  simp only [List.mem_map, mem_toSquares hab]
  constructor
  · rintro ⟨to, hbit, rfl⟩
    exact ⟨hbit, rfl, rfl, rfl, rfl, rfl⟩
  · rintro ⟨hbit, h1, h2, h3, h4, h5⟩
    refine ⟨m.to, hbit, ?_⟩
    cases m
    simp only at h1 h2 h3 h4 h5
    subst h1 h2 h3 h4 h5
    rfl

/-- **Stage A.** Likewise for `emitPromo`: four moves per destination, one per promotion piece. -/
theorem mem_emitPromo {p : Position} {turn : Color} {t : MoveType} {piece : Piece} {fr ab : Nat}
    (hab : ab < 2 ^ 64) (m : Move) :
    m ∈ p.emitPromo turn t piece fr ab ↔
      ab.testBit m.to = true ∧ m.ty = t ∧ m.piece = piece ∧ m.from = fr ∧
      m.promotion ∈ Position.promoPieces ∧
      m.capture = (if t = .capturePromotion then p.captureAt m.to turn else .none) := by
  unfold Position.emitPromo
  simp only [List.mem_flatMap, List.mem_map, mem_toSquares hab]
  constructor
  · rintro ⟨to, hbit, pc, hpc, rfl⟩
    exact ⟨hbit, rfl, rfl, rfl, hpc, rfl⟩
  · rintro ⟨hbit, h1, h2, h3, h4, h5⟩
    refine ⟨m.to, hbit, m.promotion, h4, ?_⟩
    cases m
    simp only at h1 h2 h3 h5
    subst h1 h2 h3 h5
    rfl

theorem promoPieces_eq : Position.promoPieces = [.queen, .rook, .knight, .bishop] := by decide

theorem mem_promoPieces (k : Piece) :
    k ∈ Position.promoPieces ↔ k = .queen ∨ k = .rook ∨ k = .knight ∨ k = .bishop := by
  rw [promoPieces_eq]; simp

/-- The enemy piece on `sq` as the mailbox board sees it (`none` if empty or own). -/
def capAt (b : Board) (sq : Nat) (turn : Color) : Piece :=
  match b sq with
  | some (c, k) => if c = turn.opp then k else .none
  | none => .none

/-- `captureAt` reads the enemy piece off the board. -/
theorem captureAt_of_rep {p : Position} {b : Board} (h : Rep p b) (sq : Nat) (turn : Color) :
    p.captureAt sq turn = capAt b sq turn := by
  unfold Position.captureAt capAt
  have hone : ∀ k', k' ≠ Piece.none → isSet (p.pieces turn.opp k') sq = decide (b sq = some (turn.opp, k')) :=
    fun k' hk' => h.isSet_pieces turn.opp hk' sq
  cases hb : b sq with
  | none =>
    simp [Position.piecesInOrder, List.find?, hone, hb]
  | some x =>
    obtain ⟨c, k⟩ := x
    have hk : k ≠ .none := h.ne_none_of_some hb
    by_cases hc : c = turn.opp
    · subst hc
      cases k <;> simp [Position.piecesInOrder, List.find?, hone, hb] at hk ⊢
    · have : ∀ k', (some (c, k) = some (turn.opp, k')) = False := by
        intro k'; simp [hc]
      simp [Position.piecesInOrder, List.find?, hone, hb, hc, this]

theorem capAt_enemy {b : Board} {sq : Nat} {turn : Color} {k : Piece} (hb : b sq = some (turn.opp, k)) :
    capAt b sq turn = k := by simp [capAt, hb]

theorem capAt_empty {b : Board} {sq : Nat} {turn : Color} (hb : b sq = none) :
    capAt b sq turn = .none := by simp [capAt, hb]

end Morlock.Proofs.Gen
