import Morlock.Model.UciPos
/-!
# Text lemmas for C10: `splitSpaces`, `joinSp`, `fields`, `continuation`
-/
namespace Morlock.Proofs.UciPosText
open Morlock.Model Morlock.Model.UciSeq Morlock.Model.UciPos

/-! ## `strings.Split(_, " ")` -/

theorem go_append_space (a b : List Char) (cur : List Char) :
    Fen.splitSpaces.go (a ++ ' ' :: b) cur = Fen.splitSpaces.go a cur ++ Fen.splitSpaces.go b [] := by
  induction a generalizing cur with
  | nil => simp [Fen.splitSpaces.go]
  | cons c a ih =>
    by_cases hc : c = ' '
    · simp [Fen.splitSpaces.go, hc, ih]
    · simp [Fen.splitSpaces.go, hc, ih]

theorem go_word (w : List Char) (hw : ' ' ∉ w) (cur : List Char) :
    Fen.splitSpaces.go w cur = [cur.reverse ++ w] := by
  induction w generalizing cur with
  | nil => simp [Fen.splitSpaces.go]
  | cons c w ih =>
    have hc : c ≠ ' ' := fun h => hw (by simp [h])
    have hw' : ' ' ∉ w := fun h => hw (by simp [h])
    simp [Fen.splitSpaces.go, hc, ih hw']

theorem go_ne_nil (s cur : List Char) : Fen.splitSpaces.go s cur ≠ [] := by
  induction s generalizing cur with
  | nil => simp [Fen.splitSpaces.go]
  | cons c s ih =>
    by_cases hc : c = ' '
    · simp [Fen.splitSpaces.go, hc]
    · simp [Fen.splitSpaces.go, hc, ih]

theorem splitSpaces_ne_nil (s : List Char) : Fen.splitSpaces s ≠ [] := go_ne_nil s []

theorem splitSpaces_append_space (a b : List Char) :
    Fen.splitSpaces (a ++ ' ' :: b) = Fen.splitSpaces a ++ Fen.splitSpaces b := go_append_space a b []

theorem splitSpaces_word (w : List Char) (hw : ' ' ∉ w) : Fen.splitSpaces w = [w] := by
  have := go_word w hw []
  simpa [Fen.splitSpaces] using this

theorem splitSpaces_space_cons (t : List Char) : Fen.splitSpaces (' ' :: t) = [] :: Fen.splitSpaces t := by
  simp [Fen.splitSpaces, Fen.splitSpaces.go]

/-- Splitting what `strings.Join(ws, " ")` made gives the words back. -/
theorem splitSpaces_joinSp (ws : List (List Char)) (hne : ws ≠ []) (hw : ∀ w ∈ ws, ' ' ∉ w) :
    Fen.splitSpaces (joinSp ws) = ws := by
  induction ws with
  | nil => exact absurd rfl hne
  | cons w ws ih =>
    cases ws with
    | nil => simpa [joinSp] using splitSpaces_word w (hw w (by simp))
    | cons v vs =>
      have h1 := ih (by simp) (fun x hx => hw x (by simp [hx]))
      rw [joinSp, splitSpaces_append_space, splitSpaces_word w (hw w (by simp)), h1]
      · rfl
      · simp

theorem joinSp_concat (fs : List (List Char)) (f : List Char) (h : fs ≠ []) :
    joinSp (fs ++ [f]) = joinSp fs ++ ' ' :: f := by
  induction fs with
  | nil => exact absurd rfl h
  | cons a fs ih =>
    cases fs with
    | nil => rfl
    | cons b fs => simp only [List.cons_append, joinSp] at ih ⊢; rw [ih (by simp)]; simp

/-! ## `strings.Fields` -/

theorem goWs_append_space (a b : List Char) (cur : List Char) :
    splitWs.go (a ++ ' ' :: b) cur = splitWs.go a cur ++ splitWs.go b [] := by
  have hsp : Fen.isSpace ' ' = true := by decide
  induction a generalizing cur with
  | nil => simp [splitWs.go, hsp]
  | cons c a ih =>
    by_cases hc : Fen.isSpace c = true
    · simp [splitWs.go, hc, ih]
    · simp [splitWs.go, hc, ih]

theorem splitWs_append_space (a b : List Char) : splitWs (a ++ ' ' :: b) = splitWs a ++ splitWs b :=
  goWs_append_space a b []

theorem splitWs_space_cons (t : List Char) : splitWs (' ' :: t) = [] :: splitWs t := by
  have hsp : Fen.isSpace ' ' = true := by decide
  simp [splitWs, splitWs.go, hsp]

theorem fields_nil : fields [] = [] := by
  simp [fields, splitWs, splitWs.go]

theorem fields_space_cons (t : List Char) : fields (' ' :: t) = fields t := by
  simp [fields, splitWs_space_cons]

theorem fields_append_space (a b : List Char) : fields (a ++ ' ' :: b) = fields a ++ fields b := by
  simp [fields, splitWs_append_space]

theorem Word.no_space {w : List Char} (h : Word w) : ' ' ∉ w := fun hm =>
  absurd (h.2 ' ' hm) (by decide)

/-- Where the blank is the only white space, `strings.Fields` and `strings.Split(_, " ")` cut at the same places. -/
theorem goWs_eq_go (s cur : List Char) (h : ∀ c ∈ s, Fen.isSpace c = true → c = ' ') :
    splitWs.go s cur = Fen.splitSpaces.go s cur := by
  have hsp : Fen.isSpace ' ' = true := by decide
  induction s generalizing cur with
  | nil => rfl
  | cons c s ih =>
    have ih' := fun cur => ih cur (fun d hd => h d (by simp [hd]))
    by_cases hc : c = ' '
    · subst hc; simp [splitWs.go, Fen.splitSpaces.go, hsp, ih']
    · have : Fen.isSpace c = false := by
        cases hx : Fen.isSpace c with
        | false => rfl
        | true => exact absurd (h c (by simp) hx) hc
      simp [splitWs.go, Fen.splitSpaces.go, hc, this, ih']

theorem go_mem_cur (s cur : List Char) (x : Char) (hx : x ∈ cur) : ∃ w ∈ Fen.splitSpaces.go s cur, x ∈ w := by
  induction s generalizing cur with
  | nil => exact ⟨cur.reverse, by simp [Fen.splitSpaces.go], by simpa using hx⟩
  | cons c s ih =>
    by_cases hc : c = ' '
    · exact ⟨cur.reverse, by simp [Fen.splitSpaces.go, hc], by simpa using hx⟩
    · obtain ⟨w, hw, hxw⟩ := ih (c :: cur) (by simp [hx])
      exact ⟨w, by simpa [Fen.splitSpaces.go, hc] using hw, hxw⟩

/-- Every character other than the blank lies in one of the pieces. -/
theorem go_mem (s cur : List Char) (x : Char) (hx : x ∈ s) (hne : x ≠ ' ') : ∃ w ∈ Fen.splitSpaces.go s cur, x ∈ w := by
  induction s generalizing cur with
  | nil => simp at hx
  | cons c s ih =>
    by_cases hc : c = ' '
    · have hxs : x ∈ s := by
        rcases List.mem_cons.1 hx with h | h
        · exact absurd (h.trans hc) hne
        · exact h
      obtain ⟨w, hw, hxw⟩ := ih [] hxs
      exact ⟨w, by simp [Fen.splitSpaces.go, hc, hw], hxw⟩
    · rcases List.mem_cons.1 hx with h | h
      · subst h
        obtain ⟨w, hw, hxw⟩ := go_mem_cur s (x :: cur) x (by simp)
        exact ⟨w, by simpa [Fen.splitSpaces.go, hc] using hw, hxw⟩
      · obtain ⟨w, hw, hxw⟩ := ih (c :: cur) h
        exact ⟨w, by simpa [Fen.splitSpaces.go, hc] using hw, hxw⟩

/-- If the pieces between the blanks are words, `strings.Fields` returns exactly them. -/
theorem fields_eq_splitSpaces (s : List Char) (h : ∀ w ∈ Fen.splitSpaces s, Word w) : fields s = Fen.splitSpaces s := by
  have h1 : splitWs s = Fen.splitSpaces s := by
    refine goWs_eq_go s [] (fun c hc hsp => ?_)
    apply Classical.byContradiction
    intro hne
    obtain ⟨w, hw, hcw⟩ := go_mem s [] c hc hne
    have := (h w hw).2 c hcw
    rw [hsp] at this
    exact absurd this (by decide)
  unfold fields
  rw [h1, List.filter_eq_self]
  intro w hw
  simpa using (h w hw).1

/-! ## `continuation` -/

theorem isPrefixOf_iff (a b : List Char) : a.isPrefixOf b = true ↔ ∃ t, b = a ++ t := by
  rw [List.isPrefixOf_iff_prefix]
  constructor
  · rintro ⟨t, ht⟩; exact ⟨t, ht.symm⟩
  · rintro ⟨t, ht⟩; exact ⟨t, ht.symm⟩

/-- What `continuation` decides, on the trimmed texts. -/
theorem continuation_eq_some (last line : List Char) (rest : List (List Char)) :
    continuation last line = some rest ↔
      Fen.trimSpace last ≠ [] ∧
      ∃ t, Fen.trimSpace line = Fen.trimSpace last ++ t ∧ (t = [] ∨ ∃ t', t = ' ' :: t') ∧ rest = fields t := by
  unfold continuation
  simp only []
  by_cases h1 : Fen.trimSpace last = []
  · simp [h1]
  by_cases h2 : (Fen.trimSpace last).isPrefixOf (Fen.trimSpace line) = true
  · obtain ⟨t, ht⟩ := (isPrefixOf_iff _ _).1 h2
    have hd : (Fen.trimSpace line).drop (Fen.trimSpace last).length = t := by rw [ht]; simp
    simp only [h1, h2, hd]
    constructor
    · intro h
      refine ⟨by simpa using h1, t, ht, ?_⟩
      cases t with
      | nil => simp at h; exact ⟨Or.inl rfl, h.symm⟩
      | cons c t' =>
        by_cases hc : c = ' '
        · subst hc; simp at h; exact ⟨Or.inr ⟨t', rfl⟩, h.symm⟩
        · simp [hc] at h
    · rintro ⟨_, t2, ht2, hsh, hr⟩
      have : t2 = t := by
        rw [ht] at ht2; exact (List.append_cancel_left ht2).symm
      subst this
      rcases hsh with h | ⟨t', h⟩
      · subst h; simp [hr]
      · subst h; simp [hr]
  · have h2' : ¬ ∃ t, Fen.trimSpace line = Fen.trimSpace last ++ t := fun h => h2 ((isPrefixOf_iff _ _).2 h)
    simp only [h1, h2]
    constructor
    · intro h; simp at h
    · rintro ⟨_, t, ht, _⟩; exact absurd ⟨t, ht⟩ h2'

/-- If the pieces of the new line between blanks are words (single blanks, no other white space), the extra
    words are exactly the words of the new line after those of the previous one. -/
theorem continuation_words (last line : List Char) (rest : List (List Char))
    (h : continuation last line = some rest)
    (hne : ∀ w ∈ Fen.splitSpaces (Fen.trimSpace line), Word w) :
    Fen.splitSpaces (Fen.trimSpace line) = Fen.splitSpaces (Fen.trimSpace last) ++ rest := by
  obtain ⟨_, t, ht, hsh, hr⟩ := (continuation_eq_some _ _ _).1 h
  rcases hsh with h0 | ⟨t', h0⟩
  · subst h0; simp [hr, fields_nil, ht]
  · subst h0
    rw [ht, splitSpaces_append_space] at hne
    rw [ht, splitSpaces_append_space, hr, fields_space_cons,
      fields_eq_splitSpaces t' (fun w hw => hne w (by simp [hw]))]

theorem argsOf_continuation (last line : List Char) (rest : List (List Char))
    (h : continuation last line = some rest)
    (hne : ∀ w ∈ Fen.splitSpaces (Fen.trimSpace line), Word w) :
    argsOf line = argsOf last ++ rest := by
  unfold argsOf
  rw [continuation_words last line rest h hne]
  cases hs : Fen.splitSpaces (Fen.trimSpace last) with
  | nil => exact absurd hs (splitSpaces_ne_nil _)
  | cons x xs => simp

/-- Extending an extension: the extra words add up. -/
theorem continuation_trans (a b c : List Char) (r1 r2 : List (List Char))
    (h1 : continuation a b = some r1) (h2 : continuation b c = some r2) :
    continuation a c = some (r1 ++ r2) := by
  obtain ⟨ha, t1, ht1, hs1, hr1⟩ := (continuation_eq_some _ _ _).1 h1
  obtain ⟨_, t2, ht2, hs2, hr2⟩ := (continuation_eq_some _ _ _).1 h2
  refine (continuation_eq_some _ _ _).2 ⟨ha, t1 ++ t2, by rw [ht2, ht1, List.append_assoc], ?_, ?_⟩
  · rcases hs1 with h | ⟨t', h⟩
    · subst h; simpa using hs2
    · subst h; exact Or.inr ⟨t' ++ t2, rfl⟩
  · rcases hs2 with h | ⟨t', h⟩
    · subst h; simp [hr1, hr2, fields_nil]
    · subst h; rw [fields_append_space, hr1, hr2, fields_space_cons]

end Morlock.Proofs.UciPosText
