import Morlock.Proofs.AttackBounds
import Morlock.Model.Abs
/-!
# `PawnCaptureboard` on an arbitrary set of pawns (all `2^64` sets), `testBit` form
-/
namespace Morlock.Proofs.Attack
open Morlock Morlock.Model Morlock.Spec

theorem andNot_testBit (x y t : Nat) : (andNot x y).testBit t = (x.testBit t && !y.testBit t) := by
  unfold andNot
  rw [Nat.testBit_xor, Nat.testBit_and]
  cases x.testBit t <;> cases y.testBit t <;> rfl

theorem shl64_testBit (p k t : Nat) :
    (shl64 p k).testBit t = (decide (t < 64) && (decide (k ≤ t) && p.testBit (t - k))) := by
  unfold shl64 u64
  rw [M64_eq, Nat.testBit_mod_two_pow, Nat.testBit_shiftLeft]

/-- Per (pawn square, target square) the reference pawn targets are the two shifted-and-masked bits. -/
theorem pawnRel_all : allBelow 64 (fun s => allBelow 64 fun t =>
    (decide (t ∈ pawnTargets .white s) ==
      ((decide (t = s + 9) && !(bitFile fileH).testBit t) || (decide (t = s + 7) && !(bitFile fileA).testBit t))) &&
    (decide (t ∈ pawnTargets .black s) ==
      ((decide (s = t + 9) && !(bitFile fileA).testBit t) || (decide (s = t + 7) && !(bitFile fileH).testBit t)))) = true := by
  decide +kernel

theorem pawnRel_white {s t : Nat} (hs : s < 64) (ht : t < 64) :
    t ∈ pawnTargets .white s ↔
      (t = s + 9 ∧ (bitFile fileH).testBit t = false) ∨ (t = s + 7 ∧ (bitFile fileA).testBit t = false) := by
  have := allBelow_spec (allBelow_spec pawnRel_all s hs) t ht
  simp only [Bool.and_eq_true, beq_iff_eq] at this
  have h := this.1
  rw [← decide_eq_true_iff (p := t ∈ pawnTargets .white s), h]
  simp

theorem pawnRel_black {s t : Nat} (hs : s < 64) (ht : t < 64) :
    t ∈ pawnTargets .black s ↔
      (s = t + 9 ∧ (bitFile fileA).testBit t = false) ∨ (s = t + 7 ∧ (bitFile fileH).testBit t = false) := by
  have := allBelow_spec (allBelow_spec pawnRel_all s hs) t ht
  simp only [Bool.and_eq_true, beq_iff_eq] at this
  have h := this.2
  rw [← decide_eq_true_iff (p := t ∈ pawnTargets .black s), h]
  simp

theorem testBit_ge_false {p t : Nat} (hp : p < 2 ^ 64) (ht : 64 ≤ t) : p.testBit t = false :=
  Nat.testBit_lt_two_pow (Nat.lt_of_lt_of_le hp (Nat.pow_le_pow_right (by decide) ht))

/-- Square `t` is in `PawnCaptureboard(c, pawns)` iff some pawn of the set attacks it by the rules. -/
theorem pawnSet_testBit (c : Model.Color) (pawns t : Nat) (hp : pawns < 2 ^ 64) :
    (pawnCaptureboard c pawns).testBit t = true ↔
      ∃ s, s < 64 ∧ pawns.testBit s = true ∧ t ∈ pawnTargets (absColor c) s := by
  cases c
  · simp only [pawnCaptureboard, absColor, Nat.testBit_or, andNot_testBit, shl64_testBit,
      Bool.or_eq_true, Bool.and_eq_true, decide_eq_true_eq, Bool.not_eq_true']
    constructor
    · rintro (⟨⟨ht, hk, hb⟩, hf⟩ | ⟨⟨ht, hk, hb⟩, hf⟩)
      · exact ⟨t - 9, by omega, hb, (pawnRel_white (by omega) ht).mpr (Or.inl ⟨by omega, hf⟩)⟩
      · exact ⟨t - 7, by omega, hb, (pawnRel_white (by omega) ht).mpr (Or.inr ⟨by omega, hf⟩)⟩
    · rintro ⟨s, hs, hb, hm⟩
      have ht := pawnTargets_lt _ _ _ hm
      rcases (pawnRel_white hs ht).mp hm with ⟨e, hf⟩ | ⟨e, hf⟩
      · left; subst e; exact ⟨⟨ht, by omega, by simpa using hb⟩, hf⟩
      · right; subst e; exact ⟨⟨ht, by omega, by simpa using hb⟩, hf⟩
  · simp only [pawnCaptureboard, absColor, Nat.testBit_or, andNot_testBit, Nat.testBit_shiftRight,
      Bool.or_eq_true, Bool.and_eq_true, Bool.not_eq_true']
    constructor
    · rintro (⟨hb, hf⟩ | ⟨hb, hf⟩)
      · have h9 : 9 + t < 64 := by
          apply Nat.lt_of_not_le; intro hge
          rw [testBit_ge_false hp hge] at hb; contradiction
        exact ⟨9 + t, h9, hb, (pawnRel_black h9 (by omega)).mpr (Or.inl ⟨by omega, hf⟩)⟩
      · have h7 : 7 + t < 64 := by
          apply Nat.lt_of_not_le; intro hge
          rw [testBit_ge_false hp hge] at hb; contradiction
        exact ⟨7 + t, h7, hb, (pawnRel_black h7 (by omega)).mpr (Or.inr ⟨by omega, hf⟩)⟩
    · rintro ⟨s, hs, hb, hm⟩
      have ht := pawnTargets_lt _ _ _ hm
      rcases (pawnRel_black hs ht).mp hm with ⟨e, hf⟩ | ⟨e, hf⟩
      · left; subst e; exact ⟨by rw [Nat.add_comm]; exact hb, hf⟩
      · right; subst e; exact ⟨by rw [Nat.add_comm]; exact hb, hf⟩

theorem pawnSet_lt (c : Model.Color) (pawns : Nat) (hp : pawns < 2 ^ 64) :
    pawnCaptureboard c pawns < 2 ^ 64 := by
  apply Nat.lt_pow_two_of_testBit
  intro t ht
  cases h : (pawnCaptureboard c pawns).testBit t
  · rfl
  · obtain ⟨s, _, _, hm⟩ := (pawnSet_testBit c pawns t hp).mp h
    have := pawnTargets_lt _ _ _ hm
    omega

end Morlock.Proofs.Attack
