import Morlock.Proofs.BernsteinEval
/-!
# Totality of `Eval.Evaluate` (the float32 ratio), relative to four facts about `Flt.rnd f32`

The facts (`RndFacts`) are the statements `rnd_isSome_of_le`, `rnd_int` (a corollary of `rnd_exact`) and
`rnd_abs_le` of `Proofs/FltLemmas.lean`, spelled with cross-multiplication so that this file does not depend on
the form they finally take there. `rnd_den_pos` is proved here.
-/
namespace Morlock.Proofs.Bernstein
open Morlock Morlock.Model Morlock.Model.Bernstein
open Morlock.Model.Flt

/-! ## `Q.norm` keeps the sign of the denominator and magnitude bounds -/

theorem norm_den_pos {x : Q} (h : 0 < x.den) : 0 < (Q.norm x).den := by
  unfold Q.norm
  simp only
  split
  · exact h
  · have hg : Nat.gcd x.num.natAbs x.den ∣ x.den := Nat.gcd_dvd_right _ _
    have hgpos : 0 < Nat.gcd x.num.natAbs x.den := Nat.gcd_pos_of_pos_right _ h
    exact Nat.div_pos (Nat.le_of_dvd h hg) hgpos

theorem norm_abs_le {x : Q} (h : 0 < x.den) {K : Nat} (hK : x.num.natAbs ≤ K * x.den) :
    (Q.norm x).num.natAbs ≤ K * (Q.norm x).den := by
  unfold Q.norm
  simp only
  split
  · exact hK
  · have hgpos : 0 < Nat.gcd x.num.natAbs x.den := Nat.gcd_pos_of_pos_right _ h
    generalize hgdef : Nat.gcd x.num.natAbs x.den = g at hgpos
    have hg1 : g ∣ x.num.natAbs := hgdef ▸ Nat.gcd_dvd_left _ _
    have hg2 : g ∣ x.den := hgdef ▸ Nat.gcd_dvd_right _ _
    have hdvd : (g : Int) ∣ x.num := Int.ofNat_dvd_left.mpr hg1
    show (x.num / (g : Int)).natAbs ≤ K * (x.den / g)
    rw [Int.natAbs_ediv_of_dvd hdvd, Int.natAbs_natCast]
    obtain ⟨a', ha'⟩ := hg1
    obtain ⟨d', hd'⟩ := hg2
    rw [ha', hd', Nat.mul_div_cancel_left _ hgpos, Nat.mul_div_cancel_left _ hgpos]
    rw [ha', hd'] at hK
    have : g * a' ≤ g * (K * d') := by
      calc g * a' ≤ K * (g * d') := hK
        _ = g * (K * d') := by rw [Nat.mul_left_comm]
    exact Nat.le_of_mul_le_mul_left this hgpos

/-! ## the result of `rnd` has a positive denominator -/

theorem ofME_den_pos (neg : Bool) (m : Nat) (e : Int) : 0 < (ofME neg m e).den := by
  unfold ofME
  have hv : 0 < (if e ≥ 0 then (⟨(m * 2 ^ e.toNat : Nat), 1⟩ : Q) else Q.norm ⟨m, 2 ^ (-e).toNat⟩).den := by
    split
    · exact Nat.one_pos
    · exact norm_den_pos (Nat.pow_pos (by decide))
  simp only
  split
  · exact hv
  · exact hv

theorem rnd_den_pos {f : Fmt} {x y : Q} (h : rnd f x = some y) : 0 < y.den := by
  unfold rnd at h
  split at h
  · simp only [Option.some.injEq] at h
    subst h; exact Nat.one_pos
  · split at h
    · cases h
    · simp only [Option.some.injEq] at h
      subst h
      exact ofME_den_pos _ _ _

/-! ## what is needed from `Proofs/FltLemmas.lean` -/

/-- Facts about rounding to float32, `|x| ≤ B` read as `|num| ≤ B · den`. -/
structure RndFacts : Prop where
  /-- `rnd_isSome_of_le`: no overflow below `2^127` -/
  isSome_of_le : ∀ x : Q, 0 < x.den → x.num.natAbs ≤ 2 ^ 127 * x.den → (rnd f32 x).isSome = true
  /-- `rnd_int`: integers up to `2^24` are float32 values (the result denotes `n`) -/
  int_exact : ∀ n : Int, n.natAbs ≤ 2 ^ 24 → ∃ a, rnd f32 (Q.ofInt n) = some a ∧ a.num = n * (a.den : Int)
  /-- `rnd_abs_le` for the representable bounds `2^k` -/
  abs_le : ∀ (x y : Q) (k : Nat), k ≤ 127 → 0 < x.den → x.num.natAbs ≤ 2 ^ k * x.den → rnd f32 x = some y →
    y.num.natAbs ≤ 2 ^ k * y.den

section Ratio
variable (F : RndFacts)
include F

/-- `± Pawns(s) * 100 / Pawns(o)` is a finite float32 for `1 ≤ s, o ≤ 2^24` -/
theorem ratio_isSome {s o : Int} (hs : 1 ≤ s) (hs' : s ≤ 2 ^ 24) (ho : 1 ≤ o) (ho' : o ≤ 2 ^ 24) (sign : Bool) :
    ((rnd f32 (Q.ofInt s)).bind fun a =>
      (Flt.mul f32 (if sign then a.neg else a) (Q.ofInt 100)).bind fun m =>
      (rnd f32 (Q.ofInt o)).bind fun b => Flt.div f32 m b).isSome = true := by
  obtain ⟨a, ha, hanum⟩ := F.int_exact s (by omega)
  obtain ⟨b, hb, hbnum⟩ := F.int_exact o (by omega)
  have had := rnd_den_pos ha
  have hbd := rnd_den_pos hb
  rw [ha, Option.bind_some]
  -- the operand of the multiplication
  generalize ha' : (if sign then a.neg else a) = a'
  have ha'd : a'.den = a.den := by subst ha'; cases sign <;> rfl
  have ha'n : a'.num.natAbs = a.num.natAbs := by
    subst ha'; cases sign
    · rfl
    · simp [Q.neg]
  have habs : a.num.natAbs = s.natAbs * a.den := by rw [hanum, Int.natAbs_mul, Int.natAbs_natCast]
  -- the product
  have hxd : 0 < (a'.mul (Q.ofInt 100)).den := by
    unfold Q.mul
    apply norm_den_pos
    show 0 < a'.den * (Q.ofInt 100).den
    rw [ha'd]; exact Nat.mul_pos had Nat.one_pos
  have hxa : (a'.mul (Q.ofInt 100)).num.natAbs ≤ 2 ^ 31 * (a'.mul (Q.ofInt 100)).den := by
    unfold Q.mul
    apply norm_abs_le
    · show 0 < a'.den * (Q.ofInt 100).den
      rw [ha'd]; exact Nat.mul_pos had Nat.one_pos
    · show (a'.num * (Q.ofInt 100).num).natAbs ≤ 2 ^ 31 * (a'.den * (Q.ofInt 100).den)
      rw [Int.natAbs_mul, ha'n, ha'd, habs]
      show s.natAbs * a.den * 100 ≤ 2 ^ 31 * (a.den * 1)
      have h1 : s.natAbs ≤ 2 ^ 24 := by omega
      have h2 : s.natAbs * a.den ≤ 2 ^ 24 * a.den := Nat.mul_le_mul_right _ h1
      omega
  have hsome := F.isSome_of_le _ hxd (Nat.le_trans hxa (Nat.mul_le_mul_right _ (by decide)))
  unfold Flt.mul
  obtain ⟨m, hm⟩ := Option.isSome_iff_exists.mp hsome
  rw [hm, Option.bind_some, hb, Option.bind_some]
  have hmd := rnd_den_pos hm
  have hma := F.abs_le _ _ 31 (by decide) hxd hxa hm
  -- the divisor is at least one
  have hbpos : 0 < b.num := by
    rw [hbnum]
    exact Int.mul_pos (by omega) (by exact_mod_cast hbd)
  unfold Flt.div
  have hne : (b.num == 0) = false := by
    rw [beq_eq_false_iff_ne]; omega
  rw [hne]
  simp only [Bool.false_eq_true, if_false]
  have hbn : b.den ≤ b.num.toNat := by
    have : (b.den : Int) ≤ b.num := by
      rw [hbnum]
      have : (1 : Int) * (b.den : Int) ≤ o * (b.den : Int) := Int.mul_le_mul_of_nonneg_right ho (by omega)
      omega
    omega
  have hqd : 0 < (m.div b).den := by
    unfold Q.div
    rw [if_pos hbpos]
    apply norm_den_pos
    show 0 < m.den * b.num.toNat
    exact Nat.mul_pos hmd (by omega)
  have hqa : (m.div b).num.natAbs ≤ 2 ^ 31 * (m.div b).den := by
    unfold Q.div
    rw [if_pos hbpos]
    apply norm_abs_le
    · show 0 < m.den * b.num.toNat
      exact Nat.mul_pos hmd (by omega)
    · show (m.num * (b.den : Int)).natAbs ≤ 2 ^ 31 * (m.den * b.num.toNat)
      rw [Int.natAbs_mul, Int.natAbs_natCast]
      calc m.num.natAbs * b.den ≤ (2 ^ 31 * m.den) * b.num.toNat := Nat.mul_le_mul hma hbn
        _ = 2 ^ 31 * (m.den * b.num.toNat) := Nat.mul_assoc _ _ _
  exact F.isSome_of_le _ hqd (Nat.le_trans hqa (Nat.mul_le_mul_right _ (by decide)))

/-- **`Eval.Evaluate` returns a finite float32** whenever both `Evaluate` calls return (both sides have a king)
and `0 ≤ factor ≤ 10^4`. -/
theorem evalEvaluate_isSome {p : Position} {factor : Int} {turn : Color}
    (hf0 : 0 ≤ factor) (hf1 : factor ≤ 10000)
    (hk1 : p.kingSquare turn < 64) (hk2 : p.kingSquare turn.opp < 64) :
    (evalEvaluate p factor turn).isSome = true := by
  obtain ⟨s, hs⟩ := Option.isSome_iff_exists.mp ((evaluate_isSome_iff p factor turn).mpr hk1)
  obtain ⟨o, ho⟩ := Option.isSome_iff_exists.mp ((evaluate_isSome_iff p factor turn.opp).mpr hk2)
  have bs := evaluate_bounds hf0 hf1 hs
  have bo := evaluate_bounds hf0 hf1 ho
  unfold evalEvaluate
  rw [hs, ho]
  simp only
  split
  · rfl
  · split
    · have := ratio_isSome F (s := s) (o := o) bs.1 (by omega) bo.1 (by omega) false
      simpa using this
    · have := ratio_isSome F (s := o) (o := s) bo.1 (by omega) bs.1 (by omega) true
      simpa using this

end Ratio

end Morlock.Proofs.Bernstein
