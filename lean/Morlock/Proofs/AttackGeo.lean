import Morlock.Proofs.AttackLoops
/-!
# Geometric side conditions of the four rank/file loops, checked on all 64 squares

The `geo_*` theorems evaluate `geoOK` in the kernel for every square; they read the generated tables
(`Gen.rot90` here, `Gen.rot45L/rot45R/off45L/off45R/mask45L/mask45R` in `AttackGeoB`), so they are
re-checked whenever those constants change.
-/
namespace Morlock.Proofs.Attack
open Morlock Morlock.Model Morlock.Spec

theorem geo_rankR : allBelow 64 (fun sq => geoOK (specRankR sq) sq id (sqRank sq <<< 3) 255) = true := by
  decide +kernel
theorem geo_rankL : allBelow 64 (fun sq => geoOK (specRankL sq) sq id (sqRank sq <<< 3) 255) = true := by
  decide +kernel
theorem geo_fileD : allBelow 64 (fun sq => geoOK (specFileD sq) sq t90 (sqFile sq <<< 3) 255) = true := by
  decide +kernel
theorem geo_fileU : allBelow 64 (fun sq => geoOK (specFileU sq) sq t90 (sqFile sq <<< 3) 255) = true := by
  decide +kernel
end Morlock.Proofs.Attack
