import Morlock.Proofs.TurochampMobExact
import Morlock.Proofs.TurochampMirror2
import Morlock.Proofs.ChainReach
/-!
# Closing `MirrorGap` for the mobility sum and the castling flag, through `model_legalMoves_mirror`

The weight of a generated move in the mobility count and "is a castling move" are read off the abstract move and the
abstract position (`wS`, `Spec.isCastle`); both are mirror invariant; the legal moves of the mirrored position are the
mirror images of the legal moves. Needs `WF` for the colour whose moves are counted (for the side not to move this
means: no en-passant target).
-/
namespace Morlock.Proofs.Turochamp
open Morlock Morlock.Model Morlock.Model.Flt Morlock.Model.Turochamp Morlock.Proofs.Gen Morlock.Proofs.Mirror

/-- the mobility weight of an abstract move in an abstract position -/
def wS (s : Spec.Pos) (sm : Spec.SMove) : Nat :=
  match s.at sm.from with
  | some (_, k) => if k ≠ .pawn ∧ Spec.isCastle s sm = false then (if s.occ sm.to then 2 else 1) else 0
  | none => 0

def wsumS (S : List Spec.SMove) (s : Spec.Pos) (k : Nat) : Nat :=
  nsum (S.map fun sm => if sm.from = k then wS s sm else 0)

/-- a generated move: weight and castling flag from the abstraction; squares on the board -/
theorem pseudo_abs {p : Position} {c : Color} (hw : WF p c) {m : Move} (hm : m ∈ p.pseudoLegalMoves c) :
    weight m = wS (abs p c) (absMove m) ∧ m.isCastle = Spec.isCastle (abs p c) (absMove m) ∧
      m.from < 64 ∧ m.to < 64 := by
  have h := hw.rep
  have hps := (mem_pseudoLegalMoves h hw.wfb m).mp hm
  obtain ⟨hmeta, hclass⟩ := hps.metaOK_classOK h hw.wfb
  obtain ⟨hfrom, _, _⟩ := hps.features hw.wfb
  have hcas : Spec.isCastle (abs p c) (absMove m) = m.isCastle := by
    unfold ClassOK at hclass
    simp only [Bool.and_eq_true, beq_iff_eq] at hclass
    exact hclass.1.1.1.1.1.2
  have hpc : m.piece ≠ .none := h.ne_none_of_some hfrom
  have hf64 : m.from < 64 := h.lt_of_some hfrom
  have hto64 : m.to < 64 := by
    rw [h.metaOK_iff] at hmeta
    unfold MetaOKb at hmeta
    rw [hfrom] at hmeta
    simp only [Bool.and_eq_true, decide_eq_true_eq] at hmeta
    exact hmeta.1.2
  refine ⟨?_, hcas.symm, hf64, hto64⟩
  have hat : (abs p c).at (absMove m).from = some (absColor c, kindOf m.piece) := by
    show (abs p c).at m.from = _
    rw [h.abs_at, hfrom, absCellB_some _ hpc]
  unfold wS weight
  rw [hat, hcas]
  by_cases hmob : mobMove m = true
  · obtain ⟨pc, hs⟩ := mobMove_step hw hm hmob
    have hmob' := hmob
    unfold mobMove at hmob'
    simp only [Bool.and_eq_true, bne_iff_ne, ne_eq, Bool.not_eq_true'] at hmob'
    have hk : kindOf m.piece ≠ .pawn := by
      intro e
      apply hmob'.1
      cases hp : m.piece <;> rw [hp] at e hpc <;> simp [kindOf] at e hpc ⊢
    have hocc : (abs p c).occ (absMove m).to = decide (m.ty = .capture) := by
      show (abs p c).occ m.to = _
      unfold Spec.Pos.occ
      rw [h.abs_at]
      rcases hs.2.2.2.2 with ⟨hn, hty, _⟩ | ⟨k, hk', hty, _⟩
      · rw [hn, hty]; rfl
      · rw [hk', hty, absCellB_some _ (h.ne_none_of_some hk')]; rfl
    have hcond : (kindOf m.piece ≠ Spec.Kind.pawn ∧ m.isCastle = false) := ⟨hk, hmob'.2⟩
    simp only [hmob, if_true, hcond, hocc]
    by_cases hc : m.ty = .capture <;> simp [hc, hk]
  · have hmob0 : mobMove m = false := by simpa using hmob
    rw [hmob0]
    simp only [Bool.false_eq_true, if_false]
    unfold mobMove at hmob0
    by_cases hp : m.piece = .pawn
    · have : kindOf m.piece = .pawn := by rw [hp]; rfl
      simp [this]
    · have hcs : m.isCastle = true := by
        simp only [Bool.and_eq_false_iff, bne_eq_false_iff_eq, Bool.not_eq_false'] at hmob0
        rcases hmob0 with h1 | h1
        · exact absurd h1 hp
        · exact h1
      simp [hcs]

theorem wsum_abs {p : Position} {c : Color} (hw : WF p c) (k : Nat) :
    wsum (p.legalMoves c) k = wsumS ((p.legalMoves c).map absMove) (abs p c) k := by
  unfold wsum wsumS
  rw [List.map_map]
  congr 1
  apply List.map_congr_left
  intro m hm
  have hml : m ∈ p.pseudoLegalMoves c := by
    unfold Position.legalMoves at hm
    exact (List.mem_filter.mp hm).1
  simp only [Function.comp]
  rw [(pseudo_abs hw hml).1]
  rfl

theorem wS_mirror (s : Spec.Pos) {sm : Spec.SMove} (hf : sm.from < 64) (ht : sm.to < 64) :
    wS (Spec.mirror s) (Spec.mirrorMove sm) = wS s sm := by
  unfold wS
  have h1 : (Spec.mirror s).at (Spec.mirrorMove sm).from = Spec.mirrorCell (s.at sm.from) := Spec.mirror_at_mirrorSq hf
  have h2 : Spec.isCastle (Spec.mirror s) (Spec.mirrorMove sm) = Spec.isCastle s sm :=
    Spec.isCastle_mir (Spec.Mir.of_mirror s) hf ht
  have h3 : (Spec.mirror s).occ (Spec.mirrorMove sm).to = s.occ sm.to := by
    show (Spec.mirror s).occ (Spec.mirrorSq sm.to) = _
    rw [Spec.mirror_occ (Spec.mirrorSq_lt ht), Spec.mirrorSq_mirrorSq]
  rw [h1, h2, h3]
  cases s.at sm.from with
  | none => rfl
  | some v => obtain ⟨c, k⟩ := v; rfl

theorem wsumS_mirror (s : Spec.Pos) (S : List Spec.SMove) (hS : ∀ sm ∈ S, sm.from < 64 ∧ sm.to < 64) (k : Nat) :
    wsumS (S.map Spec.mirrorMove) (Spec.mirror s) (Spec.mirrorSq k) = wsumS S s k := by
  unfold wsumS
  rw [List.map_map]
  congr 1
  apply List.map_congr_left
  intro sm hsm
  obtain ⟨hf, ht⟩ := hS sm hsm
  simp only [Function.comp]
  rw [wS_mirror s hf ht]
  have : ((Spec.mirrorMove sm).from = Spec.mirrorSq k) = (sm.from = k) := by
    show (Spec.mirrorSq sm.from = Spec.mirrorSq k) = _
    exact propext ⟨fun e => Spec.mirrorSq_inj e, fun e => by rw [e]⟩
  simp only [this]

theorem legal_abs_lt {p : Position} {c : Color} (hw : WF p c) :
    ∀ sm ∈ (p.legalMoves c).map absMove, sm.from < 64 ∧ sm.to < 64 := by
  intro sm hsm
  obtain ⟨m, hm, rfl⟩ := List.mem_map.mp hsm
  have hml : m ∈ p.pseudoLegalMoves c := by
    unfold Position.legalMoves at hm
    exact (List.mem_filter.mp hm).1
  exact (pseudo_abs hw hml).2.2

/-- the total weights from mirrored squares agree -/
theorem wsum_mirror {p q : Position} {c : Color} (hp : WF p c) (hq : WF q c.opp)
    (habs : abs q c.opp = Spec.mirror (abs p c)) (k : Nat) :
    wsum (q.legalMoves c.opp) (Spec.mirrorSq k) = wsum (p.legalMoves c) k := by
  rw [wsum_abs hq, wsum_abs hp, habs]
  have hperm := model_legalMoves_mirror hp hq habs
  have e1 : wsumS ((q.legalMoves c.opp).map absMove) (Spec.mirror (abs p c)) (Spec.mirrorSq k) =
      wsumS (((p.legalMoves c).map absMove).map Spec.mirrorMove) (Spec.mirror (abs p c)) (Spec.mirrorSq k) := by
    unfold wsumS
    exact nsum_perm (hperm.map _)
  rw [e1]
  exact wsumS_mirror _ _ (legal_abs_lt hp) k

theorem nodup_of_map_fst {A : List (Nat × Nat)} (h : (A.map (·.1)).Nodup) : A.Nodup := by
  rw [List.nodup_iff_pairwise_ne] at h ⊢
  exact List.Pairwise.of_map (·.1) (fun a b hne e => hne (by rw [e])) h

/-- **the mobility maps are mirror images of each other, up to the order of the entries** -/
theorem mobility_mirror_perm {p q : Position} {c : Color} (hp : WF p c) (hq : WF q c.opp)
    (habs : abs q c.opp = Spec.mirror (abs p c)) :
    (mobility q c.opp).Perm ((mobility p c).map fun e => (Spec.mirrorSq e.1, e.2)) := by
  obtain ⟨ndq, memq⟩ := mobility_exact q c.opp
  obtain ⟨ndp, memp⟩ := mobility_exact p c
  apply (List.perm_ext_iff_of_nodup (nodup_of_map_fst ndq) ?_).mpr
  · intro e
    obtain ⟨k, n⟩ := e
    rw [memq k n]
    constructor
    · rintro ⟨hw, hn⟩
      refine List.mem_map.mpr ⟨(Spec.mirrorSq k, n), ?_, by simp⟩
      rw [memp]
      refine ⟨?_, hn⟩
      rw [← wsum_mirror hp hq habs, Spec.mirrorSq_mirrorSq]
      exact hw
    · intro hm
      obtain ⟨e0, he0, heq⟩ := List.mem_map.mp hm
      obtain ⟨k0, n0⟩ := e0
      simp only [Prod.mk.injEq] at heq
      obtain ⟨hk, hn⟩ := heq
      subst hn
      rw [memp] at he0
      rw [← hk, wsum_mirror hp hq habs]
      exact he0
  · have : ((mobility p c).map fun e => (Spec.mirrorSq e.1, e.2)).map (·.1) = ((mobility p c).map (·.1)).map Spec.mirrorSq := by
      rw [List.map_map, List.map_map]; rfl
    apply nodup_of_map_fst
    rw [this]
    exact nodup_map_of_inj ndp (fun a _ b _ e => Spec.mirrorSq_inj e)

/-- the exact mobility sum is colour-blind -/
theorem mob10_mirror {p q : Position} {c : Color} (hp : WF p c) (hq : WF q c.opp)
    (habs : abs q c.opp = Spec.mirror (abs p c)) : mob10 (mobility q c.opp) = mob10 (mobility p c) := by
  rw [mob10_perm (mobility_mirror_perm hp hq habs)]
  unfold mob10
  rw [List.map_map]
  rfl

theorem mayCastle_abs {r : Position} {d : Color} (hr : WF r d) :
    mayCastle r d = true ↔ ∃ sm ∈ (r.legalMoves d).map absMove, Spec.isCastle (abs r d) sm = true := by
  unfold mayCastle
  rw [List.any_eq_true]
  have hml : ∀ m ∈ r.legalMoves d, m ∈ r.pseudoLegalMoves d := fun m hm => by
    unfold Position.legalMoves at hm
    exact (List.mem_filter.mp hm).1
  constructor
  · rintro ⟨m, hm, hc⟩
    exact ⟨absMove m, List.mem_map.mpr ⟨m, hm, rfl⟩, by rw [← (pseudo_abs hr (hml m hm)).2.1]; exact hc⟩
  · rintro ⟨sm, hsm, hc⟩
    obtain ⟨m, hm, rfl⟩ := List.mem_map.mp hsm
    exact ⟨m, hm, by rw [(pseudo_abs hr (hml m hm)).2.1]; exact hc⟩

/-- the castling flag of loop (1) is colour-blind -/
theorem mayCastle_mirror {p q : Position} {c : Color} (hp : WF p c) (hq : WF q c.opp)
    (habs : abs q c.opp = Spec.mirror (abs p c)) : mayCastle q c.opp = mayCastle p c := by
  have hperm := model_legalMoves_mirror hp hq habs
  rw [Bool.eq_iff_iff, mayCastle_abs hq, mayCastle_abs hp, habs]
  constructor
  · rintro ⟨sm, hsm, hc⟩
    have hsm' := hperm.mem_iff.mp hsm
    obtain ⟨sm0, h0, rfl⟩ := List.mem_map.mp hsm'
    obtain ⟨hf, ht⟩ := legal_abs_lt hp sm0 h0
    rw [Spec.isCastle_mir (Spec.Mir.of_mirror _) hf ht] at hc
    exact ⟨sm0, h0, hc⟩
  · rintro ⟨sm0, h0, hc⟩
    obtain ⟨hf, ht⟩ := legal_abs_lt hp sm0 h0
    refine ⟨Spec.mirrorMove sm0, hperm.mem_iff.mpr (List.mem_map.mpr ⟨sm0, h0, rfl⟩), ?_⟩
    rw [Spec.isCastle_mir (Spec.Mir.of_mirror _) hf ht]
    exact hc

/-! ## the mate-threat flag -/

/-- the side to move is checkmated (reference) -/
def mateS (s : Spec.Pos) : Bool := Spec.inCheck s s.turn && (Spec.legalMoves s).isEmpty

theorem mateS_mirror {s : Spec.Pos} (h : Spec.Sym s) : mateS (Spec.mirror s) = mateS s := by
  unfold mateS
  have h1 : Spec.inCheck (Spec.mirror s) (Spec.mirror s).turn = Spec.inCheck s s.turn := by
    rw [Spec.mirror_turn]
    exact Spec.inCheck_mirror (h.kings _)
  have h2 : (Spec.legalMoves (Spec.mirror s)).isEmpty = (Spec.legalMoves s).isEmpty := by
    have hl := (Spec.legalMoves_mirror h.size (h.kings _)).length_eq
    rw [List.length_map] at hl
    rw [Bool.eq_iff_iff, List.isEmpty_iff, List.isEmpty_iff, ← List.length_eq_zero_iff, ← List.length_eq_zero_iff, hl]
  rw [h1, h2]

/-- the mate-threat flag of loop (1), read off the abstract legal moves -/
theorem mayCheckMate_abs {r : Position} {d : Color} (hr : Chain.WFplay r d) :
    mayCheckMate r d = true ↔
      ∃ sm ∈ (r.legalMoves d).map absMove, mateS (Spec.apply (abs r d) sm) = true := by
  unfold mayCheckMate
  rw [List.any_eq_true]
  have key : ∀ m ∈ r.legalMoves d, ∃ next, r.move m = some next ∧
      next.isCheckMate d.opp = mateS (Spec.apply (abs r d) (absMove m)) := by
    intro m hm
    unfold Position.legalMoves at hm
    obtain ⟨hml, hsome⟩ := List.mem_filter.mp hm
    obtain ⟨next, hn⟩ := Option.isSome_iff_exists.mp hsome
    refine ⟨next, hn, ?_⟩
    have hwn := (Chain.wf_preserved hr hml hn).1
    have habs := Chain.step_refines hr hml hn
    rw [Bool.eq_iff_iff, Props.C01.isCheckMate_iff_spec hwn, habs]
    unfold mateS
    have ht : (Spec.apply (abs r d) (absMove m)).turn = absColor d.opp := by rw [← habs]; rfl
    rw [ht, Bool.and_eq_true, List.isEmpty_iff]
  constructor
  · rintro ⟨m, hm, hc⟩
    obtain ⟨next, hn, hk⟩ := key m hm
    rw [hn] at hc
    simp only [] at hc
    exact ⟨absMove m, List.mem_map.mpr ⟨m, hm, rfl⟩, by rw [← hk]; exact hc⟩
  · rintro ⟨sm, hsm, hc⟩
    obtain ⟨m, hm, rfl⟩ := List.mem_map.mp hsm
    obtain ⟨next, hn, hk⟩ := key m hm
    refine ⟨m, hm, ?_⟩
    rw [hn]
    simp only []
    rw [hk]; exact hc

/-- the mate-threat flag of loop (1) is colour-blind (the opponent of the colour must not be in check: `WFplay`) -/
theorem mayCheckMate_mirror {p q : Position} {c : Color} (hp : Chain.WFplay p c) (hq : Chain.WFplay q c.opp)
    (habs : abs q c.opp = Spec.mirror (abs p c)) : mayCheckMate q c.opp = mayCheckMate p c := by
  have hperm := model_legalMoves_mirror hp.1 hq.1 habs
  have hsym := sym_abs hp.1
  -- Sym of the position after a legal move
  have hsymNext : ∀ sm ∈ (p.legalMoves c).map absMove, Spec.Sym (Spec.apply (abs p c) sm) := by
    intro sm hsm
    obtain ⟨m, hm, rfl⟩ := List.mem_map.mp hsm
    unfold Position.legalMoves at hm
    obtain ⟨hml, hsome⟩ := List.mem_filter.mp hm
    obtain ⟨next, hn⟩ := Option.isSome_iff_exists.mp hsome
    rw [← Chain.step_refines hp hml hn]
    exact sym_abs (Chain.wf_preserved hp hml hn).1
  rw [Bool.eq_iff_iff, mayCheckMate_abs hq, mayCheckMate_abs hp, habs]
  constructor
  · rintro ⟨sm, hsm, hc⟩
    have hsm' := hperm.mem_iff.mp hsm
    obtain ⟨sm0, h0, rfl⟩ := List.mem_map.mp hsm'
    obtain ⟨hf, ht⟩ := legal_abs_lt hp.1 sm0 h0
    rw [Spec.apply_mirror hsym.size hf ht, mateS_mirror (hsymNext sm0 h0)] at hc
    exact ⟨sm0, h0, hc⟩
  · rintro ⟨sm0, h0, hc⟩
    obtain ⟨hf, ht⟩ := legal_abs_lt hp.1 sm0 h0
    refine ⟨Spec.mirrorMove sm0, hperm.mem_iff.mpr (List.mem_map.mpr ⟨sm0, h0, rfl⟩), ?_⟩
    rw [Spec.apply_mirror hsym.size hf ht, mateS_mirror (hsymNext sm0 h0)]
    exact hc

/-- **`MirrorGap` is closed** for a colour `c` with `WFplay p c`, `WFplay q c.opp` (well-formed for that colour to move,
its opponent not in check) and `abs q c.opp = mirror (abs p c)`. -/
theorem mirrorGap_closed {p q : Position} {c : Color} (hp : Chain.WFplay p c) (hq : Chain.WFplay q c.opp)
    (habs : abs q c.opp = Spec.mirror (abs p c)) : MirrorGap p q c :=
  ⟨mayCheckMate_mirror hp hq habs, mayCastle_mirror hp.1 hq.1 habs, mob10_mirror hp.1 hq.1 habs⟩

end Morlock.Proofs.Turochamp
