import Morlock.Proofs.ABTTNode
/-!
# Whole searches with a sound table: full window, `alphaBetaSearch`, sequences of searches (C11 / C12)
-/
namespace Morlock.Proofs.AB
open Morlock Morlock.Model Morlock.Model.Score Morlock.Spec
open Morlock.Props.C09
variable {P : Type}

/-- Full window, sound table, any cancellation: the table stays sound; a search that is live at its end
    returns exactly `V` with a principal variation. -/
theorem alphabeta_tt_full {g : Game P} (hev : EvalOk g) (ex : P → Explore) (le : LeafEval P) {rootPly : Int}
    {R U : Nat → P → Prop} (hcl : Closed g ex R) (hRU : ∀ n q, R n q → U n q)
    (hrf : RootFreeOn g R rootPly) (hh : HashOKOn g ex le U) (d : Nat) (hd : leafGrade le + d ≤ 127)
    (p : P) (hp : R d p) (st : SState) (hs : SoundOn g ex le U st.tt) :
    Mono st (alphabeta g ex le rootPly d p negInfScore infScore st).2.2 ∧
    SoundOn g ex le U (alphabeta g ex le rootPly d p negInfScore infScore st).2.2.tt ∧
    (Live (alphabeta g ex le rootPly d p negInfScore infScore st).2.2 →
      (alphabeta g ex le rootPly d p negInfScore infScore st).1 = V g ex le rootPly d p ∧
      Principal g ex le rootPly d p (alphabeta g ex le rootPly d p negInfScore infScore st).2.1) := by
  have ha : okN (leafGrade le + d) negInfScore := okN_mono okN_negInf (by omega)
  have hb : okN (leafGrade le + d) infScore := okN_mono okN_inf (by omega)
  obtain ⟨h1, h2, h3⟩ := (alphabeta_recTT hev ex le hcl hRU hrf hh (leafGrade le) (Nat.le_refl _) d hd).node p
    negInfScore infScore st hp hs (fun _ => ⟨ha, hb⟩)
  refine ⟨h1, h2, fun hl => ?_⟩
  obtain ⟨q1, _, q3, q4⟩ := h3 hl
  have hclip := q3 (by decide)
  have hv := V_ok hev ex le rootPly (leafGrade le) (Nat.le_refl _) d p hd
  rw [rank_negInf, rank_inf] at hclip
  have := clip_full (rankN_mono (okN_rankN hv) hd) (rankN_mono (okN_rankN q1) hd) hclip
  have hex := rank_injective _ _ q1.1 hv.1 this
  exact ⟨hex, q4.2 hex⟩

/-- At the root ply, with a legal move, an empty PV means alpha was never raised. -/
theorem alphabeta_root_pv {g : Game P} (hev : EvalOk g) (ex : P → Explore) (le : LeafEval P) {rootPly : Int}
    {R U : Nat → P → Prop} (hcl : Closed g ex R) (hRU : ∀ n q, R n q → U n q)
    (hrf : RootFreeOn g R rootPly) (hh : HashOKOn g ex le U) (K : Nat) (hK : leafGrade le ≤ K) (d : Nat)
    (hKd : K + d + 1 ≤ 127) (p : P) (hp : R (d + 1) p) (a b : Score) (st : SState) (hs : SoundOn g ex le U st.tt)
    (ha : okN (K + d + 1) a) (hb : okN (K + d + 1) b) (hroot : g.ply p = rootPly)
    (hl : legalAny g p (g.moves p) = true)
    (hlive : Live (alphabeta g ex le rootPly (d + 1) p a b st).2.2)
    (hnil : (alphabeta g ex le rootPly (d + 1) p a b st).2.1 = []) :
    (alphabeta g ex le rootPly (d + 1) p a b st).1 = a := by
  have IH := alphabeta_recTT hev ex le hcl hRU hrf hh K hK d (by omega)
  have hdraw : (!(g.ply p == rootPly) && g.isDraw p) = false := by simp [hroot]
  by_cases hc : cancelled st = true
  · exfalso
    have : alphabeta g ex le rootPly (d + 1) p a b st = (invalidScore, [], tick st) := by
      rw [alphabeta_succ_eq]; simp only [abEnter, poll_eq, hc, if_true]
    rw [this] at hlive
    exact not_live_of_cancelled hc hlive
  · have hc' : cancelled st = false := by simpa using hc
    obtain ⟨best, hbest⟩ := abEnter_root (d + 1) p st hroot hc'
    rw [alphabeta_succ_eq, hbest] at hlive hnil ⊢
    dsimp only at hlive hnil ⊢
    obtain ⟨_, _, h3⟩ := abBody_tt hev ex le hcl hRU hrf hh K hK d hKd IH p hp a b best (tick st) hs ha hb
      hdraw _ rfl
    exact (h3 hlive).2.2.2.2 hl hnil

/-- `AlphaBeta.Search` without a window in the context, over a sound table, with any cancellation. -/
theorem alphaBetaSearch_tt {g : Game P} (hev : EvalOk g) (ex : P → Explore) (le : LeafEval P)
    {R U : Nat → P → Prop} (hcl : Closed g ex R) (hRU : ∀ n q, R n q → U n q)
    (hh : HashOKOn g ex le U) (p : P) (hrf : RootFreeOn g R (g.ply p)) (d : Nat) (hd : leafGrade le + d ≤ 127)
    (hp : R d p) (st : SState) (hs : SoundOn g ex le U st.tt) :
    Mono st (alphaBetaSearch g ex le p d invalidScore invalidScore st).2 ∧
    SoundOn g ex le U (alphaBetaSearch g ex le p d invalidScore invalidScore st).2.tt ∧
    ((alphaBetaSearch g ex le p d invalidScore invalidScore st).1 = none ↔
      ¬ Live (alphaBetaSearch g ex le p d invalidScore invalidScore st).2) ∧
    (Live (alphaBetaSearch g ex le p d invalidScore invalidScore st).2 →
      ∃ n pv, (alphaBetaSearch g ex le p d invalidScore invalidScore st).1 =
          some ⟨n, V g ex le (g.ply p) d p, pv⟩ ∧
        Principal g ex le (g.ply p) d p pv ∧
        (∀ d', d = d' + 1 → legalAny g p (g.moves p) = true →
          V g ex le (g.ply p) d p ≠ negInfScore → pv ≠ [])) := by
  have hs0 : SoundOn g ex le U ({ st with nodes := 0 } : SState).tt := hs
  obtain ⟨h1, h2, h3⟩ := alphabeta_tt_full hev ex le hcl hRU hrf hh d hd p hp { st with nodes := 0 } hs0
  have hroot : ∀ d', d = d' + 1 → legalAny g p (g.moves p) = true →
      Live (alphabeta g ex le (g.ply p) d p negInfScore infScore { st with nodes := 0 }).2.2 →
      (alphabeta g ex le (g.ply p) d p negInfScore infScore { st with nodes := 0 }).2.1 = [] →
      (alphabeta g ex le (g.ply p) d p negInfScore infScore { st with nodes := 0 }).1 = negInfScore := by
    intro d' hdd
    subst hdd
    exact alphabeta_root_pv hev ex le hcl hRU hrf hh (leafGrade le) (Nat.le_refl _) d' (by omega) p hp
      negInfScore infScore { st with nodes := 0 } hs0 (okN_mono okN_negInf (by omega)) (okN_mono okN_inf (by omega)) rfl
  have heq : alphaBetaSearch g ex le p d invalidScore invalidScore st =
      if cancelled (alphabeta g ex le (g.ply p) d p negInfScore infScore { st with nodes := 0 }).2.2 then
        (none, tick (alphabeta g ex le (g.ply p) d p negInfScore infScore { st with nodes := 0 }).2.2)
      else (some ⟨(tick (alphabeta g ex le (g.ply p) d p negInfScore infScore { st with nodes := 0 }).2.2).nodes,
          (alphabeta g ex le (g.ply p) d p negInfScore infScore { st with nodes := 0 }).1,
          (alphabeta g ex le (g.ply p) d p negInfScore infScore { st with nodes := 0 }).2.1⟩,
        tick (alphabeta g ex le (g.ply p) d p negInfScore infScore { st with nodes := 0 }).2.2) := by
    simp only [alphaBetaSearch, isInvalid, invalidScore, decide_true, if_true, poll_eq]
  rw [heq]
  generalize alphabeta g ex le (g.ply p) d p negInfScore infScore { st with nodes := 0 } = r at h1 h2 h3 hroot
  have hm : Mono st (tick r.2.2) := Mono.trans (s2 := r.2.2) ⟨h1.1, h1.2⟩ (mono_tick _)
  by_cases hc : cancelled r.2.2 = true
  · rw [if_pos hc]
    have := not_live_of_cancelled hc
    exact ⟨hm, h2, ⟨fun _ => this, fun _ => rfl⟩, fun hl => absurd hl this⟩
  · have hc' : cancelled r.2.2 = false := by simpa using hc
    have hlive : Live (tick r.2.2) := (cancelled_false_iff _).1 hc'
    rw [if_neg hc]
    refine ⟨hm, h2, ⟨fun h => (by cases h), fun h => absurd hlive h⟩, fun _ => ?_⟩
    obtain ⟨e1, e2⟩ := h3 ((mono_tick _).live hlive)
    refine ⟨_, _, by rw [e1], e2, ?_⟩
    intro d' hdd hl hne hnil
    have := hroot d' hdd hl ((mono_tick _).live hlive) hnil
    rw [e1] at this
    exact hne this

/-- The final state of `alphaBetaSearch` is one poll after the final state of `alphabeta`. -/
theorem alphaBetaSearch_state (g : Game P) (ex : P → Explore) (le : LeafEval P) (p : P) (d : Nat) (st : SState) :
    (alphaBetaSearch g ex le p d invalidScore invalidScore st).2 =
      tick (alphabeta g ex le (g.ply p) d p negInfScore infScore { st with nodes := 0 }).2.2 := by
  simp only [alphaBetaSearch, isInvalid, invalidScore, decide_true, if_true, poll_eq]
  split <;> rfl

/-- A sequence of searches (root position and depth vary) threading the state, hence the table. -/
def searchSeq (g : Game P) (ex : P → Explore) (le : LeafEval P) :
    List (P × Nat) → SState → List (Option SearchResult) × SState
  | [], st => ([], st)
  | (p, d) :: rest, st =>
    let r := alphaBetaSearch g ex le p d invalidScore invalidScore st
    let rs := searchSeq g ex le rest r.2
    (r.1 :: rs.1, rs.2)

/-- A sequence of searches over one table: `U` is the region the table is sound on (it contains the tree of
    every search of the sequence); the root-ply condition is needed on each search's own tree only. -/
theorem searchSeq_tt {g : Game P} (hev : EvalOk g) (ex : P → Explore) (le : LeafEval P) {U : Nat → P → Prop}
    (hh : HashOKOn g ex le U) :
    ∀ (l : List (P × Nat)) (st : SState), SoundOn g ex le U st.tt → st.cancelAt = none →
      (∀ pd ∈ l, (∀ n q, Tree g ex pd.1 pd.2 n q → U n q) ∧
        RootFreeOn g (Tree g ex pd.1 pd.2) (g.ply pd.1) ∧ leafGrade le + pd.2 ≤ 127) →
      (searchSeq g ex le l st).1.map (fun o => o.map (·.score)) =
        l.map (fun pd => some (V g ex le (g.ply pd.1) pd.2 pd.1)) ∧
      SoundOn g ex le U (searchSeq g ex le l st).2.tt ∧ (searchSeq g ex le l st).2.cancelAt = none := by
  intro l
  induction l with
  | nil => intro st hs hc _; exact ⟨rfl, hs, hc⟩
  | cons pd rest ih =>
    intro st hs hc hall
    obtain ⟨p, d⟩ := pd
    obtain ⟨hsub, hrf, hd⟩ := hall (p, d) List.mem_cons_self
    obtain ⟨h1, h2, _, h4⟩ := alphaBetaSearch_tt hev ex le (tree_closed g ex p d) hsub hh p hrf d hd
      (tree_root g ex p d) st hs
    have hc' : (alphaBetaSearch g ex le p d invalidScore invalidScore st).2.cancelAt = none := by
      rw [h1.1]; exact hc
    obtain ⟨n, pv, e, _⟩ := h4 (live_of_none hc')
    obtain ⟨i1, i2, i3⟩ := ih _ h2 hc' (fun pd hpd => hall pd (List.mem_cons_of_mem _ hpd))
    simp only [searchSeq, List.map_cons]
    refine ⟨?_, i2, i3⟩
    rw [i1, e]
    rfl

end Morlock.Proofs.AB
