import Morlock.Proofs.GenMeta
/-!
# Stage E of C01 (continued): the generator emits no move twice, and distinct generated moves stay
distinct under `absMove`
-/
namespace Morlock.Proofs.Gen
open Morlock Morlock.Model Morlock.Proofs.Attack

/-! ## Generic list facts -/

theorem nodup_flatMap_of_key {α β : Type} {l : List α} {f : α → List β} (key : β → α) (hl : l.Nodup)
    (hf : ∀ a ∈ l, (f a).Nodup) (hk : ∀ a ∈ l, ∀ x ∈ f a, key x = a) : (l.flatMap f).Nodup := by
  rw [List.nodup_iff_pairwise_ne, List.pairwise_flatMap]
  refine ⟨hf, ?_⟩
  refine List.Pairwise.imp_of_mem ?_ hl
  intro a a' ha ha' hne x hx y hy e
  exact hne (by rw [← hk a ha x hx, ← hk a' ha' y hy, e])

theorem nodup_map_of_inj {α β : Type} {l : List α} {f : α → β} (hl : l.Nodup)
    (hf : ∀ a ∈ l, ∀ a' ∈ l, f a = f a' → a = a') : (l.map f).Nodup := by
  rw [List.nodup_iff_pairwise_ne, List.pairwise_map]
  refine List.Pairwise.imp_of_mem ?_ hl
  intro a a' ha ha' hne e
  exact hne (hf a ha a' ha' e)

theorem nodup_append_of_key {α β : Type} {l1 l2 : List α} (key : α → β) (k1 k2 : β) (hne : k1 ≠ k2)
    (h1 : l1.Nodup) (h2 : l2.Nodup) (hk1 : ∀ x ∈ l1, key x = k1) (hk2 : ∀ x ∈ l2, key x = k2) :
    (l1 ++ l2).Nodup := by
  rw [List.nodup_append]
  refine ⟨h1, h2, fun a ha b hb e => hne ?_⟩
  rw [← hk1 a ha, ← hk2 b hb, e]

/-! ## The emitters -/

theorem emitMove_nodup (p : Position) (turn : Color) (t : MoveType) (piece : Piece) (fr : Nat) {ab : Nat}
    (hab : ab < 2 ^ 64) : (p.emitMove turn t piece fr ab).Nodup := by
  unfold Position.emitMove
  apply nodup_map_of_inj (toSquares_nodup hab)
  intro a _ a' _ e
  exact congrArg Move.to e

theorem emitPromo_nodup (p : Position) (turn : Color) (t : MoveType) (piece : Piece) (fr : Nat) {ab : Nat}
    (hab : ab < 2 ^ 64) : (p.emitPromo turn t piece fr ab).Nodup := by
  unfold Position.emitPromo
  apply nodup_flatMap_of_key Move.to (toSquares_nodup hab)
  · intro to _
    apply nodup_map_of_inj (by rw [promoPieces_eq]; decide)
    intro a _ a' _ e
    exact congrArg Move.promotion e
  · intro to _ x hx
    simp only [List.mem_map] at hx
    obtain ⟨pc, _, rfl⟩ := hx
    rfl

theorem ty_of_mem_emitMove {p : Position} {turn : Color} {t : MoveType} {piece : Piece} {fr ab : Nat}
    {m : Move} (h : m ∈ p.emitMove turn t piece fr ab) : m.ty = t ∧ m.from = fr ∧ m.piece = piece := by
  unfold Position.emitMove at h
  simp only [List.mem_map] at h
  obtain ⟨to, _, rfl⟩ := h
  exact ⟨rfl, rfl, rfl⟩

theorem ty_of_mem_emitPromo {p : Position} {turn : Color} {t : MoveType} {piece : Piece} {fr ab : Nat}
    {m : Move} (h : m ∈ p.emitPromo turn t piece fr ab) : m.ty = t ∧ m.from = fr ∧ m.piece = piece := by
  unfold Position.emitPromo at h
  simp only [List.mem_flatMap, List.mem_map] at h
  obtain ⟨to, _, pc, _, rfl⟩ := h
  exact ⟨rfl, rfl, rfl⟩

/-! ## The parts of the generator -/

theorem genSteps_nodup (p : Position) (turn : Color) (piece : Piece) (fr : Nat) :
    (genSteps p turn piece fr).Nodup := by
  unfold genSteps
  have hab : ((attackboard p.rotated fr piece).getD 0) &&& not64 (p.pieces turn .none) < 2 ^ 64 :=
    and_lt_right _ (not64_lt _)
  exact nodup_append_of_key Move.ty .normal .capture (by simp)
    (emitMove_nodup _ _ _ _ _ (and_lt_left _ hab)) (emitMove_nodup _ _ _ _ _ (and_lt_left _ hab))
    (fun x hx => (ty_of_mem_emitMove hx).1) (fun x hx => (ty_of_mem_emitMove hx).1)

theorem from_of_mem_genSteps {p : Position} {turn : Color} {piece : Piece} {fr : Nat} {m : Move}
    (h : m ∈ genSteps p turn piece fr) :
    m.from = fr ∧ m.piece = piece ∧ (m.ty = .normal ∨ m.ty = .capture) := by
  unfold genSteps at h
  rw [List.mem_append] at h
  rcases h with h | h
  · obtain ⟨a, b, c⟩ := ty_of_mem_emitMove h; exact ⟨b, c, Or.inl a⟩
  · obtain ⟨a, b, c⟩ := ty_of_mem_emitMove h; exact ⟨b, c, Or.inr a⟩

theorem genOfficers_nodup {p : Position} {b : Board} (h : Rep p b) (turn : Color) :
    (genOfficers p turn).Nodup := by
  unfold genOfficers
  apply nodup_flatMap_of_key Move.piece (by rw [promoPieces_eq]; decide)
  · intro piece _
    apply nodup_flatMap_of_key Move.from (toSquares_nodup (h.piecesLt turn piece))
    · intro fr _; exact genSteps_nodup p turn piece fr
    · intro fr _ x hx; exact (from_of_mem_genSteps hx).1
  · intro piece _ x hx
    simp only [List.mem_flatMap] at hx
    obtain ⟨fr, _, hx⟩ := hx
    exact (from_of_mem_genSteps hx).2.1

theorem genPawn_nodup (p : Position) (turn : Color) (fr : Nat) : (genPawn p turn fr).Nodup := by
  have hcb := pawnCaptureboard_lt turn fr
  have hpb := pawnMoveboard_lt p.rotated.rot turn (bitMask fr)
  unfold genPawn
  have n1 := emitMove_nodup p turn .capture .pawn fr
    (andNot_lt (pawnPromotionRank turn) (and_lt_left (p.pieces turn.opp .none) (and_lt_left (not64 (p.pieces turn .none)) hcb)))
  have n2 := emitMove_nodup p turn .push .pawn fr (andNot_lt (pawnPromotionRank turn) hpb)
  have n3 := emitMove_nodup p turn .jump .pawn fr
    (and_lt_left (pawnJumpRank turn) (pawnMoveboard_lt p.rotated.rot turn (pawnMoveboard p.rotated.rot turn (bitMask fr))))
  have n4 := emitPromo_nodup p turn .capturePromotion .pawn fr
    (and_lt_left (pawnPromotionRank turn) (and_lt_left (p.pieces turn.opp .none) (and_lt_left (not64 (p.pieces turn .none)) hcb)))
  have n5 := emitPromo_nodup p turn .promotion .pawn fr (and_lt_left (pawnPromotionRank turn) hpb)
  have n6 : (if (p.enpassant != 0) = true then p.emitMove turn .enPassant .pawn fr
      (pawnCaptureboard turn (bitMask fr) &&& not64 (p.pieces turn .none) &&& bitMask p.enpassant) else []).Nodup := by
    split
    · exact emitMove_nodup _ _ _ _ _ (and_lt_left _ (and_lt_left _ hcb))
    · exact List.nodup_nil
  have t6 : ∀ x ∈ (if (p.enpassant != 0) = true then p.emitMove turn .enPassant .pawn fr
      (pawnCaptureboard turn (bitMask fr) &&& not64 (p.pieces turn .none) &&& bitMask p.enpassant) else []),
      x.ty = .enPassant := by
    intro x hx
    split at hx
    · exact (ty_of_mem_emitMove hx).1
    · cases hx
  simp only [List.nodup_append, List.mem_append]
  refine ⟨⟨⟨⟨⟨n1, n2, ?_⟩, n3, ?_⟩, n4, ?_⟩, n5, ?_⟩, n6, ?_⟩
  · intro a ha b hb e
    have := (ty_of_mem_emitMove ha).1; have := (ty_of_mem_emitMove hb).1; simp_all
  · rintro a (ha | ha) b hb e
    · have := (ty_of_mem_emitMove ha).1; have := (ty_of_mem_emitMove hb).1; simp_all
    · have := (ty_of_mem_emitMove ha).1; have := (ty_of_mem_emitMove hb).1; simp_all
  · rintro a ((ha | ha) | ha) b hb e
    · have := (ty_of_mem_emitMove ha).1; have := (ty_of_mem_emitPromo hb).1; simp_all
    · have := (ty_of_mem_emitMove ha).1; have := (ty_of_mem_emitPromo hb).1; simp_all
    · have := (ty_of_mem_emitMove ha).1; have := (ty_of_mem_emitPromo hb).1; simp_all
  · rintro a (((ha | ha) | ha) | ha) b hb e
    · have := (ty_of_mem_emitMove ha).1; have := (ty_of_mem_emitPromo hb).1; simp_all
    · have := (ty_of_mem_emitMove ha).1; have := (ty_of_mem_emitPromo hb).1; simp_all
    · have := (ty_of_mem_emitMove ha).1; have := (ty_of_mem_emitPromo hb).1; simp_all
    · have := (ty_of_mem_emitPromo ha).1; have := (ty_of_mem_emitPromo hb).1; simp_all
  · rintro a ((((ha | ha) | ha) | ha) | ha) b hb e
    · have := (ty_of_mem_emitMove ha).1; have := t6 b hb; simp_all
    · have := (ty_of_mem_emitMove ha).1; have := t6 b hb; simp_all
    · have := (ty_of_mem_emitMove ha).1; have := t6 b hb; simp_all
    · have := (ty_of_mem_emitPromo ha).1; have := t6 b hb; simp_all
    · have := (ty_of_mem_emitPromo ha).1; have := t6 b hb; simp_all

theorem from_of_mem_genPawn {p : Position} {turn : Color} {fr : Nat} {m : Move}
    (h : m ∈ genPawn p turn fr) : m.from = fr ∧ m.piece = .pawn := by
  unfold genPawn at h
  simp only [List.mem_append] at h
  rcases h with ((((h | h) | h) | h) | h) | h
  · exact (ty_of_mem_emitMove h).2
  · exact (ty_of_mem_emitMove h).2
  · exact (ty_of_mem_emitMove h).2
  · exact (ty_of_mem_emitPromo h).2
  · exact (ty_of_mem_emitPromo h).2
  · split at h
    · exact (ty_of_mem_emitMove h).2
    · cases h

theorem genPawns_nodup {p : Position} {b : Board} (h : Rep p b) (turn : Color) :
    (genPawns p turn).Nodup := by
  unfold genPawns
  apply nodup_flatMap_of_key Move.from (toSquares_nodup (h.piecesLt turn .pawn))
  · intro fr _; exact genPawn_nodup p turn fr
  · intro fr _ x hx; exact (from_of_mem_genPawn hx).1

theorem genCastle_nodup (p : Position) (turn : Color) (fr right : Nat) (cmask : List Nat) (rookSq : Nat)
    (t : MoveType) (to : Nat) : (genCastle p turn fr right cmask rookSq t to).Nodup := by
  unfold genCastle
  split
  · exact emitMove_nodup _ _ _ _ _ (bitMask_lt_M64 to)
  · exact List.nodup_nil

theorem ty_of_mem_genCastle {p : Position} {turn : Color} {fr right : Nat} {cmask : List Nat} {rookSq : Nat}
    {t : MoveType} {to : Nat} {m : Move} (h : m ∈ genCastle p turn fr right cmask rookSq t to) :
    m.ty = t ∧ m.piece = .king := by
  unfold genCastle at h
  split at h
  · exact ⟨(ty_of_mem_emitMove h).1, (ty_of_mem_emitMove h).2.2⟩
  · cases h

theorem genCastles_nodup (p : Position) (turn : Color) (fr : Nat) : (genCastles p turn fr).Nodup := by
  cases turn <;> simp only [genCastles]
  all_goals
    exact nodup_append_of_key Move.ty .kingSideCastle .queenSideCastle (by simp)
      (genCastle_nodup ..) (genCastle_nodup ..)
      (fun x hx => (ty_of_mem_genCastle hx).1) (fun x hx => (ty_of_mem_genCastle hx).1)

theorem ty_of_mem_genCastles {p : Position} {turn : Color} {fr : Nat} {m : Move}
    (h : m ∈ genCastles p turn fr) :
    (m.ty = .kingSideCastle ∨ m.ty = .queenSideCastle) ∧ m.piece = .king := by
  cases turn <;> simp only [genCastles, List.mem_append] at h
  all_goals
    rcases h with h | h
    · exact ⟨Or.inl (ty_of_mem_genCastle h).1, (ty_of_mem_genCastle h).2⟩
    · exact ⟨Or.inr (ty_of_mem_genCastle h).1, (ty_of_mem_genCastle h).2⟩

theorem genKing_nodup (p : Position) (turn : Color) : (genKing p turn).Nodup := by
  unfold genKing
  split
  · exact List.nodup_nil
  · rw [List.nodup_append]
    refine ⟨genSteps_nodup .., genCastles_nodup .., ?_⟩
    intro a ha b hb e
    have h1 := (from_of_mem_genSteps ha).2.2
    have h2 := (ty_of_mem_genCastles hb).1
    subst e
    rcases h1 with h1 | h1 <;> rcases h2 with h2 | h2 <;> rw [h1] at h2 <;> cases h2

theorem piece_of_mem_genKing {p : Position} {turn : Color} {m : Move} (h : m ∈ genKing p turn) :
    m.piece = .king := by
  unfold genKing at h
  split at h
  · cases h
  · rw [List.mem_append] at h
    rcases h with h | h
    · exact (from_of_mem_genSteps h).2.1
    · exact (ty_of_mem_genCastles h).2

theorem piece_of_mem_genOfficers {p : Position} {turn : Color} {m : Move} (h : m ∈ genOfficers p turn) :
    m.piece ∈ Position.promoPieces := by
  unfold genOfficers at h
  simp only [List.mem_flatMap] at h
  obtain ⟨pc, hpc, fr, _, hx⟩ := h
  rw [(from_of_mem_genSteps hx).2.1]; exact hpc

theorem piece_of_mem_genPawns {p : Position} {turn : Color} {m : Move} (h : m ∈ genPawns p turn) :
    m.piece = .pawn := by
  unfold genPawns at h
  simp only [List.mem_flatMap] at h
  obtain ⟨fr, _, hx⟩ := h
  exact (from_of_mem_genPawn hx).2

/-- The generator never emits the same move (including metadata) twice. -/
theorem pseudoLegalMoves_nodup {p : Position} {b : Board} (h : Rep p b) (turn : Color) :
    (p.pseudoLegalMoves turn).Nodup := by
  rw [pseudoLegalMoves_eq, List.nodup_append, List.nodup_append]
  refine ⟨⟨genOfficers_nodup h turn, genPawns_nodup h turn, ?_⟩, genKing_nodup p turn, ?_⟩
  · intro a ha b hb e
    have h1 := piece_of_mem_genOfficers ha
    have h2 := piece_of_mem_genPawns hb
    rw [e, h2, mem_promoPieces] at h1
    simp at h1
  · intro a ha b hb e
    have h2 := piece_of_mem_genKing hb
    rw [List.mem_append] at ha
    rcases ha with ha | ha
    · have h1 := piece_of_mem_genOfficers ha
      rw [e, h2, mem_promoPieces] at h1
      simp at h1
    · have h1 := piece_of_mem_genPawns ha
      rw [e, h2] at h1; cases h1

/-! ## `absMove` is injective on generated moves -/

/-- The move type as a function of the board and `(from, to, promotion)`. -/
def tyOf (b : Board) (m : Move) : MoveType :=
  match b m.from with
  | some (_, .pawn) =>
    if m.from % 8 = m.to % 8 then
      (if m.from / 8 + 2 = m.to / 8 ∨ m.to / 8 + 2 = m.from / 8 then .jump
       else if m.promotion = .none then .push else .promotion)
    else if (b m.to).isNone then .enPassant
    else if m.promotion = .none then .capture else .capturePromotion
  | some (_, .king) =>
    if m.from % 8 = 3 ∧ m.to % 8 = 1 then .kingSideCastle
    else if m.from % 8 = 3 ∧ m.to % 8 = 5 then .queenSideCastle
    else if (b m.to).isNone then .normal else .capture
  | _ => if (b m.to).isNone then .normal else .capture

theorem StepMove.features {b : Board} {turn : Color} {pc : Piece} {m : Move} (hpw : pc ≠ .pawn)
    (hm : StepMove b turn pc m) :
    b m.from = some (turn, m.piece) ∧ m.capture = capAt b m.to turn ∧ m.ty = tyOf b m := by
  obtain ⟨hsq, hpc, hpr, ht, hd⟩ := hm
  refine ⟨by rw [hpc]; exact hsq, ?_, ?_⟩
  · rcases hd with ⟨hn, _, hc⟩ | ⟨k, hk, _, hc⟩
    · rw [hc, capAt_empty hn]
    · rw [hc, capAt_enemy hk]
  · have hbase : m.ty = if (b m.to).isNone then .normal else .capture := by
      rcases hd with ⟨hn, hty, _⟩ | ⟨k, hk, hty, _⟩
      · rw [hty, hn]; rfl
      · rw [hty, hk]; rfl
    unfold tyOf
    rw [hsq]
    cases pc
    case pawn => exact absurd rfl hpw
    case king =>
      have := king_target_file ht
      simp only
      rw [if_neg (by omega), if_neg (by omega)]
      exact hbase
    all_goals exact hbase

theorem PawnMove.features {b : Board} {castling ep : Nat} {turn : Color} (hw : WFb b castling ep turn)
    {m : Move} (hm : PawnMove b ep turn m) :
    b m.from = some (turn, m.piece) ∧ m.capture = capAt b m.to turn ∧ m.ty = tyOf b m := by
  obtain ⟨hsq, hpc, hk⟩ := hm
  refine ⟨by rw [hpc]; exact hsq, ?_⟩
  unfold tyOf
  rw [hsq]
  simp only
  rcases hk with ⟨hst, hb, hcap, hr⟩ | ⟨t1, hst1, hst2, hstart, hb1, hb2, hty, hpr, hcap⟩ |
    ⟨ht, k, hk, hcap, hr⟩ | ⟨he, hto, ht, hown, hty, hpr, hcap⟩
  · obtain ⟨c1, c2⟩ := step_coords hst
    have hf : m.from % 8 = m.to % 8 := by omega
    have hr12 : ¬ (m.from / 8 + 2 = m.to / 8 ∨ m.to / 8 + 2 = m.from / 8) := by
      rcases fwd_cases turn with e | e <;> rw [e] at c2 <;> omega
    refine ⟨by rw [hcap, capAt_empty hb], ?_⟩
    rw [if_pos hf, if_neg hr12]
    rcases hr with ⟨_, hty, hpr⟩ | ⟨_, hty, hpr⟩
    · rw [if_pos hpr, hty]
    · rw [if_neg (ne_none_of_mem_promoPieces hpr), hty]
  · obtain ⟨c1, c2⟩ := step_coords hst1
    obtain ⟨d1, d2⟩ := step_coords hst2
    have hf : m.from % 8 = m.to % 8 := by omega
    have hdbl : m.from / 8 + 2 = m.to / 8 ∨ m.to / 8 + 2 = m.from / 8 := by
      rcases fwd_cases turn with e | e <;> rw [e] at c2 d2 <;> omega
    refine ⟨by rw [hcap, capAt_empty hb2], ?_⟩
    rw [if_pos hf, if_pos hdbl, hty]
  · have hf : ¬ (m.from % 8 = m.to % 8) := by
      rcases mem_pawnTargets_iff.mp ht with hst | hst <;> obtain ⟨c1, c2⟩ := step_coords hst <;> omega
    refine ⟨by rw [hcap, capAt_enemy hk], ?_⟩
    rw [if_neg hf, hk]
    simp only [Option.isNone_some, Bool.false_eq_true, if_false]
    rcases hr with ⟨_, hty, hpr⟩ | ⟨_, hty, hpr⟩
    · rw [if_pos hpr, hty]
    · rw [if_neg (ne_none_of_mem_promoPieces hpr), hty]
  · obtain ⟨_, hempty, _, _⟩ := hw.ep_ok he
    rw [← hto] at hempty
    have hf : ¬ (m.from % 8 = m.to % 8) := by
      rcases mem_pawnTargets_iff.mp ht with hst | hst <;> obtain ⟨c1, c2⟩ := step_coords hst <;> omega
    refine ⟨by rw [hcap, capAt_empty hempty], ?_⟩
    rw [if_neg hf, hempty]
    simp only [Option.isNone_none, if_true]
    exact hty

theorem CastleMove.features {b : Board} {castling ep : Nat} {turn t : Color} (hw : WFb b castling ep t)
    {m : Move} (hm : CastleMove b castling turn m) (hfr : m.from = kingHomeSq turn) :
    b m.from = some (turn, m.piece) ∧ m.capture = capAt b m.to turn ∧ m.ty = tyOf b m := by
  have hk := hm.kingHome hw
  obtain ⟨cs, hcs, hr, hempty, hrook, hty, hpc, hto, hpr, hcap⟩ := hm
  refine ⟨by rw [hpc, hfr]; exact hk, ?_⟩
  unfold tyOf
  rw [hfr, hk]
  simp only
  cases turn
  all_goals
    simp only [castleParams, List.mem_cons, List.not_mem_nil, or_false] at hcs
    rcases hcs with rfl | rfl
    all_goals
      simp only at hty hto hempty
      have hbto : b m.to = none := by rw [hto]; exact hempty _ (by decide)
      refine ⟨by rw [hcap, capAt_empty hbto], ?_⟩
      rw [hty, hto]
      first
        | rw [if_pos (by decide)]
        | rw [if_neg (by decide), if_pos (by decide)]

/-- Every generated move: the moving piece, the captured piece and the type are functions of the
    board and `(from, to, promotion)`. -/
theorem PseudoMove.features {b : Board} {castling ep : Nat} {turn : Color} (hw : WFb b castling ep turn)
    {m : Move} (hm : PseudoMove b castling ep turn m) :
    b m.from = some (turn, m.piece) ∧ m.capture = capAt b m.to turn ∧ m.ty = tyOf b m := by
  rcases hm with ⟨pc, hpc, hs⟩ | hp | hs | ⟨hf, hc⟩
  · have hpw : pc ≠ .pawn := by
      rcases (mem_promoPieces pc).mp hpc with rfl | rfl | rfl | rfl <;> simp
    exact hs.features hpw
  · exact hp.features hw
  · exact hs.features (by simp)
  · exact hc.features hw hf

theorem absKind_inj {a b : Piece} (h : absKind a = absKind b) : a = b := by
  cases a <;> cases b <;> simp [absKind] at h ⊢

/-- `absMove` is injective on generated moves. -/
theorem PseudoMove.absMove_inj {b : Board} {castling ep : Nat} {turn : Color} (hw : WFb b castling ep turn)
    {m1 m2 : Move} (h1 : PseudoMove b castling ep turn m1) (h2 : PseudoMove b castling ep turn m2)
    (e : absMove m1 = absMove m2) : m1 = m2 := by
  obtain ⟨a1, b1, c1⟩ := h1.features hw
  obtain ⟨a2, b2, c2⟩ := h2.features hw
  simp only [absMove, Spec.SMove.mk.injEq] at e
  obtain ⟨ef, et, ep'⟩ := e
  have epr := absKind_inj ep'
  have epc : m1.piece = m2.piece := by
    rw [ef, a2] at a1
    exact ((Prod.mk.inj (Option.some.inj a1)).2).symm
  have ecap : m1.capture = m2.capture := by rw [b1, b2, et]
  have ety : m1.ty = m2.ty := by
    rw [c1, c2]; unfold tyOf; rw [ef, et, epr]
  cases m1; cases m2
  simp only at ef et epr epc ecap ety
  subst ef et epr epc ecap ety
  rfl

/-- **Stage E `pseudo_nodup`** on the mailbox board. -/
theorem pseudo_nodup_aux {p : Position} {b : Board} (h : Rep p b) {turn : Color}
    (hw : WFb b p.castling p.enpassant turn) : ((p.pseudoLegalMoves turn).map absMove).Nodup := by
  apply nodup_map_of_inj (pseudoLegalMoves_nodup h turn)
  intro a ha a' ha' e
  exact PseudoMove.absMove_inj hw ((mem_pseudoLegalMoves h hw a).mp ha) ((mem_pseudoLegalMoves h hw a').mp ha') e

end Morlock.Proofs.Gen
