import Morlock.Proofs.FltRndPos
/-! # The rationals `Q`: normalisation, order by cross-multiplication, and the value `ofME` of a (significand, exponent) pair -/
namespace Morlock.Model.Flt

namespace Q

/-- same rational value -/
def Eqv (x y : Q) : Prop := x.num * y.den = y.num * x.den
/-- `x ≤ y` as rationals (meaningful for positive denominators) -/
def Le (x y : Q) : Prop := x.num * y.den ≤ y.num * x.den
def Lt (x y : Q) : Prop := x.num * y.den < y.num * x.den
/-- lowest terms with a positive denominator: the form produced by `Q.norm` (and hence by `Q.add`, `Q.mul`, `rnd` …) -/
def Canon (x : Q) : Prop := 0 < x.den ∧ Nat.gcd x.num.natAbs x.den = 1

theorem beq_iff (x y : Q) : Q.beq x y = true ↔ Eqv x y := by simp [Q.beq, Eqv]
theorem le_iff (x y : Q) : Q.le x y = true ↔ Le x y := by simp [Q.le, Le]
theorem lt_iff (x y : Q) : Q.lt x y = true ↔ Lt x y := by simp [Q.lt, Lt]

theorem Eqv.refl (x : Q) : Eqv x x := rfl
theorem Eqv.symm {x y : Q} (h : Eqv x y) : Eqv y x := Eq.symm h
theorem Eqv.le {x y : Q} (h : Eqv x y) : Le x y := Int.le_of_eq h
theorem Eqv.ge {x y : Q} (h : Eqv x y) : Le y x := Int.le_of_eq h.symm

theorem Le.trans {x y z : Q} (hy : 0 < y.den) (h1 : Le x y) (h2 : Le y z) : Le x z := by
  unfold Le at *
  have hy' : (0 : Int) < y.den := by omega
  have a1 := Int.mul_le_mul_of_nonneg_right h1 (Int.natCast_nonneg z.den)
  have a2 := Int.mul_le_mul_of_nonneg_right h2 (Int.natCast_nonneg x.den)
  have : x.num * z.den * y.den ≤ z.num * x.den * y.den := by
    calc x.num * z.den * y.den = x.num * y.den * z.den := by grind
      _ ≤ y.num * x.den * z.den := a1
      _ = y.num * z.den * x.den := by grind
      _ ≤ z.num * y.den * x.den := a2
      _ = z.num * x.den * y.den := by grind
  exact Int.le_of_mul_le_mul_right this hy'

theorem Eqv.trans {x y z : Q} (hy : 0 < y.den) (h1 : Eqv x y) (h2 : Eqv y z) : Eqv x z :=
  Int.le_antisymm (Le.trans hy h1.le h2.le) (Le.trans hy h2.ge h1.ge)

theorem neg_neg (x : Q) : x.neg.neg = x := by
  cases x; simp [Q.neg]

theorem Le.neg {x y : Q} (h : Le x y) : Le y.neg x.neg := by
  unfold Le Q.neg at *; simp only [Int.neg_mul]; omega

theorem Eqv.neg {x y : Q} (h : Eqv x y) : Eqv x.neg y.neg := by
  unfold Eqv Q.neg at *; simp only [Int.neg_mul]; omega

/-! ### `norm` -/

theorem norm_den_pos {x : Q} (h : 0 < x.den) : 0 < (norm x).den := by
  unfold norm
  simp only []
  split
  · exact h
  · simp only []
    exact Nat.div_pos (Nat.le_of_dvd h (Nat.gcd_dvd_right _ _)) (Nat.gcd_pos_of_pos_right _ h)

theorem norm_eqv (x : Q) : Eqv (norm x) x := by
  unfold norm Eqv
  simp only []
  split
  · rfl
  · simp only []
    generalize hg : Nat.gcd x.num.natAbs x.den = g
    have hgn : (g : Int) ∣ x.num := by rw [Int.ofNat_dvd_left, ← hg]; exact Nat.gcd_dvd_left _ _
    have hgd : g ∣ x.den := by rw [← hg]; exact Nat.gcd_dvd_right _ _
    have hgpos : 0 < g := by omega
    obtain ⟨n', hn'⟩ := hgn
    obtain ⟨d', hd'⟩ := hgd
    rw [hn', hd', Int.mul_ediv_cancel_left _ (by omega), Nat.mul_div_cancel_left _ hgpos]
    simp only [Int.natCast_mul]
    grind

theorem norm_canon {x : Q} (h : 0 < x.den) : Canon (norm x) := by
  refine ⟨norm_den_pos h, ?_⟩
  unfold norm
  simp only []
  have hgpos := Nat.gcd_pos_of_pos_right x.num.natAbs h
  split
  · omega
  · simp only []
    have hgn : ((Nat.gcd x.num.natAbs x.den : Nat) : Int) ∣ x.num := by
      rw [Int.ofNat_dvd_left]; exact Nat.gcd_dvd_left _ _
    rw [Int.natAbs_ediv_of_dvd hgn, Int.natAbs_natCast]
    exact Nat.gcd_div_gcd_div_gcd_of_pos_right h

theorem norm_num_neg_iff (x : Q) (h : 0 < x.den) : (norm x).num < 0 ↔ x.num < 0 := by
  have h1 := norm_eqv x
  have h2 := norm_den_pos h
  unfold Eqv at h1
  have hd : (0 : Int) < x.den := by omega
  have hd' : (0 : Int) < (norm x).den := by omega
  constructor
  · intro hn
    rcases Int.lt_or_le x.num 0 with h0 | h0
    · exact h0
    · exfalso
      have : (norm x).num * x.den < 0 := Int.mul_neg_of_neg_of_pos hn hd
      have : 0 ≤ x.num * (norm x).den := Int.mul_nonneg h0 (Int.le_of_lt hd')
      omega
  · intro hn
    rcases Int.lt_or_le (norm x).num 0 with h0 | h0
    · exact h0
    · exfalso
      have : x.num * (norm x).den < 0 := Int.mul_neg_of_neg_of_pos hn hd'
      have : 0 ≤ (norm x).num * x.den := Int.mul_nonneg h0 (Int.le_of_lt hd)
      omega

/-- two canonical forms of the same value are equal -/
theorem Canon.eq_of_eqv {x y : Q} (hx : Canon x) (hy : Canon y) (h : Eqv x y) : x = y := by
  obtain ⟨xn, xd⟩ := x
  obtain ⟨yn, yd⟩ := y
  unfold Canon at hx hy
  unfold Eqv at h
  simp only [] at hx hy h
  -- |xn| * yd = |yn| * xd
  have habs : xn.natAbs * yd = yn.natAbs * xd := by
    have := congrArg Int.natAbs h
    simpa [Int.natAbs_mul] using this
  have c1 : Nat.Coprime xd xn.natAbs := by rw [Nat.Coprime, Nat.gcd_comm]; exact hx.2
  have c2 : Nat.Coprime yd yn.natAbs := by rw [Nat.Coprime, Nat.gcd_comm]; exact hy.2
  have d1 : xd ∣ yd := by
    apply c1.dvd_of_dvd_mul_left
    rw [habs]; exact Nat.dvd_mul_left _ _
  have d2 : yd ∣ xd := by
    apply c2.dvd_of_dvd_mul_left
    rw [← habs]; exact Nat.dvd_mul_left _ _
  have hd : xd = yd := Nat.dvd_antisymm d1 d2
  subst hd
  have hpos : (0 : Int) < xd := by omega
  have : xn = yn := Int.eq_of_mul_eq_mul_right (by omega) h
  subst this
  rfl

theorem canon_ofInt (i : Int) : Canon (Q.ofInt i) := by
  unfold Canon Q.ofInt; simp

end Q

/-! ### the value of a pair -/

/-- `|v| = m·2^e`, and `v` is canonical -/
theorem ofME_spec (neg : Bool) (m : Nat) (e : Int) :
    (ofME neg m e).Canon ∧ (ofME neg m e).num.natAbs * pd e = m * pn e * (ofME neg m e).den ∧
    ((ofME neg m e).num < 0 ↔ (neg = true ∧ 0 < m)) ∧ ((ofME neg m e).num = 0 ↔ m = 0) := by
  have key : ∀ v : Q, v = (if e ≥ 0 then ⟨(m * 2 ^ e.toNat : Nat), 1⟩ else Q.norm ⟨m, 2 ^ (-e).toNat⟩) →
      v.Canon ∧ v.num.natAbs * pd e = m * pn e * v.den ∧ 0 ≤ v.num ∧ (v.num = 0 ↔ m = 0) := by
    intro v hv
    split at hv
    · rename_i he
      subst hv
      refine ⟨by unfold Q.Canon; simp, ?_, Int.natCast_nonneg _, ?_⟩
      · simp only [pd_of_nonneg he, pn]
        rw [Int.natAbs_natCast]
      · simp only []
        have := Nat.two_pow_pos e.toNat
        constructor
        · intro h
          have h' : m * 2 ^ e.toNat = 0 := by omega
          rcases Nat.mul_eq_zero.mp h' with h1 | h1 <;> omega
        · intro h; subst h; simp
    · rename_i he
      have hpos : 0 < (⟨m, 2 ^ (-e).toNat⟩ : Q).den := Nat.two_pow_pos _
      have hc := Q.norm_canon hpos
      have he' := Q.norm_eqv ⟨m, 2 ^ (-e).toNat⟩
      have hs := Q.norm_num_neg_iff ⟨m, 2 ^ (-e).toNat⟩ hpos
      rw [← hv] at hc he' hs
      unfold Q.Eqv at he'
      simp only [] at he' hs
      have hnn : 0 ≤ v.num := by omega
      refine ⟨hc, ?_, hnn, ?_⟩
      · simp only [pn_of_nonpos (by omega : e ≤ 0), pd]
        have : (v.num.natAbs : Int) = v.num := Int.natAbs_of_nonneg hnn
        have h2 : ((v.num.natAbs * 2 ^ (-e).toNat : Nat) : Int) = ((m * 1 * v.den : Nat) : Int) := by
          simp only [Int.natCast_mul, this]
          rw [he']; simp
        exact Int.ofNat.inj h2
      · have hd : (0 : Int) < v.den := by have := hc.1; omega
        have h2 : (0 : Int) < ((2 ^ (-e).toNat : Nat) : Int) := by have := Nat.two_pow_pos (-e).toNat; omega
        constructor
        · intro h
          rw [h] at he'
          simp only [Int.zero_mul] at he'
          rcases Int.mul_eq_zero.mp he'.symm with h1 | h1 <;> omega
        · intro h
          subst h
          simp only [Int.natCast_zero, Int.zero_mul] at he'
          rcases Int.mul_eq_zero.mp he' with h1 | h1 <;> omega
  obtain ⟨hc, hv, hnn, hz⟩ := key _ rfl
  unfold ofME
  simp only []
  generalize (if e ≥ 0 then (⟨(m * 2 ^ e.toNat : Nat), 1⟩ : Q) else Q.norm ⟨m, 2 ^ (-e).toNat⟩) = v at *
  cases neg
  · simp only [Bool.false_eq_true, if_false]
    refine ⟨hc, hv, ?_, hz⟩
    simp; exact hnn
  · simp only [if_true]
    refine ⟨?_, ?_, ?_, ?_⟩
    · unfold Q.Canon Q.neg; simp only [Int.natAbs_neg]; exact hc
    · unfold Q.neg; simp only [Int.natAbs_neg]; exact hv
    · unfold Q.neg; simp only []
      constructor
      · intro h; refine ⟨trivial, ?_⟩
        apply Nat.pos_of_ne_zero; intro h0
        have := hz.mpr h0; omega
      · intro ⟨_, h⟩
        have : v.num ≠ 0 := fun h0 => by have := hz.mp h0; omega
        omega
    · unfold Q.neg; simp only []
      rw [← hz]; omega

end Morlock.Model.Flt
