import Morlock.Proofs.UciPos
/-!
# C10: the extension path agrees with the set-up from scratch
-/
namespace Morlock.Proofs.UciPos
open Morlock.Model Morlock.Model.UciSeq Morlock.Model.UciPos Morlock.Proofs.UciPosText

variable {E : Type}

/-- If the words of a well-formed command are those of another followed by more words, the two have
    the same position part and the extra words are the end of the move part. -/
theorem ext_words (c1 c2 : Cmd) (h1 : c1.Ok) (h2 : c2.Ok) (rest : List (List Char))
    (h : c2.header ++ c2.tail = c1.header ++ c1.tail ++ rest) :
    fenStr c2 = fenStr c1 ∧ c2.tail = c1.tail ++ rest := by
  unfold Cmd.header fenStr at *
  cases hf1 : c1.fen with
  | none =>
    cases hf2 : c2.fen with
    | none => simp only [hf1, hf2] at h ⊢; simpa using h
    | some fs2 =>
      simp only [hf1, hf2] at h
      have : kwFen = kwStartpos := by simpa using (List.cons.inj h).1
      exact absurd this (by decide)
  | some fs1 =>
    cases hf2 : c2.fen with
    | none =>
      simp only [hf1, hf2] at h
      have : kwStartpos = kwFen := by simpa using (List.cons.inj h).1
      exact absurd this (by decide)
    | some fs2 =>
      simp only [hf1, hf2] at h ⊢
      have hl1 := (h1.1 fs1 hf1).1
      have hl2 := (h2.1 fs2 hf2).1
      have h' : fs2 ++ c2.tail = fs1 ++ (c1.tail ++ rest) := by simpa using h
      have := List.append_inj h' (by omega)
      exact ⟨by rw [this.1], this.2⟩

/-- The heart of C10 on commands: the previous line and the new one are well-formed and playable,
    the engine holds the game of the previous line, and the new line extends it. -/
theorem position_extends (eng : Eng E) (e d : E) (c1 c2 : Cmd) (h1 : c1.Ok) (h2 : c2.Ok)
    (ht1 : Fen.trimSpace c1.render = c1.render) (ht2 : Fen.trimSpace c2.render = c2.render)
    (hd1 : denoteC eng c1 = some e) (hd2 : denoteC eng c2 = some d) (rest : List (List Char))
    (hc : continuation c1.render c2.render = some rest) :
    position eng (e, c1.render) c2.render = (d, c2.render) := by
  unfold position
  simp only [hc]
  cases hx : extend eng e rest with
  | mk e' ok =>
    cases ok with
    | false => simp only [Bool.false_eq_true, if_false]; exact fresh_render eng e' d c2 h2 ht2 hd2
    | true =>
      simp only [if_true]
      have hp := (extend_ok_iff eng e e' rest).1 hx
      have hne : ∀ w ∈ Fen.splitSpaces (Fen.trimSpace c2.render), Word w := by
        rw [ht2, splitSpaces_render c2 h2]; exact words_word c2 h2
      have ha := argsOf_continuation _ _ _ hc hne
      rw [argsOf_render c1 h1 ht1, argsOf_render c2 h2 ht2] at ha
      obtain ⟨hf, htl⟩ := ext_words c1 c2 h1 h2 rest ha
      rw [denoteC_eq eng c2 h2, hf, htl] at hd2
      rw [denoteC_eq eng c1 h1] at hd1
      have : ((eng.reset (fenStr c1)).bind fun e => playSkip eng e c1.tail).bind (fun e => playSkip eng e rest) = some d := by
        rw [← hd2]
        cases eng.reset (fenStr c1) with
        | none => rfl
        | some e0 => simp [playSkip_append]
      rw [hd1] at this
      simp only [Option.bind_some] at this
      rw [hp] at this
      cases this; rfl

end Morlock.Proofs.UciPos
