import Morlock.Model.Search
import Morlock.Proofs.ABRank
/-!
# Score-level facts for the alpha-beta proofs: graded validity, `lift`, `childBound`, `cutoff`
-/
namespace Morlock.Proofs.AB
open Morlock Morlock.Model Morlock.Model.Score Morlock.Spec
open Morlock.Props.C09

/-- How a parent sees the value of a child: one more ply of mate distance, from the other side. -/
def lift (s : Score) : Score := (incMate s).negate

/-- Graded validity: a valid score whose mate distance (if it is a mate score) is at most `n`. -/
def okN (n : Nat) (s : Score) : Prop :=
  Valid s ∧ (s.ty = .mateInX → -(n : Int) ≤ s.mate ∧ s.mate ≤ n)

instance (n : Nat) (s : Score) : Decidable (okN n s) := by unfold okN; infer_instance

theorem okN_mono {n m : Nat} {s : Score} (h : okN n s) (hnm : n ≤ m) : okN m s :=
  ⟨h.1, fun t => by have := h.2 t; omega⟩

theorem okN_valid {n : Nat} {s : Score} (h : okN n s) : Valid s := h.1

theorem okN_rankN {n : Nat} {s : Score} (h : okN n s) : rankN n (rank s) := by
  obtain ⟨t, m, p⟩ := s
  obtain ⟨hv, hm⟩ := h
  cases t <;> simp [Valid] at hv hm <;> simp [rank, rankN] <;> (try split) <;> omega

theorem okN_zero : okN 0 zeroScore := by decide
theorem okN_negInf : okN 0 negInfScore := by decide
theorem okN_inf : okN 0 infScore := by decide

theorem okN_heuristic {e : Int} (h1 : -2147483648 < e) (h2 : e < 2147483648) : okN 0 (heuristicScore e) := by
  simp [okN, Valid, heuristicScore, h1, h2]

theorem rank_zero : rank zeroScore = 0 := by decide
theorem rank_negInf : rank negInfScore = -1099511627776 := by decide
theorem rank_inf : rank infScore = 1099511627776 := by decide

theorem okN_incable {n : Nat} {s : Score} (h : okN n s) (hn : n ≤ 126) : Incable s :=
  fun t => by have := h.2 t; omega

theorem okN_noMin {n : Nat} {s : Score} (h : okN n s) (hn : n ≤ 127) : NoMin s :=
  fun t => by have := h.2 t; omega

theorem okN_lift {n : Nat} {s : Score} (h : okN n s) (hn : n ≤ 126) : okN (n + 1) (lift s) := by
  obtain ⟨t, m, p⟩ := s
  obtain ⟨hv, hm⟩ := h
  cases t <;> simp [Valid] at hv hm
  · simp [okN, lift, Valid, incMate, negate, heuristicScore, hv]; omega
  · by_cases hneg : m < 0 <;>
      simp [okN, lift, Valid, incMate, negate, mateInXScore, wrap8, hneg] <;> omega
  · simp [okN, lift, Valid, incMate, negate, mateInXScore, wrap8]; omega
  · simp [okN, lift, Valid, incMate, negate, mateInXScore, wrap8]; omega

theorem rank_lift {n : Nat} {s : Score} (h : okN n s) (hn : n ≤ 126) : rank (lift s) = fR (rank s) := by
  have hi := okN_incable h hn
  have hv' := valid_inc s h.1 hi
  have hl := okN_lift h hn
  unfold lift fR
  rw [rank_neg _ hv', rank_inc _ h.1 hi]
  -- NoMin of the incremented score
  obtain ⟨t, m, p⟩ := s
  obtain ⟨hv, hm⟩ := h
  cases t <;> simp [Valid] at hv hm
  · simp [NoMin, incMate]
  · by_cases hneg : m < 0 <;> simp [NoMin, incMate, mateInXScore, wrap8, hneg] <;> omega
  · simp [NoMin, incMate, mateInXScore]
  · simp [NoMin, incMate, mateInXScore]

/-- `childBound` on a mate score, without `wrap8`. -/
theorem cw_mate {m : Int} (h0 : m ≠ 0) (h1 : -127 ≤ m) (h2 : m ≤ 127) :
    childBound ⟨.mateInX, m, 0⟩ =
      if m = 1 then negInfScore else if m = -1 then infScore
      else if 0 < m then mateInXScore (-m + 1) else mateInXScore (-m - 1) := by
  have e : wrap8 (-m) = -m := by unfold wrap8; omega
  have e2 : 0 < m → wrap8 (-m + 1) = -m + 1 := by unfold wrap8; omega
  have e3 : m < 0 → wrap8 (-m - 1) = -m - 1 := by unfold wrap8; omega
  by_cases q1 : m = 1
  · subst q1; decide
  · by_cases q2 : m = -1
    · subst q2; decide
    · have q1' : ¬ (-m = 1) := by omega
      have q2' : ¬ (-m = -1) := by omega
      by_cases hpos : 0 < m
      · have hneg : -m < 0 := by omega
        simp [childBound, decMate, negate, mateInXScore, e, e2 hpos, q1, q2, q1', q2', hpos]
      · have hneg : ¬ (-m < 0) := by omega
        simp [childBound, decMate, negate, mateInXScore, e, e3 (by omega), q1, q2, q1', q2', hpos]

theorem cw_heuristic (p : Int) : childBound ⟨.heuristic, 0, p⟩ = heuristicScore (-p) := by
  simp [childBound, decMate, negate, heuristicScore]

theorem cw_inf : childBound ⟨.inf, 0, 0⟩ = negInfScore := by decide
theorem cw_negInf : childBound ⟨.negInf, 0, 0⟩ = infScore := by decide

theorem okN_cw {n : Nat} {s : Score} (h : okN (n + 1) s) (hn : n + 1 ≤ 127) : okN n (childBound s) := by
  obtain ⟨t, m, p⟩ := s
  obtain ⟨hv, hm⟩ := h
  cases t <;> simp [Valid] at hv hm
  · obtain ⟨rfl, h1, h2⟩ := hv
    rw [cw_heuristic]; exact okN_mono (okN_heuristic (by omega) (by omega)) (by omega)
  · obtain ⟨rfl, h0, _, _⟩ := hv
    rw [cw_mate h0 (by omega) (by omega)]
    (repeat' split) <;> simp [okN, Valid, mateInXScore, negInfScore, infScore] <;> omega
  · obtain ⟨rfl, rfl⟩ := hv; rw [cw_inf]; exact okN_mono okN_negInf (by omega)
  · obtain ⟨rfl, rfl⟩ := hv; rw [cw_negInf]; exact okN_mono okN_inf (by omega)

theorem okN_cw' {n : Nat} {s : Score} (h : okN n s) (hn : n ≤ 127) : okN n (childBound s) := by
  cases n with
  | zero =>
    obtain ⟨t, m, p⟩ := s
    obtain ⟨hv, hm⟩ := h
    cases t <;> simp [Valid] at hv hm
    · obtain ⟨rfl, h1, h2⟩ := hv
      rw [cw_heuristic]; exact okN_heuristic (by omega) (by omega)
    · omega
    · obtain ⟨rfl, rfl⟩ := hv; rw [cw_inf]; exact okN_negInf
    · obtain ⟨rfl, rfl⟩ := hv; rw [cw_negInf]; exact okN_inf
  | succ k => exact okN_mono (okN_cw h hn) (by omega)

theorem rank_mate (m : Int) :
    rank ⟨.mateInX, m, 0⟩ = if m < 0 then -34359738368 - m else 34359738368 - m := rfl

theorem rank_cw {n : Nat} {s : Score} (h : okN n s) (hn : n ≤ 127) : rank (childBound s) = cwR (rank s) := by
  obtain ⟨t, m, p⟩ := s
  obtain ⟨hv, hm⟩ := h
  cases t <;> simp [Valid] at hv hm
  · obtain ⟨rfl, h1, h2⟩ := hv
    rw [cw_heuristic]
    simp only [rank, heuristicScore, cwR, decR]
    (repeat' split) <;> omega
  · obtain ⟨rfl, h0, _, _⟩ := hv
    rw [cw_mate h0 (by omega) (by omega), rank_mate]
    by_cases q1 : m = 1
    · subst q1; decide
    · by_cases q2 : m = -1
      · subst q2; decide
      · by_cases hpos : 0 < m
        · rw [if_neg q1, if_neg q2, if_pos hpos, mateInXScore, rank_mate]
          unfold cwR decR; (repeat' split) <;> omega
        · rw [if_neg q1, if_neg q2, if_neg hpos, mateInXScore, rank_mate]
          unfold cwR decR; (repeat' split) <;> omega
  · obtain ⟨rfl, rfl⟩ := hv; rw [cw_inf]; decide
  · obtain ⟨rfl, rfl⟩ := hv; rw [cw_negInf]; decide

/-- The fail-hard cutoff test, in rank space. -/
theorem cutoff_iff {a b : Score} (ha : Valid a) (hb : Valid b) :
    cutoff a b = true ↔ rank b ≤ rank a := by
  unfold cutoff
  have h1 := lt_iff_rank b a hb ha
  constructor
  · intro h
    simp only [Bool.or_eq_true, beq_iff_eq] at h
    rcases h with h | h
    · rw [h]; omega
    · have := h1.1 h; omega
  · intro h
    simp only [Bool.or_eq_true, beq_iff_eq]
    by_cases e : rank b = rank a
    · left; exact (rank_injective b a hb ha e).symm
    · right; exact h1.2 (by omega)

theorem cutoff_false {a b : Score} (ha : Valid a) (hb : Valid b) (h : rank a < rank b) :
    cutoff a b = false := by
  cases hc : cutoff a b
  · rfl
  · have := (cutoff_iff ha hb).1 hc; omega

/-- The "raise alpha" step of both move loops. -/
theorem raise_spec {n : Nat} {a s : Score} (ha : okN n a) (hs : okN n s) :
    (a.less s = true ↔ rank a < rank s) ∧
    okN n (if a.less s then s else a) ∧
    rank (if a.less s then s else a) = Max.max (rank a) (rank s) := by
  have h := lt_iff_rank a s ha.1 hs.1
  refine ⟨h, ?_, ?_⟩
  · split <;> assumption
  · cases hl : a.less s
    · have : ¬ rank a < rank s := fun x => by simp [h.2 x] at hl
      simp; omega
    · have := h.1 hl
      simp; omega

theorem scoreMax_eq (a s : Score) : Score.max a s = if a.less s then s else a := rfl

theorem lift_inj {n : Nat} {x y : Score} (hx : okN n x) (hy : okN n y) (hn : n ≤ 126)
    (h : rank (lift x) = rank (lift y)) : x = y := by
  rw [rank_lift hx hn, rank_lift hy hn] at h
  exact rank_injective x y hx.1 hy.1
    (fR_inj (rankN_mono (okN_rankN hx) hn) (rankN_mono (okN_rankN hy) hn) h)

end Morlock.Proofs.AB
