import Morlock.Model.Board
/-!
# Arena lemmas for the game-history model (`Morlock.Model.World`)

* accessors after `setNode` / `setBoard` / `push`,
* the repetition map (`repGet` / `repSet`) as a function update,
* the well-formedness invariant `WFWorld` and its preservation by every board operation,
* `chain` / `anc`: the list of nodes reached by following `prev`, fuel-independent under `WFWorld`,
* explicit forms of `pushMove` / `popMove` / `fork` / `newBoard`.
-/
namespace Morlock.Proofs.Arena
open Morlock Morlock.Model Morlock.Model.World

/-! ## accessors -/

theorem node_of_lt {w : World} {i : Nat} (h : i < w.nodes.size) : w.node i = w.nodes[i] := by
  simp [node, Array.getD, h]

theorem node_of_ge {w : World} {i : Nat} (h : w.nodes.size ≤ i) : w.node i = default := by
  simp [node, Array.getD, Nat.not_lt.mpr h]

theorem board_of_ge {w : World} {b : Nat} (h : w.boards.size ≤ b) : w.board b = default := by
  simp [board, Array.getD, Nat.not_lt.mpr h]

theorem node_mk (ns : Array Node) (bs : Array Board) (i : Nat) :
    (World.mk ns bs).node i = ns.getD i default := rfl

theorem board_mk (ns : Array Node) (bs : Array Board) (i : Nat) :
    (World.mk ns bs).board i = bs.getD i default := rfl

theorem getD_push {α} (a : Array α) (x d : α) (j : Nat) :
    (a.push x).getD j d = if j = a.size then x else a.getD j d := by
  simp only [Array.getD_eq_getD_getElem?, Array.getElem?_push]
  by_cases h : j = a.size
  · simp [h]
  · simp [h]

theorem getD_setIfInBounds {α} (a : Array α) (i : Nat) (x d : α) (j : Nat) :
    (a.setIfInBounds i x).getD j d = if i = j ∧ j < a.size then x else a.getD j d := by
  simp only [Array.getD_eq_getD_getElem?, Array.getElem?_setIfInBounds]
  by_cases h : i = j
  · subst h
    by_cases h2 : i < a.size
    · simp [h2]
    · simp [h2]
  · simp [h]

@[simp] theorem setNode_boards (w : World) (i : Nat) (n : Node) : (w.setNode i n).boards = w.boards := rfl
@[simp] theorem setBoard_nodes (w : World) (b : Nat) (bd : Board) : (w.setBoard b bd).nodes = w.nodes := rfl
@[simp] theorem setNode_size (w : World) (i : Nat) (n : Node) : (w.setNode i n).nodes.size = w.nodes.size := by
  simp [setNode]
@[simp] theorem setBoard_size (w : World) (b : Nat) (bd : Board) : (w.setBoard b bd).boards.size = w.boards.size := by
  simp [setBoard]

theorem setNode_node (w : World) (i : Nat) (n : Node) (j : Nat) :
    (w.setNode i n).node j = if i = j ∧ j < w.nodes.size then n else w.node j := by
  show (w.nodes.setIfInBounds i n).getD j default = _
  rw [getD_setIfInBounds]; rfl

@[simp] theorem setNode_board (w : World) (i : Nat) (n : Node) (b : Nat) : (w.setNode i n).board b = w.board b := rfl
@[simp] theorem setBoard_node (w : World) (b : Nat) (bd : Board) (i : Nat) : (w.setBoard b bd).node i = w.node i := rfl

theorem setBoard_board (w : World) (b : Nat) (bd : Board) (j : Nat) :
    (w.setBoard b bd).board j = if b = j ∧ j < w.boards.size then bd else w.board j := by
  show (w.boards.setIfInBounds b bd).getD j default = _
  rw [getD_setIfInBounds]; rfl

/-! ## the repetition map as a function -/

theorem repGet_nil (h : Nat) : repGet [] h = 0 := rfl

theorem repGet_cons (e : Nat × Int) (r : List (Nat × Int)) (h : Nat) :
    repGet (e :: r) h = if e.1 = h then e.2 else repGet r h := by
  unfold repGet
  by_cases c : e.1 = h
  · simp [List.find?, c]
  · have cb : (e.1 == h) = false := by simp [c]
    simp [List.find?, cb, c]

theorem repGet_of_not_any (r : List (Nat × Int)) (h : Nat) (hn : r.any (fun e => e.1 == h) = false) :
    repGet r h = 0 := by
  induction r with
  | nil => rfl
  | cons e r ih =>
    simp only [List.any_cons, Bool.or_eq_false_iff, beq_eq_false_iff_ne] at hn
    rw [repGet_cons, if_neg hn.1, ih hn.2]

theorem repGet_map_set (r : List (Nat × Int)) (h : Nat) (v : Int) (h' : Nat)
    (ha : r.any (fun e => e.1 == h) = true) :
    repGet (r.map (fun e => if e.1 == h then (h, v) else e)) h' = if h' = h then v else repGet r h' := by
  induction r with
  | nil => simp at ha
  | cons e r ih =>
    rw [List.map_cons, repGet_cons, repGet_cons]
    by_cases c : e.1 = h
    · simp only [c, beq_self_eq_true, if_true]
      by_cases c' : h = h'
      · simp [c']
      · have : ¬ h' = h := fun x => c' x.symm
        simp only [c', this, if_false]
        by_cases hr : r.any (fun e => e.1 == h) = true
        · rw [ih hr, if_neg this]
        · -- no further occurrence of `h`: the map is the identity on the tail
          have hid : r.map (fun e => if e.1 == h then (h, v) else e) = r := by
            have hr' : ∀ x ∈ r, ¬ x.1 = h := by
              intro x hx hxe
              apply hr
              simp only [List.any_eq_true, beq_iff_eq]
              exact ⟨x, hx, hxe⟩
            conv => rhs; rw [← List.map_id r]
            apply List.map_congr_left
            intro x hx
            simp [hr' x hx]
          rw [hid]
    · have hr : r.any (fun e => e.1 == h) = true := by
        simp only [List.any_cons, Bool.or_eq_true, beq_iff_eq] at ha
        rcases ha with ha | ha
        · exact absurd ha c
        · exact ha
      have cb : (e.1 == h) = false := by simp [c]
      simp only [cb, Bool.false_eq_true, if_false]
      rw [ih hr]
      by_cases c' : e.1 = h'
      · have : ¬ h' = h := fun x => c (c'.trans x)
        simp [c', this]
      · simp [c']

/-- `repSet` is a function update on the map read by `repGet`. -/
theorem repGet_repSet (r : List (Nat × Int)) (h : Nat) (v : Int) (h' : Nat) :
    repGet (repSet r h v) h' = if h' = h then v else repGet r h' := by
  unfold repSet
  by_cases ha : r.any (fun e => e.1 == h) = true
  · rw [if_pos ha]; exact repGet_map_set r h v h' ha
  · rw [if_neg ha, repGet_cons]
    by_cases c : h = h'
    · simp [c]
    · have : ¬ h' = h := fun x => c x.symm
      simp [c, this]

/-! ## explicit forms of the operations -/

/-- The node appended by `pushMove`. -/
def pushNode (w : World) (z : ZTable) (b : Nat) (m : Move) (next : Position) : Node :=
  { pos := next, hash := z.move (w.cur b).hash (w.cur b).pos m,
    noprogress := updateNoProgress (w.cur b).noprogress m, prev := some (w.board b).current }

/-- The arena after `pushMove`: `next` of the current node set, new node appended. -/
def pushArena (w : World) (b : Nat) (m : Move) (n : Node) : World :=
  { w.setNode (w.board b).current { w.cur b with next := m } with
    nodes := (w.setNode (w.board b).current { w.cur b with next := m }).nodes.push n }

/-- The result computed by `pushMove` (it does not depend on the old result, which is re-opened first);
`actual` is the `identicalPositionCount` of the new node. -/
def pushResult (rep : Int) (actual : Int) (noprogress : Int) (pos : Position) (m : Move) : Result :=
  let result : Result := {}
  let result :=
    if rep ≥ (Gen.repetition3Limit : Int) then
      if actual ≥ (Gen.repetition5Limit : Int) then { outcome := .draw, reason := .repetition5 }
      else if actual ≥ (Gen.repetition3Limit : Int) then { outcome := .draw, reason := .repetition3 }
      else result
    else result
  let result := if noprogress ≥ (Gen.noprogressPlyLimit : Int) then { outcome := .draw, reason := .noProgress } else result
  if (m.ty = .capture || ((m.ty = .capturePromotion || m.ty = .promotion) && (m.promotion = .bishop || m.promotion = .knight)))
      && pos.hasInsufficientMaterial
  then { outcome := .draw, reason := .insufficientMaterial } else result

/-- The board record written by `pushMove`. -/
def pushBoard (w : World) (b : Nat) (m : Move) (n : Node) : Board :=
  let bd := w.board b
  let reps := repSet bd.repetitions n.hash (repGet bd.repetitions n.hash + 1)
  { repetitions := reps,
    castledW := if m.isCastle && bd.turn = .white then true else bd.castledW,
    castledB := if m.isCastle && bd.turn = .black then true else bd.castledB,
    ply := bd.ply + 1,
    moves := if bd.turn.opp = .white then bd.moves + 1 else bd.moves,
    turn := bd.turn.opp,
    result := pushResult (repGet reps n.hash)
      (identicalPositionCount (pushArena w b m n) n bd.turn.opp bd.turn.opp.opp n.noprogress) n.noprogress n.pos m,
    current := w.nodes.size }

def pushBlocked (w : World) (b : Nat) : Bool :=
  (w.board b).result.reason = .checkmate || (w.board b).result.reason = .stalemate

theorem pushMove_eq (w : World) (z : ZTable) (b : Nat) (m : Move) :
    w.pushMove z b m =
      if pushBlocked w b then none else
      match (w.cur b).pos.move m with
      | none => none
      | some next =>
        some ((pushArena w b m (pushNode w z b m next)).setBoard b (pushBoard w b m (pushNode w z b m next))) := by
  unfold pushMove pushBlocked
  dsimp only
  by_cases hb : (decide ((w.board b).result.reason = Reason.checkmate) || decide ((w.board b).result.reason = Reason.stalemate)) = true
  · rw [if_pos hb, if_pos hb]
  · rw [if_neg hb, if_neg hb]
    cases hm : (w.cur b).pos.move m with
    | none => rfl
    | some next =>
      have hs : (w.setNode (w.board b).current { w.cur b with next := m }).nodes.size = w.nodes.size :=
        setNode_size _ _ _
      dsimp only
      rw [hs]
      rfl

theorem pushMove_some {w w' : World} {z : ZTable} {b : Nat} {m : Move} (h : w.pushMove z b m = some w') :
    pushBlocked w b = false ∧ ∃ next, (w.cur b).pos.move m = some next ∧
      w' = (pushArena w b m (pushNode w z b m next)).setBoard b (pushBoard w b m (pushNode w z b m next)) := by
  rw [pushMove_eq] at h
  split at h
  · cases h
  · split at h
    · cases h
    · rename_i next hn
      exact ⟨by simp_all, next, hn, by cases h; rfl⟩

/-- The board record written by `popMove`; `pi` is the index of the previous node. -/
def popBoard (w : World) (b : Nat) (pi : Nat) : Board :=
  let bd := w.board b
  let c := w.cur b
  let p := w.node pi
  { repetitions := repSet bd.repetitions c.hash (repGet bd.repetitions c.hash - 1),
    castledW := if p.next.isCastle && bd.turn.opp = .white then false else bd.castledW,
    castledB := if p.next.isCastle && bd.turn.opp = .black then false else bd.castledB,
    ply := bd.ply - 1,
    moves := if bd.turn.opp = .black then bd.moves - 1 else bd.moves,
    turn := bd.turn.opp,
    result := { outcome := .undecided },
    current := pi }

theorem popMove_eq (w : World) (b : Nat) :
    w.popMove b =
      match (w.cur b).prev with
      | none => none
      | some pi => some ((w.setNode pi { w.node pi with next := {} }).setBoard b (popBoard w b pi), (w.node pi).next) := by
  rfl

theorem popMove_some {w w' : World} {b : Nat} {m : Move} (h : w.popMove b = some (w', m)) :
    ∃ pi, (w.cur b).prev = some pi ∧ m = (w.node pi).next ∧
      w' = (w.setNode pi { w.node pi with next := {} }).setBoard b (popBoard w b pi) := by
  rw [popMove_eq] at h
  split at h
  · cases h
  · rename_i pi hp
    refine ⟨pi, hp, ?_, ?_⟩ <;> cases h <;> rfl

/-! ## well-formedness -/

/-- Well-formed arena: every board's current node exists, and `prev` always points to a strictly
smaller index (the arena is append-only, so this also puts every `prev` in bounds: a node outside the
arena reads as the default node, whose `prev` is `none`). -/
structure WFWorld (w : World) : Prop where
  cur_lt : ∀ b, b < w.boards.size → (w.board b).current < w.nodes.size
  prev_lt : ∀ i p, (w.node i).prev = some p → p < i

theorem default_prev : (default : Node).prev = none := rfl

theorem WFWorld.lt_size {w : World} (_h : WFWorld w) {i p : Nat} (hp : (w.node i).prev = some p) :
    i < w.nodes.size := by
  apply Classical.byContradiction
  intro hn
  rw [node_of_ge (Nat.le_of_not_lt hn), default_prev] at hp
  cases hp

/-! ## paths and chains -/

/-- Indices reached from `o` by following `prev` (at most `fuel` of them), nearest first. -/
def path (w : World) : Nat → Option Nat → List Nat
  | 0, _ => []
  | _ + 1, none => []
  | f + 1, some i => i :: path w f (w.node i).prev

/-- Enough fuel to follow a well-formed chain from `o` to its root. -/
def bound : Option Nat → Nat
  | none => 0
  | some i => i + 1

@[simp] theorem path_zero (w : World) (o : Option Nat) : path w 0 o = [] := by
  cases o <;> rfl
@[simp] theorem path_none (w : World) (f : Nat) : path w f none = [] := by
  cases f <;> rfl
@[simp] theorem path_succ_some (w : World) (f i : Nat) :
    path w (f + 1) (some i) = i :: path w f (w.node i).prev := rfl

theorem bound_prev_le {w : World} (hw : ∀ i p, (w.node i).prev = some p → p < i) (i : Nat) :
    bound (w.node i).prev ≤ i := by
  cases h : (w.node i).prev with
  | none => simp [bound]
  | some p => have := hw i p h; simp [bound]; omega

theorem path_lt {w : World} (hw : ∀ i p, (w.node i).prev = some p → p < i) :
    ∀ (f : Nat) (o : Option Nat) (j : Nat), j ∈ path w f o → j < bound o := by
  intro f
  induction f with
  | zero => intro o j h; simp at h
  | succ f ih =>
    intro o j h
    cases o with
    | none => simp at h
    | some i =>
      simp only [path_succ_some, List.mem_cons] at h
      rcases h with h | h
      · subst h; simp [bound]
      · have h1 := ih _ _ h
        have h2 := bound_prev_le hw i
        simp only [bound]; omega

theorem path_fuel {w : World} (hw : ∀ i p, (w.node i).prev = some p → p < i) :
    ∀ (f1 f2 : Nat) (o : Option Nat), bound o ≤ f1 → bound o ≤ f2 → path w f1 o = path w f2 o := by
  intro f1
  induction f1 with
  | zero =>
    intro f2 o h1 _
    cases o with
    | none => simp
    | some i => simp [bound] at h1
  | succ f1 ih =>
    intro f2 o h1 h2
    cases o with
    | none => simp
    | some i =>
      cases f2 with
      | zero => simp [bound] at h2
      | succ f2 =>
        simp only [path_succ_some]
        have hb := bound_prev_le hw i
        simp only [bound] at h1 h2
        rw [ih f2 _ (by omega) (by omega)]

/-- The path only depends on the `prev` fields of the nodes on it. -/
theorem path_congr {w1 w2 : World} :
    ∀ (f : Nat) (o : Option Nat), (∀ j ∈ path w1 f o, (w2.node j).prev = (w1.node j).prev) →
      path w2 f o = path w1 f o := by
  intro f
  induction f with
  | zero => intro o _; simp
  | succ f ih =>
    intro o h
    cases o with
    | none => simp
    | some i =>
      simp only [path_succ_some]
      have hi : (w2.node i).prev = (w1.node i).prev := h i (by simp)
      rw [hi, ih]
      intro j hj
      exact h j (by simp [hj])

/-- Strict-ancestor indices of the chain starting at `o` (inclusive of `o` itself). -/
def ancIdx (w : World) (o : Option Nat) : List Nat := path w (bound o) o

/-- The nodes of the chain starting at `o`, nearest first. -/
def anc (w : World) (o : Option Nat) : List Node := (ancIdx w o).map w.node

@[simp] theorem ancIdx_none (w : World) : ancIdx w none = [] := rfl
@[simp] theorem anc_none (w : World) : anc w none = [] := rfl

theorem path_eq_ancIdx {w : World} (hw : WFWorld w) {f : Nat} {o : Option Nat} (h : bound o ≤ f) :
    path w f o = ancIdx w o :=
  path_fuel hw.prev_lt f (bound o) o h (Nat.le_refl _)

theorem ancIdx_some {w : World} (hw : WFWorld w) (i : Nat) :
    ancIdx w (some i) = i :: ancIdx w (w.node i).prev := by
  show path w (i + 1) (some i) = _
  rw [path_succ_some, path_eq_ancIdx hw (bound_prev_le hw.prev_lt i)]

theorem anc_some {w : World} (hw : WFWorld w) (i : Nat) :
    anc w (some i) = w.node i :: anc w (w.node i).prev := by
  simp [anc, ancIdx_some hw]

theorem ancIdx_lt {w : World} (hw : WFWorld w) {o : Option Nat} {j : Nat} (h : j ∈ ancIdx w o) : j < bound o :=
  path_lt hw.prev_lt _ _ _ h

/-- Frame rule for chains: if `w2` agrees with `w1` on every node of the chain, the chain is the same. -/
theorem anc_congr {w1 w2 : World} {o : Option Nat} (h : ∀ j ∈ ancIdx w1 o, w2.node j = w1.node j) :
    ancIdx w2 o = ancIdx w1 o ∧ anc w2 o = anc w1 o := by
  have h1 : ancIdx w2 o = ancIdx w1 o := path_congr _ _ (fun j hj => by rw [h j hj])
  refine ⟨h1, ?_⟩
  unfold anc
  rw [h1]
  apply List.map_congr_left
  intro j hj
  exact h j hj

/-! ## nodes and boards after each operation -/

@[simp] theorem pushArena_size (w : World) (b : Nat) (m : Move) (n : Node) :
    (pushArena w b m n).nodes.size = w.nodes.size + 1 := by
  simp [pushArena]

@[simp] theorem pushArena_boards (w : World) (b : Nat) (m : Move) (n : Node) :
    (pushArena w b m n).boards = w.boards := rfl

@[simp] theorem pushArena_board (w : World) (b : Nat) (m : Move) (n : Node) (j : Nat) :
    (pushArena w b m n).board j = w.board j := rfl

theorem pushArena_node (w : World) (b : Nat) (m : Move) (n : Node) (j : Nat) :
    (pushArena w b m n).node j =
      if j = w.nodes.size then n
      else if (w.board b).current = j ∧ j < w.nodes.size then { w.cur b with next := m } else w.node j := by
  show ((w.setNode (w.board b).current { w.cur b with next := m }).nodes.push n).getD j default = _
  rw [getD_push, setNode_size]
  by_cases h : j = w.nodes.size
  · simp [h]
  · simp only [h, if_false]
    exact setNode_node w _ _ j

theorem pushArena_node_new (w : World) (b : Nat) (m : Move) (n : Node) :
    (pushArena w b m n).node w.nodes.size = n := by
  rw [pushArena_node]; simp

/-- `pushMove` only rewrites `next` of the current node: `prev`, `pos`, `hash`, `noprogress` of old nodes stay. -/
theorem pushArena_node_old (w : World) (b : Nat) (m : Move) (n : Node) {j : Nat} (hj : j < w.nodes.size) :
    (pushArena w b m n).node j = if (w.board b).current = j then { w.node j with next := m } else w.node j := by
  rw [pushArena_node, if_neg (by omega)]
  by_cases h : (w.board b).current = j
  · simp [h, hj, cur]
  · simp [h]

theorem wf_empty : WFWorld {} := by
  constructor
  · intro b hb; simp at hb
  · intro i p h; rw [node_of_ge (by simp), default_prev] at h; cases h

theorem wf_setBoard {w : World} (hw : WFWorld w) (b : Nat) (bd : Board) (hc : bd.current < w.nodes.size) :
    WFWorld (w.setBoard b bd) := by
  constructor
  · intro j hj
    rw [setBoard_size] at hj
    rw [setBoard_board, setBoard_nodes]
    split
    · exact hc
    · exact hw.cur_lt j hj
  · intro i p h; exact hw.prev_lt i p h

theorem wf_pushArena {w : World} (hw : WFWorld w) {b : Nat} (hb : b < w.boards.size) (m : Move) {n : Node}
    (hn : n.prev = some (w.board b).current) : WFWorld (pushArena w b m n) := by
  have hc := hw.cur_lt b hb
  constructor
  · intro j hj
    simp only [pushArena_boards] at hj
    have := hw.cur_lt j hj
    simp only [pushArena_board, pushArena_size]; omega
  · intro i p hp
    rw [pushArena_node] at hp
    split at hp
    · rw [hn, Option.some.injEq] at hp
      omega
    · split at hp
      · rename_i hci
        rw [← hci.1]
        exact hw.prev_lt _ p hp
      · exact hw.prev_lt i p hp

theorem wf_push {w w' : World} {z : ZTable} {b : Nat} {m : Move} (hw : WFWorld w) (hb : b < w.boards.size)
    (h : w.pushMove z b m = some w') : WFWorld w' := by
  obtain ⟨_, next, _, rfl⟩ := pushMove_some h
  apply wf_setBoard (wf_pushArena hw hb m rfl)
  simp [pushBoard]

theorem wf_pop {w w' : World} {b : Nat} {m : Move} (hw : WFWorld w) (h : w.popMove b = some (w', m)) :
    WFWorld w' := by
  obtain ⟨pi, hp, _, rfl⟩ := popMove_some h
  have hlt : pi < w.nodes.size := by
    have h1 := hw.prev_lt _ _ hp
    have h2 := hw.lt_size hp
    omega
  have hA : WFWorld (w.setNode pi { w.node pi with next := {} }) := by
    constructor
    · intro j hj
      simpa using hw.cur_lt j hj
    · intro i p hp'
      rw [setNode_node] at hp'
      split at hp'
      · rename_i hc
        rw [← hc.1]
        exact hw.prev_lt pi p hp'
      · exact hw.prev_lt i p hp'
  apply wf_setBoard hA
  simpa [popBoard] using hlt

/-- The node appended by `fork`. -/
def forkNode (w : World) (b : Nat) : Node :=
  { pos := (w.cur b).pos, hash := (w.cur b).hash, noprogress := (w.cur b).noprogress, prev := (w.cur b).prev }

theorem fork_eq (w : World) (b : Nat) :
    w.fork b = ({ nodes := w.nodes.push (forkNode w b),
                  boards := w.boards.push { w.board b with current := w.nodes.size } }, w.boards.size) := rfl

theorem fork_node (w : World) (b : Nat) (j : Nat) :
    (w.fork b).1.node j = if j = w.nodes.size then forkNode w b else w.node j := by
  rw [fork_eq]; exact getD_push _ _ _ _

theorem fork_board (w : World) (b : Nat) (j : Nat) :
    (w.fork b).1.board j = if j = w.boards.size then { w.board b with current := w.nodes.size } else w.board j := by
  rw [fork_eq]; exact getD_push _ _ _ _

@[simp] theorem fork_nodes_size (w : World) (b : Nat) : (w.fork b).1.nodes.size = w.nodes.size + 1 := by
  simp [fork_eq]
@[simp] theorem fork_boards_size (w : World) (b : Nat) : (w.fork b).1.boards.size = w.boards.size + 1 := by
  simp [fork_eq]
@[simp] theorem fork_id (w : World) (b : Nat) : (w.fork b).2 = w.boards.size := rfl

theorem wf_fork {w : World} (hw : WFWorld w) (b : Nat) : WFWorld (w.fork b).1 := by
  constructor
  · intro j hj
    rw [fork_board, fork_nodes_size]
    rw [fork_boards_size] at hj
    split
    · simp
    · have := hw.cur_lt j (by omega); omega
  · intro i p hp
    rw [fork_node] at hp
    split at hp
    · rename_i hi
      simp only [forkNode] at hp
      have h1 := hw.prev_lt _ _ hp
      have h2 := hw.lt_size hp
      omega
    · exact hw.prev_lt i p hp

theorem newBoard_node (w : World) (z : ZTable) (pos : Position) (turn : Color) (np fm : Int) (j : Nat) :
    (w.newBoard z pos turn np fm).1.node j =
      if j = w.nodes.size then { pos := pos, noprogress := np, hash := z.hash pos turn } else w.node j :=
  getD_push _ _ _ _

theorem newBoard_board (w : World) (z : ZTable) (pos : Position) (turn : Color) (np fm : Int) (j : Nat) :
    (w.newBoard z pos turn np fm).1.board j =
      if j = w.boards.size then
        { repetitions := [(z.hash pos turn, 1)], ply := 1, moves := fm, turn := turn, current := w.nodes.size }
      else w.board j :=
  getD_push _ _ _ _

theorem wf_newBoard {w : World} (hw : WFWorld w) (z : ZTable) (pos : Position) (turn : Color) (np fm : Int) :
    WFWorld (w.newBoard z pos turn np fm).1 := by
  constructor
  · intro j hj
    rw [newBoard_board]
    have hs : (w.newBoard z pos turn np fm).1.nodes.size = w.nodes.size + 1 := by simp [newBoard]
    have hbs : (w.newBoard z pos turn np fm).1.boards.size = w.boards.size + 1 := by simp [newBoard]
    rw [hs]; rw [hbs] at hj
    split
    · simp
    · have := hw.cur_lt j (by omega); omega
  · intro i p hp
    rw [newBoard_node] at hp
    split at hp
    · cases hp
    · exact hw.prev_lt i p hp

theorem wf_adjudicate {w : World} (hw : WFWorld w) (b : Nat) (hb : b < w.boards.size) :
    WFWorld (w.adjudicateNoLegalMoves b).1 := by
  unfold adjudicateNoLegalMoves
  exact wf_setBoard hw _ _ (hw.cur_lt b hb)

end Morlock.Proofs.Arena
