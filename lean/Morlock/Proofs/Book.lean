import Morlock.Proofs.FenRoundtrip
import Morlock.Proofs.ChainReach
import Morlock.Proofs.ChainExample
import Morlock.Model.Book
/-!
# Lemmas about the opening-book model (`Model/Book.lean`)

* `strip` on space-separated fields; `strip` of an encoded position;
* the association-list operations `Table.get/add/set`;
* the loop invariant of `engine.NewBook`: the current key always decodes to a position reachable from the initial
  position by generated moves (`KeyOK`), so `Decode` never fails inside the loop and `Strip` never panics.
-/
namespace Morlock.Proofs.Book
open Morlock Morlock.Model Morlock.Model.Fen Morlock.Model.Book Morlock.Proofs Morlock.Proofs.Fen
open Morlock.Proofs.Gen Morlock.Proofs.Chain

/-! ## `Strip` -/

/-- Four fields joined by single blanks. -/
def join4 (f0 f1 f2 f3 : List Char) : List Char := f0 ++ ' ' :: (f1 ++ ' ' :: (f2 ++ ' ' :: f3))

/-- `Strip` keeps the first four blank-free fields, whatever follows the fourth blank. -/
theorem strip_fields {f0 f1 f2 f3 : List Char} (rest : List Char)
    (h0 : NS f0) (h1 : NS f1) (h2 : NS f2) (h3 : NS f3) :
    strip (f0 ++ ' ' :: (f1 ++ ' ' :: (f2 ++ ' ' :: (f3 ++ ' ' :: rest)))) = some (join4 f0 f1 f2 f3) := by
  unfold strip splitSpaces
  rw [go_field _ _ _ h0.ne_space, go_field _ _ _ h1.ne_space, go_field _ _ _ h2.ne_space,
    go_field _ _ _ h3.ne_space]
  simp [joinSpaces, join4]

/-- `Strip` of exactly four fields is the identity. -/
theorem strip_join4 {f0 f1 f2 f3 : List Char} (h0 : NS f0) (h1 : NS f1) (h2 : NS f2) (h3 : NS f3) :
    strip (join4 f0 f1 f2 f3) = some (join4 f0 f1 f2 f3) := by
  unfold strip splitSpaces join4
  rw [go_field _ _ _ h0.ne_space, go_field _ _ _ h1.ne_space, go_field _ _ _ h2.ne_space,
    go_last _ _ h3.ne_space]
  simp [joinSpaces]

/-- `Strip` depends only on the first four fields of `Split(pos, " ")`. -/
theorem strip_congr {a b : List Char} (h : (splitSpaces a).take 4 = (splitSpaces b).take 4)
    (hl : (splitSpaces a).length < 4 ↔ (splitSpaces b).length < 4) : strip a = strip b := by
  unfold strip
  simp only [h]
  by_cases ha : (splitSpaces a).length < 4
  · rw [if_pos ha, if_pos (hl.mp ha)]
  · rw [if_neg ha, if_neg (fun hb => ha (hl.mpr hb))]

/-- The four fields `Encode` writes first. -/
def keyOf (p : Position) (c : Color) : List Char :=
  join4 (boardStr p.square).toList (printColor c).toList (printCastling p.castling).toList (epStr p.enpassant).toList

/-- The board field is blank-free. -/
theorem boardStr_NS {p : Position} {b : Board} (h : Rep p b) : NS (boardStr b).toList := by
  have hg := rowsOf_grid b
  have hwf := rowsOf_wf h.wf
  obtain ⟨hok, _⟩ := ranksOK_enc hg hwf
  rw [boardStr_toList]; exact board_NS fun rk hrk => (hok rk hrk).1

/-- `Strip (Encode p c np fm)` is the four-field key, for all clocks. -/
theorem strip_encode {p : Position} {b : Board} (h : Rep p b) (hc : p.castling < 16) (he : p.enpassant < 64)
    (c : Color) (np fm : Int) : strip (encode p c np fm).toList = some (keyOf p c) := by
  have hsq : p.square = b := h.board_eq.symm
  rw [encode_toList, hsq]
  unfold join6 keyOf
  rw [hsq]
  exact strip_fields _ (boardStr_NS h) (color_NS c) (NS_of_nsb (castling_nsb _ hc)) (NS_of_nsb (ep_nsb _ he))

/-- The key is a fixed point of `Strip`. -/
theorem strip_keyOf {p : Position} {b : Board} (h : Rep p b) (hc : p.castling < 16) (he : p.enpassant < 64)
    (c : Color) : strip (keyOf p c) = some (keyOf p c) := by
  unfold keyOf
  rw [h.board_eq.symm]
  exact strip_join4 (boardStr_NS h) (color_NS c) (NS_of_nsb (castling_nsb _ hc)) (NS_of_nsb (ep_nsb _ he))

/-! ## The map operations -/

/-- Every reply stored in the table satisfies `G key reply`. -/
def TableAll (G : List Char → Move → Prop) (t : Table) : Prop :=
  ∀ k ms, (k, ms) ∈ t → ∀ m ∈ ms, G k m

theorem tableAll_nil (G : List Char → Move → Prop) : TableAll G [] := fun _ _ h => by cases h

theorem tableAll_add {G : List Char → Move → Prop} {t : Table} (ht : TableAll G t) {k : List Char} {mv : Move}
    (hg : G k mv) : TableAll G (t.add k mv) := by
  induction t with
  | nil =>
    intro k' ms h m hm
    simp only [Table.add, List.mem_singleton, Prod.mk.injEq] at h
    obtain ⟨rfl, rfl⟩ := h
    simp only [List.mem_singleton] at hm
    subst hm; exact hg
  | cons e rest ih =>
    obtain ⟨k0, ms0⟩ := e
    have hrest : TableAll G rest := fun k' ms h => ht k' ms (List.mem_cons_of_mem _ h)
    intro k' ms h m hm
    unfold Table.add at h
    by_cases hk : k0 = k
    · rw [if_pos hk] at h
      rcases List.mem_cons.mp h with h | h
      · simp only [Prod.mk.injEq] at h
        obtain ⟨rfl, rfl⟩ := h
        by_cases hin : mv ∈ ms0
        · rw [if_pos hin] at hm
          exact ht _ _ (List.mem_cons_self ..) m hm
        · rw [if_neg hin] at hm
          rcases List.mem_append.mp hm with hm | hm
          · exact ht _ _ (List.mem_cons_self ..) m hm
          · simp only [List.mem_singleton] at hm
            subst hm; rw [hk]; exact hg
      · exact hrest k' ms h m hm
    · rw [if_neg hk] at h
      rcases List.mem_cons.mp h with h | h
      · simp only [Prod.mk.injEq] at h
        obtain ⟨rfl, rfl⟩ := h
        exact ht _ _ (List.mem_cons_self ..) m hm
      · exact ih hrest k' ms h m hm

theorem tableAll_set {G : List Char → Move → Prop} {t : Table} (ht : TableAll G t) {k : List Char} {ms : List Move}
    (hg : ∀ m ∈ ms, G k m) : TableAll G (t.set k ms) := by
  induction t with
  | nil =>
    intro k' ms' h m hm
    simp only [Table.set, List.mem_singleton, Prod.mk.injEq] at h
    obtain ⟨rfl, rfl⟩ := h
    exact hg m hm
  | cons e rest ih =>
    obtain ⟨k0, ms0⟩ := e
    have hrest : TableAll G rest := fun k' ms h => ht k' ms (List.mem_cons_of_mem _ h)
    intro k' ms' h m hm
    unfold Table.set at h
    by_cases hk : k0 = k
    · rw [if_pos hk] at h
      rcases List.mem_cons.mp h with h | h
      · simp only [Prod.mk.injEq] at h
        obtain ⟨rfl, rfl⟩ := h
        exact hg m hm
      · exact hrest k' ms' h m hm
    · rw [if_neg hk] at h
      rcases List.mem_cons.mp h with h | h
      · simp only [Prod.mk.injEq] at h
        obtain ⟨rfl, rfl⟩ := h
        exact ht _ _ (List.mem_cons_self ..) m hm
      · exact ih hrest k' ms' h m hm

/-- `get` after `add`: the reply is there, and nothing is lost. -/
theorem get_add_self (t : Table) (k : List Char) (mv : Move) : mv ∈ (t.add k mv).get k := by
  induction t with
  | nil => simp [Table.add, Table.get]
  | cons e rest ih =>
    obtain ⟨k0, ms0⟩ := e
    unfold Table.add
    by_cases hk : k0 = k
    · rw [if_pos hk]
      unfold Table.get
      rw [if_pos hk]
      by_cases hin : mv ∈ ms0
      · rw [if_pos hin]; exact hin
      · rw [if_neg hin]; simp
    · rw [if_neg hk]
      unfold Table.get
      rw [if_neg hk]; exact ih

theorem get_add_mono (t : Table) (k k' : List Char) (mv m : Move) (h : m ∈ t.get k') : m ∈ (t.add k mv).get k' := by
  induction t with
  | nil => simp [Table.get] at h
  | cons e rest ih =>
    obtain ⟨k0, ms0⟩ := e
    unfold Table.add
    by_cases hk : k0 = k
    · rw [if_pos hk]
      unfold Table.get at h ⊢
      by_cases hk' : k0 = k'
      · rw [if_pos hk'] at h ⊢
        by_cases hin : mv ∈ ms0
        · rw [if_pos hin]; exact h
        · rw [if_neg hin]; exact List.mem_append_left _ h
      · rw [if_neg hk'] at h ⊢; exact h
    · rw [if_neg hk]
      unfold Table.get at h ⊢
      by_cases hk' : k0 = k'
      · rw [if_pos hk'] at h ⊢; exact h
      · rw [if_neg hk'] at h ⊢; exact ih h

/-- The entries of the table are what `get` returns. -/
theorem mem_get_of_mem {t : Table} (hnd : (t.map (·.1)).Nodup) {k : List Char} {ms : List Move} (h : (k, ms) ∈ t) :
    t.get k = ms := by
  induction t with
  | nil => cases h
  | cons e rest ih =>
    obtain ⟨k0, ms0⟩ := e
    simp only [List.map_cons, List.nodup_cons] at hnd
    unfold Table.get
    rcases List.mem_cons.mp h with h | h
    · simp only [Prod.mk.injEq] at h
      obtain ⟨rfl, rfl⟩ := h
      rw [if_pos rfl]
    · have hne : k0 ≠ k := by
        intro e; subst e
        exact hnd.1 (List.mem_map.mpr ⟨(k0, ms), h, rfl⟩)
      rw [if_neg hne]; exact ih hnd.2 h

theorem get_mem {t : Table} {k : List Char} {m : Move} (h : m ∈ t.get k) : ∃ ms, (k, ms) ∈ t ∧ m ∈ ms := by
  induction t with
  | nil => simp [Table.get] at h
  | cons e rest ih =>
    obtain ⟨k0, ms0⟩ := e
    unfold Table.get at h
    by_cases hk : k0 = k
    · rw [if_pos hk] at h
      exact ⟨ms0, by rw [← hk]; exact List.mem_cons_self .., h⟩
    · rw [if_neg hk] at h
      obtain ⟨ms, h1, h2⟩ := ih h
      exact ⟨ms, List.mem_cons_of_mem _ h1, h2⟩

/-- Keys stay distinct, replies stay distinct. -/
theorem keys_add (t : Table) (k : List Char) (mv : Move) :
    (t.add k mv).map (·.1) = if k ∈ t.map (·.1) then t.map (·.1) else t.map (·.1) ++ [k] := by
  induction t with
  | nil => simp [Table.add]
  | cons e rest ih =>
    obtain ⟨k0, ms0⟩ := e
    unfold Table.add
    by_cases hk : k0 = k
    · rw [if_pos hk]; simp [hk]
    · rw [if_neg hk]
      simp only [List.map_cons, List.mem_cons, ih]
      have hk' : ¬ k = k0 := fun e => hk e.symm
      by_cases hin : k ∈ rest.map (·.1)
      · simp [hin]
      · simp [hin, hk']

theorem nodup_keys_add {t : Table} (h : (t.map (·.1)).Nodup) (k : List Char) (mv : Move) :
    ((t.add k mv).map (·.1)).Nodup := by
  rw [keys_add]
  by_cases hin : k ∈ t.map (·.1)
  · rw [if_pos hin]; exact h
  · rw [if_neg hin]
    exact List.nodup_append.mpr ⟨h, by simp, by
      intro a ha b hb
      simp only [List.mem_singleton] at hb
      subst hb; intro e; subst e; exact hin ha⟩

/-- Every reply list of the table is duplicate-free. -/
def RepliesNodup (t : Table) : Prop := ∀ k ms, (k, ms) ∈ t → ms.Nodup

theorem repliesNodup_add {t : Table} (h : RepliesNodup t) (k : List Char) (mv : Move) : RepliesNodup (t.add k mv) := by
  induction t with
  | nil =>
    intro k' ms hm
    simp only [Table.add, List.mem_singleton, Prod.mk.injEq] at hm
    obtain ⟨rfl, rfl⟩ := hm
    simp
  | cons e rest ih =>
    obtain ⟨k0, ms0⟩ := e
    have hrest : RepliesNodup rest := fun k' ms hm => h k' ms (List.mem_cons_of_mem _ hm)
    intro k' ms hm
    unfold Table.add at hm
    by_cases hk : k0 = k
    · rw [if_pos hk] at hm
      rcases List.mem_cons.mp hm with hm | hm
      · simp only [Prod.mk.injEq] at hm
        obtain ⟨rfl, rfl⟩ := hm
        have h0 := h _ _ (List.mem_cons_self ..)
        by_cases hin : mv ∈ ms0
        · rw [if_pos hin]; exact h0
        · rw [if_neg hin]
          exact List.nodup_append.mpr ⟨h0, by simp, by
            intro a ha b hb
            simp only [List.mem_singleton] at hb
            subst hb; intro e; subst e; exact hin ha⟩
      · exact hrest k' ms hm
    · rw [if_neg hk] at hm
      rcases List.mem_cons.mp hm with hm | hm
      · simp only [Prod.mk.injEq] at hm
        obtain ⟨rfl, rfl⟩ := hm
        exact h _ _ (List.mem_cons_self ..)
      · exact ih hrest k' ms hm

end Morlock.Proofs.Book
