import Morlock.Proofs.FltRndPos
/-! # `sqrtPos`: the correctly rounded square root -/
namespace Morlock.Model.Flt

/-- `floor (sqrt (a / b / 4^e))` as computed by `sqrtPos` -/
def sfl (a b : Nat) (e : Int) : Nat := Nat.sqrt ((scaled a b (2 * e)).1 / (scaled a b (2 * e)).2)

def sadj (f : Fmt) (a b : Nat) (e : Int) : Int :=
  if sfl a b e ≥ 2 ^ f.p then e + 1 else if sfl a b e < 2 ^ (f.p - 1) then e - 1 else e

def sguess (f : Fmt) (a b : Nat) : Int := ((Nat.log2 a : Int) - (Nat.log2 b : Int)) / 2 - ((f.p : Int) - 1)

/-- the exponent used by `sqrtPos` -/
def sexpo (f : Fmt) (a b : Nat) : Int :=
  if sadj f a b (sadj f a b (sadj f a b (sguess f a b))) < f.emin then f.emin
  else sadj f a b (sadj f a b (sadj f a b (sguess f a b)))

/-- the significand before renormalisation: `floor` or `floor + 1`, by comparison with the midpoint -/
def ssig (a b : Nat) (e : Int) : Nat :=
  let m0 := sfl a b e
  let lhs := (2 * m0 + 1) ^ 2 * (b * pn (2 * e))
  let rhs := 4 * (a * pd (2 * e))
  if lhs < rhs then m0 + 1 else if lhs > rhs then m0 else if m0 % 2 == 0 then m0 else m0 + 1

theorem sqrtPos_eq (f : Fmt) (a b : Nat) :
    sqrtPos f a b =
      if (carry f (ssig a b (sexpo f a b)) (sexpo f a b)).2 + ((f.p : Int) - 1) > f.emax then none
      else some (carry f (ssig a b (sexpo f a b)) (sexpo f a b)) := by
  simp only [sqrtPos, sexpo, sadj, sfl, ssig, sguess, carry, scaled_eq]

theorem sfl_spec {a b : Nat} (hb : 0 < b) (e : Int) :
    sfl a b e * sfl a b e * (b * pn (2 * e)) ≤ a * pd (2 * e) ∧
    a * pd (2 * e) < (sfl a b e + 1) * (sfl a b e + 1) * (b * pn (2 * e)) := by
  unfold sfl
  rw [scaled_eq]
  simp only []
  have hs2 : 0 < b * pn (2 * e) := Nat.mul_pos hb (pn_pos _)
  generalize a * pd (2 * e) = s1
  generalize b * pn (2 * e) = s2 at *
  have h1 := Nat.sqrt_le (s1 / s2)
  have h2 := Nat.lt_succ_sqrt (s1 / s2)
  have hdm := Nat.div_add_mod s1 s2
  have hlt := Nat.mod_lt s1 hs2
  generalize Nat.sqrt (s1 / s2) = m at *
  generalize s1 / s2 = q at *
  constructor
  · calc m * m * s2 ≤ q * s2 := Nat.mul_le_mul_right _ h1
      _ = s2 * q := Nat.mul_comm _ _
      _ ≤ s1 := by omega
  · have h3 : q + 1 ≤ (m + 1) * (m + 1) := h2
    calc s1 < s2 * q + s2 := by omega
      _ = (q + 1) * s2 := by grind
      _ ≤ (m + 1) * (m + 1) * s2 := Nat.mul_le_mul_right _ h3

theorem sfl_lt_iff {a b : Nat} (hb : 0 < b) (e : Int) (M : Nat) :
    sfl a b e < M ↔ a * pd (2 * e) < M * M * (b * pn (2 * e)) := by
  obtain ⟨h1, h2⟩ := sfl_spec (a := a) hb e
  have hs2 : 0 < b * pn (2 * e) := Nat.mul_pos hb (pn_pos _)
  constructor
  · intro h
    have : (sfl a b e + 1) * (sfl a b e + 1) ≤ M * M := Nat.mul_le_mul h h
    exact Nat.lt_of_lt_of_le h2 (Nat.mul_le_mul_right _ this)
  · intro h
    rcases Nat.lt_or_ge (sfl a b e) M with h0 | h0
    · exact h0
    · exfalso
      have : M * M ≤ sfl a b e * sfl a b e := Nat.mul_le_mul h0 h0
      have := Nat.mul_le_mul_right (b * pn (2 * e)) this
      omega

/-- `|√(a/b) − m·2^e| ≤ 2^e / 2`, stated with squares: `(2m−1)²·4^e ≤ 4·a/b ≤ (2m+1)²·4^e` -/
def SqrtHalfUlp (a b m : Nat) (e : Int) : Prop :=
  (m = 0 ∨ (2 * m - 1) ^ 2 * (b * pn (2 * e)) ≤ 4 * (a * pd (2 * e))) ∧
    4 * (a * pd (2 * e)) ≤ (2 * m + 1) ^ 2 * (b * pn (2 * e))

/-- `√(a/b)` is exactly half way between two neighbours -/
def SqrtTie (a b m : Nat) (e : Int) : Prop :=
  (2 * m - 1) ^ 2 * (b * pn (2 * e)) = 4 * (a * pd (2 * e)) ∨ 4 * (a * pd (2 * e)) = (2 * m + 1) ^ 2 * (b * pn (2 * e))

theorem ssig_cases (a b : Nat) (e : Int) : ∃ m0 m, sfl a b e = m0 ∧ ssig a b e = m ∧
    (((2 * m0 + 1) ^ 2 * (b * pn (2 * e)) < 4 * (a * pd (2 * e)) ∧ m = m0 + 1) ∨
     ((2 * m0 + 1) ^ 2 * (b * pn (2 * e)) > 4 * (a * pd (2 * e)) ∧ m = m0) ∨
     ((2 * m0 + 1) ^ 2 * (b * pn (2 * e)) = 4 * (a * pd (2 * e)) ∧ m0 % 2 = 0 ∧ m = m0) ∨
     ((2 * m0 + 1) ^ 2 * (b * pn (2 * e)) = 4 * (a * pd (2 * e)) ∧ m0 % 2 = 1 ∧ m = m0 + 1)) := by
  refine ⟨sfl a b e, _, rfl, rfl, ?_⟩
  unfold ssig
  simp only []
  generalize sfl a b e = m0
  by_cases c1 : (2 * m0 + 1) ^ 2 * (b * pn (2 * e)) < 4 * (a * pd (2 * e))
  · simp [c1]
  · by_cases c2 : (2 * m0 + 1) ^ 2 * (b * pn (2 * e)) > 4 * (a * pd (2 * e))
    · simp [c1, c2]
    · have c3 : (2 * m0 + 1) ^ 2 * (b * pn (2 * e)) = 4 * (a * pd (2 * e)) := by omega
      by_cases c4 : m0 % 2 = 0
      · simp [c3, c4]
      · have c5 : m0 % 2 = 1 := by omega
        simp [c3, c5]

theorem ssig_spec {a b : Nat} (hb : 0 < b) (e : Int) :
    (ssig a b e = sfl a b e ∨ ssig a b e = sfl a b e + 1) ∧ SqrtHalfUlp a b (ssig a b e) e ∧
      (1 ≤ ssig a b e → SqrtTie a b (ssig a b e) e → ssig a b e % 2 = 0) := by
  obtain ⟨h1, h2⟩ := sfl_spec (a := a) hb e
  have hs2 : 0 < b * pn (2 * e) := Nat.mul_pos hb (pn_pos _)
  obtain ⟨m0, m, hm0, hm, hc⟩ := ssig_cases a b e
  rw [hm, hm0]
  rw [hm0] at h1 h2
  unfold SqrtHalfUlp SqrtTie
  generalize a * pd (2 * e) = s1 at *
  generalize b * pn (2 * e) = s2 at *
  -- polynomial identities with the atoms  m0*m0*s2, m0*s2, s2
  have p1 : (2 * m0 + 1) ^ 2 * s2 = 4 * (m0 * m0 * s2) + 4 * (m0 * s2) + s2 := by grind
  have p2 : (m0 + 1) * (m0 + 1) * s2 = m0 * m0 * s2 + 2 * (m0 * s2) + s2 := by grind
  have p3 : (2 * (m0 + 1) + 1) ^ 2 * s2 = 4 * (m0 * m0 * s2) + 12 * (m0 * s2) + 9 * s2 := by grind
  have p4 : (2 * (m0 + 1) - 1) ^ 2 * s2 = (2 * m0 + 1) ^ 2 * s2 := by
    have : 2 * (m0 + 1) - 1 = 2 * m0 + 1 := by omega
    rw [this]
  have p5 : m0 = 0 ∨ ((2 * m0 - 1) ^ 2 * s2 + 4 * (m0 * s2) = 4 * (m0 * m0 * s2) + s2 ∧ s2 ≤ m0 * s2) := by
    rcases Nat.eq_zero_or_pos m0 with h | h
    · exact Or.inl h
    · right
      constructor
      · obtain ⟨k, rfl⟩ : ∃ k, m0 = k + 1 := ⟨m0 - 1, by omega⟩
        have : 2 * (k + 1) - 1 = 2 * k + 1 := by omega
        rw [this]; grind
      · calc s2 = 1 * s2 := (Nat.one_mul _).symm
          _ ≤ m0 * s2 := Nat.mul_le_mul_right _ h
  rcases hc with ⟨c, rfl⟩ | ⟨c, rfl⟩ | ⟨c, cp, rfl⟩ | ⟨c, cp, rfl⟩
  · refine ⟨Or.inr rfl, ⟨Or.inr (by omega), by omega⟩, ?_⟩
    intro _ ht; exfalso; omega
  · refine ⟨Or.inl rfl, ⟨?_, by omega⟩, ?_⟩
    · rcases p5 with h | ⟨h, h'⟩
      · exact Or.inl h
      · right; omega
    · intro hpos ht; exfalso
      rcases p5 with h | ⟨h, h'⟩
      · omega
      · omega
  · refine ⟨Or.inl rfl, ⟨?_, by omega⟩, fun _ _ => cp⟩
    rcases p5 with h | ⟨h, h'⟩
    · exact Or.inl h
    · right; omega
  · refine ⟨Or.inr rfl, ⟨Or.inr (by omega), by omega⟩, fun _ _ => by omega⟩


/-! ### the exponent -/

theorem two_pow_sq (p : Nat) : 2 ^ p * 2 ^ p = 2 ^ (2 * p) := by
  rw [← Nat.pow_add]; congr 1; omega

theorem sguess_upper (f : Fmt) {a b : Nat} (ha : 0 < a) (hb : 0 < b) : sfl a b (sguess f a b) < 2 ^ f.p := by
  rw [sfl_lt_iff hb, two_pow_sq]
  generalize hd : (Nat.log2 a : Int) - (Nat.log2 b : Int) = d
  have h1 := log_upper ha hb (d + 1 - 2 * (f.p : Int)) (2 * f.p) (by omega)
  have hle : d + 1 - 2 * (f.p : Int) ≤ 2 * sguess f a b := by unfold sguess; omega
  have := lt_mono_exp hle h1
  rw [Nat.mul_assoc] at this; exact this

theorem sguess_lower (f : Fmt) (hp : 1 ≤ f.p) {a b : Nat} (ha : 0 < a) (hb : 0 < b) :
    2 ^ (f.p - 1) ≤ sfl a b (sguess f a b - 1) := by
  apply Nat.le_of_not_lt
  rw [sfl_lt_iff hb, two_pow_sq]
  apply Nat.not_lt.mpr
  generalize hd : (Nat.log2 a : Int) - (Nat.log2 b : Int) = d
  have h1 := log_lower ha hb (d + 1 - 2 * (f.p : Int)) (2 * (f.p - 1)) (by omega)
  have hle : 2 * (sguess f a b - 1) ≤ d + 1 - 2 * (f.p : Int) := by unfold sguess; omega
  have := ge_mono_exp hle h1
  rw [Nat.mul_assoc] at this; exact this

/-- if the floor is too small at `e`, it is below `2^p` at `e − 1` -/
theorem sfl_step (f : Fmt) (hp : 1 ≤ f.p) {a b : Nat} (hb : 0 < b) (e : Int) (h : sfl a b e < 2 ^ (f.p - 1)) :
    sfl a b (e - 1) < 2 ^ f.p := by
  rw [sfl_lt_iff hb] at h ⊢
  have h' := (lt_shift a (2 ^ (f.p - 1) * 2 ^ (f.p - 1) * b) (2 * (e - 1)) 2).mpr (by
    have : 2 * (e - 1) + ((2 : Nat) : Int) = 2 * e := by omega
    rw [this]
    rw [Nat.mul_assoc]; exact h)
  have hP := two_pow_pred hp
  calc a * pd (2 * (e - 1)) < 2 ^ 2 * (2 ^ (f.p - 1) * 2 ^ (f.p - 1) * b) * pn (2 * (e - 1)) := h'
    _ = (2 * 2 ^ (f.p - 1)) * (2 * 2 ^ (f.p - 1)) * (b * pn (2 * (e - 1))) := by grind
    _ = 2 ^ f.p * 2 ^ f.p * (b * pn (2 * (e - 1))) := by rw [hP]

theorem sadj_fix (f : Fmt) (a b : Nat) (e : Int) (h1 : 2 ^ (f.p - 1) ≤ sfl a b e) (h2 : sfl a b e < 2 ^ f.p) :
    sadj f a b e = e := by
  unfold sadj
  have c1 : ¬ (sfl a b e ≥ 2 ^ f.p) := by omega
  have c2 : ¬ (sfl a b e < 2 ^ (f.p - 1)) := by omega
  simp [c1, c2]

theorem sadj3_good (f : Fmt) (hp : 1 ≤ f.p) {a b : Nat} (ha : 0 < a) (hb : 0 < b) :
    2 ^ (f.p - 1) ≤ sfl a b (sadj f a b (sadj f a b (sadj f a b (sguess f a b)))) ∧
      sfl a b (sadj f a b (sadj f a b (sadj f a b (sguess f a b)))) < 2 ^ f.p := by
  have hu := sguess_upper f ha hb
  have hl := sguess_lower f hp ha hb
  by_cases h : 2 ^ (f.p - 1) ≤ sfl a b (sguess f a b)
  · have e1 := sadj_fix f a b _ h hu
    rw [e1, e1, e1]; exact ⟨h, hu⟩
  · have h' : sfl a b (sguess f a b) < 2 ^ (f.p - 1) := by omega
    have e0 : sadj f a b (sguess f a b) = sguess f a b - 1 := by
      unfold sadj
      have c1 : ¬ (sfl a b (sguess f a b) ≥ 2 ^ f.p) := by omega
      simp [c1, h']
    have hu' := sfl_step f hp hb _ h'
    have e1 := sadj_fix f a b _ hl hu'
    rw [e0, e1, e1]; exact ⟨hl, hu'⟩

theorem sexpo_spec (f : Fmt) (hp : 1 ≤ f.p) {a b : Nat} (ha : 0 < a) (hb : 0 < b) :
    f.emin ≤ sexpo f a b ∧ sfl a b (sexpo f a b) < 2 ^ f.p ∧
      (sexpo f a b = f.emin ∨ 2 ^ (f.p - 1) ≤ sfl a b (sexpo f a b)) := by
  obtain ⟨g1, g2⟩ := sadj3_good f hp ha hb
  unfold sexpo
  generalize sadj f a b (sadj f a b (sadj f a b (sguess f a b))) = e3 at *
  split
  · rename_i hlt
    refine ⟨Int.le_refl _, ?_, Or.inl rfl⟩
    rw [sfl_lt_iff hb] at g2 ⊢
    rw [← Nat.mul_assoc] at g2 ⊢
    exact lt_mono_exp (by omega) g2
  · exact ⟨by omega, g2, Or.inr g1⟩

/-! ### the result -/

theorem sqrt_scale_succ (a b : Nat) (e : Int) :
    a * pd (2 * e) * (b * pn (2 * (e + 1))) = 4 * (a * pd (2 * (e + 1))) * (b * pn (2 * e)) := by
  have := pn_pd_shift (2 * e) 2
  have h2 : 2 * e + ((2 : Nat) : Int) = 2 * (e + 1) := by omega
  rw [h2] at this
  calc a * pd (2 * e) * (b * pn (2 * (e + 1))) = a * b * (pn (2 * (e + 1)) * pd (2 * e)) := by grind
    _ = a * b * (2 ^ 2 * pn (2 * e) * pd (2 * (e + 1))) := by rw [this]
    _ = 4 * (a * pd (2 * (e + 1))) * (b * pn (2 * e)) := by grind

/-- the half-ulp bound after renormalisation `(k+1)·2^e = ((k+1)/2)·2^(e+1)`, strictly -/
theorem sqrt_carry_half {s1 s2 t1 t2 k : Nat} (hs2 : 0 < s2) (ht2 : 0 < t2) (hrel : s1 * t2 = 4 * t1 * s2)
    (hlo : (2 * k + 1) ^ 2 * s2 ≤ 4 * s1) (hhi : 4 * s1 ≤ (2 * k + 3) ^ 2 * s2) :
    k ^ 2 * t2 < 4 * t1 ∧ 4 * t1 < (k + 2) ^ 2 * t2 := by
  have q1 : (2 * k + 1) ^ 2 * s2 = 4 * (k * k * s2) + 4 * (k * s2) + s2 := by grind
  have q2 : (2 * k + 3) ^ 2 * s2 = 4 * (k * k * s2) + 12 * (k * s2) + 9 * s2 := by grind
  have q3 : (k + 2) ^ 2 * s2 = k * k * s2 + 4 * (k * s2) + 4 * s2 := by grind
  have a1 : k ^ 2 * s2 < s1 := by
    have : k ^ 2 * s2 = k * k * s2 := by grind
    omega
  have a2 : s1 < (k + 2) ^ 2 * s2 := by omega
  constructor
  · have : k ^ 2 * s2 * t2 < s1 * t2 := (Nat.mul_lt_mul_right ht2).mpr a1
    have : k ^ 2 * t2 * s2 < 4 * t1 * s2 := by grind
    exact Nat.lt_of_mul_lt_mul_right this
  · have : s1 * t2 < (k + 2) ^ 2 * s2 * t2 := (Nat.mul_lt_mul_right ht2).mpr a2
    have : 4 * t1 * s2 < (k + 2) ^ 2 * t2 * s2 := by grind
    exact Nat.lt_of_mul_lt_mul_right this

/-- `sqrtPos` returns the correctly rounded square root: a normalised pair of the format within half an ulp of
`√(a/b)` (stated with squares), ties to even -/
theorem sqrtPos_spec (f : Fmt) (hp : 1 ≤ f.p) {a b m : Nat} {e : Int} (ha : 0 < a) (hb : 0 < b)
    (h : sqrtPos f a b = some (m, e)) :
    m < 2 ^ f.p ∧ f.emin ≤ e ∧ e + ((f.p : Int) - 1) ≤ f.emax ∧ (2 ^ (f.p - 1) ≤ m ∨ e = f.emin) ∧
    SqrtHalfUlp a b m e ∧ (1 ≤ m → SqrtTie a b m e → m % 2 = 0) := by
  rw [sqrtPos_eq] at h
  split at h
  · exact absurd h (by simp)
  rename_i hov
  have hme : carry f (ssig a b (sexpo f a b)) (sexpo f a b) = (m, e) := by simpa using h
  rw [hme] at hov
  simp only [] at hov
  obtain ⟨hge, hlt, hnorm⟩ := sexpo_spec f hp ha hb
  obtain ⟨hsig, hhalf, htie⟩ := ssig_spec (a := a) hb (sexpo f a b)
  have hP := two_pow_pred hp
  have hPpos := Nat.two_pow_pos (f.p - 1)
  generalize sexpo f a b = e0 at *
  unfold carry at hme
  split at hme
  · rename_i hc
    have hc : ssig a b e0 = 2 ^ f.p := by simpa using hc
    obtain ⟨rfl, rfl⟩ : 2 ^ (f.p - 1) = m ∧ e0 + 1 = e := by simpa using hme
    refine ⟨by omega, by omega, by omega, Or.inl (Nat.le_refl _), ?_⟩
    rw [hc] at hhalf
    unfold SqrtHalfUlp at hhalf
    obtain ⟨k, hk⟩ : ∃ k, 2 ^ f.p = k + 1 := ⟨2 ^ f.p - 1, by omega⟩
    rw [hk] at hhalf
    have hs2 : 0 < b * pn (2 * e0) := Nat.mul_pos hb (pn_pos _)
    have ht2 : 0 < b * pn (2 * (e0 + 1)) := Nat.mul_pos hb (pn_pos _)
    have hlo : (2 * k + 1) ^ 2 * (b * pn (2 * e0)) ≤ 4 * (a * pd (2 * e0)) := by
      rcases hhalf.1 with h0 | h0
      · omega
      · have : 2 * (k + 1) - 1 = 2 * k + 1 := by omega
        rwa [this] at h0
    have hhi : 4 * (a * pd (2 * e0)) ≤ (2 * k + 3) ^ 2 * (b * pn (2 * e0)) := by
      have : 2 * (k + 1) + 1 = 2 * k + 3 := by omega
      rw [← this]; exact hhalf.2
    obtain ⟨r1, r2⟩ := sqrt_carry_half hs2 ht2 (sqrt_scale_succ a b e0) hlo hhi
    unfold SqrtHalfUlp SqrtTie
    have e1 : 2 * 2 ^ (f.p - 1) - 1 = k := by omega
    have e2 : 2 * 2 ^ (f.p - 1) + 1 = k + 2 := by omega
    rw [e1, e2]
    refine ⟨⟨Or.inr (Nat.le_of_lt r1), Nat.le_of_lt r2⟩, ?_⟩
    intro _ ht; exfalso; omega
  · rename_i hc
    have hc : ssig a b e0 ≠ 2 ^ f.p := by simpa using hc
    obtain ⟨rfl, rfl⟩ : ssig a b e0 = m ∧ e0 = e := by simpa using hme
    refine ⟨by omega, hge, by omega, ?_, hhalf, htie⟩
    rcases hnorm with h0 | h0
    · exact Or.inr h0
    · left; omega


/-! ### no overflow, and the rational-level function -/

theorem ge_shift (X Y : Nat) (e : Int) (k : Nat) :
    2 ^ k * Y * pn e ≤ X * pd e ↔ Y * pn (e + k) ≤ X * pd (e + k) := by
  have := lt_shift X Y e k
  constructor <;> intro h <;> omega

/-- `2^j·2^E ≤ a/b ≤ 2^E'` ⟹ `E + j ≤ E'` -/
theorem exp_le_of_sandwich {a b C : Nat} {E E' : Int} (j : Nat) (hb : 0 < b) (hC : 2 ^ j ≤ C)
    (hlo : C * b * pn E ≤ a * pd E) (hhi : a * pd E' ≤ b * pn E') : E + j ≤ E' := by
  rcases Int.lt_or_le E' (E + j) with hlt | hle
  case inr => exact hle
  exfalso
  have h1 : 2 ^ j * b * pn E ≤ a * pd E :=
    Nat.le_trans (Nat.mul_le_mul_right _ (Nat.mul_le_mul_right _ hC)) hlo
  have h2 := (ge_shift a b E j).mp h1
  have h3 : a * pd (E + j - 1) ≤ b * pn (E + j - 1) := le_mono_exp (by omega) hhi
  have h4 : 2 ^ 1 * b * pn (E + j - 1) ≤ a * pd (E + j - 1) := by
    apply (ge_shift a b (E + j - 1) 1).mpr
    have : E + j - 1 + ((1 : Nat) : Int) = E + j := by omega
    rw [this]; exact h2
  have hpos : 0 < b * pn (E + j - 1) := Nat.mul_pos hb (pn_pos _)
  have : 2 ^ 1 * b * pn (E + j - 1) = 2 * (b * pn (E + j - 1)) := by grind
  omega

/-- the square root of a number up to `4^emax` (in particular of every finite number of the format) is finite -/
theorem sqrtPos_isSome (f : Fmt) (wf : f.WF) {a b : Nat} (ha : 0 < a) (hb : 0 < b)
    (h : a * pd (2 * f.emax) ≤ b * pn (2 * f.emax)) : (sqrtPos f a b).isSome := by
  have hp := wf.p_pos
  obtain ⟨hge, hlt, hnorm⟩ := sexpo_spec f hp ha hb
  obtain ⟨hsig, _, _⟩ := ssig_spec (a := a) hb (sexpo f a b)
  obtain ⟨hfl, _⟩ := sfl_spec (a := a) hb (sexpo f a b)
  obtain ⟨m0, m, hm0, hm, hc⟩ := ssig_cases a b (sexpo f a b)
  have hP := two_pow_pred hp
  have hPpos := Nat.two_pow_pos (f.p - 1)
  rw [sqrtPos_eq]
  generalize sexpo f a b = e0 at *
  rw [hm0] at hfl hlt hnorm hsig
  rw [hm] at hsig ⊢
  have hgoal : (carry f m e0).2 + ((f.p : Int) - 1) ≤ f.emax := by
    unfold carry
    split
    · rename_i hcarry
      have hcarry : m = 2 ^ f.p := by simpa using hcarry
      simp only []
      -- rounded up from m0 = 2^p − 1:  (2 m0 + 1)² 4^e0 ≤ 4 a/b
      have hm0v : m0 + 1 = 2 ^ f.p := by omega
      have hlo : (2 * m0 + 1) ^ 2 * (b * pn (2 * e0)) ≤ 4 * (a * pd (2 * e0)) := by
        rcases hc with ⟨c, _⟩ | ⟨_, c⟩ | ⟨_, _, c⟩ | ⟨c, _, _⟩ <;> omega
      -- (2^p)² · 4^e0 < a/b · ... : use 2^(2p-2)·4 ≤ (2 m0 + 1)²
      have h4 : 4 * (2 ^ (2 * (f.p - 1)) * b * pn (2 * e0)) ≤ 4 * (a * pd (2 * e0)) := by
        have : 2 * 2 ^ (f.p - 1) ≤ 2 * m0 + 1 := by omega
        have hsq : (2 * 2 ^ (f.p - 1)) * (2 * 2 ^ (f.p - 1)) ≤ (2 * m0 + 1) * (2 * m0 + 1) := Nat.mul_le_mul this this
        calc 4 * (2 ^ (2 * (f.p - 1)) * b * pn (2 * e0))
            = (2 * 2 ^ (f.p - 1)) * (2 * 2 ^ (f.p - 1)) * (b * pn (2 * e0)) := by rw [← two_pow_sq]; grind
          _ ≤ (2 * m0 + 1) * (2 * m0 + 1) * (b * pn (2 * e0)) := Nat.mul_le_mul_right _ hsq
          _ = (2 * m0 + 1) ^ 2 * (b * pn (2 * e0)) := by grind
          _ ≤ 4 * (a * pd (2 * e0)) := hlo
      -- strictness: the candidate exponent cannot be emax − p + 1
      have hs := exp_le_of_sandwich (a := a) (b := b) (C := 2 ^ (2 * (f.p - 1))) (E := 2 * e0) (E' := 2 * f.emax)
        (2 * (f.p - 1)) hb (Nat.le_refl _) (by omega) h
      -- e0 + (p-1) ≤ emax; equality is impossible
      rcases Int.lt_or_le (e0 + ((f.p : Int) - 1)) f.emax with hl | hl
      · omega
      · exfalso
        have he : e0 = f.emax - ((f.p : Int) - 1) := by omega
        -- (2m0+1)² 4^e0 ≤ 4 x ≤ 4·4^emax = 4 · 4^(p-1) · 4^e0, but (2m0+1)² > 4·4^(p-1) = (2^p)²
        have hup : a * pd (2 * e0) ≤ 2 ^ (2 * (f.p - 1)) * b * pn (2 * e0) := by
          apply (le_shift a b (2 * e0) (2 * (f.p - 1))).mpr
          have : 2 * e0 + ((2 * (f.p - 1) : Nat) : Int) = 2 * f.emax := by omega
          rw [this]; exact h
        have hlt2 : 2 ^ f.p * 2 ^ f.p < (2 * m0 + 1) * (2 * m0 + 1) := by
          have : 2 ^ f.p < 2 * m0 + 1 := by omega
          exact Nat.mul_lt_mul_of_lt_of_le this (Nat.le_of_lt this) (by omega)
        have hpos : 0 < b * pn (2 * e0) := Nat.mul_pos hb (pn_pos _)
        have : (2 * m0 + 1) ^ 2 * (b * pn (2 * e0)) ≤ 2 ^ f.p * 2 ^ f.p * (b * pn (2 * e0)) := by
          calc (2 * m0 + 1) ^ 2 * (b * pn (2 * e0)) ≤ 4 * (a * pd (2 * e0)) := hlo
            _ ≤ 4 * (2 ^ (2 * (f.p - 1)) * b * pn (2 * e0)) := Nat.mul_le_mul_left _ hup
            _ = (2 * 2 ^ (f.p - 1)) * (2 * 2 ^ (f.p - 1)) * (b * pn (2 * e0)) := by rw [← two_pow_sq]; grind
            _ = 2 ^ f.p * 2 ^ f.p * (b * pn (2 * e0)) := by rw [hP]
        have := Nat.le_of_mul_le_mul_right this hpos
        have : (2 * m0 + 1) ^ 2 = (2 * m0 + 1) * (2 * m0 + 1) := by grind
        omega
    · simp only []
      rcases hnorm with h0 | h0
      · have := wf.range; omega
      · -- 2^(p-1) ≤ m0 and m0² 4^e0 ≤ a/b ≤ 4^emax
        have hsq : 2 ^ (2 * (f.p - 1)) ≤ m0 * m0 := by
          rw [← two_pow_sq]; exact Nat.mul_le_mul h0 h0
        have hs := exp_le_of_sandwich (a := a) (b := b) (C := m0 * m0) (E := 2 * e0) (E' := 2 * f.emax)
          (2 * (f.p - 1)) hb hsq (by rw [Nat.mul_assoc]; exact hfl) h
        omega
  have : ¬ ((carry f m e0).2 + ((f.p : Int) - 1) > f.emax) := by omega
  simp [this]

theorem sqrt_of_pos (f : Fmt) {x : Q} (h : 0 < x.num) :
    sqrt f x = (sqrtPos f x.num.toNat x.den).map fun me => ofME false me.1 me.2 := by
  unfold sqrt
  have h1 : (x.num == 0) = false := by simp; omega
  have h2 : ¬ (x.num < 0) := by omega
  simp [h1, h2]

/-- `sqrt` is defined exactly on the non-negative numbers up to `4^emax` -/
theorem sqrt_isSome (f : Fmt) (wf : f.WF) {x : Q} (hd : 0 < x.den) (h0 : 0 ≤ x.num)
    (h : x.num.toNat * pd (2 * f.emax) ≤ x.den * pn (2 * f.emax)) : (sqrt f x).isSome := by
  rcases Int.lt_or_eq_of_le h0 with hpos | hz
  · rw [sqrt_of_pos f hpos]
    have := sqrtPos_isSome f wf (a := x.num.toNat) (b := x.den) (by omega) hd h
    simpa using this
  · unfold sqrt; simp [← hz]

theorem sqrt_neg (f : Fmt) {x : Q} (h : x.num < 0) : sqrt f x = none := by
  unfold sqrt
  have h1 : (x.num == 0) = false := by simp; omega
  simp [h1, h]

end Morlock.Model.Flt
