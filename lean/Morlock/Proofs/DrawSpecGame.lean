import Morlock.Spec.Game
/-!
# C05: the reference game (`Spec.Game`) one move at a time

`gsnoc g m` appends a move to a game; positions, current position, half-move clock and the draw reasons of
the longer game in terms of the shorter one.
-/
namespace Morlock.Proofs.Draw
open Morlock

/-- The game continued by one move. -/
def gsnoc (g : Spec.Game) (m : Spec.SMove) : Spec.Game := { g with moves := g.moves ++ [m] }

@[simp] theorem gsnoc_start (g : Spec.Game) (m : Spec.SMove) : (gsnoc g m).start = g.start := rfl
@[simp] theorem gsnoc_moves (g : Spec.Game) (m : Spec.SMove) : (gsnoc g m).moves = g.moves ++ [m] := rfl

theorem positions_snoc (g : Spec.Game) (m : Spec.SMove) :
    (gsnoc g m).positions = g.positions ++ [Spec.apply g.current m] := by
  unfold Spec.Game.positions Spec.Game.current Spec.Game.positions
  simp only [gsnoc_moves, gsnoc_start, List.foldl_append, List.foldl_cons, List.foldl_nil]

theorem current_snoc (g : Spec.Game) (m : Spec.SMove) : (gsnoc g m).current = Spec.apply g.current m := by
  unfold Spec.Game.current
  rw [positions_snoc]
  simp [Spec.Game.current]

theorem positions_ne_nil (g : Spec.Game) : g.positions ≠ [] := by
  unfold Spec.Game.positions
  generalize hinit : [g.start.pos] = init
  have hne : init ≠ [] := by rw [← hinit]; simp
  clear hinit
  induction g.moves generalizing init with
  | nil => exact hne
  | cons m ms ih => exact ih _ (by simp)

/-- The position component of a fold that plays the moves is the position after the moves. -/
theorem fold_fst {β : Type} (f : Spec.Pos → β → Spec.SMove → β) (ms : List Spec.SMove) :
    ∀ (s : Spec.Pos) (x : β),
      (ms.foldl (fun (acc : Spec.Pos × β) m => (Spec.apply acc.1 m, f acc.1 acc.2 m)) (s, x)).1 =
        ms.foldl Spec.apply s := by
  induction ms with
  | nil => intro s x; rfl
  | cons m r ih => intro s x; simp only [List.foldl_cons]; exact ih _ _

theorem positions_getLast (s : Spec.Pos) (ms : List Spec.SMove) :
    ∀ (acc : List Spec.Pos),
      (ms.foldl (fun (acc : List Spec.Pos) m => acc ++ [Spec.apply (acc.getLastD s) m]) acc).getLastD s =
        ms.foldl Spec.apply (acc.getLastD s) := by
  induction ms with
  | nil => intro acc; rfl
  | cons m r ih =>
    intro acc
    simp only [List.foldl_cons]
    rw [ih]
    simp

/-- The current position is the start position with all moves applied. -/
theorem current_eq_foldl (g : Spec.Game) : g.current = g.moves.foldl Spec.apply g.start.pos := by
  unfold Spec.Game.current Spec.Game.positions
  rw [positions_getLast]
  rfl

theorem halfmove_snoc (g : Spec.Game) (m : Spec.SMove) :
    (gsnoc g m).halfmove = if Spec.isPawnMoveOrCapture g.current m then 0 else g.halfmove + 1 := by
  unfold Spec.Game.halfmove
  simp only [gsnoc_moves, gsnoc_start, List.foldl_append, List.foldl_cons, List.foldl_nil]
  rw [fold_fst (fun p h m => if Spec.isPawnMoveOrCapture p m then 0 else h + 1), ← current_eq_foldl]

/-- The draw reasons right after the move `m`, in terms of the game before it. -/
theorem drawReasons_snoc (g : Spec.Game) (m : Spec.SMove) :
    (gsnoc g m).drawReasons =
      (if (gsnoc g m).repetitions ≥ 5 then [Spec.DrawReason.repetition5]
        else if (gsnoc g m).repetitions ≥ 3 then [Spec.DrawReason.repetition3] else []) ++
      (if (gsnoc g m).halfmove ≥ 100 then [Spec.DrawReason.noProgress] else []) ++
      (if (g.current.occ m.to || (m.promo.isSome && m.promo ≠ some .queen)) &&
          Spec.insufficientMaterial (gsnoc g m).current then [Spec.DrawReason.material] else []) := by
  unfold Spec.Game.drawReasons
  have h1 : (gsnoc g m).moves.getLast? = some m := by simp
  have h2 : ((gsnoc g m).positions.dropLast).getLastD (gsnoc g m).start.pos = g.current := by
    rw [positions_snoc]
    simp [Spec.Game.current]
  rw [h1]
  simp only [h2]

/-- The repetition count only depends on the multiset of positions: it can be read off the reversed list. -/
theorem repetitions_eq (g : Spec.Game) :
    g.repetitions = g.positions.reverse.countP (fun p => p == g.current) := by
  unfold Spec.Game.repetitions
  rw [List.countP_reverse, List.countP_eq_length_filter]

/-- What the list of draw reasons contains, given the repetition count `o`, "clock ≥ 100" `N` and the
material test `M`. -/
theorem reasons_facts (o : Nat) (N M : Prop) [Decidable N] [Decidable M] :
    ((if o ≥ 5 then [Spec.DrawReason.repetition5] else if o ≥ 3 then [Spec.DrawReason.repetition3] else []) ++
        (if N then [Spec.DrawReason.noProgress] else []) ++ (if M then [Spec.DrawReason.material] else []) ≠ [] ↔
      o ≥ 3 ∨ N ∨ M) ∧
    (Spec.DrawReason.material ∈
      (if o ≥ 5 then [Spec.DrawReason.repetition5] else if o ≥ 3 then [Spec.DrawReason.repetition3] else []) ++
        (if N then [Spec.DrawReason.noProgress] else []) ++ (if M then [Spec.DrawReason.material] else []) ↔ M) ∧
    (Spec.DrawReason.noProgress ∈
      (if o ≥ 5 then [Spec.DrawReason.repetition5] else if o ≥ 3 then [Spec.DrawReason.repetition3] else []) ++
        (if N then [Spec.DrawReason.noProgress] else []) ++ (if M then [Spec.DrawReason.material] else []) ↔ N) ∧
    (Spec.DrawReason.repetition5 ∈
      (if o ≥ 5 then [Spec.DrawReason.repetition5] else if o ≥ 3 then [Spec.DrawReason.repetition3] else []) ++
        (if N then [Spec.DrawReason.noProgress] else []) ++ (if M then [Spec.DrawReason.material] else []) ↔ o ≥ 5) ∧
    (Spec.DrawReason.repetition3 ∈
      (if o ≥ 5 then [Spec.DrawReason.repetition5] else if o ≥ 3 then [Spec.DrawReason.repetition3] else []) ++
        (if N then [Spec.DrawReason.noProgress] else []) ++ (if M then [Spec.DrawReason.material] else []) ↔
      o = 3 ∨ o = 4) := by
  by_cases h5 : o ≥ 5 <;> by_cases h3 : o ≥ 3 <;> by_cases hN : N <;> by_cases hM : M <;>
    simp [h5, h3, hN, hM] <;> omega

end Morlock.Proofs.Draw
