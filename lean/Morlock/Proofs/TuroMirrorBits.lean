import Morlock.Proofs.TurochampMirror2
/-!
# The colour mirror on the bitboards themselves (no `Rep`, no reference semantics)

`MB x y`: the 64-bit board `y` is the top-to-bottom mirror image of `x`. The relation is closed under the bitboard
operations the move generator uses, with the colour-dependent ones (`pawnCaptureboard`, `pawnMoveboard`, the jump and
promotion ranks) taken for the other colour on the mirrored side; the officer attack boards of a rotated board satisfying
`RotInv` are mirror images when the occupancies are.

This is what the proofs about positions that are NOT images of a mailbox board need (the positions `Position.Move`
produces from the phantom en-passant captures of the side not to move).
-/
namespace Morlock.Proofs.TuroMirror
open Morlock Morlock.Model Morlock.Proofs.Gen Morlock.Proofs.Attack Morlock.Proofs.Mirror

local notation "ms" => Spec.mirrorSq

theorem ms_eq_iff {a b : Nat} : ms a = b ↔ a = ms b := by
  constructor
  · intro h; rw [← h, Spec.mirrorSq_mirrorSq]
  · intro h; rw [h, Spec.mirrorSq_mirrorSq]

theorem copp_opp (c : Color) : c.opp.opp = c := by cases c <;> rfl

theorem copp_inj {a b : Color} : a.opp = b.opp ↔ a = b := by cases a <;> cases b <;> simp [Color.opp]

/-- `y` is the mirror image of the board `x` -/
structure MB (x y : Nat) : Prop where
  lx : x < 2 ^ 64
  ly : y < 2 ^ 64
  bit : ∀ u, u < 64 → y.testBit u = x.testBit (ms u)

namespace MB
variable {x y x' y' : Nat}

theorem bit' (h : MB x y) {u : Nat} (hu : u < 64) : y.testBit (ms u) = x.testBit u := by
  rw [h.bit _ (Spec.mirrorSq_lt hu), Spec.mirrorSq_mirrorSq]

theorem symm (h : MB x y) : MB y x := ⟨h.ly, h.lx, fun _ hu => (h.bit' hu).symm⟩

theorem zero : MB 0 0 := ⟨by decide, by decide, fun _ _ => by simp⟩

theorem and (h1 : MB x y) (h2 : MB x' y') : MB (x &&& x') (y &&& y') :=
  ⟨and_lt_left _ h1.lx, and_lt_left _ h1.ly, fun u hu => by
    rw [Nat.testBit_and, Nat.testBit_and, h1.bit u hu, h2.bit u hu]⟩

theorem or (h1 : MB x y) (h2 : MB x' y') : MB (x ||| x') (y ||| y') :=
  ⟨Nat.or_lt_two_pow h1.lx h2.lx, Nat.or_lt_two_pow h1.ly h2.ly, fun u hu => by
    rw [Nat.testBit_or, Nat.testBit_or, h1.bit u hu, h2.bit u hu]⟩

theorem xor (h1 : MB x y) (h2 : MB x' y') : MB (x ^^^ x') (y ^^^ y') :=
  ⟨Nat.xor_lt_two_pow h1.lx h2.lx, Nat.xor_lt_two_pow h1.ly h2.ly, fun u hu => by
    rw [Nat.testBit_xor, Nat.testBit_xor, h1.bit u hu, h2.bit u hu]⟩

theorem andNot (h1 : MB x y) (h2 : MB x' y') : MB (andNot x x') (andNot y y') :=
  ⟨andNot_lt _ h1.lx, andNot_lt _ h1.ly, fun u hu => by
    rw [andNot_testBit, andNot_testBit, h1.bit u hu, h2.bit u hu]⟩

theorem not64 (h : MB x y) : MB (not64 x) (not64 y) :=
  ⟨not64_lt _, not64_lt _, fun u hu => by
    rw [not64_testBit, not64_testBit, h.bit u hu]
    simp [hu, Spec.mirrorSq_lt hu]⟩

theorem bitMask {sq : Nat} (hs : sq < 64) : MB (bitMask sq) (bitMask (ms sq)) :=
  ⟨bitMask_lt_M64 _, bitMask_lt_M64 _, fun u _ => by
    rw [bitMask_testBit (Spec.mirrorSq_lt hs), bitMask_testBit hs]
    apply decide_eq_decide.mpr
    constructor
    · intro e; rw [e, Spec.mirrorSq_mirrorSq]
    · intro e; rw [← e, Spec.mirrorSq_mirrorSq]⟩

theorem eq_zero_iff (h : MB x y) : y = 0 ↔ x = 0 := Turochamp.mirror_zero_iff h.lx h.ly h.bit

theorem bne_zero (h : MB x y) : (y != 0) = (x != 0) := by
  rw [Bool.eq_iff_iff, bne_iff_ne, bne_iff_ne, ne_eq, ne_eq, h.eq_zero_iff]

theorem beq_zero (h : MB x y) : (y == 0) = (x == 0) := by
  rw [Bool.eq_iff_iff, beq_iff_eq, beq_iff_eq, h.eq_zero_iff]

theorem isSet (h : MB x y) {u : Nat} (hu : u < 64) : isSet y (ms u) = isSet x u := by
  rw [isSet_lt _ (Spec.mirrorSq_lt hu), isSet_lt _ hu, h.bit' hu]

/-- the squares of the mirror image are the mirror images of the squares -/
theorem toSquares (h : MB x y) : (toSquares y).Perm ((toSquares x).map ms) := by
  have h1 := (Turochamp.toSquares_mirror_perm h.lx h.ly h.bit).map ms
  rw [List.map_map] at h1
  have e : (Spec.mirrorSq ∘ Spec.mirrorSq) = id := by funext a; simp
  rw [e, List.map_id] at h1
  exact h1

end MB

/-- at most one bit set -/
def One (x : Nat) : Prop := ∀ u v, x.testBit u = true → x.testBit v = true → u = v

theorem MB.one {x y : Nat} (h : MB x y) (ho : One x) : One y := by
  intro u v hu hv
  have hu64 := lt_of_testBit h.ly hu
  have hv64 := lt_of_testBit h.ly hv
  rw [h.bit u hu64] at hu
  rw [h.bit v hv64] at hv
  exact Spec.mirrorSq_inj (ho _ _ hu hv)

/-- `lastPopSquare` of a board with one bit -/
theorem MB.lastPop {x y : Nat} (h : MB x y) (ho : One x) (hx : x ≠ 0) :
    lastPopSquare y = ms (lastPopSquare x) ∧ lastPopSquare x < 64 := by
  have hy : y ≠ 0 := fun e => hx (h.eq_zero_iff.mp e)
  obtain ⟨a1, a2, _⟩ := lastPopSquare_spec hx h.lx
  obtain ⟨b1, b2, _⟩ := lastPopSquare_spec hy h.ly
  rw [h.bit _ b1] at b2
  have := ho _ _ b2 a2
  exact ⟨ms_eq_iff.mp this, a1⟩

theorem lastPop_zero : lastPopSquare 0 = 64 := by decide

/-! ## attack boards -/

theorem toBB_targets_MB {o o' : Nat} (h : MB o o') (k : Spec.Kind) {s : Nat} (hs : s < 64) :
    MB (toBB (Spec.officerTargets (fun t => o.testBit t) k s))
      (toBB (Spec.officerTargets (fun t => o'.testBit t) k (ms s))) := by
  refine ⟨toBB_lt _ (officerTargets_lt _ k s), toBB_lt _ (officerTargets_lt _ k _), ?_⟩
  intro u _
  rw [Bool.eq_iff_iff, testBit_toBB, testBit_toBB]
  constructor
  · intro hm
    have := Spec.mem_officerTargets_mirror (occ := fun t => o'.testBit t) (occ' := fun t => o.testBit t)
      (fun t ht => (h.bit t ht).symm) k (Spec.mirrorSq_lt hs) hm
    rwa [Spec.mirrorSq_mirrorSq] at this
  · intro hm
    have := Spec.mem_officerTargets_mirror (occ := fun t => o.testBit t) (occ' := fun t => o'.testBit t)
      (fun t ht => h.bit' ht) k hs hm
    rwa [Spec.mirrorSq_mirrorSq] at this

/-- the officer attack boards (`Attackboard`, 0 for the panic) of mirrored rotated boards are mirror images -/
theorem attackboard_MB {r r' : Rotated} (hr : RotInv r.rot r) (hr' : RotInv r'.rot r') (ho : MB r.rot r'.rot)
    {s : Nat} (hs : s < 64) (piece : Piece) :
    MB ((attackboard r s piece).getD 0) ((attackboard r' (ms s) piece).getD 0) := by
  have hs' := Spec.mirrorSq_lt hs
  cases piece <;> simp only [attackboard, Option.getD_none, Option.getD_some]
  · exact MB.zero
  · exact MB.zero
  · rw [bishop_of_inv hr hs, bishop_of_inv hr' hs']; exact toBB_targets_MB ho .bishop hs
  · rw [knight_of_lt (fun t => r.rot.testBit t) hs, knight_of_lt (fun t => r'.rot.testBit t) hs']
    exact toBB_targets_MB ho .knight hs
  · rw [rook_of_inv hr hs, rook_of_inv hr' hs']; exact toBB_targets_MB ho .rook hs
  · rw [queen_of_inv hr hs, queen_of_inv hr' hs']; exact toBB_targets_MB ho .queen hs
  · rw [king_of_lt (fun t => r.rot.testBit t) hs, king_of_lt (fun t => r'.rot.testBit t) hs']
    exact toBB_targets_MB ho .king hs

theorem kingAttackboard_MB {s : Nat} (hs : s < 64) : MB (kingAttackboard s) (kingAttackboard (ms s)) := by
  rw [king_of_lt (fun _ => false) hs, king_of_lt (fun _ => false) (Spec.mirrorSq_lt hs)]
  have := toBB_targets_MB (o := 0) (o' := 0) MB.zero .king hs
  simpa using this

/-! ## pawn boards -/

theorem MB.pawnCapture {x y : Nat} (h : MB x y) (c : Color) :
    MB (pawnCaptureboard c x) (pawnCaptureboard c.opp y) := by
  refine ⟨pawnSet_lt _ _ h.lx, pawnSet_lt _ _ h.ly, ?_⟩
  intro u _
  rw [Bool.eq_iff_iff, pawnSet_testBit _ _ _ h.ly, pawnSet_testBit _ _ _ h.lx]
  constructor
  · rintro ⟨s, hs, hb, hm⟩
    refine ⟨ms s, Spec.mirrorSq_lt hs, ?_, ?_⟩
    · rw [← h.bit s hs]; exact hb
    · have := Spec.mem_pawnTargets_mirror (absColor c.opp) hs hm
      rw [absColor_opp', Spec.Color.opp_opp] at this
      exact this
  · rintro ⟨s, hs, hb, hm⟩
    refine ⟨ms s, Spec.mirrorSq_lt hs, ?_, ?_⟩
    · rw [h.bit' hs]; exact hb
    · have := Spec.mem_pawnTargets_mirror (absColor c) hs hm
      rw [Spec.mirrorSq_mirrorSq, ← absColor_opp'] at this
      exact this

theorem MB.shl_shr {x y : Nat} (h : MB x y) : MB (shl64 x 8) (y >>> 8) := by
  refine ⟨shl64_lt _ _, shiftRight_lt 8 h.ly, ?_⟩
  intro u hu
  rw [Nat.testBit_shiftRight, shl64_testBit]
  by_cases h56 : u < 56
  · rw [h.bit (8 + u) (by omega)]
    have e1 : ms (8 + u) = ms u - 8 := by
      rw [Spec.mirrorSq_of_lt (show 8 + u < 64 by omega), Spec.mirrorSq_of_lt hu]; omega
    have e2 : 8 ≤ ms u := by rw [Spec.mirrorSq_of_lt hu]; omega
    have e3 : ms u < 64 := Spec.mirrorSq_lt hu
    simp [e1, e2, e3]
  · rw [testBit_high h.ly (by omega)]
    have e2 : ¬ 8 ≤ ms u := by rw [Spec.mirrorSq_of_lt hu]; omega
    simp [e2]

theorem MB.shr_shl {x y : Nat} (h : MB x y) : MB (x >>> 8) (shl64 y 8) := (h.symm.shl_shr).symm

theorem MB.pawnMove {a a' x y : Nat} (ha : MB a a') (h : MB x y) (c : Color) :
    MB (pawnMoveboard a c x) (pawnMoveboard a' c.opp y) := by
  cases c
  · exact MB.and h.shl_shr ha.not64
  · exact MB.and h.shr_shl ha.not64

theorem bitRank_MB {r : Nat} (hr : r < 8) : MB (bitRank r) (bitRank (7 - r)) := by
  have lt : ∀ r, r < 8 → bitRank r < 2 ^ 64 := by decide +kernel
  refine ⟨lt r hr, lt _ (by omega), ?_⟩
  intro u hu
  rw [bitRank_testBit (by omega), bitRank_testBit hr]
  apply decide_eq_decide.mpr
  rw [Spec.mirrorSq_of_lt hu]
  omega

theorem jumpRank_MB (c : Color) : MB (pawnJumpRank c) (pawnJumpRank c.opp) := by
  cases c
  · exact bitRank_MB (r := 3) (by decide)
  · exact bitRank_MB (r := 4) (by decide)

theorem promoRank_MB (c : Color) : MB (pawnPromotionRank c) (pawnPromotionRank c.opp) := by
  cases c
  · exact bitRank_MB (r := 7) (by decide)
  · exact bitRank_MB (r := 0) (by decide)

/-! ## lists -/

theorem perm_flatMap_left {α β : Type} {f g : α → List β} : ∀ (l : List α), (∀ a ∈ l, (f a).Perm (g a)) →
    (l.flatMap f).Perm (l.flatMap g)
  | [], _ => by simp
  | a :: l, h => by
    rw [List.flatMap_cons, List.flatMap_cons]
    exact (h a (List.mem_cons_self ..)).append (perm_flatMap_left l fun b hb => h b (List.mem_cons_of_mem _ hb))

/-- a `flatMap` over a mirrored index list with mirrored bodies -/
theorem flatMap_mirror {α β γ : Type} {f : α → γ} {h : β → β} {l1 : List γ} {l2 : List α} {g1 : γ → List β}
    {g2 : α → List β} (hl : l1.Perm (l2.map f)) (hb : ∀ a ∈ l2, (g1 (f a)).Perm ((g2 a).map h)) :
    (l1.flatMap g1).Perm ((l2.flatMap g2).map h) := by
  refine (List.Perm.flatMap_right g1 hl).trans ?_
  rw [List.flatMap_map, List.map_flatMap]
  exact perm_flatMap_left l2 hb

end Morlock.Proofs.TuroMirror
