import Morlock.Proofs.AttackGeo
import Morlock.Proofs.AttackGeoB
import Morlock.Proofs.AttackRot
/-!
# Sliding attack boards equal the reference rays (glue)

Combines the lock-step simulation (`scan_eq_ray`), the per-square geometric facts (`geo_*`) and the
rotated-bitboard invariant (`RotInv`) into statements about `rookAttackboard`, `bishopAttackboard`
and `queenAttackboard` for every board satisfying the invariant.
-/
namespace Morlock.Proofs.Attack
open Morlock Morlock.Model Morlock.Spec

/-- Reference occupancy predicate of a bitboard. -/
abbrev occF (occ : Nat) : Nat → Bool := fun s => occ.testBit s

theorem rookRank_eq (occ : Nat) {sq : Nat} (hs : sq < 64) :
    rookRank sq ((occ >>> (sqRank sq <<< 3)) &&& 255) =
      toBB (ray (occF occ) sq 1 0 8) ||| toBB (ray (occF occ) sq (-1) 0 8) := by
  have hR := scan_eq_ray (specRankR sq) sq id _ _ occ occ (allBelow_spec geo_rankR sq hs) (fun _ _ => rfl) 0
  have hL := scan_eq_ray (specRankL sq) sq id _ _ occ occ (allBelow_spec geo_rankL sq hs) (fun _ _ => rfl)
  show scan (specRankL sq).hi (specRankL sq).cell (specRankL sq).bit _ 8 (specRankL sq).start
    (scan (specRankR sq).hi (specRankR sq).cell (specRankR sq).bit _ 8 (specRankR sq).start 0) = _
  rw [hR, hL, Nat.zero_or]
  rfl

theorem rookFile_eq (occ rot90 : Nat) {sq : Nat} (hs : sq < 64)
    (hinv : ∀ s, s < 64 → rot90.testBit (Gen.rot90[s]!) = occ.testBit s) :
    rookFile sq ((rot90 >>> (sqFile sq <<< 3)) &&& 255) =
      toBB (ray (occF occ) sq 0 1 8) ||| toBB (ray (occF occ) sq 0 (-1) 8) := by
  have hD := scan_eq_ray (specFileD sq) sq t90 _ _ occ rot90 (allBelow_spec geo_fileD sq hs) hinv 0
  have hU := scan_eq_ray (specFileU sq) sq t90 _ _ occ rot90 (allBelow_spec geo_fileU sq hs) hinv
  show scan (specFileU sq).hi (specFileU sq).cell (specFileU sq).bit _ 8 (specFileU sq).start
    (scan (specFileD sq).hi (specFileD sq).cell (specFileD sq).bit _ 8 (specFileD sq).start 0) = _
  rw [hD, hU, Nat.zero_or]
  rfl

theorem bishopL_eq (occ rot45L : Nat) {sq : Nat} (hs : sq < 64)
    (hinv : ∀ s, s < 64 → rot45L.testBit (Gen.rot45L[s]!) = occ.testBit s) :
    bishopL sq ((rot45L >>> Gen.off45L[sq]!) &&& Gen.mask45L[sq]!) =
      toBB (ray (occF occ) sq 1 1 8) ||| toBB (ray (occF occ) sq (-1) (-1) 8) := by
  have h1 := scan_eq_ray (specUL sq) sq t45L _ _ occ rot45L (allBelow_spec geo_UL sq hs) hinv 0
  have h2 := scan_eq_ray (specDR sq) sq t45L _ _ occ rot45L (allBelow_spec geo_DR sq hs) hinv
  show scan (specDR sq).hi (specDR sq).cell (specDR sq).bit _ 8 (specDR sq).start
    (scan (specUL sq).hi (specUL sq).cell (specUL sq).bit _ 8 (specUL sq).start 0) = _
  rw [h1, h2, Nat.zero_or]
  rfl

theorem bishopR_eq (occ rot45R : Nat) {sq : Nat} (hs : sq < 64)
    (hinv : ∀ s, s < 64 → rot45R.testBit (Gen.rot45R[s]!) = occ.testBit s) :
    bishopR sq ((rot45R >>> Gen.off45R[sq]!) &&& Gen.mask45R[sq]!) =
      toBB (ray (occF occ) sq (-1) 1 8) ||| toBB (ray (occF occ) sq 1 (-1) 8) := by
  have h1 := scan_eq_ray (specUR sq) sq t45R _ _ occ rot45R (allBelow_spec geo_UR sq hs) hinv 0
  have h2 := scan_eq_ray (specDL sq) sq t45R _ _ occ rot45R (allBelow_spec geo_DL sq hs) hinv
  show scan (specDL sq).hi (specDL sq).cell (specDL sq).bit _ 8 (specDL sq).start
    (scan (specUR sq).hi (specUR sq).cell (specUR sq).bit _ 8 (specUR sq).start 0) = _
  rw [h1, h2, Nat.zero_or]
  rfl

theorem rookTargets_toBB (o : Nat → Bool) (sq : Nat) :
    toBB (officerTargets o .rook sq) =
      (toBB (ray o sq 1 0 8) ||| toBB (ray o sq (-1) 0 8)) ||| (toBB (ray o sq 0 1 8) ||| toBB (ray o sq 0 (-1) 8)) := by
  simp only [officerTargets, rookDirs, List.flatMap_cons, List.flatMap_nil, List.append_nil, toBB_append]
  ac_rfl

theorem bishopTargets_toBB (o : Nat → Bool) (sq : Nat) :
    toBB (officerTargets o .bishop sq) =
      (toBB (ray o sq 1 1 8) ||| toBB (ray o sq (-1) (-1) 8)) ||| (toBB (ray o sq (-1) 1 8) ||| toBB (ray o sq 1 (-1) 8)) := by
  simp only [officerTargets, bishopDirs, List.flatMap_cons, List.flatMap_nil, List.append_nil, toBB_append]
  ac_rfl

theorem queenTargets_toBB (o : Nat → Bool) (sq : Nat) :
    toBB (officerTargets o .queen sq) = toBB (officerTargets o .rook sq) ||| toBB (officerTargets o .bishop sq) := by
  simp only [officerTargets, List.flatMap_append, toBB_append]

/-- Rook attacks from any board satisfying the invariant. -/
theorem rook_of_inv {occ : Nat} {r : Rotated} (h : RotInv occ r) {sq : Nat} (hs : sq < 64) :
    rookAttackboard r sq = toBB (officerTargets (fun s => occ.testBit s) .rook sq) := by
  rw [rookTargets_toBB]
  unfold rookAttackboard
  simp only []
  rw [h.rot, rookRank_eq occ hs, rookFile_eq occ r.rot90 hs h.bit90]

/-- Bishop attacks from any board satisfying the invariant. -/
theorem bishop_of_inv {occ : Nat} {r : Rotated} (h : RotInv occ r) {sq : Nat} (hs : sq < 64) :
    bishopAttackboard r sq = toBB (officerTargets (fun s => occ.testBit s) .bishop sq) := by
  rw [bishopTargets_toBB]
  unfold bishopAttackboard
  simp only []
  rw [bishopL_eq occ r.rot45L hs h.bit45L, bishopR_eq occ r.rot45R hs h.bit45R]

/-- Queen attacks from any board satisfying the invariant. -/
theorem queen_of_inv {occ : Nat} {r : Rotated} (h : RotInv occ r) {sq : Nat} (hs : sq < 64) :
    queenAttackboard r sq = toBB (officerTargets (fun s => occ.testBit s) .queen sq) := by
  rw [queenTargets_toBB, ← rook_of_inv h hs, ← bishop_of_inv h hs]
  rfl

end Morlock.Proofs.Attack
