import Morlock.Proofs.TurochampErr
import Morlock.Proofs.TurochampFltInst
/-!
# Error tracking: `Near x s E` — the float `x` is within `E·2^-40` of the exact value `s/10`

The ideal values of TUROCHAMP's position play are multiples of 1/10; `s : Int` counts tenths, `E : Nat` counts units of
`2^-40`. One float32 addition of values below 256 adds `2^24` units (`2^-16`), see `rnd_err32`.
-/
namespace Morlock.Proofs.Turochamp
open Morlock Morlock.Model Morlock.Model.Flt Morlock.Model.Turochamp

/-- `|x − s/10| ≤ E / 2^40` (cross-multiplied by `10·2^40·x.den`) -/
def Near (x : Q) (s : Int) (E : Nat) : Prop :=
  0 < x.den ∧ (x.num * 10995116277760 - s * 1099511627776 * x.den).natAbs ≤ E * 10 * x.den

theorem Near.mono {x : Q} {s : Int} {E F : Nat} (h : Near x s E) (hEF : E ≤ F) : Near x s F :=
  ⟨h.1, Nat.le_trans h.2 (Nat.mul_le_mul_right _ (Nat.mul_le_mul_right _ hEF))⟩

/-- `Near` depends on the value only -/
theorem Near.congr {x x' : Q} {s : Int} {E : Nat} (h : Near x s E) (hd : 0 < x'.den)
    (he : x'.num * x.den = x.num * x'.den) : Near x' s E := by
  refine ⟨hd, ?_⟩
  have key : (x'.num * 10995116277760 - s * 1099511627776 * x'.den) * x.den =
      (x.num * 10995116277760 - s * 1099511627776 * x.den) * x'.den := by
    rw [Int.sub_mul, Int.sub_mul, Int.mul_right_comm x'.num, he, Int.mul_right_comm x.num]
    congr 1
    ac_rfl
  have k2 := congrArg Int.natAbs key
  simp only [Int.natAbs_mul, Int.natAbs_natCast] at k2
  have h1 : (x'.num * 10995116277760 - s * 1099511627776 * x'.den).natAbs * x.den ≤ (E * 10 * x'.den) * x.den := by
    rw [k2]
    calc (x.num * 10995116277760 - s * 1099511627776 * x.den).natAbs * x'.den ≤ (E * 10 * x.den) * x'.den :=
          Nat.mul_le_mul_right _ h.2
      _ = (E * 10 * x'.den) * x.den := by ac_rfl
  exact Nat.le_of_mul_le_mul_right h1 h.1

theorem norm_eqv' (x : Q) : (Q.norm x).num * x.den = x.num * (Q.norm x).den := norm_eqv x

theorem Near.norm {x : Q} {s : Int} {E : Nat} (h : Near x s E) : Near (Q.norm x) s E :=
  h.congr (norm_den_pos h.1) (norm_eqv' x)

theorem Near.add {x y : Q} {s t : Int} {E F : Nat} (hx : Near x s E) (hy : Near y t F) :
    Near (Q.add x y) (s + t) (E + F) := by
  unfold Q.add
  apply Near.norm
  refine ⟨Nat.mul_pos hx.1 hy.1, ?_⟩
  show ((x.num * (y.den : Int) + y.num * (x.den : Int)) * 10995116277760 -
      (s + t) * 1099511627776 * ((x.den * y.den : Nat) : Int)).natAbs ≤ (E + F) * 10 * (x.den * y.den)
  have e : (x.num * (y.den : Int) + y.num * (x.den : Int)) * 10995116277760 -
      (s + t) * 1099511627776 * ((x.den * y.den : Nat) : Int) =
      (x.num * 10995116277760 - s * 1099511627776 * x.den) * y.den +
      (y.num * 10995116277760 - t * 1099511627776 * y.den) * x.den := by
    rw [Int.natCast_mul]
    simp only [Int.add_mul, Int.sub_mul, Int.mul_add, Int.mul_assoc]
    have c1 : (y.den : Int) * 10995116277760 = 10995116277760 * y.den := Int.mul_comm _ _
    have c2 : (x.den : Int) * 10995116277760 = 10995116277760 * x.den := Int.mul_comm _ _
    have c3 : (y.den : Int) * (x.den : Int) = x.den * y.den := Int.mul_comm _ _
    rw [c1, c2, c3]
    omega
  rw [e]
  have h1 := Int.natAbs_add_le ((x.num * 10995116277760 - s * 1099511627776 * x.den) * y.den)
    ((y.num * 10995116277760 - t * 1099511627776 * y.den) * x.den)
  simp only [Int.natAbs_mul, Int.natAbs_natCast] at h1
  have h2 := Nat.mul_le_mul_right y.den hx.2
  have h3 := Nat.mul_le_mul_right x.den hy.2
  have e2 : (E + F) * 10 * (x.den * y.den) = E * 10 * x.den * y.den + F * 10 * y.den * x.den := by
    rw [Nat.add_mul, Nat.add_mul]
    congr 1 <;> ac_rfl
  omega

theorem Near.neg {x : Q} {s : Int} {E : Nat} (h : Near x s E) : Near x.neg (-s) E := by
  refine ⟨h.1, ?_⟩
  show (-x.num * 10995116277760 - -s * 1099511627776 * x.den).natAbs ≤ E * 10 * x.den
  have : -x.num * 10995116277760 - -s * 1099511627776 * x.den =
      -(x.num * 10995116277760 - s * 1099511627776 * x.den) := by
    simp only [Int.neg_mul]; omega
  rw [this, Int.natAbs_neg]
  exact h.2

theorem Near.sub {x y : Q} {s t : Int} {E F : Nat} (hx : Near x s E) (hy : Near y t F) :
    Near (Q.sub x y) (s - t) (E + F) := by
  unfold Q.sub
  have := hx.add hy.neg
  rwa [← Int.sub_eq_add_neg] at this

/-- multiplication by an exact natural number -/
theorem Near.mul_nat {x : Q} {s : Int} {E : Nat} (h : Near x s E) (r : Nat) :
    Near (Q.mul x (Q.ofInt (r : Int))) (s * r) (E * r) := by
  unfold Q.mul Q.ofInt
  apply Near.norm
  refine ⟨by simpa using h.1, ?_⟩
  show (x.num * (r : Int) * 10995116277760 - s * r * 1099511627776 * ((x.den * 1 : Nat) : Int)).natAbs ≤
    E * r * 10 * (x.den * 1)
  rw [Nat.mul_one]
  have e : x.num * (r : Int) * 10995116277760 - s * r * 1099511627776 * (x.den : Int) =
      (x.num * 10995116277760 - s * 1099511627776 * x.den) * r := by
    rw [Int.sub_mul]
    congr 1
    · rw [Int.mul_right_comm]
    · rw [Int.mul_right_comm (s * 1099511627776), Int.mul_right_comm s]
  rw [e, Int.natAbs_mul, Int.natAbs_natCast]
  calc (x.num * 10995116277760 - s * 1099511627776 * x.den).natAbs * r ≤ (E * 10 * x.den) * r :=
        Nat.mul_le_mul_right _ h.2
    _ = E * r * 10 * x.den := by ac_rfl

/-- a value near `s/10` with `|s| ≤ 10·(B−1)` and error at most 1 is bounded by `B` -/
theorem Near.bd {x : Q} {s : Int} {E B : Nat} (h : Near x s E) (hE : E ≤ 1099511627776) (hs : s.natAbs + 10 ≤ 10 * B) :
    Bd x B := by
  refine ⟨h.1, ?_⟩
  have h1 : (x.num * 10995116277760).natAbs ≤
      (x.num * 10995116277760 - s * 1099511627776 * x.den).natAbs + (s * 1099511627776 * x.den).natAbs := by
    have := Int.natAbs_add_le (x.num * 10995116277760 - s * 1099511627776 * x.den) (s * 1099511627776 * x.den)
    rwa [Int.sub_add_cancel] at this
  simp only [Int.natAbs_mul, Int.natAbs_natCast] at h1
  have h2 := h.2
  have h3 : E * 10 * x.den ≤ 1099511627776 * 10 * x.den := Nat.mul_le_mul_right _ (Nat.mul_le_mul_right _ hE)
  have h4 : s.natAbs * (1099511627776 : Int).natAbs * x.den + 1099511627776 * 10 * x.den ≤ 10 * B * 1099511627776 * x.den := by
    have : (1099511627776 : Int).natAbs = 1099511627776 := rfl
    rw [this]
    have := Nat.mul_le_mul_right (1099511627776 * x.den) hs
    calc s.natAbs * 1099511627776 * x.den + 1099511627776 * 10 * x.den
        = (s.natAbs + 10) * (1099511627776 * x.den) := by rw [Nat.add_mul]; congr 1 <;> ac_rfl
      _ ≤ 10 * B * (1099511627776 * x.den) := this
      _ = 10 * B * 1099511627776 * x.den := by ac_rfl
  have h5 : (10995116277760 : Int).natAbs = 10995116277760 := rfl
  rw [h5] at h1
  have h6 : x.num.natAbs * 10995116277760 ≤ (B * x.den) * 10995116277760 := by
    calc x.num.natAbs * 10995116277760 ≤ 10 * B * 1099511627776 * x.den := by omega
      _ = (B * x.den) * 10995116277760 := by
        have : (10995116277760 : Nat) = 10 * 1099511627776 := by decide
        rw [this]; ac_rfl
  exact Nat.le_of_mul_le_mul_right h6 (by decide)

/-- rounding to float32 of a value bounded by `2^k` adds at most `2^(k+16)` units -/
theorem Near.rnd32 {y v : Q} {s : Int} {E k : Nat} (h : Near y s E) (hb : y.num.natAbs ≤ 2 ^ k * y.den)
    (hr : rnd f32 y = some v) : Near v s (E + 2 ^ (k + 16)) := by
  have hvd : 0 < v.den := (rnd_canon f32 hr).1
  refine ⟨hvd, ?_⟩
  have herr := rnd_err32 h.1 hb hr
  have key : (v.num * 10995116277760 - s * 1099511627776 * v.den) * y.den =
      (v.num * y.den - y.num * v.den) * 10995116277760 +
      (y.num * 10995116277760 - s * 1099511627776 * y.den) * v.den := by
    simp only [Int.sub_mul]
    have c1 : v.num * 10995116277760 * (y.den : Int) = v.num * y.den * 10995116277760 := Int.mul_right_comm _ _ _
    have c2 : y.num * (v.den : Int) * 10995116277760 = y.num * 10995116277760 * v.den := Int.mul_right_comm _ _ _
    have c3 : s * 1099511627776 * (v.den : Int) * (y.den : Int) = s * 1099511627776 * y.den * v.den :=
      Int.mul_right_comm _ _ _
    rw [c1, c2, c3]
    omega
  have k2 := congrArg Int.natAbs key
  rw [Int.natAbs_mul, Int.natAbs_natCast] at k2
  have h1 := Int.natAbs_add_le ((v.num * y.den - y.num * v.den) * 10995116277760)
    ((y.num * 10995116277760 - s * 1099511627776 * y.den) * v.den)
  rw [Int.natAbs_mul, Int.natAbs_mul, Int.natAbs_natCast] at h1
  have h5 : (10995116277760 : Int).natAbs = 10 * 2 ^ 16 * 2 ^ 24 := by decide
  rw [h5] at h1
  -- first summand: |v yd − y vd| * 10 * 2^16 * 2^24 ≤ 2^k * 10 * 2^16 * (yd vd)
  have a1 : (v.num * y.den - y.num * v.den).natAbs * (10 * 2 ^ 16 * 2 ^ 24) ≤ 2 ^ (k + 16) * 10 * v.den * y.den := by
    calc (v.num * y.den - y.num * v.den).natAbs * (10 * 2 ^ 16 * 2 ^ 24)
        = ((v.num * y.den - y.num * v.den).natAbs * 2 ^ 24) * (10 * 2 ^ 16) := by ac_rfl
      _ ≤ (2 ^ k * (y.den * v.den)) * (10 * 2 ^ 16) := Nat.mul_le_mul_right _ herr
      _ = 2 ^ (k + 16) * 10 * v.den * y.den := by rw [Nat.pow_add]; ac_rfl
  have a2 : (y.num * 10995116277760 - s * 1099511627776 * y.den).natAbs * v.den ≤ E * 10 * v.den * y.den := by
    calc (y.num * 10995116277760 - s * 1099511627776 * y.den).natAbs * v.den ≤ (E * 10 * y.den) * v.den :=
          Nat.mul_le_mul_right _ h.2
      _ = E * 10 * v.den * y.den := by ac_rfl
  have fin : (v.num * 10995116277760 - s * 1099511627776 * v.den).natAbs * y.den ≤
      ((E + 2 ^ (k + 16)) * 10 * v.den) * y.den := by
    rw [k2]
    have : (E + 2 ^ (k + 16)) * 10 * v.den * y.den = E * 10 * v.den * y.den + 2 ^ (k + 16) * 10 * v.den * y.den := by
      simp only [Nat.add_mul]
    omega
  exact Nat.le_of_mul_le_mul_right fin h.1

/-- rounding to float64 of a value bounded by `2^16` adds at most 8 units (`2^-37`) -/
theorem Near.rnd64 {y v : Q} {s : Int} {E : Nat} (h : Near y s E) (hb : y.num.natAbs ≤ 2 ^ 16 * y.den)
    (hr : rnd f64 y = some v) : Near v s (E + 8) := by
  have hvd : 0 < v.den := (rnd_canon f64 hr).1
  refine ⟨hvd, ?_⟩
  have herr := rnd_err64 h.1 hb hr
  have key : (v.num * 10995116277760 - s * 1099511627776 * v.den) * y.den =
      (v.num * y.den - y.num * v.den) * 10995116277760 +
      (y.num * 10995116277760 - s * 1099511627776 * y.den) * v.den := by
    simp only [Int.sub_mul]
    have c1 : v.num * 10995116277760 * (y.den : Int) = v.num * y.den * 10995116277760 := Int.mul_right_comm _ _ _
    have c2 : y.num * (v.den : Int) * 10995116277760 = y.num * 10995116277760 * v.den := Int.mul_right_comm _ _ _
    have c3 : s * 1099511627776 * (v.den : Int) * (y.den : Int) = s * 1099511627776 * y.den * v.den :=
      Int.mul_right_comm _ _ _
    rw [c1, c2, c3]
    omega
  have k2 := congrArg Int.natAbs key
  rw [Int.natAbs_mul, Int.natAbs_natCast] at k2
  have h1 := Int.natAbs_add_le ((v.num * y.den - y.num * v.den) * 10995116277760)
    ((y.num * 10995116277760 - s * 1099511627776 * y.den) * v.den)
  rw [Int.natAbs_mul, Int.natAbs_mul, Int.natAbs_natCast] at h1
  have h5 : (10995116277760 : Int).natAbs = 10995116277760 := rfl
  rw [h5] at h1
  -- |v yd − y vd| * 2^53 ≤ 2^16 yd vd, and 10·2^40 * 2^16 ≤ 80 * 2^53
  have a1 : (v.num * y.den - y.num * v.den).natAbs * 10995116277760 ≤ 8 * 10 * v.den * y.den := by
    have hh : (v.num * y.den - y.num * v.den).natAbs * 10995116277760 * 2 ^ 53 ≤ (8 * 10 * v.den * y.den) * 2 ^ 53 := by
      calc (v.num * y.den - y.num * v.den).natAbs * 10995116277760 * 2 ^ 53
          = ((v.num * y.den - y.num * v.den).natAbs * 2 ^ 53) * 10995116277760 := by ac_rfl
        _ ≤ (2 ^ 16 * (y.den * v.den)) * 10995116277760 := Nat.mul_le_mul_right _ herr
        _ = (y.den * v.den) * (2 ^ 16 * 10995116277760) := by ac_rfl
        _ = (y.den * v.den) * (80 * 2 ^ 53) := by
          have : (2 : Nat) ^ 16 * 10995116277760 = 80 * 2 ^ 53 := by decide
          rw [this]
        _ = (8 * 10 * v.den * y.den) * 2 ^ 53 := by ac_rfl
    exact Nat.le_of_mul_le_mul_right hh (Nat.two_pow_pos 53)
  have a2 : (y.num * 10995116277760 - s * 1099511627776 * y.den).natAbs * v.den ≤ E * 10 * v.den * y.den := by
    calc (y.num * 10995116277760 - s * 1099511627776 * y.den).natAbs * v.den ≤ (E * 10 * y.den) * v.den :=
          Nat.mul_le_mul_right _ h.2
      _ = E * 10 * v.den * y.den := by ac_rfl
  have fin : (v.num * 10995116277760 - s * 1099511627776 * v.den).natAbs * y.den ≤
      ((E + 8) * 10 * v.den) * y.den := by
    rw [k2]
    have : (E + 8) * 10 * v.den * y.den = E * 10 * v.den * y.den + 8 * 10 * v.den * y.den := by
      simp only [Nat.add_mul]
    omega
  exact Nat.le_of_mul_le_mul_right fin h.1

/-- a value within less than a half of the integer `n` rounds (`math.Round`) to `n` -/
theorem Near.roundAway {y : Q} {n : Int} {E : Nat} (h : Near y (10 * n) E) (hE : 2 * E < 1099511627776) :
    y.roundAway = n := by
  have hd := h.1
  -- 2 |num − n·den| < den
  have e : y.num * 10995116277760 - 10 * n * 1099511627776 * y.den = (y.num - n * y.den) * 10995116277760 := by
    rw [Int.sub_mul]
    congr 1
    have : (10 : Int) * n * 1099511627776 * y.den = n * y.den * (10 * 1099511627776) := by ac_rfl
    rw [this]
    have : (10 : Int) * 1099511627776 = 10995116277760 := by decide
    rw [this]
  have h2 := h.2
  rw [e, Int.natAbs_mul] at h2
  have h5 : (10995116277760 : Int).natAbs = 10995116277760 := rfl
  rw [h5] at h2
  have h3 : 2 * (y.num - n * y.den).natAbs * 1099511627776 < y.den * 1099511627776 := by
    have a : 2 * ((y.num - n * y.den).natAbs * 10995116277760) ≤ 2 * (E * 10 * y.den) := Nat.mul_le_mul_left _ h2
    have b : 2 * (E * 10 * y.den) = (2 * E) * (10 * y.den) := by ac_rfl
    have c : (2 * E) * (10 * y.den) < 1099511627776 * (10 * y.den) :=
      Nat.mul_lt_mul_of_pos_right hE (by omega)
    have d : 2 * ((y.num - n * y.den).natAbs * 10995116277760) = (2 * (y.num - n * y.den).natAbs * 1099511627776) * 10 := by
      have : (10995116277760 : Nat) = 1099511627776 * 10 := by decide
      rw [this]; ac_rfl
    have f : 1099511627776 * (10 * y.den) = (y.den * 1099511627776) * 10 := by ac_rfl
    omega
  have h4 : 2 * (y.num - n * y.den).natAbs < y.den := Nat.lt_of_mul_lt_mul_right h3
  obtain ⟨r1, r2⟩ := Q.roundAway_spec y hd
  -- R < n + 1 and n < R + 1
  have hdI : (0 : Int) < y.den := by omega
  have u1 : y.roundAway * y.den < (n + 1) * y.den := by
    rw [Int.add_mul, Int.one_mul]
    have : 2 * y.roundAway * y.den = 2 * (y.roundAway * y.den) := Int.mul_assoc _ _ _
    omega
  have u2 : n * y.den < (y.roundAway + 1) * y.den := by
    rw [Int.add_mul, Int.one_mul]
    have : 2 * y.roundAway * y.den = 2 * (y.roundAway * y.den) := Int.mul_assoc _ _ _
    omega
  have v1 := Int.lt_of_mul_lt_mul_right u1 (by omega)
  have v2 := Int.lt_of_mul_lt_mul_right u2 (by omega)
  omega

/-! ## float32 steps -/

/-- one float32 addition of values whose exact sum is below 255: `2^24` more units of error -/
theorem add32N {x y : Q} {s t : Int} {E F : Nat} (hx : Near x s E) (hy : Near y t F)
    (hs : (s + t).natAbs ≤ 2540) (hE : E + F ≤ 1099511627776) :
    ∃ v, add f32 x y = some v ∧ Near v (s + t) (E + F + 16777216) := by
  have hz := hx.add hy
  have hb : Bd (Q.add x y) 256 := hz.bd hE (by omega)
  obtain ⟨v, hv, _⟩ := fltFacts.abs_le32 _ 256 (by decide) hb
  refine ⟨v, hv, ?_⟩
  have := hz.rnd32 (k := 8) (by simpa using hb.2) hv
  simpa using this

theorem sub32N {x y : Q} {s t : Int} {E F : Nat} (hx : Near x s E) (hy : Near y t F)
    (hs : (s - t).natAbs ≤ 2540) (hE : E + F ≤ 1099511627776) :
    ∃ v, sub f32 x y = some v ∧ Near v (s - t) (E + F + 16777216) := by
  have hz := hx.sub hy
  have hb : Bd (Q.sub x y) 256 := hz.bd hE (by omega)
  obtain ⟨v, hv, _⟩ := fltFacts.abs_le32 _ 256 (by decide) hb
  refine ⟨v, hv, ?_⟩
  have := hz.rnd32 (k := 8) (by simpa using hb.2) hv
  simpa using this

/-- the final subtraction `PositionPlay(turn) - PositionPlay(opponent)`: below 511 -/
theorem sub32N' {x y : Q} {s t : Int} {E F : Nat} (hx : Near x s E) (hy : Near y t F)
    (hs : (s - t).natAbs ≤ 5100) (hE : E + F ≤ 1099511627776) :
    ∃ v, sub f32 x y = some v ∧ Near v (s - t) (E + F + 33554432) := by
  have hz := hx.sub hy
  have hb : Bd (Q.sub x y) 512 := hz.bd hE (by omega)
  obtain ⟨v, hv, _⟩ := fltFacts.abs_le32 _ 512 (by decide) hb
  refine ⟨v, hv, ?_⟩
  have := hz.rnd32 (k := 9) (by simpa using hb.2) hv
  simpa using this

/-- `if c { score += v }` -/
theorem addIf32N {x y : Q} {s t : Int} {E F : Nat} (c : Bool) (hx : Near x s E) (hy : Near y t F)
    (hs : (s + t).natAbs ≤ 2540) (hE : E + F ≤ 1099511627776) :
    ∃ v, addIf c y x = some v ∧ Near v (s + if c then t else 0) (E + F + 16777216) := by
  cases c
  · refine ⟨x, ?_, ?_⟩
    · unfold addIf; exact if_neg (by decide)
    · simp only [Bool.false_eq_true, if_false, Int.add_zero]
      exact hx.mono (by omega)
  · obtain ⟨v, hv, hn⟩ := add32N hx hy hs hE
    refine ⟨v, ?_, by simpa using hn⟩
    unfold addIf
    rw [if_pos rfl]
    exact hv

end Morlock.Proofs.Turochamp
