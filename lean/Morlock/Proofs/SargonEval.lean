import Morlock.Proofs.SargonExchange
/-!
# SARGON, part 4: `Material`, `Mobility`, `Development`, `Points.Evaluate` are total, with bounds

The three float32 roundings of `Points.Evaluate` enter through `FltFacts` (three facts about `Flt.add/mul/div f32`
that follow from `Proofs/FltLemmas`; `Proofs/SargonFlt.lean` discharges them).
-/
namespace Morlock.Proofs.Sargon
open Morlock Morlock.Model Morlock.Model.Sargon Morlock.Proofs.Attack Morlock.Proofs.Gen
open Morlock.Model.Flt (Q f32)

/-! ## constants -/

/-- bound on `|Exchange|` -/
def exchMax : Int := 200 * (sideMax : Int)
theorem exchMax_eq : exchMax = 2457600 := by decide
theorem sideMax_eq : sideMax = 12288 := by decide

/-! ## `popCount` -/

theorem popCountAux_le : ∀ n b, popCountAux n b ≤ n := by
  intro n
  induction n with
  | zero => intro b; simp [popCountAux]
  | succ n ih => intro b; unfold popCountAux; have := ih (b / 2); omega

theorem popCount_le (b : Nat) : popCount b ≤ 64 := popCountAux_le 64 b

/-! ## `eval.Material` -/

theorem materialPawns_bound (pos : Position) (turn : Color) : -7744 ≤ materialPawns pos turn ∧ materialPawns pos turn ≤ 7744 := by
  unfold materialPawns
  simp only [Position.piecesInOrder, List.foldl, Proofs.Mirror.nominalValue_pawn, Proofs.Mirror.nominalValue_bishop,
    Proofs.Mirror.nominalValue_knight, Proofs.Mirror.nominalValue_rook, Proofs.Mirror.nominalValue_queen,
    Proofs.Mirror.nominalValue_king]
  have h1 := popCount_le (pos.pieces turn .pawn)
  have h2 := popCount_le (pos.pieces turn .bishop)
  have h3 := popCount_le (pos.pieces turn .knight)
  have h4 := popCount_le (pos.pieces turn .rook)
  have h5 := popCount_le (pos.pieces turn .queen)
  have h6 := popCount_le (pos.pieces turn .king)
  have g1 := popCount_le (pos.pieces turn.opp .pawn)
  have g2 := popCount_le (pos.pieces turn.opp .bishop)
  have g3 := popCount_le (pos.pieces turn.opp .knight)
  have g4 := popCount_le (pos.pieces turn.opp .rook)
  have g5 := popCount_le (pos.pieces turn.opp .queen)
  have g6 := popCount_le (pos.pieces turn.opp .king)
  omega

/-! ## `Material` -/

/-- invariant of the loop of `Material` -/
def MInv (s : MState) : Prop :=
  -exchMax ≤ s.ptsl ∧ s.ptsl ≤ 0 ∧ 0 ≤ s.ptsw1 ∧ s.ptsw1 ≤ exchMax ∧ 0 ≤ s.ptsw2 ∧ s.ptsw2 ≤ exchMax

theorem materialStep_inv (last : Option Move) (sq : Nat) (v : Int) (s : MState) (hv1 : -exchMax ≤ v) (hv2 : v ≤ exchMax)
    (h : MInv s) : MInv (materialStep last sq v s) := by
  obtain ⟨a, b, c, d, e, f⟩ := h
  unfold materialStep MInv
  split
  · dsimp only; omega
  · split
    · dsimp only; omega
    · split
      · dsimp only; omega
      · omega

theorem materialLoop_ok {p : Position} {b : Board} (hrep : Rep p b) {srt : List Attacker → List Attacker} (hs : SortOK srt)
    (v : BView) (hv : v.pos = p) (pins : Pins) :
    ∀ (l : List Nat) (s : MState), (∀ sq ∈ l, sq < 64) → MInv s → ∃ s', materialLoop srt v pins l s = .ok s' ∧ MInv s' := by
  intro l
  induction l with
  | nil => intro s _ hi; exact ⟨s, rfl, hi⟩
  | cons sq rest ih =>
    intro s hl hi
    obtain ⟨x, hx, hx1, hx2⟩ := exchangeW_ok hrep hs pins v.turn.opp (hl sq (List.mem_cons_self ..))
    obtain ⟨s', hs', hi'⟩ := ih (materialStep v.last sq x s) (fun y hy => hl y (List.mem_cons_of_mem _ hy))
      (materialStep_inv _ _ _ _ hx1 hx2 hi)
    refine ⟨s', ?_, hi'⟩
    simp only [materialLoop, hv, hx, hs']

/-- bound on `|2·mtrl|` -/
def mtrl2Max : Int := 15490 + 6 * exchMax

theorem materialW_ok {p : Position} {b : Board} (hrep : Rep p b) {srt : List Attacker → List Attacker} (hs : SortOK srt)
    (v : BView) (hv : v.pos = p) (pins : Pins) :
    ∃ m chk, materialW srt v pins = .ok (m, chk) ∧ -mtrl2Max ≤ m ∧ m ≤ mtrl2Max := by
  unfold materialW
  have hl : ∀ sq ∈ toSquares v.pos.all, sq < 64 := by
    intro sq hsq
    rw [hv] at hsq
    exact toSquares_lt hrep.rotLt hsq
  obtain ⟨s, hs', a, b', c, d, e, f⟩ := materialLoop_ok hrep hs v hv pins (toSquares v.pos.all) {} hl
    (by unfold MInv exchMax sideMax stackFuel; simp)
  have hm := materialPawns_bound v.pos v.turn
  simp only [hs']
  refine ⟨_, _, rfl, ?_, ?_⟩
  · unfold mtrl2Max; split <;> split <;> split <;> omega
  · unfold mtrl2Max; split <;> split <;> split <;> omega

/-! ## `Mobility`, `Development` -/

theorem mobilityLoop_ok {p : Position} {b : Board} (hrep : Rep p b) (v : BView) (hv : v.pos = p) (pins : Pins) :
    ∀ (l : List Nat) (acc : Int) (A : Int), (∀ sq ∈ l, sq < 64) → -A ≤ acc → acc ≤ A →
      ∃ r, mobilityLoop v pins l acc = .ok r ∧ -(A + (l.length : Int) * sideMax) ≤ r ∧ r ≤ A + (l.length : Int) * sideMax := by
  intro l
  induction l with
  | nil => intro acc A _ h1 h2; exact ⟨acc, rfl, by simp; omega, by simp; omega⟩
  | cons sq rest ih =>
    intro acc A hl h1 h2
    have hsq := hl sq (List.mem_cons_self ..)
    obtain ⟨att, hatt, natt, datt⟩ := findAttackers_ok hrep pins hsq v.turn
    obtain ⟨opp, hopp, nopp, dopp⟩ := findAttackers_ok hrep pins hsq v.turn.opp
    have ha := numAttackers_le natt datt
    have ho := numAttackers_le nopp dopp
    have hsm : (sideMax : Int) = 384 * (stackFuel : Int) := by unfold sideMax; simp
    obtain ⟨r, hr, hr1, hr2⟩ := ih (acc + ((numAttackers att : Int) - (numAttackers opp : Int))) (A + sideMax)
      (fun y hy => hl y (List.mem_cons_of_mem _ hy)) (by omega) (by omega)
    refine ⟨r, ?_, ?_, ?_⟩
    · simp only [mobilityLoop, hv, hatt, hopp, hr]
    · simp only [List.length_cons]; rw [Int.natCast_add, Int.add_mul]; simp only [Int.natCast_one, Int.one_mul]; omega
    · simp only [List.length_cons]; rw [Int.natCast_add, Int.add_mul]; simp only [Int.natCast_one, Int.one_mul]; omega

/-- bound on `|Mobility|` -/
def mobMax : Int := 64 * (sideMax : Int)

theorem mobility_ok {p : Position} {b : Board} (hrep : Rep p b) (v : BView) (hv : v.pos = p) (pins : Pins) :
    ∃ r, mobility v pins = .ok r ∧ -mobMax ≤ r ∧ r ≤ mobMax := by
  obtain ⟨r, hr, h1, h2⟩ := mobilityLoop_ok hrep v hv pins (List.range 64) 0 0 (fun sq hsq => List.mem_range.mp hsq)
    (by omega) (by omega)
  refine ⟨r, hr, ?_, ?_⟩
  · unfold mobMax; simp only [List.length_range] at h1; omega
  · unfold mobMax; simp only [List.length_range] at h2; omega

theorem kingDev_range (c m : Bool) : -2 ≤ kingDev c m ∧ kingDev c m ≤ 6 := by
  unfold kingDev; cases c <;> cases m <;> simp

theorem development_bound (v : BView) : -532 ≤ development v ∧ development v ≤ 532 := by
  unfold development
  simp only []
  have k1 := kingDev_range (v.hasCastled v.turn) ((v.pos.pieces v.turn .king &&& v.moved) != 0)
  have k2 := kingDev_range (v.hasCastled v.turn.opp) ((v.pos.pieces v.turn.opp .king &&& v.moved) != 0)
  have a1 := popCount_le (andNot (v.pos.pieces v.turn .knight) v.moved)
  have a2 := popCount_le (andNot (v.pos.pieces v.turn.opp .knight) v.moved)
  have a3 := popCount_le (andNot (v.pos.pieces v.turn .bishop) v.moved)
  have a4 := popCount_le (andNot (v.pos.pieces v.turn.opp .bishop) v.moved)
  have a5 := popCount_le (v.pos.pieces v.turn .rook &&& v.moved)
  have a6 := popCount_le (v.pos.pieces v.turn.opp .rook &&& v.moved)
  have a7 := popCount_le (v.pos.pieces v.turn .queen &&& v.moved)
  have a8 := popCount_le (v.pos.pieces v.turn.opp .queen &&& v.moved)
  simp only [if_true, Bool.false_eq_true, if_false]
  split <;> omega

/-- bound on `|BoardControl|` -/
def brdcMax : Int := 532 + mobMax

theorem boardControl_ok {p : Position} {b : Board} (hrep : Rep p b) (v : BView) (hv : v.pos = p) (pins : Pins) :
    ∃ r, boardControl v pins = .ok r ∧ -brdcMax ≤ r ∧ r ≤ brdcMax := by
  obtain ⟨m, hm, h1, h2⟩ := mobility_ok hrep v hv pins
  have hd := development_bound v
  refine ⟨development v + m, ?_, ?_, ?_⟩
  · simp only [boardControl, hm]
  · unfold brdcMax; omega
  · unfold brdcMax; omega

/-- **`Points.Reset` is total.** -/
theorem reset_ok {p : Position} {b : Board} (hrep : Rep p b) (v : BView) (hv : v.pos = p) :
    ∃ pts, reset v = .ok pts ∧ pts.side0 = v.turn ∧ -brdcMax ≤ pts.brdc0 ∧ pts.brdc0 ≤ brdcMax := by
  obtain ⟨r, hr, h1, h2⟩ := boardControl_ok hrep v hv (findKingQueenPins v.pos)
  exact ⟨{ side0 := v.turn, brdc0 := r }, by simp only [reset, hr], rfl, h1, h2⟩

/-! ## `Points.Evaluate` -/

/-- `|x| ≤ B` -/
def AbsLe (x : Q) (B : Nat) : Prop := x.num.natAbs ≤ B * x.den

/-- The three facts about float32 arithmetic that `Points.Evaluate` needs: an operation whose exact result is
    at most `2^k ≤ 2^127` in magnitude is finite, and its rounded result is still at most `2^k`. -/
structure FltFacts : Prop where
  add_ok : ∀ (x y : Q) (A B k : Nat), 0 < x.den → 0 < y.den → AbsLe x A → AbsLe y B → A + B ≤ 2 ^ k → k ≤ 127 →
    ∃ z, Flt.add f32 x y = some z ∧ 0 < z.den ∧ AbsLe z (2 ^ k)
  mul_ok : ∀ (x y : Q) (A B k : Nat), 0 < x.den → 0 < y.den → AbsLe x A → AbsLe y B → A * B ≤ 2 ^ k → k ≤ 127 →
    ∃ z, Flt.mul f32 x y = some z ∧ 0 < z.den ∧ AbsLe z (2 ^ k)
  /-- division by a positive integer does not increase the magnitude -/
  div_ok : ∀ (x : Q) (d : Int) (A k : Nat), 0 < x.den → 0 < d → AbsLe x A → A ≤ 2 ^ k → k ≤ 127 →
    ∃ z, Flt.div f32 x (Q.ofInt d) = some z ∧ 0 < z.den ∧ AbsLe z (2 ^ k)

theorem absLe_ofInt {i : Int} {B : Nat} (h : i.natAbs ≤ B) : AbsLe (Q.ofInt i) B := by
  unfold AbsLe Q.ofInt; simpa using h

theorem absLe_halves {i : Int} {B : Nat} (h : i.natAbs ≤ B) : AbsLe (Q.halves i) B := by
  unfold AbsLe Q.halves; simp only []; omega

theorem limit_range (x : Int) : -6 ≤ limit x 6 ∧ limit x 6 ≤ 6 := by
  unfold limit; split
  · omega
  · split <;> omega

theorem mtrl2Max_eq : mtrl2Max = 14761090 := by decide
theorem brdcMax_eq : brdcMax = 786964 := by decide

/-- **`Points.Evaluate` is total and bounded** on every represented position, for every sorter, every root state. -/
theorem evaluatePartsW_ok (F : FltFacts) {p : Position} {b : Board} (hrep : Rep p b) {srt : List Attacker → List Attacker}
    (hs : SortOK srt) (pts : Points) (v : BView) (hv : v.pos = p) :
    ∃ r, evaluatePartsW srt pts v = .ok r ∧ 0 < r.points.den ∧ AbsLe r.points (2 ^ 28) ∧
      -brdcMax ≤ r.brdc ∧ r.brdc ≤ brdcMax ∧ -mtrl2Max ≤ r.mtrl2 ∧ r.mtrl2 ≤ mtrl2Max := by
  obtain ⟨brdc, hbrdc, hb1, hb2⟩ := boardControl_ok hrep v hv (findKingQueenPins v.pos)
  obtain ⟨m2, chk, hmat, hm1, hm2⟩ := materialW_ok hrep hs v hv (findKingQueenPins v.pos)
  rw [mtrl2Max_eq] at hm1 hm2
  rw [brdcMax_eq] at hb1 hb2
  -- mtrl * 4
  obtain ⟨m4, hm4, dm4, am4⟩ := F.mul_ok (Q.halves m2) (Q.ofInt 4) 14761090 4 26 (by simp [Q.halves]) (by simp [Q.ofInt])
    (absLe_halves (by omega)) (absLe_ofInt (by decide)) (by decide) (by decide)
  -- brdc / 100
  obtain ⟨q, hq, dq, aq⟩ := F.div_ok (Q.ofInt brdc) 100 786964 20 (by simp [Q.ofInt]) (by decide)
    (absLe_ofInt (by omega)) (by decide) (by decide)
  have hlim := limit_range (brdc - pts.brdc0)
  unfold evaluatePartsW
  simp only [hbrdc, hmat, hm4, hq, ofOpt]
  by_cases hchk : chk = true
  · obtain ⟨r, hr, dr, ar⟩ := F.add_ok m4 q (2 ^ 26) (2 ^ 20) 28 dm4 dq am4 aq (by decide) (by decide)
    simp only [hchk, if_true, hr]
    exact ⟨_, rfl, dr, ar, by rw [brdcMax_eq]; exact hb1, by rw [brdcMax_eq]; exact hb2,
      by rw [mtrl2Max_eq]; exact hm1, by rw [mtrl2Max_eq]; exact hm2⟩
  · obtain ⟨s, hs', ds, as⟩ := F.add_ok m4 (Q.ofInt (limit (brdc - pts.brdc0) 6)) (2 ^ 26) 6 27 dm4 (by simp [Q.ofInt]) am4
      (absLe_ofInt (by omega)) (by decide) (by decide)
    obtain ⟨r, hr, dr, ar⟩ := F.add_ok s q (2 ^ 27) (2 ^ 20) 28 ds dq as aq (by decide) (by decide)
    have hchk' : chk = false := by simpa using hchk
    simp only [hchk', Bool.false_eq_true, if_false, hs', hr]
    exact ⟨_, rfl, dr, ar, by rw [brdcMax_eq]; exact hb1, by rw [brdcMax_eq]; exact hb2,
      by rw [mtrl2Max_eq]; exact hm1, by rw [mtrl2Max_eq]; exact hm2⟩

end Morlock.Proofs.Sargon
