import Morlock.Proofs.ABChessTree
import Morlock.Model.EngineExplore
import Morlock.Proofs.TurochampConsiderable
/-!
# The explorations of the bundled engines (`Model/EngineExplore.lean`) and the ops the streams compare with the Go code
-/
namespace Morlock.Proofs.AB
open Morlock Morlock.Model Morlock.Model.World Morlock.Model.Score Morlock.Proofs

/-- The predicate of `turochampExplore` is the test `considerableMoves` (the op the `turochamp` stream compares with
    the Go code) applies to a generated move. -/
theorem turochampExplore_pick (z : ZTable) (w : World) (m : Move) :
    (turochampExplore z w).pick m = Turochamp.considerableTest z w 0 m := rfl

/-- The generated moves that the quiescence search of TUROCHAMP explores at `w` are `considerableMoves z w 0`. -/
theorem turochampExplore_moves (z : ZTable) (w : World) {l : List Move} (h : Turochamp.considerableMoves z w 0 = some l) :
    l = ((w.cur 0).pos.pseudoLegalMoves (w.board 0).turn).filter (turochampExplore z w).pick :=
  Turochamp.considerableLoop_eq_filter z w 0 _ l h

/-- `bernsteinExplore` is `Bernstein.explore` (the op the `bernstein` stream compares with the Go code) at the node. -/
theorem bernsteinExplore_eq (limit : Int) (w : World) :
    ((bernsteinExplore limit w).prio, (bernsteinExplore limit w).pick) =
      Bernstein.explore limit (w.cur 0).pos (w.board 0).turn := rfl

set_option maxRecDepth 100000 in
/-- The engines' explorations on `wE` (36 generated moves): TUROCHAMP's considerable moves are 6 of them - exactly
    `considerableMoves`, the op the `turochamp` stream compares with the Go code -, BERNSTEIN's table of limit 7 has 7.
    (Evaluated with `#eval`, not part of the build: at depth 1 the search with considerable-moves leaves visits 70 nodes,
    with captures-only leaves 79; the BERNSTEIN search of depth 2 visits 23.) -/
example : ((gX.moves wE).filter (turochampExplore exZ wE).pick).length = 6 ∧
    (Turochamp.considerableMoves exZ wE 0).map (·.length) = some 6 ∧
    ((gX.moves wE).filter (bernsteinExplore 7 wE).pick).length = 7 ∧ (gX.moves wE).length = 36 := by
  decide +kernel

end Morlock.Proofs.AB
