import Morlock.Proofs.UciPosExt
/-!
# C10: robustness — after arbitrary lines, a well-formed playable line is still set up right

`Good eng (e, last)`: whenever a well-formed playable line is recognised as an extension of `last`
and the extra words can all be played from `e`, the result is the game of that line. Every state
the handlers can reach from `lastPosition = ""` is good, provided the engine is `Strict`.
-/
namespace Morlock.Proofs.UciPos
open Morlock.Model Morlock.Model.UciSeq Morlock.Model.UciPos Morlock.Proofs.UciPosText

variable {E : Type}

def Good (eng : Eng E) (st : E × List Char) : Prop :=
  ∀ (c : Cmd) (d e' : E) (rest : List (List Char)), c.Ok → Fen.trimSpace c.render = c.render →
    denoteC eng c = some d → continuation st.2 c.render = some rest → extend eng st.1 rest = (e', true) → e' = d

theorem good_nil (eng : Eng E) (e : E) : Good eng (e, []) := by
  intro c d e' rest _ _ _ hc _
  simp [continuation, Fen.trimSpace] at hc

/-- A good state handles a well-formed playable line right. -/
theorem position_of_good (eng : Eng E) (st : E × List Char) (hg : Good eng st) (c : Cmd) (d : E)
    (hc : c.Ok) (ht : Fen.trimSpace c.render = c.render) (hd : denoteC eng c = some d) :
    position eng st c.render = (d, c.render) := by
  unfold position
  cases hcont : continuation st.2 c.render with
  | none => exact fresh_render eng st.1 d c hc ht hd
  | some rest =>
    simp only []
    cases hx : extend eng st.1 rest with
    | mk e' ok =>
      cases ok with
      | false => simp only [Bool.false_eq_true, if_false]; exact fresh_render eng e' d c hc ht hd
      | true =>
        simp only [if_true]
        rw [hg c d e' rest hc ht hd hcont hx]

theorem playSkip_mem (eng : Eng E) (e e' : E) (ws : List (List Char)) (h : playSkip eng e ws = some e')
    (w : List Char) (hw : w ∈ ws) (hm : w ≠ kwMoves) : ∃ e1, (eng.move e1 w).isSome := by
  induction ws generalizing e with
  | nil => simp at hw
  | cons v ws ih =>
    by_cases hv : v = kwMoves
    · subst hv
      rw [playSkip_moves_cons] at h
      rcases List.mem_cons.1 hw with h1 | h1
      · exact absurd h1 hm
      · exact ih e h h1
    · have hh : playSkip eng e (v :: ws) = (eng.move e v).bind fun e1 => playSkip eng e1 ws := by
        simp [playSkip, hv, play]
      rw [hh] at h
      cases hmv : eng.move e v with
      | none => simp [hmv] at h
      | some e1 =>
        simp only [hmv, Option.bind_some] at h
        rcases List.mem_cons.1 hw with h1 | h1
        · subst h1; exact ⟨e, by simp [hmv]⟩
        · exact ih e1 h h1

/-- The last word of the header of a playable command is refused as a move by a strict engine. -/
theorem header_last (eng : Eng E) (hS : eng.Strict) (c : Cmd) (hc : c.Ok) (hr : (eng.reset (fenStr c)).isSome) :
    ∃ init z, c.header = init ++ [z] ∧ ∀ e, eng.move e z = none := by
  unfold Cmd.header
  unfold fenStr at hr
  cases hf : c.fen with
  | none => exact ⟨[], kwStartpos, rfl, hS.startpos⟩
  | some fs =>
    rw [hf] at hr
    have hl := (hc.1 fs hf).1
    rcases List.eq_nil_or_concat fs with h | ⟨fs', f, h⟩
    · subst h; simp at hl
    · rw [List.concat_eq_append] at h
      subst h
      refine ⟨kwFen :: fs', f, rfl, hS.lastField fs' f ?_ hr⟩
      simp at hl; omega

/-- The new-position path on an *arbitrary* accepted line, first case: the line has at least the
    words of the header of the well-formed line that extends it. -/
theorem fresh_good_long (eng : Eng E) (e0 e e' d : E) (c : Cmd) (hc : c.Ok) (as rest : List (List Char))
    (htl : c.tail = as ++ rest)
    (hr : eng.reset (fenOf (c.header ++ as)) = some e0)
    (hx : extend eng e0 (afterMoves (c.header ++ as)) = (e, true))
    (hd : denoteC eng c = some d) (hx2 : extend eng e rest = (e', true)) : e' = d := by
  rw [fenOf_header c hc] at hr
  rw [afterMoves_of_no_moves _ _ (header_no_moves c hc)] at hx
  have h1 := (extend_ok_iff _ _ _ _).1 hx
  have h2 := (extend_ok_iff _ _ _ _).1 hx2
  have has : playSkip eng e0 (afterMoves as) = playSkip eng e0 as := by
    unfold Cmd.tail at htl
    cases as with
    | nil => rfl
    | cons a as' =>
      split at htl
      · simp at htl
      · have : a = kwMoves := by simpa using (List.cons.inj htl).1.symm
        subst this
        rw [afterMoves_moves_cons, playSkip_moves_cons]
  rw [has] at h1
  rw [denoteC_eq eng c hc, hr, htl] at hd
  simp only [Option.bind_some, playSkip_append, h1, h2] at hd
  cases hd; rfl

/-- The new-position path leaves a good state, whatever the line was. -/
theorem fresh_good (eng : Eng E) (hS : eng.Strict) (ex : E) (line : List Char) : Good eng (fresh eng ex line) := by
  unfold fresh
  dsimp only
  cases hr : eng.reset (fenOf (argsOf line)) with
  | none => exact good_nil eng ex
  | some e0 =>
    dsimp only
    cases hx : extend eng e0 (afterMoves (argsOf line)) with
    | mk e ok =>
      cases ok with
      | false => simp only [Bool.false_eq_true, if_false]; exact good_nil eng e
      | true =>
        simp only [if_true]
        intro c d e' rest hc ht hd hcont hx2
        simp only [] at hcont hx2
        have hne : ∀ w ∈ Fen.splitSpaces (Fen.trimSpace c.render), Word w := by
          rw [ht, splitSpaces_render c hc]; exact words_word c hc
        have ha := argsOf_continuation _ _ _ hcont hne
        rw [argsOf_render c hc ht] at ha
        rcases List.append_eq_append_iff.1 ha with ⟨as, h1, h2⟩ | ⟨bs, h1, h2⟩
        · rw [h1] at hr hx
          exact fresh_good_long eng e0 e e' d c hc as rest h2 hr hx hd hx2
        · rcases List.eq_nil_or_concat bs with hb | ⟨bs', z', hb⟩
          · subst hb
            simp only [List.append_nil] at h1
            simp only [List.nil_append] at h2
            have hr' : eng.reset (fenOf (c.header ++ [])) = some e0 := by simpa [← h1] using hr
            have hx' : extend eng e0 (afterMoves (c.header ++ [])) = (e, true) := by simpa [← h1] using hx
            exact fresh_good_long eng e0 e e' d c hc [] rest (by simpa using h2.symm) hr' hx' hd hx2
          · exfalso
            rw [List.concat_eq_append] at hb
            subst hb
            have hres : (eng.reset (fenStr c)).isSome := by
              unfold denoteC at hd
              cases h : eng.reset (fenStr c) with
              | none => simp [h] at hd
              | some _ => rfl
            obtain ⟨init, z, hz, hrefuse⟩ := header_last eng hS c hc hres
            have hzz : z' = z := by
              have : argsOf line ++ bs' ++ [z'] = init ++ [z] := by rw [← hz, h1]; simp
              have := List.append_inj_right' this rfl
              simpa using this
            subst hzz
            have hzm : z' ≠ kwMoves := header_no_moves c hc z' (by rw [hz]; simp)
            have hp := (extend_ok_iff _ _ _ _).1 hx2
            obtain ⟨e1, he1⟩ := playSkip_mem eng e e' rest hp z' (by rw [h2]; simp) hzm
            rw [hrefuse e1] at he1
            simp at he1

/-- The `position` handler keeps the state good, whatever the line is. -/
theorem position_good (eng : Eng E) (hS : eng.Strict) (st : E × List Char) (hg : Good eng st) (line : List Char) :
    Good eng (position eng st line) := by
  unfold position
  cases hcont : continuation st.2 line with
  | none => exact fresh_good eng hS st.1 line
  | some rest1 =>
    simp only []
    cases hx : extend eng st.1 rest1 with
    | mk e1 ok =>
      cases ok with
      | false => simp only [Bool.false_eq_true, if_false]; exact fresh_good eng hS e1 line
      | true =>
        simp only [if_true]
        intro c d e' rest2 hc ht hd hcont2 hx2
        simp only [] at hcont2 hx2
        have hct := continuation_trans _ _ _ _ _ hcont hcont2
        have h1 := (extend_ok_iff _ _ _ _).1 hx
        have h2 := (extend_ok_iff _ _ _ _).1 hx2
        have h3 : extend eng st.1 (rest1 ++ rest2) = (e', true) := by
          apply extend_of_playSkip
          rw [playSkip_append, h1]; exact h2
        exact hg c d e' (rest1 ++ rest2) hc ht hd hct h3

theorem step_good (eng : Eng E) (hS : eng.Strict) (st : E × List Char) (hg : Good eng st) (cmd : Command) :
    Good eng (step eng st cmd) := by
  cases cmd with
  | newgame => exact good_nil eng st.1
  | position line => exact position_good eng hS st hg line

theorem run_good (eng : Eng E) (hS : eng.Strict) (st : E × List Char) (hg : Good eng st) (cmds : List Command) :
    Good eng (run eng st cmds) := by
  unfold run
  induction cmds generalizing st with
  | nil => exact hg
  | cons c cs ih => exact ih (step eng st c) (step_good eng hS st hg c)

end Morlock.Proofs.UciPos
