import Morlock.Proofs.BernsteinCapture
import Morlock.Proofs.BernsteinEval
import Morlock.Proofs.MirrorModelMoves
/-!
# Colour-blindness of the four Bernstein terms: the colour-swapped mirror image of a position scores, for the other colour, the same

`p` represents a mailbox board `b`, `q` represents `mirrorBoard b` (ranks reversed, colours swapped). Attack queries, `Control`,
`KingDefense` and `Material` need nothing else (`KingDefense`: at most one king of the colour); `Mobility` goes through C01 and the
reference mirror theorem, hence needs `WF` of both positions for the colour in question.
-/
namespace Morlock.Proofs.Bernstein
open Morlock Morlock.Model Morlock.Model.Bernstein Morlock.Proofs.Gen Morlock.Proofs.Attack Morlock.Proofs.Mirror

theorem opp_opp (c : Color) : c.opp.opp = c := by cases c <;> rfl

/-! ## the mirrored board -/

theorem mirrorBoard_mirrorSq (b : Board) (s : Nat) :
    mirrorBoard b (Spec.mirrorSq s) = (b s).map fun v => (v.1.opp, v.2) := by
  unfold mirrorBoard
  rw [Spec.mirrorSq_mirrorSq]
  cases b s with
  | none => rfl
  | some v => rfl

theorem mirrorBoard_some_iff (b : Board) (s : Nat) (c : Color) (k : Piece) :
    mirrorBoard b s = some (c, k) ↔ b (Spec.mirrorSq s) = some (c.opp, k) := by
  unfold mirrorBoard
  cases b (Spec.mirrorSq s) with
  | none => simp
  | some v =>
    obtain ⟨c', k'⟩ := v
    simp only [Option.some.injEq, Prod.mk.injEq]
    constructor
    · rintro ⟨rfl, rfl⟩; exact ⟨(opp_opp c').symm, rfl⟩
    · rintro ⟨rfl, rfl⟩; exact ⟨opp_opp c, rfl⟩

theorem occB_mirrorBoard (b : Board) (t : Nat) : occB (mirrorBoard b) (Spec.mirrorSq t) = occB b t := by
  unfold occB
  rw [mirrorBoard_mirrorSq]
  cases b t <;> rfl

theorem occB_mirrorBoard' (b : Board) (t : Nat) : occB b (Spec.mirrorSq t) = occB (mirrorBoard b) t := by
  have := occB_mirrorBoard b (Spec.mirrorSq t)
  rw [Spec.mirrorSq_mirrorSq] at this
  exact this.symm

/-! ## one kind of attacker, on the mailbox board -/

/-- `sq` is attacked by a `(c, k)` man of the board -/
def AttBy (b : Board) (c : Color) (k : Piece) (sq : Nat) : Prop :=
  ∃ s, b s = some (c, k) ∧
    if k = .pawn then sq ∈ Spec.pawnTargets (absColor c) s else sq ∈ Spec.officerTargets (occB b) (kindOf k) s

theorem attBy_mirror_imp {b : Board} (hout : ∀ sq, 64 ≤ sq → b sq = none) {c : Color} {k : Piece} {sq : Nat}
    (h : AttBy b c k sq) : AttBy (mirrorBoard b) c.opp k (Spec.mirrorSq sq) := by
  obtain ⟨s, hb, hm⟩ := h
  have hs : s < 64 := by
    apply Classical.byContradiction; intro hn
    have := hout s (by omega); rw [hb] at this; cases this
  refine ⟨Spec.mirrorSq s, ?_, ?_⟩
  · rw [mirrorBoard_mirrorSq, hb]; rfl
  · by_cases hk : k = .pawn
    · rw [if_pos hk] at hm ⊢
      rw [absColor_opp]
      exact Spec.mem_pawnTargets_mirror _ hs hm
    · rw [if_neg hk] at hm ⊢
      exact Spec.mem_officerTargets_mirror (fun t _ => occB_mirrorBoard b t) _ hs hm

theorem mirrorBoard_out {b : Board} (hout : ∀ sq, 64 ≤ sq → b sq = none) : ∀ sq, 64 ≤ sq → mirrorBoard b sq = none := by
  intro sq hsq
  unfold mirrorBoard
  rw [Spec.mirrorSq_of_ge hsq, hout sq hsq]

theorem mirrorBoard_mirrorBoard {b : Board} : mirrorBoard (mirrorBoard b) = b := by
  funext s
  cases hb : b s with
  | none =>
    unfold mirrorBoard
    rw [Spec.mirrorSq_mirrorSq, hb]
  | some v =>
    obtain ⟨c, k⟩ := v
    rw [mirrorBoard_some_iff, mirrorBoard_mirrorSq, hb]
    rfl

theorem attBy_mirror {b : Board} (hout : ∀ sq, 64 ≤ sq → b sq = none) (c : Color) (k : Piece) (sq : Nat) :
    AttBy (mirrorBoard b) c.opp k (Spec.mirrorSq sq) ↔ AttBy b c k sq := by
  constructor
  · intro h
    have := attBy_mirror_imp (mirrorBoard_out hout) h
    rwa [mirrorBoard_mirrorBoard, opp_opp, Spec.mirrorSq_mirrorSq] at this
  · exact attBy_mirror_imp hout

/-- `IsAttackedBy(c, sq, list)` on the mailbox board, for any list of real pieces -/
theorem isAttackedBy_iff {p : Position} {b : Board} (h : Rep p b) (c : Color) {sq : Nat} (hsq : sq < 64)
    (list : List Piece) (hl : ∀ k ∈ list, k ≠ .none) :
    p.isAttackedBy c sq list = true ↔ ∃ k ∈ list, AttBy b c.opp k sq := by
  unfold Position.isAttackedBy
  simp only [List.any_eq_true]
  constructor
  · rintro ⟨k, hk, ht⟩
    refine ⟨k, hk, ?_⟩
    by_cases hp : k = .pawn
    · subst hp
      simp only [if_true] at ht
      obtain ⟨s, hb, hm⟩ := (pawnAttack_iff h c.opp hsq).mp ht
      exact ⟨s, hb, by simpa using hm⟩
    · rw [if_neg hp] at ht
      obtain ⟨s, hb, hm⟩ := (officerAttack_iff h c.opp hsq (hl k hk) hp).mp ht
      exact ⟨s, hb, by rw [if_neg hp]; exact hm⟩
  · rintro ⟨k, hk, s, hb, hm⟩
    refine ⟨k, hk, ?_⟩
    by_cases hp : k = .pawn
    · subst hp
      simp only [if_true] at hm ⊢
      exact (pawnAttack_iff h c.opp hsq).mpr ⟨s, hb, hm⟩
    · rw [if_neg hp] at hm ⊢
      exact (officerAttack_iff h c.opp hsq (hl k hk) hp).mpr ⟨s, hb, hm⟩

/-- **every attack query is colour-blind** -/
theorem isAttackedBy_mirror {p q : Position} {b : Board} (hp : Rep p b) (hq : Rep q (mirrorBoard b)) (c : Color)
    {sq : Nat} (hsq : sq < 64) (list : List Piece) (hl : ∀ k ∈ list, k ≠ .none) :
    q.isAttackedBy c.opp (Spec.mirrorSq sq) list = p.isAttackedBy c sq list := by
  rw [Bool.eq_iff_iff, isAttackedBy_iff hq c.opp (Spec.mirrorSq_lt hsq) list hl, isAttackedBy_iff hp c hsq list hl]
  constructor
  · rintro ⟨k, hk, ha⟩; exact ⟨k, hk, (attBy_mirror hp.out c.opp k sq).mp ha⟩
  · rintro ⟨k, hk, ha⟩; exact ⟨k, hk, (attBy_mirror hp.out c.opp k sq).mpr ha⟩

theorem allPieces_ne_none : ∀ k ∈ Position.allPiecesList, k ≠ .none := by decide
theorem qrnbp_ne_none : ∀ k ∈ qrnbpPieces, k ≠ .none := by decide

theorem isAttacked_mirror {p q : Position} {b : Board} (hp : Rep p b) (hq : Rep q (mirrorBoard b)) (c : Color)
    {sq : Nat} (hsq : sq < 64) : q.isAttacked c.opp (Spec.mirrorSq sq) = p.isAttacked c sq :=
  isAttackedBy_mirror hp hq c hsq _ allPieces_ne_none

theorem isDefended_mirror {p q : Position} {b : Board} (hp : Rep p b) (hq : Rep q (mirrorBoard b)) (c : Color)
    {sq : Nat} (hsq : sq < 64) : q.isDefended c.opp (Spec.mirrorSq sq) = p.isDefended c sq := by
  unfold Position.isDefended
  exact isAttacked_mirror hp hq c.opp hsq

theorem isDefendedBy_mirror {p q : Position} {b : Board} (hp : Rep p b) (hq : Rep q (mirrorBoard b)) (c : Color)
    {sq : Nat} (hsq : sq < 64) :
    isDefendedBy q c.opp (Spec.mirrorSq sq) qrnbpPieces = isDefendedBy p c sq qrnbpPieces := by
  unfold isDefendedBy
  exact isAttackedBy_mirror hp hq c.opp hsq _ qrnbp_ne_none

theorem isEmpty_eq {p : Position} {b : Board} (h : Rep p b) {sq : Nat} (hsq : sq < 64) :
    p.isEmpty sq = (b sq).isNone := by
  unfold Position.isEmpty isSet
  rw [Attack.bitMask_eq hsq, and_two_pow_ne_zero, h.rot sq hsq]
  cases b sq <;> rfl

theorem isEmpty_mirror {p q : Position} {b : Board} (hp : Rep p b) (hq : Rep q (mirrorBoard b))
    {sq : Nat} (hsq : sq < 64) : q.isEmpty (Spec.mirrorSq sq) = p.isEmpty sq := by
  rw [isEmpty_eq hq (Spec.mirrorSq_lt hsq), isEmpty_eq hp hsq, mirrorBoard_mirrorSq]
  cases b sq <;> rfl

/-! ## counting over mirrored square sets -/

theorem countP_mirror (P Q : Nat → Bool) {l l' : List Nat} (hperm : l'.Perm (l.map Spec.mirrorSq))
    (h : ∀ s ∈ l, Q (Spec.mirrorSq s) = P s) : (l'.filter Q).length = (l.filter P).length := by
  rw [← List.countP_eq_length_filter, ← List.countP_eq_length_filter, hperm.countP_eq, List.countP_map]
  exact List.countP_congr (fun s hs => by simp only [Function.comp]; rw [h s hs])

/-- **`Control` is colour-blind.** -/
theorem control_mirror {p q : Position} {b : Board} (hp : Rep p b) (hq : Rep q (mirrorBoard b)) (c : Color) :
    Bernstein.control q c.opp = Bernstein.control p c := by
  unfold Bernstein.control controlSquares
  congr 1
  apply countP_mirror _ _ (l := List.range 64) (l' := List.range 64)
  · exact Spec.allSquares_mirror_perm.symm
  · intro s hs
    have hs' : s < 64 := List.mem_range.mp hs
    rw [isDefended_mirror hp hq c hs', isAttacked_mirror hp hq c hs']

/-! ## the king and its neighbourhood -/

/-- the king's neighbourhood on the mirrored square is the mirror image of the neighbourhood -/
theorem kingRing_perm {ks : Nat} (hks : ks < 64) :
    (toSquares (kingAttackboard (Spec.mirrorSq ks))).Perm ((toSquares (kingAttackboard ks)).map Spec.mirrorSq) := by
  let occ : Nat → Bool := fun _ => false
  have hks' := Spec.mirrorSq_lt hks
  rw [king_of_lt occ hks, king_of_lt occ hks']
  have hlt : ∀ s, toBB (Spec.officerTargets occ .king s) < 2 ^ 64 := fun s =>
    toBB_lt _ (fun t ht => officerTargets_lt _ _ _ _ ht)
  have hn1 := toSquares_nodup (hlt (Spec.mirrorSq ks))
  have hn2 : ((toSquares (toBB (Spec.officerTargets occ .king ks))).map Spec.mirrorSq).Nodup := by
    have hn : (toSquares (toBB (Spec.officerTargets occ .king ks))).Pairwise (· ≠ ·) := toSquares_nodup (hlt ks)
    exact List.Pairwise.map _ (fun a c hne e => hne (Spec.mirrorSq_inj e)) hn
  rw [List.perm_ext_iff_of_nodup hn1 hn2]
  intro t
  rw [mem_toSquares (hlt _), testBit_toBB, Spec.mem_map_mirrorSq, mem_toSquares (hlt _), testBit_toBB]
  constructor
  · intro h
    have := Spec.mem_officerTargets_mirror (occ := occ) (occ' := occ) (fun _ _ => rfl) .king hks' h
    rwa [Spec.mirrorSq_mirrorSq] at this
  · intro h
    have := Spec.mem_officerTargets_mirror (occ := occ) (occ' := occ) (fun _ _ => rfl) .king hks h
    rwa [Spec.mirrorSq_mirrorSq] at this

/-- at most one king of colour `c` on the mailbox board -/
def OneKingB (b : Board) (c : Color) : Prop :=
  ∀ s1 s2, b s1 = some (c, Piece.king) → b s2 = some (c, Piece.king) → s1 = s2

theorem kingSquare_mirror {p q : Position} {b : Board} (hp : Rep p b) (hq : Rep q (mirrorBoard b)) {c : Color}
    (hu : OneKingB b c) :
    (p.pieces c .king = 0 ∧ q.pieces c.opp .king = 0) ∨
    (p.kingSquare c < 64 ∧ q.kingSquare c.opp = Spec.mirrorSq (p.kingSquare c)) := by
  by_cases h0 : p.pieces c .king = 0
  · left
    refine ⟨h0, (king_zero_iff hq c.opp).mpr ?_⟩
    intro s hs
    rw [mirrorBoard_some_iff, opp_opp] at hs
    exact (king_zero_iff hp c).mp h0 _ hs
  · right
    obtain ⟨hk, _⟩ := kingSquare_spec hp c h0
    have hks := hp.lt_of_some hk
    have hq0 : q.pieces c.opp .king ≠ 0 := by
      intro e
      have := (king_zero_iff hq c.opp).mp e (Spec.mirrorSq (lastPopSquare (p.pieces c .king)))
      rw [mirrorBoard_mirrorSq, hk] at this
      exact this rfl
    obtain ⟨hk', _⟩ := kingSquare_spec hq c.opp hq0
    rw [mirrorBoard_some_iff, opp_opp] at hk'
    have := hu _ _ hk' hk
    refine ⟨hks, ?_⟩
    unfold Position.kingSquare
    rw [← this, Spec.mirrorSq_mirrorSq]

/-- **`KingDefense` is colour-blind** (for a colour with at most one king). -/
theorem kingDefense_mirror {p q : Position} {b : Board} (hp : Rep p b) (hq : Rep q (mirrorBoard b)) {c : Color}
    (hu : OneKingB b c) : kingDefense q c.opp = kingDefense p c := by
  rcases kingSquare_mirror hp hq hu with ⟨h1, h2⟩ | ⟨hks, hk⟩
  · have e1 : p.kingSquare c = 64 := by unfold Position.kingSquare; rw [h1]; rfl
    have e2 : q.kingSquare c.opp = 64 := by unfold Position.kingSquare; rw [h2]; rfl
    unfold kingDefense
    simp [e1, e2]
  · unfold kingDefense
    simp only
    rw [hk, if_neg (by have := Spec.mirrorSq_lt hks; omega), if_neg (by omega)]
    congr 2
    unfold kingDefenseSquares
    apply countP_mirror _ _ (kingRing_perm hks)
    intro s hs
    have hs' : s < 64 := by
      have hlt : kingAttackboard (p.kingSquare c) < 2 ^ 64 := by
        rw [king_of_lt (fun _ => false) hks]
        exact toBB_lt _ (fun t ht => officerTargets_lt _ _ _ _ ht)
      exact toSquares_lt hlt hs
    rw [isEmpty_mirror hp hq hs', isDefendedBy_mirror hp hq c hs', isAttacked_mirror hp hq c hs',
      isDefended_mirror hp hq c hs']

/-! ## material -/

theorem cntB_mirror (b : Board) (c : Color) (k : Piece) :
    cntB (mirrorBoard b) c.opp k (List.range 64) = cntB b c k (List.range 64) := by
  unfold cntB
  congr 1
  have hperm : ((List.range 64).map Spec.mirrorSq).Perm (List.range 64) := Spec.allSquares_mirror_perm
  rw [← hperm.countP_eq, List.countP_map]
  apply List.countP_congr
  intro s _
  simp only [Function.comp, decide_eq_true_eq]
  rw [mirrorBoard_some_iff, Spec.mirrorSq_mirrorSq, opp_opp]

theorem popCount_mirror {p q : Position} {b : Board} (hp : Rep p b) (hq : Rep q (mirrorBoard b)) (c : Color)
    {k : Piece} (hk : k ≠ .none) : popCount (q.pieces c.opp k) = popCount (p.pieces c k) := by
  have h1 := popCount_pieces hq c.opp hk
  have h2 := popCount_pieces hp c hk
  rw [cntB_mirror] at h1
  omega

/-- **`Material` is colour-blind.** -/
theorem material_mirror {p q : Position} {b : Board} (hp : Rep p b) (hq : Rep q (mirrorBoard b)) (c : Color) :
    material q c.opp = material p c := by
  unfold material
  simp only
  rw [popCount_mirror hp hq c (k := .queen) (by simp), popCount_mirror hp hq c (k := .rook) (by simp),
    popCount_mirror hp hq c (k := .knight) (by simp), popCount_mirror hp hq c (k := .bishop) (by simp),
    popCount_mirror hp hq c (k := .pawn) (by simp)]

/-! ## mobility and the whole score -/

/-- **`Mobility` is colour-blind** — through C01 and the mirror symmetry of the rules, hence for `WF` positions of the colour. -/
theorem mobility_mirror {p q : Position} {c : Color} (hp : WF p c) (hq : WF q c.opp)
    (habs : abs q c.opp = Spec.mirror (abs p c)) : mobility q c.opp = mobility p c := by
  unfold mobility
  have := (model_legalMoves_mirror hp hq habs).length_eq
  simp only [List.length_map] at this
  rw [this]

/-- a position whose abstraction is the mirror image represents the mirrored board -/
theorem mirrorBoard_of_abs {p q : Position} {b b' : Board} (hp : Rep p b) (hq : Rep q b') {t t' : Color}
    (habs : abs q t' = Spec.mirror (abs p t)) : b' = mirrorBoard b := by
  funext s
  by_cases hs : s < 64
  · have h : (abs q t').at s = (Spec.mirror (abs p t)).at s := by rw [habs]
    rw [hq.abs_at, Spec.mirror_at hs, hp.abs_at, ← absCellB_mirrorBoard] at h
    -- `absCellB` is injective on cells that do not hold `NoPiece`
    have hw1 := hq.wf s
    have hw2 : ∀ c, mirrorBoard b s ≠ some (c, .none) := by
      intro c e
      rw [mirrorBoard_some_iff] at e
      exact hp.wf _ _ e
    revert h hw1 hw2
    generalize b' s = x
    generalize mirrorBoard b s = y
    intro h hw1 hw2
    cases x with
    | none =>
      cases y with
      | none => rfl
      | some v =>
        obtain ⟨c, k⟩ := v
        cases k <;> first | exact absurd rfl (hw2 c) | simp [absCellB, absKind] at h
    | some u =>
      obtain ⟨c1, k1⟩ := u
      cases y with
      | none => cases k1 <;> first | exact absurd rfl (hw1 c1) | simp [absCellB, absKind] at h
      | some v =>
        obtain ⟨c2, k2⟩ := v
        cases k1 <;> first
          | exact absurd rfl (hw1 c1)
          | (cases k2 <;> first
              | exact absurd rfl (hw2 c2)
              | (cases c1 <;> cases c2 <;> simp [absCellB, absKind, absColor] at h ⊢))
  · have hs' : 64 ≤ s := by omega
    rw [hq.out s hs', mirrorBoard_out hp.out s hs']

/-- **`Evaluate` is colour-blind**: if `q` (with `c.opp` to move) abstracts to the mirror image of `p` (with `c` to move), then
`Evaluate(q, factor, c.opp) = Evaluate(p, factor, c)`. -/
theorem evaluate_mirror {p q : Position} {c : Color} (hp : WF p c) (hq : WF q c.opp)
    (habs : abs q c.opp = Spec.mirror (abs p c)) (factor : Int) :
    evaluate q factor c.opp = evaluate p factor c := by
  have hb := mirrorBoard_of_abs hp.1 hq.1 habs
  have hq' : Rep q (mirrorBoard p.square) := hb ▸ hq.1
  have hu : OneKingB p.square c := fun s1 s2 h1 h2 => (wfb_of_wfc hp.1 hp.2).king_unique c s1 s2 h1 h2
  unfold evaluate
  rw [mobility_mirror hp hq habs, control_mirror hp.1 hq' c, kingDefense_mirror hp.1 hq' hu, material_mirror hp.1 hq' c]

/-- **`Eval.Evaluate` is colour-blind** when both positions are well-formed for *both* colours (that is: no en-passant target is
set; with one set the opponent's mobility counts phantom captures, see `Props/C20Bernstein`). -/
theorem evalEvaluate_mirror {p q : Position} {c : Color} (hp : WF p c) (hq : WF q c.opp) (hp' : WF p c.opp) (hq' : WF q c)
    (habs : abs q c.opp = Spec.mirror (abs p c)) (habs' : abs q c = Spec.mirror (abs p c.opp)) (factor : Int) :
    evalEvaluate q factor c.opp = evalEvaluate p factor c := by
  unfold evalEvaluate
  have h1 := evaluate_mirror hp hq habs factor
  have h2 := evaluate_mirror (c := c.opp) hp' (by rw [opp_opp]; exact hq') (by rw [opp_opp]; exact habs') factor
  rw [opp_opp] at h2
  rw [h1, opp_opp, h2]

end Morlock.Proofs.Bernstein
