import Morlock.Proofs.SargonExchange
import Morlock.Proofs.GenExample
/-!
# SARGON, part 8: what the unspecified order of `sort.Slice` can and cannot change

`sort.Slice` sorts by `val` but promises nothing about ties. Here:

* `IsValSort`: what every implementation guarantees (a `val`-sorted permutation); `stableSort` and `revTieSort`
  (ties in the opposite order) both qualify;
* the `Exchange` loop only looks at the *values* of the two lists (`exchangeLoop_vals`), and any two valid sorts of a
  list have the same value sequence (`sorted_vals_unique`); hence without x-ray stacks the result of `findSide` — and
  of `Exchange` — does not depend on the sorter (`findSide_vals_no_stacks`);
* with stacks it does: in `twoQ` (`3q3k/8/8/8/RQ1r4/8/5Q2/7K`, a `WF` position) the two white queens tie, one of them has a
  rook behind; the two sorters give exchange values `0` and `−5` for the rook on d4 (`exchange_tie_order_matters`).
-/
namespace Morlock.Proofs.Sargon
open Morlock Morlock.Model Morlock.Model.Sargon Morlock.Proofs.Gen

/-- what `sort.Slice(list, byValue(list))` guarantees: a permutation, ascending in `val` -/
def IsValSort (srt : List Attacker → List Attacker) : Prop :=
  ∀ l, (srt l).Perm l ∧ (srt l).Pairwise (fun a b => val a ≤ val b)

theorem IsValSort.sortOK {srt : List Attacker → List Attacker} (h : IsValSort srt) : SortOK srt := fun l => (h l).1

theorem mem_insertByVal {x y : Attacker} {l : List Attacker} : y ∈ insertByVal x l ↔ y = x ∨ y ∈ l :=
  by rw [(insertByVal_perm x l).mem_iff, List.mem_cons]

theorem insertByVal_sorted (x : Attacker) : ∀ l : List Attacker, l.Pairwise (fun a b => val a ≤ val b) →
    (insertByVal x l).Pairwise (fun a b => val a ≤ val b) := by
  intro l
  induction l with
  | nil => intro _; simp [insertByVal]
  | cons y ys ih =>
    intro h
    unfold insertByVal
    have hy := List.pairwise_cons.mp h
    split
    · rename_i hlt
      refine List.pairwise_cons.mpr ⟨?_, h⟩
      intro z hz
      rcases List.mem_cons.mp hz with rfl | hz
      · omega
      · have := hy.1 z hz; omega
    · rename_i hge
      refine List.pairwise_cons.mpr ⟨?_, ih hy.2⟩
      intro z hz
      rcases mem_insertByVal.mp hz with rfl | hz
      · omega
      · exact hy.1 z hz

theorem stableSort_sorted (l : List Attacker) : (stableSort l).Pairwise (fun a b => val a ≤ val b) := by
  unfold stableSort
  suffices h : ∀ acc : List Attacker, acc.Pairwise (fun a b => val a ≤ val b) →
      (l.foldl (fun acc x => insertByVal x acc) acc).Pairwise (fun a b => val a ≤ val b) from h [] List.Pairwise.nil
  induction l with
  | nil => intro acc h; exact h
  | cons x l ih => intro acc h; exact ih _ (insertByVal_sorted x acc h)

theorem stableSort_isValSort : IsValSort stableSort := fun l => ⟨stableSort_ok l, stableSort_sorted l⟩

/-- a sort that leaves ties in the opposite order -/
def revTieSort (l : List Attacker) : List Attacker := stableSort l.reverse

theorem revTieSort_isValSort : IsValSort revTieSort :=
  fun l => ⟨(stableSort_ok l.reverse).trans (List.reverse_perm l), stableSort_sorted l.reverse⟩

/-- two valid sorts of the same list carry the same values in the same order -/
theorem sorted_vals_unique {s1 s2 : List Attacker → List Attacker} (h1 : IsValSort s1) (h2 : IsValSort s2) (l : List Attacker) :
    (s1 l).map val = (s2 l).map val := by
  apply List.Perm.eq_of_pairwise (le := fun (a b : Int) => a ≤ b)
  · intro a b _ _ hab hba; omega
  · exact List.pairwise_map.mpr (h1 l).2
  · exact List.pairwise_map.mpr (h2 l).2
  · exact ((h1 l).1.trans (h2 l).1.symm).map val

/-! ## the `Exchange` loop reads values only -/

/-- the loop of `Exchange` on value lists -/
def exchangeLoopV : Nat → List Int → List Int → Int → Int → Color → Except SErr (Int × Color)
  | _, [], _, residue, _, cur => .ok (residue, cur)
  | 0, _ :: _, _, _, _, _ => .error .fuel
  | fuel + 1, attacker :: attackers, defenders, residue, defender, cur =>
    let w1 : Bool := defenders.isEmpty || decide (attacker ≤ defender)
    let w2 : Except SErr Bool :=
      if w1 then .ok true else
        match attackers with
        | [] => .ok false
        | a2 :: _ =>
          match defenders with
          | [] => .error .index
          | d0 :: _ => .ok (decide (attacker + a2 ≤ defender + d0))
    match w2 with
    | .error e => .error e
    | .ok false => .ok (residue, cur)
    | .ok true => exchangeLoopV fuel defenders attackers (-(residue + defender)) attacker cur.opp

theorem exchangeLoop_eq_V : ∀ fuel (a d : List Attacker) (residue defender : Int) (cur : Color),
    exchangeLoop fuel a d residue defender cur = exchangeLoopV fuel (a.map val) (d.map val) residue defender cur := by
  intro fuel
  induction fuel with
  | zero => intro a d r df c; cases a <;> simp [exchangeLoop, exchangeLoopV]
  | succ n ih =>
    intro a d r df c
    cases a with
    | nil => simp [exchangeLoop, exchangeLoopV]
    | cons x xs =>
      simp only [List.map_cons]
      unfold exchangeLoop exchangeLoopV
      simp only [List.isEmpty_map, ih]
      cases xs with
      | nil =>
        cases d with
        | nil => simp
        | cons d0 ds => by_cases h1 : val x ≤ df <;> simp [h1]
      | cons a2 xs' =>
        cases d with
        | nil => simp
        | cons d0 ds =>
          by_cases h1 : val x ≤ df
          · simp [h1]
          · by_cases h2 : val x + val a2 ≤ df + val d0 <;> simp [h1, h2]

/-- **the loop depends on the values only** -/
theorem exchangeLoop_vals {a a' d d' : List Attacker} (ha : a.map val = a'.map val) (hd : d.map val = d'.map val)
    (fuel : Nat) (residue defender : Int) (cur : Color) :
    exchangeLoop fuel a d residue defender cur = exchangeLoop fuel a' d' residue defender cur := by
  rw [exchangeLoop_eq_V, exchangeLoop_eq_V, ha, hd]

/-! ## without stacks the sorter does not matter -/

theorem flattenW_no_stacks (srt : List Attacker → List Attacker) :
    ∀ fuel (l : List Attacker), (∀ a ∈ l, a.behind = []) → l.length ≤ fuel → flattenW srt fuel l = .ok l := by
  intro fuel
  induction fuel with
  | zero => intro l _ hl; cases l with
    | nil => rfl
    | cons a l => simp at hl
  | succ n ih =>
    intro l hb hl
    cases l with
    | nil => rfl
    | cons a rest =>
      have hnext : a.next = none := by simp [Attacker.next, hb a (List.mem_cons_self ..)]
      have := ih rest (fun x hx => hb x (List.mem_cons_of_mem _ hx)) (by simpa using hl)
      simp only [flattenW, hnext, this]

theorem numAttackers_no_stacks {l : List Attacker} (h : ∀ a ∈ l, a.behind = []) : numAttackers l = l.length := by
  induction l with
  | nil => rfl
  | cons a l ih =>
    rw [numAttackers_cons, h a (List.mem_cons_self ..), ih (fun x hx => h x (List.mem_cons_of_mem _ hx))]
    simp; omega

/-- **`findSide` without x-ray stacks**: every valid sorter yields the same sequence of values. -/
theorem findSide_vals_no_stacks {s1 s2 : List Attacker → List Attacker} (h1 : IsValSort s1) (h2 : IsValSort s2)
    (l : List Attacker) (c : Color) (hb : ∀ a ∈ l, a.behind = []) :
    ∃ o1 o2, findSideW s1 l c = .ok o1 ∧ findSideW s2 l c = .ok o2 ∧ o1.map val = o2.map val := by
  have key : ∀ {s : List Attacker → List Attacker}, IsValSort s →
      findSideW s l c = .ok (s (l.filter fun a => a.front.color == c)) := by
    intro s hs
    unfold findSideW
    have hb' : ∀ a ∈ s (l.filter fun a => a.front.color == c), a.behind = [] := by
      intro a ha
      exact hb a (List.mem_filter.mp (((hs _).1.mem_iff).mp ha)).1
    exact flattenW_no_stacks s _ _ hb' (by rw [numAttackers_no_stacks hb']; exact Nat.le_refl _)
  exact ⟨_, _, key h1, key h2, sorted_vals_unique h1 h2 _⟩

/-- **`Exchange` on a square none of whose attackers or defenders has anybody behind**: the value does not depend on
    how `sort.Slice` orders ties. -/
theorem exchange_no_stacks {s1 s2 : List Attacker → List Attacker} (h1 : IsValSort s1) (h2 : IsValSort s2)
    (pos : Position) (pins : Pins) (side : Color) (sq : Nat)
    (hno : ∀ c l, findAttackers pos pins sq c = .ok l → ∀ a ∈ l, a.behind = []) :
    exchangeW s1 pos pins side sq = exchangeW s2 pos pins side sq := by
  unfold exchangeW
  cases hsq : pos.square sq with
  | none => rfl
  | some cp =>
    obtain ⟨cur, piece⟩ := cp
    simp only []
    by_cases hk : piece = .king
    · simp [hk]
    · simp only [hk, if_false]
      cases hda : findAttackers pos pins sq cur with
      | error e => rfl
      | ok da =>
        cases haa : findAttackers pos pins sq cur.opp with
        | error e =>
          simp only []
          obtain ⟨o1, o2, e1, e2, _⟩ := findSide_vals_no_stacks h1 h2 da cur (hno _ _ hda)
          rw [e1, e2]
        | ok aa =>
          simp only []
          obtain ⟨d1, d2, ed1, ed2, hd⟩ := findSide_vals_no_stacks h1 h2 da cur (hno _ _ hda)
          obtain ⟨a1, a2, ea1, ea2, ha⟩ := findSide_vals_no_stacks h1 h2 aa cur.opp (hno _ _ haa)
          rw [ed1, ed2, ea1, ea2]
          simp only []
          have hl1 : a1.length = a2.length := by simpa using congrArg List.length ha
          have hl2 : d1.length = d2.length := by simpa using congrArg List.length hd
          rw [exchangeLoop_vals ha hd, hl1, hl2]

/-! ## with stacks it does -/

/-- `3q3k/8/8/8/RQ1r4/8/5Q2/7K w - -` -/
def twoQPl : List (Nat × Color × Piece) :=
  [(0, .white, .king), (10, .white, .queen), (28, .black, .rook), (30, .white, .queen), (31, .white, .rook),
   (56, .black, .king), (60, .black, .queen)]
def twoQ : Position := (Position.newPosition twoQPl 0 0).getD {}

theorem twoQ_eq : Position.newPosition twoQPl 0 0 = some twoQ := by decide +kernel

theorem twoQ_rep : Rep twoQ twoQ.square := by
  have hv : ValidPlacements twoQPl := by
    intro x hx
    have : (twoQPl.all fun x => decide (x.1 < 64) && (x.2.2 != Piece.none)) = true := by decide +kernel
    have := List.all_eq_true.mp this x hx
    simpa using this
  exact (newPosition_rep hv twoQ_eq).1.self

theorem twoQ_wf : WF twoQ .white ∧ WF twoQ .black := ⟨⟨twoQ_rep, by decide +kernel⟩, ⟨twoQ_rep, by decide +kernel⟩⟩

set_option maxRecDepth 100000 in
/-- **The order of ties matters.** The black rook on d4 (square 28) is defended by the queen on d8 and attacked by the
    queens on b4 (with the rook a4 behind it) and f2. With the attackers flattened as `Q f2, Q b4, R a4` (stable
    order) White does not take (`9 + 9 > 5 + 9`) and the exchange value is `0`; flattened as `Q b4, R a4, Q f2` (the tie
    the other way round) White takes (`9 + 5 ≤ 5 + 9`) and the value is `−5`. Both orders are valid results of
    `sort.Slice`. -/
theorem exchange_tie_order_matters :
    IsValSort stableSort ∧ IsValSort revTieSort ∧
    (exchangeW stableSort twoQ (findKingQueenPins twoQ) .black 28).toOption = some 0 ∧
    (exchangeW revTieSort twoQ (findKingQueenPins twoQ) .black 28).toOption = some (-5) :=
  ⟨stableSort_isValSort, revTieSort_isValSort, by decide +kernel, by decide +kernel⟩

end Morlock.Proofs.Sargon
