import Morlock.Proofs.TurochampMob
/-!
# The mobility map, exactly: an entry `(k, n)` is in the map iff `n > 0` is the total weight of the legal moves from `k`
(1 for a move of an officer or the king other than castling, 2 if it is a capture).
-/
namespace Morlock.Proofs.Turochamp
open Morlock Morlock.Model Morlock.Model.Turochamp

/-- the count recorded for key `k` (0 if absent) -/
def cntOf (A : List (Nat × Nat)) (k : Nat) : Nat := ((A.find? fun e => e.1 == k).map (·.2)).getD 0

/-- the weight of a move in the mobility count -/
def weight (m : Move) : Nat := if mobMove m then (if m.ty = .capture then 2 else 1) else 0

def nsum : List Nat → Nat
  | [] => 0
  | a :: l => a + nsum l

theorem nsum_perm {l1 l2 : List Nat} (h : l1.Perm l2) : nsum l1 = nsum l2 := by
  induction h with
  | nil => rfl
  | cons a _ ih => simp only [nsum, ih]
  | swap a b l => simp only [nsum]; omega
  | trans _ _ ih1 ih2 => exact ih1.trans ih2

/-- total weight of the moves of `L` from square `k` -/
def wsum (L : List Move) (k : Nat) : Nat := nsum (L.map fun m => if m.from = k then weight m else 0)

theorem cntOf_bump (A : List (Nat × Nat)) (s k : Nat) :
    cntOf (mobBump A s) k = cntOf A k + (if k = s then 1 else 0) := by
  unfold mobBump
  by_cases hany : (A.any fun e => e.1 == s) = true
  · rw [if_pos hany]
    unfold cntOf
    rw [List.find?_map]
    have hcomp : ((fun e : Nat × Nat => e.1 == k) ∘ fun e : Nat × Nat => if (e.1 == s) = true then (e.1, e.2 + 1) else e) =
        fun e : Nat × Nat => e.1 == k := by
      funext e
      simp only [Function.comp]
      split <;> rfl
    rw [hcomp]
    cases hf : A.find? (fun e => e.1 == k) with
    | none =>
      simp only [Option.map_none, Option.getD_none]
      -- no key equals k, but some key equals s: k ≠ s
      have hne : k ≠ s := by
        intro e
        subst e
        rw [List.find?_eq_none] at hf
        obtain ⟨x, hx, hxs⟩ := List.any_eq_true.mp hany
        exact hf x hx hxs
      simp [hne]
    | some e =>
      have hek : e.1 = k := by simpa using List.find?_some hf
      simp only [Option.map_some, Option.getD_some]
      by_cases hks : k = s
      · have : (e.1 == s) = true := by simp [hek, hks]
        simp [this, hks]
      · have : ¬ ((e.1 == s) = true) := by simp [hek, hks]
        simp [this, hks]
  · rw [if_neg hany]
    unfold cntOf
    rw [List.find?_append]
    cases hf : A.find? (fun e => e.1 == k) with
    | some e =>
      have hek : e.1 = k := by simpa using List.find?_some hf
      have hne : k ≠ s := by
        intro e'
        subst e'
        apply hany
        exact List.any_eq_true.mpr ⟨e, List.mem_of_find?_eq_some hf, by simp [hek]⟩
      simp [hne]
    | none =>
      by_cases hks : k = s
      · subst hks; simp
      · have : ¬ (s = k) := fun e => hks e.symm
        simp [hks, this]

theorem bump_pos {A : List (Nat × Nat)} {s : Nat} (h : ∀ e ∈ A, 0 < e.2) : ∀ e ∈ mobBump A s, 0 < e.2 := by
  intro e he
  unfold mobBump at he
  split at he
  · obtain ⟨e0, he0, rfl⟩ := List.mem_map.mp he
    have := h e0 he0
    split <;> simp <;> omega
  · rcases List.mem_append.mp he with he | he
    · exact h e he
    · simp only [List.mem_singleton] at he; subst he; simp

theorem cntOf_step (A : List (Nat × Nat)) (m : Move) (k : Nat) :
    cntOf (mobStep A m) k = cntOf A k + (if m.from = k then weight m else 0) := by
  unfold mobStep weight mobMove
  by_cases hP : (m.piece != .pawn && !m.isCastle) = true
  · rw [if_pos hP, if_pos hP]
    simp only []
    by_cases hc : m.ty = .capture
    · rw [if_pos hc, if_pos hc, cntOf_bump, cntOf_bump]
      by_cases hk : m.from = k
      · have : k = m.from := hk.symm
        simp [hk]
      · have : ¬ (k = m.from) := fun e => hk e.symm
        simp [hk, this]
    · rw [if_neg hc, if_neg hc, cntOf_bump]
      by_cases hk : m.from = k
      · simp [hk]
      · have : ¬ (k = m.from) := fun e => hk e.symm
        simp [hk, this]
  · rw [if_neg hP, if_neg hP]
    simp

theorem step_pos {A : List (Nat × Nat)} (m : Move) (h : ∀ e ∈ A, 0 < e.2) : ∀ e ∈ mobStep A m, 0 < e.2 := by
  unfold mobStep
  split
  · simp only []
    split
    · exact bump_pos (bump_pos h)
    · exact bump_pos h
  · exact h

theorem fold_exact : ∀ (L : List Move) (A : List (Nat × Nat)), (A.map (·.1)).Nodup → (∀ e ∈ A, 0 < e.2) →
    ((L.foldl mobStep A).map (·.1)).Nodup ∧ (∀ e ∈ L.foldl mobStep A, 0 < e.2) ∧
    ∀ k, cntOf (L.foldl mobStep A) k = cntOf A k + wsum L k
  | [], A, h1, h2 => ⟨h1, h2, fun k => by simp [wsum, nsum]⟩
  | m :: rest, A, h1, h2 => by
    obtain ⟨a, b, c⟩ := fold_exact rest (mobStep A m) (mobStep_nodup m h1) (step_pos m h2)
    refine ⟨a, b, fun k => ?_⟩
    rw [List.foldl_cons, c k, cntOf_step]
    simp only [wsum, List.map_cons, nsum]
    omega

theorem eq_of_nodup_keys : ∀ {A : List (Nat × Nat)}, (A.map (·.1)).Nodup → ∀ {e e' : Nat × Nat}, e ∈ A → e' ∈ A →
    e.1 = e'.1 → e = e'
  | [], _, _, _, he, _, _ => by cases he
  | a :: A', hnd, e, e', he, he', hk => by
    rw [List.map_cons, List.nodup_cons] at hnd
    rcases List.mem_cons.mp he with h1 | h1 <;> rcases List.mem_cons.mp he' with h2 | h2
    · rw [h1, h2]
    · exfalso; apply hnd.1; rw [← h1, hk]; exact List.mem_map.mpr ⟨e', h2, rfl⟩
    · exfalso; apply hnd.1; rw [← h2, ← hk]; exact List.mem_map.mpr ⟨e, h1, rfl⟩
    · exact eq_of_nodup_keys hnd.2 h1 h2 hk

/-- in a map with distinct keys and positive counts: `(k, n)` is an entry iff `n = cntOf k > 0` -/
theorem mem_iff_cnt {A : List (Nat × Nat)} (hnd : (A.map (·.1)).Nodup) (hpos : ∀ e ∈ A, 0 < e.2) (k n : Nat) :
    (k, n) ∈ A ↔ (cntOf A k = n ∧ 0 < n) := by
  constructor
  · intro hm
    refine ⟨?_, hpos _ hm⟩
    unfold cntOf
    cases hf : A.find? (fun e => e.1 == k) with
    | none =>
      rw [List.find?_eq_none] at hf
      exact absurd (by simp) (hf _ hm)
    | some e =>
      have hek : e.1 = k := by simpa using List.find?_some hf
      have hem := List.mem_of_find?_eq_some hf
      -- distinct keys: e = (k, n)
      have : e = (k, n) := by
        exact eq_of_nodup_keys hnd hem hm (by simpa using hek)
      simp [this]
  · rintro ⟨hc, hn⟩
    unfold cntOf at hc
    cases hf : A.find? (fun e => e.1 == k) with
    | none => rw [hf] at hc; simp at hc; omega
    | some e =>
      rw [hf] at hc
      have hek : e.1 = k := by simpa using List.find?_some hf
      have hem := List.mem_of_find?_eq_some hf
      have : e = (k, n) := by
        cases e
        simp only [Option.map_some, Option.getD_some] at hc
        simp only [] at hek
        rw [hek, hc]
      rw [← this]
      exact hem

/-- **the mobility map, exactly** -/
theorem mobility_exact (pos : Position) (turn : Color) :
    ((mobility pos turn).map (·.1)).Nodup ∧
    ∀ k n, (k, n) ∈ mobility pos turn ↔ (wsum (pos.legalMoves turn) k = n ∧ 0 < n) := by
  obtain ⟨a, b, c⟩ := fold_exact (pos.legalMoves turn) [] (by simp) (by simp)
  rw [← mobility_eq] at a b c
  refine ⟨a, fun k n => ?_⟩
  rw [mem_iff_cnt a b, c k]
  simp [cntOf]

end Morlock.Proofs.Turochamp
