import Morlock.Proofs.RepAbs
import Morlock.Props.GenTie
import Morlock.Spec.Game
/-!
# C05: `hasInsufficientMaterial` on bitboards is "K v K, K + minor v K, kings + two same-coloured bishops"
on the mailbox board

`popCount` of a bitboard is the number of set bits among the 64 squares; under `Rep p b` each bit is a
statement about the mailbox board `b`; so the three `popCount` tests of `hasInsufficientMaterial` are
counts over the 64 squares of `b`. With exactly two kings on the board the counts determine the list of
non-king men (`others b`), on which `insufficientB` is defined like `Spec.insufficientMaterial`.
-/
namespace Morlock.Proofs.Material
open Morlock Morlock.Model Morlock.Proofs

/-! ## `popCount` counts set bits -/

theorem popCountAux_eq : ∀ (n b : Nat), popCountAux n b = (List.range n).countP (fun i => b.testBit i)
  | 0, _ => rfl
  | n + 1, b => by
    rw [popCountAux, popCountAux_eq n (b / 2), List.range_succ_eq_map, List.countP_cons, List.countP_map]
    have : ((fun i => b.testBit i) ∘ Nat.succ) = fun i => (b / 2).testBit i := by
      funext i; simp [Function.comp, Nat.testBit_succ]
    rw [this, Nat.testBit_zero]
    have := Nat.mod_two_eq_zero_or_one b
    rcases this with h | h <;> simp [h] <;> omega

theorem popCount_eq (b : Nat) : popCount b = (List.range 64).countP (fun i => b.testBit i) :=
  popCountAux_eq 64 b

theorem countP_range_congr {n : Nat} {f g : Nat → Bool} (h : ∀ i, i < n → f i = g i) :
    (List.range n).countP f = (List.range n).countP g := by
  apply List.countP_congr
  intro i hi
  rw [h i (List.mem_range.mp hi)]

/-! ## the non-king men of a mailbox board -/

/-- The men other than kings, with their squares, in square order (h1 … a8). -/
def others (b : Board) : List (Nat × Color × Piece) :=
  (List.range 64).filterMap fun sq =>
    match b sq with
    | some (c, k) => if k = .king then none else some (sq, c, k)
    | none => none

/-- Number of kings on the board. -/
def kingCount (b : Board) : Nat :=
  (List.range 64).countP fun sq => match b sq with | some (_, k) => k == .king | none => false

/-- Squares of one colour: `(file + rank) % 2` agree. -/
def sameColourSquares (s1 s2 : Nat) : Bool := (s1 % 8 + s1 / 8) % 2 == (s2 % 8 + s2 / 8) % 2

/-- K v K, K + minor v K, or kings with two bishops on squares of one colour — on a mailbox board. -/
def insufficientB (b : Board) : Bool :=
  match others b with
  | [] => true
  | [(_, _, k)] => k = .bishop || k = .knight
  | [(s1, _, k1), (s2, _, k2)] => k1 = .bishop && k2 = .bishop && sameColourSquares s1 s2
  | _ => false

theorem others_mem {b : Board} {x : Nat × Color × Piece} (h : x ∈ others b) :
    x.1 < 64 ∧ b x.1 = some x.2 ∧ x.2.2 ≠ .king := by
  unfold others at h
  rw [List.mem_filterMap] at h
  obtain ⟨sq, hsq, hx⟩ := h
  have hlt := List.mem_range.mp hsq
  cases hb : b sq with
  | none => rw [hb] at hx; cases hx
  | some v =>
    obtain ⟨c, k⟩ := v
    rw [hb] at hx
    simp only at hx
    split at hx
    · cases hx
    · rename_i hk
      cases hx
      exact ⟨hlt, hb, hk⟩

/-- A count over the 64 squares of a property that only non-king men have is a count over `others`. -/
theorem count_others (b : Board) (R : Nat → Option (Color × Piece) → Bool)
    (hnone : ∀ sq, R sq none = false) (hking : ∀ sq c, R sq (some (c, .king)) = false) :
    (List.range 64).countP (fun sq => R sq (b sq)) = (others b).countP (fun x => R x.1 (some x.2)) := by
  unfold others
  rw [List.countP_filterMap]
  apply List.countP_congr
  intro sq _
  cases hb : b sq with
  | none => simp [hnone]
  | some v =>
    obtain ⟨c, k⟩ := v
    by_cases hk : k = .king
    · subst hk; simp [hking]
    · simp [hk]

theorem countP_split {α : Type} (p q : α → Bool) (l : List α) :
    l.countP p = l.countP (fun a => p a && q a) + l.countP (fun a => p a && !q a) := by
  induction l with
  | nil => rfl
  | cons a r ih =>
    simp only [List.countP_cons, ih]
    cases p a <;> cases q a <;> simp <;> omega

/-- occupied squares = non-king men + kings -/
theorem occupied_eq (b : Board) :
    (List.range 64).countP (fun sq => (b sq).isSome) = (others b).length + kingCount b := by
  rw [countP_split (fun sq => (b sq).isSome) (fun sq => match b sq with | some (_, k) => k != .king | none => false)]
  congr 1
  · unfold others
    rw [List.length_filterMap_eq_countP]
    apply List.countP_congr
    intro sq _
    cases hb : b sq with
    | none => simp
    | some v =>
      obtain ⟨c, k⟩ := v
      by_cases hk : k = .king <;> simp [hk]
  · unfold kingCount
    apply List.countP_congr
    intro sq _
    cases hb : b sq with
    | none => simp
    | some v =>
      obtain ⟨c, k⟩ := v
      by_cases hk : k = .king <;> simp [hk]

/-! ## the three counts of `hasInsufficientMaterial` under `Rep` -/

def isMinorC : Option (Color × Piece) → Bool
  | some (_, .knight) => true
  | some (_, .bishop) => true
  | _ => false

def isBishopC : Option (Color × Piece) → Bool
  | some (_, .bishop) => true
  | _ => false

theorem rot_count {p : Position} {b : Board} (h : Rep p b) :
    popCount p.rotated.rot = (List.range 64).countP (fun sq => (b sq).isSome) := by
  rw [popCount_eq]
  exact countP_range_congr fun i hi => h.rot i hi

theorem weak_count {p : Position} {b : Board} (h : Rep p b) :
    popCount (p.pieces .white .knight ||| p.pieces .black .knight ||| p.pieces .white .bishop ||| p.pieces .black .bishop)
      = (List.range 64).countP (fun sq => isMinorC (b sq)) := by
  rw [popCount_eq]
  apply countP_range_congr
  intro i hi
  simp only [Nat.testBit_or, h.one _ _ _ (by decide : Piece.knight ≠ .none) hi,
    h.one _ _ _ (by decide : Piece.bishop ≠ .none) hi]
  cases hb : b i with
  | none => simp [isMinorC]
  | some v => obtain ⟨c, k⟩ := v; cases c <;> cases k <;> simp [isMinorC]

theorem bishops_count {p : Position} {b : Board} (h : Rep p b) :
    popCount (p.pieces .white .bishop ||| p.pieces .black .bishop)
      = (List.range 64).countP (fun sq => isBishopC (b sq)) := by
  rw [popCount_eq]
  apply countP_range_congr
  intro i hi
  simp only [Nat.testBit_or, h.one _ _ _ (by decide : Piece.bishop ≠ .none) hi]
  cases hb : b i with
  | none => simp [isBishopC]
  | some v => obtain ⟨c, k⟩ := v; cases c <;> cases k <;> simp [isBishopC]

theorem masked_count {p : Position} {b : Board} (h : Rep p b) (mask : Nat) :
    popCount (mask &&& (p.pieces .white .bishop ||| p.pieces .black .bishop))
      = (List.range 64).countP (fun sq => mask.testBit sq && isBishopC (b sq)) := by
  rw [popCount_eq]
  apply countP_range_congr
  intro i hi
  simp only [Nat.testBit_and, Nat.testBit_or, h.one _ _ _ (by decide : Piece.bishop ≠ .none) hi]
  congr 1
  cases hb : b i with
  | none => simp [isBishopC]
  | some v => obtain ⟨c, k⟩ := v; cases c <;> cases k <;> simp [isBishopC]

theorem him_eq (p : Position) : p.hasInsufficientMaterial =
    if popCount p.rotated.rot = 2 then true
    else if popCount p.rotated.rot = 3 then
      popCount (p.pieces .white .knight ||| p.pieces .black .knight ||| p.pieces .white .bishop ||| p.pieces .black .bishop) == 1
    else if popCount p.rotated.rot = 4 then
      popCount (p.pieces .white .bishop ||| p.pieces .black .bishop) == 2 &&
        popCount (Gen.whiteSquareMask &&& (p.pieces .white .bishop ||| p.pieces .black .bishop)) != 1
    else false := by
  unfold Position.hasInsufficientMaterial
  split
  · rename_i h; simp [h]
  · rename_i h; simp [h]
  · rename_i h; simp [h]
  · rename_i h2 h3 h4
    rw [if_neg h2, if_neg h3, if_neg h4]

/-- The colour mask separates two squares iff they have different colours. -/
theorem mask_parity {s1 s2 : Nat} (h1 : s1 < 64) (h2 : s2 < 64) :
    (Gen.whiteSquareMask.testBit s1 == Gen.whiteSquareMask.testBit s2) = sameColourSquares s1 s2 := by
  unfold sameColourSquares
  rcases Props.GenTie.whiteSquareMask_is_a_colour with h | h
  · rw [h s1 h1, h s2 h2]
    have a1 : (s1 % 8 + s1 / 8) % 2 = 0 ∨ (s1 % 8 + s1 / 8) % 2 = 1 := by omega
    have a2 : (s2 % 8 + s2 / 8) % 2 = 0 ∨ (s2 % 8 + s2 / 8) % 2 = 1 := by omega
    rcases a1 with a1 | a1 <;> rcases a2 with a2 | a2 <;> simp [a1, a2]
  · rw [h s1 h1, h s2 h2]
    have a1 : (s1 % 8 + s1 / 8) % 2 = 0 ∨ (s1 % 8 + s1 / 8) % 2 = 1 := by omega
    have a2 : (s2 % 8 + s2 / 8) % 2 = 0 ∨ (s2 % 8 + s2 / 8) % 2 = 1 := by omega
    rcases a1 with a1 | a1 <;> rcases a2 with a2 | a2 <;> simp [a1, a2]

/-- **material_iff.** For a position whose views agree with a mailbox board holding exactly two kings,
`hasInsufficientMaterial` says: only the kings; or kings and one bishop or knight; or kings and two
bishops (of any colours) standing on squares of one colour. -/
theorem material_eq {p : Position} {b : Board} (h : Rep p b) (hk : kingCount b = 2) :
    p.hasInsufficientMaterial = insufficientB b := by
  have hT : popCount p.rotated.rot = (others b).length + 2 := by rw [rot_count h, occupied_eq, hk]
  have hW := weak_count h
  have hB := bishops_count h
  have hMk := masked_count h Gen.whiteSquareMask
  rw [count_others b (fun _ v => isMinorC v) (fun _ => rfl) (fun _ _ => rfl)] at hW
  rw [count_others b (fun _ v => isBishopC v) (fun _ => rfl) (fun _ _ => rfl)] at hB
  rw [count_others b (fun sq v => Gen.whiteSquareMask.testBit sq && isBishopC v) (fun _ => by simp [isBishopC])
    (fun _ _ => by simp [isBishopC])] at hMk
  rw [him_eq, hT, hW, hB, hMk]
  unfold insufficientB
  have hmem : ∀ x ∈ others b, x.1 < 64 := fun x hx => (others_mem hx).1
  generalize others b = o at hmem ⊢
  match o, hmem with
  | [], _ => simp
  | [(s, c, k)], _ =>
    simp only [List.length_cons, List.length_nil, List.countP_cons, List.countP_nil]
    cases k <;> simp [isMinorC]
  | [(s1, c1, k1), (s2, c2, k2)], hmem =>
    have l1 : s1 < 64 := hmem (s1, c1, k1) (by simp)
    have l2 : s2 < 64 := hmem (s2, c2, k2) (by simp)
    simp only [List.length_cons, List.length_nil, List.countP_cons, List.countP_nil]
    rw [← mask_parity l1 l2]
    cases k1 <;> cases k2 <;> simp [isBishopC] <;>
      cases Gen.whiteSquareMask.testBit s1 <;> cases Gen.whiteSquareMask.testBit s2 <;> simp
  | _ :: _ :: _ :: r, _ =>
    simp only [List.length_cons]
    have : ¬ (r.length + 1 + 1 + 1 + 2 = 2) := by omega
    rw [if_neg this]
    have : ¬ (r.length + 1 + 1 + 1 + 2 = 3) := by omega
    rw [if_neg this]
    have : ¬ (r.length + 1 + 1 + 1 + 2 = 4) := by omega
    rw [if_neg this]

/-! ## the reference predicate `Spec.insufficientMaterial` on the abstraction -/

theorem squareIsLight_eq (s1 s2 : Nat) :
    (Spec.squareIsLight s1 == Spec.squareIsLight s2) = sameColourSquares s1 s2 := by
  unfold Spec.squareIsLight sameColourSquares Spec.fileOf Spec.rankOf
  have a1 : (s1 % 8 + s1 / 8) % 2 = 0 ∨ (s1 % 8 + s1 / 8) % 2 = 1 := by omega
  have a2 : (s2 % 8 + s2 / 8) % 2 = 0 ∨ (s2 % 8 + s2 / 8) % 2 = 1 := by omega
  rcases a1 with a1 | a1 <;> rcases a2 with a2 | a2 <;> simp [a1, a2]

theorem filterMap_congr' {α β : Type} {f g : α → Option β} {l : List α} (h : ∀ a ∈ l, f a = g a) :
    l.filterMap f = l.filterMap g := by
  induction l with
  | nil => rfl
  | cons a r ih =>
    simp only [List.filterMap_cons]
    rw [h a List.mem_cons_self, ih (fun x hx => h x (List.mem_cons_of_mem _ hx))]

/-- The non-king men of the abstraction are those of the mailbox board. -/
theorem spec_others {p : Position} {b : Board} (h : Rep p b) (turn : Color) :
    (Spec.men (abs p turn)).filter (fun x => decide (x.2.2 ≠ Spec.Kind.king)) =
      (others b).map (fun x => (x.1, absColor x.2.1, kindOf x.2.2)) := by
  unfold Spec.men others Spec.allSquares
  rw [List.filter_filterMap, List.map_filterMap]
  apply filterMap_congr'
  intro sq _
  rw [h.abs_at]
  cases hb : b sq with
  | none => rfl
  | some v =>
    obtain ⟨c, k⟩ := v
    have hk : k ≠ .none := h.ne_none_of_some hb
    rw [absCellB_some _ hk]
    cases k <;> simp [kindOf] at hk ⊢

/-- **The reference agrees**: `Spec.insufficientMaterial` of the abstraction is `insufficientB` of the board. -/
theorem spec_insufficient {p : Position} {b : Board} (h : Rep p b) (turn : Color) :
    Spec.insufficientMaterial (abs p turn) = insufficientB b := by
  unfold Spec.insufficientMaterial insufficientB
  have hso := spec_others h turn
  simp only at hso ⊢
  have hfun : (fun (x : Nat × Spec.Color × Spec.Kind) => decide (x.2.2 ≠ Spec.Kind.king)) =
      (fun (x : Nat × Spec.Color × Spec.Kind) => match x with | (_, _, k) => decide (k ≠ Spec.Kind.king)) := by
    funext x; obtain ⟨_, _, _⟩ := x; rfl
  rw [← hfun, hso]
  match others b with
  | [] => rfl
  | [(s, c, k)] => cases k <;> simp [kindOf]
  | [(s1, c1, k1), (s2, c2, k2)] =>
    simp only [List.map_cons, List.map_nil, squareIsLight_eq]
    cases k1 <;> cases k2 <;> simp [kindOf]
  | _ :: _ :: _ :: r => rfl

end Morlock.Proofs.Material
