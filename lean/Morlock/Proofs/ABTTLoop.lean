import Morlock.Proofs.ABNode
/-!
# The move loop with a transposition table and with cancellation (helper for C11 / C12)

Generalisation of `ABLoop.abLoop_spec`: the state invariant "no table, no cancellation" is replaced by an
arbitrary invariant `Inv` of the table, and cancellation is allowed. `Live st` says that no poll so far
reported "cancelled"; it can only be lost, never regained (`Mono`). The loop contract is: the table
invariant is kept unconditionally (as long as the bounds are graded-valid *while the search is live*), and
if the search is still live at the end then all conclusions of `abLoop_spec` hold.
-/
namespace Morlock.Proofs.AB
open Morlock Morlock.Model Morlock.Model.Score Morlock.Spec
open Morlock.Props.C09
variable {P : Type}

/-- No poll performed so far has reported "cancelled". -/
def Live (st : SState) : Prop := ∀ k, st.cancelAt = some k → st.polls < k

/-- The cancellation instant is fixed and the poll counter only grows. -/
def Mono (st st' : SState) : Prop := st'.cancelAt = st.cancelAt ∧ st.polls ≤ st'.polls

theorem Mono.refl (st : SState) : Mono st st := ⟨rfl, Nat.le_refl _⟩

theorem Mono.trans {s1 s2 s3 : SState} (h1 : Mono s1 s2) (h2 : Mono s2 s3) : Mono s1 s3 :=
  ⟨h2.1.trans h1.1, Nat.le_trans h1.2 h2.2⟩

/-- Cancellation is monotone: a search that is live now was live before. -/
theorem Mono.live {st st' : SState} (h : Mono st st') (hl : Live st') : Live st := by
  intro k hk
  have := hl k (by rw [h.1]; exact hk)
  have := h.2
  omega

theorem live_of_none {st : SState} (h : st.cancelAt = none) : Live st := by
  intro k hk; rw [h] at hk; cases hk

/-- The state after one poll. -/
def tick (st : SState) : SState := { st with polls := st.polls + 1 }

/-- What one poll reports. -/
def cancelled (st : SState) : Bool := (poll st).1

theorem poll_eq (st : SState) : poll st = (cancelled st, tick st) := rfl

theorem mono_tick (st : SState) : Mono st (tick st) := ⟨rfl, Nat.le_succ _⟩

theorem tick_tt (st : SState) : (tick st).tt = st.tt := rfl

theorem cancelled_false_iff (st : SState) : cancelled st = false ↔ Live (tick st) := by
  unfold cancelled poll Live tick
  cases h : st.cancelAt with
  | none => simp
  | some k => simp <;> omega

theorem not_live_of_cancelled {st : SState} (h : cancelled st = true) : ¬ Live (tick st) := by
  intro hl
  have := (cancelled_false_iff st).2 hl
  rw [h] at this; cases this

/-- Once a poll has reported "cancelled", every later poll does. -/
theorem cancelled_mono {st st' : SState} (h : Mono (tick st) st') (hc : cancelled st = true) :
    cancelled st' = true := by
  cases hc' : cancelled st' with
  | true => rfl
  | false =>
    have := (cancelled_false_iff st').1 hc'
    exact absurd (h.live ((mono_tick st').live this)) (not_live_of_cancelled hc)

/-- The node contract with table invariant `Inv` and cancellation, for the positions of the domain `D`
    (the positions the searcher is actually called on: the region of the tree at this remaining depth). -/
structure RecTT (Inv : TTState → Prop) (D : P → Prop) (n : Nat) (vc : P → Score)
    (pathc : P → Score → List Move → Prop)
    (rec : P → Score → Score → SState → Score × List Move × SState) : Prop where
  vok : ∀ c, okN n (vc c)
  node : ∀ c a b st, D c → Inv st.tt → (Live st → okN n a ∧ okN n b) →
    Mono st (rec c a b st).2.2 ∧ Inv (rec c a b st).2.2.tt ∧
    (Live (rec c a b st).2.2 →
      okN n (rec c a b st).1 ∧
      ((rec c a b st).1 = vc c ∨ rank a ≤ rank (rec c a b st).1) ∧
      (rank a < rank b → Clip (rank a) (rank b) (rank (vc c)) (rank (rec c a b st).1)) ∧
      pathc c (rec c a b st).1 (rec c a b st).2.1)

/-- What the loop needs to know about one explored legal child whose search stayed live. -/
structure StepFacts (n : Nat) (vc : P → Score) (c : P) (a b r1 : Score) : Prop where
  rok : okN n r1
  a'ok : okN (n + 1) (if a.less (lift r1) then lift r1 else a)
  a'r : rank (if a.less (lift r1) then lift r1 else a) = Max.max (rank a) (rank (lift r1))
  less : a.less (lift r1) = true ↔ rank a < rank (lift r1)
  kp : rank a < rank b →
      (rank a < rank (lift (vc c)) ∧ rank (lift (vc c)) < rank b → rank (lift r1) = rank (lift (vc c))) ∧
      (rank (lift (vc c)) ≤ rank a → rank (lift r1) ≤ rank a) ∧
      (rank b ≤ rank (lift (vc c)) → rank b ≤ rank (lift r1) ∧ rank (lift r1) ≤ rank (lift (vc c)))
  ki : rank b ≤ rank a → rank b ≠ -1099511627776 →
      rank (lift r1) ≤ rank a ∨ rank (lift r1) = rank (lift (vc c))
  kr : rank a < rank (lift r1) → rank (lift r1) ≤ rank (lift (vc c))

theorem stepFacts {n : Nat} {vc : P → Score} {c : P} {a b r1 : Score} (hn : n ≤ 126) (hvc : okN n (vc c))
    (ha : okN (n + 1) a) (hb : okN (n + 1) b) (hrok : okN n r1)
    (hweak : r1 = vc c ∨ rank (childBound b) ≤ rank r1)
    (hclip : rank (childBound b) < rank (childBound a) →
      Clip (rank (childBound b)) (rank (childBound a)) (rank (vc c)) (rank r1)) :
    StepFacts n vc c a b r1 := by
  have hsok : okN (n + 1) (lift r1) := okN_lift hrok hn
  have rs : rank (lift r1) = fR (rank r1) := rank_lift hrok hn
  have rF : rank (lift (vc c)) = fR (rank (vc c)) := rank_lift hvc hn
  have rcb : rank (childBound b) = cwR (rank b) := rank_cw hb (by omega)
  have rca : rank (childBound a) = cwR (rank a) := rank_cw ha (by omega)
  obtain ⟨hless, ha'ok, ha'r⟩ := raise_spec ha hsok
  have Na : rankN 127 (rank a) := rankN_mono (okN_rankN ha) (by omega)
  have Nb : rankN 127 (rank b) := rankN_mono (okN_rankN hb) (by omega)
  have Nv : rankN 126 (rank (vc c)) := rankN_mono (okN_rankN hvc) hn
  have Nr : rankN 126 (rank r1) := rankN_mono (okN_rankN hrok) hn
  have hweak' : rank r1 = rank (vc c) ∨ cwR (rank b) ≤ rank r1 := by
    rcases hweak with e | e
    · left; rw [e]
    · right; rw [← rcb]; exact e
  have hclip' : cwR (rank b) < cwR (rank a) → Clip (cwR (rank b)) (cwR (rank a)) (rank (vc c)) (rank r1) := by
    rw [← rcb, ← rca]; exact hclip
  have kp := fun hab => key_proper Na Nb Nv Nr hab hclip' hweak'
  have ki := fun hba hbot => key_improper (a := rank a) (v := rank (vc c)) Nb Nr hba hbot hweak'
  have kr := key_raise Na Nb Nv Nr hclip' hweak'
  rw [← rs, ← rF] at kp ki kr
  exact ⟨hrok, ha'ok, ha'r, hless, kp, ki, kr⟩

/-- Conclusions of the loop lemma for a run that stayed live. -/
def LoopPost (g : Game P) (ex : P → Explore) (p : P) (n : Nat) (vc : P → Score)
    (pathc : P → Score → List Move → Prop) (b : Score) (l : List Move) (a : Score) (pv : List Move) (hl : Bool)
    (res : Score × List Move × Bool × Bool × SState) : Prop :=
  okN (n + 1) res.1 ∧ rank a ≤ rank res.1 ∧ res.2.2.1 = (hl || legalAny g p l) ∧
  (rank a < rank b →
    (maxR (rank a) (kidsR g ex p vc l) < rank b → rank res.1 = maxR (rank a) (kidsR g ex p vc l)) ∧
    (rank b ≤ maxR (rank a) (kidsR g ex p vc l) →
      rank b ≤ rank res.1 ∧ rank res.1 ≤ maxR (rank a) (kidsR g ex p vc l))) ∧
  (rank b ≤ rank a → rank b ≠ -1099511627776 → rank res.1 ≤ maxR (rank a) (kidsR g ex p vc l)) ∧
  (res.2.2.2.1 = false → rank res.1 < rank b ∨ res.1 = a) ∧
  ((res.2.1 = pv ∧ res.1 = a) ∨
    ∃ m c s rem, res.2.1 = m :: rem ∧ m ∈ l ∧ g.push p m = some c ∧ (ex p).pick m = true ∧ pathc c s rem ∧
      okN n s ∧ res.1 = lift s ∧ rank a < rank res.1 ∧ rank res.1 ≤ rank (lift (vc c)))

section post
variable {g : Game P} {ex : P → Explore} {p : P} {n : Nat} {vc : P → Score}
  {pathc : P → Score → List Move → Prop} {b : Score}

theorem LoopPost.nil {a : Score} {pv : List Move} {hl : Bool} {st : SState} (ha : okN (n + 1) a) :
    LoopPost g ex p n vc pathc b [] a pv hl (a, pv, hl, false, st) := by
  refine ⟨ha, Int.le_refl _, by simp [legalAny], ?_, ?_, ?_, Or.inl ⟨rfl, rfl⟩⟩
  · intro hab; simp only [kidsR, kids, List.filterMap_nil, List.map_nil, maxR, List.foldl_nil]
    exact ⟨fun _ => trivial, fun h => by omega⟩
  · intro _ _; simp only [kidsR, kids, List.filterMap_nil, List.map_nil, maxR, List.foldl_nil]
    exact Int.le_refl _
  · intro _; right; rfl

theorem LoopPost.cons_none {m : Move} {rest : List Move} {a : Score} {pv : List Move} {hl : Bool}
    {res : Score × List Move × Bool × Bool × SState} (hpush : g.push p m = none)
    (h : LoopPost g ex p n vc pathc b rest a pv hl res) :
    LoopPost g ex p n vc pathc b (m :: rest) a pv hl res := by
  obtain ⟨h1, h2, h3, h4, h5, h6, h7⟩ := h
  unfold LoopPost
  rw [kidsR_none hpush, legalAny_cons, hpush]
  refine ⟨h1, h2, by simpa using h3, h4, h5, h6, ?_⟩
  rcases h7 with h7 | ⟨m', c, s, rem, e1, e2, e3⟩
  · left; exact h7
  · right; exact ⟨m', c, s, rem, e1, List.mem_cons_of_mem _ e2, e3⟩

theorem LoopPost.cons_skip {m : Move} {rest : List Move} {a : Score} {pv : List Move} {hl : Bool} {c : P}
    {res : Score × List Move × Bool × Bool × SState} (hpush : g.push p m = some c) (hp : (ex p).pick m = false)
    (h : LoopPost g ex p n vc pathc b rest a pv true res) :
    LoopPost g ex p n vc pathc b (m :: rest) a pv hl res := by
  obtain ⟨h1, h2, h3, h4, h5, h6, h7⟩ := h
  unfold LoopPost
  rw [kidsR_skip hp, legalAny_cons, hpush]
  refine ⟨h1, h2, by simpa using h3, h4, h5, h6, ?_⟩
  rcases h7 with h7 | ⟨m', c', s, rem, e1, e2, e3⟩
  · left; exact h7
  · right; exact ⟨m', c', s, rem, e1, List.mem_cons_of_mem _ e2, e3⟩

theorem LoopPost.skip_cut {m : Move} {rest : List Move} {a : Score} {pv : List Move} {hl : Bool} {c : P}
    {st : SState} (hpush : g.push p m = some c) (hp : (ex p).pick m = false) (ha : okN (n + 1) a)
    (hba : rank b ≤ rank a) :
    LoopPost g ex p n vc pathc b (m :: rest) a pv hl (a, pv, true, true, st) := by
  have hM := maxR_ge (kidsR g ex p vc rest) (rank a)
  unfold LoopPost
  rw [kidsR_skip hp, legalAny_cons, hpush]
  refine ⟨ha, Int.le_refl _, by simp, ?_, ?_, ?_, Or.inl ⟨rfl, rfl⟩⟩
  · intro hab; omega
  · intro _ _; exact hM
  · intro h; simp at h

theorem LoopPost.pick_cut {m : Move} {rest : List Move} {a : Score} {pv : List Move} {hl : Bool} {c : P}
    {st : SState} {r1 : Score} {rem1 : List Move} (hpush : g.push p m = some c) (hp : (ex p).pick m = true)
    (S : StepFacts n vc c a b r1) (hpath : pathc c r1 rem1)
    (hba : rank b ≤ rank (if a.less (lift r1) then lift r1 else a)) :
    LoopPost g ex p n vc pathc b (m :: rest) a pv hl
      (if a.less (lift r1) then lift r1 else a, if a.less (lift r1) then m :: rem1 else pv, true, true, st) := by
  have hM := maxR_ge (kidsR g ex p vc rest) (Max.max (rank a) (rank (lift (vc c))))
  have ha'r := S.a'r
  unfold LoopPost
  rw [kidsR_pick hpush hp, maxR_cons, legalAny_cons, hpush]
  refine ⟨S.a'ok, by rw [ha'r]; omega, by simp, ?_, ?_, ?_, ?_⟩
  · intro hab
    obtain ⟨q1, q2, q3⟩ := S.kp hab
    dsimp only
    rw [ha'r] at hba ⊢
    omega
  · intro hba' hbot
    have := S.ki hba' hbot
    dsimp only
    rw [ha'r]
    omega
  · intro h; simp at h
  · dsimp only
    by_cases hl' : a.less (lift r1) = true
    · right
      have h1 := S.less.1 hl'
      have h2 := S.kr h1
      refine ⟨m, c, r1, rem1, by simp [hl'], List.mem_cons_self, hpush, hp, hpath, S.rok, by simp [hl'], ?_, ?_⟩
      · simp only [hl', if_true]; exact h1
      · simp only [hl', if_true]; exact h2
    · left
      simp [hl']

theorem LoopPost.pick_cont {m : Move} {rest : List Move} {a : Score} {pv : List Move} {hl : Bool} {c : P}
    {r1 : Score} {rem1 : List Move} {res : Score × List Move × Bool × Bool × SState}
    (hpush : g.push p m = some c) (hp : (ex p).pick m = true)
    (S : StepFacts n vc c a b r1) (hpath : pathc c r1 rem1)
    (hnb : rank (if a.less (lift r1) then lift r1 else a) < rank b)
    (h : LoopPost g ex p n vc pathc b rest (if a.less (lift r1) then lift r1 else a)
      (if a.less (lift r1) then m :: rem1 else pv) true res) :
    LoopPost g ex p n vc pathc b (m :: rest) a pv hl res := by
  have ha'r := S.a'r
  have hab : rank a < rank b := by rw [ha'r] at hnb; omega
  obtain ⟨q1, q2, q3⟩ := S.kp hab
  have hMeq : Max.max (rank a) (rank (lift (vc c))) = rank (if a.less (lift r1) then lift r1 else a) := by
    rw [ha'r] at hnb ⊢; omega
  obtain ⟨h1, h2, h3, h4, h5, h6, h7⟩ := h
  unfold LoopPost
  rw [kidsR_pick hpush hp, maxR_cons, legalAny_cons, hpush, hMeq]
  refine ⟨h1, by rw [ha'r] at h2; omega, by simpa using h3, fun _ => h4 hnb, fun hba _ => by omega, ?_, ?_⟩
  · intro hw
    rcases h6 hw with e | e
    · left; exact e
    · left; rw [e]; exact hnb
  · rcases h7 with ⟨e1, e2⟩ | ⟨m', c', s, rem, e1, e2, e3, e4, e5, e6, e7, e8, e9⟩
    · by_cases hl' : a.less (lift r1) = true
      · right
        have g1 := S.less.1 hl'
        have g2 := S.kr g1
        refine ⟨m, c, r1, rem1, by simp [e1, hl'], List.mem_cons_self, hpush, hp, hpath, S.rok,
          by simp [e2, hl'], ?_, ?_⟩
        · rw [e2]; simp only [hl', if_true]; exact g1
        · rw [e2]; simp only [hl', if_true]; exact g2
      · left
        simp [e1, e2, hl']
    · right
      exact ⟨m', c', s, rem, e1, List.mem_cons_of_mem _ e2, e3, e4, e5, e6, e7, by rw [ha'r] at e8; omega, e9⟩

end post

/-- Loop invariant of `abLoop` with a table invariant and cancellation, for an arbitrary move list. -/
theorem abLoop_tt {g : Game P} {ex : P → Explore} {rec} {p : P} {Inv : TTState → Prop} {D : P → Prop} {n : Nat}
    {vc : P → Score}
    {pathc : P → Score → List Move → Prop} (H : RecTT Inv D n vc pathc rec) (hn : n ≤ 126) {b : Score} :
    ∀ (l : List Move), (∀ m ∈ l, ∀ c, g.push p m = some c → (ex p).pick m = true → D c) →
    ∀ (a : Score) (pv : List Move) (hl : Bool) (st : SState), Inv st.tt →
    (Live st → okN (n + 1) a ∧ okN (n + 1) b) →
    ∀ res, abLoop g ex rec p b l a pv hl st = res →
      Mono st res.2.2.2.2 ∧ Inv res.2.2.2.2.tt ∧
      (Live res.2.2.2.2 → LoopPost g ex p n vc pathc b l a pv hl res) := by
  intro l
  induction l with
  | nil =>
    intro _ a pv hl st hinv hab res hres
    simp only [abLoop] at hres
    subst hres
    exact ⟨Mono.refl _, hinv, fun hlive => LoopPost.nil (hab hlive).1⟩
  | cons m rest ih' =>
    intro hD a pv hl st hinv hab res hres
    have ih := ih' (fun m' hm' => hD m' (List.mem_cons_of_mem _ hm'))
    cases hpush : g.push p m with
    | none =>
      rw [abLoop_none hpush] at hres
      obtain ⟨h1, h2, h3⟩ := ih a pv hl st hinv hab res hres
      exact ⟨h1, h2, fun hlive => (h3 hlive).cons_none hpush⟩
    | some c =>
      cases hp : (ex p).pick m with
      | false =>
        rw [abLoop_skip hpush hp] at hres
        by_cases hcut : cutoff a b = true
        · rw [if_pos hcut] at hres
          subst hres
          refine ⟨Mono.refl _, hinv, fun hlive => ?_⟩
          obtain ⟨ha, hb⟩ := hab hlive
          exact LoopPost.skip_cut hpush hp ha ((cutoff_iff ha.1 hb.1).1 hcut)
        · rw [if_neg hcut] at hres
          obtain ⟨h1, h2, h3⟩ := ih a pv true st hinv hab res hres
          exact ⟨h1, h2, fun hlive => (h3 hlive).cons_skip hpush hp⟩
      | true =>
        rw [abLoop_pick hpush hp] at hres
        have hab' : Live st → okN n (childBound b) ∧ okN n (childBound a) := fun hlive =>
          ⟨okN_cw (hab hlive).2 (by omega), okN_cw (hab hlive).1 (by omega)⟩
        obtain ⟨hm, hi, hs⟩ := H.node c (childBound b) (childBound a) st
          (hD m List.mem_cons_self c hpush hp) hinv hab'
        generalize rec c (childBound b) (childBound a) st = r at hres hm hi hs
        dsimp only at hres
        -- facts about the child, available when its search stayed live
        have facts : Live r.2.2 → okN (n + 1) a ∧ okN (n + 1) b ∧ StepFacts n vc c a b r.1 ∧ pathc c r.1 r.2.1 := by
          intro hlive
          obtain ⟨ha, hb⟩ := hab (hm.live hlive)
          obtain ⟨s1, s2, s3, s4⟩ := hs hlive
          exact ⟨ha, hb, stepFacts hn (H.vok c) ha hb s1 s2 s3, s4⟩
        by_cases hcut : cutoff (if a.less (lift r.1) then lift r.1 else a) b = true
        · rw [if_pos hcut] at hres
          subst hres
          refine ⟨hm, hi, fun hlive => ?_⟩
          obtain ⟨_, hb, S, hpath⟩ := facts hlive
          exact LoopPost.pick_cut hpush hp S hpath ((cutoff_iff S.a'ok.1 hb.1).1 hcut)
        · rw [if_neg hcut] at hres
          obtain ⟨h1, h2, h3⟩ := ih _ _ true r.2.2 hi
            (fun hlive => ⟨(facts hlive).2.2.1.a'ok, (facts hlive).2.1⟩) res hres
          refine ⟨hm.trans h1, h2, fun hlive => ?_⟩
          obtain ⟨_, hb, S, hpath⟩ := facts (h1.live hlive)
          have hnb : rank (if a.less (lift r.1) then lift r.1 else a) < rank b := by
            have : ¬ rank b ≤ rank (if a.less (lift r.1) then lift r.1 else a) :=
              fun h => hcut ((cutoff_iff S.a'ok.1 hb.1).2 h)
            omega
          exact LoopPost.pick_cont hpush hp S hpath hnb (h3 hlive)

end Morlock.Proofs.AB
