import Morlock.Proofs.FltSqrtMono
/-! # `sqrtPos` returns a number of the format that is nearest to `√(a/b)` among all numbers of the format -/
namespace Morlock.Model.Flt

/-- `v = Vn/Vd` is at least as close to `√(a/b)` as `w = Wn/Wd` (`v, w ≥ 0`), without square roots:
if `w < v` the midpoint `(v+w)/2` is `≤ √(a/b)`, i.e. `(v+w)² ≤ 4a/b`; if `v < w` it is `≥ √(a/b)`.
(Denominators cleared: `v + w = (Vn·Wd + Wn·Vd)/(Vd·Wd)`.) -/
def SqrtCloser (a b Vn Vd Wn Wd : Nat) : Prop :=
  (Wn * Vd < Vn * Wd → (Vn * Wd + Wn * Vd) ^ 2 * b ≤ 4 * a * (Vd * Wd) ^ 2) ∧
  (Vn * Wd < Wn * Vd → 4 * a * (Vd * Wd) ^ 2 ≤ (Vn * Wd + Wn * Vd) ^ 2 * b)

/-- `SqrtCloser` depends on the value `Vn/Vd` only -/
theorem SqrtCloser.congr {a b Vn Vd Vn' Vd' Wn Wd : Nat} (hVd : 0 < Vd) (hVd' : 0 < Vd')
    (hv : Vn * Vd' = Vn' * Vd) (h : SqrtCloser a b Vn Vd Wn Wd) : SqrtCloser a b Vn' Vd' Wn Wd := by
  unfold SqrtCloser at *
  have hsq : 0 < Vd ^ 2 := Nat.pow_pos hVd
  -- (Vn' Wd + Wn Vd') Vd = (Vn Wd + Wn Vd) Vd'
  have key : (Vn' * Wd + Wn * Vd') * Vd = (Vn * Wd + Wn * Vd) * Vd' := by
    calc (Vn' * Wd + Wn * Vd') * Vd = Vn' * Vd * Wd + Wn * Vd' * Vd := by grind
      _ = Vn * Vd' * Wd + Wn * Vd' * Vd := by rw [hv]
      _ = (Vn * Wd + Wn * Vd) * Vd' := by grind
  have l1 : (Vn' * Wd + Wn * Vd') ^ 2 * b * Vd ^ 2 = (Vn * Wd + Wn * Vd) ^ 2 * b * Vd' ^ 2 := by
    calc (Vn' * Wd + Wn * Vd') ^ 2 * b * Vd ^ 2 = ((Vn' * Wd + Wn * Vd') * Vd) ^ 2 * b := by grind
      _ = ((Vn * Wd + Wn * Vd) * Vd') ^ 2 * b := by rw [key]
      _ = (Vn * Wd + Wn * Vd) ^ 2 * b * Vd' ^ 2 := by grind
  have l2 : 4 * a * (Vd' * Wd) ^ 2 * Vd ^ 2 = 4 * a * (Vd * Wd) ^ 2 * Vd' ^ 2 := by grind
  have c1 : Wn * Vd' < Vn' * Wd ↔ Wn * Vd < Vn * Wd := by
    have a1 : (Wn * Vd' < Vn' * Wd) ↔ (Wn * Vd' * Vd < Vn' * Wd * Vd) := (Nat.mul_lt_mul_right hVd).symm
    have a2 : (Wn * Vd < Vn * Wd) ↔ (Wn * Vd * Vd' < Vn * Wd * Vd') := (Nat.mul_lt_mul_right hVd').symm
    have e1 : Wn * Vd' * Vd = Wn * Vd * Vd' := by grind
    have e2 : Vn' * Wd * Vd = Vn * Wd * Vd' := by
      calc Vn' * Wd * Vd = Vn' * Vd * Wd := by grind
        _ = Vn * Vd' * Wd := by rw [hv]
        _ = Vn * Wd * Vd' := by grind
    rw [a1, a2, e1, e2]
  have c2 : Vn' * Wd < Wn * Vd' ↔ Vn * Wd < Wn * Vd := by
    have a1 : (Vn' * Wd < Wn * Vd') ↔ (Vn' * Wd * Vd < Wn * Vd' * Vd) := (Nat.mul_lt_mul_right hVd).symm
    have a2 : (Vn * Wd < Wn * Vd) ↔ (Vn * Wd * Vd' < Wn * Vd * Vd') := (Nat.mul_lt_mul_right hVd').symm
    have e1 : Wn * Vd' * Vd = Wn * Vd * Vd' := by grind
    have e2 : Vn' * Wd * Vd = Vn * Wd * Vd' := by
      calc Vn' * Wd * Vd = Vn' * Vd * Wd := by grind
        _ = Vn * Vd' * Wd := by rw [hv]
        _ = Vn * Wd * Vd' := by grind
    rw [a1, a2, e1, e2]
  constructor
  · intro hlt
    have h1 := h.1 (c1.mp hlt)
    have := Nat.mul_le_mul_right (Vd' ^ 2) h1
    rw [← l1, ← l2] at this
    exact Nat.le_of_mul_le_mul_right this hsq
  · intro hlt
    have h1 := h.2 (c2.mp hlt)
    have := Nat.mul_le_mul_right (Vd' ^ 2) h1
    rw [← l1, ← l2] at this
    exact Nat.le_of_mul_le_mul_right this hsq

theorem pn_two_mul (e : Int) : pn (2 * e) = pn e * pn e := by
  unfold pn; rw [← Nat.pow_add]; congr 1; omega
theorem pd_two_mul (e : Int) : pd (2 * e) = pd e * pd e := by
  unfold pd; rw [← Nat.pow_add]; congr 1; omega

/-- the pair before renormalisation is nearest -/
theorem sqrt_pre_nearest (f : Fmt) (hp : 1 ≤ f.p) {a b : Nat} (ha : 0 < a) (hb : 0 < b) (m' : Nat) (e' : Int)
    (hm' : m' < 2 ^ f.p) (he' : f.emin ≤ e') :
    SqrtCloser a b (ssig a b (sexpo f a b) * pn (sexpo f a b)) (pd (sexpo f a b)) (m' * pn e') (pd e') := by
  obtain ⟨hge, hlt, hnorm⟩ := sexpo_spec f hp ha hb
  obtain ⟨hsig, hhalf, _⟩ := ssig_spec (a := a) hb (sexpo f a b)
  obtain ⟨hfl, _⟩ := sfl_spec (a := a) hb (sexpo f a b)
  unfold SqrtHalfUlp at hhalf
  generalize sexpo f a b = E at *
  generalize ssig a b E = M at *
  rw [pn_two_mul, pd_two_mul] at hhalf hfl
  -- scaled quantities:  U = ulp,  V = M U,  W
  have hU : M * pn E * pd e' = M * (pn E * pd e') := by grind
  -- the two half-ulp facts multiplied by (pd e')²
  have hup : 4 * a * (pd E * pd e') ^ 2 ≤ ((2 * M + 1) * (pn E * pd e')) ^ 2 * b := by
    have := Nat.mul_le_mul_right (pd e' * pd e') hhalf.2
    calc 4 * a * (pd E * pd e') ^ 2 = 4 * (a * (pd E * pd E)) * (pd e' * pd e') := by grind
      _ ≤ (2 * M + 1) ^ 2 * (b * (pn E * pn E)) * (pd e' * pd e') := this
      _ = ((2 * M + 1) * (pn E * pd e')) ^ 2 * b := by grind
  have hlo : 1 ≤ M → ((2 * M - 1) * (pn E * pd e')) ^ 2 * b ≤ 4 * a * (pd E * pd e') ^ 2 := by
    intro hM
    have h0 : (2 * M - 1) ^ 2 * (b * (pn E * pn E)) ≤ 4 * (a * (pd E * pd E)) := by
      rcases hhalf.1 with h | h
      · omega
      · exact h
    have := Nat.mul_le_mul_right (pd e' * pd e') h0
    calc ((2 * M - 1) * (pn E * pd e')) ^ 2 * b = (2 * M - 1) ^ 2 * (b * (pn E * pn E)) * (pd e' * pd e') := by grind
      _ ≤ 4 * (a * (pd E * pd E)) * (pd e' * pd e') := this
      _ = 4 * a * (pd E * pd e') ^ 2 := by grind
  have hUpos : 0 < pn E * pd e' := Nat.mul_pos (pn_pos _) (pd_pos _)
  unfold SqrtCloser
  rw [hU]
  generalize hUdef : pn E * pd e' = U at *
  -- general facts: W ≤ (M-1) U gives the first inequality, W ≥ (M+1) U the second
  have caseLow : ∀ W, W < M * U → W ≤ (M - 1) * U → (M * U + W) ^ 2 * b ≤ 4 * a * (pd E * pd e') ^ 2 := by
    intro W hWV hW
    have hM : 1 ≤ M := by
      rcases Nat.eq_zero_or_pos M with h | h
      · subst h; simp at hWV
      · exact h
    have : M * U + W ≤ (2 * M - 1) * U := by
      have e1 : (2 * M - 1) * U = M * U + (M - 1) * U := by
        rw [← Nat.add_mul]; congr 1; omega
      omega
    calc (M * U + W) ^ 2 * b ≤ ((2 * M - 1) * U) ^ 2 * b := Nat.mul_le_mul_right _ (Nat.pow_le_pow_left this 2)
      _ ≤ 4 * a * (pd E * pd e') ^ 2 := hlo hM
  have caseHigh : ∀ W, (M + 1) * U ≤ W → 4 * a * (pd E * pd e') ^ 2 ≤ (M * U + W) ^ 2 * b := by
    intro W hW
    have : (2 * M + 1) * U ≤ M * U + W := by
      have e1 : (2 * M + 1) * U = M * U + (M + 1) * U := by
        rw [← Nat.add_mul]; congr 1; omega
      omega
    calc 4 * a * (pd E * pd e') ^ 2 ≤ ((2 * M + 1) * U) ^ 2 * b := hup
      _ ≤ (M * U + W) ^ 2 * b := Nat.mul_le_mul_right _ (Nat.pow_le_pow_left this 2)
  rcases Int.lt_or_le e' E with hlt' | hle
  · -- lower binade: W < 2^(p-1) U ≤ V
    obtain ⟨K, hK⟩ : ∃ K : Nat, E = e' + K := ⟨(E - e').toNat, by omega⟩
    have hK0 : 0 < K := by omega
    have hs := pn_pd_shift e' K
    rw [← hK] at hs
    have hflE : 2 ^ (f.p - 1) ≤ sfl a b E := by
      rcases hnorm with h0 | h0
      · omega
      · exact h0
    have hMn : 2 ^ (f.p - 1) ≤ M := by omega
    have h2K : 2 ≤ 2 ^ K := by
      calc 2 = 2 ^ 1 := rfl
        _ ≤ 2 ^ K := Nat.pow_le_pow_right (by decide) hK0
    have hT : 0 < pn e' * pd E := Nat.mul_pos (pn_pos _) (pd_pos _)
    have hW : m' * pn e' * pd E < 2 ^ (f.p - 1) * U := by
      calc m' * pn e' * pd E = m' * (pn e' * pd E) := by grind
        _ < 2 ^ f.p * (pn e' * pd E) := (Nat.mul_lt_mul_right hT).mpr hm'
        _ = 2 * 2 ^ (f.p - 1) * (pn e' * pd E) := by rw [two_pow_pred hp]
        _ ≤ 2 ^ K * 2 ^ (f.p - 1) * (pn e' * pd E) := Nat.mul_le_mul_right _ (Nat.mul_le_mul_right _ h2K)
        _ = 2 ^ (f.p - 1) * (2 ^ K * pn e' * pd E) := by grind
        _ = 2 ^ (f.p - 1) * (pn E * pd e') := by rw [hs]
        _ = 2 ^ (f.p - 1) * U := by rw [hUdef]
    have hLV : 2 ^ (f.p - 1) * U ≤ M * U := Nat.mul_le_mul_right _ hMn
    generalize m' * pn e' * pd E = W at *
    constructor
    · intro hWV
      rcases Nat.lt_or_ge ((M - 1) * U) W with h1 | h1
      case inr => exact caseLow W hWV h1
      · -- then M = 2^(p-1): v is the binade boundary and v² ≤ a/b
        have hMeq : M = 2 ^ (f.p - 1) := by
          have : (M - 1) * U < 2 ^ (f.p - 1) * U := by omega
          have := Nat.lt_of_mul_lt_mul_right this
          omega
        have hsq : M * M ≤ sfl a b E * sfl a b E := by
          rw [hMeq]; exact Nat.mul_le_mul hflE hflE
        have hv2 : (M * U) ^ 2 * b ≤ a * (pd E * pd e') ^ 2 := by
          have h1 := Nat.le_trans (Nat.mul_le_mul_right (b * (pn E * pn E)) hsq) hfl
          have := Nat.mul_le_mul_right (pd e' * pd e') h1
          calc (M * U) ^ 2 * b = M * M * (b * (pn E * pn E)) * (pd e' * pd e') := by rw [← hUdef]; grind
            _ ≤ a * (pd E * pd E) * (pd e' * pd e') := this
            _ = a * (pd E * pd e') ^ 2 := by grind
        have h2 : M * U + W ≤ 2 * (M * U) := by omega
        calc (M * U + W) ^ 2 * b ≤ (2 * (M * U)) ^ 2 * b := Nat.mul_le_mul_right _ (Nat.pow_le_pow_left h2 2)
          _ = 4 * ((M * U) ^ 2 * b) := by grind
          _ ≤ 4 * (a * (pd E * pd e') ^ 2) := Nat.mul_le_mul_left _ hv2
          _ = 4 * a * (pd E * pd e') ^ 2 := by grind
    · intro hVW; exfalso; omega
  · -- the candidate is a multiple of the unit in the last place
    obtain ⟨K, hK⟩ : ∃ K : Nat, e' = E + K := ⟨(e' - E).toNat, by omega⟩
    have hs := pn_pd_shift E K
    rw [← hK] at hs
    have hW : m' * pn e' * pd E = m' * 2 ^ K * U := by
      calc m' * pn e' * pd E = m' * (pn e' * pd E) := by grind
        _ = m' * (2 ^ K * pn E * pd e') := by rw [hs]
        _ = m' * 2 ^ K * (pn E * pd e') := by grind
        _ = m' * 2 ^ K * U := by rw [hUdef]
    rw [hW]
    generalize m' * 2 ^ K = k
    constructor
    · intro hWV
      have hk : k < M := Nat.lt_of_mul_lt_mul_right hWV
      exact caseLow _ hWV (Nat.mul_le_mul_right _ (by omega))
    · intro hVW
      have hk : M < k := Nat.lt_of_mul_lt_mul_right hVW
      exact caseHigh _ (Nat.mul_le_mul_right _ hk)

/-- **`sqrtPos` rounds to nearest**: if `sqrtPos f a b = some (m, e)` then `m·2^e` is at least as close to `√(a/b)` as
every number `m'·2^e'` of the format (`m' < 2^p`, `emin ≤ e'`, no upper bound on `e'`):
`|√(a/b) − m·2^e| ≤ |√(a/b) − m'·2^e'|`, stated without roots as `SqrtCloser` -/
theorem sqrtPos_nearest (f : Fmt) (hp : 1 ≤ f.p) {a b m : Nat} {e : Int} (ha : 0 < a) (hb : 0 < b)
    (h : sqrtPos f a b = some (m, e)) (m' : Nat) (e' : Int) (hm' : m' < 2 ^ f.p) (he' : f.emin ≤ e') :
    SqrtCloser a b (m * pn e) (pd e) (m' * pn e') (pd e') := by
  have hpre := sqrt_pre_nearest f hp ha hb m' e' hm' he'
  have hcv := carry_val f hp (ssig a b (sexpo f a b)) (sexpo f a b)
  rw [sqrtPos_eq] at h
  split at h
  · simp at h
  have hfin : carry f (ssig a b (sexpo f a b)) (sexpo f a b) = (m, e) := by simpa using h
  rw [hfin] at hcv
  simp only [] at hcv
  exact SqrtCloser.congr (pd_pos _) (pd_pos _) hcv.symm hpre

end Morlock.Model.Flt
