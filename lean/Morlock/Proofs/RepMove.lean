import Morlock.Proofs.Rep
/-!
# `Position.move` preserves `Rep` (helpers for C02)
-/
namespace Morlock.Proofs
open Morlock Morlock.Model

/-- Promotion piece is one of Q, R, N, B. -/
def promoOK (m : Move) : Bool :=
  m.promotion == .queen || m.promotion == .rook || m.promotion == .knight || m.promotion == .bishop

/-- Accuracy of the move metadata, stated on a mailbox board. -/
def MetaOKb (b : Board) (m : Move) : Bool :=
  match b m.from with
  | none => false
  | some (turn, pc) =>
    pc == m.piece && decide (m.to < 64) &&
    (match m.ty with
     | .invalid | .normal | .push | .jump => b m.to == none
     | .capture => b m.to == some (turn.opp, m.capture)
     | .promotion => b m.to == none && promoOK m
     | .capturePromotion => b m.to == some (turn.opp, m.capture) && promoOK m
     | .enPassant => b m.to == none && b m.enPassantCapture == some (turn.opp, .pawn)
     | .kingSideCastle | .queenSideCastle =>
       b m.to == none && b m.castlingRookMove.1 == some (turn, .rook) &&
       b m.castlingRookMove.2 == none && m.castlingRookMove.2 != m.to)

/-- `MetaOK p m`: the metadata carried by `m` is accurate in `p` (decidable: a `Bool`).
    * `from` holds a piece (of some colour `turn`) and it is `m.piece`; `to` is a real square;
    * capture types: `to` holds an enemy `m.capture`; all other types: `to` is empty (the zero
      type `invalid` is treated by `move` and `ZobristTable.Move` like a quiet move, and so here);
    * en passant: the victim pawn stands on `m.enPassantCapture`;
    * castling: own rook on the rook's home square, rook destination empty and distinct from `to`;
    * promotion types: `m.promotion ∈ {Q, R, N, B}`. -/
def MetaOK (p : Position) (m : Move) : Bool := MetaOKb p.square m

/-- The piece that ends up on the destination square. -/
def movedPiece (m : Move) (pc : Piece) : Piece := if m.isPromotion then m.promotion else pc

/-- The board the rules prescribe after `m`: origin emptied, destination holds the moved or
    promoted piece, en-passant victim removed, castling rook hopped. -/
def boardAfter (b : Board) (m : Move) : Board :=
  match b m.from with
  | none => b
  | some (turn, pc) =>
    let b1 := upd (upd b m.from none) m.to (some (turn, movedPiece m pc))
    match m.ty with
    | .enPassant => upd b1 m.enPassantCapture none
    | .kingSideCastle | .queenSideCastle =>
      upd (upd b1 m.castlingRookMove.1 none) m.castlingRookMove.2 (some (turn, .rook))
    | _ => b1

/-- `Position.move` without the two legality tests (castling through check, own king in check). -/
def moveRaw (p : Position) (turn : Color) (pc : Piece) (m : Move) : Position :=
  let ret := p.xor m.from turn pc
  let ret := if m.isCapture then ret.xor m.to turn.opp m.capture else ret
  let ret := ret.xor m.to turn (movedPiece m pc)
  let ret := match m.ty with
    | .enPassant => ret.xor m.enPassantCapture turn.opp .pawn
    | .kingSideCastle | .queenSideCastle =>
      (ret.xor m.castlingRookMove.1 turn .rook).xor m.castlingRookMove.2 turn .rook
    | _ => ret
  { ret with enpassant := m.enPassantTarget, castling := andNot ret.castling m.castlingRightsLost }

/-- Whenever `move` succeeds, its result is `moveRaw`. -/
theorem move_eq_some {p p' : Position} {m : Move} {turn : Color} {pc : Piece}
    (hsq : p.square m.from = some (turn, pc)) (hm : p.move m = some p') :
    p' = moveRaw p turn pc m := by
  unfold Position.move at hm
  rw [hsq] at hm
  simp only at hm
  unfold moveRaw movedPiece
  cases hty : m.ty <;> simp only [hty] at hm ⊢ <;>
    (repeat' (split at hm)) <;> simp_all

theorem upd_upd_same (b : Board) (s : Nat) (v1 v2) : upd (upd b s v1) s v2 = upd b s v2 := by
  funext x; simp only [upd]; split <;> rfl

/-- `Rep` does not look at the castling rights or the en-passant target. -/
theorem Rep.with_meta {p : Position} {b : Board} (h : Rep p b) (e c : Nat) :
    Rep { p with enpassant := e, castling := c } b := by
  have hp : ∀ c' k, ({ p with enpassant := e, castling := c } : Position).pieces c' k = p.pieces c' k := by
    intro c' k; cases c' <;> rfl
  exact
  { rot := h.rot, all := by simpa only [hp] using h.all, one := by simpa only [hp] using h.one,
    wf := h.wf, out := h.out, piecesLt := by simpa only [hp] using h.piecesLt,
    rotLt := h.rotLt, rot90Lt := h.rot90Lt, rot45LLt := h.rot45LLt, rot45RLt := h.rot45RLt,
    r90 := h.r90, r45L := h.r45L, r45R := h.r45R }

theorem castlingRookMove_cases (m : Move) :
    (m.from = E1 ∧ (m.castlingRookMove = (H1, F1) ∨ m.castlingRookMove = (A1, D1))) ∨
    (m.from = E8 ∧ (m.castlingRookMove = (H8, F8) ∨ m.castlingRookMove = (A8, D8))) ∨
    m.castlingRookMove = (0, 0) := by
  unfold Move.castlingRookMove
  split
  · rename_i h; simp at h; exact Or.inl ⟨h.2, Or.inl rfl⟩
  · split
    · rename_i h; simp at h; exact Or.inl ⟨h.2, Or.inr rfl⟩
    · split
      · rename_i h; simp at h; exact Or.inr (Or.inl ⟨h.2, Or.inl rfl⟩)
      · split
        · rename_i h; simp at h; exact Or.inr (Or.inl ⟨h.2, Or.inr rfl⟩)
        · exact Or.inr (Or.inr rfl)

theorem castlingRookMove_facts (m : Move) (hne : m.castlingRookMove.1 ≠ m.castlingRookMove.2) :
    m.castlingRookMove.1 ≠ m.from ∧ m.castlingRookMove.2 ≠ m.from ∧
    m.castlingRookMove.1 < 64 ∧ m.castlingRookMove.2 < 64 := by
  rcases castlingRookMove_cases m with ⟨h1, h2 | h2⟩ | ⟨h1, h2 | h2⟩ | h2 <;>
    simp_all [E1, H1, F1, A1, D1, E8, H8, F8, A8, D8]

theorem Color.opp_ne (c : Color) : c.opp ≠ c := by cases c <;> simp [Color.opp]

/-- Steps (1)–(3) of `move`: lift the piece, remove a captured piece, put the piece down. -/
theorem rep_steps123 {p : Position} {b : Board} (h : Rep p b) {fr to : Nat} {turn : Color}
    {pc mp cap : Piece} (hsq : b fr = some (turn, pc)) (hto : to < 64) (hmp : mp ≠ .none)
    (isCap : Bool)
    (hdest : (isCap = true ∧ b to = some (turn.opp, cap)) ∨ (isCap = false ∧ b to = none)) :
    Rep ((if isCap then (p.xor fr turn pc).xor to turn.opp cap else p.xor fr turn pc).xor to turn mp)
      (upd (upd b fr none) to (some (turn, mp))) := by
  have h1 := h.xor_remove hsq
  rcases hdest with ⟨hc, hb⟩ | ⟨hc, hb⟩
  · subst hc
    have hne : to ≠ fr := by
      intro e; rw [e, hsq] at hb
      have := (Prod.mk.inj (Option.some.inj hb)).1
      exact Color.opp_ne turn this.symm
    have h2 := h1.xor_remove (show upd b fr none to = some (turn.opp, cap) by rw [upd_other _ _ hne, hb])
    have h3 := h2.xor_place hto turn hmp (upd_same ..)
    simpa only [if_true, upd_upd_same] using h3
  · subst hc
    have he : upd b fr none to = none := by
      by_cases e : to = fr
      · rw [e, upd_same]
      · rw [upd_other _ _ e, hb]
    have h3 := h1.xor_place hto turn hmp he
    simpa using h3

theorem promoOK_ne {m : Move} (h : promoOK m = true) : m.promotion ≠ .none := by
  unfold promoOK at h; intro e; rw [e] at h; simp at h

/-- The unchecked update `moveRaw` re-establishes `Rep` for the prescribed board. -/
theorem moveRaw_rep {p : Position} {b : Board} {m : Move} {turn : Color} {pc : Piece}
    (h : Rep p b) (hok : MetaOKb b m = true) (hsq : b m.from = some (turn, pc)) :
    Rep (moveRaw p turn pc m) (boardAfter b m) := by
  unfold MetaOKb at hok; rw [hsq] at hok
  simp only [Bool.and_eq_true, beq_iff_eq, decide_eq_true_eq] at hok
  obtain ⟨⟨hpc, hto⟩, hty⟩ := hok
  have hpcne : pc ≠ .none := h.ne_none_of_some hsq
  unfold moveRaw boardAfter; rw [hsq]; simp only
  apply Rep.with_meta
  cases ety : m.ty <;> rw [ety] at hty <;>
    simp only [Bool.and_eq_true, beq_iff_eq, bne_iff_ne, ne_eq] at hty <;>
    simp only [Move.isCapture, movedPiece, Move.isPromotion, ety, reduceCtorEq, decide_false,
      decide_true, Bool.or_false, Bool.or_true, Bool.false_eq_true, if_false, if_true]
  case invalid => exact rep_steps123 (cap := .none) h hsq hto hpcne false (Or.inr ⟨rfl, hty⟩)
  case normal => exact rep_steps123 (cap := .none) h hsq hto hpcne false (Or.inr ⟨rfl, hty⟩)
  case push => exact rep_steps123 (cap := .none) h hsq hto hpcne false (Or.inr ⟨rfl, hty⟩)
  case jump => exact rep_steps123 (cap := .none) h hsq hto hpcne false (Or.inr ⟨rfl, hty⟩)
  case capture => exact rep_steps123 h hsq hto hpcne true (Or.inl ⟨rfl, hty⟩)
  case promotion => exact rep_steps123 (cap := .none) h hsq hto (promoOK_ne hty.2) false (Or.inr ⟨rfl, hty.1⟩)
  case capturePromotion => exact rep_steps123 h hsq hto (promoOK_ne hty.2) true (Or.inl ⟨rfl, hty.1⟩)
  case enPassant =>
    have h3 := rep_steps123 (cap := .none) h hsq hto hpcne false (Or.inr ⟨rfl, hty.1⟩)
    have hne1 : m.enPassantCapture ≠ m.to := by
      intro e; rw [e, hty.1] at hty; cases hty.2
    have hne2 : m.enPassantCapture ≠ m.from := by
      intro e; rw [e, hsq] at hty
      exact Color.opp_ne turn (Prod.mk.inj (Option.some.inj hty.2)).1.symm
    exact h3.xor_remove (by rw [upd_other _ _ hne1, upd_other _ _ hne2, hty.2])
  all_goals
    obtain ⟨⟨⟨hto0, hrf⟩, hrt⟩, hne⟩ := hty
    have h3 := rep_steps123 (cap := .none) h hsq hto hpcne false (Or.inr ⟨rfl, hto0⟩)
    have hrr : m.castlingRookMove.1 ≠ m.castlingRookMove.2 := by
      intro e; rw [e, hrt] at hrf; cases hrf
    obtain ⟨f1, f2, f3, f4⟩ := castlingRookMove_facts m hrr
    have hne1 : m.castlingRookMove.1 ≠ m.to := by
      intro e; rw [e, hto0] at hrf; cases hrf
    have h4 := h3.xor_remove (c := turn) (k := .rook)
      (by rw [upd_other _ _ hne1, upd_other _ _ f1, hrf])
    refine h4.xor_place f4 turn (by simp) ?_
    rw [upd_other _ _ (Ne.symm hrr), upd_other _ _ hne, upd_other _ _ f2, hrt]

theorem Rep.metaOK_iff {p : Position} {b : Board} (h : Rep p b) (m : Move) :
    MetaOK p m = MetaOKb b m := by unfold MetaOK; rw [← h.board_eq]

@[simp] theorem moveRaw_castling (p : Position) (turn : Color) (pc : Piece) (m : Move) :
    (moveRaw p turn pc m).castling = andNot p.castling m.castlingRightsLost := by
  unfold moveRaw
  cases m.ty <;> simp <;> split <;> simp

@[simp] theorem moveRaw_enpassant (p : Position) (turn : Color) (pc : Piece) (m : Move) :
    (moveRaw p turn pc m).enpassant = m.enPassantTarget := rfl

/-- `move` re-establishes `Rep` for the prescribed board, and sets the two status fields. -/
theorem move_rep {p p' : Position} {b : Board} {m : Move} (h : Rep p b) (hok : MetaOK p m = true)
    (hm : p.move m = some p') :
    Rep p' (boardAfter b m) ∧ p'.castling = andNot p.castling m.castlingRightsLost ∧
      p'.enpassant = m.enPassantTarget := by
  rw [h.metaOK_iff] at hok
  cases hsq : b m.from with
  | none => unfold MetaOKb at hok; rw [hsq] at hok; cases hok
  | some x =>
    obtain ⟨turn, pc⟩ := x
    have := move_eq_some (by rw [h.square_eq]; exact hsq) hm
    subst this
    exact ⟨moveRaw_rep h hok hsq, by simp, by simp⟩

theorem testBit_andNot (x y i : Nat) : (andNot x y).testBit i = (x.testBit i && !y.testBit i) := by
  unfold andNot; rw [Nat.testBit_xor, Nat.testBit_and]; cases x.testBit i <;> cases y.testBit i <;> rfl

/-- Does the move touch square `sq` (leave it or land on it)? -/
def touches (m : Move) (sq : Nat) : Bool := decide (m.from = sq) || decide (m.to = sq)

theorem ite_testBit (c : Prop) [Decidable c] (v i : Nat) :
    (if c then v else 0).testBit i = (decide c && v.testBit i) := by
  by_cases h : c <;> simp [h]

theorem lost_testBit (m : Move) (i : Nat) :
    m.castlingRightsLost.testBit i =
      ((decide (m.from = E1) && (wK.testBit i || wQ.testBit i)) ||
       ((decide (m.from = A1) || decide (m.to = A1)) && wQ.testBit i) ||
       ((decide (m.from = H1) || decide (m.to = H1)) && wK.testBit i) ||
       (decide (m.from = E8) && (bK.testBit i || bQ.testBit i)) ||
       ((decide (m.from = A8) || decide (m.to = A8)) && bQ.testBit i) ||
       ((decide (m.from = H8) || decide (m.to = H8)) && bK.testBit i)) := by
  unfold Move.castlingRightsLost
  simp only [Nat.testBit_or, ite_testBit, Bool.or_eq_true, Bool.decide_or, decide_eq_true_eq]

theorem right_wK (c : Nat) (m : Move) :
    ((andNot c m.castlingRightsLost &&& wK) != 0) =
      (((c &&& wK) != 0) && !decide (m.from = E1) && !(touches m H1)) := by
  have e : wK = 2 ^ 0 := rfl
  rw [e, and_two_pow_ne_zero, and_two_pow_ne_zero, testBit_andNot, lost_testBit]
  have : wK.testBit 0 = true ∧ wQ.testBit 0 = false ∧ bK.testBit 0 = false ∧ bQ.testBit 0 = false := by decide
  simp only [this, touches]
  cases c.testBit 0 <;> simp

theorem right_wQ (c : Nat) (m : Move) :
    ((andNot c m.castlingRightsLost &&& wQ) != 0) =
      (((c &&& wQ) != 0) && !decide (m.from = E1) && !(touches m A1)) := by
  have e : wQ = 2 ^ 1 := rfl
  rw [e, and_two_pow_ne_zero, and_two_pow_ne_zero, testBit_andNot, lost_testBit]
  have : wK.testBit 1 = false ∧ wQ.testBit 1 = true ∧ bK.testBit 1 = false ∧ bQ.testBit 1 = false := by decide
  simp only [this, touches]
  cases c.testBit 1 <;> simp

theorem right_bK (c : Nat) (m : Move) :
    ((andNot c m.castlingRightsLost &&& bK) != 0) =
      (((c &&& bK) != 0) && !decide (m.from = E8) && !(touches m H8)) := by
  have e : bK = 2 ^ 2 := rfl
  rw [e, and_two_pow_ne_zero, and_two_pow_ne_zero, testBit_andNot, lost_testBit]
  have : wK.testBit 2 = false ∧ wQ.testBit 2 = false ∧ bK.testBit 2 = true ∧ bQ.testBit 2 = false := by decide
  simp only [this, touches]
  cases c.testBit 2 <;> simp

theorem right_bQ (c : Nat) (m : Move) :
    ((andNot c m.castlingRightsLost &&& bQ) != 0) =
      (((c &&& bQ) != 0) && !decide (m.from = E8) && !(touches m A8)) := by
  have e : bQ = 2 ^ 3 := rfl
  rw [e, and_two_pow_ne_zero, and_two_pow_ne_zero, testBit_andNot, lost_testBit]
  have : wK.testBit 3 = false ∧ wQ.testBit 3 = false ∧ bK.testBit 3 = false ∧ bQ.testBit 3 = true := by decide
  simp only [this, touches]
  cases c.testBit 3 <;> simp

/-- Rights outside the four defined bits are never touched. -/
theorem right_other (c : Nat) (m : Move) (i : Nat) (hi : 4 ≤ i) :
    (andNot c m.castlingRightsLost).testBit i = c.testBit i := by
  rw [testBit_andNot, lost_testBit]
  have h : ∀ n, n < 16 → n.testBit i = false := fun n hn =>
    Nat.testBit_lt_two_pow (Nat.lt_of_lt_of_le hn (Nat.pow_le_pow_right (by decide : 2 > 0) hi))
  simp [h wK (by decide), h wQ (by decide), h bK (by decide), h bQ (by decide)]

/-- `Reach p q`: `q` is obtained from `p` by a sequence of successful `move`s whose metadata is
    accurate at the time they are played. -/
inductive Reach : Position → Position → Prop
  | refl (p : Position) : Reach p p
  | step {p q r : Position} {m : Move} : Reach p q → MetaOK q m = true → q.move m = some r → Reach p r

theorem Rep.self {p : Position} {b : Board} (h : Rep p b) : Rep p p.square := h.board_eq ▸ h

theorem reach_rep {p q : Position} {b : Board} (h : Rep p b) (hr : Reach p q) : Rep q q.square := by
  induction hr with
  | refl => exact h.self
  | step _ hok hm ih => exact (move_rep ih hok hm).1.self

/-- Play a list of moves, insisting on accurate metadata at every step. -/
def playAll (p : Position) : List Move → Option Position
  | [] => some p
  | m :: ms => if MetaOK p m then (p.move m).bind (fun q => playAll q ms) else none

theorem playAll_reach {ms : List Move} : ∀ {p q : Position}, playAll p ms = some q → Reach p q := by
  induction ms with
  | nil => intro p q h; simp [playAll] at h; subst h; exact Reach.refl p
  | cons m ms ih =>
    intro p q h
    simp only [playAll] at h
    split at h
    · rename_i hok
      cases hm : p.move m with
      | none => rw [hm] at h; cases h
      | some r =>
        rw [hm] at h
        have hr : Reach r q := ih h
        have h1 : Reach p r := Reach.step (Reach.refl p) hok hm
        clear h ih
        induction hr with
        | refl => exact h1
        | step _ hok' hm' ih' => exact Reach.step ih' hok' hm'
    · cases h

theorem and7 (x : Nat) : x &&& 7 = x % 8 := Nat.and_two_pow_sub_one_eq_mod x 3

theorem newSquare_eq (f r : Nat) : newSquare f r = 8 * (r % 8) + f % 8 := by
  unfold newSquare
  rw [and7, and7, ← Nat.shiftLeft_add_eq_or_of_lt (by omega : f % 8 < 2 ^ 3), Nat.shiftLeft_eq]
  omega

theorem sqRank_eq (sq : Nat) : sqRank sq = sq / 8 % 8 := by
  unfold sqRank; rw [and7, Nat.shiftRight_eq_div_pow]

theorem sqFile_eq (sq : Nat) : sqFile sq = sq % 8 := and7 sq

/-- A double step's en-passant target is the skipped square. -/
theorem enPassantTarget_skipped (m : Move) (hty : m.ty = .jump) (hto : m.to < 64)
    (hg : (m.to = m.from + 16 ∧ sqRank m.to = 3) ∨ (m.from = m.to + 16 ∧ sqRank m.to = 4)) :
    m.enPassantTarget = (m.from + m.to) / 2 := by
  unfold Move.enPassantTarget
  simp only [hty, bne_self_eq_false, Bool.false_eq_true, if_false]
  simp only [newSquare_eq, sqRank_eq, sqFile_eq] at hg ⊢
  split <;> omega

/-- Square-by-square description of the prescribed board `boardAfter b m`. -/
theorem boardAfter_spec {b : Board} {m : Move} {turn : Color} {pc : Piece}
    (hok : MetaOKb b m = true) (hsq : b m.from = some (turn, pc)) :
    boardAfter b m m.from = none ∧
    boardAfter b m m.to = some (turn, movedPiece m pc) ∧
    (m.ty = .enPassant → boardAfter b m m.enPassantCapture = none) ∧
    (m.isCastle = true → boardAfter b m m.castlingRookMove.1 = none ∧
      boardAfter b m m.castlingRookMove.2 = some (turn, Piece.rook)) ∧
    (∀ sq, sq ≠ m.from → sq ≠ m.to → (m.ty = .enPassant → sq ≠ m.enPassantCapture) →
      (m.isCastle = true → sq ≠ m.castlingRookMove.1 ∧ sq ≠ m.castlingRookMove.2) →
      boardAfter b m sq = b sq) := by
  unfold MetaOKb at hok; rw [hsq] at hok
  simp only [Bool.and_eq_true, beq_iff_eq, decide_eq_true_eq] at hok
  obtain ⟨⟨hpc, hto⟩, hty⟩ := hok
  have hft : ∀ (c' : Color) (k' : Piece), b m.to = none ∨ b m.to = some (turn.opp, k') → m.from ≠ m.to := by
    intro c' k' hh e; rw [← e, hsq] at hh
    rcases hh with hh | hh
    · cases hh
    · exact Color.opp_ne turn (Prod.mk.inj (Option.some.inj hh)).1.symm
  unfold boardAfter; rw [hsq]; simp only
  cases ety : m.ty <;> rw [ety] at hty <;>
    simp only [Bool.and_eq_true, beq_iff_eq, bne_iff_ne, ne_eq] at hty <;>
    simp only [Move.isCastle, ety, reduceCtorEq, decide_false, decide_true, Bool.or_false,
      Bool.or_true, Bool.false_eq_true, false_imp_iff, true_imp_iff, true_and, upd_same]
  case capture =>
    have h1 := hft turn m.capture (Or.inr hty)
    exact ⟨by rw [upd_other _ _ h1, upd_same], fun sq a b => by rw [upd_other _ _ b, upd_other _ _ a]⟩
  case capturePromotion =>
    have h1 := hft turn m.capture (Or.inr hty.1)
    exact ⟨by rw [upd_other _ _ h1, upd_same], fun sq a b => by rw [upd_other _ _ b, upd_other _ _ a]⟩
  case enPassant =>
    have h1 := hft turn .none (Or.inl hty.1)
    have hne1 : m.enPassantCapture ≠ m.to := by
      intro e; rw [e, hty.1] at hty; cases hty.2
    have hne2 : m.enPassantCapture ≠ m.from := by
      intro e; rw [e, hsq] at hty
      exact Color.opp_ne turn (Prod.mk.inj (Option.some.inj hty.2)).1.symm
    refine ⟨by rw [upd_other _ _ (Ne.symm hne2), upd_other _ _ h1, upd_same],
      by rw [upd_other _ _ (Ne.symm hne1), upd_same], ?_⟩
    intro sq a b c
    rw [upd_other _ _ c, upd_other _ _ b, upd_other _ _ a]
  case kingSideCastle | queenSideCastle =>
    obtain ⟨⟨⟨hto0, hrf⟩, hrt⟩, hne⟩ := hty
    have h1 := hft turn .none (Or.inl hto0)
    have hrr : m.castlingRookMove.1 ≠ m.castlingRookMove.2 := by
      intro e; rw [e, hrt] at hrf; cases hrf
    obtain ⟨f1, f2, f3, f4⟩ := castlingRookMove_facts m hrr
    have hne1 : m.castlingRookMove.1 ≠ m.to := by
      intro e; rw [e, hto0] at hrf; cases hrf
    refine ⟨?_, ?_, ?_, ?_⟩
    · rw [upd_other _ _ (Ne.symm f2), upd_other _ _ (Ne.symm f1), upd_other _ _ h1, upd_same]
    · rw [upd_other _ _ (Ne.symm hne), upd_other _ _ (Ne.symm hne1), upd_same]
    · refine ⟨?_, trivial⟩; rw [upd_other _ _ hrr, upd_same]
    · intro sq a b c
      rw [upd_other _ _ c.2, upd_other _ _ c.1, upd_other _ _ b, upd_other _ _ a]
  all_goals
    first
    | (have h1 := hft turn .none (Or.inl hty)
       exact ⟨by rw [upd_other _ _ h1, upd_same], fun sq a b => by rw [upd_other _ _ b, upd_other _ _ a]⟩)
    | (have h1 := hft turn .none (Or.inl hty.1)
       exact ⟨by rw [upd_other _ _ h1, upd_same], fun sq a b => by rw [upd_other _ _ b, upd_other _ _ a]⟩)

end Morlock.Proofs
