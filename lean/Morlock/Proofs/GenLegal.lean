import Morlock.Proofs.GenSpecNodup
import Morlock.Proofs.GenQueries
/-!
# Stage G of C01: `Position.Move` accepts exactly the legal moves; the legal lists agree
-/
namespace Morlock.Proofs.Gen
open Morlock Morlock.Model Morlock.Proofs.Attack

/-- When does `Position.Move` accept a move: the castling-through-check test passes and the mover's
    king is not attacked in the updated position `moveRaw`. -/
theorem move_isSome_eq {p : Position} {m : Move} {turn : Color} {pc : Piece}
    (hsq : p.square m.from = some (turn, pc)) :
    (p.move m).isSome =
      (!(m.isCastle && (Position.safeCastlingSquares turn m.ty).any (fun sq => p.isAttacked turn sq)) &&
       !(moveRaw p turn pc m).isChecked turn) := by
  unfold Position.move
  rw [hsq]
  simp only
  unfold moveRaw movedPiece
  cases hty : m.ty <;> simp only [Move.isCastle, Move.isCapture, Move.isPromotion, hty, reduceCtorEq,
    decide_false, decide_true, Bool.or_false, Bool.or_true, Bool.false_and, Bool.true_and, Bool.not_false,
    Bool.false_eq_true, if_false, if_true, Bool.or_self] <;>
    (repeat' split) <;> simp_all
  all_goals
    intro hall
    rename_i heq
    obtain ⟨x, hx1, hx2⟩ := heq
    rw [hall x hx1] at hx2; cases hx2

/-- `inCheck` looks at the board only. -/
theorem inCheck_congr {s1 s2 : Spec.Pos} (h : s1.board = s2.board) (c : Spec.Color) :
    Spec.inCheck s1 c = Spec.inCheck s2 c := by
  unfold Spec.inCheck Spec.kingSquare? Spec.attackedBy Spec.Pos.occ Spec.Pos.at
  rw [h]

/-- The board of the reference successor is the abstraction of the prescribed board `boardAfter`
    (the board half of C02 `move_refines_spec`, without its `LandOK` hypothesis). -/
theorem apply_board {p : Position} {b : Board} {m : Move} {turn : Color} {pc : Piece}
    (h : Rep p b) (hok : MetaOKb b m = true) (hsqb : b m.from = some (turn, pc))
    (hcl : ClassOK (abs p turn) m = true) :
    (Spec.apply (abs p turn) (absMove m)).board = absBoard (boardAfter b m) := by
  have hpcne : pc ≠ .none := h.ne_none_of_some hsqb
  have hat : (abs p turn).at m.from = some (absColor turn, kindOf pc) := by
    rw [h.abs_at, hsqb, absCellB_some _ hpcne]
  unfold ClassOK at hcl
  simp only [Bool.and_eq_true, beq_iff_eq, Bool.or_eq_true, bne_iff_ne, ne_eq,
    Bool.not_eq_eq_eq_not, Bool.not_true] at hcl
  obtain ⟨⟨⟨⟨⟨⟨hE, hC⟩, hD⟩, hP⟩, hEsq⟩, hDsq⟩, hCsq⟩ := hcl
  have hbp : (abs p turn).board = absBoard b := by rw [abs_board, ← h.board_eq]
  unfold Spec.apply
  simp only [absMove] at hat hE hC hD ⊢
  rw [hat]
  simp only [hE, hC, hbp]
  have hcell := cell_moved m turn hpcne hP
  cases hk : absKind m.promotion <;> rw [hk] at hcell <;>
    simp only [Option.getD_none, Option.getD_some] at hcell ⊢
  all_goals (
    unfold MetaOKb at hok; rw [hsqb] at hok
    simp only [Bool.and_eq_true, beq_iff_eq, decide_eq_true_eq] at hok
    obtain ⟨⟨hpc, hto⟩, hty⟩ := hok
    unfold boardAfter; rw [hsqb]; simp only
    rw [← hcell]
    cases ety : m.ty <;> rw [ety] at hty <;>
      simp only [Bool.and_eq_true, beq_iff_eq, bne_iff_ne, ne_eq] at hty <;>
      simp only [Move.isCastle, ety, reduceCtorEq, decide_false, decide_true, Bool.or_false,
        Bool.or_true, Bool.false_eq_true, if_false, if_true, beq_iff_eq, not_true_eq_false,
        false_or] at hEsq hCsq ⊢
    case enPassant =>
      have hne1 : m.enPassantCapture ≠ m.to := by
        intro e; rw [e, hty.1] at hty; cases hty.2
      have hne2 : m.enPassantCapture ≠ m.from := by
        intro e; rw [e, hsqb] at hty
        exact Color.opp_ne turn (Prod.mk.inj (Option.some.inj hty.2)).1.symm
      rw [← hEsq, upd_swap2 _ _ _ _ hne2 hne1, absBoard_upd, absBoard_upd, absBoard_upd]
      rfl
    case kingSideCastle | queenSideCastle =>
      obtain ⟨⟨⟨hto0, hrf⟩, hrt⟩, hne⟩ := hty
      have hrr : m.castlingRookMove.1 ≠ m.castlingRookMove.2 := by
        intro e; rw [e, hrt] at hrf; cases hrf
      obtain ⟨f1, f2, f3, f4⟩ := castlingRookMove_facts m hrr
      have hne1 : m.castlingRookMove.1 ≠ m.to := by
        intro e; rw [e, hto0] at hrf; cases hrf
      rw [upd_swap2 _ _ _ _ f1 hne1, upd_swap2 _ _ _ _ f2 hne]
      simp only [absBoard_upd]
      split <;> rename_i hf <;> simp only [hf, if_true, if_false] at hCsq <;> rw [hCsq] <;> rfl
    all_goals (rw [absBoard_upd, absBoard_upd]; rfl))

/-- The check test after the move, against the reference. -/
theorem moveRaw_isChecked {p : Position} {b : Board} {m : Move} {turn : Color} {pc : Piece}
    (h : Rep p b) (hok : MetaOKb b m = true) (hsqb : b m.from = some (turn, pc))
    (hcl : ClassOK (abs p turn) m = true) :
    (moveRaw p turn pc m).isChecked turn =
      Spec.inCheck (Spec.apply (abs p turn) (absMove m)) (absColor turn) := by
  have hrep := moveRaw_rep h hok hsqb
  rw [isChecked_eq hrep turn turn]
  apply inCheck_congr
  rw [apply_board h hok hsqb hcl, abs_board, ← hrep.board_eq]

/-- The castling-through-check test, against the reference. -/
theorem castle_safe_eq {p : Position} {b : Board} (h : Rep p b) {turn : Color}
    (hw : WFb b p.castling p.enpassant turn) {m : Move} (hm : CastleMove b p.castling turn m)
    (hfr : m.from = kingHomeSq turn) :
    (Position.safeCastlingSquares turn m.ty).any (fun sq => p.isAttacked turn sq) =
      (Spec.inCheck (abs p turn) (absColor turn) ||
       Spec.attackedBy (abs p turn) (absColor turn).opp
         (Spec.mkSq ((Spec.fileOf (absMove m).from + Spec.fileOf (absMove m).to) / 2)
           (Spec.rankOf (absMove m).from))) := by
  have hk := hm.kingHome hw
  have hk0 : p.pieces turn .king ≠ 0 := fun h0 => (king_zero_iff h turn).mp h0 _ hk
  have hksq : lastPopSquare (p.pieces turn .king) = kingHomeSq turn :=
    hw.king_unique _ _ _ (kingSquare_spec h turn hk0).1 hk
  have hchk : Spec.inCheck (abs p turn) (absColor turn) = p.isAttacked turn (kingHomeSq turn) := by
    rw [← isChecked_eq h turn turn]
    unfold Position.isChecked
    have h64 := h.lt_of_some hk
    simp only [hksq]
    rw [if_pos (by rw [bne_iff_ne]; omega)]
  rw [hchk, ← absColor_opp]
  obtain ⟨cs, hcs, hr, hempty, hrook, hty, hpc, hto, hpr, hcap⟩ := hm
  cases turn
  all_goals
    simp only [castleParams, List.mem_cons, List.not_mem_nil, or_false] at hcs
    rcases hcs with rfl | rfl
    all_goals
      simp only at hty hto
      simp only [kingHomeSq] at hfr
      rw [← isAttacked_eq h _ _ (by simp only [absMove, hfr, hto]; decide)]
      simp only [hty, Position.safeCastlingSquares, absMove, hfr, hto, kingHomeSq, List.any_cons,
        List.any_nil, Bool.or_false]
      rfl

/-- **Stage G `move_isSome_iff_legal`** (Boolean form, on the mailbox board). -/
theorem move_isSome_eq_legal {p : Position} {b : Board} (h : Rep p b) {turn : Color}
    (hw : WFb b p.castling p.enpassant turn) {m : Move}
    (hm : PseudoMove b p.castling p.enpassant turn m) :
    (p.move m).isSome = Spec.isLegal (abs p turn) (absMove m) := by
  obtain ⟨hok, hcl⟩ := hm.metaOK_classOK h hw
  rw [h.metaOK_iff] at hok
  obtain ⟨hsqb, _, _⟩ := hm.features hw
  have hsq : p.square m.from = some (turn, m.piece) := by rw [h.square_eq]; exact hsqb
  rw [move_isSome_eq hsq, moveRaw_isChecked h hok hsqb hcl]
  have hC : Spec.isCastle (abs p turn) (absMove m) = m.isCastle := by
    unfold ClassOK at hcl
    simp only [Bool.and_eq_true, beq_iff_eq] at hcl
    exact hcl.1.1.1.1.1.2
  unfold Spec.isLegal
  simp only [hC]
  have hturn : (abs p turn).turn = absColor turn := rfl
  rw [hturn]
  by_cases hcas : m.isCastle = true
  · have hcm : m.from = kingHomeSq turn ∧ CastleMove b p.castling turn m := by
      rcases hm with ⟨pc, _, hs⟩ | hp | hs | hc
      · rcases hs.2.2.2.2 with ⟨_, hty, _⟩ | ⟨_, _, hty, _⟩ <;> simp [Move.isCastle, hty] at hcas
      · rcases hp.2.2 with ⟨_, _, _, ⟨_, hty, _⟩ | ⟨_, hty, _⟩⟩ | ⟨_, _, _, _, _, _, hty, _⟩ |
          ⟨_, _, _, _, ⟨_, hty, _⟩ | ⟨_, hty, _⟩⟩ | ⟨_, _, _, _, hty, _⟩ <;>
          simp [Move.isCastle, hty] at hcas
      · rcases hs.2.2.2.2 with ⟨_, hty, _⟩ | ⟨_, _, hty, _⟩ <;> simp [Move.isCastle, hty] at hcas
      · exact hc
    rw [castle_safe_eq h hw hcm.2 hcm.1, hcas]
    simp only [Bool.true_and, if_true, Bool.not_or]
  · have : m.isCastle = false := by simpa using hcas
    rw [this]
    simp

/-- The generated pseudo-legal moves are a permutation of the reference ones. -/
theorem pseudo_perm_aux {p : Position} {b : Board} (h : Rep p b) {turn : Color}
    (hw : WFb b p.castling p.enpassant turn) :
    ((p.pseudoLegalMoves turn).map absMove).Perm (Spec.pseudoMoves (abs p turn)) := by
  rw [List.perm_ext_iff_of_nodup (pseudo_nodup_aux h hw) (pseudoMoves_nodup _)]
  intro sm
  rw [List.mem_map]
  exact pseudo_iff_aux h hw sm

/-- **Stage G `legal_perm`** on the mailbox board. -/
theorem legal_perm_aux {p : Position} {b : Board} (h : Rep p b) {turn : Color}
    (hw : WFb b p.castling p.enpassant turn) :
    ((p.legalMoves turn).map absMove).Perm (Spec.legalMoves (abs p turn)) := by
  unfold Position.legalMoves Spec.legalMoves
  have hp := (pseudo_perm_aux h hw).filter (Spec.isLegal (abs p turn))
  rw [List.filter_map] at hp
  have hf : (p.pseudoLegalMoves turn).filter (Spec.isLegal (abs p turn) ∘ absMove) =
      (p.pseudoLegalMoves turn).filter (fun m => (p.move m).isSome) := by
    apply List.filter_congr
    intro m hm
    exact (move_isSome_eq_legal h hw ((mem_pseudoLegalMoves h hw m).mp hm)).symm
  rw [hf] at hp
  exact hp

end Morlock.Proofs.Gen
