import Morlock.Proofs.TurochampMaterial
import Morlock.Proofs.TurochampBound
/-!
# TUROCHAMP: `Material.Evaluate`, `PositionPlay`, `Eval.Evaluate` return finite values, with explicit bounds

Every divisor is shown to be non-zero, every square root is taken of a small natural number (checked by evaluation),
every exact intermediate value is bounded; `FltFacts` then turns the bound of the exact value into finiteness and
the same bound for the rounded value.
-/
namespace Morlock.Proofs.Turochamp
open Morlock Morlock.Model Morlock.Model.Flt Morlock.Model.Turochamp

attribute [local irreducible] Flt.rnd Flt.sqrt Flt.rndPos Q.norm

/-! ## `Material.Evaluate` -/

theorem half_bd {k B : Nat} (h : k ≤ 2 * B) : Bd (half k) B := by
  refine ⟨half_den_pos k, ?_⟩
  have hv := half_value k
  have hd := half_den_pos k
  have hn : 0 ≤ (half k).num := by
    unfold half; split <;> simp only [] <;> omega
  have h1 : k * (half k).den ≤ 2 * B * (half k).den := Nat.mul_le_mul_right _ h
  have h2 : ((k * (half k).den : Nat) : Int) = (k : Int) * ((half k).den : Int) := Int.natCast_mul _ _
  have h3 : (2 * B * (half k).den : Nat) = 2 * (B * (half k).den) := Nat.mul_assoc _ _ _
  omega

theorem half_num_pos {k : Nat} (h : 1 ≤ k) : 0 < (half k).num := by
  unfold half; split <;> simp only [] <;> omega

theorem half_den_le {k : Nat} (h : 1 ≤ k) : (half k).den ≤ 2 * (half k).num.toNat := by
  unfold half; split <;> simp only [] <;> omega

theorem div_half (F : FltFacts) {b : Nat} (hb : 1 ≤ b) (x : Q) (hx : Bd x 1440) :
    ∃ v, div f32 x (half b) = some v ∧ Bd v 2880 := by
  unfold div
  have hnp := half_num_pos hb
  have hne : ((half b).num == 0) = false := by
    simp only [beq_eq_false_iff_ne]; omega
  rw [hne]
  have hbd : Bd (Q.div x (half b)) (1440 * 2) := hx.div hnp (half_den_le hb)
  have h24 : (2880 : Nat) ≤ 2 ^ 24 := by decide
  obtain ⟨v, hv, hb⟩ := F.abs_le32 _ 2880 h24 hbd
  refine ⟨v, ?_, hb⟩
  rw [if_neg (by decide)]
  exact hv

/-- **`Material.Evaluate` is finite and bounded**, for every position: the divisor is at least half a pawn. -/
theorem materialEvaluate_total (F : FltFacts) (pos : Position) (turn : Color) :
    ∃ v, materialEvaluate pos turn = some v ∧ Bd v 2880 := by
  unfold materialEvaluate
  rw [material_eq, material_eq, Option.bind_some, Option.bind_some]
  have ha := mat2_le pos turn
  have hb := mat2_le pos turn.opp
  have ha1 := mat2_pos pos turn
  have hb1 := mat2_pos pos turn.opp
  split
  · exact ⟨q0, rfl, bd_q0.mono (by omega)⟩
  · split
    · exact div_half F hb1 _ (half_bd (by omega))
    · exact div_half F ha1 _ (half_bd (by omega)).neg

/-! ## the square-root terms -/

def sqrtOk (n : Nat) : Bool :=
  match sqrtTerm n with
  | some t => decide (0 < t.den) && decide (t.num.natAbs ≤ 12 * t.den)
  | none => false

theorem sqrtTerm_check : allBelow 129 sqrtOk = true := by decide +kernel

/-- for `n ≤ 128`: `√n` rounded to a tenth is finite and at most 12 -/
theorem sqrtTerm_bd {n : Nat} (h : n ≤ 128) : ∃ t, sqrtTerm n = some t ∧ Bd t 12 := by
  have := allBelow_spec sqrtTerm_check n (by omega)
  unfold sqrtOk at this
  cases hs : sqrtTerm n with
  | none => rw [hs] at this; cases this
  | some t =>
    rw [hs] at this
    simp only [Bool.and_eq_true, decide_eq_true_eq] at this
    exact ⟨t, rfl, this⟩

def constOk (c : Option Q) : Bool :=
  match c with
  | some t => decide (0 < t.den) && decide (t.num.natAbs ≤ 1 * t.den)
  | none => false

theorem c02_check : constOk c02 = true := by decide +kernel
theorem c03_check : constOk c03 = true := by decide +kernel

theorem const_bd {c : Option Q} (h : constOk c = true) : ∃ t, c = some t ∧ Bd t 1 := by
  unfold constOk at h
  cases c with
  | none => cases h
  | some t =>
    simp only [Bool.and_eq_true, decide_eq_true_eq] at h
    exact ⟨t, rfl, h⟩

/-! ## `PositionPlay` -/

theorem prePlay_total (F : FltFacts) (pos : Position) (castled : Bool) (turn : Color) :
    ∃ s, prePlay pos castled turn = some s ∧ Bd s 5 := by
  unfold prePlay
  obtain ⟨s1, h1, b1⟩ := addIf32 F (pos.castling &&& castlingRights turn != 0)
    bd_q0 bd_q1 (by decide)
  rw [h1, Option.bind_some]
  obtain ⟨s2, h2, b2⟩ := addIf32 F castled b1 bd_q1 (by decide)
  rw [h2, Option.bind_some]
  obtain ⟨s3, h3, b3⟩ := addIf32 F (pos.isChecked turn.opp) b2 bd_qHalf (by decide)
  rw [h3, Option.bind_some]
  obtain ⟨s4, h4, b4⟩ := addIf32 F (mayCheckMate pos turn) b3 bd_q1 (by decide)
  rw [h4, Option.bind_some]
  obtain ⟨s5, h5, b5⟩ := addIf32 F (mayCastle pos turn) b4 bd_q1 (by decide)
  exact ⟨s5, h5, b5⟩

theorem mobSum_total (F : FltFacts) : ∀ (l : List (Nat × Nat)) (score : Q) (A : Nat),
    (∀ e ∈ l, e.2 ≤ 128) → Bd score A → A + 12 * l.length ≤ 2 ^ 24 →
    ∃ s, mobSum l score = some s ∧ Bd s (A + 12 * l.length)
  | [], score, A, _, hs, _ => ⟨score, rfl, hs.mono (by simp)⟩
  | (k, n) :: rest, score, A, hall, hs, hA => by
    have hn : n ≤ 128 := hall (k, n) (List.mem_cons_self ..)
    obtain ⟨t, ht, bt⟩ := sqrtTerm_bd hn
    have hlen : ((k, n) :: rest).length = rest.length + 1 := rfl
    rw [hlen] at hA ⊢
    obtain ⟨s1, h1, b1⟩ := add32 F hs bt (by omega)
    obtain ⟨s, h, b⟩ := mobSum_total F rest s1 (A + 12) (fun e he => hall e (List.mem_cons_of_mem _ he)) b1 (by omega)
    refine ⟨s, ?_, b.mono (by omega)⟩
    unfold mobSum
    rw [ht, Option.bind_some, h1, Option.bind_some]
    exact h

theorem kqrnb_eq : kqrnb = [.king, .queen, .rook, .knight, .bishop] := by decide

theorem officerHits_isSome (pos : Position) (turn : Color) (sq : Nat) {p : Piece} (hp : p ∈ kqrnb) :
    (officerHits pos turn sq p).isSome = true := by
  rw [kqrnb_eq] at hp
  simp only [List.mem_cons, List.not_mem_nil, or_false] at hp
  rcases hp with rfl | rfl | rfl | rfl | rfl <;> simp [officerHits, attackboard]

theorem defendersLoop_isSome (pos : Position) (turn : Color) (sq : Nat) :
    ∀ (l : List Piece) (d : Nat), (∀ p ∈ l, p ∈ kqrnb) → (defendersLoop pos turn sq l d).isSome = true
  | [], _, _ => rfl
  | p :: rest, d, h => by
    obtain ⟨bb, hb⟩ := Option.isSome_iff_exists.mp (officerHits_isSome pos turn sq (h p (List.mem_cons_self ..)))
    unfold defendersLoop
    rw [hb, Option.bind_some]
    exact defendersLoop_isSome pos turn sq rest _ (fun q hq => h q (List.mem_cons_of_mem _ hq))

/-- `Attackboard` is only asked for K, Q, R, N, B: no panic in `defenders`. -/
theorem defenders_isSome (pos : Position) (turn : Color) (sq : Nat) : ∃ d, defenders pos turn sq = some d := by
  obtain ⟨d, hd⟩ := Option.isSome_iff_exists.mp (defendersLoop_isSome pos turn sq kqrnb 0 (fun _ h => h))
  unfold defenders
  rw [hd]
  exact ⟨_, rfl⟩

theorem officerDefended_isSome (pos : Position) (turn : Color) (sq : Nat) :
    ∀ (l : List Piece), (∀ p ∈ l, p ∈ kqrnb) → ∃ d, officerDefended pos turn sq l = some d
  | [], _ => ⟨false, rfl⟩
  | p :: rest, h => by
    obtain ⟨bb, hb⟩ := Option.isSome_iff_exists.mp (officerHits_isSome pos turn sq (h p (List.mem_cons_self ..)))
    unfold officerDefended
    rw [hb, Option.bind_some]
    split
    · exact ⟨true, rfl⟩
    · exact officerDefended_isSome pos turn sq rest (fun q hq => h q (List.mem_cons_of_mem _ hq))

theorem defenceLoop_total (F : FltFacts) (pos : Position) (turn : Color) : ∀ (l : List Nat) (score : Q) (A : Nat),
    Bd score A → A + 2 * l.length ≤ 2 ^ 24 →
    ∃ s, defenceLoop pos turn l score = some s ∧ Bd s (A + 2 * l.length)
  | [], score, A, hs, _ => ⟨score, rfl, hs.mono (by simp)⟩
  | sq :: rest, score, A, hs, hA => by
    have hlen : (sq :: rest).length = rest.length + 1 := rfl
    rw [hlen] at hA ⊢
    obtain ⟨d, hd⟩ := defenders_isSome pos turn sq
    obtain ⟨s1, h1, b1⟩ := addIf32 F (decide (d > 0)) hs bd_q1 (by omega)
    obtain ⟨s2, h2, b2⟩ := addIf32 F (decide (d > 1)) b1 bd_qHalf (by omega)
    obtain ⟨s, h, b⟩ := defenceLoop_total F pos turn rest s2 (A + 1 + 1) b2 (by omega)
    refine ⟨s, ?_, b.mono (by omega)⟩
    unfold defenceLoop
    rw [hd, Option.bind_some, h1, Option.bind_some, h2, Option.bind_some]
    exact h

theorem kingSafety_total (F : FltFacts) (pos : Position) (turn : Color) (score : Q) (A : Nat)
    (hs : Bd score A) (hA : A + 12 ≤ 2 ^ 24) : ∃ s, kingSafety pos turn score = some s ∧ Bd s (A + 12) := by
  unfold kingSafety
  split
  · have hsafe : safety pos turn ≤ 128 := by
      unfold safety
      exact Nat.le_trans (popCount_le _) (by decide)
    obtain ⟨t, ht, bt⟩ := sqrtTerm_bd hsafe
    rw [ht, Option.bind_some]
    exact sub32 F hs bt hA
  · exact ⟨score, rfl, hs.mono (by omega)⟩

theorem pawnRanks_le (turn : Color) (sq : Nat) : pawnRanks turn sq ≤ 255 := by
  unfold pawnRanks; cases turn <;> simp only [] <;> omega

set_option maxRecDepth 8192 in
theorem pawnLoop_total (F : FltFacts) (pos : Position) (turn : Color) : ∀ (l : List Nat) (score : Q) (A : Nat),
    Bd score A → A + 256 * l.length ≤ 2 ^ 24 →
    ∃ s, pawnLoop pos turn l score = some s ∧ Bd s (A + 256 * l.length)
  | [], score, A, hs, _ => ⟨score, rfl, hs.mono (by simp)⟩
  | sq :: rest, score, A, hs, hA => by
    have hlen : (sq :: rest).length = rest.length + 1 := rfl
    rw [hlen, Nat.mul_add_one] at hA ⊢
    obtain ⟨k02, hk02, bk02⟩ := const_bd c02_check
    obtain ⟨k03, hk03, bk03⟩ := const_bd c03_check
    obtain ⟨r, hr, br⟩ := F.abs_le32 (Q.ofInt (pawnRanks turn sq : Nat)) 255 (by decide) (Bd.ofNat (pawnRanks_le turn sq))
    obtain ⟨t, ht, bt⟩ := mul32 F bk02 br (by decide)
    obtain ⟨s1, h1, b1⟩ := add32 F hs bt (by omega)
    obtain ⟨d, hd⟩ := officerDefended_isSome pos turn sq kqrnb (fun _ h => h)
    obtain ⟨s2, h2, b2⟩ := addIf32 F d b1 bk03 (by omega)
    obtain ⟨s, h, b⟩ := pawnLoop_total F pos turn rest s2 (A + 1 * 255 + 1) b2 (by omega)
    refine ⟨s, ?_, b.mono (by omega)⟩
    unfold pawnLoop
    have hr' : pawnsOfInt ((pawnRanks turn sq : Nat) : Int) = some r := hr
    rw [hk02, Option.bind_some, hr', Option.bind_some, ht, Option.bind_some, h1, Option.bind_some, hd, Option.bind_some,
      hk03, Option.bind_some, h2, Option.bind_some]
    exact h

theorem toSquaresAux_length : ∀ (fuel b : Nat), (toSquaresAux fuel b).length ≤ fuel
  | 0, _ => Nat.le_refl 0
  | fuel + 1, b => by
    unfold toSquaresAux
    split
    · simp
    · simp only [List.length_cons]
      have := toSquaresAux_length fuel (b ^^^ bitMask (lastPopSquare b))
      omega

theorem toSquares_length (b : Nat) : (toSquares b).length ≤ 64 := toSquaresAux_length 64 b

/-- the bound on `|PositionPlay|` proved here (the true range is far smaller; see the source comment `[-55;55]`) -/
def ppBound : Nat := 17297

theorem postPlay_total (F : FltFacts) (pos : Position) (turn : Color) (score : Q) (hs : Bd score 773) :
    ∃ s, postPlay pos turn score = some s ∧ Bd s ppBound := by
  have hm := toSquares_length (middle pos turn)
  have hp := toSquares_length (pos.pieces turn .pawn)
  obtain ⟨s1, h1, b1⟩ := defenceLoop_total F pos turn (toSquares (middle pos turn)) score 773 hs (by omega)
  obtain ⟨s2, h2, b2⟩ := kingSafety_total F pos turn s1 _ b1 (by omega)
  obtain ⟨s3, h3, b3⟩ := pawnLoop_total F pos turn (toSquares (pos.pieces turn .pawn)) s2 _ b2 (by omega)
  refine ⟨s3, ?_, b3.mono (by unfold ppBound; omega)⟩
  unfold postPlay
  rw [h1, Option.bind_some, h2, Option.bind_some]
  exact h3

/-- the mobility map has at most 64 keys and no count above 128 -/
def MobOK (l : List (Nat × Nat)) : Prop := l.length ≤ 64 ∧ ∀ e ∈ l, e.2 ≤ 128

/-- **`PositionPlay` is finite and bounded** for every order of summation of a mobility map with at most 64 keys and
counts of at most 128. -/
theorem positionPlayOrd_total (F : FltFacts) (order : List (Nat × Nat) → List (Nat × Nat)) (pos : Position) (castled : Bool)
    (turn : Color) (hm : MobOK (order (mobility pos turn))) :
    ∃ v, positionPlayOrd order pos castled turn = some v ∧ Bd v ppBound := by
  obtain ⟨s1, h1, b1⟩ := prePlay_total F pos castled turn
  obtain ⟨s2, h2, b2⟩ := mobSum_total F (order (mobility pos turn)) s1 5 hm.2 b1 (by have := hm.1; omega)
  obtain ⟨s3, h3, b3⟩ := postPlay_total F pos turn s2 (b2.mono (by have := hm.1; omega))
  refine ⟨s3, ?_, b3⟩
  unfold positionPlayOrd
  rw [h1, Option.bind_some, h2, Option.bind_some]
  exact h3

/-! ## `Eval.Evaluate` -/

/-- the bound on `|Eval.Evaluate|` proved here -/
def evalBound : Nat := 2883460

theorem combine_total (F : FltFacts) {mat pp : Q} (hmat : Bd mat 2880) (hpp : Bd pp (ppBound + ppBound)) :
    ∃ v, combine mat pp = some v ∧ Bd v evalBound := by
  obtain ⟨m100, h1, b1⟩ := mul64 F hmat (Bd.ofInt (i := 100) (B := 100) (by decide)) (by decide)
  obtain ⟨m64, h2, b2⟩ := mul64 F (Bd.ofInt b1.roundAway) (Bd.ofInt (i := 10) (B := 10) (by decide)) (by decide)
  obtain ⟨m, h3, b3⟩ := F.abs_le32 m64 _ (by decide) b2
  obtain ⟨p100, h4, b4⟩ := mul64 F hpp (Bd.ofInt (i := 100) (B := 100) (by decide)) (by decide)
  have b5 : Bd (Q.div (Q.ofInt p100.roundAway) (Q.ofInt ((1000 : Nat) : Int))) 3460 :=
    Bd.div_int ((Bd.ofInt b4.roundAway).mono (by decide)) (by decide)
  obtain ⟨p64, h6, b6⟩ := F.abs_le64 _ 3460 (by decide) b5
  obtain ⟨p, h7, b7⟩ := F.abs_le32 p64 _ (by decide) b6
  obtain ⟨v, h8, b8⟩ := add32 F b3 b7 (by decide)
  refine ⟨v, ?_, b8.mono (by decide)⟩
  have h6' : div f64 (Q.ofInt p100.roundAway) (Q.ofInt 1000) = some p64 := by
    unfold div
    have : ((Q.ofInt 1000).num == 0) = false := by decide
    rw [this, if_neg (by decide)]
    exact h6
  unfold combine
  rw [h1, Option.bind_some, h2, Option.bind_some, h3, Option.bind_some, h4, Option.bind_some, h6', Option.bind_some,
    h7, Option.bind_some]
  exact h8

/-- **`Eval.Evaluate` is finite and bounded** (as a function of what it reads), when the two mobility maps are small. -/
theorem evaluateCore_total (F : FltFacts) (pos : Position) (cs co : Bool) (turn : Color)
    (hs : MobOK (mobility pos turn)) (ho : MobOK (mobility pos turn.opp)) :
    ∃ v, evaluateCore pos cs co turn = some v ∧ Bd v evalBound := by
  obtain ⟨mat, h1, b1⟩ := materialEvaluate_total F pos turn
  obtain ⟨ppS, h2, b2⟩ := positionPlayOrd_total F id pos cs turn hs
  obtain ⟨ppO, h3, b3⟩ := positionPlayOrd_total F id pos co turn.opp ho
  obtain ⟨pp, h4, b4⟩ := sub32 F b2 b3 (by decide)
  obtain ⟨v, h5, b5⟩ := combine_total F b1 b4
  refine ⟨v, ?_, b5⟩
  unfold evaluateCore positionPlayCore
  rw [h1, Option.bind_some, h2, Option.bind_some, h3, Option.bind_some, h4, Option.bind_some]
  exact h5

end Morlock.Proofs.Turochamp
