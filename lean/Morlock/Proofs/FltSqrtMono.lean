import Morlock.Proofs.FltSqrt
import Morlock.Proofs.FltOrder
/-! # `sqrt`: exactness on squares of numbers of the format, and monotonicity -/
namespace Morlock.Model.Flt

/-- the exponent of `sqrtPos` is at most any format exponent `e` with `a/b < 4^(e+p)` -/
theorem sexpo_le (f : Fmt) (hp : 1 ≤ f.p) {a b : Nat} (ha : 0 < a) (hb : 0 < b) {e : Int} (he : f.emin ≤ e)
    (hup : a * pd (2 * e) < 2 ^ f.p * 2 ^ f.p * b * pn (2 * e)) : sexpo f a b ≤ e := by
  obtain ⟨hge, hlt, hnorm⟩ := sexpo_spec f hp ha hb
  generalize sexpo f a b = e' at *
  rcases Int.lt_or_le e e' with hlt' | hle
  case inr => exact hle
  exfalso
  have hl : 2 ^ (f.p - 1) ≤ sfl a b e' := by
    rcases hnorm with h0 | h0
    · omega
    · exact h0
  have hnot : ¬ (sfl a b e' < 2 ^ (f.p - 1)) := by omega
  apply hnot
  rw [sfl_lt_iff hb]
  have h1 : a * pd (2 * e' - 2) < 2 ^ f.p * 2 ^ f.p * b * pn (2 * e' - 2) := lt_mono_exp (by omega) hup
  have hP := two_pow_pred hp
  have h2 := (lt_shift a (2 ^ (f.p - 1) * 2 ^ (f.p - 1) * b) (2 * e' - 2) 2).mp (by
    calc a * pd (2 * e' - 2) < 2 ^ f.p * 2 ^ f.p * b * pn (2 * e' - 2) := h1
      _ = 2 ^ 2 * (2 ^ (f.p - 1) * 2 ^ (f.p - 1) * b) * pn (2 * e' - 2) := by rw [← hP]; grind)
  have he2 : 2 * e' - 2 + ((2 : Nat) : Int) = 2 * e' := by omega
  rw [he2] at h2
  rw [← Nat.mul_assoc]; exact h2

/-- the square of a number of the format has that number as its square root:
if `a/b = (m·2^e)²`, `m < 2^p`, `emin ≤ e`, `e + p − 1 ≤ emax`, then `sqrtPos` returns a pair with the value `m·2^e` -/
theorem sqrtPos_exact (f : Fmt) (hp : 1 ≤ f.p) {a b m : Nat} {e : Int} (ha : 0 < a) (hb : 0 < b)
    (hv : a * pd (2 * e) = m * m * b * pn (2 * e)) (hm : m < 2 ^ f.p) (he : f.emin ≤ e)
    (hmax : e + ((f.p : Int) - 1) ≤ f.emax) :
    ∃ m' e', sqrtPos f a b = some (m', e') ∧ m' * pn e' * pd e = m * pn e * pd e' := by
  have hup : a * pd (2 * e) < 2 ^ f.p * 2 ^ f.p * b * pn (2 * e) := by
    rw [hv]
    apply (Nat.mul_lt_mul_right (pn_pos _)).mpr
    apply (Nat.mul_lt_mul_right hb).mpr
    exact Nat.mul_lt_mul_of_lt_of_le hm (Nat.le_of_lt hm) (Nat.two_pow_pos _)
  have hle := sexpo_le f hp ha hb he hup
  obtain ⟨hge, hlt, _⟩ := sexpo_spec f hp ha hb
  obtain ⟨m0, ms, hm0, hms, hc⟩ := ssig_cases a b (sexpo f a b)
  rw [sqrtPos_eq, hms]
  generalize sexpo f a b = e' at *
  obtain ⟨K, hK⟩ : ∃ K : Nat, e = e' + K := ⟨(e - e').toNat, by omega⟩
  have h2K : 2 * e = 2 * e' + ((2 * K : Nat) : Int) := by omega
  rw [h2K] at hv
  have hv' := (eq_shift a (m * m * b) (2 * e') (2 * K)).mpr hv
  have hs2 : 0 < b * pn (2 * e') := Nat.mul_pos hb (pn_pos _)
  have hv'' : a * pd (2 * e') = (2 ^ K * m) * (2 ^ K * m) * (b * pn (2 * e')) := by
    rw [hv', ← two_pow_sq]; grind
  -- the floor is exact
  have hfl : sfl a b e' = 2 ^ K * m := by
    have h1 : ¬ (sfl a b e' < 2 ^ K * m) := by
      rw [sfl_lt_iff hb, hv'']; exact Nat.lt_irrefl _
    have h2 : sfl a b e' < 2 ^ K * m + 1 := by
      rw [sfl_lt_iff hb, hv'']
      apply (Nat.mul_lt_mul_right hs2).mpr
      exact Nat.mul_lt_mul_of_lt_of_le (Nat.lt_succ_self _) (Nat.le_succ _) (Nat.succ_pos _)
    omega
  rw [hfl] at hm0
  subst hm0
  -- no rounding up
  have hms' : ms = 2 ^ K * m := by
    have q : (2 * (2 ^ K * m) + 1) ^ 2 * (b * pn (2 * e')) =
        4 * ((2 ^ K * m) * (2 ^ K * m) * (b * pn (2 * e'))) + 4 * ((2 ^ K * m) * (b * pn (2 * e'))) + b * pn (2 * e') := by
      grind
    rw [hv''] at hc
    rcases hc with ⟨c, _⟩ | ⟨_, c⟩ | ⟨c, _, _⟩ | ⟨c, _, _⟩ <;> omega
  subst hms'
  rw [hfl] at hlt
  have hcarry : carry f (2 ^ K * m) e' = (2 ^ K * m, e') := by
    unfold carry
    have : 2 ^ K * m ≠ 2 ^ f.p := by omega
    simp [this]
  refine ⟨2 ^ K * m, e', ?_, ?_⟩
  · rw [hcarry]
    have : ¬ (e' + ((f.p : Int) - 1) > f.emax) := by omega
    simp [this]
  · have hs := pn_pd_shift e' K
    rw [← hK] at hs
    calc 2 ^ K * m * pn e' * pd e = m * (2 ^ K * pn e' * pd e) := by grind
      _ = m * (pn e * pd e') := by rw [hs]
      _ = m * pn e * pd e' := by grind

/-- the square root of the square of a natural number below `2^p` is that number -/
theorem sqrt_sq_nat (f : Fmt) (wf : f.WF) (h0 : f.emin ≤ 0) (hmax : (f.p : Int) - 1 ≤ f.emax) (k : Nat) (hk : k < 2 ^ f.p) :
    sqrt f (Q.ofNat (k * k)) = some (Q.ofNat k) := by
  rcases Nat.eq_zero_or_pos k with hk0 | hk0
  · subst hk0; simp [sqrt, Q.ofNat]
  have hpos : 0 < (Q.ofNat (k * k)).num := by
    simp only [Q.ofNat]; exact_mod_cast Nat.mul_pos hk0 hk0
  rw [sqrt_of_pos f hpos]
  have hv : (k * k) * pd (2 * 0) = k * k * 1 * pn (2 * 0) := by simp [pd, pn]
  obtain ⟨m', e', hs, hval⟩ := sqrtPos_exact f wf.p_pos (a := k * k) (b := 1) (m := k) (e := 0)
    (Nat.mul_pos hk0 hk0) (by decide) hv hk h0 (by omega)
  have e1 : (Q.ofNat (k * k)).num.toNat = k * k := by unfold Q.ofNat; exact Int.toNat_natCast _
  have e2 : (Q.ofNat (k * k)).den = 1 := rfl
  rw [e1, e2, hs]
  simp only [Option.map_some]
  congr 1
  obtain ⟨hc, hy, hsgn, _⟩ := ofME_spec false m' e'
  generalize ofME false m' e' = y at *
  have hnn : 0 ≤ y.num := by simp at hsgn; exact hsgn
  apply Q.Canon.eq_of_eqv hc (by unfold Q.Canon Q.ofNat; simp)
  unfold Q.Eqv Q.ofNat
  simp only []
  -- |y| pd e' = m' pn e' y.den,  m' pn e' pd 0 = k pn 0 pd e'
  have hval' : m' * pn e' = k * pd e' := by simpa [pd, pn] using hval
  have : y.num.natAbs * pd e' = k * y.den * pd e' := by
    calc y.num.natAbs * pd e' = m' * pn e' * y.den := hy
      _ = k * pd e' * y.den := by rw [hval']
      _ = k * y.den * pd e' := by grind
  have habs := Nat.eq_of_mul_eq_mul_right (pd_pos _) this
  have e3 : (y.num.natAbs : Int) = y.num := Int.natAbs_of_nonneg hnn
  have : ((y.num.natAbs : Nat) : Int) = ((k * y.den : Nat) : Int) := by rw [habs]
  rw [e3] at this
  simpa [Int.natCast_mul] using this

/-- perfect squares `n = k·k` with `k < 2^26` (indeed `k < 2^53`) have the exact float64 root `k` -/
theorem sqrt_int_exact (k : Nat) (hk : k < 2 ^ 26) : sqrt f64 (Q.ofNat (k * k)) = some (Q.ofNat k) :=
  sqrt_sq_nat f64 f64_wf (by decide) (by decide) k (Nat.lt_trans hk (by decide))


/-! ### monotonicity -/

theorem sexpo_mono (f : Fmt) (hp : 1 ≤ f.p) {a b a' b' : Nat} (ha : 0 < a) (hb : 0 < b) (ha' : 0 < a') (hb' : 0 < b')
    (hr : a * b' ≤ a' * b) : sexpo f a b ≤ sexpo f a' b' := by
  obtain ⟨hge', hlt', _⟩ := sexpo_spec f hp ha' hb'
  apply sexpo_le f hp ha hb hge'
  rw [sfl_lt_iff hb', ← Nat.mul_assoc] at hlt'
  exact lt_of_ratio_le hb hr hlt'

/-- at a common exponent the rounded significand is monotone in the ratio -/
theorem ssig_mono {a b a' b' : Nat} (hb : 0 < b) (hb' : 0 < b') (hr : a * b' ≤ a' * b) (e : Int) :
    ssig a b e ≤ ssig a' b' e := by
  obtain ⟨_, hh, ht⟩ := ssig_spec (a := a) hb e
  obtain ⟨_, hh', ht'⟩ := ssig_spec (a := a') hb' e
  have hs2 : 0 < b * pn (2 * e) := Nat.mul_pos hb (pn_pos _)
  have hs2' : 0 < b' * pn (2 * e) := Nat.mul_pos hb' (pn_pos _)
  have hrs : a * pd (2 * e) * (b' * pn (2 * e)) ≤ a' * pd (2 * e) * (b * pn (2 * e)) := by
    calc a * pd (2 * e) * (b' * pn (2 * e)) = a * b' * (pd (2 * e) * pn (2 * e)) := by grind
      _ ≤ a' * b * (pd (2 * e) * pn (2 * e)) := Nat.mul_le_mul_right _ hr
      _ = a' * pd (2 * e) * (b * pn (2 * e)) := by grind
  unfold SqrtHalfUlp SqrtTie at *
  generalize ssig a b e = M at *
  generalize ssig a' b' e = M' at *
  generalize a * pd (2 * e) = s1 at *
  generalize b * pn (2 * e) = s2 at *
  generalize a' * pd (2 * e) = s1' at *
  generalize b' * pn (2 * e) = s2' at *
  rcases Nat.lt_or_ge M' M with hlt | hge
  case inr => exact hge
  exfalso
  have hM : 1 ≤ M := by omega
  have hlo : (2 * M - 1) ^ 2 * s2 ≤ 4 * s1 := by
    rcases hh.1 with h0 | h0
    · omega
    · exact h0
  have hhi' := hh'.2
  have hAB : (2 * M' + 1) ^ 2 ≤ (2 * M - 1) ^ 2 := Nat.pow_le_pow_left (by omega) 2
  -- the sandwich
  have c1 : (2 * M' + 1) ^ 2 * (s2 * s2') ≤ (2 * M - 1) ^ 2 * (s2 * s2') := Nat.mul_le_mul_right _ hAB
  have c2 : (2 * M - 1) ^ 2 * (s2 * s2') ≤ 4 * (s1 * s2') := by
    calc (2 * M - 1) ^ 2 * (s2 * s2') = (2 * M - 1) ^ 2 * s2 * s2' := by grind
      _ ≤ 4 * s1 * s2' := Nat.mul_le_mul_right _ hlo
      _ = 4 * (s1 * s2') := by grind
  have c3 : 4 * (s1 * s2') ≤ 4 * (s1' * s2) := Nat.mul_le_mul_left _ hrs
  have c4 : 4 * (s1' * s2) ≤ (2 * M' + 1) ^ 2 * (s2 * s2') := by
    calc 4 * (s1' * s2) = 4 * s1' * s2 := by grind
      _ ≤ (2 * M' + 1) ^ 2 * s2' * s2 := Nat.mul_le_mul_right _ hhi'
      _ = (2 * M' + 1) ^ 2 * (s2 * s2') := by grind
  have hX : 0 < s2 * s2' := Nat.mul_pos hs2 hs2'
  have eAB : (2 * M - 1) ^ 2 = (2 * M' + 1) ^ 2 :=
    Nat.eq_of_mul_eq_mul_right hX (by omega)
  have eM : 2 * M - 1 = 2 * M' + 1 := by
    rcases Nat.lt_or_ge (2 * M' + 1) (2 * M - 1) with h | h
    · have := Nat.pow_lt_pow_left h (by decide : 2 ≠ 0); omega
    · omega
  have t1 : (2 * M - 1) ^ 2 * s2 = 4 * s1 := by
    have : (2 * M - 1) ^ 2 * s2 * s2' = 4 * s1 * s2' := by
      have e1 : (2 * M - 1) ^ 2 * s2 * s2' = (2 * M - 1) ^ 2 * (s2 * s2') := by grind
      have e2 : 4 * s1 * s2' = 4 * (s1 * s2') := by grind
      omega
    exact Nat.eq_of_mul_eq_mul_right hs2' this
  have t2 : 4 * s1' = (2 * M' + 1) ^ 2 * s2' := by
    have : 4 * s1' * s2 = (2 * M' + 1) ^ 2 * s2' * s2 := by
      have e1 : (2 * M' + 1) ^ 2 * s2' * s2 = (2 * M' + 1) ^ 2 * (s2 * s2') := by grind
      have e2 : 4 * s1' * s2 = 4 * (s1' * s2) := by grind
      omega
    exact Nat.eq_of_mul_eq_mul_right hs2 this
  have ev := ht hM (Or.inl t1)
  rcases Nat.eq_zero_or_pos M' with h0 | h0
  · omega
  · have ev' := ht' h0 (Or.inr t2)
    omega

/-- the values before renormalisation are monotone -/
theorem sqrt_pre_mono (f : Fmt) (hp : 1 ≤ f.p) {a b a' b' : Nat} (ha : 0 < a) (hb : 0 < b) (ha' : 0 < a') (hb' : 0 < b')
    (hr : a * b' ≤ a' * b) :
    ssig a b (sexpo f a b) * pn (sexpo f a b) * pd (sexpo f a' b') ≤
      ssig a' b' (sexpo f a' b') * pn (sexpo f a' b') * pd (sexpo f a b) := by
  have hee := sexpo_mono f hp ha hb ha' hb' hr
  obtain ⟨hge, hlt, _⟩ := sexpo_spec f hp ha hb
  obtain ⟨_, _, hnorm'⟩ := sexpo_spec f hp ha' hb'
  obtain ⟨hsig, _, _⟩ := ssig_spec (a := a) hb (sexpo f a b)
  obtain ⟨hsig', _, _⟩ := ssig_spec (a := a') hb' (sexpo f a' b')
  obtain ⟨K, hK⟩ : ∃ K : Nat, sexpo f a' b' = sexpo f a b + K := ⟨(sexpo f a' b' - sexpo f a b).toNat, by omega⟩
  rcases Nat.eq_zero_or_pos K with hK0 | hK0
  · subst hK0
    have he : sexpo f a' b' = sexpo f a b := by omega
    rw [he]
    exact Nat.mul_le_mul_right _ (Nat.mul_le_mul_right _ (ssig_mono hb hb' hr _))
  · have hl : 2 ^ (f.p - 1) ≤ ssig a' b' (sexpo f a' b') := by
      rcases hnorm' with h0 | h0
      · omega
      · omega
    have hm : ssig a b (sexpo f a b) ≤ 2 ^ f.p := by omega
    have hs := pn_pd_shift (sexpo f a b) K
    rw [← hK] at hs
    have h2K : 2 ≤ 2 ^ K := by
      calc 2 = 2 ^ 1 := rfl
        _ ≤ 2 ^ K := Nat.pow_le_pow_right (by decide) hK0
    have h3 : ssig a b (sexpo f a b) ≤ 2 ^ K * ssig a' b' (sexpo f a' b') := by
      calc ssig a b (sexpo f a b) ≤ 2 ^ f.p := hm
        _ = 2 * 2 ^ (f.p - 1) := (two_pow_pred hp).symm
        _ ≤ 2 ^ K * ssig a' b' (sexpo f a' b') := Nat.mul_le_mul h2K hl
    generalize ssig a b (sexpo f a b) = M at *
    generalize ssig a' b' (sexpo f a' b') = M' at *
    generalize sexpo f a b = e at *
    generalize sexpo f a' b' = e' at *
    calc M * pn e * pd e' = M * (pn e * pd e') := by grind
      _ ≤ 2 ^ K * M' * (pn e * pd e') := Nat.mul_le_mul_right _ h3
      _ = M' * (2 ^ K * pn e * pd e') := by grind
      _ = M' * (pn e' * pd e) := by rw [hs]
      _ = M' * pn e' * pd e := by grind

/-- `sqrtPos` is monotone: `a/b ≤ a'/b'` ⟹ `m·2^e ≤ m'·2^e'` -/
theorem sqrtPos_mono (f : Fmt) (hp : 1 ≤ f.p) {a b a' b' m m' : Nat} {e e' : Int}
    (ha : 0 < a) (hb : 0 < b) (ha' : 0 < a') (hb' : 0 < b') (hr : a * b' ≤ a' * b)
    (h : sqrtPos f a b = some (m, e)) (h' : sqrtPos f a' b' = some (m', e')) :
    m * pn e * pd e' ≤ m' * pn e' * pd e := by
  have hpre := sqrt_pre_mono f hp ha hb ha' hb' hr
  have h1 := carry_val f hp (ssig a b (sexpo f a b)) (sexpo f a b)
  have h2 := carry_val f hp (ssig a' b' (sexpo f a' b')) (sexpo f a' b')
  have hfin := ple_trans (ple_trans (Nat.le_of_eq h1) hpre) (Nat.le_of_eq h2.symm)
  rw [sqrtPos_eq] at h h'
  split at h
  · simp at h
  split at h'
  · simp at h'
  have e1 : carry f (ssig a b (sexpo f a b)) (sexpo f a b) = (m, e) := by simpa using h
  have e2 : carry f (ssig a' b' (sexpo f a' b')) (sexpo f a' b') = (m', e') := by simpa using h'
  rw [e1, e2] at hfin
  exact hfin

theorem sqrt_nonneg (f : Fmt) {x y : Q} (h : sqrt f x = some y) : 0 ≤ x.num ∧ 0 ≤ y.num := by
  rcases Int.lt_trichotomy x.num 0 with hn | hz | hp
  · rw [sqrt_neg f hn] at h; simp at h
  · have : y = ⟨0, 1⟩ := by
      unfold sqrt at h; simp [hz] at h; exact h.symm
    subst this; simp [hz]
  · rw [sqrt_of_pos f hp] at h
    cases hs : sqrtPos f x.num.toNat x.den with
    | none => rw [hs] at h; simp at h
    | some me =>
      rw [hs] at h
      simp only [Option.map_some, Option.some.injEq] at h
      subst h
      obtain ⟨_, _, hsg, _⟩ := ofME_spec false me.1 me.2
      simp at hsg
      exact ⟨by omega, hsg⟩

/-- `sqrt` is monotone: `x ≤ y → sqrt f x ≤ sqrt f y` when both are defined -/
theorem sqrt_mono (f : Fmt) (wf : f.WF) {x y x' y' : Q} (hx : 0 < x.den) (hy : 0 < y.den)
    (hle : Q.Le x y) (h : sqrt f x = some x') (h' : sqrt f y = some y') : Q.Le x' y' := by
  obtain ⟨hx0, hx'0⟩ := sqrt_nonneg f h
  obtain ⟨hy0, hy'0⟩ := sqrt_nonneg f h'
  have hxd : (0 : Int) < x.den := by omega
  have hyd : (0 : Int) < y.den := by omega
  rcases Int.lt_or_eq_of_le hx0 with hpos | hz
  · -- both positive
    unfold Q.Le at hle
    have hypos : 0 < y.num := by
      rcases Int.lt_or_le 0 y.num with h0 | h0
      · exact h0
      · have := Int.mul_pos hpos hyd
        have := Int.mul_nonpos_of_nonpos_of_nonneg h0 (Int.le_of_lt hxd)
        omega
    rw [sqrt_of_pos f hpos] at h
    rw [sqrt_of_pos f hypos] at h'
    cases hs : sqrtPos f x.num.toNat x.den with
    | none => rw [hs] at h; simp at h
    | some me =>
      cases hs' : sqrtPos f y.num.toNat y.den with
      | none => rw [hs'] at h'; simp at h'
      | some me' =>
        rw [hs] at h; rw [hs'] at h'
        simp only [Option.map_some, Option.some.injEq] at h h'
        subst h; subst h'
        apply ofME_le_of_ple
        apply sqrtPos_mono f wf.p_pos (a := x.num.toNat) (b := x.den) (a' := y.num.toNat) (b' := y.den)
          (by omega) hx (by omega) hy ?_ hs hs'
        have e1 : (x.num.toNat : Int) = x.num := by omega
        have e2 : (y.num.toNat : Int) = y.num := by omega
        have : ((x.num.toNat * y.den : Nat) : Int) ≤ ((y.num.toNat * x.den : Nat) : Int) := by
          simp only [Int.natCast_mul, e1, e2]; exact hle
        exact Int.ofNat_le.mp this
  · have : x' = ⟨0, 1⟩ := by
      unfold sqrt at h; simp [← hz] at h; exact h.symm
    subst this
    unfold Q.Le; simp; exact hy'0

end Morlock.Model.Flt
