import Morlock.Model.MoveList
/-!
# `heapOrder` returns a permutation of its input

`heapDown` only ever swaps in-bounds positions, `heapPop` removes exactly the last element after such
swaps, and `heapOrder.drain` has enough fuel to empty the heap.
-/
namespace Morlock.Proofs.ABHeap
open Morlock.Model

theorem swapIfInBounds_perm {α : Type} (xs : Array α) (i j : Nat) :
    (xs.swapIfInBounds i j).Perm xs := by
  rw [Array.swapIfInBounds_def]
  split
  · split
    · exact Array.swap_perm _ _
    · exact Array.Perm.refl _
  · exact Array.Perm.refl _

theorem heapDown_go_perm (n : Nat) (fuel : Nat) (h : Array Elm) (i : Nat) :
    (heapDown.go n fuel h i).Perm h := by
  induction fuel generalizing h i with
  | zero => simp [heapDown.go]
  | succ fuel ih =>
    unfold heapDown.go
    simp only []
    repeat' split
    all_goals first
      | exact Array.Perm.refl _
      | exact (ih _ _).trans (swapIfInBounds_perm _ _ _)

theorem heapDown_perm (h : Array Elm) (i n : Nat) : (heapDown h i n).Perm h := by
  unfold heapDown
  exact heapDown_go_perm _ _ _ _

theorem foldl_heapDown_perm (n : Nat) (is : List Nat) (h : Array Elm) :
    (is.foldl (fun h i => heapDown h i n) h).Perm h := by
  induction is generalizing h with
  | nil => simp
  | cons i is ih =>
    simp only [List.foldl_cons]
    exact (ih _).trans (heapDown_perm _ _ _)

theorem heapInit_perm (h : Array Elm) : (heapInit h).Perm h := by
  unfold heapInit
  exact foldl_heapDown_perm _ _ _

theorem pop_push_getD (a : Array Elm) (hne : a.size ≠ 0) :
    a.pop.push (a.getD (a.size - 1) default) = a := by
  have h1 := Array.eq_push_pop_back!_of_size_ne_zero hne
  have h2 : a.back! = a.getD (a.size - 1) default := by
    simp [Array.back!, Array.getD]
    have : a.size - 1 < a.size := by omega
    simp [this]
  rw [← h2]; exact h1.symm

theorem heapPop_none (h : Array Elm) : heapPop h = none ↔ h.size = 0 := by
  unfold heapPop
  split <;> simp_all

theorem heapPop_some (h h' : Array Elm) (e : Elm) (hp : heapPop h = some (e, h')) :
    (e :: h'.toList).Perm h.toList ∧ h'.size + 1 = h.size := by
  unfold heapPop at hp
  split at hp
  · simp at hp
  · rename_i hne
    simp only [Option.some.injEq, Prod.mk.injEq] at hp
    obtain ⟨rfl, rfl⟩ := hp
    generalize hg : heapDown (h.swapIfInBounds 0 (h.size - 1)) 0 (h.size - 1) = g
    have hperm : g.Perm h := by
      rw [← hg]
      exact (heapDown_perm _ _ _).trans (swapIfInBounds_perm _ _ _)
    have hsz : g.size = h.size := hperm.size_eq
    have hgne : g.size ≠ 0 := by omega
    have hpush := pop_push_getD g hgne
    rw [hsz] at hpush
    constructor
    · have : (g.pop.toList ++ [g.getD (h.size - 1) default]).Perm h.toList := by
        have := hperm.toList
        rw [← hpush] at this
        simpa using this
      exact (List.perm_append_comm).trans this
    · simp; omega

theorem drain_perm (fuel : Nat) (h : Array Elm) (acc : List Move) (hf : h.size < fuel) :
    (heapOrder.drain fuel h acc).Perm (acc.reverse ++ h.toList.map (·.m)) := by
  induction fuel generalizing h acc with
  | zero => omega
  | succ fuel ih =>
    unfold heapOrder.drain
    split
    · rename_i hn
      have := (heapPop_none h).1 hn
      have : h = #[] := Array.eq_empty_of_size_eq_zero this
      subst this
      simp
    · rename_i e h' hs
      obtain ⟨hp, hsz⟩ := heapPop_some h h' e hs
      refine (ih h' (e.m :: acc) (by omega)).trans ?_
      simp only [List.reverse_cons, List.append_assoc, List.singleton_append]
      refine List.Perm.append_left _ ?_
      have := hp.map (·.m)
      simpa using this

theorem heapOrder_perm (l : List Move) (prio : Move → Int) : (heapOrder l prio).Perm l := by
  unfold heapOrder
  refine (drain_perm _ _ _ ?_).trans ?_
  · have := (heapInit_perm (l.map fun m => ({ m := m, val := prio m } : Elm)).toArray).size_eq
    simp at this
    omega
  · have := ((heapInit_perm (l.map fun m => ({ m := m, val := prio m } : Elm)).toArray).toList).map
      (·.m)
    simp only [List.reverse_nil, List.nil_append]
    refine this.trans ?_
    simp [List.map_map, Function.comp_def]

end Morlock.Proofs.ABHeap
