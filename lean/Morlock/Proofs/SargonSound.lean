import Morlock.Proofs.SargonPins
import Morlock.Proofs.GenQueries
/-!
# SARGON, part 7: `FindAttackers` lists exactly the non-pinned attackers, each with its x-ray stack

* soundness of the front of a stack: a piece of `side` standing where the stack says, attacking the target by the
  rules of the reference (`Attacks`), not pinned away from the target;
* soundness of the chain behind it (`Chain`): each next piece is a queen or the slider of the line, of the same side,
  not pinned away, and is exactly the piece that becomes the first on the line from the target when its predecessor
  is lifted (`PinLine`);
* completeness for the direct attackers: every non-pinned piece of `side` that attacks the target heads a stack.
-/
namespace Morlock.Proofs.Sargon
open Morlock Morlock.Model Morlock.Model.Sargon Morlock.Proofs.Attack Morlock.Proofs.Gen

/-- a piece `k` of colour `c` on `s` attacks `t` by the rules (reference geometry on the mailbox board) -/
def Attacks (b : Board) (c : Color) (k : Piece) (s t : Nat) : Prop :=
  (k = .pawn ∧ t ∈ Spec.pawnTargets (absColor c) s) ∨
  (k ≠ .pawn ∧ k ≠ .none ∧ t ∈ Spec.officerTargets (occB b) (kindOf k) s)

/-- the x-ray chain behind the piece on `f`, on the board with occupancy `o` -/
def Chain (b : Board) (side : Color) (pins : Pins) (t : Nat) : (Nat → Bool) → Nat → List Placement → Prop
  | _, _, [] => True
  | o, f, q :: rest =>
    q.color = side ∧ b q.square = some (side, q.piece) ∧ isPinnedFor pins q.square t = false ∧
    (∃ line, IsLine line ∧ (q.piece = .queen ∨ q.piece = sliderOf line) ∧ ∃ d ∈ dirsOf line, PinLine o t d f q.square) ∧
    Chain b side pins t (without o f) q.square rest

theorem pieceAt_eq {p : Position} {b : Board} (hrep : Rep p b) {s : Nat} {c : Color} {k : Piece} (h : b s = some (c, k)) :
    pieceAt p s = k := by
  unfold pieceAt; rw [hrep.square_eq, h]

/-- soundness of `addAttackerStack` -/
theorem addAttackerStack_sound {p : Position} {b : Board} (hrep : Rep p b) (pins : Pins) (side : Color) {t : Nat} (ht : t < 64) :
    ∀ fuel occ r piece f a, StackInv p side t occ r f → addAttackerStack p pins side t fuel r piece f = .ok (some a) →
      a.front = { piece := piece, color := side, square := f } ∧ isPinnedFor pins f t = false ∧
      Chain b side pins t (fun x => occ.testBit x) f a.behind := by
  intro fuel
  induction fuel with
  | zero => intro occ r piece f a _ h; simp [addAttackerStack] at h
  | succ n ih =>
    intro occ r piece f a hinv h
    rw [addAttackerStack_succ] at h
    split at h
    · cases h
    · rename_i hpin
      have hpin' : isPinnedFor pins f t = false := by simpa using hpin
      split at h
      · cases h; exact ⟨rfl, hpin', trivial⟩
      · split at h
        · rename_i hbb
          have hne : stackBB p side t r f ≠ 0 := by simpa using hbb
          obtain ⟨k, hk, h64, hnew, hold, hq, hocc, hkind⟩ := stackBB_spec hrep hinv ht hne
          obtain ⟨hinv', _⟩ := hinv.step ht hk h64 hnew hold hq hocc
          generalize lastPopSquare (stackBB p side t r f) = F at *
          -- the piece on the new square
          have hbF : ∃ kq, b F = some (side, kq) ∧ (kq = .queen ∨ kq = sliderOf k) := by
            rcases hkind with hq' | hs'
            · exact ⟨.queen, (occupied_of_piece hrep side (by decide) hq').2.2, Or.inl rfl⟩
            · rcases hk with rfl | rfl
              · exact ⟨.rook, (occupied_of_piece hrep side (by decide) (by simpa using hs')).2.2, Or.inr rfl⟩
              · exact ⟨.bishop, (occupied_of_piece hrep side (by decide) (by simpa using hs')).2.2, Or.inr rfl⟩
          obtain ⟨kq, hbq, hkq⟩ := hbF
          have hpa : pieceAt p F = kq := pieceAt_eq hrep hbq
          rw [hpa] at h
          -- geometry of the step
          have hoF : occ.testBit F = true := by
            have := hinv'.from_in
            rw [xor_bits hinv.from_lt hinv.from_in] at this
            simp only [Bool.and_eq_true] at this
            exact this.1
          rw [xor_bits_without hinv.from_lt hinv.from_in] at hnew
          obtain ⟨d, hd, hpl⟩ := pinLine_of_new hk ht hinv.from_in hoF hnew hold
          cases hrec : addAttackerStack p pins side t n (r.xor f) kq F with
          | error e => rw [hrec] at h; cases h
          | ok res =>
            rw [hrec] at h
            cases res with
            | none => cases h; exact ⟨rfl, hpin', trivial⟩
            | some a' =>
              cases h
              obtain ⟨hfront, hpinF, hchain⟩ := ih _ _ _ _ _ hinv' hrec
              refine ⟨rfl, hpin', ?_⟩
              rw [xor_bits_without hinv.from_lt hinv.from_in] at hchain
              simp only [Chain]
              rw [hfront]
              exact ⟨rfl, hbq, hpinF, ⟨k, hk, hkq, d, hd, hpl⟩, hchain⟩
        · cases h; exact ⟨rfl, hpin', trivial⟩

/-- pawn attacks, seen from the target: `s` is a capture square of the other colour's pawn standing on `t` -/
theorem pawnTargets_symm {c : Color} {s t : Nat} (hs : s < 64) (ht : t < 64) :
    s ∈ Spec.pawnTargets (absColor c.opp) t ↔ t ∈ Spec.pawnTargets (absColor c) s := by
  rw [mem_pawnTargets_iff, mem_pawnTargets_iff]
  have hf : Spec.fwd (absColor c.opp) = -Spec.fwd (absColor c) := by cases c <;> simp [Spec.fwd, absColor, Color.opp]
  rw [hf]
  rcases fwd_cases c with h | h <;> rw [h] <;> simp only [step_eq_some_iff] <;> omega

/-- what the elements of one `stacksOn` group are -/
theorem stacksOn_sound {p : Position} {b : Board} (hrep : Rep p b) (pins : Pins) (side : Color) {piece : Piece}
    (hk : piece ≠ .none) {t : Nat} (ht : t < 64) (bb : Nat) (hlt : bb < 2 ^ 64)
    (hbb : ∀ f, bb.testBit f = true → (p.pieces side piece).testBit f = true ∧
      (piece = .queen ∨ piece = .rook ∨ piece = .bishop → Vis p.rotated.rot t f))
    {l : List Attacker} (hl : stacksOn p pins side piece t bb = .ok l) :
    (∀ a ∈ l, bb.testBit a.front.square = true ∧ a.front.piece = piece ∧ a.front.color = side ∧
      isPinnedFor pins a.front.square t = false ∧ Chain b side pins t (occB b) a.front.square a.behind) ∧
    (∀ f, bb.testBit f = true → isPinnedFor pins f t = false → ∃ a ∈ l, a.front.square = f) := by
  unfold stacksOn at hl
  have hall : ∀ f ∈ toSquares bb, ∃ res, addAttackerStack p pins side t stackFuel p.rotated piece f = .ok res := by
    intro f hf
    obtain ⟨h1, h2⟩ := hbb f ((mem_toSquares hlt f).mp hf)
    apply addAttackerStack_ok hrep pins side ht stackFuel _ _ piece f (stackInv_top hrep side t hk h1 h2)
    have := mu_le (fun x => p.rotated.rot.testBit x) t
    unfold stackFuel; omega
  obtain ⟨bs, hbs, _, hmem, hmem'⟩ := mapE_ok _ _ hall
  rw [hbs] at hl
  have hl' : l = bs.filterMap id := by simpa using hl.symm
  subst hl'
  have hocc : (fun x => p.rotated.rot.testBit x) = occB b := hrep.occ_eq
  constructor
  · intro a ha
    rw [List.mem_filterMap] at ha
    obtain ⟨oa, hoa, hid⟩ := ha
    simp only [id] at hid
    subst hid
    obtain ⟨f, hf, hres⟩ := hmem _ hoa
    have hbit := (mem_toSquares hlt f).mp hf
    obtain ⟨h1, h2⟩ := hbb f hbit
    obtain ⟨hfront, hpin, hchain⟩ := addAttackerStack_sound hrep pins side ht _ _ _ _ _ _ (stackInv_top hrep side t hk h1 h2) hres
    rw [hocc] at hchain
    rw [hfront]
    exact ⟨hbit, rfl, rfl, hpin, hchain⟩
  · intro f hbit hpin
    obtain ⟨res, hres, hf⟩ := hmem' f ((mem_toSquares hlt f).mpr hbit)
    -- not pinned: the result is a stack headed by `f`
    have : ∃ a, res = some a ∧ a.front.square = f := by
      unfold stackFuel at hf
      rw [addAttackerStack_succ, hpin] at hf
      simp only [Bool.false_eq_true, if_false] at hf
      split at hf
      · cases hf; exact ⟨_, rfl, rfl⟩
      · split at hf
        · split at hf
          · cases hf
          · cases hf; exact ⟨_, rfl, rfl⟩
          · cases hf; exact ⟨_, rfl, rfl⟩
        · cases hf; exact ⟨_, rfl, rfl⟩
    obtain ⟨a, rfl, hfa⟩ := this
    exact ⟨a, List.mem_filterMap.mpr ⟨some a, hres, rfl⟩, hfa⟩

/-- **`FindAttackers`: sound, and complete for the direct attackers.** -/
theorem findAttackers_sound {p : Position} {b : Board} (hrep : Rep p b) (pins : Pins) {t : Nat} (ht : t < 64) (side : Color)
    {l : List Attacker} (hl : findAttackers p pins t side = .ok l) :
    (∀ a ∈ l, a.front.color = side ∧ b a.front.square = some (side, a.front.piece) ∧
      Attacks b side a.front.piece a.front.square t ∧ isPinnedFor pins a.front.square t = false ∧
      Chain b side pins t (occB b) a.front.square a.behind) ∧
    (∀ s k, b s = some (side, k) → Attacks b side k s t → isPinnedFor pins s t = false → ∃ a ∈ l, a.front.square = s) := by
  have hinv := hrep.rotInv
  have hocc : (fun x => p.rotated.rot.testBit x) = occB b := hrep.occ_eq
  have hrook : ∀ f, (rookAttackboard p.rotated t).testBit f = true → Vis p.rotated.rot t f := by
    intro f hf; rw [rook_of_inv hinv ht] at hf; exact Or.inl ((testBit_toBB _ _).mp hf)
  have hbish : ∀ f, (bishopAttackboard p.rotated t).testBit f = true → Vis p.rotated.rot t f := by
    intro f hf; rw [bishop_of_inv hinv ht] at hf; exact Or.inr ((testBit_toBB _ _).mp hf)
  have hqueen : ∀ f, (queenAttackboard p.rotated t).testBit f = true → Vis p.rotated.rot t f := by
    intro f hf
    unfold queenAttackboard at hf
    rw [Nat.testBit_or, Bool.or_eq_true] at hf
    rcases hf with hf | hf
    · exact hrook f hf
    · exact hbish f hf
  -- one group: officers
  have officer : ∀ (piece : Piece) (hk : piece ≠ .none) (hpw : piece ≠ .pawn) (ab : Nat),
      attackboard p.rotated t piece = some ab →
      (piece = .queen ∨ piece = .rook ∨ piece = .bishop → ∀ f, ab.testBit f = true → Vis p.rotated.rot t f) →
      ∀ lg, stacksOn p pins side piece t (ab &&& p.pieces side piece) = .ok lg →
        (∀ a ∈ lg, a.front.color = side ∧ b a.front.square = some (side, a.front.piece) ∧
          Attacks b side a.front.piece a.front.square t ∧ isPinnedFor pins a.front.square t = false ∧
          Chain b side pins t (occB b) a.front.square a.behind) ∧
        (∀ s, b s = some (side, piece) → Attacks b side piece s t → isPinnedFor pins s t = false → ∃ a ∈ lg, a.front.square = s) := by
    intro piece hk hpw ab hab hvis lg hlg
    have habeq : ab = toBB (Spec.officerTargets (occB b) (kindOf piece) t) := by
      have := attackboard_of_rep hrep ht hk hpw
      rw [hab] at this
      exact Option.some.inj this
    have hlt : ab &&& p.pieces side piece < 2 ^ 64 := and_lt_right _ (hrep.piecesLt side piece)
    obtain ⟨h1, h2⟩ := stacksOn_sound hrep pins side hk ht _ hlt (by
      intro f hf
      rw [Nat.testBit_and, Bool.and_eq_true] at hf
      exact ⟨hf.2, fun hq => hvis hq f hf.1⟩) hlg
    constructor
    · intro a ha
      obtain ⟨hbit, hpc, hcol, hpin, hchain⟩ := h1 a ha
      rw [Nat.testBit_and, Bool.and_eq_true] at hbit
      obtain ⟨s64, _, hb⟩ := occupied_of_piece hrep side hk hbit.2
      have hin : a.front.square ∈ Spec.officerTargets (occB b) (kindOf piece) t := by
        rw [habeq] at hbit; exact (testBit_toBB _ _).mp hbit.1
      refine ⟨hcol, by rw [hpc]; exact hb, Or.inr ⟨by rw [hpc]; exact hpw, by rw [hpc]; exact hk, ?_⟩, hpin, hchain⟩
      rw [hpc]
      exact officerTargets_symm ht hin
    · intro s hb hatt hpin
      have hs := hrep.lt_of_some hb
      rcases hatt with ⟨hp, _⟩ | ⟨_, _, hin⟩
      · exact absurd hp hpw
      · apply h2 s _ hpin
        rw [Nat.testBit_and, Bool.and_eq_true]
        constructor
        · rw [habeq]; exact (testBit_toBB _ _).mpr (officerTargets_symm hs hin)
        · rw [hrep.one side piece s hk hs, decide_eq_true_eq]; exact hb
  -- unfold the function
  unfold findAttackers at hl
  rw [kqrnb_eq] at hl
  simp only [mapE, attackboard] at hl
  cases hK : stacksOn p pins side .king t (kingAttackboard t &&& p.pieces side .king) with
  | error e => simp [hK] at hl
  | ok lk =>
  cases hQ : stacksOn p pins side .queen t (queenAttackboard p.rotated t &&& p.pieces side .queen) with
  | error e => simp [hK, hQ] at hl
  | ok lq =>
  cases hR : stacksOn p pins side .rook t (rookAttackboard p.rotated t &&& p.pieces side .rook) with
  | error e => simp [hK, hQ, hR] at hl
  | ok lr =>
  cases hN : stacksOn p pins side .knight t (knightAttackboard t &&& p.pieces side .knight) with
  | error e => simp [hK, hQ, hR, hN] at hl
  | ok ln =>
  cases hB : stacksOn p pins side .bishop t (bishopAttackboard p.rotated t &&& p.pieces side .bishop) with
  | error e => simp [hK, hQ, hR, hN, hB] at hl
  | ok lb =>
  cases hP : stacksOn p pins side .pawn t (pawnCaptureboard side.opp (bitMask t) &&& p.pieces side .pawn) with
  | error e => simp [hK, hQ, hR, hN, hB, hP] at hl
  | ok lp =>
  simp only [hK, hQ, hR, hN, hB, hP, List.flatten_cons, List.flatten_nil, List.append_nil] at hl
  have hl' : l = (lk ++ (lq ++ (lr ++ (ln ++ lb)))) ++ lp := by simpa using hl.symm
  subst hl'
  obtain ⟨k1, k2⟩ := officer .king (by decide) (by decide) _ rfl (by intro h; rcases h with h | h | h <;> cases h) lk hK
  obtain ⟨q1, q2⟩ := officer .queen (by decide) (by decide) _ rfl (fun _ => hqueen) lq hQ
  obtain ⟨r1, r2⟩ := officer .rook (by decide) (by decide) _ rfl (fun _ => hrook) lr hR
  obtain ⟨n1, n2⟩ := officer .knight (by decide) (by decide) _ rfl (by intro h; rcases h with h | h | h <;> cases h) ln hN
  obtain ⟨b1, b2⟩ := officer .bishop (by decide) (by decide) _ rfl (fun _ => hbish) lb hB
  -- pawns
  have hpl : pawnCaptureboard side.opp (bitMask t) = toBB (Spec.pawnTargets (absColor side.opp) t) := pawn_of_lt side.opp ht
  have hltP : pawnCaptureboard side.opp (bitMask t) &&& p.pieces side .pawn < 2 ^ 64 := and_lt_right _ (hrep.piecesLt side .pawn)
  obtain ⟨p1, p2⟩ := stacksOn_sound hrep pins side (piece := .pawn) (by decide) ht _ hltP (by
    intro f hf
    rw [Nat.testBit_and, Bool.and_eq_true] at hf
    exact ⟨hf.2, by intro h; rcases h with h | h | h <;> cases h⟩) hP
  constructor
  · intro a ha
    simp only [List.mem_append] at ha
    rcases ha with (ha | ha | ha | ha | ha) | ha
    · exact k1 a ha
    · exact q1 a ha
    · exact r1 a ha
    · exact n1 a ha
    · exact b1 a ha
    · obtain ⟨hbit, hpc, hcol, hpin, hchain⟩ := p1 a ha
      rw [Nat.testBit_and, Bool.and_eq_true] at hbit
      obtain ⟨s64, _, hb⟩ := occupied_of_piece hrep side (by decide) hbit.2
      have hin : a.front.square ∈ Spec.pawnTargets (absColor side.opp) t := by
        rw [hpl] at hbit; exact (testBit_toBB _ _).mp hbit.1
      exact ⟨hcol, by rw [hpc]; exact hb, Or.inl ⟨hpc, (pawnTargets_symm s64 ht).mp hin⟩, hpin, hchain⟩
  · intro s k hb hatt hpin
    have hs := hrep.lt_of_some hb
    have mem6 : ∀ {x : Attacker}, (x ∈ lk ∨ x ∈ lq ∨ x ∈ lr ∨ x ∈ ln ∨ x ∈ lb) ∨ x ∈ lp →
        x ∈ (lk ++ (lq ++ (lr ++ (ln ++ lb)))) ++ lp := by
      intro x hx; simp only [List.mem_append]; exact hx
    cases k with
    | none => exact absurd hb (hrep.wf s side)
    | pawn =>
      rcases hatt with ⟨_, hin⟩ | ⟨hp, _⟩
      · obtain ⟨a, ha, hfa⟩ := p2 s (by
          rw [Nat.testBit_and, Bool.and_eq_true]
          constructor
          · rw [hpl]; exact (testBit_toBB _ _).mpr ((pawnTargets_symm hs ht).mpr hin)
          · rw [hrep.one side .pawn s (by decide) hs, decide_eq_true_eq]; exact hb) hpin
        exact ⟨a, mem6 (Or.inr ha), hfa⟩
      · exact absurd rfl hp
    | bishop => obtain ⟨a, ha, hfa⟩ := b2 s hb hatt hpin; exact ⟨a, mem6 (Or.inl (Or.inr (Or.inr (Or.inr (Or.inr ha))))), hfa⟩
    | knight => obtain ⟨a, ha, hfa⟩ := n2 s hb hatt hpin; exact ⟨a, mem6 (Or.inl (Or.inr (Or.inr (Or.inr (Or.inl ha))))), hfa⟩
    | rook => obtain ⟨a, ha, hfa⟩ := r2 s hb hatt hpin; exact ⟨a, mem6 (Or.inl (Or.inr (Or.inr (Or.inl ha)))), hfa⟩
    | queen => obtain ⟨a, ha, hfa⟩ := q2 s hb hatt hpin; exact ⟨a, mem6 (Or.inl (Or.inr (Or.inl ha))), hfa⟩
    | king => obtain ⟨a, ha, hfa⟩ := k2 s hb hatt hpin; exact ⟨a, mem6 (Or.inl (Or.inl ha)), hfa⟩

end Morlock.Proofs.Sargon
