import Morlock.Proofs.BookLoop
/-!
# `sargon.NewBook`, structurally

The loop of `sargon.NewBook` runs over the legal moves of the initial position; `Position.Move` accepts each of them (that is
what "legal" means), and `Strip (Encode ..)` of the successor is its four-field key (`strip_encode_reach`): the loop cannot
panic, every entry is keyed on the initial position or on a successor, keys stay distinct. Only the legality of the replies
is left to evaluation.
-/
namespace Morlock.Proofs.Book
open Morlock Morlock.Model Morlock.Model.Fen Morlock.Model.Book Morlock.Proofs Morlock.Proofs.Fen
open Morlock.Proofs.Gen Morlock.Proofs.Chain

/-- Every entry of the table satisfies `H key replies`. -/
def EntryAll (H : List Char → List Move → Prop) (t : Table) : Prop := ∀ k ms, (k, ms) ∈ t → H k ms

theorem entryAll_set {H : List Char → List Move → Prop} {t : Table} (ht : EntryAll H t) {k : List Char} {ms : List Move}
    (h : H k ms) : EntryAll H (t.set k ms) := by
  induction t with
  | nil =>
    intro k' ms' hm
    simp only [Table.set, List.mem_singleton, Prod.mk.injEq] at hm
    rw [hm.1, hm.2]; exact h
  | cons e rest ih =>
    obtain ⟨k0, ms0⟩ := e
    have hrest : EntryAll H rest := fun k' ms' hm => ht k' ms' (List.mem_cons_of_mem _ hm)
    intro k' ms' hm
    unfold Table.set at hm
    by_cases hk : k0 = k
    · rw [if_pos hk] at hm
      rcases List.mem_cons.mp hm with hm | hm
      · simp only [Prod.mk.injEq] at hm
        rw [hm.1, hm.2]; exact h
      · exact hrest k' ms' hm
    · rw [if_neg hk] at hm
      rcases List.mem_cons.mp hm with hm | hm
      · simp only [Prod.mk.injEq] at hm
        rw [hm.1, hm.2]; exact ht k0 ms0 (List.mem_cons_self ..)
      · exact ih hrest k' ms' hm

theorem keys_set (t : Table) (k : List Char) (ms : List Move) :
    (t.set k ms).map (·.1) = if k ∈ t.map (·.1) then t.map (·.1) else t.map (·.1) ++ [k] := by
  induction t with
  | nil => simp [Table.set]
  | cons e rest ih =>
    obtain ⟨k0, ms0⟩ := e
    unfold Table.set
    by_cases hk : k0 = k
    · rw [if_pos hk]; simp [hk]
    · rw [if_neg hk]
      simp only [List.map_cons, List.mem_cons, ih]
      have hk' : ¬ k = k0 := fun e => hk e.symm
      by_cases hin : k ∈ rest.map (·.1)
      · simp [hin]
      · simp [hin, hk']

theorem nodup_keys_set {t : Table} (h : (t.map (·.1)).Nodup) (k : List Char) (ms : List Move) :
    ((t.set k ms).map (·.1)).Nodup := by
  rw [keys_set]
  by_cases hin : k ∈ t.map (·.1)
  · rw [if_pos hin]; exact h
  · rw [if_neg hin]
    exact List.nodup_append.mpr ⟨h, by simp, by
      intro a ha b hb
      simp only [List.mem_singleton] at hb
      subst hb; intro e; subst e; exact hin ha⟩

/-- `get` after `set`. -/
theorem get_set_self (t : Table) (k : List Char) (ms : List Move) : (t.set k ms).get k = ms := by
  induction t with
  | nil => simp [Table.set, Table.get]
  | cons e rest ih =>
    obtain ⟨k0, ms0⟩ := e
    unfold Table.set
    by_cases hk : k0 = k
    · rw [if_pos hk]; simp [Table.get]
    · rw [if_neg hk]; unfold Table.get; rw [if_neg hk]; exact ih

theorem get_set_other (t : Table) {k k' : List Char} (ms : List Move) (h : k ≠ k') : (t.set k ms).get k' = t.get k' := by
  induction t with
  | nil => simp [Table.set, Table.get, h]
  | cons e rest ih =>
    obtain ⟨k0, ms0⟩ := e
    unfold Table.set
    by_cases hk : k0 = k
    · rw [if_pos hk]
      unfold Table.get
      rw [if_neg h, if_neg (by rw [hk]; exact h)]
    · rw [if_neg hk]
      unfold Table.get
      by_cases hk' : k0 = k'
      · rw [if_pos hk', if_pos hk']
      · rw [if_neg hk', if_neg hk']; exact ih

/-! ## The loop -/

/-- The decoded initial position. -/
def startDecoded : Decoded := ⟨startPos, .white, 0, 1⟩

/-- `response` of `sargon.NewBook`. -/
def sargonResponse (e7e5 d7d5 : Move) (m : Move) : Move := if isQueenSideOrKingPawn m then e7e5 else d7d5

/-- What the entries of the SARGON book are: the initial entry, or the response to a legal first move `m`, keyed on the
    position after `m`. -/
def SargonEntry (init : List Move) (e7e5 d7d5 : Move) (k : List Char) (ms : List Move) : Prop :=
  (k = keyOf startPos .white ∧ ms = init) ∨
  ∃ m ∈ startPos.legalMoves .white, ∃ q, startPos.move m = some q ∧ k = keyOf q .black ∧
    ms = [sargonResponse e7e5 d7d5 m]

theorem reach_first {m : Move} {q : Position} (hm : m ∈ startPos.legalMoves .white) (hq : startPos.move m = some q) :
    GenReach startPos .white q .black :=
  GenReach.step (GenReach.refl _ _) (mem_pseudo_of_legal hm) hq

theorem sargonLoop_spec (init : List Move) (e7e5 d7d5 : Move) : ∀ (ms : List Move) (t : Table),
    (∀ m ∈ ms, m ∈ startPos.legalMoves .white) → EntryAll (SargonEntry init e7e5 d7d5) t → (t.map (·.1)).Nodup →
    ∃ t', sargonLoop startDecoded e7e5 d7d5 t ms = some t' ∧ EntryAll (SargonEntry init e7e5 d7d5) t' ∧
      (t'.map (·.1)).Nodup
  | [], t, _, ht, hnd => ⟨t, rfl, ht, hnd⟩
  | m :: ms, t, hms, ht, hnd => by
    have hm := hms m (List.mem_cons_self ..)
    have hsome : (startPos.move m).isSome = true := by
      unfold Position.legalMoves at hm
      exact (List.mem_filter.mp hm).2
    obtain ⟨q, hq⟩ := Option.isSome_iff_exists.mp hsome
    have hr := reach_first hm hq
    have hstep : sargonStep startDecoded e7e5 d7d5 t m = some (t.set (keyOf q .black) [sargonResponse e7e5 d7d5 m]) := by
      unfold sargonStep startDecoded
      simp only [hq]
      have hs := strip_encode_reach hr 0 1
      simp only [Color.opp] at hs ⊢
      rw [hs]; rfl
    unfold sargonLoop
    rw [hstep]
    exact sargonLoop_spec init e7e5 d7d5 ms _ (fun m' hm' => hms m' (List.mem_cons_of_mem _ hm'))
      (entryAll_set ht (Or.inr ⟨m, hm, q, hq, rfl, rfl⟩)) (nodup_keys_set hnd _ _)


/-! ## Keys are injective on reachable positions; the loop in full -/

theorem encode_toList_keyOf (p : Position) (c : Color) (np fm : Int) :
    (encode p c np fm).toList = keyOf p c ++ ' ' :: ((itoa np).toList ++ ' ' :: (itoa fm).toList) := by
  rw [encode_toList]
  unfold join6 keyOf join4
  simp [List.append_assoc]

/-- Two reachable positions with the same four-field key are the same position with the same side to move. -/
theorem keyOf_inj {p p' : Position} {t t' : Color} (h : GenReach startPos .white p t)
    (h' : GenReach startPos .white p' t') (e : keyOf p t = keyOf p' t') : p = p' ∧ t = t' := by
  have d := (keyOK_of_reach h (reach_castling h)).dec
  have d' := (keyOK_of_reach h' (reach_castling h')).dec
  rw [encode_toList_keyOf] at d d'
  rw [e, d'] at d
  simp only [Option.some.injEq, Decoded.mk.injEq, and_true] at d
  exact ⟨d.1.symm, d.2.symm⟩

/-- The accepted first moves with their successors. -/
def firstSucc (ms : List Move) : List (Move × Position) :=
  ms.filterMap fun m => (startPos.move m).map fun q => (m, q)

theorem sargonLoop_full (init : List Move) (e7e5 d7d5 : Move) : ∀ (ms : List Move) (done : List (Move × Position))
    (t : Table),
    (∀ m ∈ ms, m ∈ startPos.legalMoves .white) →
    (∀ x ∈ done, x.1 ∈ startPos.legalMoves .white ∧ startPos.move x.1 = some x.2) →
    ((done ++ firstSucc ms).map (·.2)).Nodup →
    t.map (·.1) = keyOf startPos .white :: done.map (fun x => keyOf x.2 .black) →
    t.get (keyOf startPos .white) = init →
    (∀ x ∈ done, t.get (keyOf x.2 .black) = [sargonResponse e7e5 d7d5 x.1]) →
    ∃ t', sargonLoop startDecoded e7e5 d7d5 t ms = some t' ∧
      t'.map (·.1) = keyOf startPos .white :: (done ++ firstSucc ms).map (fun x => keyOf x.2 .black) ∧
      t'.get (keyOf startPos .white) = init ∧
      ∀ x ∈ done ++ firstSucc ms, t'.get (keyOf x.2 .black) = [sargonResponse e7e5 d7d5 x.1]
  | [], done, t, _, _, _, hk, h0, hd => by
    refine ⟨t, rfl, ?_, h0, ?_⟩
    · simpa [firstSucc] using hk
    · simpa [firstSucc] using hd
  | m :: ms, done, t, hms, hdone, hnd, hk, h0, hd => by
    have hm := hms m (List.mem_cons_self ..)
    have hsome : (startPos.move m).isSome = true := by
      unfold Position.legalMoves at hm
      exact (List.mem_filter.mp hm).2
    obtain ⟨q, hq⟩ := Option.isSome_iff_exists.mp hsome
    have hr := reach_first hm hq
    have hfs : firstSucc (m :: ms) = (m, q) :: firstSucc ms := by
      unfold firstSucc
      rw [List.filterMap_cons, hq]; rfl
    rw [hfs] at hnd ⊢
    have hstep : sargonStep startDecoded e7e5 d7d5 t m = some (t.set (keyOf q .black) [sargonResponse e7e5 d7d5 m]) := by
      unfold sargonStep startDecoded
      simp only [hq]
      have hs := strip_encode_reach hr 0 1
      simp only [Color.opp] at hs ⊢
      rw [hs]; rfl
    -- the new key is new
    have hne0 : keyOf q .black ≠ keyOf startPos .white := fun e => by
      have := (keyOf_inj hr (GenReach.refl _ _) e).2
      cases this
    have hq_notin : q ∉ done.map (·.2) := by
      intro hin
      rw [List.map_append, List.map_cons] at hnd
      have := (List.nodup_append.mp hnd).2.2 q hin q (List.mem_cons_self ..)
      exact this rfl
    have hneD : ∀ x ∈ done, keyOf q .black ≠ keyOf x.2 .black := by
      intro x hx e
      have hrx := reach_first (hdone x hx).1 (hdone x hx).2
      have := (keyOf_inj hr hrx e).1
      exact hq_notin (List.mem_map.mpr ⟨x, hx, this.symm⟩)
    have hnotin : keyOf q .black ∉ t.map (·.1) := by
      rw [hk]
      intro hin
      rcases List.mem_cons.mp hin with hin | hin
      · exact hne0 hin
      · obtain ⟨x, hx, hxe⟩ := List.mem_map.mp hin
        exact hneD x hx hxe.symm
    unfold sargonLoop
    rw [hstep]
    have hrec := sargonLoop_full init e7e5 d7d5 ms (done ++ [(m, q)])
      (t.set (keyOf q .black) [sargonResponse e7e5 d7d5 m])
      (fun m' hm' => hms m' (List.mem_cons_of_mem _ hm'))
      (by
        intro x hx
        rcases List.mem_append.mp hx with hx | hx
        · exact hdone x hx
        · simp only [List.mem_singleton] at hx
          rw [hx]; exact ⟨hm, hq⟩)
      (by simpa [List.append_assoc] using hnd)
      (by rw [keys_set, if_neg hnotin, hk]; simp)
      (by rw [get_set_other _ _ hne0]; exact h0)
      (by
        intro x hx
        rcases List.mem_append.mp hx with hx | hx
        · rw [get_set_other _ _ (hneD x hx)]; exact hd x hx
        · simp only [List.mem_singleton] at hx
          rw [hx]; exact get_set_self _ _ _)
    simpa [List.append_assoc] using hrec

end Morlock.Proofs.Book
