import Morlock.Proofs.GenOfficers
/-!
# The well-formedness predicate `WF` of C01

`WF p turn` = the views invariant `Rep` plus the chess-level conditions the move-generation theorems
need, the latter as a decidable (`Bool`) predicate `WFc`:

* at most one king per side (the generator moves only the lowest-numbered king);
* castling rights imply the king on its home square (`KingHome`; the generator tests the rook, the
  right and the empty squares, but never where the king stands);
* an en-passant target is a real square, empty, on the sixth rank of the side to move, with an enemy
  pawn directly behind it (the generator only tests that the target is a capture square of the pawn
  not holding an own piece; `Move.EnPassantCapture` assumes the victim's rank).

Not needed (and not assumed): a king on each side, no pawns on the first/last rank, rooks at home.
-/
namespace Morlock.Proofs.Gen
open Morlock Morlock.Model

/-- The square of the pawn an en-passant capture by `turn` onto `ep` removes. -/
def epVictim (turn : Color) (ep : Nat) : Nat :=
  match turn with
  | .white => ep - 8
  | .black => ep + 8

/-- The (0-based) rank of an en-passant target when `turn` is to move. -/
def epRank : Color → Nat
  | .white => 5
  | .black => 2

/-- The decidable chess-level part of `WF`. -/
def WFc (p : Position) (turn : Color) : Bool :=
  decide ((toSquares (p.pieces .white .king)).length ≤ 1) &&
  decide ((toSquares (p.pieces .black .king)).length ≤ 1) &&
  KingHome p &&
  (p.enpassant == 0 ||
    (decide (p.enpassant < 64) && p.square p.enpassant == none &&
      decide (p.enpassant / 8 = epRank turn) &&
      p.square (epVictim turn p.enpassant) == some (turn.opp, Piece.pawn)))

/-- **`WF`**: all views of `p` agree with a mailbox board (necessarily `p.square`), and the
    chess-level conditions `WFc` hold. -/
def WF (p : Position) (turn : Color) : Prop := Rep p p.square ∧ WFc p turn = true

theorem length_ge_two_of_mem {α : Type} {l : List α} {a b : α} (ha : a ∈ l) (hb : b ∈ l) (hne : a ≠ b) :
    2 ≤ l.length := by
  match l, ha, hb with
  | [x], ha, hb =>
    simp only [List.mem_singleton] at ha hb
    exact absurd (ha.trans hb.symm) hne
  | _ :: _ :: _, _, _ => simp

/-- The mailbox-level content of `WFc`. -/
structure WFb (b : Board) (castling ep : Nat) (turn : Color) : Prop where
  king_unique : ∀ c s1 s2, b s1 = some (c, Piece.king) → b s2 = some (c, Piece.king) → s1 = s2
  home_white : (castling &&& wK != 0 || castling &&& wQ != 0) = true → b E1 = some (Color.white, Piece.king)
  home_black : (castling &&& bK != 0 || castling &&& bQ != 0) = true → b E8 = some (Color.black, Piece.king)
  ep_ok : ep ≠ 0 → ep < 64 ∧ b ep = none ∧ ep / 8 = epRank turn ∧
    b (epVictim turn ep) = some (turn.opp, Piece.pawn)

theorem wfb_of_wfc {p : Position} {b : Board} (h : Rep p b) {turn : Color} (hw : WFc p turn = true) :
    WFb b p.castling p.enpassant turn := by
  unfold WFc at hw
  simp only [Bool.and_eq_true, decide_eq_true_eq, Bool.or_eq_true, beq_iff_eq, h.square_eq] at hw
  obtain ⟨⟨⟨hkw, hkb⟩, hkh⟩, hep⟩ := hw
  have hone : ∀ c, (toSquares (p.pieces c .king)).length ≤ 1 := by
    intro c; cases c <;> assumption
  refine ⟨?_, ?_, ?_, ?_⟩
  · intro c s1 s2 h1 h2
    apply Classical.byContradiction
    intro hne
    have m1 : s1 ∈ toSquares (p.pieces c .king) := by
      rw [mem_toSquares (h.piecesLt c .king), h.one c .king s1 (by simp) (h.lt_of_some h1)]; simpa using h1
    have m2 : s2 ∈ toSquares (p.pieces c .king) := by
      rw [mem_toSquares (h.piecesLt c .king), h.one c .king s2 (by simp) (h.lt_of_some h2)]; simpa using h2
    have := length_ge_two_of_mem m1 m2 hne
    have := hone c
    omega
  · intro hr
    unfold KingHome at hkh
    simp only [Bool.and_eq_true, Bool.or_eq_true, Bool.not_eq_true', beq_iff_eq, h.square_eq] at hkh
    rcases hkh.1 with h1 | h1
    · rw [h1] at hr; cases hr
    · exact h1
  · intro hr
    unfold KingHome at hkh
    simp only [Bool.and_eq_true, Bool.or_eq_true, Bool.not_eq_true', beq_iff_eq, h.square_eq] at hkh
    rcases hkh.2 with h1 | h1
    · rw [h1] at hr; cases hr
    · exact h1
  · intro hne
    rcases hep with h0 | ⟨⟨⟨h1, h2⟩, h3⟩, h4⟩
    · exact absurd h0 hne
    · exact ⟨h1, h2, h3, h4⟩

theorem WF.rep {p : Position} {turn : Color} (h : WF p turn) : Rep p p.square := h.1

theorem WF.wfb {p : Position} {turn : Color} (h : WF p turn) :
    WFb p.square p.castling p.enpassant turn := wfb_of_wfc h.1 h.2

end Morlock.Proofs.Gen
