import Morlock.Proofs.FltRnd
/-! # Monotonicity of rounding -/
namespace Morlock.Model.Flt

/-- the result pair of `rndPos` before the overflow test -/
def rndFin (f : Fmt) (a b : Nat) : Nat × Int := carry f (sig0 f a b) (expo f a b)

theorem rndPos_eq_fin (f : Fmt) (a b : Nat) :
    rndPos f a b = if (rndFin f a b).2 + ((f.p : Int) - 1) > f.emax then none else some (rndFin f a b) :=
  rndPos_eq' f a b

/-- order of pair values is transitive: `m₁2^e₁ ≤ m₂2^e₂ ≤ m₃2^e₃` -/
theorem ple_trans {m1 m2 m3 : Nat} {e1 e2 e3 : Int}
    (h1 : m1 * pn e1 * pd e2 ≤ m2 * pn e2 * pd e1) (h2 : m2 * pn e2 * pd e3 ≤ m3 * pn e3 * pd e2) :
    m1 * pn e1 * pd e3 ≤ m3 * pn e3 * pd e1 := by
  have : m1 * pn e1 * pd e3 * pd e2 ≤ m3 * pn e3 * pd e1 * pd e2 := by
    calc m1 * pn e1 * pd e3 * pd e2 = m1 * pn e1 * pd e2 * pd e3 := by grind
      _ ≤ m2 * pn e2 * pd e1 * pd e3 := Nat.mul_le_mul_right _ h1
      _ = m2 * pn e2 * pd e3 * pd e1 := by grind
      _ ≤ m3 * pn e3 * pd e2 * pd e1 := Nat.mul_le_mul_right _ h2
      _ = m3 * pn e3 * pd e1 * pd e2 := by grind
  exact Nat.le_of_mul_le_mul_right this (pd_pos _)

/-- renormalisation keeps the value -/
theorem carry_val (f : Fmt) (hp : 1 ≤ f.p) (m : Nat) (e : Int) :
    (carry f m e).1 * pn (carry f m e).2 * pd e = m * pn e * pd (carry f m e).2 := by
  unfold carry
  split
  · rename_i h
    have h : m = 2 ^ f.p := by simpa using h
    subst h
    simp only []
    have := pn_pd_shift e 1
    simp only [Int.natCast_one, Nat.pow_one] at this
    calc 2 ^ (f.p - 1) * pn (e + 1) * pd e = 2 ^ (f.p - 1) * (pn (e + 1) * pd e) := by grind
      _ = 2 ^ (f.p - 1) * (2 * pn e * pd (e + 1)) := by rw [this]
      _ = 2 * 2 ^ (f.p - 1) * pn e * pd (e + 1) := by grind
      _ = 2 ^ f.p * pn e * pd (e + 1) := by rw [two_pow_pred hp]
  · rfl

/-- the values before renormalisation are monotone -/
theorem pre_mono (f : Fmt) (hp : 1 ≤ f.p) {a b a' b' : Nat} (ha : 0 < a) (hb : 0 < b) (ha' : 0 < a') (hb' : 0 < b')
    (hr : a * b' ≤ a' * b) :
    sig0 f a b * pn (expo f a b) * pd (expo f a' b') ≤ sig0 f a' b' * pn (expo f a' b') * pd (expo f a b) := by
  have hee := expo_mono (f := f) hp ha hb ha' hb' hr
  have hE := expo_spec f hp ha hb
  have hE' := expo_spec f hp ha' hb'
  have hm := sig0_le f hp ha hb
  obtain ⟨K, hK⟩ : ∃ K : Nat, expo f a' b' = expo f a b + K := ⟨(expo f a' b' - expo f a b).toNat, by omega⟩
  rcases Nat.eq_zero_or_pos K with hK0 | hK0
  · subst hK0
    have he : expo f a' b' = expo f a b := by omega
    have : sig0 f a b ≤ sig0 f a' b' := by
      unfold sig0
      rw [he]
      apply rhe_mono (Nat.mul_pos hb (pn_pos _)) (Nat.mul_pos hb' (pn_pos _))
      calc a * pd (expo f a b) * (b' * pn (expo f a b)) = a * b' * (pd (expo f a b) * pn (expo f a b)) := by grind
        _ ≤ a' * b * (pd (expo f a b) * pn (expo f a b)) := Nat.mul_le_mul_right _ hr
        _ = a' * pd (expo f a b) * (b * pn (expo f a b)) := by grind
    rw [he]
    exact Nat.mul_le_mul_right _ (Nat.mul_le_mul_right _ this)
  · have hl : 2 ^ (f.p - 1) ≤ sig0 f a' b' := by
      rcases hE'.lower with h0 | h0
      · have := hE.ge; omega
      · exact sig0_ge f hb' h0
    have hs := pn_pd_shift (expo f a b) K
    rw [← hK] at hs
    have h2K : 2 ≤ 2 ^ K := by
      calc 2 = 2 ^ 1 := rfl
        _ ≤ 2 ^ K := Nat.pow_le_pow_right (by decide) hK0
    have h3 : sig0 f a b ≤ 2 ^ K * sig0 f a' b' := by
      calc sig0 f a b ≤ 2 ^ f.p := hm
        _ = 2 * 2 ^ (f.p - 1) := (two_pow_pred hp).symm
        _ ≤ 2 ^ K * sig0 f a' b' := Nat.mul_le_mul h2K hl
    calc sig0 f a b * pn (expo f a b) * pd (expo f a' b')
        = sig0 f a b * (pn (expo f a b) * pd (expo f a' b')) := by grind
      _ ≤ 2 ^ K * sig0 f a' b' * (pn (expo f a b) * pd (expo f a' b')) := Nat.mul_le_mul_right _ h3
      _ = sig0 f a' b' * (2 ^ K * pn (expo f a b) * pd (expo f a' b')) := by grind
      _ = sig0 f a' b' * (pn (expo f a' b') * pd (expo f a b)) := by rw [hs]
      _ = sig0 f a' b' * pn (expo f a' b') * pd (expo f a b) := by grind

theorem fin_mono (f : Fmt) (hp : 1 ≤ f.p) {a b a' b' : Nat} (ha : 0 < a) (hb : 0 < b) (ha' : 0 < a') (hb' : 0 < b')
    (hr : a * b' ≤ a' * b) :
    (rndFin f a b).1 * pn (rndFin f a b).2 * pd (rndFin f a' b').2 ≤
      (rndFin f a' b').1 * pn (rndFin f a' b').2 * pd (rndFin f a b).2 := by
  have h1 := carry_val f hp (sig0 f a b) (expo f a b)
  have h2 := carry_val f hp (sig0 f a' b') (expo f a' b')
  exact ple_trans (ple_trans (Nat.le_of_eq h1) (pre_mono f hp ha hb ha' hb' hr)) (Nat.le_of_eq h2.symm)

/-- `rndPos` is monotone: `a/b ≤ a'/b'` ⟹ `m·2^e ≤ m'·2^e'` -/
theorem rndPos_mono (f : Fmt) (hp : 1 ≤ f.p) {a b a' b' m m' : Nat} {e e' : Int}
    (ha : 0 < a) (hb : 0 < b) (ha' : 0 < a') (hb' : 0 < b') (hr : a * b' ≤ a' * b)
    (h : rndPos f a b = some (m, e)) (h' : rndPos f a' b' = some (m', e')) :
    m * pn e * pd e' ≤ m' * pn e' * pd e := by
  have := fin_mono f hp ha hb ha' hb' hr
  rw [rndPos_eq_fin] at h h'
  split at h
  · simp at h
  split at h'
  · simp at h'
  have e1 : rndFin f a b = (m, e) := by simpa using h
  have e2 : rndFin f a' b' = (m', e') := by simpa using h'
  rw [e1, e2] at this
  exact this

theorem rndFin_normal (f : Fmt) (hp : 1 ≤ f.p) {a b : Nat} (ha : 0 < a) (hb : 0 < b) :
    (rndFin f a b).1 < 2 ^ f.p ∧ f.emin ≤ (rndFin f a b).2 ∧
      (2 ^ (f.p - 1) ≤ (rndFin f a b).1 ∨ (rndFin f a b).2 = f.emin) := by
  have hE := expo_spec f hp ha hb
  have hle := sig0_le f hp ha hb
  have hn := sig0_normal f hp ha hb
  have hP := two_pow_pred hp
  have hPpos := Nat.two_pow_pos (f.p - 1)
  unfold rndFin carry
  split
  · simp only []
    exact ⟨by omega, by have := hE.ge; omega, Or.inl (Nat.le_refl _)⟩
  · rename_i h
    have h : sig0 f a b ≠ 2 ^ f.p := by simpa using h
    simp only []
    exact ⟨by omega, hE.ge, hn⟩

/-- the exponents of normalised pairs are ordered like the values -/
theorem exp_le_of_ple (f : Fmt) (hp : 1 ≤ f.p) {m m' : Nat} {e e' : Int}
    (hn : 2 ^ (f.p - 1) ≤ m ∨ e = f.emin) (hm' : m' < 2 ^ f.p) (he' : f.emin ≤ e')
    (h : m * pn e * pd e' ≤ m' * pn e' * pd e) : e ≤ e' := by
  rcases Int.lt_or_le e' e with hlt | hle
  case inr => exact hle
  exfalso
  have hm : 2 ^ (f.p - 1) ≤ m := by
    rcases hn with h0 | h0
    · exact h0
    · omega
  obtain ⟨K, hK⟩ : ∃ K : Nat, e = e' + K := ⟨(e - e').toNat, by omega⟩
  have hs := pn_pd_shift e' K
  rw [← hK] at hs
  have hK0 : 0 < K := by omega
  have h2K : 2 ≤ 2 ^ K := by
    calc 2 = 2 ^ 1 := rfl
      _ ≤ 2 ^ K := Nat.pow_le_pow_right (by decide) hK0
  have hX : 0 < pn e' * pd e := Nat.mul_pos (pn_pos _) (pd_pos _)
  have : 2 ^ f.p * (pn e' * pd e) ≤ m' * (pn e' * pd e) := by
    calc 2 ^ f.p * (pn e' * pd e) = 2 * 2 ^ (f.p - 1) * (pn e' * pd e) := by rw [two_pow_pred hp]
      _ ≤ 2 ^ K * m * (pn e' * pd e) := Nat.mul_le_mul_right _ (Nat.mul_le_mul h2K hm)
      _ = m * (2 ^ K * pn e' * pd e) * pd e' / pd e' := by
          rw [Nat.mul_div_cancel _ (pd_pos _)]; grind
      _ = m * (pn e * pd e') * pd e' / pd e' := by rw [hs]
      _ = m * pn e * pd e' * pd e' / pd e' := by grind
      _ ≤ m' * pn e' * pd e * pd e' / pd e' := Nat.div_le_div_right (Nat.mul_le_mul_right _ h)
      _ = m' * (pn e' * pd e) := by rw [Nat.mul_div_cancel _ (pd_pos _)]; grind
  have := Nat.le_of_mul_le_mul_right this hX
  omega

/-- overflow is monotone: below a value that rounds to a finite number, everything rounds to a finite number -/
theorem rndPos_isSome_mono (f : Fmt) (hp : 1 ≤ f.p) {a b a' b' : Nat}
    (ha : 0 < a) (hb : 0 < b) (ha' : 0 < a') (hb' : 0 < b') (hr : a * b' ≤ a' * b)
    (h' : (rndPos f a' b').isSome) : (rndPos f a b).isSome := by
  have hm := fin_mono f hp ha hb ha' hb' hr
  have n1 := rndFin_normal f hp ha hb
  have n2 := rndFin_normal f hp ha' hb'
  have hle := exp_le_of_ple f hp n1.2.2 n2.1 n2.2.1 hm
  rw [rndPos_eq_fin] at h' ⊢
  split at h'
  · simp at h'
  rename_i hno
  have : ¬ ((rndFin f a b).2 + ((f.p : Int) - 1) > f.emax) := by omega
  simp [this]

end Morlock.Model.Flt
