import Morlock.Proofs.RepMove
import Morlock.Proofs.DrawLine
/-!
# C05: a measure on mailbox boards that no move increases and every pawn move or capture decreases

`mu b` = Σ over the 64 squares of a weight: an officer or king weighs 1, a white pawn on rank `r` (0-based)
weighs `8 - r`, a black pawn `1 + r`. A capture removes weight, a pawn step forward loses weight, a
promotion replaces a pawn (weight ≥ 2) by an officer (weight 1), everything else keeps the weight.
This is why a position before the last pawn move or capture cannot recur (`Irreversible`).
-/
namespace Morlock.Proofs.Draw
open Morlock Morlock.Model Morlock.Proofs

/-! ## sums over the squares -/

def sumTo : Nat → (Nat → Nat) → Nat
  | 0, _ => 0
  | n + 1, f => sumTo n f + f n

theorem sumTo_congr {n : Nat} {f g : Nat → Nat} (h : ∀ i, i < n → f i = g i) : sumTo n f = sumTo n g := by
  induction n with
  | zero => rfl
  | succ n ih =>
    simp only [sumTo]
    rw [ih (fun i hi => h i (by omega)), h n (by omega)]

/-- Changing one summand. -/
theorem sumTo_update {n : Nat} {f g : Nat → Nat} {sq : Nat} (hsq : sq < n) (h : ∀ i, i ≠ sq → g i = f i) :
    sumTo n g + f sq = sumTo n f + g sq := by
  induction n with
  | zero => omega
  | succ n ih =>
    simp only [sumTo]
    by_cases e : sq = n
    · subst e
      rw [sumTo_congr (f := g) (g := f) (fun i hi => h i (by omega))]
      omega
    · rw [h n (fun c => e c.symm)]
      have := ih (by omega)
      omega

/-! ## the weight -/

/-- Weight of a cell on square `sq`. -/
def wt (v : Option (Color × Piece)) (sq : Nat) : Nat :=
  match v with
  | none => 0
  | some (c, k) => if k = .pawn then (match c with | .white => 8 - sq / 8 | .black => 1 + sq / 8) else 1

/-- The measure of a mailbox board. -/
def mu (b : Proofs.Board) : Nat := sumTo 64 (fun sq => wt (b sq) sq)

theorem wt_none (sq : Nat) : wt none sq = 0 := rfl

theorem wt_officer {c : Color} {k : Piece} (hk : k ≠ .pawn) (sq : Nat) : wt (some (c, k)) sq = 1 := by
  simp [wt, hk]

theorem wt_pos (c : Color) (k : Piece) {sq : Nat} (hsq : sq < 64) : 1 ≤ wt (some (c, k)) sq := by
  unfold wt
  by_cases hk : k = .pawn
  · cases c <;> simp [hk] <;> omega
  · simp [hk]

theorem mu_upd (b : Proofs.Board) {sq : Nat} (hsq : sq < 64) (v : Option (Color × Piece)) :
    mu (upd b sq v) + wt (b sq) sq = mu b + wt v sq := by
  unfold mu
  have := sumTo_update (n := 64) (f := fun s => wt (b s) s) (g := fun s => wt (upd b sq v s) s) hsq
    (fun i hi => by simp only [upd_other b v hi])
  simpa using this

/-! ## sound moves -/

/-- A pawn of colour `t` moves towards its promotion rank. -/
def forward (t : Color) (fr to : Nat) : Bool :=
  match t with
  | .white => decide (fr / 8 < to / 8)
  | .black => decide (to / 8 < fr / 8)

/-- The move type is sound for the clock, pawns move forward, and only pawns promote: the type resets
the clock (`isReset`) exactly when a pawn moves or the destination is occupied, a pawn moves towards its
promotion rank, and a promotion type is only carried by a pawn move. Chess guarantees all three;
`Position.move` checks none of them. -/
def MoveSound (b : Proofs.Board) (m : Move) : Bool :=
  match b m.from with
  | none => false
  | some (t, pc) =>
    (isReset m == (pc == .pawn || (b m.to).isSome)) && (pc != .pawn || forward t m.from m.to) &&
      (!m.isPromotion || pc == .pawn)

/-- Weight of the moved piece at its destination against its weight at the origin. -/
theorem wt_moved {t : Color} {pc : Piece} {m : Move} (hto : m.to < 64)
    (hpromo : m.isPromotion = true → m.promotion ≠ .pawn)
    (hfw : pc = .pawn → forward t m.from m.to = true) :
    wt (some (t, movedPiece m pc)) m.to ≤ wt (some (t, pc)) m.from ∧
    (pc = .pawn → wt (some (t, movedPiece m pc)) m.to < wt (some (t, pc)) m.from) := by
  by_cases hp : pc = .pawn
  · subst hp
    have hf := hfw rfl
    unfold movedPiece
    by_cases hprom : m.isPromotion = true
    · have := hpromo hprom
      rw [if_pos hprom, wt_officer this]
      cases t <;> simp [wt, forward] at hf ⊢ <;> omega
    · rw [if_neg hprom]
      cases t <;> simp [wt, forward] at hf ⊢ <;> omega
  · refine ⟨?_, fun h => absurd h hp⟩
    rw [wt_officer hp]
    unfold movedPiece
    by_cases hprom : m.isPromotion = true
    · rw [if_pos hprom, wt_officer (hpromo hprom)]; omega
    · rw [if_neg hprom, wt_officer hp]; omega

theorem promoOK_ne_pawn {m : Move} (h : promoOK m = true) : m.promotion ≠ .pawn := by
  unfold promoOK at h; intro e; rw [e] at h; simp at h

/-- **No move increases the measure, and every clock-resetting move decreases it.** -/
theorem mu_boardAfter {b : Proofs.Board} {m : Move} (hout : ∀ sq, 64 ≤ sq → b sq = none)
    (hok : MetaOKb b m = true) (hs : MoveSound b m = true) :
    mu (boardAfter b m) ≤ mu b ∧ (isReset m = true → mu (boardAfter b m) < mu b) := by
  cases hsq : b m.from with
  | none => unfold MetaOKb at hok; rw [hsq] at hok; cases hok
  | some x =>
    obtain ⟨turn, pc⟩ := x
    have hfr : m.from < 64 := by
      apply Classical.byContradiction; intro hn
      have := hout m.from (by omega); rw [hsq] at this; cases this
    unfold MetaOKb at hok; rw [hsq] at hok
    simp only [Bool.and_eq_true, beq_iff_eq, decide_eq_true_eq] at hok
    obtain ⟨⟨hpc, hto⟩, hty⟩ := hok
    unfold MoveSound at hs; rw [hsq] at hs
    simp only [Bool.and_eq_true, beq_iff_eq, Bool.or_eq_true, bne_iff_ne, ne_eq] at hs
    obtain ⟨⟨hreset, hfw⟩, _⟩ := hs
    have hfw' : pc = .pawn → forward turn m.from m.to = true := by
      intro h; rcases hfw with h' | h'
      · exact absurd h (by simpa using h')
      · exact h'
    -- the common part: lift the piece, put it down on `to`
    have hcommon : ∀ (hpromo : m.isPromotion = true → m.promotion ≠ .pawn) (hne : m.to ≠ m.from),
        mu (upd (upd b m.from none) m.to (some (turn, movedPiece m pc))) + wt (b m.to) m.to +
          wt (some (turn, pc)) m.from = mu b + wt (some (turn, movedPiece m pc)) m.to := by
      intro _ hne
      have h1 := mu_upd b hfr none
      have h2 := mu_upd (upd b m.from none) hto (some (turn, movedPiece m pc))
      rw [upd_other _ _ hne] at h2
      rw [hsq, wt_none] at h1
      omega
    have hne_of : (b m.to = none ∨ ∃ k, b m.to = some (turn.opp, k)) → m.to ≠ m.from := by
      intro hh e; rw [e, hsq] at hh
      rcases hh with hh | ⟨k, hh⟩
      · cases hh
      · exact Color.opp_ne turn (Prod.mk.inj (Option.some.inj hh)).1.symm
    unfold boardAfter; rw [hsq]; simp only
    cases ety : m.ty <;> rw [ety] at hty <;>
      simp only [Bool.and_eq_true, beq_iff_eq, bne_iff_ne, ne_eq] at hty <;>
      simp only []
    case enPassant =>
      obtain ⟨hto0, hvic⟩ := hty
      have hne := hne_of (Or.inl hto0)
      have hp : m.isPromotion = false := by simp [Move.isPromotion, ety]
      have hc := hcommon (fun h => by rw [hp] at h; cases h) hne
      rw [hto0, wt_none] at hc
      have hres : isReset m = true := by simp [isReset, Move.isCastle, ety]
      have hpawn : pc = .pawn := by
        rw [hto0, hres] at hreset; simpa using hreset.symm
      have hm := wt_moved (t := turn) (pc := pc) (m := m) hto (fun h => by rw [hp] at h; cases h) hfw'
      have hlt : m.enPassantCapture < 64 := by
        apply Classical.byContradiction; intro hn
        have := hout m.enPassantCapture (by omega); rw [hvic] at this; cases this
      have h3 := mu_upd (upd (upd b m.from none) m.to (some (turn, movedPiece m pc))) hlt none
      rw [wt_none] at h3
      have := hm.2 hpawn
      exact ⟨by omega, fun _ => by omega⟩
    case kingSideCastle | queenSideCastle =>
      obtain ⟨⟨⟨hto0, hrf⟩, hrt⟩, hne2⟩ := hty
      have hne := hne_of (Or.inl hto0)
      have hp : m.isPromotion = false := by simp [Move.isPromotion, ety]
      have hc := hcommon (fun h => by rw [hp] at h; cases h) hne
      rw [hto0, wt_none] at hc
      have hm := wt_moved (t := turn) (pc := pc) (m := m) hto (fun h => by rw [hp] at h; cases h) hfw'
      have hrr : m.castlingRookMove.1 ≠ m.castlingRookMove.2 := by
        intro e; rw [e, hrt] at hrf; cases hrf
      obtain ⟨f1, f2, f3, f4⟩ := castlingRookMove_facts m hrr
      have hne1 : m.castlingRookMove.1 ≠ m.to := by
        intro e; rw [e, hto0] at hrf; cases hrf
      have h3 := mu_upd (upd (upd b m.from none) m.to (some (turn, movedPiece m pc))) f3 none
      rw [upd_other _ _ hne1, upd_other _ _ f1, hrf, wt_none, wt_officer (by decide)] at h3
      have h4 := mu_upd (upd (upd (upd b m.from none) m.to (some (turn, movedPiece m pc))) m.castlingRookMove.1 none)
        f4 (some (turn, Piece.rook))
      rw [upd_other _ _ (Ne.symm hrr), upd_other _ _ hne2, upd_other _ _ f2, hrt, wt_none,
        wt_officer (by decide)] at h4
      have hres : isReset m = false := by simp [isReset, Move.isCastle, ety]
      exact ⟨by omega, fun h => by rw [hres] at h; cases h⟩
    case capture =>
      have hne := hne_of (Or.inr ⟨_, hty⟩)
      have hp : m.isPromotion = false := by simp [Move.isPromotion, ety]
      have hc := hcommon (fun h => by rw [hp] at h; cases h) hne
      have hm := wt_moved (t := turn) (pc := pc) (m := m) hto (fun h => by rw [hp] at h; cases h) hfw'
      have hw := wt_pos turn.opp m.capture hto
      rw [hty] at hc
      exact ⟨by omega, fun _ => by omega⟩
    case capturePromotion =>
      have hne := hne_of (Or.inr ⟨_, hty.1⟩)
      have hc := hcommon (fun _ => promoOK_ne_pawn hty.2) hne
      have hm := wt_moved (t := turn) (pc := pc) (m := m) hto (fun _ => promoOK_ne_pawn hty.2) hfw'
      have hw := wt_pos turn.opp m.capture hto
      rw [hty.1] at hc
      exact ⟨by omega, fun _ => by omega⟩
    case promotion =>
      have hne := hne_of (Or.inl hty.1)
      have hc := hcommon (fun _ => promoOK_ne_pawn hty.2) hne
      have hm := wt_moved (t := turn) (pc := pc) (m := m) hto (fun _ => promoOK_ne_pawn hty.2) hfw'
      rw [hty.1, wt_none] at hc
      have hres : isReset m = true := by simp [isReset, Move.isCastle, ety]
      have hpawn : pc = .pawn := by
        rw [hty.1, hres] at hreset; simpa using hreset.symm
      have := hm.2 hpawn
      exact ⟨by omega, fun _ => by omega⟩
    case normal =>
      have hne := hne_of (Or.inl hty)
      have hp : m.isPromotion = false := by simp [Move.isPromotion, ety]
      have hc := hcommon (fun h => by rw [hp] at h; cases h) hne
      have hm := wt_moved (t := turn) (pc := pc) (m := m) hto (fun h => by rw [hp] at h; cases h) hfw'
      rw [hty, wt_none] at hc
      have hres : isReset m = false := by simp [isReset, Move.isCastle, ety]
      exact ⟨by omega, fun h => by rw [hres] at h; cases h⟩
    all_goals
      have hne := hne_of (Or.inl hty)
      have hp : m.isPromotion = false := by simp [Move.isPromotion, ety]
      have hc := hcommon (fun h => by rw [hp] at h; cases h) hne
      have hm := wt_moved (t := turn) (pc := pc) (m := m) hto (fun h => by rw [hp] at h; cases h) hfw'
      rw [hty, wt_none] at hc
      have hres : isReset m = true := by simp [isReset, Move.isCastle, ety]
      have hpawn : pc = .pawn := by
        rw [hty, hres] at hreset; simpa using hreset.symm
      have := hm.2 hpawn
      exact ⟨by omega, fun _ => by omega⟩

end Morlock.Proofs.Draw
