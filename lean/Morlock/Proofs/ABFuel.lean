import Morlock.Proofs.ABNode
/-!
# Enough fuel: when the fuel cut-off of the quiescence search is immaterial (helper for C13)

`QDone fuel p`: every line of explored legal moves from `p` reaches a drawn position or a position
without explored legal moves in fewer than `fuel` plies. Then the reference value `Q` no longer depends on
the fuel, and `Model.quiesce` never reports `fuelOut`.
-/
namespace Morlock.Proofs.AB
open Morlock Morlock.Model Morlock.Model.Score Morlock.Spec
variable {P : Type}

/-- The explored quiescence tree below `p` is exhausted with `fuel` plies of fuel. -/
def QDone (g : Game P) (ex : P → Explore) : Nat → P → Prop
  | 0, _ => False
  | fuel + 1, p =>
    g.isDraw p = true ∨ ∀ m c, m ∈ g.moves p → (ex p).pick m = true → g.push p m = some c → QDone g ex fuel c

theorem mem_kids {g : Game P} {ex : P → Explore} {p : P} {l : List Move} {c : P} (h : c ∈ kids g ex p l) :
    ∃ m, m ∈ l ∧ (ex p).pick m = true ∧ g.push p m = some c := by
  unfold kids at h
  simp only [List.mem_filterMap] at h
  obtain ⟨m, hm, e⟩ := h
  by_cases hp : (ex p).pick m = true
  · simp only [hp, if_true] at e; exact ⟨m, hm, hp, e⟩
  · simp [hp] at e

/-- With enough fuel the reference quiescence value does not depend on the fuel. -/
theorem Q_stable (g : Game P) (ex : P → Explore) :
    ∀ fuel p, QDone g ex fuel p → ∀ fuel', fuel ≤ fuel' → Q g ex fuel' p = Q g ex fuel p := by
  intro fuel
  induction fuel with
  | zero => intro p h; simp [QDone] at h
  | succ fuel ih =>
    intro p h fuel' hle
    obtain ⟨f', rfl⟩ : ∃ f', fuel' = f' + 1 := ⟨fuel' - 1, by omega⟩
    simp only [QDone] at h
    simp only [Q]
    rcases h with h | h
    · simp [h]
    · have : ((kids g ex p (g.moves p)).map fun c => lift (Q g ex f' c)) =
          ((kids g ex p (g.moves p)).map fun c => lift (Q g ex fuel c)) := by
        apply List.map_congr_left
        intro c hc
        obtain ⟨m, hm, hp, hpush⟩ := mem_kids hc
        rw [ih c (h m c hm hp hpush) f' (by omega)]
      rw [this]

theorem quiesceLoop_fuelOut {g : Game P} {ex : P → Explore} {rec : P → Score → Score → SState → Score × SState} {p : P}
    {b : Score} :
    ∀ (l : List Move),
      (∀ m c, m ∈ l → (ex p).pick m = true → g.push p m = some c → ∀ a b st, (rec c a b st).2.fuelOut = st.fuelOut) →
      ∀ (a : Score) (hl : Bool) (st : SState), (quiesceLoop g ex rec p b l a hl st).2.2.fuelOut = st.fuelOut := by
  intro l
  induction l with
  | nil => intro _ a hl st; rfl
  | cons m rest ih =>
    intro hrec a hl st
    have ih' := ih (fun m' c hm => hrec m' c (List.mem_cons_of_mem _ hm))
    cases hpush : g.push p m with
    | none => simp only [quiesceLoop, childOf, hpush]; exact ih' _ _ _
    | some c =>
      cases hp : (ex p).pick m with
      | false =>
        simp only [quiesceLoop, childOf, hpush, hp, Bool.false_eq_true, if_false]
        split
        · rfl
        · exact ih' _ _ _
      | true =>
        have := hrec m c List.mem_cons_self hp hpush (childBound b) (childBound a) st
        simp only [quiesceLoop, childOf, hpush, hp, if_true]
        split
        · exact this
        · rw [ih' _ _ _]; exact this

/-- With enough fuel `Model.quiesce` never sets `fuelOut` (for any window and any state, cancelled or not). -/
theorem quiesce_fuelOut (g : Game P) (ex : P → Explore) :
    ∀ fuel p, QDone g ex fuel p → ∀ a b st, (quiesce g ex fuel p a b st).2.fuelOut = st.fuelOut := by
  intro fuel
  induction fuel with
  | zero => intro p h; simp [QDone] at h
  | succ fuel ih =>
    intro p h a b st
    simp only [QDone] at h
    simp only [quiesce]
    split
    · simp [poll]
    · split
      · simp [poll]
      · rename_i hnd
        have hkids : ∀ m c, m ∈ heapOrder (g.moves p) (ex p).prio → (ex p).pick m = true → g.push p m = some c →
            ∀ a b st, (quiesce g ex fuel c a b st).2.fuelOut = st.fuelOut := by
          intro m c hm hp hpush
          rcases h with h | h
          · exact absurd h hnd
          · exact ih c (h m c ((ABHeap.heapOrder_perm _ _).mem_iff.1 hm) hp hpush)
        have := quiesceLoop_fuelOut (b := b) _ hkids (Score.max a (heuristicScore (g.eval p))) false
          { (poll st).2 with nodes := (poll st).2.nodes + 1 }
        split <;> (rw [this]; simp [poll])

end Morlock.Proofs.AB
