import Morlock.Proofs.SargonEval
import Morlock.Proofs.FltOps
/-!
# SARGON, part 5: the float32 facts used by `Points.Evaluate`, from `Proofs/FltLemmas` (agent `flt`)

`fltFacts : FltFacts` — an `add`/`mul`/`div`-by-a-positive-integer whose exact result is at most `2^k ≤ 2^127` in
magnitude is finite, and the rounded result is still at most `2^k` (a power of two is a float32).
-/
namespace Morlock.Proofs.Sargon
open Morlock Morlock.Model Morlock.Model.Flt

theorem absLe_iff (x : Q) (B : Nat) : AbsLe x B ↔ Q.AbsLe x B := Iff.rfl

/-- `2^k`, `k ≤ 127`, is a float32 -/
theorem rep_two_pow (k : Nat) (hk : k ≤ 127) : Flt.Rep f32 (Q.ofInt ((2 ^ k : Nat) : Int)) := by
  refine ⟨2 ^ 23, (k : Int) - 23, by decide, by simp only [f32]; omega, by simp only [f32]; omega, ?_⟩
  simp only [Q.ofInt, pd, pn, Int.natAbs_natCast, Nat.mul_one]
  have e1 : (-((k : Int) - 23)).toNat = 23 - k := by omega
  have e2 : ((k : Int) - 23).toNat = k - 23 := by omega
  rw [e1, e2, ← Nat.pow_add, ← Nat.pow_add]
  congr 1; omega

/-- a power-of-two bound survives rounding, and the rounding is finite -/
theorem rnd_pow_bound {x : Q} {k : Nat} (hk : k ≤ 127) (hd : 0 < x.den) (hb : AbsLe x (2 ^ k)) :
    ∃ z, rnd f32 x = some z ∧ 0 < z.den ∧ AbsLe z (2 ^ k) := by
  have hrep := rep_two_pow k hk
  have hxd : (0 : Int) ≤ x.den := Int.natCast_nonneg _
  have hbI : (x.num.natAbs : Int) ≤ ((2 ^ k : Nat) : Int) * x.den := by
    have : ((x.num.natAbs : Nat) : Int) ≤ (((2 ^ k) * x.den : Nat) : Int) := Int.ofNat_le.mpr hb
    simpa [Int.natCast_mul] using this
  have hlo : Q.Le (Q.ofInt ((2 ^ k : Nat) : Int)).neg x := by
    simp only [Q.Le, Q.neg, Q.ofInt, Int.neg_mul]
    omega
  have hhi : Q.Le x (Q.ofInt ((2 ^ k : Nat) : Int)) := by
    simp only [Q.Le, Q.ofInt]
    omega
  obtain ⟨y, hy, h1, h2⟩ := rnd_abs_le f32 f32_wf hd (by simp [Q.ofInt]) hrep hlo hhi
  refine ⟨y, hy, (rnd_canon f32 hy).1, ?_⟩
  simp only [Q.Le, Q.neg, Q.ofInt, Int.neg_mul] at h1 h2
  unfold AbsLe
  have : ((y.num.natAbs : Nat) : Int) ≤ (((2 ^ k) * y.den : Nat) : Int) := by
    simp only [Int.natCast_mul]; omega
  exact Int.ofNat_le.mp this

theorem fltFacts : FltFacts where
  add_ok := by
    intro x y A B k hx hy ha hb hAB hk
    exact rnd_pow_bound hk (Q.add_canon hx hy).1 (Q.AbsLe.mono (Q.AbsLe.add hx hy ha hb) hAB)
  mul_ok := by
    intro x y A B k hx hy ha hb hAB hk
    exact rnd_pow_bound hk (Q.mul_canon hx hy).1 (Q.AbsLe.mono (Q.AbsLe.mul hx hy ha hb) hAB)
  div_ok := by
    intro x d A k hx hd ha hA hk
    have hy0 : (Q.ofInt d).num ≠ 0 := by simp only [Q.ofInt]; omega
    have hne : ((Q.ofInt d).num == 0) = false := by simpa using hy0
    unfold Flt.div
    rw [hne]
    simp only [Bool.false_eq_true, if_false]
    apply rnd_pow_bound hk (Q.div_canon hx hy0).1
    rw [Q.div_eq]
    have hdp := Q.divRaw_den_pos hx hy0
    apply Q.AbsLe.norm hdp
    obtain ⟨e1, e2⟩ := Q.divRaw_abs x (Q.ofInt d)
    unfold Q.AbsLe
    rw [e1, e2]
    simp only [Q.ofInt, Nat.mul_one]
    have h1 : 1 ≤ d.natAbs := by omega
    calc x.num.natAbs ≤ A * x.den := ha
      _ ≤ 2 ^ k * x.den := Nat.mul_le_mul_right _ hA
      _ = 2 ^ k * (x.den * 1) := by rw [Nat.mul_one]
      _ ≤ 2 ^ k * (x.den * d.natAbs) := Nat.mul_le_mul_left _ (Nat.mul_le_mul_left _ h1)

end Morlock.Proofs.Sargon
