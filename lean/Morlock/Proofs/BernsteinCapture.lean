import Morlock.Proofs.BernsteinSort
import Morlock.Proofs.GenQueries
/-!
# `eval.FindCapture` on a represented position: exactly the attackers of the square, each once
-/
namespace Morlock.Proofs.Bernstein
open Morlock Morlock.Model Morlock.Model.Bernstein Morlock.Proofs.Gen Morlock.Proofs.Attack

/-- the pawn attack relation read backwards: `s` is where a pawn of the other colour standing on `t`
would capture iff a pawn on `s` captures on `t` -/
theorem pawnTargets_rev_all : allBelow 64 (fun s => allBelow 64 fun t =>
    (decide (s ∈ Spec.pawnTargets .black t) == decide (t ∈ Spec.pawnTargets .white s)) &&
    (decide (s ∈ Spec.pawnTargets .white t) == decide (t ∈ Spec.pawnTargets .black s))) = true := by
  decide +kernel

theorem pawnTargets_rev (c : Spec.Color) {s t : Nat} (hs : s < 64) (ht : t < 64) :
    s ∈ Spec.pawnTargets c.opp t ↔ t ∈ Spec.pawnTargets c s := by
  have := allBelow_spec (allBelow_spec pawnTargets_rev_all s hs) t ht
  simp only [Bool.and_eq_true, beq_iff_eq, decide_eq_decide] at this
  cases c
  · exact this.1
  · exact this.2

/-- the placements `FindCapture` emits for one officer kind -/
theorem mem_captureOfficers {p : Position} {b : Board} (h : Rep p b) (side : Color) {sq : Nat} (hsq : sq < 64)
    {piece : Piece} (hp : piece ≠ .none) (hpw : piece ≠ .pawn) (pl : Placement) :
    pl ∈ (toSquares (((attackboard p.rotated sq piece).getD 0) &&& p.pieces side piece)).map
        (fun fr => ({ piece := piece, color := side, square := fr } : Placement)) ↔
      pl.piece = piece ∧ pl.color = side ∧ b pl.square = some (side, piece) ∧
        sq ∈ Spec.officerTargets (occB b) (kindOf piece) pl.square := by
  rw [attackboard_of_rep h hsq hp hpw, Option.getD_some, List.mem_map]
  have hlt : toBB (Spec.officerTargets (occB b) (kindOf piece) sq) &&& p.pieces side piece < 2 ^ 64 :=
    and_lt_right _ (h.piecesLt side piece)
  constructor
  · rintro ⟨fr, hfr, rfl⟩
    rw [mem_toSquares hlt, Nat.testBit_and, Bool.and_eq_true, testBit_toBB] at hfr
    have hfr64 := officerTargets_lt _ _ _ _ hfr.1
    have hb := hfr.2
    rw [h.one side piece fr hp hfr64, decide_eq_true_eq] at hb
    exact ⟨rfl, rfl, hb, officerTargets_symm hsq hfr.1⟩
  · rintro ⟨h1, h2, hb, hm⟩
    have hs := h.lt_of_some hb
    refine ⟨pl.square, ?_, ?_⟩
    · rw [mem_toSquares hlt, Nat.testBit_and, Bool.and_eq_true, testBit_toBB]
      refine ⟨officerTargets_symm hs hm, ?_⟩
      rw [h.one side piece pl.square hp hs, decide_eq_true_eq]; exact hb
    · cases pl; simp only at h1 h2 ⊢; rw [h1, h2]

/-- the pawn placements of `FindCapture` -/
theorem mem_capturePawns {p : Position} {b : Board} (h : Rep p b) (side : Color) {sq : Nat} (hsq : sq < 64)
    (pl : Placement) :
    pl ∈ (toSquares (pawnCaptureboard side.opp (bitMask sq) &&& p.pieces side .pawn)).map
        (fun fr => ({ piece := .pawn, color := side, square := fr } : Placement)) ↔
      pl.piece = .pawn ∧ pl.color = side ∧ b pl.square = some (side, .pawn) ∧
        sq ∈ Spec.pawnTargets (absColor side) pl.square := by
  rw [List.mem_map]
  have hlt : pawnCaptureboard side.opp (bitMask sq) &&& p.pieces side .pawn < 2 ^ 64 :=
    and_lt_right _ (h.piecesLt side .pawn)
  have hbm : bitMask sq < 2 ^ 64 := Attack.bitMask_lt hsq
  have key : ∀ fr, (pawnCaptureboard side.opp (bitMask sq) &&& p.pieces side .pawn).testBit fr = true ↔
      b fr = some (side, .pawn) ∧ sq ∈ Spec.pawnTargets (absColor side) fr := by
    intro fr
    rw [Nat.testBit_and, Bool.and_eq_true, pawnSet_testBit side.opp _ fr hbm]
    constructor
    · rintro ⟨⟨s, hs, hbit, hm⟩, hpc⟩
      rw [bitMask_testBit hsq, decide_eq_true_eq] at hbit
      subst hbit
      have hfr := pawnTargets_lt _ _ _ hm
      rw [h.one side .pawn fr (by simp) hfr, decide_eq_true_eq] at hpc
      rw [absColor_opp] at hm
      exact ⟨hpc, (pawnTargets_rev (absColor side) hfr hs).mp hm⟩
    · rintro ⟨hb, hm⟩
      have hfr := h.lt_of_some hb
      refine ⟨⟨sq, hsq, by rw [bitMask_testBit hsq]; simp, ?_⟩, ?_⟩
      · rw [absColor_opp]; exact (pawnTargets_rev (absColor side) hfr hsq).mpr hm
      · rw [h.one side .pawn fr (by simp) hfr, decide_eq_true_eq]; exact hb
  constructor
  · rintro ⟨fr, hfr, rfl⟩
    rw [mem_toSquares hlt, key] at hfr
    exact ⟨rfl, rfl, hfr.1, hfr.2⟩
  · rintro ⟨h1, h2, hb, hm⟩
    refine ⟨pl.square, ?_, ?_⟩
    · rw [mem_toSquares hlt, key]; exact ⟨hb, hm⟩
    · cases pl; simp only at h1 h2 ⊢; rw [h1, h2]

theorem kqrnbPieces_eq : kqrnbPieces = [.king, .queen, .rook, .knight, .bishop] := by decide

/-- **`FindCapture(pos, side, sq)` lists exactly the `side` pieces that attack `sq`.** -/
theorem mem_findCapture {p : Position} {b : Board} (h : Rep p b) (side : Color) {sq : Nat} (hsq : sq < 64)
    (pl : Placement) :
    pl ∈ findCapture p side sq ↔
      pl.color = side ∧ b pl.square = some (side, pl.piece) ∧
      ((pl.piece = .pawn ∧ sq ∈ Spec.pawnTargets (absColor side) pl.square) ∨
       (pl.piece ≠ .pawn ∧ sq ∈ Spec.officerTargets (occB b) (kindOf pl.piece) pl.square)) := by
  unfold findCapture
  rw [List.mem_append, kqrnbPieces_eq]
  simp only [List.flatMap_cons, List.flatMap_nil, List.append_nil, List.mem_append]
  rw [mem_captureOfficers h side hsq (by simp) (by simp), mem_captureOfficers h side hsq (by simp) (by simp),
    mem_captureOfficers h side hsq (by simp) (by simp), mem_captureOfficers h side hsq (by simp) (by simp),
    mem_captureOfficers h side hsq (by simp) (by simp), mem_capturePawns h side hsq]
  constructor
  · rintro ((⟨h1, h2, hb, hm⟩ | ⟨h1, h2, hb, hm⟩ | ⟨h1, h2, hb, hm⟩ | ⟨h1, h2, hb, hm⟩ | ⟨h1, h2, hb, hm⟩) | ⟨h1, h2, hb, hm⟩)
    all_goals first
      | exact ⟨h2, by rw [h1]; exact hb, Or.inr ⟨by rw [h1]; simp, by rw [h1]; exact hm⟩⟩
      | exact ⟨h2, by rw [h1]; exact hb, Or.inl ⟨h1, hm⟩⟩
  · rintro ⟨h2, hb, hk⟩
    have hne := h.ne_none_of_some hb
    rcases hk with ⟨h1, hm⟩ | ⟨hpw, hm⟩
    · exact Or.inr ⟨h1, h2, by rw [← h1]; exact hb, hm⟩
    · left
      cases hk : pl.piece with
      | none => exact absurd hk hne
      | pawn => exact absurd hk hpw
      | bishop => rw [hk] at hb hm; exact Or.inr (Or.inr (Or.inr (Or.inr ⟨rfl, h2, hb, hm⟩)))
      | knight => rw [hk] at hb hm; exact Or.inr (Or.inr (Or.inr (Or.inl ⟨rfl, h2, hb, hm⟩)))
      | rook => rw [hk] at hb hm; exact Or.inr (Or.inr (Or.inl ⟨rfl, h2, hb, hm⟩))
      | queen => rw [hk] at hb hm; exact Or.inr (Or.inl ⟨rfl, h2, hb, hm⟩)
      | king => rw [hk] at hb hm; exact Or.inl ⟨rfl, h2, hb, hm⟩

/-- the placements of one kind are duplicate-free -/
theorem nodup_map_placement (piece : Piece) (side : Color) {bb : Nat} (hbb : bb < 2 ^ 64) :
    ((toSquares bb).map (fun fr => ({ piece := piece, color := side, square := fr } : Placement))).Nodup := by
  have hn : (toSquares bb).Pairwise (· ≠ ·) := toSquares_nodup hbb
  exact List.Pairwise.map _ (fun a c hne e => hne (by simpa using congrArg Placement.square e)) hn

/-- **`FindCapture` lists every attacker once.** -/
theorem findCapture_nodup {p : Position} {b : Board} (h : Rep p b) (side : Color) (sq : Nat) :
    (findCapture p side sq).Nodup := by
  unfold findCapture
  rw [kqrnbPieces_eq]
  simp only [List.flatMap_cons, List.flatMap_nil, List.append_nil]
  have hl : ∀ piece x, x &&& p.pieces side piece < 2 ^ 64 := fun piece x => and_lt_right _ (h.piecesLt side piece)
  have hdisj : ∀ (k1 k2 : Piece) (b1 b2 : Nat), k1 ≠ k2 → ∀ a,
      a ∈ (toSquares b1).map (fun fr => ({ piece := k1, color := side, square := fr } : Placement)) →
      a ∈ (toSquares b2).map (fun fr => ({ piece := k2, color := side, square := fr } : Placement)) → False := by
    intro k1 k2 b1 b2 hne a h1 h2
    obtain ⟨_, _, rfl⟩ := List.mem_map.mp h1
    obtain ⟨_, _, e⟩ := List.mem_map.mp h2
    exact hne (congrArg Placement.piece e).symm
  simp only [List.nodup_append, List.mem_append]
  refine ⟨⟨nodup_map_placement _ _ (hl _ _), ⟨nodup_map_placement _ _ (hl _ _), ⟨nodup_map_placement _ _ (hl _ _),
    ⟨nodup_map_placement _ _ (hl _ _), nodup_map_placement _ _ (hl _ _), ?_⟩, ?_⟩, ?_⟩, ?_⟩,
    nodup_map_placement _ _ (hl _ _), ?_⟩
  all_goals
    intro a ha c hc e
    subst e
    first
      | exact hdisj _ _ _ _ (by decide) a ha hc
      | (rcases hc with hc | hc | hc | hc | hc <;> exact hdisj _ _ _ _ (by decide) a ha hc)
      | (rcases hc with hc | hc | hc | hc <;> exact hdisj _ _ _ _ (by decide) a ha hc)
      | (rcases hc with hc | hc | hc <;> exact hdisj _ _ _ _ (by decide) a ha hc)
      | (rcases hc with hc | hc <;> exact hdisj _ _ _ _ (by decide) a ha hc)
      | (rcases ha with ha | ha | ha | ha | ha <;> exact hdisj _ _ _ _ (by decide) a ha hc)

/-! ## `IsSafe` -/

/-- the head of the sorted attacker list is an attacker of least nominal value -/
theorem sortByNominalValue_head {l : List Placement} {a : Placement} {rest : List Placement}
    (h : sortByNominalValue l = a :: rest) :
    a ∈ l ∧ ∀ pl ∈ l, nominalValue a.piece ≤ nominalValue pl.piece := by
  have hperm := sortByNominalValue_perm l
  have hsorted := sortByNominalValue_sorted l
  rw [h] at hperm hsorted
  refine ⟨hperm.mem_iff.mp (List.mem_cons_self ..), fun pl hpl => ?_⟩
  rcases List.mem_cons.mp (hperm.mem_iff.mpr hpl) with rfl | hr
  · exact Int.le_refl _
  · exact (List.pairwise_cons.mp hsorted).1 pl hr

/-- **`IsSafe`**: no attacker at all, or the square is defended and no attacker is worth less than the piece. -/
theorem isSafe_iff (p : Position) (side : Color) (piece : Piece) (sq : Nat) :
    isSafe p side piece sq = true ↔
      findCapture p side.opp sq = [] ∨
      (p.isDefended side sq = true ∧ ∀ pl ∈ findCapture p side.opp sq, nominalValue piece ≤ nominalValue pl.piece) := by
  unfold isSafe
  cases hs : sortByNominalValue (findCapture p side.opp sq) with
  | nil =>
    have : findCapture p side.opp sq = [] := by
      have := (sortByNominalValue_perm (findCapture p side.opp sq)).length_eq
      rw [hs] at this
      exact List.length_eq_zero_iff.mp this.symm
    simp [this]
  | cons a rest =>
    obtain ⟨hmem, hmin⟩ := sortByNominalValue_head hs
    have hne : findCapture p side.opp sq ≠ [] := List.ne_nil_of_mem hmem
    simp only
    cases hd : p.isDefended side sq with
    | false => simp [hne]
    | true =>
      simp only [Bool.not_true, Bool.false_eq_true, if_false, decide_eq_true_eq, ge_iff_le, true_and]
      constructor
      · intro hle
        exact Or.inr (fun pl hpl => Int.le_trans hle (hmin pl hpl))
      · rintro (h0 | hall)
        · exact absurd h0 hne
        · exact hall a hmem

/-- on a represented position the attacker list is empty iff the square is not attacked -/
theorem findCapture_eq_nil_iff {p : Position} {b : Board} (h : Rep p b) (side : Color) {sq : Nat} (hsq : sq < 64) :
    findCapture p side.opp sq = [] ↔ p.isAttacked side sq = false := by
  rw [← Bool.not_eq_true, isAttacked_iff_att h side hsq]
  constructor
  · intro he ⟨s, k, hb, hk⟩
    have : (⟨k, side.opp, s⟩ : Placement) ∈ findCapture p side.opp sq :=
      (mem_findCapture h side.opp hsq _).mpr ⟨rfl, hb, hk⟩
    rw [he] at this
    cases this
  · intro hn
    apply List.eq_nil_iff_forall_not_mem.mpr
    intro pl hpl
    obtain ⟨_, hb, hk⟩ := (mem_findCapture h side.opp hsq pl).mp hpl
    exact hn ⟨pl.square, pl.piece, hb, hk⟩

end Morlock.Proofs.Bernstein
