import Morlock.Proofs.GenPawnsSpec
/-!
# Stage D of C01: castling emissions
-/
namespace Morlock.Proofs.Gen
open Morlock Morlock.Model Morlock.Proofs.Attack

theorem foldl_mask_testBit (l : List Nat) (acc i : Nat) :
    (l.foldl (fun a sq => a ||| bitMask sq) acc).testBit i = true ↔
      acc.testBit i = true ∨ (i ∈ l ∧ i < 64) := by
  induction l generalizing acc with
  | nil => simp
  | cons s l ih =>
    rw [List.foldl_cons, ih, Nat.testBit_or, Bool.or_eq_true, bitMask_testBit', Bool.and_eq_true,
      decide_eq_true_eq, decide_eq_true_eq, List.mem_cons]
    constructor
    · rintro ((h1 | ⟨h2, rfl⟩) | ⟨h3, h4⟩)
      · exact Or.inl h1
      · exact Or.inr ⟨Or.inl rfl, h2⟩
      · exact Or.inr ⟨Or.inr h3, h4⟩
    · rintro (h1 | ⟨rfl | h3, h4⟩)
      · exact Or.inl (Or.inl h1)
      · exact Or.inl (Or.inr ⟨h4, rfl⟩)
      · exact Or.inr ⟨h3, h4⟩

theorem maskOf_testBit (l : List Nat) (i : Nat) :
    (Position.maskOf l).testBit i = true ↔ i ∈ l ∧ i < 64 := by
  unfold Position.maskOf
  rw [foldl_mask_testBit]; simp

/-- The "squares between are empty" test of the generator. -/
theorem maskOf_and_rot_eq_zero {p : Position} {b : Board} (h : Rep p b) (l : List Nat) (hl : ∀ s ∈ l, s < 64) :
    ((Position.maskOf l &&& p.rotated.rot) == 0) = true ↔ ∀ s ∈ l, b s = none := by
  rw [beq_iff_eq]
  constructor
  · intro h0 s hs
    cases hb : b s with
    | none => rfl
    | some x =>
      exfalso
      have h1 : (Position.maskOf l).testBit s = true := (maskOf_testBit l s).mpr ⟨hs, hl s hs⟩
      have h2 : p.rotated.rot.testBit s = true := by rw [h.rot s (hl s hs), hb]; rfl
      have := (and_ne_zero_iff _ _).mpr ⟨s, h1, h2⟩
      rw [h0] at this; simp at this
  · intro hall
    apply Classical.byContradiction
    intro hne
    obtain ⟨t, h1, h2⟩ := (and_ne_zero_iff _ _).mp (by simpa using hne)
    obtain ⟨h3, h4⟩ := (maskOf_testBit l t).mp h1
    rw [h.rot t h4, hall t h3] at h2
    cases h2

/-- One castle emission, on the mailbox board. -/
theorem mem_genCastle {p : Position} {b : Board} (h : Rep p b) (turn : Color) (fr right : Nat)
    (cmask : List Nat) (rookSq : Nat) (t : MoveType) (to : Nat) (hcm : ∀ s ∈ cmask, s < 64)
    (hto : to < 64) (ht : t ≠ .capture) (m : Move) :
    m ∈ genCastle p turn fr right cmask rookSq t to ↔
      (p.castling &&& right != 0) = true ∧ (∀ s ∈ cmask, b s = none) ∧ b rookSq = some (turn, .rook) ∧
      m.ty = t ∧ m.piece = .king ∧ m.from = fr ∧ m.to = to ∧ m.promotion = .none ∧ m.capture = .none := by
  unfold genCastle
  have hrook : (p.pieces turn .rook &&& bitMask rookSq != 0) = decide (b rookSq = some (turn, Piece.rook)) :=
    h.isSet_pieces turn (by simp) rookSq
  by_cases hc : ((p.castling &&& right != 0) && (Position.maskOf cmask &&& p.rotated.rot) == 0 &&
      (p.pieces turn .rook &&& bitMask rookSq != 0)) = true
  · rw [if_pos hc, mem_emitMove (bitMask_lt_M64 to), bitMask_testBit hto]
    simp only [Bool.and_eq_true, maskOf_and_rot_eq_zero h cmask hcm, hrook, decide_eq_true_eq] at hc
    simp only [ht, if_false, decide_eq_true_eq]
    constructor
    · rintro ⟨h1, h2, h3, h4, h5, h6⟩
      exact ⟨hc.1.1, hc.1.2, hc.2, h2, h3, h4, h1, h5, h6⟩
    · rintro ⟨_, _, _, h2, h3, h4, h1, h5, h6⟩
      exact ⟨h1, h2, h3, h4, h5, h6⟩
  · rw [if_neg hc]
    simp only [Bool.and_eq_true, maskOf_and_rot_eq_zero h cmask hcm, hrook, decide_eq_true_eq] at hc
    simp only [List.not_mem_nil, false_iff]
    rintro ⟨h1, h2, h3, _⟩
    exact hc ⟨⟨h1, h2⟩, h3⟩

/-- The parameters of one castle emission. -/
structure CastleParams where
  right : Nat
  cmask : List Nat
  rookSq : Nat
  ty : MoveType
  to : Nat

/-- The castles of each colour, in generator order (king side, queen side). -/
def castleParams : Color → List CastleParams
  | .white => [⟨wK, Gen.whiteKingSideCastlingMask, H1, .kingSideCastle, G1⟩,
               ⟨wQ, Gen.whiteQueenSideCastlingMask, A1, .queenSideCastle, C1⟩]
  | .black => [⟨bK, Gen.blackKingSideCastlingMask, H8, .kingSideCastle, G8⟩,
               ⟨bQ, Gen.blackQueenSideCastlingMask, A8, .queenSideCastle, C8⟩]

theorem castleParams_ok (turn : Color) : ∀ cs ∈ castleParams turn,
    (∀ s ∈ cs.cmask, s < 64) ∧ cs.to < 64 ∧ cs.ty ≠ .capture := by
  cases turn <;> decide

/-- A castling move with its metadata, as the generator emits it: the right is present, the squares
    between king and rook are empty, an own rook is on the rook's home square. (The king's own
    square is *not* tested by the generator; `WF` supplies it.) -/
def CastleMove (b : Board) (castling : Nat) (turn : Color) (m : Move) : Prop :=
  ∃ cs ∈ castleParams turn,
    (castling &&& cs.right != 0) = true ∧ (∀ s ∈ cs.cmask, b s = none) ∧
    b cs.rookSq = some (turn, .rook) ∧
    m.ty = cs.ty ∧ m.piece = .king ∧ m.to = cs.to ∧ m.promotion = .none ∧ m.capture = .none

/-- **Stage D.** The castle emissions for a king recorded on `fr`. -/
theorem mem_genCastles {p : Position} {b : Board} (h : Rep p b) (turn : Color) (fr : Nat) (m : Move) :
    m ∈ genCastles p turn fr ↔ m.from = fr ∧ CastleMove b p.castling turn m := by
  unfold CastleMove
  cases turn
  all_goals
    simp only [genCastles, List.mem_append]
    rw [mem_genCastle h _ fr _ _ _ _ _ (by decide) (by decide) (by decide) m,
      mem_genCastle h _ fr _ _ _ _ _ (by decide) (by decide) (by decide) m]
    simp only [castleParams, List.mem_cons, List.not_mem_nil, or_false, exists_eq_or_imp, exists_eq_left]
    constructor
    · rintro (⟨h1, h2, h3, h4, h5, h6, h7, h8, h9⟩ | ⟨h1, h2, h3, h4, h5, h6, h7, h8, h9⟩)
      · exact ⟨h6, Or.inl ⟨h1, h2, h3, h4, h5, h7, h8, h9⟩⟩
      · exact ⟨h6, Or.inr ⟨h1, h2, h3, h4, h5, h7, h8, h9⟩⟩
    · rintro ⟨h6, ⟨h1, h2, h3, h4, h5, h7, h8, h9⟩ | ⟨h1, h2, h3, h4, h5, h7, h8, h9⟩⟩
      · exact Or.inl ⟨h1, h2, h3, h4, h5, h6, h7, h8, h9⟩
      · exact Or.inr ⟨h1, h2, h3, h4, h5, h6, h7, h8, h9⟩

/-- The king's home square. -/
def kingHomeSq : Color → Nat
  | .white => E1
  | .black => E8

theorem CastleMove.kingHome {b : Board} {castling ep : Nat} {turn t : Color} (hw : WFb b castling ep t)
    {m : Move} (hm : CastleMove b castling turn m) : b (kingHomeSq turn) = some (turn, .king) := by
  obtain ⟨cs, hcs, hr, _⟩ := hm
  cases turn
  · apply hw.home_white
    simp only [castleParams, List.mem_cons, List.not_mem_nil, or_false] at hcs
    rcases hcs with rfl | rfl
    · simp only at hr; rw [hr]; rfl
    · simp only at hr; rw [hr]; simp
  · apply hw.home_black
    simp only [castleParams, List.mem_cons, List.not_mem_nil, or_false] at hcs
    rcases hcs with rfl | rfl
    · simp only at hr; rw [hr]; rfl
    · simp only at hr; rw [hr]; simp

/-- The castling-rights bit of a colour and side. -/
def rightBit : Color → Bool → Nat
  | .white, true => wK
  | .white, false => wQ
  | .black, true => bK
  | .black, false => bQ

theorem abs_right (p : Position) (turn c : Color) (ks : Bool) :
    (abs p turn).right (absColor c) ks = (p.castling &&& rightBit c ks != 0) := by
  cases c <;> cases ks <;> rfl

theorem kingHomeSq_eq (turn : Color) :
    kingHomeSq turn = Spec.mkSq Spec.fE (Spec.homeRank (absColor turn)) := by cases turn <;> rfl

/-- Generated castles from the king's home square are reference castles. -/
theorem CastleMove.abs_mem {p : Position} {b : Board} (h : Rep p b) {turn : Color} {m : Move}
    (hm : CastleMove b p.castling turn m) (hfr : m.from = kingHomeSq turn) :
    absMove m ∈ castlesFrom (abs p turn) (absColor turn) .king m.from := by
  obtain ⟨cs, hcs, hr, hempty, hrook, hty, hpc, hto, hpr, hcap⟩ := hm
  have hsm : absMove m = ⟨m.from, cs.to, none⟩ := by
    simp [absMove, hto, hpr, absKind]
  rw [hsm]
  unfold castlesFrom
  rw [kingHomeSq_eq] at hfr
  rw [if_pos ⟨rfl, hfr⟩, List.mem_append]
  have hR := (h.abs_at_iff turn cs.rookSq turn Spec.Kind.rook).mpr hrook
  have hE : ∀ s ∈ cs.cmask, ¬ (abs p turn).occ s = true := fun s hs => by
    rw [Bool.not_eq_true]; exact (occ_false_iff h turn s).mpr (hempty s hs)
  cases turn
  all_goals
    simp only [castleParams, List.mem_cons, List.not_mem_nil, or_false] at hcs
    rcases hcs with rfl | rfl
    · left
      rw [if_pos]
      · exact List.mem_singleton.mpr rfl
      · exact ⟨by rw [abs_right]; exact hr, hR, hE _ (by decide), hE _ (by decide)⟩
    · right
      rw [if_pos]
      · exact List.mem_singleton.mpr rfl
      · exact ⟨by rw [abs_right]; exact hr, hR, hE _ (by decide), hE _ (by decide), hE _ (by decide)⟩

/-- Every reference castle is the abstraction of a generated castle from the king's home square. -/
theorem exists_castleMove {p : Position} {b : Board} (h : Rep p b) {turn : Color} {fr : Nat} {K : Spec.Kind}
    {sm : Spec.SMove} (hsm : sm ∈ castlesFrom (abs p turn) (absColor turn) K fr) :
    K = .king ∧ fr = kingHomeSq turn ∧
      ∃ m, m.from = fr ∧ CastleMove b p.castling turn m ∧ absMove m = sm := by
  unfold castlesFrom at hsm
  split at hsm
  · rename_i hc
    obtain ⟨hK, hfr⟩ := hc
    rw [← kingHomeSq_eq] at hfr
    refine ⟨hK, hfr, ?_⟩
    have hocc : ∀ s, ¬ (abs p turn).occ s = true → b s = none := fun s hs =>
      (occ_false_iff h turn s).mp (by simpa using hs)
    rw [List.mem_append] at hsm
    rcases hsm with hsm | hsm
    · split at hsm
      · rename_i hc
        obtain ⟨h1, h2, h3, h4⟩ := hc
        rw [abs_right] at h1
        have hrook := (h.abs_at_iff turn _ turn .rook).mp h2
        have e3 := hocc _ h3
        have e4 := hocc _ h4
        rw [List.mem_singleton] at hsm
        subst hsm
        cases turn
        · refine ⟨{ ty := .kingSideCastle, «from» := fr, to := G1, piece := .king }, rfl,
            ⟨_, List.mem_cons_self .., h1, ?_, hrook, rfl, rfl, rfl, rfl, rfl⟩, rfl⟩
          intro s hs
          simp only [Gen.whiteKingSideCastlingMask, List.mem_cons, List.not_mem_nil, or_false] at hs
          rcases hs with rfl | rfl
          · exact e4
          · exact e3
        · refine ⟨{ ty := .kingSideCastle, «from» := fr, to := G8, piece := .king }, rfl,
            ⟨_, List.mem_cons_self .., h1, ?_, hrook, rfl, rfl, rfl, rfl, rfl⟩, rfl⟩
          intro s hs
          simp only [Gen.blackKingSideCastlingMask, List.mem_cons, List.not_mem_nil, or_false] at hs
          rcases hs with rfl | rfl
          · exact e4
          · exact e3
      · cases hsm
    · split at hsm
      · rename_i hc
        obtain ⟨h1, h2, h3, h4, h5⟩ := hc
        rw [abs_right] at h1
        have hrook := (h.abs_at_iff turn _ turn .rook).mp h2
        have e3 := hocc _ h3
        have e4 := hocc _ h4
        have e5 := hocc _ h5
        rw [List.mem_singleton] at hsm
        subst hsm
        cases turn
        · refine ⟨{ ty := .queenSideCastle, «from» := fr, to := C1, piece := .king }, rfl,
            ⟨_, List.mem_cons_of_mem _ (List.mem_cons_self ..), h1, ?_, hrook, rfl, rfl, rfl, rfl, rfl⟩, rfl⟩
          intro s hs
          simp only [Gen.whiteQueenSideCastlingMask, List.mem_cons, List.not_mem_nil, or_false] at hs
          rcases hs with rfl | rfl | rfl
          · exact e5
          · exact e4
          · exact e3
        · refine ⟨{ ty := .queenSideCastle, «from» := fr, to := C8, piece := .king }, rfl,
            ⟨_, List.mem_cons_of_mem _ (List.mem_cons_self ..), h1, ?_, hrook, rfl, rfl, rfl, rfl, rfl⟩, rfl⟩
          intro s hs
          simp only [Gen.blackQueenSideCastlingMask, List.mem_cons, List.not_mem_nil, or_false] at hs
          rcases hs with rfl | rfl | rfl
          · exact e5
          · exact e4
          · exact e3
      · cases hsm
  · cases hsm

end Morlock.Proofs.Gen
