import Morlock.Proofs.ChainWF
/-!
# Chain: every position reachable from a `WFplay` start position by generated moves

* `GenReach p t q t'` — `q` (with `t'` to move) is reached from `p` (with `t` to move) by generated moves
  (`m ∈ pseudoLegalMoves`) accepted by `Position.move`, colours alternating;
* `GenPlay p t ms` — the moves `ms`, played in turn from `p`, are each generated in the position where they
  are played (as far as `Position.move` accepts them); `playMoves` plays them;
* `reach_wfplay` — `WFplay` holds at every reachable position;
* `play_refines_gen` — a generated play refines the reference game (`Spec.apply`).
-/
namespace Morlock.Proofs.Chain
open Morlock Morlock.Model Morlock.Proofs Morlock.Proofs.Gen

/-- The moves `ms`, played in turn from `p` with `t` to move, are generated moves: each one is in the
generator output of the position where it is played. -/
def GenPlay : Position → Color → List Move → Prop
  | _, _, [] => True
  | p, t, m :: ms => m ∈ p.pseudoLegalMoves t ∧ ∀ q, p.move m = some q → GenPlay q t.opp ms

/-- A decidable form of `GenPlay` (for examples). -/
def genPlayCheck : Position → Color → List Move → Bool
  | _, _, [] => true
  | p, t, m :: ms => decide (m ∈ p.pseudoLegalMoves t) &&
      (match p.move m with | some q => genPlayCheck q t.opp ms | none => true)

theorem genPlay_of_check : ∀ (ms : List Move) (p : Position) (t : Color), genPlayCheck p t ms = true → GenPlay p t ms
  | [], _, _, _ => trivial
  | m :: ms, p, t, h => by
    simp only [genPlayCheck, Bool.and_eq_true, decide_eq_true_eq] at h
    refine ⟨h.1, fun q hq => ?_⟩
    have h2 := h.2
    rw [hq] at h2
    exact genPlay_of_check ms q t.opp h2

/-- A prefix of a generated play is a generated play. -/
theorem genPlay_prefix : ∀ (ms rest : List Move) (p : Position) (t : Color), GenPlay p t (ms ++ rest) → GenPlay p t ms
  | [], _, _, _, _ => trivial
  | _ :: ms, rest, _, t, h => ⟨h.1, fun q hq => genPlay_prefix ms rest q t.opp (h.2 q hq)⟩

/-- Legal moves are generated moves. -/
theorem mem_pseudo_of_legal {p : Position} {t : Color} {m : Move} (h : m ∈ p.legalMoves t) :
    m ∈ p.pseudoLegalMoves t := by
  unfold Position.legalMoves at h
  exact (List.mem_filter.mp h).1

/-- Reachability by generated, accepted moves. -/
inductive GenReach : Position → Color → Position → Color → Prop
  | refl (p : Position) (t : Color) : GenReach p t p t
  | step {p q r : Position} {t t' : Color} {m : Move} :
      GenReach p t q t' → m ∈ q.pseudoLegalMoves t' → q.move m = some r → GenReach p t r t'.opp

/-- **`reach_wfplay`.** `WFplay` holds at every position reachable from a `WFplay` position. -/
theorem reach_wfplay {p q : Position} {t t' : Color} (hw : WFplay p t) (hr : GenReach p t q t') : WFplay q t' := by
  induction hr with
  | refl => exact hw
  | step _ hm hq ih => exact wf_preserved (ih hw) hm hq

/-- Play a list of moves with `Position.move`, colours alternating (`none` as soon as a move is refused). -/
def playMoves (p : Position) (t : Color) : List Move → Option (Position × Color)
  | [] => some (p, t)
  | m :: ms =>
    match p.move m with
    | some q => playMoves q t.opp ms
    | none => none

/-- The position reached by a generated play is reachable. -/
theorem genReach_of_play : ∀ (ms : List Move) {p0 : Position} {t0 : Color} (p : Position) (t : Color),
    GenReach p0 t0 p t → GenPlay p t ms → ∀ q t', playMoves p t ms = some (q, t') → GenReach p0 t0 q t'
  | [], _, _, p, t, hr, _, q, t', h => by
    simp only [playMoves, Option.some.injEq, Prod.mk.injEq] at h
    obtain ⟨rfl, rfl⟩ := h
    exact hr
  | m :: ms, _, _, p, t, hr, hg, q, t', h => by
    simp only [playMoves] at h
    cases hm : p.move m with
    | none => rw [hm] at h; cases h
    | some r =>
      rw [hm] at h
      exact genReach_of_play ms r t.opp (GenReach.step hr hg.1 hm) (hg.2 r hm) q t' h

/-- **One generated move refines the reference** (C02 `move_refines_spec` with all hypotheses discharged):
the abstraction of the new position is `Spec.apply` of the abstraction of the old one. -/
theorem step_refines {p q : Position} {t : Color} {m : Move} (hw : WFplay p t) (hm : m ∈ p.pseudoLegalMoves t)
    (hq : p.move m = some q) : abs q t.opp = Spec.apply (abs p t) (absMove m) := by
  have hps := (mem_pseudoLegalMoves hw.1.rep hw.1.wfb m).mp hm
  obtain ⟨hok, hcl⟩ := hps.metaOK_classOK hw.1.rep hw.1.wfb
  exact abs_move hw.1.rep hok (pseudo_mover hw.1 m hm) hcl
    (landOK_of_kingHome hw.1.rep hok (kingHome_of_wf hw.1) (pseudo_noKingCapture hw m hm) t) hq

/-- **A generated play refines the reference game**: abstracting the position reached is playing the
abstracted moves with `Spec.apply` from the abstracted start position; and the position reached satisfies
`WFplay`. -/
theorem play_refines_gen : ∀ (ms : List Move) {p q : Position} {t t' : Color}, WFplay p t → GenPlay p t ms →
    playMoves p t ms = some (q, t') →
    WFplay q t' ∧ abs q t' = ms.foldl (fun s m => Spec.apply s (absMove m)) (abs p t)
  | [], p, q, t, t', hw, _, h => by
    simp only [playMoves, Option.some.injEq, Prod.mk.injEq] at h
    obtain ⟨rfl, rfl⟩ := h
    exact ⟨hw, rfl⟩
  | m :: ms, p, q, t, t', hw, hg, h => by
    simp only [playMoves] at h
    cases hm : p.move m with
    | none => rw [hm] at h; cases h
    | some r =>
      rw [hm] at h
      obtain ⟨g1, g2⟩ := play_refines_gen ms (wf_preserved hw hg.1 hm) (hg.2 r hm) h
      refine ⟨g1, ?_⟩
      rw [g2, step_refines hw hg.1 hm]
      rfl

end Morlock.Proofs.Chain
