import Morlock.Proofs.DetSim
/-!
# C18: what the incoming search state contributes (no cancellation)

Besides the table, a search state carries three counters / flags: `nodes`, `polls`, `fuelOut`. Without
cancellation (`cancelAt = none`) they are only ever *added to*: starting the same search from a state whose
counters are larger by `(k, j)` and whose flag is or-ed with `f` returns the same score and PV, and a final state
that is larger by `(k, j)` / or-ed with `f` (`alphabeta_shift`). Hence `alphaBetaSearch` (which resets `nodes`)
reports the same result from any two states with the same table and no cancellation
(`alphaBetaSearch_state_irrelevant`): searches run before cannot influence it through the state they leave.

Also: `cancelAt` is never changed by a search (`alphabeta_cancelAt`).
-/
namespace Morlock.Proofs.Det
open Morlock Morlock.Model Morlock.Model.Score
variable {P : Type}

/-! ## projection-style unfoldings -/

theorem quiesceLoop_cons_none (g : Game P) (ex : P → Explore) (rec : P → Score → Score → SState → Score × SState)
    (p : P) (beta : Score) {m : Move} (h : g.push p m = none) (rest : List Move) (alpha : Score) (hl : Bool)
    (st : SState) :
    quiesceLoop g ex rec p beta (m :: rest) alpha hl st = quiesceLoop g ex rec p beta rest alpha hl st := by
  simp only [quiesceLoop, childOf, h]

theorem quiesceLoop_cons_skip (g : Game P) (ex : P → Explore) (rec : P → Score → Score → SState → Score × SState)
    (p : P) (beta : Score) {m : Move} {c : P} (h : g.push p m = some c) (hp : (ex p).pick m = false) (rest : List Move)
    (alpha : Score) (hl : Bool) (st : SState) :
    quiesceLoop g ex rec p beta (m :: rest) alpha hl st =
      if cutoff alpha beta then (alpha, true, st) else quiesceLoop g ex rec p beta rest alpha true st := by
  simp only [quiesceLoop, childOf, h, hp, Bool.false_eq_true, if_false]

theorem quiesceLoop_cons_pick (g : Game P) (ex : P → Explore) (rec : P → Score → Score → SState → Score × SState)
    (p : P) (beta : Score) {m : Move} {c : P} (h : g.push p m = some c) (hp : (ex p).pick m = true) (rest : List Move)
    (alpha : Score) (hl : Bool) (st : SState) :
    quiesceLoop g ex rec p beta (m :: rest) alpha hl st =
      if cutoff (Score.max alpha (incMate (rec c (childBound beta) (childBound alpha) st).1).negate) beta then
        (Score.max alpha (incMate (rec c (childBound beta) (childBound alpha) st).1).negate, true,
         (rec c (childBound beta) (childBound alpha) st).2)
      else quiesceLoop g ex rec p beta rest
        (Score.max alpha (incMate (rec c (childBound beta) (childBound alpha) st).1).negate) true
        (rec c (childBound beta) (childBound alpha) st).2 := by
  simp only [quiesceLoop, childOf, h, hp, if_true]

theorem quiesce_succ (g : Game P) (ex : P → Explore) (fuel : Nat) (p : P) (a b : Score) (st : SState) :
    quiesce g ex (fuel + 1) p a b st =
      if (poll st).1 then (zeroScore, (poll st).2) else
      if g.isDraw p then (zeroScore, (poll st).2) else
      if !(quiesceLoop g ex (quiesce g ex fuel) p b (heapOrder (g.moves p) (ex p).prio)
            (Score.max a (heuristicScore (g.eval p))) false
            { (poll st).2 with nodes := (poll st).2.nodes + 1 }).2.1 then
        ((if g.inCheck p then negInfScore else zeroScore),
          (quiesceLoop g ex (quiesce g ex fuel) p b (heapOrder (g.moves p) (ex p).prio)
            (Score.max a (heuristicScore (g.eval p))) false
            { (poll st).2 with nodes := (poll st).2.nodes + 1 }).2.2)
      else
        ((quiesceLoop g ex (quiesce g ex fuel) p b (heapOrder (g.moves p) (ex p).prio)
            (Score.max a (heuristicScore (g.eval p))) false
            { (poll st).2 with nodes := (poll st).2.nodes + 1 }).1,
          (quiesceLoop g ex (quiesce g ex fuel) p b (heapOrder (g.moves p) (ex p).prio)
            (Score.max a (heuristicScore (g.eval p))) false
            { (poll st).2 with nodes := (poll st).2.nodes + 1 }).2.2) := by
  simp only [quiesce]

theorem abEnter_eq (g : Game P) (rootPly : Int) (depth : Nat) (p : P) (st : SState) :
    abEnter g rootPly depth p st =
      if (poll st).1 then .inl (invalidScore, [], (poll st).2) else
      if !(g.ply p == rootPly) && g.isDraw p then .inl (zeroScore, [], (poll st).2) else
      match (poll st).2.tt.read (g.hash p) with
      | some e =>
        if !(g.ply p == rootPly) && depth == e.depth && e.bound == 0 then .inl (e.score, [], (poll st).2)
        else .inr ({ «from» := e.from, to := e.to, promotion := e.promotion }, (poll st).2)
      | none => .inr ({}, (poll st).2) := rfl

/-- What `alphabeta` does at depth 0 once `abEnter` says "descend". -/
def leafBody (g : Game P) (le : LeafEval P) (p : P) (alpha beta : Score) (st : SState) : Score × List Move × SState :=
  if (poll (quietSearch g le p alpha beta st).2).1 then (invalidScore, [], (poll (quietSearch g le p alpha beta st).2).2)
  else
    ((quietSearch g le p alpha beta st).1, [],
      if alpha.less (quietSearch g le p alpha beta st).1 && (quietSearch g le p alpha beta st).1.less beta then
        { (poll (quietSearch g le p alpha beta st).2).2 with
          tt := ((poll (quietSearch g le p alpha beta st).2).2.tt.write (g.hash p) 0 (g.ply p) 0
            (quietSearch g le p alpha beta st).1 {}).1 }
      else (poll (quietSearch g le p alpha beta st).2).2)

/-- What `alphabeta` does at depth `d + 1` after the move loop returned `L`. -/
def nodeFinish (g : Game P) (d : Nat) (p : P) (L : Score × List Move × Bool × Bool × SState) :
    Score × List Move × SState :=
  if (poll L.2.2.2.2).1 then (invalidScore, [], (poll L.2.2.2.2).2) else
  if !L.2.2.1 then ((if g.inCheck p then negInfScore else zeroScore), [], (poll L.2.2.2.2).2) else
  (L.1, L.2.1,
    if !L.2.2.2.1 && !L.2.1.isEmpty then
      { (poll L.2.2.2.2).2 with
        tt := ((poll L.2.2.2.2).2.tt.write (g.hash p) 0 (g.ply p) ((d + 1 : Nat) : Int) L.1 (firstOrNone L.2.1)).1 }
    else (poll L.2.2.2.2).2)

theorem alphabeta_zero (g : Game P) (ex : P → Explore) (le : LeafEval P) (rootPly : Int) (p : P) (alpha beta : Score)
    (st : SState) :
    alphabeta g ex le rootPly 0 p alpha beta st =
      match abEnter g rootPly 0 p st with
      | .inl r => r
      | .inr r => leafBody g le p alpha beta r.2 := by
  simp only [alphabeta, leafBody]
  cases abEnter g rootPly 0 p st with
  | inl r => rfl
  | inr r => rfl

theorem alphabeta_succ (g : Game P) (ex : P → Explore) (le : LeafEval P) (rootPly : Int) (d : Nat) (p : P)
    (alpha beta : Score) (st : SState) :
    alphabeta g ex le rootPly (d + 1) p alpha beta st =
      match abEnter g rootPly (d + 1) p st with
      | .inl r => r
      | .inr r => nodeFinish g d p
          (abLoop g ex (alphabeta g ex le rootPly d) p beta (heapOrder (g.moves p) (firstPrio r.1 (ex p).prio)) alpha []
            false { r.2 with nodes := r.2.nodes + 1 }) := by
  simp only [alphabeta, nodeFinish]
  cases abEnter g rootPly (d + 1) p st with
  | inl r => rfl
  | inr r => rfl

/-! ## state predicates kept by the search -/

/-- A predicate on search states that every state update of the search keeps. -/
structure StInv (J : SState → Prop) : Prop where
  poll : ∀ {st}, J st → J (poll st).2
  node : ∀ {st}, J st → J { st with nodes := st.nodes + 1 }
  table : ∀ {st} (t : TTState), J st → J { st with tt := t }
  fuel : ∀ {st}, J st → J { st with fuelOut := true }

theorem quiesceLoop_stinv (g : Game P) (ex : P → Explore) (rec : P → Score → Score → SState → Score × SState)
    {J : SState → Prop} (hrec : ∀ c a b st, J st → J (rec c a b st).2) (p : P) (beta : Score) :
    ∀ (l : List Move) (alpha : Score) (hl : Bool) (st : SState), J st →
      J (quiesceLoop g ex rec p beta l alpha hl st).2.2 := by
  intro l
  induction l with
  | nil => intro alpha hl st hst; exact hst
  | cons m rest ih =>
    intro alpha hl st hst
    cases h : g.push p m with
    | none => rw [quiesceLoop_cons_none g ex rec p beta h]; exact ih alpha hl st hst
    | some c =>
      cases hp : (ex p).pick m with
      | false =>
        rw [quiesceLoop_cons_skip g ex rec p beta h hp]
        split
        · exact hst
        · exact ih _ _ _ hst
      | true =>
        rw [quiesceLoop_cons_pick g ex rec p beta h hp]
        have hr := hrec c (childBound beta) (childBound alpha) st hst
        split
        · exact hr
        · exact ih _ _ _ hr

theorem quiesce_stinv (g : Game P) (ex : P → Explore) {J : SState → Prop} (hJ : StInv J) :
    ∀ (fuel : Nat) (p : P) (a b : Score) (st : SState), J st → J (quiesce g ex fuel p a b st).2 := by
  intro fuel
  induction fuel with
  | zero => intro p a b st hst; exact hJ.fuel hst
  | succ fuel ih =>
    intro p a b st hst
    rw [quiesce_succ]
    have hL := quiesceLoop_stinv g ex (quiesce g ex fuel) ih p b (heapOrder (g.moves p) (ex p).prio)
      (Score.max a (heuristicScore (g.eval p))) false { (poll st).2 with nodes := (poll st).2.nodes + 1 }
      (hJ.node (hJ.poll hst))
    split
    · exact hJ.poll hst
    · split
      · exact hJ.poll hst
      · split
        · exact hL
        · exact hL

theorem quietSearch_stinv (g : Game P) (le : LeafEval P) {J : SState → Prop} (hJ : StInv J) (p : P) (a b : Score)
    (st : SState) (hst : J st) : J (quietSearch g le p a b st).2 := by
  cases le with
  | static => exact hJ.node hst
  | quiescence ex fuel => exact quiesce_stinv g ex hJ fuel p a b st hst

theorem abEnter_stinv (g : Game P) (rootPly : Int) (depth : Nat) (p : P) {J : SState → Prop} (hJ : StInv J)
    (st : SState) (hst : J st) : J (enterSt (abEnter g rootPly depth p st)) := by
  rw [abEnter_eq]
  have := hJ.poll hst
  split
  · exact this
  · split
    · exact this
    · split
      · split
        · exact this
        · exact this
      · exact this

theorem abLoop_stinv (g : Game P) (ex : P → Explore) (rec : P → Score → Score → SState → Score × List Move × SState)
    {J : SState → Prop} (hrec : ∀ c a b st, J st → J (rec c a b st).2.2) (p : P) (beta : Score) :
    ∀ (l : List Move) (alpha : Score) (pv : List Move) (hl : Bool) (st : SState), J st →
      J (abLoop g ex rec p beta l alpha pv hl st).2.2.2.2 := by
  intro l
  induction l with
  | nil => intro alpha pv hl st hst; exact hst
  | cons m rest ih =>
    intro alpha pv hl st hst
    cases h : g.push p m with
    | none => rw [abLoop_cons_none g ex rec p beta h]; exact ih alpha pv hl st hst
    | some c =>
      cases hp : (ex p).pick m with
      | false =>
        rw [abLoop_cons_skip g ex rec p beta h hp]
        split
        · exact hst
        · exact ih _ _ _ _ hst
      | true =>
        rw [abLoop_cons_pick g ex rec p beta h hp]
        have hr := hrec c (childBound beta) (childBound alpha) st hst
        split
        · exact hr
        · exact ih _ _ _ _ hr

theorem leafBody_stinv (g : Game P) (le : LeafEval P) {J : SState → Prop} (hJ : StInv J) (p : P) (a b : Score)
    (st : SState) (hst : J st) : J (leafBody g le p a b st).2.2 := by
  have h2 := hJ.poll (quietSearch_stinv g le hJ p a b st hst)
  unfold leafBody
  split
  · exact h2
  · split
    · exact hJ.table _ h2
    · exact h2

theorem nodeFinish_stinv (g : Game P) (d : Nat) (p : P) {J : SState → Prop} (hJ : StInv J)
    (L : Score × List Move × Bool × Bool × SState) (hL : J L.2.2.2.2) : J (nodeFinish g d p L).2.2 := by
  have h2 := hJ.poll hL
  unfold nodeFinish
  split
  · exact h2
  · split
    · exact h2
    · split
      · exact hJ.table _ h2
      · exact h2

theorem alphabeta_stinv (g : Game P) (ex : P → Explore) (le : LeafEval P) (rootPly : Int) {J : SState → Prop}
    (hJ : StInv J) :
    ∀ (d : Nat) (p : P) (a b : Score) (st : SState), J st → J (alphabeta g ex le rootPly d p a b st).2.2 := by
  intro d
  induction d with
  | zero =>
    intro p a b st hst
    have he := abEnter_stinv g rootPly 0 p hJ st hst
    rw [alphabeta_zero]
    generalize abEnter g rootPly 0 p st = e at he ⊢
    cases e with
    | inl r => exact he
    | inr r => exact leafBody_stinv g le hJ p a b r.2 he
  | succ d ih =>
    intro p a b st hst
    have he := abEnter_stinv g rootPly (d + 1) p hJ st hst
    rw [alphabeta_succ]
    generalize abEnter g rootPly (d + 1) p st = e at he ⊢
    cases e with
    | inl r => exact he
    | inr r =>
      apply nodeFinish_stinv g d p hJ
      exact abLoop_stinv g ex (alphabeta g ex le rootPly d) ih p b _ a [] false _ (hJ.node he)

/-- The cancellation instant is fixed. -/
theorem stInv_cancelAt (c : Option Nat) : StInv (fun st => st.cancelAt = c) :=
  ⟨fun h => h, fun h => h, fun _ h => h, fun h => h⟩

/-- **A search never changes the cancellation instant.** -/
theorem alphabeta_cancelAt (g : Game P) (ex : P → Explore) (le : LeafEval P) (rootPly : Int) (d : Nat) (p : P)
    (a b : Score) (st : SState) : (alphabeta g ex le rootPly d p a b st).2.2.cancelAt = st.cancelAt :=
  alphabeta_stinv g ex le rootPly (stInv_cancelAt st.cancelAt) d p a b st rfl

/-! ## shifting the counters -/

/-- The state with `k` more nodes, `j` more polls and the fuel flag or-ed with `f`. -/
def shift (k j : Nat) (f : Bool) (st : SState) : SState :=
  { st with nodes := st.nodes + k, polls := st.polls + j, fuelOut := st.fuelOut || f }

def shiftQ (k j : Nat) (f : Bool) (r : Score × SState) : Score × SState := (r.1, shift k j f r.2)
def shiftQL (k j : Nat) (f : Bool) (r : Score × Bool × SState) : Score × Bool × SState := (r.1, r.2.1, shift k j f r.2.2)
def shiftA (k j : Nat) (f : Bool) (r : Score × List Move × SState) : Score × List Move × SState :=
  (r.1, r.2.1, shift k j f r.2.2)
def shiftAL (k j : Nat) (f : Bool) (r : Score × List Move × Bool × Bool × SState) :
    Score × List Move × Bool × Bool × SState := (r.1, r.2.1, r.2.2.1, r.2.2.2.1, shift k j f r.2.2.2.2)
def shiftE (k j : Nat) (f : Bool) : Sum (Score × List Move × SState) (Move × SState) →
    Sum (Score × List Move × SState) (Move × SState)
  | .inl r => .inl (shiftA k j f r)
  | .inr r => .inr (r.1, shift k j f r.2)

section shift
variable (k j : Nat) (f : Bool)

@[simp] theorem shift_tt (st : SState) : (shift k j f st).tt = st.tt := rfl
@[simp] theorem shift_cancelAt (st : SState) : (shift k j f st).cancelAt = st.cancelAt := rfl

theorem poll_shift_snd (st : SState) : (poll (shift k j f st)).2 = shift k j f (poll st).2 := by
  simp only [poll, shift, Nat.add_right_comm]

theorem poll_fst_none {st : SState} (h : st.cancelAt = none) : (poll st).1 = false := by
  simp only [poll, h]

theorem poll_snd_cancelAt (st : SState) : (poll st).2.cancelAt = st.cancelAt := rfl

theorem shift_node (st : SState) :
    { shift k j f st with nodes := (shift k j f st).nodes + 1 } = shift k j f { st with nodes := st.nodes + 1 } := by
  simp only [shift, Nat.add_right_comm]

theorem shift_table (st : SState) (t : TTState) : { shift k j f st with tt := t } = shift k j f { st with tt := t } := rfl

theorem shift_fuel (st : SState) :
    { shift k j f st with fuelOut := true } = shift k j f { st with fuelOut := true } := rfl

theorem quiesceLoop_shift (g : Game P) (ex : P → Explore) (rec : P → Score → Score → SState → Score × SState)
    (hrec : ∀ c a b st, st.cancelAt = none → rec c a b (shift k j f st) = shiftQ k j f (rec c a b st))
    (hc : ∀ c a b st, st.cancelAt = none → (rec c a b st).2.cancelAt = none) (p : P) (beta : Score) :
    ∀ (l : List Move) (alpha : Score) (hl : Bool) (st : SState), st.cancelAt = none →
      quiesceLoop g ex rec p beta l alpha hl (shift k j f st) =
        shiftQL k j f (quiesceLoop g ex rec p beta l alpha hl st) := by
  intro l
  induction l with
  | nil => intro alpha hl st _; rfl
  | cons m rest ih =>
    intro alpha hl st hst
    cases h : g.push p m with
    | none => rw [quiesceLoop_cons_none g ex rec p beta h, quiesceLoop_cons_none g ex rec p beta h]; exact ih _ _ _ hst
    | some c =>
      cases hp : (ex p).pick m with
      | false =>
        rw [quiesceLoop_cons_skip g ex rec p beta h hp, quiesceLoop_cons_skip g ex rec p beta h hp]
        by_cases hcut : cutoff alpha beta = true
        · simp only [hcut]; rfl
        · simp only [hcut, Bool.false_eq_true, if_false]; exact ih _ _ _ hst
      | true =>
        rw [quiesceLoop_cons_pick g ex rec p beta h hp, quiesceLoop_cons_pick g ex rec p beta h hp,
          hrec c _ _ st hst]
        simp only [shiftQ]
        by_cases hcut : cutoff (Score.max alpha (incMate (rec c (childBound beta) (childBound alpha) st).1).negate)
            beta = true
        · simp only [hcut]; rfl
        · simp only [hcut, Bool.false_eq_true, if_false]; exact ih _ _ _ (hc c _ _ st hst)

theorem quiesce_shift (g : Game P) (ex : P → Explore) :
    ∀ (fuel : Nat) (p : P) (a b : Score) (st : SState), st.cancelAt = none →
      quiesce g ex fuel p a b (shift k j f st) = shiftQ k j f (quiesce g ex fuel p a b st) := by
  intro fuel
  induction fuel with
  | zero => intro p a b st _; rfl
  | succ fuel ih =>
    intro p a b st hst
    have hcq : ∀ c a b st, st.cancelAt = none → (quiesce g ex fuel c a b st).2.cancelAt = none :=
      fun c a b st h => quiesce_stinv g ex (stInv_cancelAt none) fuel c a b st h
    rw [quiesce_succ, quiesce_succ, poll_shift_snd, shift_node,
      quiesceLoop_shift k j f g ex (quiesce g ex fuel) ih hcq p b _ _ _ _ (by exact hst),
      poll_fst_none (st := shift k j f st) hst, poll_fst_none hst]
    simp only [Bool.false_eq_true, if_false, shiftQL]
    by_cases hd : g.isDraw p = true
    · simp only [hd]; rfl
    · simp only [hd, Bool.false_eq_true, if_false]
      generalize quiesceLoop g ex (quiesce g ex fuel) p b (heapOrder (g.moves p) (ex p).prio)
        (Score.max a (heuristicScore (g.eval p))) false { (poll st).2 with nodes := (poll st).2.nodes + 1 } = L
      by_cases hl : (!L.2.1) = true
      · simp only [hl]; rfl
      · simp only [hl]; rfl

theorem quietSearch_shift (g : Game P) (le : LeafEval P) (p : P) (a b : Score) (st : SState)
    (hst : st.cancelAt = none) :
    quietSearch g le p a b (shift k j f st) = shiftQ k j f (quietSearch g le p a b st) := by
  cases le with
  | static =>
    simp only [quietSearch, shiftQ]
    rw [shift_node]
  | quiescence ex fuel => exact quiesce_shift k j f g ex fuel p a b st hst

theorem abEnter_shift (g : Game P) (rootPly : Int) (depth : Nat) (p : P) (st : SState) (hst : st.cancelAt = none) :
    abEnter g rootPly depth p (shift k j f st) = shiftE k j f (abEnter g rootPly depth p st) := by
  rw [abEnter_eq, abEnter_eq, poll_shift_snd, poll_fst_none (st := shift k j f st) hst, poll_fst_none hst]
  simp only [Bool.false_eq_true, if_false, shift_tt]
  by_cases hd : (!(g.ply p == rootPly) && g.isDraw p) = true
  · simp only [hd]; rfl
  · simp only [hd, Bool.false_eq_true, if_false]
    cases (poll st).2.tt.read (g.hash p) with
    | none => rfl
    | some e =>
      simp only
      by_cases hx : (!(g.ply p == rootPly) && depth == e.depth && e.bound == 0) = true
      · simp only [hx]; rfl
      · simp only [hx]; rfl

theorem abLoop_shift (g : Game P) (ex : P → Explore) (rec : P → Score → Score → SState → Score × List Move × SState)
    (hrec : ∀ c a b st, st.cancelAt = none → rec c a b (shift k j f st) = shiftA k j f (rec c a b st))
    (hc : ∀ c a b st, st.cancelAt = none → (rec c a b st).2.2.cancelAt = none) (p : P) (beta : Score) :
    ∀ (l : List Move) (alpha : Score) (pv : List Move) (hl : Bool) (st : SState), st.cancelAt = none →
      abLoop g ex rec p beta l alpha pv hl (shift k j f st) =
        shiftAL k j f (abLoop g ex rec p beta l alpha pv hl st) := by
  intro l
  induction l with
  | nil => intro alpha pv hl st _; rfl
  | cons m rest ih =>
    intro alpha pv hl st hst
    cases h : g.push p m with
    | none => rw [abLoop_cons_none g ex rec p beta h, abLoop_cons_none g ex rec p beta h]; exact ih _ _ _ _ hst
    | some c =>
      cases hp : (ex p).pick m with
      | false =>
        rw [abLoop_cons_skip g ex rec p beta h hp, abLoop_cons_skip g ex rec p beta h hp]
        by_cases hcut : cutoff alpha beta = true
        · simp only [hcut]; rfl
        · simp only [hcut, Bool.false_eq_true, if_false]; exact ih _ _ _ _ hst
      | true =>
        rw [abLoop_cons_pick g ex rec p beta h hp, abLoop_cons_pick g ex rec p beta h hp, hrec c _ _ st hst]
        have hstep : ∀ r : Score × List Move × SState, abStep m alpha pv (shiftA k j f r) = abStep m alpha pv r :=
          fun r => rfl
        simp only [hstep]
        by_cases hcut : cutoff (abStep m alpha pv (rec c (childBound beta) (childBound alpha) st)).1 beta = true
        · simp only [hcut]; rfl
        · simp only [hcut, Bool.false_eq_true, if_false]; exact ih _ _ _ _ (hc c _ _ st hst)

theorem leafBody_shift (g : Game P) (le : LeafEval P) (p : P) (a b : Score) (st : SState) (hst : st.cancelAt = none) :
    leafBody g le p a b (shift k j f st) = shiftA k j f (leafBody g le p a b st) := by
  have hq : (quietSearch g le p a b st).2.cancelAt = none :=
    quietSearch_stinv g le (stInv_cancelAt none) p a b st hst
  unfold leafBody
  rw [quietSearch_shift k j f g le p a b st hst]
  simp only [shiftQ, poll_shift_snd, poll_fst_none (st := shift k j f (quietSearch g le p a b st).2) hq,
    poll_fst_none hq, Bool.false_eq_true, if_false, shiftA, shift_tt]
  by_cases hx : (a.less (quietSearch g le p a b st).1 && (quietSearch g le p a b st).1.less b) = true
  · simp only [hx]; rfl
  · simp only [hx, Bool.false_eq_true, if_false]

theorem nodeFinish_shift (g : Game P) (d : Nat) (p : P) (L : Score × List Move × Bool × Bool × SState)
    (hL : L.2.2.2.2.cancelAt = none) : nodeFinish g d p (shiftAL k j f L) = shiftA k j f (nodeFinish g d p L) := by
  unfold nodeFinish
  simp only [shiftAL, poll_shift_snd, poll_fst_none (st := shift k j f L.2.2.2.2) hL, poll_fst_none hL,
    Bool.false_eq_true, if_false, shiftA, shift_tt]
  by_cases hl : (!L.2.2.1) = true
  · simp only [hl, if_true]
  · simp only [hl, Bool.false_eq_true, if_false]
    by_cases hx : (!L.2.2.2.1 && !L.2.1.isEmpty) = true
    · simp only [hx]; rfl
    · simp only [hx, Bool.false_eq_true, if_false]

/-- **The counters are only added to.** Without cancellation, starting from a state with `k` more nodes, `j` more
polls and the fuel flag or-ed with `f` gives the same score and PV, and the final state shifted likewise. -/
theorem alphabeta_shift (g : Game P) (ex : P → Explore) (le : LeafEval P) (rootPly : Int) :
    ∀ (d : Nat) (p : P) (a b : Score) (st : SState), st.cancelAt = none →
      alphabeta g ex le rootPly d p a b (shift k j f st) = shiftA k j f (alphabeta g ex le rootPly d p a b st) := by
  intro d
  induction d with
  | zero =>
    intro p a b st hst
    have he := abEnter_stinv g rootPly 0 p (stInv_cancelAt none) st hst
    rw [alphabeta_zero, alphabeta_zero, abEnter_shift k j f g rootPly 0 p st hst]
    generalize abEnter g rootPly 0 p st = e at he ⊢
    cases e with
    | inl r => rfl
    | inr r => exact leafBody_shift k j f g le p a b r.2 he
  | succ d ih =>
    intro p a b st hst
    have he := abEnter_stinv g rootPly (d + 1) p (stInv_cancelAt none) st hst
    have hcr : ∀ c a b st, st.cancelAt = none → (alphabeta g ex le rootPly d c a b st).2.2.cancelAt = none :=
      fun c a b st h => (alphabeta_cancelAt g ex le rootPly d c a b st).trans h
    rw [alphabeta_succ, alphabeta_succ, abEnter_shift k j f g rootPly (d + 1) p st hst]
    generalize abEnter g rootPly (d + 1) p st = e at he ⊢
    cases e with
    | inl r => rfl
    | inr r =>
      simp only [shiftE]
      rw [shift_node, abLoop_shift k j f g ex (alphabeta g ex le rootPly d) ih hcr p b _ _ _ _ _ (by exact he)]
      apply nodeFinish_shift
      exact abLoop_stinv g ex (alphabeta g ex le rootPly d) (J := fun st => st.cancelAt = none) hcr p b _ a [] false _
        (by exact he)

end shift

/-- **The incoming counters do not matter.** Without cancellation, `AlphaBeta.Search` reports the same result
(node count, score, PV) from `st` as from the fresh state carrying the same table. -/
theorem alphaBetaSearch_fresh (g : Game P) (ex : P → Explore) (le : LeafEval P) (p : P) (d : Nat) (a b : Score)
    (st : SState) (hst : st.cancelAt = none) :
    (alphaBetaSearch g ex le p d a b st).1 = (alphaBetaSearch g ex le p d a b { tt := st.tt }).1 := by
  have hbase : ({ st with nodes := 0 } : SState) = shift 0 st.polls st.fuelOut { tt := st.tt } := by
    cases st with
    | mk tt nodes polls cancelAt fuelOut =>
      simp only at hst
      subst hst
      simp [shift]
  have hb0 : ({ ({ tt := st.tt } : SState) with nodes := 0 } : SState) = { tt := st.tt } := rfl
  have hc0 : (alphabeta g ex le (g.ply p) d p (if a.isInvalid then negInfScore else a)
      (if b.isInvalid then infScore else b) { tt := st.tt }).2.2.cancelAt = none :=
    alphabeta_cancelAt _ _ _ _ _ _ _ _ _
  simp only [alphaBetaSearch]
  rw [hbase, hb0, alphabeta_shift 0 st.polls st.fuelOut g ex le (g.ply p) d p _ _ _ rfl]
  generalize alphabeta g ex le (g.ply p) d p (if a.isInvalid then negInfScore else a)
    (if b.isInvalid then infScore else b) { tt := st.tt } = r at hc0 ⊢
  simp only [shiftA, poll_shift_snd, poll_fst_none (st := shift 0 st.polls st.fuelOut r.2.2) hc0, poll_fst_none hc0,
    Bool.false_eq_true, if_false]
  simp [shift]

/-- Without a table the table field is handed through untouched. -/
theorem alphabeta_tt_empty (g : Game P) (ex : P → Explore) (le : LeafEval P) (rootPly : Int) (d : Nat) (p : P)
    (a b : Score) (st : SState) (htt : st.tt.slots.size = 0) :
    (alphabeta g ex le rootPly d p a b st).2.2.tt = st.tt :=
  alphabeta_inv g ex le rootPly (fun t => t = st.tt)
    (fun h bound ply depth score m ht => by rw [ht]; exact write_empty htt h bound ply depth score m) d p a b st rfl

theorem alphaBetaSearch_snd (g : Game P) (ex : P → Explore) (le : LeafEval P) (p : P) (d : Nat) (a b : Score)
    (st : SState) :
    (alphaBetaSearch g ex le p d a b st).2 =
      (poll (alphabeta g ex le (g.ply p) d p (if a.isInvalid then negInfScore else a)
        (if b.isInvalid then infScore else b) { st with nodes := 0 }).2.2).2 := by
  simp only [alphaBetaSearch]
  generalize alphabeta g ex le (g.ply p) d p (if a.isInvalid then negInfScore else a)
    (if b.isInvalid then infScore else b) { st with nodes := 0 } = r
  by_cases h : (poll r.2.2).1 = true
  · rw [if_pos h]
  · rw [if_neg h]

theorem alphaBetaSearch_tt_empty (g : Game P) (ex : P → Explore) (le : LeafEval P) (p : P) (d : Nat) (a b : Score)
    (st : SState) (htt : st.tt.slots.size = 0) : (alphaBetaSearch g ex le p d a b st).2.tt = st.tt := by
  have := alphabeta_tt_empty g ex le (g.ply p) d p (if a.isInvalid then negInfScore else a)
    (if b.isInvalid then infScore else b) { st with nodes := 0 } htt
  rw [alphaBetaSearch_snd]
  exact this

theorem alphaBetaSearch_cancelAt (g : Game P) (ex : P → Explore) (le : LeafEval P) (p : P) (d : Nat) (a b : Score)
    (st : SState) : (alphaBetaSearch g ex le p d a b st).2.cancelAt = st.cancelAt := by
  have := alphabeta_cancelAt g ex le (g.ply p) d p (if a.isInvalid then negInfScore else a)
    (if b.isInvalid then infScore else b) { st with nodes := 0 }
  rw [alphaBetaSearch_snd]
  exact this

end Morlock.Proofs.Det
