import Morlock.Proofs.GenNodup
/-!
# The reference `Spec.pseudoMoves` lists no move twice (reference-side lemma for C01 Stage G)

Rays on an occupied board are prefixes of the rays on the empty board, so the officer targets for any
occupancy are a sublist of the empty-board targets, which are duplicate-free by evaluation
(64 squares × 6 kinds). The rest is bookkeeping over `movesFrom`.
-/
namespace Morlock.Proofs.Gen
open Morlock Morlock.Spec Morlock.Proofs.Attack

/-- `omega`, after unfolding the square type alias `Spec.Sq` (which hides `Nat` from it). -/
macro "omega_sq" : tactic => `(tactic| ((try unfold Spec.Sq at *); omega))

theorem ray_sublist_empty (occ : Sq → Bool) (df dr : Int) :
    ∀ (fuel : Nat) (sq : Sq), (ray occ sq df dr fuel).Sublist (ray (fun _ => false) sq df dr fuel) := by
  intro fuel
  induction fuel with
  | zero => intro sq; simp [ray]
  | succ fuel ih =>
    intro sq
    unfold ray
    cases step sq df dr with
    | none => exact List.Sublist.refl _
    | some s =>
      simp only [Bool.false_eq_true, if_false]
      split
      · exact List.Sublist.cons_cons s (List.nil_sublist _)
      · exact List.Sublist.cons_cons s (ih s)

theorem officerTargets_sublist_empty (occ : Sq → Bool) (k : Kind) (sq : Sq) :
    (officerTargets occ k sq).Sublist (officerTargets (fun _ => false) k sq) := by
  cases k <;> simp only [officerTargets, rookDirs, bishopDirs, List.flatMap_cons, List.flatMap_nil,
    List.append_nil, List.cons_append, List.nil_append]
  · exact List.Sublist.refl _
  · exact ((ray_sublist_empty ..).append ((ray_sublist_empty ..).append
      ((ray_sublist_empty ..).append (ray_sublist_empty ..))))
  · exact List.Sublist.refl _
  · exact ((ray_sublist_empty ..).append ((ray_sublist_empty ..).append
      ((ray_sublist_empty ..).append (ray_sublist_empty ..))))
  · exact ((ray_sublist_empty ..).append ((ray_sublist_empty ..).append
      ((ray_sublist_empty ..).append ((ray_sublist_empty ..).append ((ray_sublist_empty ..).append
      ((ray_sublist_empty ..).append ((ray_sublist_empty ..).append (ray_sublist_empty ..))))))))
  · exact List.Sublist.refl _

/-- Duplicate-freeness check by structural recursion (cheap for the kernel). -/
def nodupB : List Nat → Bool
  | [] => true
  | a :: l => !(l.contains a) && nodupB l

theorem nodupB_spec {l : List Nat} (h : nodupB l = true) : l.Nodup := by
  induction l with
  | nil => exact List.nodup_nil
  | cons a l ih =>
    simp only [nodupB, Bool.and_eq_true, Bool.not_eq_true', List.contains_eq_mem, decide_eq_false_iff_not] at h
    exact List.nodup_cons.mpr ⟨h.1, ih h.2⟩

def allKinds : List Kind := [.pawn, .bishop, .knight, .rook, .queen, .king]

theorem emptyTargets_nodup_all : allBelow 64 (fun sq =>
    allKinds.all fun k => nodupB (officerTargets (fun _ => false) k sq)) = true := by
  decide +kernel

/-- Officer targets never list a square twice, for every occupancy. -/
theorem officerTargets_nodup (occ : Sq → Bool) (k : Kind) {sq : Sq} (hs : sq < 64) :
    (officerTargets occ k sq).Nodup := by
  apply List.Nodup.sublist (officerTargets_sublist_empty occ k sq)
  have := allBelow_spec emptyTargets_nodup_all sq hs
  rw [List.all_eq_true] at this
  exact nodupB_spec (this k (by cases k <;> simp [allKinds]))

theorem withPromo_nodup (c : Spec.Color) (s t : Sq) : (withPromo c s t).Nodup := by
  unfold withPromo
  split
  · apply nodup_map_of_inj (by decide)
    intro a _ a' _ e
    simpa using e
  · simp

theorem to_of_mem_withPromo {c : Spec.Color} {s t : Sq} {sm : SMove} (h : sm ∈ withPromo c s t) :
    sm.to = t := (mem_withPromo.mp h).2.1

theorem pawnTargets_nodup (c : Spec.Color) (s : Sq) : (pawnTargets c s).Nodup := by
  unfold pawnTargets
  cases h1 : step s 1 (fwd c) with
  | none => cases h2 : step s (-1) (fwd c) <;> simp
  | some t1 =>
    cases h2 : step s (-1) (fwd c) with
    | none => simp
    | some t2 =>
      have c1 := (step_coords h1).1
      have c2 := (step_coords h2).1
      have : t1 ≠ t2 := by intro e; subst e; omega
      simp [this]

theorem pawnCaps_nodup (p : Pos) (c : Spec.Color) (s : Sq) : (pawnCaps p c s).Nodup := by
  unfold pawnCaps
  apply nodup_flatMap_of_key SMove.to (pawnTargets_nodup c s)
  · intro t _
    split
    · split
      · exact withPromo_nodup ..
      · exact List.nodup_nil
    · split
      · simp
      · exact List.nodup_nil
  · intro t _ x hx
    split at hx
    · split at hx
      · exact to_of_mem_withPromo hx
      · cases hx
    · split at hx
      · simp only [List.mem_singleton] at hx; rw [hx]
      · cases hx

theorem pawnPushes_nodup (p : Pos) (c : Spec.Color) (s : Sq) : (pawnPushes p c s).Nodup := by
  unfold pawnPushes
  cases hst : step s 0 (fwd c) with
  | none => exact List.nodup_nil
  | some t =>
    simp only
    split
    · exact List.nodup_nil
    · rw [List.nodup_append]
      refine ⟨withPromo_nodup .., ?_, ?_⟩
      · split
        · split
          · split
            · exact List.nodup_nil
            · simp
          · exact List.nodup_nil
        · exact List.nodup_nil
      · intro a ha b hb e
        have hto := to_of_mem_withPromo ha
        split at hb
        · split at hb
          · rename_i t2 hst2
            split at hb
            · cases hb
            · simp only [List.mem_singleton] at hb
              have c2 := (step_coords hst2).2
              rw [e, hb] at hto
              simp only at hto
              subst hto
              have : fwd c = 1 ∨ fwd c = -1 := by cases c <;> simp [fwd]
              rcases this with e | e <;> rw [e] at c2 <;> omega
          · cases hb
        · cases hb

theorem file_of_mem_pawnPushes {p : Pos} {c : Spec.Color} {s : Sq} {sm : SMove}
    (h : sm ∈ pawnPushes p c s) : sm.to % 8 = s % 8 := by
  rw [mem_pawnPushes] at h
  obtain ⟨t, hst, _, h | ⟨_, t2, hst2, _, rfl⟩⟩ := h
  · rw [to_of_mem_withPromo h]; have := (step_coords hst).1; omega_sq
  · have := (step_coords hst).1; have := (step_coords hst2).1; simp only; omega_sq

theorem file_of_mem_pawnCaps {p : Pos} {c : Spec.Color} {s : Sq} {sm : SMove}
    (h : sm ∈ pawnCaps p c s) : sm.to % 8 ≠ s % 8 := by
  rw [mem_pawnCaps] at h
  obtain ⟨t, ht, h⟩ := h
  have hto : sm.to = t := by
    rcases h with ⟨_, h⟩ | ⟨_, _, rfl⟩
    · exact to_of_mem_withPromo h
    · rfl
  rw [hto]
  rcases mem_pawnTargets_iff.mp ht with hst | hst <;> have := (step_coords hst).1 <;> omega_sq

theorem officerNormal_nodup (p : Pos) (c : Spec.Color) (k : Kind) {s : Sq} (hs : s < 64) :
    (officerNormal p c k s).Nodup := by
  unfold officerNormal
  rw [List.nodup_iff_pairwise_ne, List.pairwise_filterMap]
  refine List.Pairwise.imp ?_ (officerTargets_nodup p.occ k hs)
  intro a a' hne b hb b' hb' e
  have h1 : b.to = a := by
    split at hb
    · split at hb
      · cases hb
      · simp only [Option.some.injEq] at hb; rw [← hb]
    · simp only [Option.some.injEq] at hb; rw [← hb]
  have h2 : b'.to = a' := by
    split at hb'
    · split at hb'
      · cases hb'
      · simp only [Option.some.injEq] at hb'; rw [← hb']
    · simp only [Option.some.injEq] at hb'; rw [← hb']
  exact hne (by rw [← h1, ← h2, e])

theorem castlesFrom_nodup (p : Pos) (c : Spec.Color) (k : Kind) (s : Sq) : (castlesFrom p c k s).Nodup := by
  unfold castlesFrom
  split
  · rw [List.nodup_append]
    refine ⟨by split <;> simp, by split <;> simp, ?_⟩
    intro a ha b hb e
    split at ha
    · split at hb
      · simp only [List.mem_singleton] at ha hb
        rw [ha, hb] at e
        simp only [SMove.mk.injEq] at e
        cases c <;> simp [mkSq, fG, fC, homeRank] at e
      · cases hb
    · cases ha
  · exact List.nodup_nil

theorem movesFrom_nodup (p : Pos) {s : Sq} (hs : s < 64) : (movesFrom p s).Nodup := by
  unfold movesFrom
  split
  · rename_i c' k hat
    split
    · exact List.nodup_nil
    · split
      · rw [List.nodup_append]
        refine ⟨pawnPushes_nodup .., pawnCaps_nodup .., ?_⟩
        intro a ha b hb e
        have h1 := file_of_mem_pawnPushes ha
        have h2 := file_of_mem_pawnCaps hb
        rw [e] at h1; exact h2 h1
      · rw [List.nodup_append]
        refine ⟨officerNormal_nodup p _ _ hs, castlesFrom_nodup .., ?_⟩
        intro a ha b hb e
        rw [mem_officerNormal] at ha
        obtain ⟨_, _, ht, _⟩ := ha
        unfold castlesFrom at hb
        split at hb
        · rename_i hc
          obtain ⟨hk, hsE⟩ := hc
          rw [hk] at ht
          have hf := king_target_file ht
          have hto : b.to % 8 = 1 ∨ b.to % 8 = 5 := by
            rw [List.mem_append] at hb
            rcases hb with hb | hb <;> split at hb
            · simp only [List.mem_singleton] at hb; rw [hb]
              left; cases p.turn <;> simp [mkSq, fG, homeRank]
            · cases hb
            · simp only [List.mem_singleton] at hb; rw [hb]
              right; cases p.turn <;> simp [mkSq, fC, homeRank]
            · cases hb
          have hsf : s % 8 = 3 := by rw [hsE]; cases p.turn <;> simp [mkSq, fE, homeRank]
          rw [e] at hf
          omega_sq
        · cases hb
  · exact List.nodup_nil

/-- The reference pseudo-legal move list has no duplicates (for every position). -/
theorem pseudoMoves_nodup (p : Pos) : (pseudoMoves p).Nodup := by
  rw [pseudoMoves_eq]
  apply nodup_flatMap_of_key SMove.from List.nodup_range
  · intro s hs; exact movesFrom_nodup p (List.mem_range.mp hs)
  · intro s _ x hx; exact from_of_mem_movesFrom hx

end Morlock.Proofs.Gen
