import Morlock.Spec.Search
/-!
# C20: the colour-swapping mirror of a reference position, and the material evaluation under it

`Spec.mirror` flips the board top to bottom (square `8·r + f ↦ 8·(7 − r) + f`), swaps the colours of
all men, the side to move and the castling rights of the two colours, and mirrors the en-passant
target. `Spec.material` (side to move minus opponent) is invariant under it.
-/
namespace Morlock.Spec

/-- The vertical mirror of a square: `8·r + f ↦ 8·(7 − r) + f`; squares off the board are left alone
    (which makes `mirrorSq` an involution on all of `Nat`). -/
def mirrorSq (s : Nat) : Nat := if s < 64 then 8 * (7 - s / 8) + s % 8 else s

/-- A cell with the colour of the man swapped. -/
def mirrorCell : Option (Color × Kind) → Option (Color × Kind)
  | some (c, k) => some (c.opp, k)
  | none => none

/-- The colour-swapping mirror image of a position: board flipped top to bottom, colours swapped, side
    to move swapped, castling rights exchanged between the colours, en-passant target mirrored. -/
def mirror (p : Pos) : Pos :=
  { board := ((List.range 64).map fun i => mirrorCell (p.at (mirrorSq i))).toArray
    turn := p.turn.opp
    wk := p.bk
    wq := p.bq
    bk := p.wk
    bq := p.wq
    ep := p.ep.map mirrorSq }

/-- The mirror image of a move: origin and destination mirrored, same promotion piece. -/
def mirrorMove (m : SMove) : SMove := { «from» := mirrorSq m.from, to := mirrorSq m.to, promo := m.promo }

/-! ## squares -/

theorem mirrorSq_lt {s : Nat} (h : s < 64) : mirrorSq s < 64 := by
  unfold mirrorSq; rw [if_pos h]; omega

theorem mirrorSq_of_lt {s : Nat} (h : s < 64) : mirrorSq s = 8 * (7 - s / 8) + s % 8 := by
  unfold mirrorSq; rw [if_pos h]

theorem mirrorSq_of_ge {s : Nat} (h : 64 ≤ s) : mirrorSq s = s := by
  unfold mirrorSq; rw [if_neg (by omega)]

theorem mirrorSq_lt_iff {s : Nat} : mirrorSq s < 64 ↔ s < 64 := by
  constructor
  · intro h
    by_cases hs : s < 64
    · exact hs
    · rw [mirrorSq_of_ge (by omega)] at h; exact h
  · exact mirrorSq_lt

@[simp] theorem mirrorSq_mirrorSq (s : Nat) : mirrorSq (mirrorSq s) = s := by
  by_cases h : s < 64
  · rw [mirrorSq_of_lt (mirrorSq_lt h), mirrorSq_of_lt h]; omega
  · have h' : 64 ≤ s := by omega
    rw [mirrorSq_of_ge (s := s) h', mirrorSq_of_ge h']

theorem mirrorSq_inj {a b : Nat} (h : mirrorSq a = mirrorSq b) : a = b := by
  rw [← mirrorSq_mirrorSq a, h, mirrorSq_mirrorSq]

theorem fileOf_mirrorSq {s : Nat} (h : s < 64) : fileOf (mirrorSq s) = fileOf s := by
  unfold fileOf; rw [mirrorSq_of_lt h]; omega

theorem rankOf_mirrorSq {s : Nat} (h : s < 64) : rankOf (mirrorSq s) = 7 - rankOf s := by
  unfold rankOf; rw [mirrorSq_of_lt h]; omega

theorem rankOf_lt {s : Nat} (h : s < 64) : rankOf s < 8 := by unfold rankOf; omega
theorem fileOf_lt (s : Nat) : fileOf s < 8 := by unfold fileOf; omega

theorem mirrorSq_mkSq {f r : Nat} (hf : f < 8) (hr : r < 8) : mirrorSq (mkSq f r) = mkSq f (7 - r) := by
  unfold mkSq
  have h : 8 * r + f < 64 := by omega
  rw [mirrorSq_of_lt h]; omega

/-! ## cells and colours -/

@[simp] theorem Color.opp_opp (c : Color) : c.opp.opp = c := by cases c <;> rfl

theorem Color.opp_inj {a b : Color} (h : a.opp = b.opp) : a = b := by
  cases a <;> cases b <;> first | rfl | cases h

theorem Color.opp_ne (c : Color) : c.opp ≠ c := by cases c <;> decide

theorem Color.eq_opp_iff {a b : Color} : a = b.opp ↔ a.opp = b := by
  cases a <;> cases b <;> decide

theorem Color.opp_eq_iff {a b : Color} : a.opp = b.opp ↔ a = b := by
  cases a <;> cases b <;> decide

theorem Color.ne_iff_eq_opp {a b : Color} : a ≠ b ↔ a = b.opp := by
  cases a <;> cases b <;> decide

@[simp] theorem mirrorCell_mirrorCell (v : Option (Color × Kind)) : mirrorCell (mirrorCell v) = v := by
  cases v with
  | none => rfl
  | some x => obtain ⟨c, k⟩ := x; simp [mirrorCell]

@[simp] theorem mirrorCell_none : mirrorCell none = none := rfl
@[simp] theorem mirrorCell_some (c : Color) (k : Kind) : mirrorCell (some (c, k)) = some (c.opp, k) := rfl

theorem mirrorCell_isSome (v : Option (Color × Kind)) : (mirrorCell v).isSome = v.isSome := by
  cases v with
  | none => rfl
  | some x => rfl

theorem mirrorCell_eq_none {v : Option (Color × Kind)} : mirrorCell v = none ↔ v = none := by
  cases v with
  | none => simp
  | some x => obtain ⟨c, k⟩ := x; simp

theorem mirrorCell_eq_some {v : Option (Color × Kind)} {c : Color} {k : Kind} :
    mirrorCell v = some (c, k) ↔ v = some (c.opp, k) := by
  cases v with
  | none => simp
  | some x =>
    obtain ⟨c', k'⟩ := x
    simp only [mirrorCell_some, Option.some.injEq, Prod.mk.injEq]
    constructor
    · rintro ⟨h1, h2⟩; exact ⟨by rw [← h1]; simp, h2⟩
    · rintro ⟨h1, h2⟩; exact ⟨by rw [h1]; simp, h2⟩

/-! ## the mirrored board -/

@[simp] theorem mirror_board_size (p : Pos) : (mirror p).board.size = 64 := by simp [mirror]

@[simp] theorem mirror_turn (p : Pos) : (mirror p).turn = p.turn.opp := rfl
@[simp] theorem mirror_ep (p : Pos) : (mirror p).ep = p.ep.map mirrorSq := rfl

theorem mirror_at {p : Pos} {s : Nat} (hs : s < 64) : (mirror p).at s = mirrorCell (p.at (mirrorSq s)) := by
  unfold Pos.at
  rw [Array.getD, dif_pos (by simpa using hs)]
  simp [mirror, Pos.at]

theorem mirror_at_ge {p : Pos} {s : Nat} (hs : 64 ≤ s) : (mirror p).at s = none := by
  unfold Pos.at
  rw [Array.getD, dif_neg (by rw [mirror_board_size]; omega)]

/-- The cell of the mirrored position at a mirrored square. -/
theorem mirror_at_mirrorSq {p : Pos} {s : Nat} (hs : s < 64) : (mirror p).at (mirrorSq s) = mirrorCell (p.at s) := by
  rw [mirror_at (mirrorSq_lt hs), mirrorSq_mirrorSq]

theorem mirror_occ {p : Pos} {s : Nat} (hs : s < 64) : (mirror p).occ s = p.occ (mirrorSq s) := by
  unfold Pos.occ; rw [mirror_at hs, mirrorCell_isSome]

theorem mirror_occ_mirrorSq {p : Pos} {s : Nat} (hs : s < 64) : (mirror p).occ (mirrorSq s) = p.occ s := by
  rw [mirror_occ (mirrorSq_lt hs), mirrorSq_mirrorSq]

theorem at_eq_none_of_size {p : Pos} (hsz : p.board.size = 64) {s : Nat} (hs : 64 ≤ s) : p.at s = none := by
  unfold Pos.at
  rw [Array.getD, dif_neg (by omega)]

theorem mirror_right (p : Pos) (c : Color) (ks : Bool) : (mirror p).right c.opp ks = p.right c ks := by
  cases c <;> cases ks <;> rfl

/-- **Mirroring twice is the identity** on positions with a 64-cell board. -/
theorem mirror_mirror {p : Pos} (hsz : p.board.size = 64) : mirror (mirror p) = p := by
  obtain ⟨board, turn, wk, wq, bk, bq, ep⟩ := p
  have hb : (mirror (mirror ⟨board, turn, wk, wq, bk, bq, ep⟩)).board = board := by
    apply Array.ext
    · rw [mirror_board_size]; exact hsz.symm
    · intro i h1 h2
      have hi : i < 64 := by rw [mirror_board_size] at h1; exact h1
      have h := mirror_at (p := mirror ⟨board, turn, wk, wq, bk, bq, ep⟩) hi
      rw [mirror_at (mirrorSq_lt hi), mirrorSq_mirrorSq, mirrorCell_mirrorCell] at h
      unfold Pos.at at h
      rw [Array.getD, dif_pos h1, Array.getD, dif_pos h2] at h
      exact h
  have he : (mirror (mirror ⟨board, turn, wk, wq, bk, bq, ep⟩)).ep = ep := by
    cases ep <;> simp [mirror]
  have ht : (mirror (mirror ⟨board, turn, wk, wq, bk, bq, ep⟩)).turn = turn := by simp [mirror]
  calc mirror (mirror ⟨board, turn, wk, wq, bk, bq, ep⟩)
      = ⟨(mirror (mirror ⟨board, turn, wk, wq, bk, bq, ep⟩)).board,
          (mirror (mirror ⟨board, turn, wk, wq, bk, bq, ep⟩)).turn, wk, wq, bk, bq,
          (mirror (mirror ⟨board, turn, wk, wq, bk, bq, ep⟩)).ep⟩ := rfl
    _ = ⟨board, turn, wk, wq, bk, bq, ep⟩ := by rw [hb, he, ht]

theorem Pos.ext' {a b : Pos} (h1 : a.board = b.board) (h2 : a.turn = b.turn) (h3 : a.wk = b.wk)
    (h4 : a.wq = b.wq) (h5 : a.bk = b.bk) (h6 : a.bq = b.bq) (h7 : a.ep = b.ep) : a = b := by
  obtain ⟨a1, a2, a3, a4, a5, a6, a7⟩ := a
  obtain ⟨b1, b2, b3, b4, b5, b6, b7⟩ := b
  simp only at h1 h2 h3 h4 h5 h6 h7
  subst h1 h2 h3 h4 h5 h6 h7
  rfl

@[simp] theorem mirrorMove_mirrorMove (m : SMove) : mirrorMove (mirrorMove m) = m := by
  cases m; simp [mirrorMove]

theorem mirrorMove_inj {a b : SMove} (h : mirrorMove a = mirrorMove b) : a = b := by
  rw [← mirrorMove_mirrorMove a, h, mirrorMove_mirrorMove]

/-! ## material -/

/-- The value of one cell for the colour `t`: plus for `t`'s men, minus for the opponent's. -/
def cellValue (t : Color) : Option (Color × Kind) → Int
  | some (c, k) => if c = t then kindValue k else - kindValue k
  | none => 0

theorem cellValue_mirror (t : Color) (v : Option (Color × Kind)) :
    cellValue t.opp (mirrorCell v) = cellValue t v := by
  cases v with
  | none => rfl
  | some x =>
    obtain ⟨c, k⟩ := x
    simp only [mirrorCell_some, cellValue, Color.opp_eq_iff]

theorem foldl_add_init (f : Nat → Int) (l : List Nat) (a : Int) :
    l.foldl (fun acc s => acc + f s) a = a + l.foldl (fun acc s => acc + f s) 0 := by
  induction l generalizing a with
  | nil => simp
  | cons x r ih => rw [List.foldl_cons, List.foldl_cons, ih, ih (0 + f x)]; omega

/-- Sum of `f` over a list of squares. -/
def sumOver (f : Nat → Int) (l : List Nat) : Int := l.foldl (fun acc s => acc + f s) 0

@[simp] theorem sumOver_nil (f : Nat → Int) : sumOver f [] = 0 := rfl

theorem sumOver_cons (f : Nat → Int) (x : Nat) (l : List Nat) : sumOver f (x :: l) = f x + sumOver f l := by
  unfold sumOver; rw [List.foldl_cons, foldl_add_init]; omega

theorem sumOver_perm (f : Nat → Int) {l1 l2 : List Nat} (h : l1.Perm l2) : sumOver f l1 = sumOver f l2 := by
  unfold sumOver
  apply h.foldl_eq'
  intro x _ y _ z; omega

theorem sumOver_map (f : Nat → Int) (g : Nat → Nat) (l : List Nat) :
    sumOver f (l.map g) = sumOver (fun s => f (g s)) l := by
  induction l with
  | nil => rfl
  | cons x r ih => rw [List.map_cons, sumOver_cons, sumOver_cons, ih]

theorem sumOver_congr {f g : Nat → Int} {l : List Nat} (h : ∀ s ∈ l, f s = g s) : sumOver f l = sumOver g l := by
  induction l with
  | nil => rfl
  | cons x r ih =>
    rw [sumOver_cons, sumOver_cons, h x List.mem_cons_self, ih (fun s hs => h s (List.mem_cons_of_mem _ hs))]

/-- `material` is the sum of the cell values over the 64 squares. -/
theorem material_eq_sum (p : Pos) : material p = sumOver (fun s => cellValue p.turn (p.at s)) allSquares := by
  unfold material men
  generalize allSquares = l
  suffices h : ∀ a : Int,
      (l.filterMap fun s => (p.at s).map fun (c, k) => (s, c, k)).foldl
        (fun acc (x : Sq × Color × Kind) =>
          match x with | (_, c, k) => if c = p.turn then acc + kindValue k else acc - kindValue k) a =
      a + sumOver (fun s => cellValue p.turn (p.at s)) l by
    rw [h 0]; omega
  induction l with
  | nil => intro a; simp
  | cons x r ih =>
    intro a
    rw [sumOver_cons, List.filterMap_cons]
    cases hx : p.at x with
    | none => simp only [Option.map_none]; rw [ih]; simp [cellValue]
    | some v =>
      obtain ⟨c, k⟩ := v
      simp only [Option.map_some, List.foldl_cons]
      rw [ih]
      by_cases hc : c = p.turn
      · simp only [hc, if_true, cellValue]; omega
      · simp only [hc, if_false, cellValue]; omega

theorem allSquares_mirror_perm : (allSquares.map mirrorSq).Perm allSquares := by decide

/-- **material_mirror_spec.** The material balance seen by the side to move is the same in the
    colour-swapped mirror image (no condition on the position). -/
theorem material_mirror (p : Pos) : material (mirror p) = material p := by
  rw [material_eq_sum, material_eq_sum, ← sumOver_perm _ allSquares_mirror_perm, sumOver_map]
  apply sumOver_congr
  intro s hs
  have hs' : s < 64 := by simpa [allSquares] using hs
  show cellValue (mirror p).turn ((mirror p).at (mirrorSq s)) = _
  rw [mirror_at_mirrorSq hs', mirror_turn, cellValue_mirror]

/-- `material` only looks at the 64 cells and the side to move. -/
theorem material_congr {p q : Pos} (hat : ∀ s, s < 64 → p.at s = q.at s) (ht : p.turn = q.turn) :
    material p = material q := by
  rw [material_eq_sum, material_eq_sum, ht]
  apply sumOver_congr
  intro s hs
  rw [hat s (by simpa [allSquares] using hs)]

end Morlock.Spec
