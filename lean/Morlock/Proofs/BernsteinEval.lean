import Morlock.Proofs.BernsteinSort
import Morlock.Proofs.GenOfficers
/-!
# Bounds on the four Bernstein terms, positivity and totality of `Evaluate`
-/
namespace Morlock.Proofs.Bernstein
open Morlock Morlock.Model Morlock.Model.Bernstein Morlock.Proofs.Gen

/-! ## positivity and definedness of `Evaluate` -/

theorem evaluate_ge_one {p : Position} {factor : Int} {side : Color} {v : Int}
    (h : evaluate p factor side = some v) : 1 ≤ v := by
  unfold evaluate at h
  cases hk : kingDefense p side with
  | none => rw [hk] at h; cases h
  | some d =>
    rw [hk] at h
    simp only [Option.some.injEq] at h
    omega

theorem kingDefense_isSome_iff (p : Position) (side : Color) :
    (kingDefense p side).isSome = true ↔ p.kingSquare side < 64 := by
  unfold kingDefense
  simp only
  split
  · simp; omega
  · simp; omega

theorem evaluate_isSome_iff (p : Position) (factor : Int) (side : Color) :
    (evaluate p factor side).isSome = true ↔ p.kingSquare side < 64 := by
  rw [← kingDefense_isSome_iff]
  unfold evaluate
  cases kingDefense p side <;> simp

/-- the only Go panic of `Evaluate` (`king[64]`) happens exactly on a side without a king -/
theorem kingSquare_lt_iff {p : Position} {side : Color} (hlt : p.pieces side .king < 2 ^ 64) :
    p.kingSquare side < 64 ↔ p.pieces side .king ≠ 0 := by
  unfold Position.kingSquare
  constructor
  · intro h e
    rw [e] at h
    simp [lastPopSquare] at h
  · intro h
    exact (lastPopSquare_spec h hlt).1

/-! ## bounds -/

theorem emitMove_length_le (p : Position) (turn : Color) (t : MoveType) (piece : Piece) (fr ab : Nat) :
    (p.emitMove turn t piece fr ab).length ≤ 64 := by
  unfold Position.emitMove
  rw [List.length_map]
  exact toSquares_length_le ab

theorem emitPromo_length_le (p : Position) (turn : Color) (t : MoveType) (piece : Piece) (fr ab : Nat) :
    (p.emitPromo turn t piece fr ab).length ≤ 256 := by
  unfold Position.emitPromo
  have := length_flatMap_le (fun to =>
      Position.promoPieces.map fun pc =>
        ({ ty := t, piece := piece, «from» := fr, to := to,
           capture := if t = .capturePromotion then p.captureAt to turn else .none, promotion := pc } : Move))
    4 (toSquares ab) (fun x _ => by simp [Position.promoPieces, Gen.listQueenRookKnightBishop])
  have h64 := toSquares_length_le ab
  refine Nat.le_trans this ?_
  omega

theorem genSteps_length_le (p : Position) (turn : Color) (piece : Piece) (fr : Nat) :
    (genSteps p turn piece fr).length ≤ 128 := by
  unfold genSteps
  simp only [List.length_append]
  have h1 := emitMove_length_le p turn .normal piece fr
    ((((attackboard p.rotated fr piece).getD 0) &&& not64 (p.pieces turn .none)) &&& not64 (p.pieces turn.opp .none))
  have h2 := emitMove_length_le p turn .capture piece fr
    ((((attackboard p.rotated fr piece).getD 0) &&& not64 (p.pieces turn .none)) &&& p.pieces turn.opp .none)
  omega

theorem genOfficers_length_le (p : Position) (turn : Color) : (genOfficers p turn).length ≤ 32768 := by
  unfold genOfficers
  have h := length_flatMap_le
    (fun piece => (toSquares (p.pieces turn piece)).flatMap fun fr => genSteps p turn piece fr) 8192
    Position.promoPieces (fun piece _ => by
      have := length_flatMap_le (fun fr => genSteps p turn piece fr) 128 (toSquares (p.pieces turn piece))
        (fun fr _ => genSteps_length_le p turn piece fr)
      have h64 := toSquares_length_le (p.pieces turn piece)
      refine Nat.le_trans this ?_
      omega)
  have h4 : Position.promoPieces.length = 4 := by decide
  rw [h4] at h
  exact h

theorem genPawn_length_le (p : Position) (turn : Color) (fr : Nat) : (genPawn p turn fr).length ≤ 768 := by
  unfold genPawn
  simp only [List.length_append]
  generalize hcb : pawnCaptureboard turn (bitMask fr) &&& not64 (p.pieces turn .none) = cb
  generalize hpb : pawnMoveboard p.rotated.rot turn (bitMask fr) = pb
  have h1 := emitMove_length_le p turn .capture .pawn fr (andNot (cb &&& p.pieces turn.opp .none) (pawnPromotionRank turn))
  have h2 := emitMove_length_le p turn .push .pawn fr (andNot pb (pawnPromotionRank turn))
  have h3 := emitMove_length_le p turn .jump .pawn fr (pawnMoveboard p.rotated.rot turn pb &&& pawnJumpRank turn)
  have h4 := emitPromo_length_le p turn .capturePromotion .pawn fr (cb &&& p.pieces turn.opp .none &&& pawnPromotionRank turn)
  have h5 := emitPromo_length_le p turn .promotion .pawn fr (pb &&& pawnPromotionRank turn)
  have h6 : (if p.enpassant != 0 then p.emitMove turn .enPassant .pawn fr (cb &&& bitMask p.enpassant) else []).length ≤ 64 := by
    split
    · exact emitMove_length_le ..
    · simp
  omega

theorem genPawns_length_le (p : Position) (turn : Color) : (genPawns p turn).length ≤ 49152 := by
  unfold genPawns
  have := length_flatMap_le (fun fr => genPawn p turn fr) 768 (toSquares (p.pieces turn .pawn))
    (fun fr _ => genPawn_length_le p turn fr)
  have h64 := toSquares_length_le (p.pieces turn .pawn)
  refine Nat.le_trans this ?_
  omega

theorem genCastle_length_le (p : Position) (turn : Color) (fr right : Nat) (cmask : List Nat) (rookSq : Nat)
    (t : MoveType) (to : Nat) : (genCastle p turn fr right cmask rookSq t to).length ≤ 64 := by
  unfold genCastle
  split
  · exact emitMove_length_le ..
  · simp

theorem genKing_length_le (p : Position) (turn : Color) : (genKing p turn).length ≤ 256 := by
  unfold genKing
  split
  · simp
  · rw [List.length_append]
    have h1 := genSteps_length_le p turn .king (lastPopSquare (p.pieces turn .king))
    have h2 : (genCastles p turn (lastPopSquare (p.pieces turn .king))).length ≤ 128 := by
      unfold genCastles
      cases turn <;> simp only [List.length_append]
      · have a := genCastle_length_le p .white (lastPopSquare (p.pieces .white .king)) wK Gen.whiteKingSideCastlingMask H1 .kingSideCastle G1
        have b := genCastle_length_le p .white (lastPopSquare (p.pieces .white .king)) wQ Gen.whiteQueenSideCastlingMask A1 .queenSideCastle C1
        omega
      · have a := genCastle_length_le p .black (lastPopSquare (p.pieces .black .king)) bK Gen.blackKingSideCastlingMask H8 .kingSideCastle G8
        have b := genCastle_length_le p .black (lastPopSquare (p.pieces .black .king)) bQ Gen.blackQueenSideCastlingMask A8 .queenSideCastle C8
        omega
    omega

/-- a crude bound that needs no hypothesis on the position (every `ToSquares` list has at most 64 entries) -/
theorem pseudoLegalMoves_length_le (p : Position) (turn : Color) : (p.pseudoLegalMoves turn).length ≤ 82176 := by
  rw [pseudoLegalMoves_eq, List.length_append, List.length_append]
  have h1 := genOfficers_length_le p turn
  have h2 := genPawns_length_le p turn
  have h3 := genKing_length_le p turn
  omega

theorem mobility_bounds (p : Position) (side : Color) : 0 ≤ mobility p side ∧ mobility p side ≤ 82176 := by
  unfold mobility Position.legalMoves
  have h1 := List.length_filter_le (fun m => (p.move m).isSome) (p.pseudoLegalMoves side)
  have h2 := pseudoLegalMoves_length_le p side
  omega

theorem control_bounds (p : Position) (side : Color) : 0 ≤ Bernstein.control p side ∧ Bernstein.control p side ≤ 64 := by
  unfold Bernstein.control controlSquares
  have h1 := List.length_filter_le (fun sq => p.isDefended side sq && !p.isAttacked side sq) (List.range 64)
  rw [List.length_range] at h1
  omega

theorem kingDefense_bounds {p : Position} {side : Color} {d : Int} (h : kingDefense p side = some d) :
    0 ≤ d ∧ d ≤ 64 := by
  unfold kingDefense at h
  simp only at h
  split at h
  · cases h
  · simp only [Option.some.injEq] at h
    subst h
    unfold kingDefenseSquares
    have h1 := List.length_filter_le (fun sq =>
      if p.isEmpty sq then isDefendedBy p side sq qrnbpPieces && !p.isAttacked side sq
      else p.isDefended side sq && !p.isAttacked side sq) (toSquares (kingAttackboard (p.kingSquare side)))
    have h2 := toSquares_length_le (kingAttackboard (p.kingSquare side))
    omega

theorem material_bounds (p : Position) (side : Color) : 0 ≤ material p side ∧ material p side ≤ 1344 := by
  unfold material materialValue
  simp only
  have h1 := popCount_le (p.pieces side .queen)
  have h2 := popCount_le (p.pieces side .rook)
  have h3 := popCount_le (p.pieces side .knight)
  have h4 := popCount_le (p.pieces side .bishop)
  have h5 := popCount_le (p.pieces side .pawn)
  omega

/-- **The score fits a float32 exactly** (`< 2^24`) for every factor up to `10^4`, on every position. -/
theorem evaluate_bounds {p : Position} {factor : Int} {side : Color} {v : Int}
    (hf0 : 0 ≤ factor) (hf1 : factor ≤ 10000) (h : evaluate p factor side = some v) :
    1 ≤ v ∧ v ≤ 13522304 := by
  refine ⟨evaluate_ge_one h, ?_⟩
  unfold evaluate at h
  cases hk : kingDefense p side with
  | none => rw [hk] at h; cases h
  | some d =>
    rw [hk] at h
    simp only [Option.some.injEq] at h
    have hm := mobility_bounds p side
    have hc := control_bounds p side
    have hd := kingDefense_bounds hk
    have hmat := material_bounds p side
    have hprod : factor * material p side ≤ 10000 * 1344 := by
      calc factor * material p side ≤ 10000 * material p side := Int.mul_le_mul_of_nonneg_right hf1 hmat.1
        _ ≤ 10000 * 1344 := Int.mul_le_mul_of_nonneg_left hmat.2 (by decide)
    have hprod0 : 0 ≤ factor * material p side := Int.mul_nonneg hf0 hmat.1
    omega

end Morlock.Proofs.Bernstein
