import Morlock.Proofs.TurochampNear
import Morlock.Proofs.TurochampTotal
/-!
# `PositionPlay` is within `2^-10` of an exact multiple of 1/10 that does not depend on the order of summation

`idealPlay` is the exact sum in tenths. Every float32 step of `PositionPlay` is followed with `Near`; with at most 16 keys
in the mobility map, at most 15 officers and pawns, and pawns advanced at most 5 ranks, all partial sums stay below 255 and
the accumulated error below `2^30` units of `2^-40`.
-/
namespace Morlock.Proofs.Turochamp
open Morlock Morlock.Model Morlock.Model.Flt Morlock.Model.Turochamp

/-! ## exact quantities, in tenths -/

def isum : List Int → Int
  | [] => 0
  | a :: l => a + isum l

theorem isum_perm {l1 l2 : List Int} (h : l1.Perm l2) : isum l1 = isum l2 := by
  induction h with
  | nil => rfl
  | cons a _ ih => simp only [isum, ih]
  | swap a b l => simp only [isum]; omega
  | trans _ _ ih1 ih2 => exact ih1.trans ih2

/-- the tenths that `round(10·√n)/10` stands for -/
def ideal (n : Nat) : Int :=
  match sqrtTerm n with
  | some t => (Q.mul (Q.ofInt 10) t).roundAway
  | none => 0

def b10 (c : Bool) (v : Int) : Int := if c then v else 0

def pre10 (pos : Position) (castled : Bool) (turn : Color) : Int :=
  b10 (pos.castling &&& castlingRights turn != 0) 10 + b10 castled 10 + b10 (pos.isChecked turn.opp) 5 +
  b10 (mayCheckMate pos turn) 10 + b10 (mayCastle pos turn) 10

def mob10 (l : List (Nat × Nat)) : Int := isum (l.map fun e => ideal e.2)

def def10 (d : Nat) : Int := b10 (decide (d > 0)) 10 + b10 (decide (d > 1)) 5

def defSum (pos : Position) (turn : Color) (l : List Nat) : Int :=
  isum (l.map fun sq => def10 ((defenders pos turn sq).getD 0))

def pawn10 (pos : Position) (turn : Color) (sq : Nat) : Int :=
  2 * (pawnRanks turn sq : Int) + b10 ((officerDefended pos turn sq kqrnb).getD false) 3

def pawnSum (pos : Position) (turn : Color) (l : List Nat) : Int := isum (l.map (pawn10 pos turn))

def safety10 (pos : Position) (turn : Color) : Int :=
  if pos.pieces turn .king != 0 then ideal (safety pos turn) else 0

/-- **the exact value of `PositionPlay` in tenths** (no rounding anywhere; independent of any order) -/
def idealPlay (pos : Position) (castled : Bool) (turn : Color) : Int :=
  pre10 pos castled turn + mob10 (mobility pos turn) + defSum pos turn (toSquares (middle pos turn)) -
    safety10 pos turn + pawnSum pos turn (toSquares (pos.pieces turn .pawn))

theorem mob10_perm {l1 l2 : List (Nat × Nat)} (h : l1.Perm l2) : mob10 l1 = mob10 l2 :=
  isum_perm (h.map _)

/-! ## the constants and the square-root terms are near their tenths -/

def nearB (t : Q) (s : Int) (E : Nat) : Bool :=
  decide (0 < t.den) && decide ((t.num * 10995116277760 - s * 1099511627776 * t.den).natAbs ≤ E * 10 * t.den)

theorem nearB_spec {t : Q} {s : Int} {E : Nat} (h : nearB t s E = true) : Near t s E := by
  simp only [nearB, Bool.and_eq_true, decide_eq_true_eq] at h
  exact h

def termOk (n : Nat) : Bool :=
  match sqrtTerm n with
  | some t => nearB t (ideal n) 524288 && decide (0 ≤ ideal n) && decide (ideal n ≤ 114)
  | none => false

theorem termOk_check : allBelow 129 termOk = true := by decide +kernel

theorem sqrtTerm_near {n : Nat} (h : n ≤ 128) :
    ∃ t, sqrtTerm n = some t ∧ Near t (ideal n) 524288 ∧ 0 ≤ ideal n ∧ ideal n ≤ 114 := by
  have := allBelow_spec termOk_check n (by omega)
  unfold termOk at this
  cases hs : sqrtTerm n with
  | none => rw [hs] at this; cases this
  | some t =>
    rw [hs] at this
    simp only [Bool.and_eq_true, decide_eq_true_eq] at this
    exact ⟨t, rfl, nearB_spec this.1.1, this.1.2, this.2⟩

def constOkN (c : Option Q) (s : Int) (E : Nat) : Bool :=
  match c with
  | some t => nearB t s E
  | none => false

theorem c02_near_check : constOkN c02 2 8192 = true := by decide +kernel
theorem c03_near_check : constOkN c03 3 16384 = true := by decide +kernel

theorem const_near {c : Option Q} {s : Int} {E : Nat} (h : constOkN c s E = true) : ∃ t, c = some t ∧ Near t s E := by
  unfold constOkN at h
  cases c with
  | none => cases h
  | some t => exact ⟨t, rfl, nearB_spec h⟩

theorem near_q0 : Near q0 0 0 := nearB_spec (by decide)
theorem near_q1 : Near q1 10 0 := nearB_spec (by decide)
theorem near_qHalf : Near qHalf 5 0 := nearB_spec (by decide)

theorem b10_nonneg (c : Bool) {v : Int} (hv : 0 ≤ v) : 0 ≤ b10 c v := by unfold b10; split <;> omega
theorem b10_le (c : Bool) {v : Int} (hv : 0 ≤ v) : b10 c v ≤ v := by unfold b10; split <;> omega

/-! ## the stages -/

theorem prePlayN (pos : Position) (castled : Bool) (turn : Color) :
    ∃ v, prePlay pos castled turn = some v ∧ Near v (pre10 pos castled turn) 83886080 ∧
      0 ≤ pre10 pos castled turn ∧ pre10 pos castled turn ≤ 45 := by
  have n1 := b10_nonneg (pos.castling &&& castlingRights turn != 0) (v := 10) (by decide)
  have n2 := b10_nonneg castled (v := 10) (by decide)
  have n3 := b10_nonneg (pos.isChecked turn.opp) (v := 5) (by decide)
  have n4 := b10_nonneg (mayCheckMate pos turn) (v := 10) (by decide)
  have n5 := b10_nonneg (mayCastle pos turn) (v := 10) (by decide)
  have l1 := b10_le (pos.castling &&& castlingRights turn != 0) (v := 10) (by decide)
  have l2 := b10_le castled (v := 10) (by decide)
  have l3 := b10_le (pos.isChecked turn.opp) (v := 5) (by decide)
  have l4 := b10_le (mayCheckMate pos turn) (v := 10) (by decide)
  have l5 := b10_le (mayCastle pos turn) (v := 10) (by decide)
  unfold prePlay
  obtain ⟨s1, h1, b1⟩ := addIf32N (pos.castling &&& castlingRights turn != 0) near_q0 near_q1 (by decide) (by decide)
  rw [h1, Option.bind_some]
  obtain ⟨s2, h2, b2⟩ := addIf32N castled b1 near_q1 (by unfold b10 at *; split <;> omega) (by decide)
  rw [h2, Option.bind_some]
  obtain ⟨s3, h3, b3⟩ := addIf32N (pos.isChecked turn.opp) b2 near_qHalf
    (by unfold b10 at *; split <;> split <;> omega) (by decide)
  rw [h3, Option.bind_some]
  obtain ⟨s4, h4, b4⟩ := addIf32N (mayCheckMate pos turn) b3 near_q1
    (by unfold b10 at *; split <;> split <;> split <;> omega) (by decide)
  rw [h4, Option.bind_some]
  obtain ⟨s5, h5, b5⟩ := addIf32N (mayCastle pos turn) b4 near_q1
    (by unfold b10 at *; split <;> split <;> split <;> split <;> omega) (by decide)
  refine ⟨s5, h5, ?_, by unfold pre10; omega, by unfold pre10; omega⟩
  have e : pre10 pos castled turn = 0 + (if (pos.castling &&& castlingRights turn != 0) = true then 10 else 0) +
      (if castled = true then 10 else 0) + (if pos.isChecked turn.opp = true then 5 else 0) +
      (if mayCheckMate pos turn = true then 10 else 0) + (if mayCastle pos turn = true then 10 else 0) := by
    unfold pre10 b10; omega
  rw [e]
  exact b5.mono (by decide)

set_option maxRecDepth 8192 in
theorem mobSumN : ∀ (l : List (Nat × Nat)) (score : Q) (s : Int) (E : Nat),
    Near score s E → (∀ e ∈ l, e.2 ≤ 128) → -2540 ≤ s → s + 114 * (l.length : Int) ≤ 2540 →
    E + 17825792 * l.length ≤ 1099511627776 →
    ∃ v, mobSum l score = some v ∧ Near v (s + mob10 l) (E + 17825792 * l.length) ∧
      s ≤ s + mob10 l ∧ s + mob10 l ≤ s + 114 * (l.length : Int)
  | [], score, s, E, hs, _, _, _, _ => ⟨score, rfl, by simpa [mob10, isum] using hs, by simp [mob10, isum], by simp [mob10, isum]⟩
  | (k, n) :: rest, score, s, E, hs, hall, hlo, hhi, hE => by
    have hn : n ≤ 128 := hall (k, n) (List.mem_cons_self ..)
    obtain ⟨t, ht, nt, t0, t1⟩ := sqrtTerm_near hn
    have hlen : ((k, n) :: rest).length = rest.length + 1 := rfl
    rw [hlen] at hE hhi ⊢
    rw [Nat.mul_add_one] at hE
    have hlenI : ((rest.length + 1 : Nat) : Int) = (rest.length : Int) + 1 := by omega
    rw [hlenI] at hhi ⊢
    have ih := mobSumN rest
    rw [Nat.mul_add_one]
    generalize 17825792 * rest.length = X at hE ih ⊢
    rw [← Nat.add_assoc] at hE ⊢
    obtain ⟨s1, h1, b1⟩ := add32N hs nt (by omega) (by omega)
    obtain ⟨v, hv, bv, lo, hi⟩ := ih s1 (s + ideal n) (E + 524288 + 16777216) b1
      (fun e he => hall e (List.mem_cons_of_mem _ he)) (by omega) (by omega) (by omega)
    have em : mob10 ((k, n) :: rest) = ideal n + mob10 rest := rfl
    refine ⟨v, ?_, ?_, by rw [em]; omega, by rw [em]; omega⟩
    · unfold mobSum
      rw [ht, Option.bind_some, h1, Option.bind_some]
      exact hv
    · rw [em, ← Int.add_assoc]
      exact bv.mono (by omega)

theorem def10_bounds (d : Nat) : 0 ≤ def10 d ∧ def10 d ≤ 15 := by
  unfold def10 b10; constructor <;> (split <;> split <;> omega)

set_option maxRecDepth 8192 in
theorem defenceN (pos : Position) (turn : Color) : ∀ (l : List Nat) (score : Q) (s : Int) (E : Nat),
    Near score s E → -2540 ≤ s → s + 15 * (l.length : Int) ≤ 2540 →
    E + 33554432 * l.length ≤ 1099511627776 →
    ∃ v, defenceLoop pos turn l score = some v ∧ Near v (s + defSum pos turn l) (E + 33554432 * l.length) ∧
      s ≤ s + defSum pos turn l ∧ s + defSum pos turn l ≤ s + 15 * (l.length : Int)
  | [], score, s, E, hs, _, _, _ => ⟨score, rfl, by simpa [defSum, isum] using hs, by simp [defSum, isum], by simp [defSum, isum]⟩
  | sq :: rest, score, s, E, hs, hlo, hhi, hE => by
    have hlen : (sq :: rest).length = rest.length + 1 := rfl
    rw [hlen] at hE hhi ⊢
    rw [Nat.mul_add_one] at hE
    have hlenI : ((rest.length + 1 : Nat) : Int) = (rest.length : Int) + 1 := by omega
    rw [hlenI] at hhi ⊢
    have ih := defenceN pos turn rest
    rw [Nat.mul_add_one]
    generalize 33554432 * rest.length = X at hE ih ⊢
    rw [← Nat.add_assoc] at hE ⊢
    obtain ⟨d, hd⟩ := defenders_isSome pos turn sq
    have hb := def10_bounds d
    have hdef : def10 d = (if decide (d > 0) = true then 10 else 0) + (if decide (d > 1) = true then 5 else 0) := rfl
    obtain ⟨s1, h1, b1⟩ := addIf32N (decide (d > 0)) hs near_q1 (by omega) (by omega)
    obtain ⟨s2, h2, b2⟩ := addIf32N (decide (d > 1)) b1 near_qHalf (by split <;> omega) (by omega)
    have es : s + (if decide (d > 0) = true then (10 : Int) else 0) + (if decide (d > 1) = true then (5 : Int) else 0) =
        s + def10 d := by rw [hdef]; omega
    rw [es] at b2
    obtain ⟨v, hv, bv, lo, hi⟩ := ih s2 (s + def10 d) _ b2 (by omega) (by omega) (by omega)
    have em : defSum pos turn (sq :: rest) = def10 d + defSum pos turn rest := by
      unfold defSum
      rw [List.map_cons, isum, hd]
      rfl
    refine ⟨v, ?_, ?_, by rw [em]; omega, by rw [em]; omega⟩
    · unfold defenceLoop
      rw [hd, Option.bind_some, h1, Option.bind_some, h2, Option.bind_some]
      exact hv
    · rw [em, ← Int.add_assoc]
      exact bv.mono (by omega)

theorem safetyN (pos : Position) (turn : Color) (score : Q) (s : Int) (E : Nat) (hs : Near score s E)
    (hlo : -2400 ≤ s) (hhi : s ≤ 2540) (hE : E + 17825792 ≤ 1099511627776) :
    ∃ v, kingSafety pos turn score = some v ∧ Near v (s - safety10 pos turn) (E + 17825792) ∧
      0 ≤ safety10 pos turn ∧ safety10 pos turn ≤ 114 := by
  unfold kingSafety safety10
  split
  · have hsafe : safety pos turn ≤ 128 := by
      unfold safety
      exact Nat.le_trans (popCount_le _) (by decide)
    obtain ⟨t, ht, nt, t0, t1⟩ := sqrtTerm_near hsafe
    rw [ht, Option.bind_some]
    obtain ⟨v, hv, bv⟩ := sub32N hs nt (by omega) (by omega)
    exact ⟨v, hv, bv.mono (by omega), t0, t1⟩
  · exact ⟨score, rfl, by simpa using hs.mono (by omega), by omega, by omega⟩

/-- the pawn term `0.2 * eval.Pawns(ranks)` for at most 5 ranks -/
theorem pawnTermN {r : Nat} (hr : r ≤ 5) :
    ∃ k02 rr t, c02 = some k02 ∧ pawnsOfInt (r : Int) = some rr ∧ mul f32 k02 rr = some t ∧
      Near t (2 * (r : Int)) 1048576 := by
  obtain ⟨k02, hk, nk⟩ := const_near c02_near_check
  have hrr : pawnsOfInt (r : Int) = some (Q.ofInt (r : Int)) := by
    unfold pawnsOfInt
    exact rnd32_int _ (by omega)
  have hz := nk.mul_nat r
  have hbd : Bd (Q.mul k02 (Q.ofInt (r : Int))) 2 := hz.bd
    (Nat.le_trans (Nat.mul_le_mul_left _ hr) (by decide)) (by omega)
  obtain ⟨t, ht, _⟩ := fltFacts.abs_le32 _ 2 (by decide) hbd
  refine ⟨k02, _, t, hk, hrr, ht, ?_⟩
  have h1 := hz.rnd32 (k := 1) (by simpa using hbd.2) ht
  have e : (2 : Int) * (r : Int) = 2 * r := rfl
  exact h1.mono (by
    have : 8192 * r ≤ 8192 * 5 := Nat.mul_le_mul_left _ hr
    omega)

set_option maxRecDepth 8192 in
theorem pawnN (pos : Position) (turn : Color) : ∀ (l : List Nat) (score : Q) (s : Int) (E : Nat),
    Near score s E → (∀ sq ∈ l, pawnRanks turn sq ≤ 5) → -2540 ≤ s → s + 13 * (l.length : Int) ≤ 2540 →
    E + 35651584 * l.length ≤ 1099511627776 →
    ∃ v, pawnLoop pos turn l score = some v ∧ Near v (s + pawnSum pos turn l) (E + 35651584 * l.length) ∧
      s ≤ s + pawnSum pos turn l ∧ s + pawnSum pos turn l ≤ s + 13 * (l.length : Int)
  | [], score, s, E, hs, _, _, _, _ => ⟨score, rfl, by simpa [pawnSum, isum] using hs, by simp [pawnSum, isum], by simp [pawnSum, isum]⟩
  | sq :: rest, score, s, E, hs, hall, hlo, hhi, hE => by
    have hlen : (sq :: rest).length = rest.length + 1 := rfl
    rw [hlen] at hE hhi ⊢
    rw [Nat.mul_add_one] at hE
    have hlenI : ((rest.length + 1 : Nat) : Int) = (rest.length : Int) + 1 := by omega
    rw [hlenI] at hhi ⊢
    have ih := pawnN pos turn rest
    rw [Nat.mul_add_one]
    generalize 35651584 * rest.length = X at hE ih ⊢
    rw [← Nat.add_assoc] at hE ⊢
    have hr := hall sq (List.mem_cons_self ..)
    obtain ⟨k02, rr, t, hk02, hrr, ht, nt⟩ := pawnTermN hr
    obtain ⟨k03, hk03, n03⟩ := const_near c03_near_check
    obtain ⟨d, hd⟩ := officerDefended_isSome pos turn sq kqrnb (fun _ h => h)
    obtain ⟨s1, h1, b1⟩ := add32N hs nt (by omega) (by omega)
    obtain ⟨s2, h2, b2⟩ := addIf32N d b1 n03 (by omega) (by omega)
    have hp : pawn10 pos turn sq = 2 * (pawnRanks turn sq : Int) + (if d = true then 3 else 0) := by
      unfold pawn10 b10; rw [hd]; rfl
    have hp0 : 0 ≤ pawn10 pos turn sq ∧ pawn10 pos turn sq ≤ 13 := by
      rw [hp]; constructor <;> (split <;> omega)
    have es : s + 2 * (pawnRanks turn sq : Int) + (if d = true then (3 : Int) else 0) = s + pawn10 pos turn sq := by
      rw [hp]; omega
    rw [es] at b2
    obtain ⟨v, hv, bv, lo, hi⟩ := ih s2 (s + pawn10 pos turn sq) _ b2
      (fun x hx => hall x (List.mem_cons_of_mem _ hx)) (by omega) (by omega) (by omega)
    have em : pawnSum pos turn (sq :: rest) = pawn10 pos turn sq + pawnSum pos turn rest := rfl
    refine ⟨v, ?_, ?_, by rw [em]; omega, by rw [em]; omega⟩
    · unfold pawnLoop
      rw [hk02, Option.bind_some, hrr, Option.bind_some, ht, Option.bind_some, h1, Option.bind_some, hd, Option.bind_some,
        hk03, Option.bind_some, h2, Option.bind_some]
      exact hv
    · rw [em, ← Int.add_assoc]
      exact bv.mono (by omega)

/-- what the error analysis needs of a position and a colour: small mobility map, at most 15 officers and pawns on the
loops of parts (2) and (4), pawns advanced at most 5 ranks -/
structure Small (pos : Position) (turn : Color) : Prop where
  keys : (mobility pos turn).length ≤ 16
  counts : ∀ e ∈ mobility pos turn, e.2 ≤ 128
  officers : (toSquares (middle pos turn)).length + (toSquares (pos.pieces turn .pawn)).length ≤ 15
  ranks : ∀ sq ∈ toSquares (pos.pieces turn .pawn), pawnRanks turn sq ≤ 5

set_option maxRecDepth 8192 in
/-- **`PositionPlay`, summed in any order, is within `2^-10` of `idealPlay / 10`.** -/
theorem positionPlayOrdN {pos : Position} {turn : Color} (hS : Small pos turn) (castled : Bool)
    (order : List (Nat × Nat) → List (Nat × Nat)) (hperm : ∀ l, (order l).Perm l) :
    ∃ v, positionPlayOrd order pos castled turn = some v ∧ Near v (idealPlay pos castled turn) 1073741824 ∧
      (idealPlay pos castled turn).natAbs ≤ 2540 := by
  have hk := hS.keys
  have ho := hS.officers
  have hlen : (order (mobility pos turn)).length = (mobility pos turn).length := (hperm _).length_eq
  obtain ⟨s1, h1, b1, p0, p1⟩ := prePlayN pos castled turn
  obtain ⟨s2, h2, b2, m0, m1⟩ := mobSumN (order (mobility pos turn)) s1 _ _ b1
    (fun e he => hS.counts e ((hperm _).mem_iff.mp he)) (by omega) (by rw [hlen]; omega) (by rw [hlen]; omega)
  rw [mob10_perm (hperm _)] at b2 m0 m1
  rw [hlen] at b2 m1
  obtain ⟨s3, h3, b3, d0, d1⟩ := defenceN pos turn (toSquares (middle pos turn)) s2 _ _ b2 (by omega) (by omega) (by omega)
  obtain ⟨s4, h4, b4, k0, k1⟩ := safetyN pos turn s3 _ _ b3 (by omega) (by omega) (by omega)
  obtain ⟨s5, h5, b5, q0', q1'⟩ := pawnN pos turn (toSquares (pos.pieces turn .pawn)) s4 _ _ b4 hS.ranks
    (by omega) (by omega) (by omega)
  refine ⟨s5, ?_, ?_, ?_⟩
  · unfold positionPlayOrd postPlay
    rw [h1, Option.bind_some, h2, Option.bind_some, h3, Option.bind_some, h4, Option.bind_some]
    exact h5
  · unfold idealPlay
    exact b5.mono (by omega)
  · unfold idealPlay
    omega

end Morlock.Proofs.Turochamp
