import Morlock.Proofs.SargonSpec
import Morlock.Spec.Xray
/-!
# SARGON, part 10: the stack behind an attacker is exactly the x-ray chain of the reference (`Spec.specStack`)

`Proofs/SargonSound.lean` shows that every element of a stack is a legitimate x-ray attacker (`Chain`). Here: the stack
is **complete and in order** — `addAttackerStack` returns the men that the step-by-step walk of `Spec/Xray.lean` collects,
no more, no fewer, nearest first.

Method. A ray on any board is the empty-board ray cut after the first occupied square (`ray_eq_takeThrough`), so everything
is list surgery on the one fixed, duplicate-free list `E = ray ∅ target d 8 = pre ++ f :: S`: the squares that *become*
visible from the target when `f` is lifted are exactly `takeThrough o S` (`newVis_iff`), the only occupied one among them is
the first man of `S`, and the recursion goes on with `pre ++ f :: mid` in front of it.
-/
namespace Morlock.Proofs.Sargon
open Morlock Morlock.Model Morlock.Model.Sargon Morlock.Proofs.Attack Morlock.Proofs.Gen

/-! ## a ray is the empty-board ray cut after the first occupied square -/

/-- the list up to and including its first occupied square -/
def takeThrough (o : Nat → Bool) : List Nat → List Nat
  | [] => []
  | s :: rest => if o s then [s] else s :: takeThrough o rest

theorem ray_eq_takeThrough (o : Nat → Bool) (df dr : Int) :
    ∀ (n sq : Nat), Spec.ray o sq df dr n = takeThrough o (Spec.ray noOcc sq df dr n) := by
  intro n
  induction n with
  | zero => intro sq; rfl
  | succ n ih =>
    intro sq
    simp only [ray_succ]
    cases hs : Spec.step sq df dr with
    | none => rfl
    | some s =>
      have e : (if noOcc s = true then [s] else s :: Spec.ray noOcc s df dr n) = s :: Spec.ray noOcc s df dr n := rfl
      simp only [e, takeThrough, ih s]

theorem takeThrough_subset (o : Nat → Bool) : ∀ (L : List Nat) (x : Nat), x ∈ takeThrough o L → x ∈ L := by
  intro L
  induction L with
  | nil => intro x h; cases h
  | cons s L ih =>
    intro x h
    unfold takeThrough at h
    split at h
    · simp only [List.mem_singleton] at h; subst h; exact List.mem_cons_self ..
    · rcases List.mem_cons.mp h with rfl | h
      · exact List.mem_cons_self ..
      · exact List.mem_cons_of_mem _ (ih x h)

theorem takeThrough_pre (o : Nat → Bool) (L : List Nat) :
    ∀ pre : List Nat, (∀ x ∈ pre, o x = false) → takeThrough o (pre ++ L) = pre ++ takeThrough o L := by
  intro pre
  induction pre with
  | nil => intro _; rfl
  | cons s pre ih =>
    intro h
    have hs : o s = false := h s (List.mem_cons_self ..)
    simp only [List.cons_append, takeThrough, hs, Bool.false_eq_true, if_false]
    rw [ih (fun x hx => h x (List.mem_cons_of_mem _ hx))]

theorem takeThrough_split (o : Nat → Bool) {pre : List Nat} {f : Nat} (S : List Nat) (hpre : ∀ x ∈ pre, o x = false)
    (hf : o f = true) : takeThrough o (pre ++ f :: S) = pre ++ [f] := by
  rw [takeThrough_pre o _ pre hpre]
  simp [takeThrough, hf]

theorem takeThrough_congr {o o' : Nat → Bool} : ∀ L : List Nat, (∀ x ∈ L, o x = o' x) → takeThrough o L = takeThrough o' L := by
  intro L
  induction L with
  | nil => intro _; rfl
  | cons s L ih =>
    intro h
    simp only [takeThrough, h s (List.mem_cons_self ..), ih (fun x hx => h x (List.mem_cons_of_mem _ hx))]

theorem takeThrough_all_empty (o : Nat → Bool) : ∀ L : List Nat, (∀ x ∈ L, o x = false) → takeThrough o L = L := by
  intro L h
  have := takeThrough_pre o [] L h
  simpa [takeThrough] using this

/-- an occupied square of the cut list is where the list was cut -/
theorem takeThrough_mem_occ (o : Nat → Bool) : ∀ (E : List Nat) (x : Nat), x ∈ takeThrough o E → o x = true →
    ∃ pre S, E = pre ++ x :: S ∧ ∀ y ∈ pre, o y = false := by
  intro E
  induction E with
  | nil => intro x h; cases h
  | cons s E ih =>
    intro x h hx
    unfold takeThrough at h
    by_cases hs : o s = true
    · rw [if_pos hs] at h
      simp only [List.mem_singleton] at h
      subst h
      exact ⟨[], E, rfl, by simp⟩
    · rw [if_neg hs] at h
      have hne : x ≠ s := fun c => hs (c ▸ hx)
      rcases List.mem_cons.mp h with h | h
      · exact absurd h hne
      · obtain ⟨pre, S, h1, h2⟩ := ih x h hx
        refine ⟨s :: pre, S, by rw [h1]; rfl, ?_⟩
        intro y hy
        rcases List.mem_cons.mp hy with rfl | hy
        · simpa using hs
        · exact h2 y hy

/-- a list of squares is empty throughout, or has a first man -/
theorem split_first (o : Nat → Bool) : ∀ S : List Nat,
    (∀ x ∈ S, o x = false) ∨ ∃ mid s S', S = mid ++ s :: S' ∧ (∀ x ∈ mid, o x = false) ∧ o s = true := by
  intro S
  induction S with
  | nil => left; simp
  | cons s S ih =>
    by_cases hs : o s = true
    · right; exact ⟨[], s, S, rfl, by simp, hs⟩
    · rcases ih with h | ⟨mid, s', S', h1, h2, h3⟩
      · left
        intro x hx
        rcases List.mem_cons.mp hx with rfl | hx
        · simpa using hs
        · exact h x hx
      · right
        refine ⟨s :: mid, s', S', by rw [h1]; rfl, ?_, h3⟩
        intro x hx
        rcases List.mem_cons.mp hx with rfl | hx
        · simpa using hs
        · exact h2 x hx

/-! ## what becomes visible when the first man of a line is lifted -/

theorem newVis_iff {o : Nat → Bool} {k : Spec.Kind} (hk : IsLine k) {t : Nat} (ht : t < 64) {d : Int × Int} (hd : d ∈ dirsOf k)
    {f : Nat} {pre S : List Nat} (hE : Spec.ray noOcc t d.1 d.2 8 = pre ++ f :: S) (hpre : ∀ x ∈ pre, o x = false)
    (hf : o f = true) (x : Nat) :
    (x ∈ Spec.officerTargets (without o f) k t ∧ x ∉ Spec.officerTargets o k t) ↔ x ∈ takeThrough o S := by
  have hdd := dirsOf_sub hk hd
  have hnd : (pre ++ f :: S).Nodup := hE ▸ ray_nodup noOcc ht hdd
  have hnd' := List.nodup_append.mp hnd
  have hfS : f ∉ S := (List.nodup_cons.mp hnd'.2.1).1
  have hray_o : Spec.ray o t d.1 d.2 8 = pre ++ [f] := by
    rw [ray_eq_takeThrough, hE, takeThrough_split o S hpre hf]
  have hray_w : Spec.ray (without o f) t d.1 d.2 8 = pre ++ f :: takeThrough o S := by
    rw [ray_eq_takeThrough, hE, takeThrough_pre _ _ pre (fun y hy => by simp [without, hpre y hy])]
    have h1 : without o f f = false := by simp [without]
    have h2 : takeThrough (without o f) S = takeThrough o S :=
      takeThrough_congr S (fun y hy => by
        have : y ≠ f := fun c => hfS (c ▸ hy)
        simp [without, this])
    simp only [takeThrough, h1, Bool.false_eq_true, if_false, h2]
  have hf_o : f ∈ Spec.ray o t d.1 d.2 8 := by rw [hray_o]; simp
  constructor
  · rintro ⟨hnew, hold⟩
    obtain ⟨d', hd', hx⟩ := (mem_lineTargets hk).mp hnew
    by_cases hfm : f ∈ Spec.ray o t d'.1 d'.2 8
    · have e := rays_disjoint o o ht hdd (dirsOf_sub hk hd') hf_o hfm
      subst e
      rw [hray_w] at hx
      rcases List.mem_append.mp hx with h | h
      · exact absurd ((mem_lineTargets hk).mpr ⟨d, hd, by rw [hray_o]; exact List.mem_append_left _ h⟩) hold
      · rcases List.mem_cons.mp h with h | h
        · exact absurd ((mem_lineTargets hk).mpr ⟨d, hd, by rw [h]; exact hf_o⟩) hold
        · exact h
    · rw [ray_without_not_mem o f d'.1 d'.2 8 t hfm] at hx
      exact absurd ((mem_lineTargets hk).mpr ⟨d', hd', hx⟩) hold
  · intro hx
    have hx_w : x ∈ Spec.ray (without o f) t d.1 d.2 8 := by
      rw [hray_w]; exact List.mem_append_right _ (List.mem_cons_of_mem _ hx)
    refine ⟨(mem_lineTargets hk).mpr ⟨d, hd, hx_w⟩, ?_⟩
    intro c
    obtain ⟨d', hd', hc⟩ := (mem_lineTargets hk).mp c
    have e := rays_disjoint (without o f) o ht hdd (dirsOf_sub hk hd') hx_w hc
    subst e
    rw [hray_o] at hc
    have hxS := takeThrough_subset o S x hx
    rcases List.mem_append.mp hc with h | h
    · exact hnd'.2.2 x h x (List.mem_cons_of_mem _ hxS) rfl
    · have : x = f := by simpa using h
      exact hfS (this ▸ hxS)

/-! ## facts about the empty board, by evaluation -/

/-- every square of the list sees the rest of the list as its own empty-board ray -/
def suffixOK (d : Int × Int) : List Nat → Bool
  | [] => true
  | f :: S => (Spec.ray noOcc f d.1 d.2 8 == S) && suffixOK d S

theorem suffixOK_empty : ∀ t, t < 64 → ∀ d ∈ Spec.rookDirs ++ Spec.bishopDirs,
    suffixOK d (Spec.ray noOcc t d.1 d.2 8) = true := by decide +kernel

theorem suffixOK_split (d : Int × Int) : ∀ (pre : List Nat) (f : Nat) (S : List Nat), suffixOK d (pre ++ f :: S) = true →
    Spec.ray noOcc f d.1 d.2 8 = S := by
  intro pre
  induction pre with
  | nil =>
    intro f S h
    simp only [List.nil_append, suffixOK, Bool.and_eq_true, beq_iff_eq] at h
    exact h.1
  | cons s pre ih =>
    intro f S h
    simp only [List.cons_append, suffixOK, Bool.and_eq_true] at h
    exact ih f S h.2

/-- the squares behind `f`, seen from `f` -/
theorem ray_suffix {t : Nat} (ht : t < 64) {d : Int × Int} (hd : d ∈ Spec.rookDirs ++ Spec.bishopDirs) {pre S : List Nat} {f : Nat}
    (hE : Spec.ray noOcc t d.1 d.2 8 = pre ++ f :: S) : Spec.ray noOcc f d.1 d.2 8 = S :=
  suffixOK_split d pre f S (hE ▸ suffixOK_empty t ht d hd)

/-- on a rank or file of the target: the code takes the rook branch, the reference the rook line in the same direction -/
theorem rookLine_facts : ∀ t, t < 64 → ∀ d ∈ Spec.rookDirs, ∀ f ∈ Spec.ray noOcc t d.1 d.2 8,
    isSameRankOrFile f t = true ∧ Spec.lineDir t f = some (.rook, d.1, d.2) := by decide +kernel

/-- on a diagonal of the target: the code takes the bishop branch, the reference the diagonal in the same direction -/
theorem bishopLine_facts : ∀ t, t < 64 → ∀ d ∈ Spec.bishopDirs, ∀ f ∈ Spec.ray noOcc t d.1 d.2 8,
    isSameRankOrFile f t = false ∧ isSameDiagonal f t = true ∧ Spec.lineDir t f = some (.bishop, d.1, d.2) := by decide +kernel

/-- a knight stands on no line with its target -/
theorem knight_facts : ∀ f, f < 64 → ∀ t ∈ Spec.officerTargets noOcc .knight f,
    isSameRankOrFile f t = false ∧ isSameDiagonal f t = false ∧ Spec.lineDir t f = none := by decide +kernel

/-- a pawn stands next to its target on a diagonal -/
theorem pawn_facts : ∀ f, f < 64 → ∀ c : Spec.Color, ∀ t ∈ Spec.pawnTargets c f,
    t < 64 ∧ ∃ d ∈ Spec.bishopDirs, (Spec.ray noOcc t d.1 d.2 8).head? = some f := by
  intro f hf c
  cases c <;> revert f <;> decide +kernel

/-! ## the candidate board of `addAttackerStack` -/

theorem piece_bit_iff {p : Position} {b : Board} (hrep : Rep p b) (c : Color) {k : Piece} (hk : k ≠ .none) (x : Nat) :
    (p.pieces c k).testBit x = true ↔ b x = some (c, k) := by
  constructor
  · intro h; exact (occupied_of_piece hrep c hk h).2.2
  · intro h
    rw [hrep.one c k x hk (hrep.lt_of_some h), decide_eq_true_eq]; exact h

theorem sliderOf_ne_none {k : Spec.Kind} (hk : IsLine k) : sliderOf k ≠ .none := by
  rcases hk with rfl | rfl <;> simp [sliderOf]

/-- **The candidates** of one level of the recursion are the queens and line sliders of `side` among the squares of `S` up to
    its first man — `S` being the squares behind the attacker `f` on the line from the target. -/
theorem stackBB_testBit {p : Position} {b : Board} (hrep : Rep p b) {side : Color} {t occ : Nat} {r : Rotated} {f : Nat}
    (h : StackInv p side t occ r f) (ht : t < 64) {k : Spec.Kind} (hk : IsLine k) {d : Int × Int} (hd : d ∈ dirsOf k)
    {pre S : List Nat} (hE : Spec.ray noOcc t d.1 d.2 8 = pre ++ f :: S) (hpre : ∀ x ∈ pre, occ.testBit x = false) (x : Nat) :
    (stackBB p side t r f).testBit x = true ↔
      x ∈ takeThrough (fun y => occ.testBit y) S ∧ (b x = some (side, .queen) ∨ b x = some (side, sliderOf k)) := by
  have hinv' := xor_inv h.from_lt h.inv
  have hfE : f ∈ Spec.ray noOcc t d.1 d.2 8 := by rw [hE]; simp
  have hnv := newVis_iff (o := fun y => occ.testBit y) hk ht hd hE hpre h.from_in x
  rw [← xor_bits_without h.from_lt h.from_in] at hnv
  have hq := piece_bit_iff hrep side (k := .queen) (by decide) x
  rcases hk with rfl | rfl
  · have hl := (rookLine_facts t ht d hd f hfE).1
    have hs := piece_bit_iff hrep side (k := .rook) (by decide) x
    unfold stackBB
    rw [if_pos hl, Nat.testBit_and, andNot_testBit, Nat.testBit_or, rook_of_inv hinv' ht, rook_of_inv h.inv ht]
    simp only [Bool.and_eq_true, Bool.not_eq_true', Bool.or_eq_true, hq, hs, sliderOf, ← hnv, testBit_toBB]
    constructor
    · rintro ⟨⟨h1, h2⟩, h3⟩
      exact ⟨⟨h1, fun c => by rw [(testBit_toBB _ _).mpr c] at h2; cases h2⟩, h3⟩
    · rintro ⟨⟨h1, h2⟩, h3⟩
      refine ⟨⟨h1, ?_⟩, h3⟩
      cases hc : (toBB (Spec.officerTargets (fun y => occ.testBit y) .rook t)).testBit x
      · rfl
      · exact absurd ((testBit_toBB _ _).mp hc) h2
  · obtain ⟨hl1, hl2, _⟩ := bishopLine_facts t ht d hd f hfE
    have hs := piece_bit_iff hrep side (k := .bishop) (by decide) x
    unfold stackBB
    rw [hl1, hl2]
    simp only [Bool.false_eq_true, if_false, if_true]
    rw [Nat.testBit_and, andNot_testBit, Nat.testBit_or, bishop_of_inv hinv' ht, bishop_of_inv h.inv ht]
    simp only [Bool.and_eq_true, Bool.not_eq_true', Bool.or_eq_true, hq, hs, sliderOf, ← hnv, testBit_toBB]
    constructor
    · rintro ⟨⟨h1, h2⟩, h3⟩
      exact ⟨⟨h1, fun c => by rw [(testBit_toBB _ _).mpr c] at h2; cases h2⟩, h3⟩
    · rintro ⟨⟨h1, h2⟩, h3⟩
      refine ⟨⟨h1, ?_⟩, h3⟩
      cases hc : (toBB (Spec.officerTargets (fun y => occ.testBit y) .bishop t)).testBit x
      · rfl
      · exact absurd ((testBit_toBB _ _).mp hc) h2

/-! ## the walk, on an explicit list of squares -/

/-- the reference walk over the squares `S` behind an attacker, on the mailbox board of `Rep` -/
def walkL (b : Board) (pinned : Nat → Bool) (side : Color) (k : Spec.Kind) : List Nat → List Placement
  | [] => []
  | s :: rest =>
    match b s with
    | none => walkL b pinned side k rest
    | some (c, q) =>
      if c = side ∧ (q = .queen ∨ q = sliderOf k) ∧ pinned s = false then
        { piece := q, color := side, square := s } :: walkL b pinned side k rest
      else []

theorem walkL_all_empty (b : Board) (pinned : Nat → Bool) (side : Color) (k : Spec.Kind) :
    ∀ S : List Nat, (∀ x ∈ S, b x = none) → walkL b pinned side k S = [] := by
  intro S
  induction S with
  | nil => intro _; rfl
  | cons s S ih =>
    intro h
    simp only [walkL, h s (List.mem_cons_self ..)]
    exact ih (fun x hx => h x (List.mem_cons_of_mem _ hx))

theorem walkL_skip (b : Board) (pinned : Nat → Bool) (side : Color) (k : Spec.Kind) (L : List Nat) :
    ∀ mid : List Nat, (∀ x ∈ mid, b x = none) → walkL b pinned side k (mid ++ L) = walkL b pinned side k L := by
  intro mid
  induction mid with
  | nil => intro _; rfl
  | cons s mid ih =>
    intro h
    simp only [List.cons_append, walkL, h s (List.mem_cons_self ..)]
    exact ih (fun x hx => h x (List.mem_cons_of_mem _ hx))

theorem occB_false {b : Board} {x : Nat} (h : occB b x = false) : b x = none := by
  unfold occB at h
  cases hb : b x with
  | none => rfl
  | some v => rw [hb] at h; cases h

/-! ## `addAttackerStack`, exactly -/

theorem addAttackerStack_none (pos : Position) (pins : Pins) (side : Color) (target : Nat) :
    ∀ fuel r piece f, addAttackerStack pos pins side target fuel r piece f = .ok none → isPinnedFor pins f target = true := by
  intro fuel r piece f h
  cases fuel with
  | zero => simp [addAttackerStack] at h
  | succ n =>
    rw [addAttackerStack_succ] at h
    split at h
    · assumption
    · split at h
      · cases h
      · split at h
        · split at h <;> cases h
        · cases h

theorem addAttackerStack_some (pos : Position) (pins : Pins) (side : Color) (target : Nat) :
    ∀ fuel r piece f a, addAttackerStack pos pins side target fuel r piece f = .ok (some a) →
      a.front = { piece := piece, color := side, square := f } ∧ isPinnedFor pins f target = false := by
  intro fuel r piece f a h
  cases fuel with
  | zero => simp [addAttackerStack] at h
  | succ n =>
    rw [addAttackerStack_succ] at h
    split at h
    · cases h
    · rename_i hpin
      have hpin' : isPinnedFor pins f target = false := by simpa using hpin
      split at h
      · cases h; exact ⟨rfl, hpin'⟩
      · split at h
        · split at h
          · cases h
          · cases h; exact ⟨rfl, hpin'⟩
          · cases h; exact ⟨rfl, hpin'⟩
        · cases h; exact ⟨rfl, hpin'⟩

/-- **The recursion returns the walk.** `E = pre ++ f :: S` is the empty-board ray from the target through the attacker `f`;
    on the current (partly lifted) occupancy `occ` the squares of `pre` are empty, and behind `f` nothing has been lifted. -/
theorem addAttackerStack_behind {p : Position} {b : Board} (hrep : Rep p b) (pins : Pins) (side : Color) {t : Nat} (ht : t < 64)
    {k : Spec.Kind} (hk : IsLine k) {d : Int × Int} (hd : d ∈ dirsOf k) :
    ∀ fuel occ r piece f pre S a, piece ≠ .king → StackInv p side t occ r f →
      Spec.ray noOcc t d.1 d.2 8 = pre ++ f :: S → (∀ x ∈ pre, occ.testBit x = false) →
      (∀ x ∈ S, occ.testBit x = occB b x) →
      addAttackerStack p pins side t fuel r piece f = .ok (some a) →
      a.behind = walkL b (fun s => isPinnedFor pins s t) side k S := by
  intro fuel
  induction fuel with
  | zero => intro occ r piece f pre S a _ _ _ _ _ h; simp [addAttackerStack] at h
  | succ n ih =>
    intro occ r piece f pre S a hking hinv hE hpre hS h
    have hdd := dirsOf_sub hk hd
    have hnd : (pre ++ f :: S).Nodup := hE ▸ ray_nodup noOcc ht hdd
    have hnd' := List.nodup_append.mp hnd
    have hfS : f ∉ S := (List.nodup_cons.mp hnd'.2.1).1
    have hSnd : S.Nodup := (List.nodup_cons.mp hnd'.2.1).2
    have hbits := stackBB_testBit hrep hinv ht hk hd hE hpre
    have htt : takeThrough (fun y => occ.testBit y) S = takeThrough (occB b) S := takeThrough_congr S hS
    rw [addAttackerStack_succ] at h
    split at h
    · cases h
    · rcases split_first (occB b) S with hall | ⟨mid, s, S', hS', hmid, hs⟩
      · -- nothing behind the attacker
        have hzero : stackBB p side t r f = 0 := by
          apply Classical.byContradiction
          intro hne
          obtain ⟨i, hi⟩ := Nat.exists_testBit_of_ne_zero hne
          have := (hbits i).mp hi
          have hiS := takeThrough_subset _ S i this.1
          have hbi := occB_false (hall i hiS)
          rcases this.2 with h' | h' <;> rw [hbi] at h' <;> cases h'
        have hb0 : (stackBB p side t r f != 0) = false := by simp [hzero]
        rw [hb0] at h
        simp only [Bool.false_eq_true, if_false] at h
        cases h
        rw [walkL_all_empty _ _ _ _ S (fun x hx => occB_false (hall x hx))]
      · -- `s` is the first man behind the attacker
        subst hS'
        have hmid' : ∀ x ∈ mid, b x = none := fun x hx => occB_false (hmid x hx)
        rw [walkL_skip _ _ _ _ _ mid hmid']
        have hcut : takeThrough (occB b) (mid ++ s :: S') = mid ++ [s] := takeThrough_split (occB b) S' hmid hs
        obtain ⟨cq, hbs⟩ : ∃ cq, b s = some cq := by
          unfold occB at hs
          cases hb : b s with
          | none => rw [hb] at hs; cases hs
          | some v => exact ⟨v, rfl⟩
        obtain ⟨c, q⟩ := cq
        have hsS : s ∈ mid ++ s :: S' := List.mem_append_right _ (List.mem_cons_self ..)
        have hsf : s ≠ f := fun e => hfS (e ▸ hsS)
        -- a candidate is `s`, and `s` a queen or slider of `side`
        have hcand : ∀ x, (stackBB p side t r f).testBit x = true ↔
            x = s ∧ c = side ∧ (q = .queen ∨ q = sliderOf k) := by
          intro x
          rw [hbits x, htt, hcut]
          constructor
          · rintro ⟨hx, hbx⟩
            have hxs : x = s := by
              rcases List.mem_append.mp hx with hx | hx
              · have := hmid' x hx
                rcases hbx with h' | h' <;> rw [this] at h' <;> cases h'
              · simpa using hx
            subst hxs
            rw [hbs] at hbx
            refine ⟨rfl, ?_⟩
            rcases hbx with h' | h'
            · cases h'; exact ⟨rfl, Or.inl rfl⟩
            · simp only [Option.some.injEq, Prod.mk.injEq] at h'
              exact ⟨h'.1, Or.inr h'.2⟩
          · rintro ⟨rfl, rfl, hq⟩
            refine ⟨by simp, ?_⟩
            rw [hbs]
            rcases hq with rfl | rfl
            · exact Or.inl rfl
            · exact Or.inr rfl
        by_cases hqual : c = side ∧ (q = .queen ∨ q = sliderOf k)
        · -- it qualifies: the recursion continues behind it
          have hne : stackBB p side t r f ≠ 0 := by
            intro c0
            have := (hcand s).mpr ⟨rfl, hqual⟩
            rw [c0] at this; simp at this
          obtain ⟨k', hk', h64, hnew, hold, hq', hocc', _⟩ := stackBB_spec hrep hinv ht hne
          have hF : lastPopSquare (stackBB p side t r f) = s := by
            have hQ := hrep.piecesLt side .queen
            have hR := hrep.piecesLt side .rook
            have hB := hrep.piecesLt side .bishop
            have hbit : (stackBB p side t r f).testBit (lastPopSquare (stackBB p side t r f)) = true := by
              have hlt : stackBB p side t r f < 2 ^ 64 := by
                unfold stackBB
                split
                · exact and_lt_right _ (Nat.or_lt_two_pow hQ hR)
                · split
                  · exact and_lt_right _ (Nat.or_lt_two_pow hQ hB)
                  · exact Nat.two_pow_pos 64
              exact (lastPopSquare_spec hne hlt).2.1
            exact ((hcand _).mp hbit).1
          obtain ⟨hinv', _⟩ := hinv.step ht hk' h64 hnew hold hq' hocc'
          rw [hF] at hinv'
          have hb1 : (stackBB p side t r f != 0) = true := by simpa using hne
          rw [hb1, hF] at h
          simp only [if_true] at h
          have hpa : pieceAt p s = q := pieceAt_eq hrep hbs
          rw [hpa] at h
          obtain ⟨rfl, hq⟩ := hqual
          have hqk : q ≠ .king := by
            rcases hq with rfl | rfl
            · decide
            · rcases hk with rfl | rfl <;> decide
          cases hrec : addAttackerStack p pins c t n (r.xor f) q s with
          | error e => rw [hrec] at h; cases h
          | ok res =>
            rw [hrec] at h
            cases res with
            | none =>
              cases h
              have hpin := addAttackerStack_none _ _ _ _ _ _ _ _ hrec
              simp [walkL, hbs, hpin]
            | some a' =>
              cases h
              obtain ⟨hfront, hpin⟩ := addAttackerStack_some _ _ _ _ _ _ _ _ _ hrec
              have hrest := ih (occ ^^^ bitMask f) (r.xor f) q s (pre ++ f :: mid) S' a' hqk hinv'
                (by rw [hE]; simp)
                (by
                  intro x hx
                  rw [xor_bits hinv.from_lt hinv.from_in]
                  rcases List.mem_append.mp hx with hx | hx
                  · simp [hpre x hx]
                  · rcases List.mem_cons.mp hx with rfl | hx
                    · simp
                    · have h1 := hS x (List.mem_append_left _ hx)
                      rw [hmid x hx] at h1
                      simp [h1])
                (by
                  intro x hx
                  have hxS : x ∈ mid ++ s :: S' := List.mem_append_right _ (List.mem_cons_of_mem _ hx)
                  have hxf : x ≠ f := fun e => hfS (e ▸ hxS)
                  rw [xor_bits hinv.from_lt hinv.from_in, hS x hxS]
                  simp [hxf])
                hrec
              simp only [walkL, hbs, hq, hpin, and_self, if_true]
              rw [hfront, hrest]
        · -- it does not qualify: no candidate, the stack ends here
          have hzero : stackBB p side t r f = 0 := by
            apply Classical.byContradiction
            intro hne
            obtain ⟨i, hi⟩ := Nat.exists_testBit_of_ne_zero hne
            exact hqual ((hcand i).mp hi).2
          have hb0 : (stackBB p side t r f != 0) = false := by simp [hzero]
          rw [hb0] at h
          simp only [Bool.false_eq_true, if_false] at h
          cases h
          have : ¬ (c = side ∧ (q = .queen ∨ q = sliderOf k) ∧ isPinnedFor pins s t = false) :=
            fun c3 => hqual ⟨c3.1, c3.2.1⟩
          simp only [walkL, hbs, this, if_false]

/-! ## the walk of the reference -/

/-- `Spec.xrayWalk` over an explicit list of squares -/
def walkS (q : Spec.Pos) (pinned : Nat → Bool) (side : Spec.Color) (slider : Spec.Kind) : List Nat → List (Nat × Spec.Kind)
  | [] => []
  | s :: rest =>
    match q.at s with
    | none => walkS q pinned side slider rest
    | some (c, k) =>
      if c = side ∧ (k = .queen ∨ k = slider) ∧ pinned s = false then (s, k) :: walkS q pinned side slider rest else []

theorem xrayWalk_eq_walkS (q : Spec.Pos) (pinned : Nat → Bool) (side : Spec.Color) (slider : Spec.Kind) (df dr : Int) :
    ∀ (n s : Nat), Spec.xrayWalk q pinned side slider df dr n s = walkS q pinned side slider (Spec.ray noOcc s df dr n) := by
  intro n
  induction n with
  | zero => intro s; rfl
  | succ n ih =>
    intro s
    simp only [ray_succ, Spec.xrayWalk]
    cases hs : Spec.step s df dr with
    | none => rfl
    | some s' =>
      have e : (if noOcc s' = true then [s'] else s' :: Spec.ray noOcc s' df dr n) = s' :: Spec.ray noOcc s' df dr n := rfl
      simp only [e, walkS, ih s']
      cases q.at s' with
      | none => rfl
      | some ck => rfl

/-- a placement of the model from a (square, kind) pair of the reference -/
def toPl (side : Color) (e : Nat × Spec.Kind) : Placement := { piece := kindPiece e.2, color := side, square := e.1 }

theorem kindOf_eq_queen {q : Piece} (h : q ≠ .none) : kindOf q = .queen ↔ q = .queen := by
  cases q <;> simp [kindOf] at h ⊢

theorem kindOf_eq_line {q : Piece} (h : q ≠ .none) {k : Spec.Kind} (hk : IsLine k) : kindOf q = k ↔ q = sliderOf k := by
  rcases hk with rfl | rfl <;> cases q <;> simp [kindOf, sliderOf] at h ⊢

theorem walkL_eq_walkS {p : Position} {b : Board} (hrep : Rep p b) (turn : Color) (pinned : Nat → Bool) (side : Color)
    {k : Spec.Kind} (hk : IsLine k) :
    ∀ S : List Nat, walkL b pinned side k S = (walkS (abs p turn) pinned (absColor side) k S).map (toPl side) := by
  intro S
  induction S with
  | nil => rfl
  | cons s S ih =>
    cases hb : b s with
    | none =>
      have : (abs p turn).at s = none := (hrep.abs_at_none_iff turn s).mpr hb
      simp only [walkL, walkS, hb, this, ih]
    | some cq =>
      obtain ⟨c, q⟩ := cq
      have hq := hrep.ne_none_of_some hb
      have hat : (abs p turn).at s = some (absColor c, kindOf q) := by rw [hrep.abs_at, hb, absCellB_some _ hq]
      simp only [walkL, walkS, hb, hat]
      have hiff : (absColor c = absColor side ∧ (kindOf q = .queen ∨ kindOf q = k) ∧ pinned s = false) ↔
          (c = side ∧ (q = .queen ∨ q = sliderOf k) ∧ pinned s = false) := by
        rw [kindOf_eq_queen hq, kindOf_eq_line hq hk]
        constructor
        · rintro ⟨h1, h2⟩; exact ⟨absColor_inj h1, h2⟩
        · rintro ⟨h1, h2⟩; exact ⟨by rw [h1], h2⟩
      by_cases hc : c = side ∧ (q = .queen ∨ q = sliderOf k) ∧ pinned s = false
      · rw [if_pos hc, if_pos (hiff.mpr hc), List.map_cons, ih]
        simp only [toPl, kindPiece_kindOf hq]
      · rw [if_neg hc, if_neg (fun c' => hc (hiff.mp c'))]
        rfl

/-! ## the top level -/

theorem specStack_of_not_king (q : Spec.Pos) (pinned : Nat → Bool) (t : Nat) (side : Spec.Color) (f : Nat)
    (h : ∀ c, q.at f ≠ some (c, .king)) :
    Spec.specStack q pinned t side f =
      match Spec.lineDir t f with
      | none => []
      | some (slider, df, dr) => Spec.xrayWalk q pinned side slider df dr 8 f := by
  unfold Spec.specStack
  split
  · rename_i c hc; exact absurd hc (h c)
  · rfl

/-- an attacker standing on a line with the target: its stack is the reference's -/
theorem stack_line {p : Position} {b : Board} (hrep : Rep p b) (turn : Color) (pins : Pins) (side : Color) {t : Nat} (ht : t < 64)
    {piece : Piece} {f : Nat} {a : Attacker} (hb : b f = some (side, piece)) (hpk : piece ≠ .king)
    {k : Spec.Kind} (hk : IsLine k) {d : Int × Int} (hd : d ∈ dirsOf k) (hfr : f ∈ Spec.ray (occB b) t d.1 d.2 8)
    (hres : addAttackerStack p pins side t stackFuel p.rotated piece f = .ok (some a)) :
    a.behind = (Spec.specStack (abs p turn) (fun s => isPinnedFor pins s t) t (absColor side) f).map (toPl side) := by
  have hdd := dirsOf_sub hk hd
  have hne := hrep.ne_none_of_some hb
  have hf64 := hrep.lt_of_some hb
  have hof : occB b f = true := by unfold occB; rw [hb]; rfl
  have hfr' := hfr
  rw [ray_eq_takeThrough] at hfr'
  obtain ⟨pre, S, hE, hpre⟩ := takeThrough_mem_occ (occB b) _ f hfr' hof
  have hocc : (fun s => p.rotated.rot.testBit s) = occB b := hrep.occ_eq
  have hbit : (p.pieces side piece).testBit f = true := (piece_bit_iff hrep side hne f).mpr hb
  have hvis : Vis p.rotated.rot t f := by
    unfold Vis
    rw [hocc]
    rcases hk with rfl | rfl
    · exact Or.inl ((mem_lineTargets (Or.inl rfl)).mpr ⟨d, hd, hfr⟩)
    · exact Or.inr ((mem_lineTargets (Or.inr rfl)).mpr ⟨d, hd, hfr⟩)
  have hinv := stackInv_top hrep side t hne hbit (fun _ => hvis)
  have hbeh := addAttackerStack_behind hrep pins side ht hk hd stackFuel p.rotated.rot p.rotated piece f pre S a hpk hinv hE
    (fun x hx => by have e : p.rotated.rot.testBit x = occB b x := congrFun hocc x
                    rw [e]; exact hpre x hx)
    (fun x _ => congrFun hocc x) hres
  rw [hbeh, walkL_eq_walkS hrep turn _ side hk]
  -- the reference
  have hnk : ∀ c, (abs p turn).at f ≠ some (c, .king) := by
    intro c hc
    rw [hrep.abs_at, hb, absCellB_some _ hne] at hc
    simp only [Option.some.injEq, Prod.mk.injEq] at hc
    have := (kindPiece_kindOf hne).symm
    rw [hc.2] at this
    exact hpk this
  have hfE : f ∈ Spec.ray noOcc t d.1 d.2 8 := by rw [hE]; simp
  have hline : Spec.lineDir t f = some (k, d.1, d.2) := by
    rcases hk with rfl | rfl
    · exact (rookLine_facts t ht d hd f hfE).2
    · exact (bishopLine_facts t ht d hd f hfE).2.2
  rw [specStack_of_not_king _ _ _ _ _ hnk, hline]
  show _ = List.map (toPl side) (Spec.xrayWalk (abs p turn) (fun s => isPinnedFor pins s t) (absColor side) k d.1 d.2 8 f)
  rw [xrayWalk_eq_walkS, ray_suffix ht hdd hE]

theorem mem_queenTargets {o : Nat → Bool} {t x : Nat} :
    x ∈ Spec.officerTargets o .queen t ↔ ∃ d ∈ Spec.rookDirs ++ Spec.bishopDirs, x ∈ Spec.ray o t d.1 d.2 8 := by
  simp only [Spec.officerTargets, List.mem_flatMap, Prod.exists]

/-- the stack of one direct attacker -/
theorem stack_top {p : Position} {b : Board} (hrep : Rep p b) (turn : Color) (pins : Pins) (side : Color) {t : Nat} (ht : t < 64)
    {piece : Piece} {f : Nat} {a : Attacker} (hb : b f = some (side, piece)) (hatt : Attacks b side piece f t)
    (hres : addAttackerStack p pins side t stackFuel p.rotated piece f = .ok (some a)) :
    a.behind = (Spec.specStack (abs p turn) (fun s => isPinnedFor pins s t) t (absColor side) f).map (toPl side) := by
  have hne := hrep.ne_none_of_some hb
  have hf64 := hrep.lt_of_some hb
  have hat : (abs p turn).at f = some (absColor side, kindOf piece) := by rw [hrep.abs_at, hb, absCellB_some _ hne]
  cases piece with
  | none => exact absurd rfl hne
  | king =>
    have hs : Spec.specStack (abs p turn) (fun s => isPinnedFor pins s t) t (absColor side) f = [] := by
      unfold Spec.specStack; rw [hat]; rfl
    rw [hs]
    unfold stackFuel at hres
    rw [addAttackerStack_succ] at hres
    split at hres
    · cases hres
    · simp only [if_true] at hres
      cases hres; rfl
  | knight =>
    rcases hatt with ⟨hp, _⟩ | ⟨_, _, hin⟩
    · cases hp
    · obtain ⟨h1, h2, h3⟩ := knight_facts f hf64 t hin
      have hs : Spec.specStack (abs p turn) (fun s => isPinnedFor pins s t) t (absColor side) f = [] := by
        unfold Spec.specStack; rw [hat]; simp only [kindOf, h3]
      rw [hs]
      unfold stackFuel at hres
      rw [addAttackerStack_succ] at hres
      have hz : stackBB p side t p.rotated f = 0 := by unfold stackBB; simp [h1, h2]
      split at hres
      · cases hres
      · simp [hz] at hres
        rw [← hres]
        rfl
  | pawn =>
    rcases hatt with ⟨_, hin⟩ | ⟨hp, _⟩
    · obtain ⟨_, d, hd, hhead⟩ := pawn_facts f hf64 (absColor side) t hin
      have hfr : f ∈ Spec.ray (occB b) t d.1 d.2 8 := by
        rw [ray_eq_takeThrough]
        cases hE : Spec.ray noOcc t d.1 d.2 8 with
        | nil => rw [hE] at hhead; cases hhead
        | cons x S =>
          rw [hE] at hhead
          simp only [List.head?_cons, Option.some.injEq] at hhead
          subst hhead
          unfold takeThrough
          split <;> simp
      exact stack_line hrep turn pins side ht hb (by decide) (Or.inr rfl) (d := d) hd hfr hres
    · exact absurd rfl hp
  | rook =>
    rcases hatt with ⟨hp, _⟩ | ⟨_, _, hin⟩
    · cases hp
    · obtain ⟨d, hd, hfr⟩ := (mem_lineTargets (Or.inl rfl)).mp (officerTargets_symm hf64 hin)
      exact stack_line hrep turn pins side ht hb (by decide) (Or.inl rfl) hd hfr hres
  | bishop =>
    rcases hatt with ⟨hp, _⟩ | ⟨_, _, hin⟩
    · cases hp
    · obtain ⟨d, hd, hfr⟩ := (mem_lineTargets (Or.inr rfl)).mp (officerTargets_symm hf64 hin)
      exact stack_line hrep turn pins side ht hb (by decide) (Or.inr rfl) hd hfr hres
  | queen =>
    rcases hatt with ⟨hp, _⟩ | ⟨_, _, hin⟩
    · cases hp
    · obtain ⟨d, hd, hfr⟩ := mem_queenTargets.mp (officerTargets_symm hf64 hin)
      rcases List.mem_append.mp hd with hd | hd
      · exact stack_line hrep turn pins side ht hb (by decide) (Or.inl rfl) (d := d) hd hfr hres
      · exact stack_line hrep turn pins side ht hb (by decide) (Or.inr rfl) (d := d) hd hfr hres

/-! ## every stack of `FindAttackers` comes from one top-level call of `addAttackerStack` -/

theorem mapE_mem {α β : Type} (f : α → Except SErr β) :
    ∀ (l : List α) (bs : List β), mapE f l = .ok bs → ∀ y ∈ bs, ∃ x ∈ l, f x = .ok y := by
  intro l
  induction l with
  | nil => intro bs h y hy; simp [mapE] at h; subst h; cases hy
  | cons x l ih =>
    intro bs h y hy
    unfold mapE at h
    cases hx : f x with
    | error e => rw [hx] at h; cases h
    | ok v =>
      rw [hx] at h
      cases hr : mapE f l with
      | error e => rw [hr] at h; cases h
      | ok vs =>
        rw [hr] at h
        simp only [Except.ok.injEq] at h
        subst h
        rcases List.mem_cons.mp hy with rfl | hy
        · exact ⟨x, List.mem_cons_self .., hx⟩
        · obtain ⟨x', hx', hfx⟩ := ih vs hr y hy
          exact ⟨x', List.mem_cons_of_mem _ hx', hfx⟩

theorem stacksOn_mem {pos : Position} {pins : Pins} {side : Color} {piece : Piece} {t : Nat} {bb : Bitboard} {l : List Attacker}
    (h : stacksOn pos pins side piece t bb = .ok l) {a : Attacker} (ha : a ∈ l) :
    ∃ f, addAttackerStack pos pins side t stackFuel pos.rotated piece f = .ok (some a) := by
  unfold stacksOn at h
  cases hm : mapE (fun «from» => addAttackerStack pos pins side t stackFuel pos.rotated piece «from») (toSquares bb) with
  | error e => rw [hm] at h; cases h
  | ok bs =>
    rw [hm] at h
    simp only [Except.ok.injEq] at h
    subst h
    rw [List.mem_filterMap] at ha
    obtain ⟨oa, hoa, hid⟩ := ha
    simp only [id] at hid
    subst hid
    obtain ⟨f, _, hf⟩ := mapE_mem _ _ _ hm _ hoa
    exact ⟨f, hf⟩

theorem findAttackers_mem {p : Position} {pins : Pins} {t : Nat} {side : Color} {l : List Attacker}
    (hl : findAttackers p pins t side = .ok l) {a : Attacker} (ha : a ∈ l) :
    ∃ piece f, addAttackerStack p pins side t stackFuel p.rotated piece f = .ok (some a) := by
  unfold findAttackers at hl
  rw [kqrnb_eq] at hl
  simp only [mapE, attackboard] at hl
  cases hK : stacksOn p pins side .king t (kingAttackboard t &&& p.pieces side .king) with
  | error e => simp [hK] at hl
  | ok lk =>
  cases hQ : stacksOn p pins side .queen t (queenAttackboard p.rotated t &&& p.pieces side .queen) with
  | error e => simp [hK, hQ] at hl
  | ok lq =>
  cases hR : stacksOn p pins side .rook t (rookAttackboard p.rotated t &&& p.pieces side .rook) with
  | error e => simp [hK, hQ, hR] at hl
  | ok lr =>
  cases hN : stacksOn p pins side .knight t (knightAttackboard t &&& p.pieces side .knight) with
  | error e => simp [hK, hQ, hR, hN] at hl
  | ok ln =>
  cases hB : stacksOn p pins side .bishop t (bishopAttackboard p.rotated t &&& p.pieces side .bishop) with
  | error e => simp [hK, hQ, hR, hN, hB] at hl
  | ok lb =>
  cases hP : stacksOn p pins side .pawn t (pawnCaptureboard side.opp (bitMask t) &&& p.pieces side .pawn) with
  | error e => simp [hK, hQ, hR, hN, hB, hP] at hl
  | ok lp =>
  simp only [hK, hQ, hR, hN, hB, hP, List.flatten_cons, List.flatten_nil, List.append_nil] at hl
  have hl' : l = (lk ++ (lq ++ (lr ++ (ln ++ lb)))) ++ lp := by simpa using hl.symm
  subst hl'
  simp only [List.mem_append] at ha
  rcases ha with (ha | ha | ha | ha | ha) | ha
  · exact ⟨_, stacksOn_mem hK ha⟩
  · exact ⟨_, stacksOn_mem hQ ha⟩
  · exact ⟨_, stacksOn_mem hR ha⟩
  · exact ⟨_, stacksOn_mem hN ha⟩
  · exact ⟨_, stacksOn_mem hB ha⟩
  · exact ⟨_, stacksOn_mem hP ha⟩

/-- **`findAttackers_stacks_eq_spec`.** -/
theorem findAttackers_stacks_eq_spec {p : Position} {b : Board} (hrep : Rep p b) (turn : Color) (pins : Pins) {t : Nat} (ht : t < 64)
    (side : Color) {l : List Attacker} (hl : findAttackers p pins t side = .ok l) :
    ∀ a ∈ l, a.behind =
      (Spec.specStack (abs p turn) (fun s => isPinnedFor pins s t) t (absColor side) a.front.square).map (toPl side) := by
  intro a ha
  obtain ⟨piece, f, hres⟩ := findAttackers_mem hl ha
  obtain ⟨hfront, _⟩ := addAttackerStack_some _ _ _ _ _ _ _ _ _ hres
  obtain ⟨_, hb, hatt, _, _⟩ := (findAttackers_sound hrep pins ht side hl).1 a ha
  rw [hfront] at hb hatt ⊢
  exact stack_top hrep turn pins side ht hb hatt hres

end Morlock.Proofs.Sargon
