import Morlock.Proofs.GenEmit
import Morlock.Proofs.AttackGlue
import Morlock.Proofs.AttackLeapers
/-!
# Bridging lemmas for C01: the mailbox board of `Rep` versus the reference position `abs p turn`
-/
namespace Morlock.Proofs.Gen
open Morlock Morlock.Model Morlock.Proofs.Attack

/-! ## The board as the reference sees it -/

/-- Occupancy predicate of a mailbox board. -/
def occB (b : Board) : Nat → Bool := fun s => (b s).isSome

theorem _root_.Morlock.Proofs.Rep.rotInv {p : Position} {b : Board} (h : Rep p b) : RotInv p.rotated.rot p.rotated :=
  ⟨h.rotLt, rfl, h.rot90Lt, h.rot45LLt, h.rot45RLt, h.r90, h.r45L, h.r45R⟩

theorem _root_.Morlock.Proofs.Rep.occ_eq {p : Position} {b : Board} (h : Rep p b) :
    (fun s => p.rotated.rot.testBit s) = occB b := by
  funext s
  unfold occB
  by_cases hs : s < 64
  · exact h.rot s hs
  · rw [testBit_high h.rotLt (by omega), h.out s (by omega)]; rfl

theorem _root_.Morlock.Proofs.Rep.abs_occ {p : Position} {b : Board} (h : Rep p b) (turn : Color) :
    (abs p turn).occ = occB b := by
  funext s
  unfold Spec.Pos.occ occB
  rw [h.abs_at]
  cases hb : b s with
  | none => rfl
  | some x =>
    obtain ⟨c, k⟩ := x
    rw [absCellB_some _ (h.ne_none_of_some hb)]; rfl

/-- Officer attack boards of a represented position are the reference target sets. -/
theorem attackboard_of_rep {p : Position} {b : Board} (h : Rep p b) {fr : Nat} (hfr : fr < 64)
    {piece : Piece} (hp : piece ≠ .none) (hpw : piece ≠ .pawn) :
    attackboard p.rotated fr piece = some (toBB (Spec.officerTargets (occB b) (kindOf piece) fr)) := by
  rw [← h.occ_eq]
  cases piece <;> simp only [attackboard, kindOf, ne_eq, not_true_eq_false] at hp hpw ⊢
  · rw [bishop_of_inv h.rotInv hfr]
  · rw [knight_of_lt _ hfr]
  · rw [rook_of_inv h.rotInv hfr]
  · rw [queen_of_inv h.rotInv hfr]
  · rw [king_of_lt _ hfr]

theorem colAt_none_iff {b : Board} {t : Nat} {turn : Color} :
    (colAt b t turn = false ∧ colAt b t turn.opp = false) ↔ b t = none := by
  unfold colAt
  cases hb : b t with
  | none => simp
  | some x => obtain ⟨c, k⟩ := x; cases c <;> cases turn <;> simp [Color.opp]

theorem colAt_enemy_iff {b : Board} {t : Nat} {turn : Color} :
    colAt b t turn.opp = true ↔ ∃ k, b t = some (turn.opp, k) := by
  unfold colAt
  cases hb : b t with
  | none => simp
  | some x => obtain ⟨c, k⟩ := x; cases c <;> cases turn <;> simp [Color.opp]

theorem colAt_enemy_not_own {b : Board} {t : Nat} {turn : Color} (h : colAt b t turn.opp = true) :
    colAt b t turn = false := by
  unfold colAt at h ⊢
  cases hb : b t with
  | none => simp
  | some x => obtain ⟨c, k⟩ := x; rw [hb] at h; cases c <;> cases turn <;> simp_all [Color.opp]


/-! ## Reading `abs p turn` cell by cell -/

theorem absColor_inj {c c' : Color} (h : absColor c = absColor c') : c = c' := by
  cases c <;> cases c' <;> simp [absColor] at h ⊢

theorem kindOf_kindPiece (K : Spec.Kind) : kindOf (kindPiece K) = K := by cases K <;> rfl

theorem kindPiece_ne_none (K : Spec.Kind) : kindPiece K ≠ .none := by cases K <;> simp [kindPiece]

theorem kindPiece_kindOf {k : Piece} (h : k ≠ .none) : kindPiece (kindOf k) = k := by
  cases k <;> simp [kindPiece, kindOf] at h ⊢

theorem kindOf_inj {k k' : Piece} (hk : k ≠ .none) (hk' : k' ≠ .none) (h : kindOf k = kindOf k') : k = k' := by
  rw [← kindPiece_kindOf hk, ← kindPiece_kindOf hk', h]

/-- A cell of `abs p turn` holds `(c, K)` iff the board holds the corresponding engine piece. -/
theorem _root_.Morlock.Proofs.Rep.abs_at_iff {p : Position} {b : Board} (h : Rep p b) (turn : Color)
    (sq : Nat) (c : Color) (K : Spec.Kind) :
    (abs p turn).at sq = some (absColor c, K) ↔ b sq = some (c, kindPiece K) := by
  rw [h.abs_at]
  cases hb : b sq with
  | none => simp [absCellB]
  | some x =>
    obtain ⟨c', k⟩ := x
    have hk := h.ne_none_of_some hb
    rw [absCellB_some _ hk]
    simp only [Option.some.injEq, Prod.mk.injEq]
    constructor
    · rintro ⟨h1, h2⟩
      exact ⟨absColor_inj h1, by rw [← h2, kindPiece_kindOf hk]⟩
    · rintro ⟨h1, h2⟩
      exact ⟨by rw [h1], by rw [h2, kindOf_kindPiece]⟩

theorem _root_.Morlock.Proofs.Rep.abs_at_none_iff {p : Position} {b : Board} (h : Rep p b) (turn : Color)
    (sq : Nat) : (abs p turn).at sq = none ↔ b sq = none := by
  rw [h.abs_at]
  cases hb : b sq with
  | none => simp [absCellB]
  | some x =>
    obtain ⟨c', k⟩ := x
    rw [absCellB_some _ (h.ne_none_of_some hb)]; simp

/-- A cell of `abs p turn` holds a piece of colour `c` iff the board does. -/
theorem _root_.Morlock.Proofs.Rep.abs_at_colour {p : Position} {b : Board} (h : Rep p b) (turn : Color)
    (sq : Nat) (c : Color) :
    (∃ K, (abs p turn).at sq = some (absColor c, K)) ↔ colAt b sq c = true := by
  unfold colAt
  constructor
  · rintro ⟨K, hK⟩
    rw [(h.abs_at_iff turn sq c K).mp hK]; simp
  · intro hc
    cases hb : b sq with
    | none => rw [hb] at hc; cases hc
    | some x =>
      obtain ⟨c', k⟩ := x
      rw [hb] at hc
      have : c' = c := by simpa using hc
      subst this
      refine ⟨kindOf k, (h.abs_at_iff turn sq c' _).mpr ?_⟩
      rw [hb, kindPiece_kindOf (h.ne_none_of_some hb)]

end Morlock.Proofs.Gen
